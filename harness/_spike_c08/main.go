package main

import (
	"context"
	"encoding/json"
	"fmt"
	"math/big"
	"time"

	abci "github.com/cometbft/cometbft/abci/types"
	"github.com/ethereum/go-ethereum/common"
	"github.com/ethereum/go-ethereum/common/hexutil"

	evmtypes "github.com/EscanBE/evermint/v12/x/evm/types"

	"verifharness/vh"
)

func main() {
	r := vh.NewRNG(1)
	w := vh.NewWorld(r, vh.WorldOpts{Chain: vh.Config{Seed: 1, NumVals: 2, Erc20Native: true, StakingCPC: true}, NumEOA: 4, Prog: vh.ProgOpts{MaxLen: 6, Depth: 2}})
	c := w.C
	defer c.Cleanup()
	t0 := time.Now()
	w.DeployGenerated(8, nil)
	fmt.Println("deploy", time.Since(t0), "height", c.Height)
	for i := 0; i < 5; i++ {
		c.NextBlock(nil, nil)
	}
	t0 = time.Now()
	d := c.DumpStores(c.QueryCtx())
	h := d.Hash()
	fmt.Println("dump", len(d), h[:8], time.Since(t0))
	fmt.Println("commit id", c.App.LastCommitID().Version, fmt.Sprintf("%x", c.App.LastCommitID().Hash))
	from := w.EOAs[0].Addr
	to := w.Contracts[0].Addr
	gas := hexutil.Uint64(500000)
	data := hexutil.Bytes{1, 2, 3, 4}
	args := evmtypes.TransactionArgs{From: &from, To: &to, Gas: &gas, Data: &data}
	bz, _ := json.Marshal(args)
	req := &evmtypes.EthCallRequest{Args: bz, GasCap: 25_000_000}
	rb, _ := req.Marshal()
	for _, hgt := range []int64{0, c.Height, c.Height - 3, 2, 1, c.Height + 1, -1} {
		t0 = time.Now()
		res, err := c.App.Query(context.Background(), &abci.RequestQuery{Path: "/ethermint.evm.v1.Query/EthCall", Data: rb, Height: hgt})
		fmt.Println("query h", hgt, "err", err, "code", res.Code, "log", res.Log, "len", len(res.Value), time.Since(t0))
		if res.Code == 0 {
			var out evmtypes.MsgEthereumTxResponse
			_ = out.Unmarshal(res.Value)
			fmt.Println("  gas", out.GasUsed, "vmerr", out.VmError, "ret", len(out.Ret))
		}
	}
	_ = big.NewInt
	_ = common.Address{}
}
