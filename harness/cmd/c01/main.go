package main

import (
	"os"

	"verifharness/props/c01"
	"verifharness/vh"
)

func main() {
	if os.Getenv("C01_MODE") == "follow" {
		os.Exit(c01.Follow())
	}
	run := vh.Start("C01")
	c01.Run(run)
	run.Finish()
}
