package main

import (
	"verifharness/mon"
	"verifharness/vh"
)

func main() {
	run := vh.Start("C02")
	mon.DiffGeth(run)
	run.Finish()
}
