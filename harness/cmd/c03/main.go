package main

import (
	"verifharness/props/c03"
	"verifharness/vh"
)

func main() {
	run := vh.Start("C03")
	c03.Run(run)
	run.Finish()
}
