package main

import (
	"fmt"
	"math/big"

	sdkmath "cosmossdk.io/math"
	sdk "github.com/cosmos/cosmos-sdk/types"
	distrkeeper "github.com/cosmos/cosmos-sdk/x/distribution/keeper"
	distrtypes "github.com/cosmos/cosmos-sdk/x/distribution/types"
	stakingkeeper "github.com/cosmos/cosmos-sdk/x/staking/keeper"
	stakingtypes "github.com/cosmos/cosmos-sdk/x/staking/types"
	"github.com/ethereum/go-ethereum/common"
	ethtypes "github.com/ethereum/go-ethereum/core/types"

	evmvm "github.com/EscanBE/evermint/v12/x/evm/vm"
	cpcabi "github.com/EscanBE/evermint/v12/x/cpc/abi"
	cpctypes "github.com/EscanBE/evermint/v12/x/cpc/types"

	"verifharness/vh"
)

func main() {
	r := vh.NewRNG(7)
	a := vh.NewAcct(r)
	b := vh.NewAcct(r)
	c := vh.NewChain(vh.Config{Seed: 1, NumVals: 2, Erc20Native: true, StakingCPC: true,
		Accounts: []vh.GenAccount{{Addr: a.Addr, Coins: vh.NativeCoins(1000)}, {Addr: b.Addr, Coins: vh.NativeCoins(1000)}}})
	defer c.Cleanup()
	for _, m := range c.App.CPCKeeper.GetAllCustomPrecompiledContractsMeta(c.QueryCtx()) {
		fmt.Println("cpc", common.BytesToAddress(m.Address), m.CustomPrecompiledType, m.Name, m.TypedMeta)
	}
	fmt.Println("staking fixed", cpctypes.CpcStakingFixedAddress)
	// first tx: failing create
	price := new(big.Int).Mul(c.BaseFee(), big.NewInt(2))
	bz, _ := c.EthTx(a, vh.LegacyTx(0, nil, nil, 200000, price, []byte{0xfe}))
	ob := c.RunObserved([][]byte{bz}, nil, nil, true)
	res := ob.Res.TxResults[0]
	rc, attrs := vh.ReceiptOf(res)
	fmt.Println("code", res.Code, res.Log, "rc", rc != nil, attrs["error"])
	if rc != nil {
		fmt.Println("status", rc.Status)
	}
	for _, s := range vh.ChangeStrings(vh.Diff(ob.Pre[0].Dump, ob.Post[0].Dump)) {
		fmt.Println("  ", s)
	}
	// second failing tx
	bz, _ = c.EthTx(a, vh.LegacyTx(1, nil, nil, 200000, price, []byte{0xfe}))
	ob = c.RunObserved([][]byte{bz}, nil, nil, true)
	fmt.Println("second")
	for _, s := range vh.ChangeStrings(vh.Diff(ob.Pre[0].Dump, ob.Post[0].Dump)) {
		fmt.Println("  ", s)
	}
	// delegate by cosmos tx
	msg := stakingtypes.NewMsgDelegate(a.Bech32(), c.Vals[0].Oper.String(), sdk.NewCoin(vh.Denom, sdkmath.NewIntFromBigInt(vh.Ether(5))))
	br := c.NextBlock([][]byte{c.CosmosTx(a, []sdk.Msg{msg}, nil)}, nil)
	fmt.Println("delegate", br.TxResults()[0].Code, br.TxResults()[0].Log)
	for i := 0; i < 3; i++ {
		to := b.Addr
		bz, _ = c.EthTx(b, vh.LegacyTx(uint64(i), &to, nil, 100000, price, nil))
		c.NextBlock([][]byte{bz}, nil)
	}
	q := distrkeeper.NewQuerier(c.App.DistrKeeper)
	rw, err := q.DelegationRewards(c.QueryCtx(), &distrtypes.QueryDelegationRewardsRequest{DelegatorAddress: a.Bech32(), ValidatorAddress: c.Vals[0].Oper.String()})
	fmt.Println("rewards", rw, err)

	// statedb on branch
	base := c.QueryCtx()
	ctxA, _ := base.CacheContext()
	sdb := evmvm.NewStateDB(ctxA, common.Address{}, c.App.EvmKeeper, c.App.AccountKeeper, c.App.BankKeeper)
	d0 := c.DumpStores(ctxA)
	id := sdb.Snapshot()
	fresh := common.BytesToAddress(r.Bytes(20))
	sdb.AddBalance(fresh, big.NewInt(5))
	sdb.SetState(fresh, common.Hash{1}, common.Hash{2})
	sdb.AddLog(&ethtypes.Log{Address: fresh})
	cur := sdb.GetCurrentContext()
	_, err = stakingkeeper.NewMsgServerImpl(c.App.StakingKeeper).Delegate(cur, stakingtypes.NewMsgDelegate(a.Bech32(), c.Vals[0].Oper.String(), sdk.NewCoin(vh.Denom, sdkmath.NewInt(1000))))
	fmt.Println("deleg err", err, "events in cur", len(cur.EventManager().Events()))
	_, err = distrkeeper.NewMsgServerImpl(c.App.DistrKeeper).WithdrawDelegatorReward(cur, distrtypes.NewMsgWithdrawDelegatorReward(a.Bech32(), c.Vals[0].Oper.String()))
	fmt.Println("withdraw err", err)
	c.App.CPCKeeper.SetErc20CpcAllowance(cur, a.Addr, b.Addr, big.NewInt(77))
	err = c.App.BankKeeper.SendCoins(cur, a.Acc(), b.Acc(), sdk.NewCoins(sdk.NewCoin(vh.Denom, sdkmath.NewInt(9))))
	fmt.Println("send err", err)
	fmt.Println("diff via cur:", len(vh.Diff(d0, c.DumpStores(sdb.GetCurrentContext()))), "via ctxA:", len(vh.Diff(d0, c.DumpStores(ctxA))))
	sdb.RevertToSnapshot(id)
	fmt.Println("after revert diff via cur:", len(vh.Diff(d0, c.DumpStores(sdb.GetCurrentContext()))), "logs", len(sdb.GetTransactionLogs()))
	sdb.AddBalance(fresh, big.NewInt(5))
	fmt.Println(sdb.CommitMultiStore(true))
	for _, s := range vh.ChangeStrings(vh.Diff(d0, c.DumpStores(ctxA))) {
		fmt.Println("  ", s)
	}
	for _, e := range ctxA.EventManager().Events() {
		fmt.Println("  ev", e.Type, len(e.Attributes))
	}
	in, err := cpcabi.Erc20CpcInfo.ABI.Pack("transfer", b.Addr, big.NewInt(5))
	fmt.Printf("%x %v\n", in, err)
}
