package main

import (
	"verifharness/mon"
	"verifharness/vh"
)

func main() {
	run := vh.Start("C04")
	mon.Ledger(run, "C04")
	run.Finish()
}
