package main

import (
	"verifharness/mon"
	"verifharness/vh"
)

func main() {
	run := vh.Start("C05")
	mon.Ledger(run, "C05")
	run.Finish()
}
