package main

import (
	"verifharness/props/c06"
	"verifharness/vh"
)

func main() {
	run := vh.Start("C06")
	c06.Run(run)
	run.Finish()
}
