package main

import (
	"verifharness/props/c07"
	"verifharness/vh"
)

func main() {
	run := vh.Start("C07")
	c07.Run(run)
	run.Finish()
}
