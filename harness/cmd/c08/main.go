package main

import (
	"os"

	"verifharness/props/c08"
	"verifharness/props/live"
	"verifharness/vh"
)

func main() {
	if os.Getenv("LIVE_LEG") != "" { // child process of the live part (d)
		os.Exit(live.ChildMain())
	}
	run := vh.Start("C08")
	c08.RunD1(run)
	// (d) query goroutines (EthCall, EstimateGas, TraceTx, module queries, CheckTx, Simulate) concurrent with
	// block production on one application instance, under the race detector and in the plain build
	q := !run.Thorough()
	n := func(a, b int) int {
		if q {
			return a
		}
		return b
	}
	live.RunLegs(run, "c08", []live.LegSpec{
		{Leg: "queries", Bin: "race", Trials: n(4, 30), Aggro: 2, Procs: n(2, 6)},
		{Leg: "queries", Bin: "plain", Trials: n(10, 100), Aggro: 2, Procs: n(1, 4)},
	})
	run.Finish()
}
