package main

import (
	"verifharness/props/c08"
	"verifharness/vh"
)

func main() {
	run := vh.Start("C08")
	c08.RunD1(run)
	run.Finish()
}
