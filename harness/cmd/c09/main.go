package main

import (
	"verifharness/props/c09"
	"verifharness/vh"
)

func main() {
	run := vh.Start("C09")
	c09.Run(run)
	run.Finish()
}
