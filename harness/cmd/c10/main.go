package main

import (
	"verifharness/props/c10"
	"verifharness/vh"
)

func main() {
	run := vh.Start("C10")
	c10.Run(run)
	run.Finish()
}
