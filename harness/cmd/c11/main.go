package main

import (
	"verifharness/props/c11"
	"verifharness/vh"
)

func main() {
	run := vh.Start("C11")
	c11.Run(run)
	run.Finish()
}
