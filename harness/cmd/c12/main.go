package main

import (
	"verifharness/props/c12"
	"verifharness/vh"
)

func main() {
	run := vh.Start("C12")
	c12.Run(run)
	run.Finish()
}
