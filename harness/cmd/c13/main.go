package main

import (
	"verifharness/props/c13"
	"verifharness/vh"
)

func main() {
	run := vh.Start("C13")
	c13.Run(run)
	run.Finish()
}
