package main

import (
	"os"

	"verifharness/props/c14"
	"verifharness/vh"
)

func main() {
	if os.Getenv("C14_LEG") == "linearizability" { // race-build child process
		os.Exit(c14.LinChild())
	}
	run := vh.Start("C14")
	c14.Run(run)
	run.Finish()
}
