package main

import (
	"verifharness/props/c15"
	"verifharness/vh"
)

func main() {
	run := vh.Start("C15")
	c15.Run(run)
	run.Finish()
}
