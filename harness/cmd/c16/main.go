package main

import (
	"verifharness/props/c16"
	"verifharness/vh"
)

func main() {
	run := vh.Start("C16")
	c16.Run(run)
	run.Finish()
}
