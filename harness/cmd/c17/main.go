package main

import (
	"verifharness/props/c17"
	"verifharness/vh"
)

func main() {
	run := vh.Start("C17")
	c17.Run(run)
	run.Finish()
}
