package main

import (
	"encoding/json"
	"fmt"
	"math/big"
	"time"

	sdkmath "cosmossdk.io/math"
	abci "github.com/cometbft/cometbft/abci/types"
	sdk "github.com/cosmos/cosmos-sdk/types"
	authtypes "github.com/cosmos/cosmos-sdk/x/auth/types"
	govtypes "github.com/cosmos/cosmos-sdk/x/gov/types"
	govv1 "github.com/cosmos/cosmos-sdk/x/gov/types/v1"
	"github.com/ethereum/go-ethereum/common"
	"github.com/ethereum/go-ethereum/common/hexutil"

	chainapp "github.com/EscanBE/evermint/v12/app"
	"github.com/EscanBE/evermint/v12/app/params"
	cpcabi "github.com/EscanBE/evermint/v12/x/cpc/abi"
	cpctypes "github.com/EscanBE/evermint/v12/x/cpc/types"
	evmtypes "github.com/EscanBE/evermint/v12/x/evm/types"

	"verifharness/vh"
)

func main() {
	r := vh.NewRNG(1)
	a := vh.NewAcct(r)
	b := vh.NewAcct(r)
	gov := authtypes.NewModuleAddress(govtypes.ModuleName)
	c := vh.NewChain(vh.Config{Seed: 1, NumVals: 3, Erc20Native: true, StakingCPC: true,
		CpcWhitelist: []string{a.Bech32()},
		Accounts: []vh.GenAccount{{Addr: a.Addr, Coins: vh.NativeCoins(100).Add(sdk.NewCoin("uatom2", sdkmath.NewInt(1000)))}, {Addr: b.Addr, Coins: vh.NativeCoins(100)}},
		MutateGenesis: func(enc params.EncodingConfig, gs chainapp.GenesisState) {
			var gg govv1.GenesisState
			enc.Codec.MustUnmarshalJSON(gs[govtypes.ModuleName], &gg)
			fmt.Println("gov params", gg.Params.String())
			vp := 2 * time.Second
			evp := 1 * time.Second
			gg.Params.VotingPeriod = &vp
			gg.Params.ExpeditedVotingPeriod = &evp
			gg.Params.MinDeposit = sdk.NewCoins(sdk.NewCoin(vh.Denom, sdkmath.NewInt(1000)))
			gg.Params.ExpeditedMinDeposit = sdk.NewCoins(sdk.NewCoin(vh.Denom, sdkmath.NewInt(2000)))
			gs[govtypes.ModuleName] = enc.Codec.MustMarshalJSON(&gg)
		}})
	defer c.Cleanup()
	// deploy erc20 for uatom2 by whitelisted a
	msg := &cpctypes.MsgDeployErc20ContractRequest{Authority: a.Bech32(), Name: "atomtwo", Symbol: "ATOM2", Decimals: 6, MinDenom: "uatom2"}
	bz := c.CosmosTx(a, []sdk.Msg{msg}, nil)
	msg2 := &cpctypes.MsgDeployErc20ContractRequest{Authority: b.Bech32(), Name: "atomtwo", Symbol: "ATOM2", Decimals: 6, MinDenom: "uatom2"}
	bz2 := c.CosmosTx(b, []sdk.Msg{msg2}, nil)
	br := c.NextBlock([][]byte{bz2, bz}, nil)
	for i, res := range br.TxResults() {
		fmt.Println("deploy", i, res.Code, res.Log, res.GasUsed)
	}
	metas := c.App.CPCKeeper.GetAllCustomPrecompiledContractsMeta(c.QueryCtx())
	for _, m := range metas {
		fmt.Println("meta", common.BytesToAddress(m.Address), m.CustomPrecompiledType, m.Name, m.TypedMeta, m.Disabled)
	}
	// gov proposal: update params whitelist := [b]
	up := &cpctypes.MsgUpdateParams{Authority: gov.String(), NewParams: cpctypes.Params{ProtocolVersion: 1, WhitelistedDeployers: []string{b.Bech32()}}}
	sp, err := govv1.NewMsgSubmitProposal([]sdk.Msg{up}, sdk.NewCoins(sdk.NewCoin(vh.Denom, sdkmath.NewInt(1000))), b.Bech32(), "", "t", "s", false)
	if err != nil {
		panic(err)
	}
	txs := [][]byte{c.CosmosTx(b, []sdk.Msg{sp}, &vh.CosmosOpts{Gas: 1_000_000})}
	for _, v := range c.Vals {
		txs = append(txs, c.CosmosTx(v.Acct, []sdk.Msg{govv1.NewMsgVote(v.Acct.Acc(), 1, govv1.OptionYes, "")}, nil))
	}
	// user-signed update params
	up2 := &cpctypes.MsgUpdateParams{Authority: b.Bech32(), NewParams: cpctypes.Params{ProtocolVersion: 1, WhitelistedDeployers: []string{b.Bech32()}}}
	seq := c.Nonce(b.Addr) + 1
	txs = append(txs, c.CosmosTx(b, []sdk.Msg{up2}, &vh.CosmosOpts{Seq: &seq}))
	br = c.NextBlock(txs, nil)
	for i, res := range br.TxResults() {
		fmt.Println("gov", i, res.Code, res.Log, res.GasUsed)
	}
	fmt.Println("params after submit block", c.App.CPCKeeper.GetParams(c.QueryCtx()))
	br = c.NextBlock(nil, nil)
	fmt.Println("params after +1", c.App.CPCKeeper.GetParams(c.QueryCtx()))
	for _, e := range br.Res.Events {
		if e.Type == "active_proposal" || e.Type == "proposal_result" {
			fmt.Println(e.String())
		}
	}
	p, err := c.App.GovKeeper.Proposals.Get(c.QueryCtx(), 1)
	fmt.Println("proposal", p.Status, err, p.FailedReason)

	// probes
	name := cpcabi.Erc20CpcInfo.ABI.Methods["name"].ID
	pref := cpcabi.Bech32CpcInfo.ABI.Methods["bech32AccountAddrPrefix"].ID
	dec := cpcabi.Erc20CpcInfo.ABI.Methods["decimals"].ID
	var addrs []common.Address
	for _, m := range metas {
		addrs = append(addrs, common.BytesToAddress(m.Address))
	}
	addrs = append(addrs, b.Addr, common.HexToAddress("0x1234567890123456789012345678901234567890"))
	nonce := c.Nonce(b.Addr)
	price := new(big.Int).Mul(c.BaseFee(), big.NewInt(2))
	var ptxs [][]byte
	for _, ad := range addrs {
		for _, sel := range [][]byte{name, dec, pref} {
			to := ad
			bz, _ := c.EthTx(b, vh.LegacyTx(nonce, &to, nil, 200000, price, sel))
			nonce++
			gi, sres, err := c.App.Simulate(bz)
			if err != nil {
				fmt.Println("sim err", ad, err)
			} else {
				var ret []byte
				var vmerr string
				for _, any := range sres.MsgResponses {
					var rr evmtypes.MsgEthereumTxResponse
					if e := rr.Unmarshal(any.Value); e == nil {
						ret, vmerr = rr.Ret, rr.VmError
					}
				}
				fmt.Printf("sim %s %x gas=%d ret=%d vmerr=%q\n", ad, sel, gi.GasUsed, len(ret), vmerr)
			}
			cres, err := c.App.CheckTx(&abci.RequestCheckTx{Tx: bz, Type: abci.CheckTxType_New})
			fmt.Println("check", cres.Code, cres.Log, err)
			ptxs = append(ptxs, bz)
			// query
			from := b.Addr
			data := hexutil.Bytes(sel)
			args := evmtypes.TransactionArgs{From: &from, To: &to, Data: &data}
			abz, _ := json.Marshal(args)
			qres, err := c.App.EvmKeeper.EthCall(c.QueryCtx(), &evmtypes.EthCallRequest{Args: abz, GasCap: 1_000_000})
			if err != nil {
				fmt.Println("ethcall err", err)
			} else {
				fmt.Printf("query %s %x ret=%d vmerr=%q\n", ad, sel, len(qres.Ret), qres.VmError)
			}
		}
	}
	br = c.NextBlock(ptxs, nil)
	for i, res := range br.TxResults() {
		er := vh.EthResponse(res)
		if er == nil {
			fmt.Println("deliver", i, res.Code, res.Log)
			continue
		}
		fmt.Printf("deliver %d code=%d ret=%d vmerr=%q gas=%d\n", i, res.Code, len(er.Ret), er.VmError, er.GasUsed)
	}
	// disabled probe
	ctx := c.QueryCtx()
	m := metas[len(metas)-1]
	m.Disabled = true
	fmt.Println("set disabled", common.BytesToAddress(m.Address), c.App.CPCKeeper.SetCustomPrecompiledContractMeta(ctx, m, false))
	from := b.Addr
	to := common.BytesToAddress(m.Address)
	for _, sel := range [][]byte{name, dec, pref} {
		data := hexutil.Bytes(sel)
		args := evmtypes.TransactionArgs{From: &from, To: &to, Data: &data}
		abz, _ := json.Marshal(args)
		qres, err := c.App.EvmKeeper.EthCall(ctx, &evmtypes.EthCallRequest{Args: abz, GasCap: 1_000_000})
		fmt.Printf("disabled query %x ret=%x vmerr=%q err=%v\n", sel, qres.Ret, qres.VmError, err)
	}
	exp, err := c.App.ExportAppStateAndValidators(false, nil, nil)
	fmt.Println("export", err, exp.Height, len(exp.AppState), len(exp.Validators))
}
