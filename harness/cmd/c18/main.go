package main

import (
	"verifharness/props/c18"
	"verifharness/vh"
)

func main() {
	run := vh.Start("C18")
	c18.Run(run)
	run.Finish()
}
