package main

import (
	"verifharness/props/c19"
	"verifharness/vh"
)

func main() {
	run := vh.Start("C19")
	c19.Run(run)
	run.Finish()
}
