package main

import (
	"os"

	"verifharness/props/c19"
	"verifharness/vh"
)

func main() {
	if os.Getenv("C19_ASAN_LEG") != "" { // child process built with -asan (thorough tier)
		os.Exit(c19.AsanChildMain())
	}
	run := vh.Start("C19")
	c19.Run(run)
	run.Finish()
}
