package main

import (
	"os"

	"verifharness/props/c06"
	"verifharness/props/c20"
	"verifharness/props/live"
	"verifharness/vh"
)

func main() {
	// In a child process (env VERIF_C20_CHILD / LIVE_LEG) this runs the requested batch or
	// live leg and exits. It must stay the first statement of main.
	c20.ChildMain()
	if os.Getenv("LIVE_LEG") != "" {
		os.Exit(live.ChildMain())
	}
	run := vh.Start("C20")
	// the live legs (6 child processes) run alongside the deterministic part (vh.Run is thread-safe)
	done := make(chan struct{})
	go func() { defer close(done); live.RunLegs(run, "c20", c20LiveSpecs(run)) }()
	c20.RunD1(run)
	// end-of-block processing of passed governance proposals that carry an Ethereum transaction (in-process: the failure is a
	// panic / error of FinalizeBlock, recovered by the scenario)
	for gi := 0; gi < run.N(8, 80); gi++ {
		c06.GovReplay(run, gi, true)
	}
	run.Floor("passed governance proposals with an Ethereum transaction run by the end blocker", run.Get("governance_proposals_with_an_ethereum_tx_run_by_the_end_blocker"), int64(run.N(6, 60)))
	<-done
	run.Floor("filter-leg trials after which every filter was uninstalled and the goroutines serving them were followed to rest", run.Get("filters_trials_checked_for_goroutines_outliving_their_filters"), int64(run.N(20, 400)))
	run.Finish()
}

// c20LiveSpecs: concurrent JSON-RPC stack under seeded hook-point schedules (engine E6):
// event bus, filter system / filter API, websocket server; race build and plain build.
func c20LiveSpecs(run *vh.Run) []live.LegSpec {
	q := !run.Thorough()
	n := func(a, b int) int {
		if q {
			return a
		}
		return b
	}
	return []live.LegSpec{
		{Leg: "pubsub", Bin: "race", Trials: n(60, 600), Aggro: 2, Procs: n(1, 4)},
		{Leg: "pubsub", Bin: "plain", Trials: n(150, 1500), Aggro: 3, Procs: n(1, 3)},
		{Leg: "filters", Bin: "race", Trials: n(12, 250), Aggro: 2, Procs: n(1, 4)},
		{Leg: "filters", Bin: "plain", Trials: n(30, 600), Aggro: 3, Procs: n(1, 3)},
		{Leg: "websocket", Bin: "race", Trials: n(15, 150), Aggro: 2, Procs: n(1, 4)},
		{Leg: "websocket", Bin: "plain", Trials: n(40, 400), Aggro: 3, Procs: n(1, 3)},
	}
}
