package main

import (
	"verifharness/props/c20"
	"verifharness/vh"
)

func main() {
	// In a child process (env VERIF_C20_CHILD) this runs the requested batch and exits.
	// It must stay the first statement of main.
	c20.ChildMain()
	run := vh.Start("C20")
	c20.RunD1(run)
	run.Finish()
}
