package main

import (
	"fmt"
	"math/big"
	"time"

	"github.com/ethereum/go-ethereum/common"

	"verifharness/vh"
)

func main() {
	r := vh.NewRNG(1)
	a := vh.NewAcct(r)
	b := vh.NewAcct(r)
	t0 := time.Now()
	c := vh.NewChain(vh.Config{Seed: 1, NumVals: 3, Erc20Native: true, StakingCPC: true,
		Accounts: []vh.GenAccount{{Addr: a.Addr, Coins: vh.NativeCoins(100)}}})
	defer c.Cleanup()
	fmt.Println("init", time.Since(t0))
	var dumps []vh.Dump
	c.OnTx(func(o *vh.TxObs) {
		if o.Mode == vh.ModeDeliver {
			dumps = append(dumps, c.DumpStores(o.Ctx))
		}
	})
	to := b.Addr
	bz, tx := c.EthTx(a, vh.LegacyTx(0, &to, big.NewInt(12345), 100000, big.NewInt(2_000_000_000), nil))
	_ = tx
	t0 = time.Now()
	br := c.NextBlock([][]byte{bz}, nil)
	fmt.Println("block", time.Since(t0), br.Err)
	for i, r := range br.Res.TxResults {
		fmt.Println(i, r.Code, r.GasWanted, r.GasUsed, r.Log, len(r.Events))
	}
	fmt.Println("dumps", len(dumps), len(dumps[0]))
	for _, ch := range vh.Diff(dumps[0], dumps[1]) {
		fmt.Println(ch)
	}
	fmt.Println("bal b", c.Balance(b.Addr), "nonce a", c.Nonce(a.Addr), "basefee", c.BaseFee())
	for i := 0; i < 3; i++ {
		br = c.NextBlock(nil, nil)
		fmt.Println("empty block", br.Err, len(br.Res.ValidatorUpdates), "basefee", c.BaseFee())
	}
	_ = common.Address{}
}
