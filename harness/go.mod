module verifharness

go 1.22.4

require (
	cosmossdk.io/api v0.7.5
	cosmossdk.io/client/v2 v2.0.0-beta.3
	cosmossdk.io/core v0.11.1
	cosmossdk.io/errors v1.0.1
	cosmossdk.io/log v1.4.1
	cosmossdk.io/math v1.3.0
	cosmossdk.io/store v1.1.1
	cosmossdk.io/tools/confix v0.1.2
	cosmossdk.io/tools/rosetta v0.2.1-0.20230613133644-0a778132a60f
	cosmossdk.io/x/evidence v0.1.1
	cosmossdk.io/x/feegrant v0.1.1
	cosmossdk.io/x/tx v0.13.5
	cosmossdk.io/x/upgrade v0.1.4
	github.com/btcsuite/btcd v0.24.2
	github.com/btcsuite/btcd/btcutil v1.1.6
	github.com/cometbft/cometbft v0.38.12
	github.com/cometbft/cometbft-db v0.12.0
	github.com/cosmos/cosmos-db v1.0.2
	github.com/cosmos/cosmos-proto v1.0.0-beta.5
	github.com/cosmos/cosmos-sdk v0.50.10
	github.com/cosmos/go-bip39 v1.0.0
	github.com/cosmos/gogoproto v1.7.0
	github.com/cosmos/ibc-go/modules/capability v1.0.1
	github.com/cosmos/ibc-go/v8 v8.5.1
	github.com/davecgh/go-spew v1.1.2-0.20180830191138-d8f796af33cc
	github.com/ethereum/go-ethereum v1.10.26
	github.com/golang/protobuf v1.5.4
	github.com/google/uuid v1.6.0
	github.com/gorilla/mux v1.8.1
	github.com/gorilla/websocket v1.5.3
	github.com/grpc-ecosystem/grpc-gateway v1.16.0
	github.com/hashicorp/go-metrics v0.5.3
	github.com/hashicorp/go-version v1.6.0
	github.com/onsi/ginkgo/v2 v2.13.0
	github.com/onsi/gomega v1.28.0
	github.com/ory/dockertest/v3 v3.10.0
	github.com/pkg/errors v0.9.1
	github.com/rs/cors v1.11.1
	github.com/spf13/cast v1.6.0
	github.com/spf13/cobra v1.8.1
	github.com/spf13/pflag v1.0.5
	github.com/spf13/viper v1.19.0
	github.com/stretchr/testify v1.9.0
	github.com/tidwall/gjson v1.14.4
	github.com/tidwall/sjson v1.2.5
	github.com/tyler-smith/go-bip39 v1.1.0
	github.com/zondax/hid v0.9.2
	golang.org/x/net v0.28.0
	golang.org/x/sync v0.8.0
	golang.org/x/text v0.17.0
	google.golang.org/genproto/googleapis/api v0.0.0-20240624140628-dc46fd24d27d
	google.golang.org/grpc v1.64.1
	google.golang.org/protobuf v1.34.2
	sigs.k8s.io/yaml v1.4.0
)

require (
	cloud.google.com/go v0.115.0 // indirect
	cloud.google.com/go/auth v0.6.0 // indirect
	cloud.google.com/go/auth/oauth2adapt v0.2.2 // indirect
	cloud.google.com/go/compute/metadata v0.3.0 // indirect
	cloud.google.com/go/iam v1.1.9 // indirect
	cloud.google.com/go/storage v1.41.0 // indirect
	cosmossdk.io/collections v0.4.0 // indirect
	cosmossdk.io/depinject v1.0.0 // indirect
	cosmossdk.io/x/circuit v0.1.1 // indirect
	filippo.io/edwards25519 v1.1.0 // indirect
	github.com/99designs/go-keychain v0.0.0-20191008050251-8e49817e8af4 // indirect
	github.com/99designs/keyring v1.2.1 // indirect
	github.com/Azure/go-ansiterm v0.0.0-20230124172434-306776ec8161 // indirect
	github.com/DataDog/datadog-go v3.2.0+incompatible // indirect
	github.com/DataDog/zstd v1.5.5 // indirect
	github.com/Microsoft/go-winio v0.6.1 // indirect
	github.com/Nvveen/Gotty v0.0.0-20120604004816-cd527374f1e5 // indirect
	github.com/StackExchange/wmi v0.0.0-20180116203802-5d049714c4a6 // indirect
	github.com/VictoriaMetrics/fastcache v1.6.0 // indirect
	github.com/aws/aws-sdk-go v1.44.224 // indirect
	github.com/beorn7/perks v1.0.1 // indirect
	github.com/bgentry/go-netrc v0.0.0-20140422174119-9fd32a8b3d3d // indirect
	github.com/bgentry/speakeasy v0.1.1-0.20220910012023-760eaf8b6816 // indirect
	github.com/bits-and-blooms/bitset v1.8.0 // indirect
	github.com/btcsuite/btcd/chaincfg/chainhash v1.1.0 // indirect
	github.com/cenkalti/backoff/v4 v4.1.3 // indirect
	github.com/cespare/xxhash/v2 v2.3.0 // indirect
	github.com/chzyer/readline v1.5.1 // indirect
	github.com/cockroachdb/apd/v2 v2.0.2 // indirect
	github.com/cockroachdb/errors v1.11.3 // indirect
	github.com/cockroachdb/fifo v0.0.0-20240606204812-0bbfbd93a7ce // indirect
	github.com/cockroachdb/logtags v0.0.0-20230118201751-21c54148d20b // indirect
	github.com/cockroachdb/pebble v1.1.1 // indirect
	github.com/cockroachdb/redact v1.1.5 // indirect
	github.com/cockroachdb/tokenbucket v0.0.0-20230807174530-cc333fc44b06 // indirect
	github.com/coinbase/rosetta-sdk-go/types v1.0.0 // indirect
	github.com/containerd/continuity v0.3.0 // indirect
	github.com/cosmos/btcutil v1.0.5 // indirect
	github.com/cosmos/gogogateway v1.2.0 // indirect
	github.com/cosmos/iavl v1.2.0 // indirect
	github.com/cosmos/ics23/go v0.11.0 // indirect
	github.com/cosmos/ledger-cosmos-go v0.13.3 // indirect
	github.com/cosmos/rosetta-sdk-go v0.10.0 // indirect
	github.com/creachadair/atomicfile v0.3.1 // indirect
	github.com/creachadair/tomledit v0.0.24 // indirect
	github.com/danieljoos/wincred v1.1.2 // indirect
	github.com/deckarep/golang-set v1.8.0 // indirect
	github.com/decred/dcrd/dcrec/secp256k1/v4 v4.2.0 // indirect
	github.com/desertbit/timer v0.0.0-20180107155436-c41aec40b27f // indirect
	github.com/dgraph-io/badger/v4 v4.2.0 // indirect
	github.com/dgraph-io/ristretto v0.1.1 // indirect
	github.com/dlclark/regexp2 v1.4.1-0.20201116162257-a2a8dda75c91 // indirect
	github.com/docker/cli v23.0.1+incompatible // indirect
	github.com/docker/docker v23.0.1+incompatible // indirect
	github.com/docker/go-connections v0.4.0 // indirect
	github.com/docker/go-units v0.5.0 // indirect
	github.com/dop251/goja v0.0.0-20220405120441-9037c2b61cbf // indirect
	github.com/dustin/go-humanize v1.0.1 // indirect
	github.com/dvsekhvalnov/jose2go v1.6.0 // indirect
	github.com/edsrzf/mmap-go v1.0.0 // indirect
	github.com/emicklei/dot v1.6.1 // indirect
	github.com/fatih/color v1.15.0 // indirect
	github.com/felixge/httpsnoop v1.0.4 // indirect
	github.com/fsnotify/fsnotify v1.7.0 // indirect
	github.com/gballet/go-libpcsclite v0.0.0-20190607065134-2772fd86a8ff // indirect
	github.com/getsentry/sentry-go v0.27.0 // indirect
	github.com/go-kit/kit v0.12.0 // indirect
	github.com/go-kit/log v0.2.1 // indirect
	github.com/go-logfmt/logfmt v0.6.0 // indirect
	github.com/go-logr/logr v1.4.1 // indirect
	github.com/go-logr/stdr v1.2.2 // indirect
	github.com/go-ole/go-ole v1.2.1 // indirect
	github.com/go-sourcemap/sourcemap v2.1.3+incompatible // indirect
	github.com/go-stack/stack v1.8.0 // indirect
	github.com/go-task/slim-sprig v0.0.0-20230315185526-52ccab3ef572 // indirect
	github.com/godbus/dbus v0.0.0-20190726142602-4481cbc300e2 // indirect
	github.com/gogo/googleapis v1.4.1 // indirect
	github.com/gogo/protobuf v1.3.2 // indirect
	github.com/golang/glog v1.2.0 // indirect
	github.com/golang/groupcache v0.0.0-20210331224755-41bb18bfe9da // indirect
	github.com/golang/mock v1.6.0 // indirect
	github.com/golang/snappy v0.0.4 // indirect
	github.com/google/btree v1.1.2 // indirect
	github.com/google/flatbuffers v1.12.1 // indirect
	github.com/google/go-cmp v0.6.0 // indirect
	github.com/google/orderedcode v0.0.1 // indirect
	github.com/google/pprof v0.0.0-20230228050547-1710fef4ab10 // indirect
	github.com/google/s2a-go v0.1.7 // indirect
	github.com/google/shlex v0.0.0-20191202100458-e7afc7fbc510 // indirect
	github.com/googleapis/enterprise-certificate-proxy v0.3.2 // indirect
	github.com/googleapis/gax-go/v2 v2.12.5 // indirect
	github.com/gorilla/handlers v1.5.2 // indirect
	github.com/grpc-ecosystem/go-grpc-middleware v1.4.0 // indirect
	github.com/gsterjov/go-libsecret v0.0.0-20161001094733-a6f4afe4910c // indirect
	github.com/hashicorp/go-cleanhttp v0.5.2 // indirect
	github.com/hashicorp/go-getter v1.7.5 // indirect
	github.com/hashicorp/go-hclog v1.5.0 // indirect
	github.com/hashicorp/go-immutable-radix v1.3.1 // indirect
	github.com/hashicorp/go-plugin v1.5.2 // indirect
	github.com/hashicorp/go-safetemp v1.0.0 // indirect
	github.com/hashicorp/golang-lru v1.0.2 // indirect
	github.com/hashicorp/golang-lru/v2 v2.0.7 // indirect
	github.com/hashicorp/hcl v1.0.0 // indirect
	github.com/hashicorp/yamux v0.1.1 // indirect
	github.com/hdevalence/ed25519consensus v0.1.0 // indirect
	github.com/holiman/bloomfilter/v2 v2.0.3 // indirect
	github.com/holiman/uint256 v1.2.0 // indirect
	github.com/huandu/skiplist v1.2.0 // indirect
	github.com/huin/goupnp v1.0.3 // indirect
	github.com/iancoleman/strcase v0.3.0 // indirect
	github.com/imdario/mergo v0.3.13 // indirect
	github.com/improbable-eng/grpc-web v0.15.0 // indirect
	github.com/inconshreveable/mousetrap v1.1.0 // indirect
	github.com/jackpal/go-nat-pmp v1.0.2 // indirect
	github.com/jmespath/go-jmespath v0.4.0 // indirect
	github.com/jmhodges/levigo v1.0.0 // indirect
	github.com/klauspost/compress v1.17.9 // indirect
	github.com/kr/pretty v0.3.1 // indirect
	github.com/kr/text v0.2.0 // indirect
	github.com/lib/pq v1.10.7 // indirect
	github.com/linxGnu/grocksdb v1.8.14 // indirect
	github.com/magiconair/properties v1.8.7 // indirect
	github.com/manifoldco/promptui v0.9.0 // indirect
	github.com/mattn/go-colorable v0.1.13 // indirect
	github.com/mattn/go-isatty v0.0.20 // indirect
	github.com/mattn/go-runewidth v0.0.9 // indirect
	github.com/minio/highwayhash v1.0.2 // indirect
	github.com/mitchellh/go-homedir v1.1.0 // indirect
	github.com/mitchellh/go-testing-interface v1.14.1 // indirect
	github.com/mitchellh/mapstructure v1.5.0 // indirect
	github.com/moby/term v0.0.0-20221205130635-1aeaba878587 // indirect
	github.com/mtibben/percent v0.2.1 // indirect
	github.com/munnerz/goautoneg v0.0.0-20191010083416-a7dc8b61c822 // indirect
	github.com/oasisprotocol/curve25519-voi v0.0.0-20230904125328-1f23a7beb09a // indirect
	github.com/oklog/run v1.1.0 // indirect
	github.com/olekukonko/tablewriter v0.0.5 // indirect
	github.com/opencontainers/go-digest v1.0.0 // indirect
	github.com/opencontainers/image-spec v1.1.0-rc2 // indirect
	github.com/opencontainers/runc v1.1.5 // indirect
	github.com/pelletier/go-toml/v2 v2.2.2 // indirect
	github.com/petermattis/goid v0.0.0-20231207134359-e60b3f734c67 // indirect
	github.com/pmezard/go-difflib v1.0.1-0.20181226105442-5d4384ee4fb2 // indirect
	github.com/prometheus/client_golang v1.20.1 // indirect
	github.com/prometheus/client_model v0.6.1 // indirect
	github.com/prometheus/common v0.55.0 // indirect
	github.com/prometheus/procfs v0.15.1 // indirect
	github.com/prometheus/tsdb v0.7.1 // indirect
	github.com/rcrowley/go-metrics v0.0.0-20201227073835-cf1acfcdf475 // indirect
	github.com/rjeczalik/notify v0.9.1 // indirect
	github.com/rogpeppe/go-internal v1.12.0 // indirect
	github.com/rs/zerolog v1.33.0 // indirect
	github.com/sagikazarmark/locafero v0.4.0 // indirect
	github.com/sagikazarmark/slog-shim v0.1.0 // indirect
	github.com/sasha-s/go-deadlock v0.3.1 // indirect
	github.com/shirou/gopsutil v3.21.4-0.20210419000835-c7a38de76ee5+incompatible // indirect
	github.com/sirupsen/logrus v1.9.0 // indirect
	github.com/sourcegraph/conc v0.3.0 // indirect
	github.com/spf13/afero v1.11.0 // indirect
	github.com/status-im/keycard-go v0.0.0-20190316090335-8537d3370df4 // indirect
	github.com/stretchr/objx v0.5.2 // indirect
	github.com/subosito/gotenv v1.6.0 // indirect
	github.com/syndtr/goleveldb v1.0.1-0.20220721030215-126854af5e6d // indirect
	github.com/tendermint/go-amino v0.16.0 // indirect
	github.com/tidwall/btree v1.7.0 // indirect
	github.com/tidwall/match v1.1.1 // indirect
	github.com/tidwall/pretty v1.2.0 // indirect
	github.com/tklauser/go-sysconf v0.3.5 // indirect
	github.com/tklauser/numcpus v0.2.2 // indirect
	github.com/ulikunitz/xz v0.5.11 // indirect
	github.com/xeipuuv/gojsonpointer v0.0.0-20180127040702-4e3ac2762d5f // indirect
	github.com/xeipuuv/gojsonreference v0.0.0-20180127040603-bd5ef7bd5415 // indirect
	github.com/xeipuuv/gojsonschema v1.2.0 // indirect
	github.com/zondax/ledger-go v0.14.3 // indirect
	go.etcd.io/bbolt v1.4.0-alpha.0.0.20240404170359-43604f3112c5 // indirect
	go.opencensus.io v0.24.0 // indirect
	go.opentelemetry.io/contrib/instrumentation/google.golang.org/grpc/otelgrpc v0.49.0 // indirect
	go.opentelemetry.io/contrib/instrumentation/net/http/otelhttp v0.49.0 // indirect
	go.opentelemetry.io/otel v1.24.0 // indirect
	go.opentelemetry.io/otel/metric v1.24.0 // indirect
	go.opentelemetry.io/otel/trace v1.24.0 // indirect
	go.uber.org/multierr v1.11.0 // indirect
	golang.org/x/exp v0.0.0-20240613232115-7f521ea00fb8 // indirect
	golang.org/x/mod v0.18.0 // indirect
	golang.org/x/oauth2 v0.21.0 // indirect
	golang.org/x/sys v0.24.0 // indirect
	golang.org/x/term v0.23.0 // indirect
	golang.org/x/time v0.5.0 // indirect
	golang.org/x/tools v0.22.0 // indirect
	google.golang.org/api v0.186.0 // indirect
	google.golang.org/genproto v0.0.0-20240701130421-f6361c86f094 // indirect
	google.golang.org/genproto/googleapis/rpc v0.0.0-20240709173604-40e1e62336c5 // indirect
	gopkg.in/ini.v1 v1.67.0 // indirect
	gopkg.in/natefinch/npipe.v2 v2.0.0-20160621034901-c1b8fa8bdcce // indirect
	gopkg.in/yaml.v2 v2.4.0 // indirect
	gopkg.in/yaml.v3 v3.0.1 // indirect
	gotest.tools/v3 v3.5.1 // indirect
	nhooyr.io/websocket v1.8.6 // indirect
	pgregory.net/rapid v1.1.0 // indirect
)

replace (
	// use cosmos fork of keyring
	github.com/99designs/keyring => github.com/cosmos/keyring v1.2.0
	// go-ethereum fork with custom-precompiled-contract support
	github.com/ethereum/go-ethereum => github.com/EscanBE/go-ethereum-for-evermint v1.10.28
	// Security Advisory https://github.com/advisories/GHSA-h395-qcrw-5vmq
	github.com/gin-gonic/gin => github.com/gin-gonic/gin v1.9.1
	// replace broken goleveldb
	github.com/syndtr/goleveldb => github.com/syndtr/goleveldb v1.0.1-0.20210819022825-2ae1ddf74ef7
)

require github.com/EscanBE/evermint/v12 v12.0.0

require (
	github.com/anishathalye/porcupine v1.3.0
	github.com/btcsuite/btcd/btcec/v2 v2.3.4
	golang.org/x/crypto v0.26.0
)

replace github.com/EscanBE/evermint/v12 => /repo
