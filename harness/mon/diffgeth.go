package mon

import (
	"bytes"
	"fmt"
	"math/big"
	"sort"
	"strings"

	sdk "github.com/cosmos/cosmos-sdk/types"
	"github.com/ethereum/go-ethereum/common"
	"github.com/ethereum/go-ethereum/core/state"
	ethtypes "github.com/ethereum/go-ethereum/core/types"
	"github.com/ethereum/go-ethereum/core/vm"
	"github.com/ethereum/go-ethereum/crypto"

	evertypes "github.com/EscanBE/evermint/v12/types"

	"verifharness/vh"
)

// ---------------------------------------------------------------------------------------
// C02: every Ethereum transaction is also executed by go-ethereum's own state transition
// over go-ethereum's own state database (vh.Shadow); outcomes and post-states must agree.
// ---------------------------------------------------------------------------------------

type c02View struct {
	GasLimit uint64
	Accts    map[common.Address]vh.AcctView
}

func DiffGeth(run *vh.Run) {
	nWorlds := run.N(6, 32)
	blocksPer := run.N(60, 500)
	for wi := 0; wi < nWorlds; wi++ {
		label := fmt.Sprintf("world-%d", wi)
		if !run.WantCase(label) {
			continue
		}
		diffWorld(run, label, wi, blocksPer)
	}
	run.Rule = "EVM-only micro-worlds on the real app: generated contracts (SSTORE/SLOAD incl. clears, LOG0-4, all four call kinds with value/gas limits, CREATE/CREATE2 with init-code templates, SELFDESTRUCT, REVERT/INVALID, account probes, block-context opcodes, gas-dependent stores, loops) deployed and then called by legacy/access-list/dynamic-fee transactions with gas limits from intrinsic to far above; every transaction that evermint admits is re-executed by go-ethereum's core.ApplyMessage over its own state.StateDB under the same block context; compared: error class, VM error string, return data, gas used, logs, and (nonce, balance, code hash, full storage, existence) of every account of either world. Non-trivial = distinct (outcome class x opcode families of the called contract)."
	run.Floor("transactions compared", run.Get("tx_compared"), int64(run.N(900, 20000)))
	run.Floor("with refund", run.Get("tx_with_sstore_clear_candidate"), int64(run.N(50, 1000)))
	run.Floor("outcome classes", int64(run.DistinctN("outcome")), 5)
	run.Floor("calls re-reading a slot that a rolled-back frame had warmed", run.Get("calls_re_reading_a_slot_warmed_in_a_rolled_back_frame"), int64(run.N(20, 400)))
	run.Floor("calls with address-only access-list entries for the address they probe", run.Get("calls_with_address_only_access_list_entries"), int64(run.N(15, 300)))
	run.Floor("transfers of the sender's entire balance minus the fee", run.Get("sweep_transfers_of_the_entire_balance"), int64(run.N(8, 150)))
	run.Floor("creation transactions whose init code is a generated program", run.Get("creation_txs_whose_init_code_is_a_generated_program"), int64(run.N(15, 300)))
	run.Assumptions = append(run.Assumptions,
		"the reference is the fork's own interpreter (property's definition): interpreter bugs common to both sides are invisible",
		"scope fence: senders hold >= gasLimit x feeCap + value (go-ethereum refuses below that at consensus level; evermint's admission is covered by C05/C06/C09)",
		"documented differences applied to the reference: coinbase tip taken back, coinbase and registered custom precompiles warm; custom-precompile addresses are not in the address pool")
}

func diffWorld(run *vh.Run, label string, wi int, nBlocks int) {
	r := run.RNG("diffgeth", wi)
	maxGas := int64(-1)
	if wi%3 == 1 {
		maxGas = 30_000_000
	}
	w := vh.NewWorld(r, vh.WorldOpts{Chain: vh.Config{Seed: r.U64(), NumVals: 1 + wi%2, MaxGas: maxGas, BaseFee: big.NewInt(1_000_000_000)}, NumEOA: 5,
		Prog: vh.ProgOpts{MaxLen: 9, Depth: 2}, ExtraPool: []common.Address{{}}}) // address 0x0 is in the pool on purpose
	defer w.C.Cleanup()
	ctx := w.C.QueryCtx()
	chainCfg := w.C.App.EvmKeeper.GetChainConfig(ctx)
	sh := vh.NewShadow(chainCfg)
	for _, a := range w.EOAs {
		sh.Seed(a.Addr, w.C.Balance(a.Addr), 0)
	}
	for _, v := range w.C.Vals {
		sh.Seed(v.Acct.Addr, w.C.Balance(v.Acct.Addr), w.C.Nonce(v.Acct.Addr))
	}
	// custom precompile addresses registered on this chain (documented: warm)
	var cpcAddrs []common.Address
	for _, m := range w.C.App.CPCKeeper.GetAllCustomPrecompiledContractsMeta(ctx) {
		cpcAddrs = append(cpcAddrs, common.BytesToAddress(m.Address))
	}
	known := map[common.Address]struct{}{}
	for _, a := range w.Pool {
		known[a] = struct{}{}
	}
	for _, v := range w.C.Vals {
		known[v.Acct.Addr] = struct{}{}
	}
	excluded := map[common.Address]bool{vh.FeeCollectorAddr: true, vh.EvmModuleAddr: true}
	hashes := map[int64]common.Hash{}
	view := func(ctx sdk.Context) any {
		v := &c02View{GasLimit: evertypes.BlockGasLimit(ctx), Accts: map[common.Address]vh.AcctView{}}
		for a := range known {
			v.Accts[a] = w.C.EvmView(ctx, a)
		}
		return v
	}
	check := func(plans []*vh.TxPlan, ob *vh.ObservedBlock) {
		if ob.Err != nil {
			run.Violation("finalize-block-error", label, map[string]any{"err": ob.Err.Error()})
			return
		}
		hashes[ob.Height] = common.BytesToHash(ob.Req.Hash)
		sh.Hashes[uint64(ob.Height)] = common.BytesToHash(ob.Req.Hash)
		// coinbase = operator of the proposer
		var coinbase common.Address
		for _, v := range w.C.Vals {
			if bytes.Equal(v.Cons, ob.Req.ProposerAddress) {
				coinbase = v.Acct.Addr
			}
		}
		ethIdx := 0
		for i, pl := range plans {
			if pl.Tx == nil {
				continue
			}
			res := ob.Res.TxResults[i]
			if !ob.Reached[i] || !vh.HasEvent(res, "ethereum_tx") {
				run.Count("tx_not_admitted", 1)
				continue
			}
			run.Eval(1)
			pre := ob.Pre[i].View.(*c02View)
			blk := vh.ShadowBlock{Number: ob.Height, Time: ob.Time.Unix(), GasLimit: pre.GasLimit, BaseFee: ob.BaseFee, Coinbase: coinbase, Hash: hashes[ob.Height]}
			warm := append([]common.Address{coinbase}, cpcAddrs...)
			sres := sh.Apply(pl.Tx, blk, ethIdx, warm)
			ethIdx++
			resp := vh.EthResponse(res)
			rc, attrs := vh.ReceiptOf(res)
			diff := vh.Diff(ob.Pre[i].Dump, ob.Post[i].Dump)
			// discover accounts touched on evermint's side
			for _, ch := range diff {
				var a common.Address
				switch {
				case ch.Store == "acc" && len(ch.Key) == 21 && ch.Key[0] == 0x01:
					a = common.BytesToAddress(ch.Key[1:])
				case ch.Store == "evm" && len(ch.Key) >= 21 && (ch.Key[0] == 0x02 || ch.Key[0] == 0x04):
					a = common.BytesToAddress(ch.Key[1:21])
				default:
					continue
				}
				if !excluded[a] {
					known[a] = struct{}{}
				}
			}
			wit := func(extra map[string]any) map[string]any {
				m := map[string]any{"world": label, "height": ob.Height, "index": i, "plan": pl.String(), "code": res.Code, "log": res.Log,
					"evermint_gas_used": res.GasUsed, "reference": map[string]any{"consensus_err": sres.ConsensusErr, "vm_err": sres.VMErr, "gas_used": sres.GasUsed, "ret": fmt.Sprintf("%x", sres.Ret), "panic": sres.Panic},
					"write_set": vh.ChangeStrings(diff), "base_fee": ob.BaseFee.String(), "coinbase": coinbase.Hex()}
				if pl.Tx.To() != nil {
					for _, c := range w.Contracts {
						if c.Addr == *pl.Tx.To() {
							m["callee_program"] = c.Prog.Desc
							m["callee_code"] = fmt.Sprintf("%x", c.Prog.Code)
						}
					}
				}
				for k, v := range extra {
					m[k] = v
				}
				return m
			}
			outcome := ""
			switch {
			case sres.Panic != "":
				outcome = "reference-panic"
			case sres.ConsensusErr != "":
				outcome = "consensus-error"
			case sres.VMErr == "":
				outcome = "success"
			case strings.Contains(sres.VMErr, "revert"):
				outcome = "revert"
			case strings.Contains(sres.VMErr, "out of gas"):
				outcome = "out-of-gas"
			default:
				outcome = "vm-error:" + sres.VMErr
			}
			run.Distinct("outcome", outcome)
			run.Count("tx_compared", 1)
			fam := ""
			if pl.Tx.To() != nil {
				for _, c := range w.Contracts {
					if c.Addr == *pl.Tx.To() {
						var ks []string
						for k := range c.Prog.Uses {
							ks = append(ks, k)
							run.Distinct("opcode_family", k)
						}
						sort.Strings(ks)
						fam = strings.Join(ks, ",")
						if c.Prog.Uses["sstore"] > 0 {
							run.Count("tx_with_sstore_clear_candidate", 1)
						}
					}
				}
			} else {
				fam = "create-tx"
			}
			run.Nontrivial(outcome + "|" + fam)
			if sres.Panic != "" {
				// the reference interpreter itself panicked: evermint must have failed the tx as a whole
				if res.Code == 0 {
					run.Violation("reference-panicked-but-evermint-succeeded", label, wit(nil))
				}
				mirrorFailure(sh, pl, ob.BaseFee)
				continue
			}
			if sres.ConsensusErr != "" {
				if rc != nil || res.Code == 0 {
					run.Violation("reference-consensus-error-but-evermint-executed", label, wit(nil))
				} else if !sameErrClass(sres.ConsensusErr, res.Log) {
					run.Violation("consensus-error-class-differs", label, wit(nil))
				}
				mirrorFailure(sh, pl, ob.BaseFee)
				compareStates(run, label, w, sh, ob, i, known, wit)
				continue
			}
			if rc == nil || resp == nil {
				// evermint failed outside the EVM although the reference executed
				if strings.Contains(res.Log, "out of gas") && w.C.Cfg.MaxGas > 0 {
					// block gas exhausted (Cosmos-level): documented admission mechanism, mirror and go on
					run.Count("block_gas_exhausted", 1)
					sh2 := vh.NewShadow(chainCfg)
					_ = sh2
					// roll the reference back by rebuilding from evermint's observed post-state is not possible; stop comparing this world
					run.Count("world_stopped_on_block_gas", 1)
					return
				}
				run.Violation("evermint-failed-outside-evm-but-reference-executed", label, wit(nil))
				return
			}
			if resp.VmError != sres.VMErr {
				run.Violation("vm-error-differs", label, wit(map[string]any{"evermint_vm_error": resp.VmError}))
			}
			if !bytes.Equal(resp.Ret, sres.Ret) {
				run.Violation("return-data-differs", label, wit(map[string]any{"evermint_ret": fmt.Sprintf("%x", resp.Ret)}))
			}
			if resp.GasUsed != sres.GasUsed {
				sig := "gas-used-differs"
				run.Violation(sig, label, wit(map[string]any{"evermint_receipt_gas": resp.GasUsed, "delta": int64(resp.GasUsed) - int64(sres.GasUsed)}))
			}
			_ = attrs
			if len(rc.Logs) != len(sres.Logs) {
				run.Violation("log-count-differs", label, wit(map[string]any{"evermint_logs": len(rc.Logs), "reference_logs": len(sres.Logs)}))
			} else {
				for li, l := range rc.Logs {
					rl := sres.Logs[li]
					if l.Address != rl.Address || !bytes.Equal(l.Data, rl.Data) || len(l.Topics) != len(rl.Topics) {
						run.Violation("log-differs", label, wit(map[string]any{"log_index": li}))
						break
					}
					for ti := range l.Topics {
						if l.Topics[ti] != rl.Topics[ti] {
							run.Violation("log-differs", label, wit(map[string]any{"log_index": li}))
							break
						}
					}
				}
				run.Count("logs_compared", len(rc.Logs))
			}
			if pl.Tx.To() == nil && sres.VMErr == "" {
				known[crypto.CreateAddress(pl.Sender.Addr, pl.Tx.Nonce())] = struct{}{}
			}
			for _, a := range sh.Accounts() {
				if !excluded[a] {
					known[a] = struct{}{}
				}
			}
			if !compareStates(run, label, w, sh, ob, i, known, wit) {
				return // worlds diverged: later comparisons would only repeat it
			}
			if run.Get("tx_compared")%97 == 0 {
				run.Sample(map[string]any{"plan": pl.String(), "outcome": outcome, "gas_used": sres.GasUsed, "families": fam, "logs": len(sres.Logs)})
			}
		}
	}
	onBlock := func(ob *vh.ObservedBlock, plans []*vh.TxPlan) { check(plans, ob) }
	// observed view must include accounts discovered so far: install the view function
	runPlans := func(plans []*vh.TxPlan) {
		txs := make([][]byte, len(plans))
		for i, p := range plans {
			txs[i] = p.Bytes
		}
		ob := w.C.RunObserved(txs, &vh.BlockOpt{Proposer: r.Intn(8)}, view, true)
		w.ResetPending()
		onBlock(ob, plans)
	}
	// warm-up: deploy generated contracts through the same comparison
	for len(w.Contracts) < 14 {
		var plans []*vh.TxPlan
		var progs []*vh.Prog
		for i := 0; i < 3; i++ {
			po := vh.ProgOpts{Pool: w.Pool, Callees: contractAddrs(w), MaxLen: 9, Depth: 2}
			p := vh.GenProgram(r, po)
			progs = append(progs, p)
			pl := w.PlanEth(vh.Pick(r, w.EOAs), nil, nil, 3_000_000, vh.Deployer(p.Code), "ok", nil)
			plans = append(plans, pl)
		}
		runPlans(plans)
		for i, pl := range plans {
			addr := crypto.CreateAddress(pl.Sender.Addr, pl.Tx.Nonce())
			w.Contracts = append(w.Contracts, &vh.Contract{Addr: addr, Prog: progs[i], Deployer: pl.Sender.Addr})
			w.Pool = append(w.Pool, addr)
			known[addr] = struct{}{}
		}
		if run.Violations() > 0 {
			return
		}
	}
	// two hand-written contracts whose gas depends on what is warm:
	// warmth: SLOAD(0); call itself with one byte of call data - that inner frame does SLOAD(1) and REVERTs -; SLOAD(1) again
	// (slot 1 is cold again: whatever a rolled-back frame warmed is forgotten);
	// prober: EXTCODESIZE / BALANCE of the address given as call data (called with address-only access-list entries)
	var warmth, prober common.Address
	{
		wa := vh.NewAsm().Op(vm.CALLDATASIZE).JumpI("inner").
			PushU(0).Op(vm.SLOAD, vm.POP).
			PushU(1).PushU(0).Op(vm.MSTORE8).
			PushU(0).PushU(0).PushU(1).PushU(0).PushU(0).Op(vm.ADDRESS, vm.GAS, vm.CALL, vm.POP).
			PushU(1).Op(vm.SLOAD, vm.POP).Op(vm.STOP).
			Label("inner").PushU(1).Op(vm.SLOAD, vm.POP).PushU(0).PushU(0).Op(vm.REVERT)
		pr := vh.NewAsm().PushU(0).Op(vm.CALLDATALOAD).PushU(96).Op(vm.SHR).Op(vm.DUP1, vm.EXTCODESIZE, vm.POP).Op(vm.BALANCE, vm.POP).Op(vm.STOP)
		d := w.EOAs[0]
		n0 := w.NextNonce(d.Addr)
		warmth, prober = crypto.CreateAddress(d.Addr, n0), crypto.CreateAddress(d.Addr, n0+1)
		known[warmth], known[prober] = struct{}{}, struct{}{}
		runPlans([]*vh.TxPlan{w.PlanEth(d, nil, nil, 500_000, vh.Deployer(wa.Bytes()), "ok", nil), w.PlanEth(d, nil, nil, 500_000, vh.Deployer(pr.Bytes()), "ok", nil)})
		if run.Violations() > 0 {
			return
		}
	}
	for b := 0; b < nBlocks; b++ {
		if b%6 == 1 {
			s := vh.Pick(r, w.EOAs)
			if w.C.Balance(s.Addr).Cmp(vh.Ether(100)) >= 0 {
				// (a) warmth of a slot touched only inside a rolled-back frame, with and without the contract's slots in the tx access list
				var plans []*vh.TxPlan
				fs := w.GenFee(true)
				pa := w.PlanEth(s, &warmth, nil, 200_000, nil, "ok", &fs)
				plans = append(plans, pa)
				// (b) address-only access-list entries: the probed address is listed without storage keys
				target := vh.Pick(r, w.Pool)
				if r.Bool() {
					target = common.BytesToAddress(r.Bytes(20))
				}
				al := ethtypes.AccessList{{Address: target}}
				if r.Bool() {
					al = append(al, ethtypes.AccessTuple{Address: vh.Pick(r, w.Pool), StorageKeys: []common.Hash{{}}})
				}
				s2 := vh.Pick(r, w.EOAs)
				if s2 != s && w.C.Balance(s2.Addr).Cmp(vh.Ether(100)) >= 0 {
					price := new(big.Int).Mul(w.C.BaseFee(), big.NewInt(2))
					var txd ethtypes.TxData = &ethtypes.AccessListTx{ChainID: big.NewInt(vh.EIP155ID), Nonce: w.NextNonce(s2.Addr), To: &prober, Gas: 100_000, GasPrice: price, Value: new(big.Int),
						Data: common.LeftPadBytes(target.Bytes(), 20), AccessList: al}
					if r.Bool() {
						txd = &ethtypes.DynamicFeeTx{ChainID: big.NewInt(vh.EIP155ID), Nonce: w.NextNonce(s2.Addr), To: &prober, Gas: 100_000, GasFeeCap: price, GasTipCap: big.NewInt(1), Value: new(big.Int),
							Data: common.LeftPadBytes(target.Bytes(), 20), AccessList: al}
					}
					bz, tx := w.C.EthTx(s2, txd)
					w.BumpPending(s2.Addr)
					plans = append(plans, &vh.TxPlan{Kind: "eth-call", Class: "ok", Sender: s2, Tx: tx, Bytes: bz, FeeKind: "x2"})
					run.Count("calls_with_address_only_access_list_entries", 1)
				}
				run.Count("calls_re_reading_a_slot_warmed_in_a_rolled_back_frame", 1)
				runPlans(plans)
				if run.Violations() > 0 {
					return
				}
			}
		}
		if b%20 == 9 { // multi-step SELFDESTRUCT history inside one transaction (pay, destroy, pay, destroy, forward)
			owner := vh.Pick(r, w.EOAs)
			if w.C.Balance(owner.Addr).Cmp(vh.Ether(100)) >= 0 {
				sc := w.PlanRepeatDestroy(owner, common.BytesToAddress(r.Bytes(20)), big.NewInt(int64(1+r.Intn(1000))*1e12))
				known[sc.Vault], known[sc.Orch], known[sc.Beneficiary] = struct{}{}, struct{}{}, struct{}{}
				runPlans(sc.Deploy)
				runPlans([]*vh.TxPlan{sc.Fire(w, owner)})
				run.Count("repeat_destroy_scenarios", 1)
				if run.Violations() > 0 {
					return
				}
			}
		}
		if b%8 == 3 { // "send max": a fresh key is funded, then transfers exactly what it holds minus the fee (legacy price, 21000 gas)
			funder := vh.Pick(r, w.EOAs)
			if w.C.Balance(funder.Addr).Cmp(vh.Ether(100)) >= 0 {
				k := vh.NewAcct(r)
				known[k.Addr] = struct{}{}
				amt := new(big.Int).Add(vh.Ether(1), big.NewInt(int64(r.Intn(1_000_000_000))))
				runPlans([]*vh.TxPlan{w.PlanEth(funder, &k.Addr, amt, 21000, nil, "ok", nil)})
				if bal := w.C.Balance(k.Addr); bal.Sign() > 0 {
					price := new(big.Int).Mul(w.C.BaseFee(), big.NewInt(int64(2+r.Intn(3))))
					fee := new(big.Int).Mul(price, big.NewInt(21000))
					if bal.Cmp(fee) > 0 {
						to := vh.Pick(r, w.Pool)
						runPlans([]*vh.TxPlan{w.PlanEth(k, &to, new(big.Int).Sub(bal, fee), 21000, nil, "ok", &vh.FeeShape{Type: r.Intn(2), Price: price, Kind: "sweep"})})
						run.Count("sweep_transfers_of_the_entire_balance", 1)
					}
				}
				if run.Violations() > 0 {
					return
				}
			}
		}
		var plans []*vh.TxPlan
		n := r.Range(1, 5)
		for i := 0; i < n; i++ {
			s := vh.Pick(r, w.EOAs)
			bal := w.C.Balance(s.Addr)
			if bal.Cmp(vh.Ether(100)) < 0 {
				continue // scope fence: keep senders rich
			}
			value := new(big.Int)
			if r.Chance(1, 3) {
				value = big.NewInt(int64(r.Intn(1_000_000)))
			}
			switch k := r.Intn(12); {
			case k == 0:
				to := vh.Pick(r, w.Pool)
				plans = append(plans, w.PlanEth(s, &to, value, uint64(vh.Pick(r, []int{21000, 25000, 60000})), nil, "ok", nil))
			case k == 1:
				p := vh.GenProgram(r, vh.ProgOpts{Pool: w.Pool, Callees: contractAddrs(w), MaxLen: 6, Depth: 2})
				gas := uint64(vh.Pick(r, []int{54000, 70000, 150000, 600000, 3_000_000}))
				code := vh.Deployer(p.Code)
				if r.Bool() { // the generated program IS the init code: it runs (probes, calls, stores) inside the creation transaction
					code = p.Code
					run.Count("creation_txs_whose_init_code_is_a_generated_program", 1)
				}
				plans = append(plans, w.PlanEth(s, nil, value, gas, code, "ok", nil))
			case k == 2:
				// init code that probes addresses cold: the zero address (what a creation "is sent to"), a precompile, pool members
				a := vh.NewAsm()
				for _, t := range []common.Address{{}, vh.Pick(r, w.Pool), common.BytesToAddress([]byte{byte(1 + r.Intn(9))}), {}} {
					a.PushAddr(t).Op(vh.Pick(r, []vm.OpCode{vm.BALANCE, vm.EXTCODESIZE, vm.EXTCODEHASH}), vm.POP)
				}
				a.Op(vm.STOP)
				plans = append(plans, w.PlanEth(s, nil, value, uint64(vh.Pick(r, []int{60000, 64000, 70000, 200000})), a.Bytes(), "ok", nil))
				run.Count("creation_txs_probing_the_zero_address_cold", 1)
			default:
				c := vh.Pick(r, w.Contracts)
				gas := uint64(vh.Pick(r, []int{21000, 21064, 22000, 24000, 30000, 45000, 70000, 120000, 300000, 2_000_000}))
				data := r.Bytes(vh.Pick(r, []int{0, 0, 4, 36, 100}))
				to := c.Addr
				plans = append(plans, w.PlanEth(s, &to, value, gas, data, "ok", nil))
			}
		}
		runPlans(plans)
		if run.Violations() > 0 {
			return
		}
	}
}

func contractAddrs(w *vh.World) []common.Address {
	var out []common.Address
	for _, c := range w.Contracts {
		out = append(out, c.Addr)
	}
	return out
}

// mirrorFailure applies to the reference what evermint does for an admitted transaction that
// fails at consensus level inside the state transition: nonce + 1, fee for the full gas limit.
func mirrorFailure(sh *vh.Shadow, pl *vh.TxPlan, baseFee *big.Int) {
	price := vh.EffectivePrice(pl.Tx, baseFee)
	fee := new(big.Int).Mul(price, new(big.Int).SetUint64(pl.Tx.Gas()))
	sh.Mutate(func(s *state.StateDB) {
		s.SetNonce(pl.Sender.Addr, s.GetNonce(pl.Sender.Addr)+1)
		s.SubBalance(pl.Sender.Addr, fee)
	})
}

func sameErrClass(ref, log string) bool {
	for _, k := range []string{"intrinsic gas too low", "insufficient funds", "nonce too", "max fee per gas less than block base fee", "max initcode size", "gas uint64 overflow"} {
		if strings.Contains(ref, k) {
			return strings.Contains(log, k)
		}
	}
	return true
}

func compareStates(run *vh.Run, label string, w *vh.World, sh *vh.Shadow, ob *vh.ObservedBlock, i int, known map[common.Address]struct{},
	wit func(map[string]any) map[string]any) bool {
	post, _ := ob.Post[i].View.(*c02View)
	if post == nil {
		return true
	}
	ok := true
	n := 0
	for a := range known {
		ev, have := post.Accts[a]
		if !have {
			continue // discovered during this tx: compared from the next boundary on
		}
		rv := sh.View(a)
		n++
		run.Count("storage_slots_compared", len(rv.Storage))
		if !ev.Equal(rv) {
			run.Violation("post-state-differs", label, wit(map[string]any{"account": a.Hex(), "evermint": ev, "reference": rv}))
			ok = false
			break
		}
	}
	run.Count("account_views_compared", n)
	return ok
}

var _ = ethtypes.LegacyTxType
