// Package mon holds the property monitors (oracles over observed executions).
package mon

import (
	"fmt"
	"math/big"
	"strings"

	sdkmath "cosmossdk.io/math"
	sdk "github.com/cosmos/cosmos-sdk/types"
	authtypes "github.com/cosmos/cosmos-sdk/x/auth/types"
	"github.com/ethereum/go-ethereum/common"
	ethtypes "github.com/ethereum/go-ethereum/core/types"
	"github.com/ethereum/go-ethereum/core/vm"
	"github.com/ethereum/go-ethereum/crypto"

	cpcabi "github.com/EscanBE/evermint/v12/x/cpc/abi"

	"verifharness/vh"
)

// ---------------------------------------------------------------------------------------
// C04 (supply conservation) and C05 (exact charge) share one observer pass over a generated
// Ethereum workload; each property gets its own verdict.
// ---------------------------------------------------------------------------------------

type ledgerCase struct {
	MaxGas   int64
	BaseFee  int64
	NumBlock int
}

// Ledger runs the C04/C05 workload and reports violations of property `which`.
func Ledger(run *vh.Run, which string) {
	nWorlds := run.N(8, 32)
	blocksPer := run.N(60, 400)
	variants := []ledgerCase{{MaxGas: -1, BaseFee: 1_000_000_000}, {MaxGas: 1_200_000, BaseFee: 1_000_000_000},
		{MaxGas: -1, BaseFee: 7}, {MaxGas: 3_000_000, BaseFee: 50_000_000_000},
		{MaxGas: 5_000_000, BaseFee: 0}} // base fee exactly 0 (min gas price 0): the effective price of a dynamic-fee tx is its tip
	for wi := 0; wi < nWorlds; wi++ {
		label := fmt.Sprintf("world-%d", wi)
		if !run.WantCase(label) {
			continue
		}
		v := variants[wi%len(variants)]
		ledgerWorld(run, which, label, wi, v, blocksPer)
	}
	for k := 0; k < run.N(6, 40); k++ {
		label := fmt.Sprintf("min-gas-price-%d", k)
		if run.WantCase(label) {
			minGasPriceLeg(run, which, label, k)
		}
	}
	if which == "C04" {
		run.Rule = "Generated Ethereum transactions (transfers, calls to generated contracts, creates; all fee shapes; gas limits from intrinsic-1 to far above gas used; values up to and above balance; invalid nonces/fees) in multi-tx blocks on the real app; at every tx boundary the observer records total supply of every denom, balances of all tracked accounts, fee collector and EVM module account. Non-trivial = distinct (tx kind x outcome class x fee kind x block-gas variant) with unused gas > 0 or a deletion."
		run.Floor("eth transactions that reached execution", run.Get("tx_executed"), int64(run.N(300, 5000)))
		run.Floor("transactions with unused gas", run.Get("tx_with_unused_gas"), int64(run.N(150, 2500)))
		run.Floor("contracts drained through the native ERC-20 precompile and then self-destructed", run.Get("drain_through_precompile_then_selfdestruct_scenarios"), int64(run.N(20, 400)))
		run.Floor("outcome classes", int64(run.DistinctN("outcome")), 6)
	} else {
		run.Rule = "Same generated workload as C04; per admitted Ethereum transaction the sender's balance delta is compared with receipt gas used x independently recomputed effective price + value moved; rejected transactions must have an empty write set; gas used within [intrinsic, limit]; consensus GasUsed == receipt gas used; cumulative gas == running sum. Non-trivial = distinct (tx type x fee kind x outcome class)."
		run.Floor("eth transactions that reached execution", run.Get("tx_executed"), int64(run.N(300, 5000)))
		run.Floor("rejected transactions checked for empty write set", run.Get("tx_rejected"), int64(run.N(40, 600)))
		run.Floor("transactions executed in a block whose base fee is below the minimum gas price", run.Get("tx_executed_while_base_fee_below_min_gas_price"), int64(run.N(15, 100)))
		run.Floor("storage-clearing transactions where the one-fifth refund cap binds", run.Get("refund_cap_txs_where_the_cap_binds"), int64(run.N(30, 120)))
		run.Floor("outcome classes", int64(run.DistinctN("outcome")), 6)
	}
	run.Assumptions = append(run.Assumptions, "mint inflation is 0 in these worlds so that supply moves only through transactions",
		"x/bank's own accounting (sum of balances == supply) is trusted", "value moved = tx.value iff receipt status 1 (generated contracts never pay the sender back except through explicit sends, which are tracked through the full balance ledger for C04 and excluded by construction for C05 senders)")
}

func ledgerWorld(run *vh.Run, which, label string, wi int, v ledgerCase, nBlocks int) {
	r := run.RNG("ledger", wi)
	// addresses that hold coins (two denominations) in the genesis bank state but have no x/auth account record
	var orphans []common.Address
	var orphanAccs []vh.GenAccount
	for i := 0; i < 4; i++ {
		a := common.BytesToAddress(r.Bytes(20))
		orphans = append(orphans, a)
		orphanAccs = append(orphanAccs, vh.GenAccount{Addr: a, NoAuthAccount: true,
			Coins: sdk.NewCoins(sdk.NewCoin(vh.Denom, sdkmath.NewInt(int64(1+r.Intn(1000))*1e12)), sdk.NewCoin(vh.SecondDenom, sdkmath.NewInt(int64(1+r.Intn(1_000_000)))))})
	}
	// module accounts as recipients (transfers, calls with value, SELFDESTRUCT beneficiaries): the EVM module's own account,
	// through which every credit is minted and forwarded, and a few others x/bank refuses to credit
	pool := append([]common.Address{}, orphans...)
	for _, name := range []string{"evm", "evm", authtypes.FeeCollectorName, "distribution", "gov", "cpc", "bonded_tokens_pool"} {
		pool = append(pool, common.BytesToAddress(authtypes.NewModuleAddress(name)))
	}
	w := vh.NewWorld(r, vh.WorldOpts{Chain: vh.Config{Seed: r.U64(), NumVals: 1 + wi%3, MaxGas: v.MaxGas, BaseFee: big.NewInt(v.BaseFee), Accounts: orphanAccs, Erc20Native: true}, NumEOA: 6,
		Prog: vh.ProgOpts{MaxLen: 7, Depth: 2}, ExtraPool: pool})
	defer w.C.Cleanup()
	// half of the EOAs never receive value from generated programs (C05 senders): keep them out of the pool
	pure := w.EOAs[:3]
	w.Pool = w.Pool[3:]
	for _, a := range pure {
		w.Track = append(w.Track, a.Addr)
	}
	check := func(ob *vh.ObservedBlock, plans []*vh.TxPlan) { ledgerCheck(run, which, label, w, ob, plans, pure) }
	w.DeployGenerated(12, check)
	for b := 0; b < nBlocks; b++ {
		var plans []*vh.TxPlan
		n := r.Range(1, 7)
		for i := 0; i < n; i++ {
			plans = append(plans, genLedgerTx(w, r, pure))
		}
		w.RunPlans(plans, nil, check)
		if b%15 == 7 { // pay / destroy / pay again / destroy again / forward, all inside one transaction
			owner := pure[b%len(pure)]
			ben := common.BytesToAddress(r.Bytes(20))
			w.Track = append(w.Track, ben)
			sc := w.PlanRepeatDestroy(owner, ben, big.NewInt(int64(1+r.Intn(1000))*1e12))
			w.Track = append(w.Track, sc.Vault, sc.Orch)
			w.RunPlans(sc.Deploy, nil, check)
			w.RunPlans([]*vh.TxPlan{sc.Fire(w, pure[(b+1)%len(pure)])}, nil, check)
			run.Count("repeat_destroy_scenarios", 1)
		}
		if b%15 == 11 {
			// a contract reads its own balance, moves all of it away through the native-coin ERC-20 precompile (x/bank moves
			// the coins, not the StateDB) and then self-destructs toward a third address: nobody may be credited twice
			if erc20 := w.C.App.CPCKeeper.GetErc20CustomPrecompiledContractAddressByMinDenom(w.C.QueryCtx(), vh.Denom); erc20 != nil {
				owner := pure[b%len(pure)]
				x, ben := common.BytesToAddress(r.Bytes(20)), common.BytesToAddress(r.Bytes(20))
				a := vh.NewAsm()
				a.MStoreBytes(0, cpcabi.Erc20CpcInfo.ABI.Methods["transfer"].ID)
				a.PushAddr(x).PushU(4).Op(vm.MSTORE)
				a.Op(vm.SELFBALANCE).PushU(36).Op(vm.MSTORE)
				a.CallMem(vh.CALL, *erc20, nil, 0, 0, 68, 0, 0).Op(vm.POP)
				a.PushAddr(ben).Op(vm.SELFDESTRUCT)
				drainer := crypto.CreateAddress(owner.Addr, w.C.Nonce(owner.Addr))
				w.Track = append(w.Track, x, ben, drainer)
				w.RunPlans([]*vh.TxPlan{w.PlanEth(owner, nil, big.NewInt(int64(1+r.Intn(1000))*1e12), capGasOf(v.MaxGas, 600_000), vh.Deployer(a.Bytes()), "ok", nil)}, nil, check)
				w.RunPlans([]*vh.TxPlan{w.PlanEth(pure[(b+1)%len(pure)], &drainer, nil, capGasOf(v.MaxGas, 600_000), nil, "ok", nil)}, nil, check)
				run.Count("drain_through_precompile_then_selfdestruct_scenarios", 1)
			}
		}
	}
	refundCapLeg(run, which, label, w, r, pure, check, v.MaxGas)
}

// minGasPriceLeg: chains whose genesis sets the fee market's minimum gas price ABOVE the base fee (what a
// governance change of the minimum does for one block, too): the first block runs with the base fee still below
// the minimum; end-of-block processing lifts it afterwards. Transactions priced at or above the minimum - dynamic
// ones with tip + base fee below their cap, gas limits far above the gas consumed - go through the ordinary
// ledger check (exact charge = gas used x min(tip + base fee, cap)) in the first and in the second block.
func minGasPriceLeg(run *vh.Run, which, label string, k int) {
	r := run.RNG("ledger-min-gas-price", k)
	bf := vh.Pick(r, []int64{7, 1_000_000_000, 50_000_000_000})
	mgp := new(big.Int).Div(new(big.Int).Mul(big.NewInt(bf), big.NewInt(int64(vh.Pick(r, []int{15, 30, 100, 1000})))), big.NewInt(10))
	mgpStr := mgp.String()
	if r.Bool() {
		mgpStr += "." + vh.Pick(r, []string{"5", "000000000000000001", "999"})
		mgp.Add(mgp, big.NewInt(1)) // prices are integers: the smallest admissible one is the ceiling
	}
	w := vh.NewWorld(r, vh.WorldOpts{Chain: vh.Config{Seed: r.U64(), NumVals: 1, MaxGas: -1, BaseFee: big.NewInt(bf), MinGasPrice: mgpStr, NoFirstBlock: true}, NumEOA: 6, NoCosmos: true,
		Prog: vh.ProgOpts{MaxLen: 5, Depth: 1}})
	defer w.C.Cleanup()
	pure := w.EOAs[:4]
	w.Pool = w.Pool[4:]
	for _, a := range pure {
		w.Track = append(w.Track, a.Addr)
	}
	check := func(ob *vh.ObservedBlock, plans []*vh.TxPlan) { ledgerCheck(run, which, label, w, ob, plans, pure) }
	for blk := 0; blk < 2; blk++ {
		cur := w.C.BaseFee()
		below := cur.Cmp(mgp) < 0
		var plans []*vh.TxPlan
		for _, s := range pure {
			to := vh.Pick(r, w.Pool)
			var data []byte
			var dst *common.Address = &to
			gas := uint64(vh.Pick(r, []int{21000, 60_000, 400_000}))
			if r.Chance(1, 3) { // a creation: gas consumed well above the intrinsic amount, still far below the limit
				dst, data, gas = nil, vh.Deployer(vh.NewAsm().SStore(1, 7).Op(vm.STOP).Bytes()), 900_000
			}
			floor := new(big.Int).Set(mgp)
			if cur.Cmp(floor) > 0 {
				floor.Set(cur)
			}
			var fs vh.FeeShape
			switch r.Intn(5) {
			case 0:
				fs = vh.FeeShape{Type: r.Intn(2), Price: new(big.Int).Add(floor, big.NewInt(int64(r.Intn(3)))), Kind: "legacy-at-minimum"}
			case 1:
				fs = vh.FeeShape{Type: 2, FeeCap: new(big.Int).Set(floor), TipCap: new(big.Int).Set(floor), Kind: "cap-equals-minimum"}
			default:
				// tip + base fee lands on [minimum, minimum + a little], the cap is several times that
				tip := new(big.Int).Sub(floor, cur)
				tip.Add(tip, big.NewInt(int64(vh.Pick(r, []int{0, 1, 12345}))))
				fs = vh.FeeShape{Type: 2, FeeCap: new(big.Int).Mul(floor, big.NewInt(int64(2+r.Intn(5)))), TipCap: tip, Kind: "tip-plus-base-fee-below-cap"}
			}
			plans = append(plans, w.PlanEth(s, dst, big.NewInt(int64(r.Intn(1000))), gas, data, "ok", &fs))
		}
		ob := w.RunPlans(plans, nil, check)
		if ob == nil || ob.Err != nil {
			return
		}
		for _, res := range ob.Res.TxResults {
			if vh.HasEvent(res, "ethereum_tx") {
				if below {
					run.Count("tx_executed_while_base_fee_below_min_gas_price", 1)
				} else {
					run.Count("tx_executed_after_base_fee_was_lifted_to_min_gas_price", 1)
				}
			}
		}
	}
}

func capGasOf(maxGas int64, g uint64) uint64 {
	if maxGas > 0 && g > uint64(maxGas) {
		return uint64(maxGas)
	}
	return g
}

// refundCapLeg: storage-clearing transactions with gas limits far above the gas consumed, against an exact
// reference for one hand-assembled contract ("clearer": empty call data clears slots 1..N, any call data sets
// them). Gas consumed before the refund G = intrinsic + 15 (CALLDATASIZE, PUSH, JUMPI) + N x (3 + 3 + 5000)
// (cold SSTORE resetting a slot whose original value is non-zero), refund counter N x 4800 (EIP-3529), applied
// refund min(counter, G/5): gas used = G - min(4800 N, G/5), whatever the gas limit. The regular ledger checks
// (exact charge = gas used x price etc.) run on these transactions as on all others.
func refundCapLeg(run *vh.Run, which, label string, w *vh.World, r *vh.RNG, pure []*vh.Acct, check func(*vh.ObservedBlock, []*vh.TxPlan), maxGas int64) {
	type clearer struct {
		addr common.Address
		n    int
	}
	capGas := func(g uint64) uint64 { // finite block gas: a transaction may not ask for more than the block offers
		if maxGas > 0 && g > uint64(maxGas) {
			return uint64(maxGas)
		}
		return g
	}
	// one transaction per block throughout: nothing is dropped for block gas, every transaction is the first of its block
	one := func(p *vh.TxPlan) *vh.ObservedBlock { return w.RunPlans([]*vh.TxPlan{p}, nil, check) }
	var cs []clearer
	dep := pure[0]
	for _, n := range []int{1, 2, 3, 10, 20} {
		a := vh.NewAsm().Op(vm.CALLDATASIZE).JumpI("set")
		for k := 1; k <= n; k++ {
			a.SStore(uint64(k), 0)
		}
		a.Op(vm.STOP).Label("set")
		for k := 1; k <= n; k++ {
			a.SStore(uint64(k), 7)
		}
		a.Op(vm.STOP)
		addr := crypto.CreateAddress(dep.Addr, w.C.Nonce(dep.Addr))
		ob := one(w.PlanEth(dep, nil, nil, capGas(1_000_000), vh.Deployer(a.Bytes()), "ok", nil))
		if er := vh.EthResponse(ob.Res.TxResults[0]); er != nil && er.VmError == "" {
			cs = append(cs, clearer{addr, n})
		}
	}
	for round := 0; round < 3; round++ {
		for i, c := range cs {
			to := c.addr
			ob := one(w.PlanEth(pure[i%len(pure)], &to, nil, capGas(1_000_000), []byte{1}, "ok", nil))
			if er := vh.EthResponse(ob.Res.TxResults[0]); er == nil || er.VmError != "" {
				continue // the slots were not (all) set: nothing to clear
			}
			gl := capGas(uint64(vh.Pick(r, []int{150_000, 400_000, 2_000_000, 5_000_000})))
			p := w.PlanEth(pure[(i+round)%len(pure)], &to, nil, gl, nil, "ok", nil)
			ob = one(p)
			er := vh.EthResponse(ob.Res.TxResults[0])
			if er == nil || er.VmError != "" {
				continue // not executed as planned: nothing to compare
			}
			// intrinsic gas of the actual transaction (generated fee shapes may carry an access list of unrelated entries)
			G := vh.IntrinsicGas(p.Tx) + uint64(15+c.n*5006)
			refund := uint64(c.n * 4800)
			if refund > G/5 {
				refund = G / 5
			}
			want := G - refund
			run.Count("refund_cap_txs_checked", 1)
			if uint64(c.n*4800) > G/5 {
				run.Count("refund_cap_txs_where_the_cap_binds", 1)
			}
			if which == "C05" {
				run.Eval(1)
				run.Nontrivial(fmt.Sprintf("refund-cap|slots=%d|gas-limit=%d", c.n, p.Tx.Gas()))
				if er.GasUsed != want {
					sig := "gas-used-differs-from-refund-cap-reference"
					if er.GasUsed < want {
						sig = "refund-exceeds-one-fifth-of-gas-consumed"
					}
					run.Violation(sig, label, map[string]any{"slots_cleared": c.n, "gas_limit": p.Tx.Gas(), "gas_consumed_before_refund": G,
						"refund_counter": c.n * 4800, "refund_cap_one_fifth": G / 5, "expected_gas_used": want, "observed_gas_used": er.GasUsed,
						"contract": c.addr.Hex(), "height": ob.Height})
				}
			}
		}
	}
}

func genLedgerTx(w *vh.World, r *vh.RNG, pure []*vh.Acct) *vh.TxPlan {
	s := vh.Pick(r, w.EOAs)
	if r.Chance(1, 2) {
		s = vh.Pick(r, pure)
	}
	class := "ok"
	switch k := r.Intn(20); {
	case k == 0:
		class = "stale-nonce"
	case k == 1:
		class = "future-nonce"
	}
	var fee *vh.FeeShape
	if r.Chance(1, 6) {
		f := w.GenFee(false)
		fee = &f
	}
	bal := w.C.Balance(s.Addr)
	value := new(big.Int)
	switch k := r.Intn(10); {
	case k < 3:
		value = big.NewInt(int64(r.Intn(1_000_000)))
	case k == 3:
		value = new(big.Int).Add(bal, big.NewInt(1)) // more than the balance: core error
		class2 := "over-value"
		if class == "ok" {
			class = class2
		}
	case k == 4:
		value = new(big.Int).Div(bal, big.NewInt(int64(2+r.Intn(50))))
	}
	switch k := r.Intn(10); {
	case k < 2: // plain transfer
		to := vh.Pick(r, w.Pool)
		gas := uint64(vh.Pick(r, []int{20999, 21000, 21001, 30000, 100000, 5_000_000}))
		pl := w.PlanEth(s, &to, value, gas, nil, class, fee)
		pl.Kind = "eth-transfer"
		return pl
	case k < 3: // create
		p := vh.GenProgram(r, vh.ProgOpts{Pool: w.Pool, MaxLen: 5, Depth: 1})
		gas := uint64(vh.Pick(r, []int{53000, 60000, 120000, 400000, 3_000_000}))
		// (a create whose value exceeds the balance left after the fee is kept: core error, like the transfer case)
		return w.PlanEth(s, nil, value, gas, vh.Deployer(p.Code), class, fee)
	default:
		if len(w.Contracts) == 0 {
			to := vh.Pick(r, w.Pool)
			return w.PlanEth(s, &to, value, 21000, nil, class, fee)
		}
		c := vh.Pick(r, w.Contracts)
		gas := uint64(vh.Pick(r, []int{21000, 21500, 23000, 30000, 50000, 90000, 200000, 1_000_000, 8_000_000}))
		data := r.Bytes(vh.Pick(r, []int{0, 0, 4, 36, 100}))
		to := c.Addr
		return w.PlanEth(s, &to, value, gas, data, class, fee)
	}
}

func coinAmt(cs interface{ AmountOf(string) sdkmath.Int }, denom string) *big.Int {
	return cs.AmountOf(denom).BigInt()
}

func ledgerCheck(run *vh.Run, which, label string, w *vh.World, ob *vh.ObservedBlock, plans []*vh.TxPlan, pure []*vh.Acct) {
	if ob.Err != nil {
		run.Violation("finalize-block-error", label, map[string]any{"height": ob.Height, "err": ob.Err.Error()})
		return
	}
	isPure := map[common.Address]bool{}
	for _, a := range pure {
		isPure[a.Addr] = true
	}
	var cumGas uint64
	for i, pl := range plans {
		res := ob.Res.TxResults[i]
		pre, _ := ob.Pre[i].View.(*vh.LedgerView)
		post, _ := ob.Post[i].View.(*vh.LedgerView)
		if pre == nil || post == nil {
			continue
		}
		run.Eval(1)
		diff := vh.Diff(ob.Pre[i].Dump, ob.Post[i].Dump)
		if ob.PostIsEndBlock[i] {
			diff = dropEndBlockKeys(diff)
		}
		witness := func(extra map[string]any) map[string]any {
			m := map[string]any{"world": label, "height": ob.Height, "index": i, "plan": pl.String(), "code": res.Code, "log": res.Log,
				"gas_wanted": res.GasWanted, "gas_used": res.GasUsed, "write_set": vh.ChangeStrings(diff), "max_gas": w.C.Cfg.MaxGas}
			for k, v := range extra {
				m[k] = v
			}
			return m
		}
		if pl.Tx == nil { // Cosmos tx: only general supply law (no coins created by a bank send)
			continue
		}
		admitted := vh.HasEvent(res, "ethereum_tx")
		rc, attrs := vh.ReceiptOf(res)
		outcome := "rejected"
		switch {
		case !ob.Reached[i]:
			outcome = "dropped-pre-ante"
		case !admitted:
			outcome = "rejected"
		case rc == nil && strings.Contains(res.Log, "out of gas"):
			outcome = "block-gas-exhausted"
		case rc == nil:
			outcome = "core-error"
		case rc.Status == 1:
			outcome = "success"
		default:
			e := attrs["error"]
			switch {
			case strings.Contains(e, "revert"):
				outcome = "revert"
			case strings.Contains(e, "out of gas"):
				outcome = "out-of-gas"
			default:
				outcome = "vm-error"
			}
		}
		run.Distinct("outcome", outcome)
		run.Count("outcome_"+outcome, 1)
		price := vh.EffectivePrice(pl.Tx, ob.BaseFee)
		gasLimit := pl.Tx.Gas()
		deleted := 0
		for _, ch := range diff {
			if ch.Store == "acc" && len(ch.Key) > 0 && ch.Key[0] == 0x01 && ch.New == nil {
				deleted++
			}
		}
		var gasUsed uint64 // receipt gas used, or the limit when admitted without a receipt
		if admitted {
			gasUsed = gasLimit
			if rc != nil {
				fmt.Sscan(attrs["gasUsed"], &gasUsed)
			}
			run.Count("tx_executed", 1)
			if gasUsed < gasLimit {
				run.Count("tx_with_unused_gas", 1)
				run.Count("unused_gas_total", int(gasLimit-gasUsed))
			}
		} else {
			run.Count("tx_rejected", 1)
		}
		key := fmt.Sprintf("%s|%s|t%d|%s|mg%d", pl.Kind, outcome, pl.Tx.Type(), pl.FeeKind, w.C.Cfg.MaxGas)
		if which == "C04" {
			if !admitted || gasUsed < gasLimit || deleted > 0 {
				run.Nontrivial(key)
			}
			// supply law for every denom
			for denom, before := range pre.Supply {
				b, _ := new(big.Int).SetString(before, 10)
				a, _ := new(big.Int).SetString(post.Supply[denom], 10)
				if a == nil {
					a = new(big.Int)
				}
				if a.Cmp(b) > 0 {
					sig := "supply-increased:" + outcome
					if new(big.Int).Sub(a, b).Cmp(new(big.Int).Mul(price, new(big.Int).SetUint64(gasLimit-gasUsed))) == 0 {
						sig = "supply-increased-by-unused-gas-x-price"
					}
					run.Violation(sig, label, witness(map[string]any{"denom": denom, "supply_before": before, "supply_after": post.Supply[denom],
						"delta": new(big.Int).Sub(a, b).String(), "unused_gas": gasLimit - gasUsed, "effective_price": price.String()}))
				} else if a.Cmp(b) < 0 && deleted == 0 {
					run.Violation("supply-decreased-without-deletion:"+outcome, label, witness(map[string]any{"denom": denom, "supply_before": before, "supply_after": post.Supply[denom]}))
				}
			}
			for denom := range post.Supply {
				if _, ok := pre.Supply[denom]; !ok {
					run.Violation("new-denom-appeared", label, witness(map[string]any{"denom": denom}))
				}
			}
			if deleted > 0 {
				run.Count("tx_with_deletion", 1)
			}
			// fee collector gains exactly what the sender paid in fees
			wantFee := new(big.Int)
			if admitted {
				wantFee.Mul(price, new(big.Int).SetUint64(gasUsed))
			}
			gotFee := new(big.Int).Sub(coinAmt(post.FeeColl, vh.Denom), coinAmt(pre.FeeColl, vh.Denom))
			if !ob.PostIsEndBlock[i] && gotFee.Cmp(wantFee) != 0 {
				sig := "fee-collector-gain-mismatch:" + outcome
				if gotFee.Cmp(new(big.Int).Mul(price, new(big.Int).SetUint64(gasLimit))) == 0 && admitted {
					sig = "fee-collector-keeps-gaslimit-x-price"
				}
				run.Violation(sig, label, witness(map[string]any{"fee_collector_gain": gotFee.String(), "expected": wantFee.String(), "effective_price": price.String(), "receipt_gas_used": gasUsed}))
			}
			if !post.EvmMod.IsZero() {
				run.Violation("evm-module-account-nonzero", label, witness(map[string]any{"evm_module_balance": post.EvmMod.String()}))
			}
		}
		if which == "C05" {
			run.Nontrivial(fmt.Sprintf("t%d|%s|%s", pl.Tx.Type(), pl.FeeKind, outcome))
			if !admitted {
				if len(diff) != 0 {
					run.Violation("rejected-tx-nonempty-write-set:"+outcome, label, witness(nil))
				}
				if rc != nil {
					run.Violation("rejected-tx-has-receipt", label, witness(nil))
				}
				continue
			}
			intrinsic := vh.IntrinsicGas(pl.Tx)
			if rc != nil && (gasUsed < intrinsic || gasUsed > gasLimit) {
				run.Violation("gas-used-out-of-range", label, witness(map[string]any{"receipt_gas_used": gasUsed, "intrinsic": intrinsic}))
			}
			// consensus result gas used == receipt gas used when the execution was committed
			if rc != nil && res.Code == 0 && uint64(res.GasUsed) != gasUsed {
				run.Violation("consensus-gas-used-differs-from-receipt", label, witness(map[string]any{"receipt_gas_used": gasUsed}))
			}
			if uint64(res.GasWanted) != gasLimit {
				run.Violation("gas-wanted-differs-from-limit", label, witness(nil))
			}
			if rc != nil {
				cumGas += gasUsed
				if rc.CumulativeGasUsed != cumGas {
					run.Violation("cumulative-gas-not-running-sum", label, witness(map[string]any{"receipt_cumulative": rc.CumulativeGasUsed, "running_sum": cumGas}))
				}
			} else {
				cumGas += gasLimit
			}
			// exact charge (only for senders no generated program can pay)
			if isPure[pl.Sender.Addr] {
				valueMoved := new(big.Int)
				if rc != nil && rc.Status == 1 {
					valueMoved = pl.Tx.Value()
				}
				want := new(big.Int).Mul(price, new(big.Int).SetUint64(gasUsed))
				want.Add(want, valueMoved)
				if pl.Tx.To() != nil && *pl.Tx.To() == pl.Sender.Addr {
					want.Sub(want, valueMoved) // self transfer
				}
				got := new(big.Int).Sub(coinAmt(pre.Balances0(pl.Sender.Addr), vh.Denom), coinAmt(post.Balances0(pl.Sender.Addr), vh.Denom))
				if got.Cmp(want) != 0 {
					run.Violation("sender-charge-mismatch:"+outcome, label, witness(map[string]any{"charged": got.String(), "expected": want.String(),
						"effective_price": price.String(), "receipt_gas_used": gasUsed, "value_moved": valueMoved.String()}))
				}
				run.Count("exact_charge_checked", 1)
			}
		}
		if len(plans) > 0 && i == 0 && ob.Height%7 == 0 {
			run.Sample(map[string]any{"plan": pl.String(), "outcome": outcome, "gas_used": gasUsed, "price": price.String(), "writes": len(diff)})
		}
	}
}

// dropEndBlockKeys removes keys EndBlock legitimately rewrites every block from a diff whose
// "after" side could only be taken after EndBlock.
func dropEndBlockKeys(d []vh.Change) []vh.Change {
	var out []vh.Change
	for _, c := range d {
		switch c.Store {
		case "feemarket", "staking", "slashing", "distribution", "mint", "gov", "evidence", "upgrade", "ibc", "capability":
			continue
		}
		out = append(out, c)
	}
	return out
}

var _ = ethtypes.LegacyTxType
