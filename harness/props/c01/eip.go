package c01

import (
	"fmt"
	"math/big"
	"os"
	"path/filepath"

	sdk "github.com/cosmos/cosmos-sdk/types"
	ethtypes "github.com/ethereum/go-ethereum/core/types"
	"github.com/ethereum/go-ethereum/core/vm"
	"github.com/ethereum/go-ethereum/crypto"

	evmtypes "github.com/EscanBE/evermint/v12/x/evm/types"

	"verifharness/vh"
)

// eipHistory: "regardless of restarts" when a consensus parameter is taken back. Governance switches an extra EIP on (one that
// re-prices SLOAD / BALANCE: 1884, or SLOAD / SSTORE: 2200) and, some blocks later, off again; contract calls that execute
// those opcodes follow. The recorded history is replayed by a follower that runs through and by one that is killed and
// restarted after the EIP was switched off: both must reproduce the leader's results.
//
// It must be the LAST thing the leader process does: what it demonstrates on the unchanged tree is state that outlives the
// parameter inside the running process.
func eipHistory(run *vh.Run) {
	label := "extra-eip-switched-off"
	if !run.WantCase(label) {
		return
	}
	r := run.RNG("eip-history", 0)
	scratch := os.Getenv("VERIF_SCRATCH")
	if scratch == "" {
		scratch = filepath.Join(vh.Root(), ".build", "scratch", "c01")
	}
	dir := filepath.Join(scratch, label)
	_ = os.MkdirAll(dir, 0o755)
	proposer, s := vh.NewAcct(r), vh.NewAcct(r)
	c := vh.NewChain(vh.Config{Seed: r.U64(), NumVals: 1, MaxGas: -1, MutateGenesis: vh.FastGov, KeepBlocks: true,
		Accounts: []vh.GenAccount{{Addr: proposer.Addr, Coins: vh.NativeCoins(1000)}, {Addr: s.Addr, Coins: vh.NativeCoins(1000)}}})
	defer c.Cleanup()
	seqs := c.NewSeqs()
	eip := int64(vh.Pick(r, []int{1884, 2200}))
	price := new(big.Int).Mul(c.BaseFee(), big.NewInt(3))
	code := vh.NewAsm().PushU(0).Op(vm.SLOAD).PushU(1).Op(vm.ADD).PushU(0).Op(vm.SSTORE).Op(vm.ADDRESS, vm.BALANCE, vm.POP, vm.STOP).Bytes()
	n := c.Nonce(s.Addr)
	c.NextBlock([][]byte{c.WrapEth(vh.SignEth(s, &ethtypes.LegacyTx{Nonce: n, Gas: 300000, GasPrice: price, Data: vh.Deployer(code)}), s.Addr)}, nil)
	at := crypto.CreateAddress(s.Addr, n)
	var callGas []int64
	call := func() {
		br := c.NextBlock([][]byte{c.WrapEth(vh.SignEth(s, &ethtypes.LegacyTx{Nonce: c.Nonce(s.Addr), To: &at, Gas: 100000, GasPrice: price}), s.Addr)}, nil)
		if br.Err == nil && len(br.TxResults()) == 1 {
			callGas = append(callGas, br.TxResults()[0].GasUsed)
		}
	}
	gov := func(eips []int64) bool {
		ep := c.App.EvmKeeper.GetParams(c.QueryCtx())
		ep.ExtraEIPs = eips
		txs, id, err := c.GovProposalTxs(proposer, []sdk.Msg{&evmtypes.MsgUpdateParams{Authority: vh.GovAddr.String(), Params: ep}}, seqs, "extra eips")
		if err != nil {
			return false
		}
		c.NextBlock(txs, nil)
		seqs.Reset()
		for i := 0; i < 6; i++ {
			c.NextBlock(nil, nil)
			if c.ProposalStatuses(c.QueryCtx())[id] == 3 {
				return true
			}
		}
		return false
	}
	call()
	call()
	base := c.App.EvmKeeper.GetParams(c.QueryCtx()).ExtraEIPs
	if !gov(append(append([]int64{}, base...), eip)) {
		run.Inconclusive("C01 extra-EIP history: the proposal that switches the EIP on did not pass")
		return
	}
	call()
	if !gov(base) {
		run.Inconclusive("C01 extra-EIP history: the proposal that switches the EIP off did not pass")
		return
	}
	killAt := len(c.Blocks) // the restarted process executes everything after the EIP was switched off
	for i := 0; i < 4; i++ {
		call()
	}
	histPath := filepath.Join(dir, "history.bin")
	hw, err := NewHistoryWriter(histPath)
	if err != nil {
		run.Inconclusive("cannot write history: " + err.Error())
		return
	}
	_ = hw.Init(c.Genesis)
	var leader []BlockTrace
	for _, b := range c.Blocks {
		_ = hw.Block(b.Req)
		leader = append(leader, TraceOf(b.Height, b.Res, b.Err))
	}
	_ = hw.Close()
	run.Count("extra_eip_histories_recorded", 1)
	run.Distinct("extra_eip_switched_on_and_off", fmt.Sprint(eip))
	run.Sample(map[string]any{"history": label, "extra_eip": eip, "gas_of_the_same_call_before_on_off": callGas, "blocks": len(leader), "restart_before_block_index": killAt})
	qPath := filepath.Join(dir, "queries.json")
	_ = os.WriteFile(qPath, []byte("[]"), 0o644)
	binDir := os.Getenv("VERIF_BIN_DIR")
	through := Variant{Name: "eip-run-through", Binary: "plain", GoMaxProcs: 4, LevelDB: true}
	restart := Variant{Name: "eip-kill-restart", Binary: "plain", GoMaxProcs: 4, LevelDB: true, KillAfter: killAt}
	trT, _, eT := runFollower(binDir, dir, histPath, qPath, through)
	trR, _, eR := runFollower(binDir, dir, histPath, qPath, restart)
	if eT != "" || eR != "" {
		run.Inconclusive("C01 extra-EIP history: follower failed: " + eT + " " + eR)
		return
	}
	run.Eval(2 * len(leader))
	run.Count("followers_compared", 2)
	run.Nontrivial(fmt.Sprintf("extra-eip|%d|on-off-restart", eip))
	firstDiff := func(tr []BlockTrace) (int64, string, string) {
		if len(tr) != len(leader) {
			return -1, "trace-length", fmt.Sprintf("%d vs %d blocks", len(leader), len(tr))
		}
		for i := range leader {
			if what, detail, _ := Compare(leader[i], tr[i]); what != "" {
				return leader[i].Height, what, detail
			}
		}
		return 0, "", ""
	}
	if h, what, detail := firstDiff(trT); what != "" {
		run.Violation("trace-differs:"+what+":extra-eip-history-run-through", label, map[string]any{"variant": through, "height": h, "difference": what, "detail": detail, "extra_eip": eip})
		return
	}
	if h, what, detail := firstDiff(trR); what != "" {
		sig := "trace-differs:" + what + ":extra-eip-history-restart"
		if h > leader[killAt-1].Height {
			// every block up to the restart agrees; the node that was restarted after the EIP had been switched off computes
			// something else from there on than the nodes that kept running
			sig = "restarted-node-diverges-after-an-extra-eip-was-switched-off"
		}
		run.Violation(sig, label, map[string]any{"variant": restart, "height": h, "difference": what, "detail": detail, "extra_eip": eip,
			"restart_before_height": leader[killAt-1].Height + 1, "gas_of_the_same_call_on_the_leader": callGas})
	}
}
