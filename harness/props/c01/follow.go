package c01

import (
	"context"
	"encoding/json"
	"fmt"
	"os"
	"path/filepath"
	"runtime"
	"sync"
	"sync/atomic"

	"cosmossdk.io/store"
	pruningtypes "cosmossdk.io/store/pruning/types"
	abci "github.com/cometbft/cometbft/abci/types"
	dbm "github.com/cosmos/cosmos-db"
	"github.com/cosmos/cosmos-sdk/baseapp"
	"github.com/cosmos/cosmos-sdk/telemetry"

	"verifharness/vh"
)

// Variant is the node-local setting of one re-execution: exactly the things the property
// says the outcome must not depend on.
type Variant struct {
	Name            string   `json:"name"`
	Binary          string   `json:"binary"` // plain | skew | race
	SkewSeconds     int64    `json:"skew_s"`
	GoMaxProcs      int      `json:"gomaxprocs"`
	MinGasPrices    string   `json:"min_gas_prices,omitempty"`
	Pruning         string   `json:"pruning,omitempty"`
	IAVLCache       int      `json:"iavl_cache,omitempty"`
	InterBlockCache bool     `json:"inter_block_cache,omitempty"`
	IndexEvents     []string `json:"index_events,omitempty"`
	EVMTracer       string   `json:"evm_tracer,omitempty"`
	QueryGasLimit   uint64   `json:"query_gas_limit,omitempty"`
	Telemetry       bool     `json:"telemetry,omitempty"`
	Noisy           bool     `json:"noisy,omitempty"` // query goroutines run throughout the replay
	LevelDB         bool     `json:"leveldb,omitempty"`
	KillAfter       int      `json:"kill_after,omitempty"` // exit (without committing the block in flight) after this many blocks; the rest is replayed by a restarted process
}

// Query suggestion recorded by the leader for noisy followers.
type QuerySpec struct {
	Path string `json:"path"`
	Data []byte `json:"data"`
}

// Follow is the entry point of a follower process.
//
//	C01_HISTORY, C01_TRACE, C01_VARIANT (json), C01_DBDIR, C01_QUERIES, C01_RESUME=1
func Follow() int {
	var v Variant
	if err := json.Unmarshal([]byte(os.Getenv("C01_VARIANT")), &v); err != nil {
		fmt.Println("follower: bad variant:", err)
		return 3
	}
	if v.GoMaxProcs > 0 {
		runtime.GOMAXPROCS(v.GoMaxProcs)
	}
	init, blocks, err := ReadHistory(os.Getenv("C01_HISTORY"))
	if err != nil {
		fmt.Println("follower: history:", err)
		return 3
	}
	dir := os.Getenv("C01_DBDIR")
	resume := os.Getenv("C01_RESUME") == "1"
	var db dbm.DB = dbm.NewMemDB()
	if v.LevelDB {
		db, err = dbm.NewGoLevelDB("application", dir, nil)
		if err != nil {
			fmt.Println("follower: leveldb:", err)
			return 3
		}
	}
	var bopts []func(*baseapp.BaseApp)
	if v.MinGasPrices != "" {
		bopts = append(bopts, baseapp.SetMinGasPrices(v.MinGasPrices))
	}
	switch v.Pruning {
	case "nothing":
		bopts = append(bopts, baseapp.SetPruning(pruningtypes.NewPruningOptions(pruningtypes.PruningNothing)))
	case "everything":
		bopts = append(bopts, baseapp.SetPruning(pruningtypes.NewPruningOptions(pruningtypes.PruningEverything)))
	case "custom":
		bopts = append(bopts, baseapp.SetPruning(pruningtypes.NewCustomPruningOptions(3, 10)))
	}
	if v.IAVLCache > 0 {
		bopts = append(bopts, baseapp.SetIAVLCacheSize(v.IAVLCache))
	}
	if v.InterBlockCache {
		bopts = append(bopts, baseapp.SetInterBlockCache(store.NewCommitKVStoreCacheManager()))
	}
	if len(v.IndexEvents) > 0 {
		bopts = append(bopts, baseapp.SetIndexEvents(v.IndexEvents))
	}
	if v.QueryGasLimit > 0 {
		bopts = append(bopts, baseapp.SetQueryGasLimit(v.QueryGasLimit))
	}
	appOpts := map[string]any{}
	if v.EVMTracer != "" {
		appOpts["evm.tracer"] = v.EVMTracer
	}
	if v.Telemetry {
		if _, err := telemetry.New(telemetry.Config{Enabled: true, ServiceName: "verif", EnableHostname: false, PrometheusRetentionTime: 60}); err != nil {
			fmt.Println("follower: telemetry:", err)
		}
	}
	app := vh.NewBareApp(db, filepath.Join(dir, "home"), appOpts, bopts...)
	start := 0
	var traces []BlockTrace
	if resume {
		old, err := ReadTrace(os.Getenv("C01_TRACE"))
		if err != nil {
			fmt.Println("follower: resume trace:", err)
			return 3
		}
		traces = old
		last := app.LastBlockHeight()
		for i, b := range blocks {
			if b.Height == last {
				start = i + 1
			}
		}
		if len(traces) > start {
			traces = traces[:start]
		}
	} else {
		if _, err := app.InitChain(init); err != nil {
			fmt.Println("follower: InitChain:", err)
			return 3
		}
	}
	// noisy: query goroutines hammer the app while blocks are replayed
	var stop atomic.Bool
	var wg sync.WaitGroup
	var nq atomic.Int64
	if v.Noisy {
		var qs []QuerySpec
		if b, err := os.ReadFile(os.Getenv("C01_QUERIES")); err == nil {
			_ = json.Unmarshal(b, &qs)
		}
		for g := 0; g < 4; g++ {
			wg.Add(1)
			go func(g int) {
				defer wg.Done()
				i := g
				for !stop.Load() {
					if len(qs) == 0 {
						runtime.Gosched()
						continue
					}
					q := qs[i%len(qs)]
					i++
					h := int64(0)
					if last := app.LastBlockHeight(); i%3 == 0 && last > 2 {
						h = last - int64(i%2) - 1
					}
					func() {
						defer func() { _ = recover() }()
						_, _ = app.Query(context.Background(), &abci.RequestQuery{Path: q.Path, Data: q.Data, Height: h})
					}()
					nq.Add(1)
				}
			}(g)
		}
	}
	// noisy: mempool traffic. The transactions of the coming blocks are offered to CheckTx while earlier blocks execute,
	// as on a node (CometBFT keeps CheckTx out only while Commit runs: mempoolMu)
	var mempoolMu sync.RWMutex
	var curBlock atomic.Int64
	var nCheck, nSim atomic.Int64
	if v.Noisy {
		wg.Add(1)
		go func() {
			defer wg.Done()
			k := 0
			for !stop.Load() {
				j := int(curBlock.Load()) + 1 + k%3
				k++
				if j >= len(blocks) || len(blocks[j].Txs) == 0 {
					runtime.Gosched()
					continue
				}
				tx := blocks[j].Txs[k%len(blocks[j].Txs)]
				mempoolMu.RLock()
				func() {
					defer func() { _ = recover() }()
					if k%4 == 3 {
						// what a wallet does before it sends: the transaction simulated (full execution in simulate mode)
						_, _ = app.Query(context.Background(), &abci.RequestQuery{Path: "/app/simulate", Data: tx})
						nSim.Add(1)
						return
					}
					_, _ = app.CheckTx(&abci.RequestCheckTx{Tx: tx, Type: abci.CheckTxType_New})
				}()
				mempoolMu.RUnlock()
				nCheck.Add(1)
			}
		}()
	}
	// burst issues a few of the leader's queries synchronously at the given heights (0 = latest): this places queries
	// at exact points of the block cycle, which the free-running goroutines only hit by chance
	var burstQs []QuerySpec
	if v.Noisy {
		if b, err := os.ReadFile(os.Getenv("C01_QUERIES")); err == nil {
			_ = json.Unmarshal(b, &burstQs)
		}
	}
	bi := 0
	burst := func(heights ...int64) {
		for _, h := range heights {
			if h < 0 || len(burstQs) == 0 {
				continue
			}
			for k := 0; k < 2; k++ {
				q := burstQs[bi%len(burstQs)]
				bi++
				func() {
					defer func() { _ = recover() }()
					_, _ = app.Query(context.Background(), &abci.RequestQuery{Path: q.Path, Data: q.Data, Height: h})
				}()
				nq.Add(1)
			}
		}
	}
	code := 0
	for i := start; i < len(blocks); i++ {
		req := blocks[i]
		if !resume && v.KillAfter > 0 && i == v.KillAfter {
			// die with a block in flight: FinalizeBlock done, Commit never happens
			_, _ = app.FinalizeBlock(req)
			stop.Store(true)
			wg.Wait()
			_ = WriteTrace(os.Getenv("C01_TRACE"), traces)
			os.Exit(17)
		}
		curBlock.Store(int64(i))
		var res *abci.ResponseFinalizeBlock
		var ferr error
		func() {
			defer func() {
				if r := recover(); r != nil {
					ferr = fmt.Errorf("panic: %v", r)
				}
			}()
			res, ferr = app.FinalizeBlock(req)
		}()
		traces = append(traces, TraceOf(req.Height, res, ferr))
		if ferr != nil {
			break
		}
		if v.Noisy { // synchronous burst between FinalizeBlock and Commit: queries on the states of older heights
			burst(req.Height-1, req.Height-2, 0)
		}
		mempoolMu.Lock()
		_, cerr := app.Commit()
		mempoolMu.Unlock()
		if cerr != nil {
			traces[len(traces)-1].Err = "commit: " + cerr.Error()
			break
		}
		if v.Noisy { // ... and right after the commit
			burst(req.Height-2, req.Height-1)
		}
	}
	stop.Store(true)
	wg.Wait()
	if err := WriteTrace(os.Getenv("C01_TRACE"), traces); err != nil {
		fmt.Println("follower: write trace:", err)
		return 3
	}
	if v.Noisy {
		_ = os.WriteFile(os.Getenv("C01_TRACE")+".queries", []byte(fmt.Sprintf("%d %d %d", nq.Load(), nCheck.Load(), nSim.Load())), 0o644)
	}
	if v.LevelDB {
		_ = db.Close()
	}
	return code
}
