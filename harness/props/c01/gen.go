package c01

import (
	"encoding/hex"
	"fmt"
	ethtypes "github.com/ethereum/go-ethereum/core/types"
	"math/big"
	"time"

	sdkmath "cosmossdk.io/math"
	"cosmossdk.io/x/feegrant"
	abci "github.com/cometbft/cometbft/abci/types"
	cmted25519 "github.com/cometbft/cometbft/crypto/ed25519"
	codectypes "github.com/cosmos/cosmos-sdk/codec/types"
	cryptocodec "github.com/cosmos/cosmos-sdk/crypto/codec"
	sdk "github.com/cosmos/cosmos-sdk/types"
	vestingtypes "github.com/cosmos/cosmos-sdk/x/auth/vesting/types"
	"github.com/cosmos/cosmos-sdk/x/authz"
	banktypes "github.com/cosmos/cosmos-sdk/x/bank/types"
	distrtypes "github.com/cosmos/cosmos-sdk/x/distribution/types"
	govv1 "github.com/cosmos/cosmos-sdk/x/gov/types/v1"
	stakingtypes "github.com/cosmos/cosmos-sdk/x/staking/types"
	"github.com/ethereum/go-ethereum/common"
	"github.com/ethereum/go-ethereum/core/vm"
	"github.com/ethereum/go-ethereum/crypto"

	cpcabi "github.com/EscanBE/evermint/v12/x/cpc/abi"
	cpctypes "github.com/EscanBE/evermint/v12/x/cpc/types"
	evmtypes "github.com/EscanBE/evermint/v12/x/evm/types"
	vauthtypes "github.com/EscanBE/evermint/v12/x/vauth/types"

	"verifharness/vh"
)

// vesting end times on a fixed grid: before any clock, between block time (2023-11) and the
// real date, between the real date and the +30y skew, and beyond every clock.
var vestEnds = []int64{946684800 /*2000*/, 1717200000 /*2024-06*/, 2208988800 /*2040*/, 2840140800 /*2060*/}
var vestKinds = []string{"delayed", "continuous", "periodic", "permanent"}

type gen struct {
	w              *vh.World
	r              *vh.RNG
	vest           []common.Address // unfunded nonce-0 vesting accounts (wall-clock sensitive when touched)
	vestInfo       map[common.Address]string
	erc20          common.Address
	staking        common.Address
	pendingDestroy []*destroyScenario
	proposals      int
	newVals        int
	stats          map[string]int
	queries        []QuerySpec
	claimAll       []*vh.TxPlan   // claims of the dedicated staker from all validators at once
	deployer       *vh.Acct       // whitelisted precompile deployer; holds the second denomination
	twin           *vh.Acct       // signs two different transactions with the same nonce every few blocks, nothing else
	dynErc20       common.Address // ERC-20 precompile deployed MID-history (zero until then)
	proven         []*vh.Acct     // keys whose ownership gets proven to x/vauth at height 3 (they never transact)
}

type destroyScenario struct {
	orch     *vh.Node
	children []common.Address
	owner    *vh.Acct
}

func newGen(r *vh.RNG, seed uint64) *gen {
	g := &gen{r: r, vestInfo: map[common.Address]string{}, stats: map[string]int{}}
	var accts []vh.GenAccount
	for _, k := range vestKinds {
		for _, end := range vestEnds {
			a := common.BytesToAddress(r.Bytes(20))
			ga := vh.GenAccount{Addr: a, Kind: k, VestStart: 946000000, VestEnd: end,
				OrigVesting: sdk.NewCoins(sdk.NewCoin(vh.Denom, sdkmath.NewInt(1000)))}
			accts = append(accts, ga)
			g.vest = append(g.vest, a)
			g.vestInfo[a] = fmt.Sprintf("%s/end=%d", k, end)
		}
	}
	g.twin = vh.NewAcct(r)
	accts = append(accts, vh.GenAccount{Addr: g.twin.Addr, Coins: vh.NativeCoins(1000)})
	g.deployer = vh.NewAcct(r)
	accts = append(accts, vh.GenAccount{Addr: g.deployer.Addr, Coins: vh.NativeCoins(1000).Add(sdk.NewCoin(vh.SecondDenom, sdkmath.NewInt(5_000_000_000)))})
	g.w = vh.NewWorld(r, vh.WorldOpts{Chain: vh.Config{Seed: seed, KeepBlocks: true, NumVals: 4, MaxGas: 40_000_000, Erc20Native: true, StakingCPC: true,
		CpcWhitelist: []string{g.deployer.Bech32()},
		Accounts:     accts, SlashWindow: 8, UnbondingTime: 40 * time.Second, Inflation: true,
		MutateGenesis: shortGov}, NumEOA: 8, Prog: vh.ProgOpts{MaxLen: 7, Depth: 2}, ExtraPool: g.vest})
	ctx := g.w.C.QueryCtx()
	for _, m := range g.w.C.App.CPCKeeper.GetAllCustomPrecompiledContractsMeta(ctx) {
		switch m.CustomPrecompiledType {
		case cpctypes.CpcTypeErc20:
			g.erc20 = common.BytesToAddress(m.Address)
		case cpctypes.CpcTypeStaking:
			g.staking = common.BytesToAddress(m.Address)
		}
	}
	return g
}

// block composes the transactions and options of the next block.
func (g *gen) block(height int) ([]*vh.TxPlan, *vh.BlockOpt) {
	r, w := g.r, g.w
	opt := &vh.BlockOpt{Proposer: r.Intn(16), TimeStep: time.Duration(3+r.Intn(6)) * time.Second}
	var plans []*vh.TxPlan
	add := func(kind string, p *vh.TxPlan) {
		if p != nil {
			g.stats[kind]++
			plans = append(plans, p)
		}
	}
	// a dedicated staker delegates a large amount to EVERY validator early on and later claims from all of them in one
	// call (withdrawRewards / transfer / withdrawRewardsByMessage-free paths): the order in which the precompile walks
	// several validators is consensus-visible (logs, events) and must not depend on map iteration order
	// the same key signs two different transactions with one nonce (a wallet that re-sends with other contents); both are in
	// the block, the first executes, the second is refused by every node - whatever a node's mempool has seen of the two
	// before (followers with mempool traffic are offered both, in either order, while earlier blocks execute)
	if height%4 == 3 {
		n := w.C.Nonce(g.twin.Addr)
		price := new(big.Int).Mul(w.C.BaseFee(), big.NewInt(3))
		for k := 0; k < 2; k++ {
			to := vh.Pick(r, w.Pool)
			tx := vh.SignEth(g.twin, &ethtypes.LegacyTx{Nonce: n, To: &to, Value: big.NewInt(int64(1 + k + r.Intn(1000))), Gas: 21000 + uint64(k)*9000, GasPrice: price})
			if bz, err := w.C.WrapEthErr(tx, g.twin.Addr); err == nil {
				class := "ok"
				if k == 1 {
					class = "stale-nonce"
				}
				add("twin-nonce", &vh.TxPlan{Kind: "eth-call", Class: class, Sender: g.twin, Tx: tx, Bytes: bz, To: &to})
			}
		}
	}
	staker := w.EOAs[len(w.EOAs)-1]
	if height == 1 {
		for _, v := range w.C.Vals {
			data, err := cpcabi.StakingCpcInfo.ABI.Pack("delegate", common.BytesToAddress(v.Oper), new(big.Int).Mul(big.NewInt(60), big.NewInt(1e18)))
			if err == nil {
				to := g.staking
				add("staking-cpc-delegate-all", w.PlanEth(staker, &to, nil, 1_500_000, data, "ok", nil))
			}
		}
	} else if height > 6 && height%5 == 2 {
		var data []byte
		var err error
		if height%10 == 2 {
			data, err = cpcabi.StakingCpcInfo.ABI.Pack("withdrawRewards")
		} else {
			data, err = cpcabi.StakingCpcInfo.ABI.Pack("transfer", staker.Addr, big.NewInt(1e15))
		}
		if err == nil {
			to := g.staking
			p := w.PlanEth(staker, &to, nil, 3_000_000, data, "ok", nil)
			add("staking-cpc-claim-all", p)
			g.claimAll = append(g.claimAll, p)
		}
	}
	// a custom precompile is deployed in the MIDDLE of the history and used from then on: the set of precompiles a block
	// sees must come from that block's state alone, whatever the node (queries at old heights included) did in between
	if height == 9 {
		msg := &cpctypes.MsgDeployErc20ContractRequest{Authority: g.deployer.Bech32(), Name: "Second", Symbol: "SEC", Decimals: 6, MinDenom: vh.SecondDenom}
		add("cpc-deploy-mid-history", g.cosmos(g.deployer, msg))
	} else if height > 9 && height%3 == 1 {
		if g.dynErc20 == (common.Address{}) {
			if p := w.C.App.CPCKeeper.GetErc20CustomPrecompiledContractAddressByMinDenom(w.C.QueryCtx(), vh.SecondDenom); p != nil {
				g.dynErc20 = *p
			}
		}
		if g.dynErc20 != (common.Address{}) {
			data, err := cpcabi.Erc20CpcInfo.ABI.Pack("transfer", vh.Pick(r, w.EOAs).Addr, big.NewInt(int64(1+r.Intn(1000))))
			if err == nil {
				to := g.dynErc20
				add("erc20-cpc-deployed-mid-history", w.PlanEth(g.deployer, &to, nil, 300000, data, "ok", nil))
			}
		}
	}
	// ownership proofs, then Cosmos transactions with SEVERAL vesting-creation messages for a mix of proven and unproven
	// targets in random order: they are refused, and what the refusal costs (gas-metered proof lookups) is part of the
	// transaction result every node must agree on
	if height == 3 {
		s := w.EOAs[0]
		var msgs []sdk.Msg
		for i := 0; i < 3; i++ {
			a := vh.NewAcct(r)
			g.proven = append(g.proven, a)
			sig, err := crypto.Sign(crypto.Keccak256([]byte(vauthtypes.MessageToSign)), a.Key)
			if err == nil {
				msgs = append(msgs, &vauthtypes.MsgSubmitProofExternalOwnedAccount{Submitter: s.Bech32(), Account: a.Bech32(), Signature: "0x" + hex.EncodeToString(sig)})
			}
		}
		add("vauth-proofs", g.cosmosMulti(s, msgs, 900000))
	} else if height > 4 && height%3 == 0 && len(g.proven) > 0 {
		s := w.EOAs[1]
		var msgs []sdk.Msg
		order := []int{0, 1, 2, 3}
		vh.Shuffle(r, order)
		for _, i := range order {
			to := sdk.AccAddress(vh.NewAcct(r).Addr.Bytes()) // unproven
			if i < 2 {
				to = vh.Pick(r, g.proven).Acc()
			}
			end := w.C.Time.Unix() + int64(100000+r.Intn(1_000_000))
			msgs = append(msgs, vestingtypes.NewMsgCreateVestingAccount(s.Acc(), to, sdk.NewCoins(sdk.NewCoin(vh.Denom, sdkmath.NewInt(int64(1000+r.Intn(1000))))), end, r.Bool()))
		}
		add("vesting-creations-for-proven-and-unproven-targets", g.cosmosMulti(s, msgs, 900000))
	}
	// fire destroy scenarios prepared in the previous block
	for _, sc := range g.pendingDestroy {
		to := sc.orch.Addr
		add("multi-destroy", w.PlanEth(sc.owner, &to, big.NewInt(1_000_000), 2_000_000, nil, "ok", nil))
	}
	g.pendingDestroy = nil
	n := r.Range(0, 9)
	for i := 0; i < n; i++ {
		s := vh.Pick(r, w.EOAs)
		switch k := r.Intn(40); {
		case k < 6: // generated contract call
			if len(w.Contracts) > 0 {
				c := vh.Pick(r, w.Contracts)
				to := c.Addr
				add("eth-call", w.PlanEth(s, &to, big.NewInt(int64(r.Intn(3)*1000)), uint64(vh.Pick(r, []int{25000, 60000, 300000, 2_000_000})), r.Bytes(vh.Pick(r, []int{0, 4, 36})), "ok", nil))
			}
		case k < 9: // touch a vesting account with zero value
			to := vh.Pick(r, g.vest)
			add("vesting-touch:"+g.vestInfo[to], w.PlanEth(s, &to, nil, 30000, nil, "ok", nil))
		case k < 10: // pay a vesting account
			to := vh.Pick(r, g.vest)
			add("vesting-pay", w.PlanEth(s, &to, big.NewInt(5), 30000, nil, "ok", nil))
		case k < 12: // prepare a multi-destroy scenario (fires next block)
			g.prepareDestroy(s, &plans)
		case k < 14: // create
			p := vh.GenProgram(r, vh.ProgOpts{Pool: w.Pool, MaxLen: 5, Depth: 1})
			add("eth-create", w.PlanEth(s, nil, nil, 1_500_000, vh.Deployer(p.Code), "ok", nil))
		case k < 17: // staking precompile
			val := common.BytesToAddress(vh.Pick(r, w.C.Vals).Oper)
			var data []byte
			var err error
			amt := new(big.Int).Mul(big.NewInt(int64(1+r.Intn(5))), big.NewInt(1e15))
			switch r.Intn(4) {
			case 0:
				data, err = cpcabi.StakingCpcInfo.ABI.Pack("transfer", s.Addr, amt)
				g.stats["staking-cpc-transfer"]++
			case 1:
				data, err = cpcabi.StakingCpcInfo.ABI.Pack("delegate", val, amt)
			case 2:
				data, err = cpcabi.StakingCpcInfo.ABI.Pack("undelegate", val, new(big.Int).Div(amt, big.NewInt(2)))
			default:
				data, err = cpcabi.StakingCpcInfo.ABI.Pack("withdrawRewards")
			}
			if err == nil {
				to := g.staking
				add("staking-cpc", w.PlanEth(s, &to, nil, 1_500_000, data, "ok", nil))
			}
		case k < 19: // erc20 precompile
			data, err := cpcabi.Erc20CpcInfo.ABI.Pack("transfer", vh.Pick(r, w.EOAs).Addr, big.NewInt(int64(r.Intn(100000))))
			if err == nil {
				to := g.erc20
				add("erc20-cpc", w.PlanEth(s, &to, nil, 300000, data, "ok", nil))
			}
		case k < 22:
			add("cosmos-send", w.PlanCosmosSend(s, vh.Pick(r, w.Pool), int64(1+r.Intn(100000))))
		case k < 25:
			val := vh.Pick(r, w.C.Vals)
			amt := sdk.NewCoin(vh.Denom, sdkmath.NewInt(int64(1+r.Intn(1000))*1e12))
			var msg sdk.Msg
			switch r.Intn(4) {
			case 0, 1:
				msg = stakingtypes.NewMsgDelegate(s.Bech32(), val.Oper.String(), amt)
			case 2:
				msg = stakingtypes.NewMsgUndelegate(s.Bech32(), val.Oper.String(), sdk.NewCoin(vh.Denom, amt.Amount.QuoRaw(3)))
			default:
				msg = stakingtypes.NewMsgBeginRedelegate(s.Bech32(), val.Oper.String(), vh.Pick(r, w.C.Vals).Oper.String(), sdk.NewCoin(vh.Denom, amt.Amount.QuoRaw(4)))
			}
			add("cosmos-staking", g.cosmos(s, msg))
		case k < 27:
			add("cosmos-withdraw", g.cosmos(s, distrtypes.NewMsgWithdrawDelegatorReward(s.Bech32(), vh.Pick(r, w.C.Vals).Oper.String())))
		case k < 28 && g.newVals < 2: // create validator
			g.newVals++
			priv := cmted25519.GenPrivKeyFromSecret(r.Bytes(32))
			pk, _ := cryptocodec.FromCmtPubKeyInterface(priv.PubKey())
			msg, err := stakingtypes.NewMsgCreateValidator(sdk.ValAddress(s.Addr.Bytes()).String(), pk,
				sdk.NewCoin(vh.Denom, sdkmath.NewIntFromBigInt(vh.Ether(int64(1+r.Intn(2))))), stakingtypes.Description{Moniker: "n"},
				stakingtypes.NewCommissionRates(sdkmath.LegacyMustNewDecFromStr("0.1"), sdkmath.LegacyOneDec(), sdkmath.LegacyOneDec()), sdkmath.OneInt())
			if err == nil {
				add("cosmos-create-validator", g.cosmos(s, msg))
			}
		case k < 29 && g.proposals < 3:
			g.proposals++
			msg, err := govv1.NewMsgSubmitProposal(nil, sdk.NewCoins(sdk.NewCoin(vh.Denom, sdkmath.NewIntFromBigInt(vh.Ether(1)))), s.Bech32(), "m", "t", "s", false)
			if err == nil {
				add("cosmos-gov-submit", g.cosmos(s, msg))
			}
		case k < 30 && g.proposals > 0:
			add("cosmos-gov-vote", g.cosmos(s, govv1.NewMsgVote(s.Acc(), uint64(1+r.Intn(g.proposals)), govv1.OptionYes, "")))
		case k < 31:
			grantee := vh.Pick(r, w.EOAs)
			exp := w.C.Time.Add(1000 * time.Hour)
			if msg, err := authz.NewMsgGrant(s.Acc(), grantee.Acc(), authz.NewGenericAuthorization(sdk.MsgTypeURL(&banktypes.MsgSend{})), &exp); err == nil && grantee != s {
				add("cosmos-authz-grant", g.cosmos(s, msg))
			}
		case k < 32:
			granter := vh.Pick(r, w.EOAs)
			inner := banktypes.NewMsgSend(granter.Acc(), s.Acc(), sdk.NewCoins(sdk.NewCoin(vh.Denom, sdkmath.NewInt(7))))
			m := authz.NewMsgExec(s.Acc(), []sdk.Msg{inner})
			add("cosmos-authz-exec", g.cosmos(s, &m))
		case k < 33:
			grantee := vh.Pick(r, w.EOAs)
			if msg, err := feegrant.NewMsgGrantAllowance(&feegrant.BasicAllowance{}, s.Acc(), grantee.Acc()); err == nil && grantee != s {
				add("cosmos-feegrant", g.cosmos(s, msg))
			}
		case k < 35: // invalid: stale nonce / under-priced / garbage
			switch r.Intn(3) {
			case 0:
				to := vh.Pick(r, w.Pool)
				add("invalid-stale-nonce", w.PlanEth(s, &to, nil, 21000, nil, "stale-nonce", nil))
			case 1:
				to := vh.Pick(r, w.Pool)
				f := vh.FeeShape{Type: 0, Price: big.NewInt(1), Kind: "below"}
				add("invalid-underpriced", w.PlanEth(s, &to, nil, 21000, nil, "future-nonce", &f))
			default:
				add("invalid-garbage", &vh.TxPlan{Kind: "garbage", Class: "garbage", Sender: s, Bytes: r.Bytes(1 + r.Intn(200))})
			}
		case k < 36: // huge gas limit (over block gas)
			to := vh.Pick(r, w.Pool)
			add("over-block-gas", w.PlanEth(s, &to, nil, 39_990_000, nil, "ok", nil))
		default:
			to := vh.Pick(r, w.Pool)
			add("eth-transfer", w.PlanEth(s, &to, big.NewInt(int64(r.Intn(1_000_000))), 21000, nil, "ok", nil))
		}
	}
	// validator churn: absent votes over a window (downtime jailing), double-sign evidence
	vals := w.C.CurrentValidators()
	if len(vals) > 2 {
		if phase := (height / 12) % 4; phase == 1 {
			victim := vals[(height/48)%len(vals)]
			opt.Absent = map[string]bool{fmt.Sprintf("%x", victim.Address): true}
			g.stats["blocks-with-absent-vote"]++
		}
		if height%37 == 0 && height > 0 {
			v := vals[r.Intn(len(vals))]
			var total int64
			for _, x := range vals {
				total += x.Power
			}
			opt.Misbehavior = []abci.Misbehavior{{Type: abci.MisbehaviorType_DUPLICATE_VOTE, Validator: v, Height: w.C.Height, Time: w.C.Time, TotalVotingPower: total}}
			g.stats["blocks-with-double-sign-evidence"]++
		}
	}
	return plans, opt
}

func (g *gen) cosmosMulti(s *vh.Acct, msgs []sdk.Msg, gas uint64) *vh.TxPlan {
	if len(msgs) == 0 {
		return nil
	}
	seq := g.w.NextNonce(s.Addr)
	txb, err := g.w.C.CosmosTxBuilder(s, msgs, &vh.CosmosOpts{Seq: &seq, Gas: gas})
	if err != nil {
		return nil
	}
	g.w.BumpPending(s.Addr)
	return &vh.TxPlan{Kind: "cosmos", Class: "ok", Sender: s, Bytes: g.w.C.Encode(txb)}
}

func (g *gen) cosmos(s *vh.Acct, msg sdk.Msg) *vh.TxPlan {
	seq := g.w.NextNonce(s.Addr)
	opts := &vh.CosmosOpts{Seq: &seq, Gas: 600000}
	switch msg.(type) {
	case *stakingtypes.MsgDelegate, *stakingtypes.MsgUndelegate, *stakingtypes.MsgBeginRedelegate, *distrtypes.MsgWithdrawDelegatorReward:
		// what a web3 wallet sends: the signature is over the EIP-712 rendering of the sign document
		opts.SignKind = vh.Pick(g.r, []string{"", "amino", "eip712-direct", "eip712-amino"})
	}
	txb, err := g.w.C.CosmosTxBuilder(s, []sdk.Msg{msg}, opts)
	if err != nil && opts.SignKind != "" {
		opts.SignKind = ""
		txb, err = g.w.C.CosmosTxBuilder(s, []sdk.Msg{msg}, opts)
	}
	if err != nil {
		return nil
	}
	if opts.SignKind != "" {
		g.stats["cosmos-signed-"+opts.SignKind]++
	}
	g.w.BumpPending(s.Addr)
	return &vh.TxPlan{Kind: "cosmos", Class: "ok", Sender: s, Bytes: g.w.C.Encode(txb)}
}

// prepareDestroy deploys k children (conditional self-destruct: value 0 => SELFDESTRUCT, value > 0 => keep the coins)
// and an orchestrator that first destroys every child and then pays each of them again, so that several
// self-destructed accounts hold coins when the StateDB commits.
func (g *gen) prepareDestroy(owner *vh.Acct, plans *[]*vh.TxPlan) {
	r, w := g.r, g.w
	k := r.Range(3, 5)
	sc := &destroyScenario{owner: owner}
	nonce := w.NextNonce(owner.Addr)
	ben := vh.Pick(r, w.EOAs).Addr
	child := vh.NewAsm().Op(vm.CALLVALUE).JumpI("keep").PushAddr(ben).Op(vm.SELFDESTRUCT).Label("keep").Op(vm.STOP).Bytes()
	orch := &vh.Node{}
	for i := 0; i < k; i++ {
		addr := crypto.CreateAddress(owner.Addr, nonce+uint64(i))
		sc.children = append(sc.children, addr)
		*plans = append(*plans, w.PlanEth(owner, nil, nil, 300000, vh.Deployer(child), "ok", nil))
	}
	for _, c := range sc.children {
		orch.Steps = append(orch.Steps, vh.Step{Ext: &vh.ExtCall{Kind: vh.CALL, To: c}})
	}
	for i, c := range sc.children {
		orch.Steps = append(orch.Steps, vh.Step{Ext: &vh.ExtCall{Kind: vh.CALL, To: c, Value: big.NewInt(int64(1000 + i))}})
	}
	orch.Addr = crypto.CreateAddress(owner.Addr, nonce+uint64(k))
	*plans = append(*plans, w.PlanEth(owner, nil, nil, 1_000_000, vh.Deployer(orch.Code()), "ok", nil))
	sc.orch = orch
	g.pendingDestroy = append(g.pendingDestroy, sc)
	g.stats["multi-destroy-prepared"]++
}

func shortGov(enc vh.EncCfg, gs vh.GenesisMap) {
	var gg govv1.GenesisState
	enc.Codec.MustUnmarshalJSON(gs["gov"], &gg)
	d := 20 * time.Second
	gg.Params.VotingPeriod = &d
	gg.Params.MaxDepositPeriod = &d
	gg.Params.ExpeditedVotingPeriod = func() *time.Duration { x := 10 * time.Second; return &x }()
	gg.Params.MinDeposit = sdk.NewCoins(sdk.NewCoin(vh.Denom, sdkmath.NewInt(1)))
	gg.Params.ExpeditedMinDeposit = sdk.NewCoins(sdk.NewCoin(vh.Denom, sdkmath.NewInt(2)))
	gs["gov"] = enc.Codec.MustMarshalJSON(&gg)
}

var _ = codectypes.NewAnyWithValue
var _ = evmtypes.ModuleName
