package c01

import (
	"encoding/json"
	"fmt"
	"os"
	"os/exec"
	"path/filepath"
	"strings"
	"sync"

	abci "github.com/cometbft/cometbft/abci/types"
	"github.com/cosmos/gogoproto/proto"

	evmtypes "github.com/EscanBE/evermint/v12/x/evm/types"

	"verifharness/vh"
)

// Run is the leader: generate + record histories, replay them in followers, compare traces.
func Run(run *vh.Run) {
	if os.Getenv("C01_MODE") == "follow" {
		os.Exit(Follow())
	}
	nHist := run.N(1, 6)
	nBlocks := run.N(70, 180)
	for hi := 0; hi < nHist; hi++ {
		label := fmt.Sprintf("history-%d", hi)
		if !run.WantCase(label) {
			continue
		}
		oneHistory(run, label, hi, nBlocks)
	}
	run.Rule = "One leader generates a block history while executing it on the real app (Ethereum transfers/calls/creates on generated contracts, zero-value touches of unfunded vesting accounts whose end times straddle block time / real date / skewed dates, transactions destroying several coin-holding self-destructed contracts, staking- and ERC-20-precompile calls incl. transfer() with equal-power validators, Cosmos bank/staking/distribution/gov/authz/feegrant/create-validator transactions, invalid and over-gas transactions, absent votes leading to jailing, double-sign evidence); every follower re-executes the recorded RequestInitChain + RequestFinalizeBlock sequence in a fresh process and emits one trace line per block (app hash; per tx code, codespace, data, gas wanted, gas used, events; block events; validator updates; consensus-param updates). Oracle: trace equality with the leader. Non-trivial = distinct (follower variant x transaction kind present in the history)."
	eipHistory(run) // last: see eip.go
	run.Floor("extra-EIP histories (switched on and off by governance, restart afterwards) replayed", run.Get("extra_eip_histories_recorded"), 1)
	run.Floor("simulations of coming transactions on noisy followers during replay", run.Get("noisy_simulations_of_coming_transactions_during_replay"), int64(run.N(200, 2000)))
	run.Floor("followers compared", run.Get("followers_compared"), int64(run.N(6, 60)))
	run.Floor("wall-clock sensitive transactions (touches of vesting accounts with end time between block time and a follower's clock)", run.Get("wallclock_sensitive_txs"), int64(run.N(4, 40)))
	run.Floor("transactions that share their nonce with another transaction of the same sender in the block", run.Get("twin_nonce_txs"), int64(run.N(10, 60)))
	run.Floor("multi-destroy transactions", run.Get("multi_destroy_txs"), int64(run.N(3, 30)))
	run.Floor("validator-set updates", run.Get("blocks_with_validator_updates"), 1)
	run.Floor("claims from several validators in one transaction (order-sensitive)", run.Get("multi_validator_claim_txs"), int64(run.N(3, 30)))
	run.Assumptions = append(run.Assumptions, "\"every node\" is sampled on this machine / OS / Go toolchain only",
		"the Index flag of event attributes (node-local index-events setting) is not part of the compared event content",
		"Log strings are compared and reported separately (not part of the statement)")
}

func variants(run *vh.Run, nBlocks int) []Variant {
	year := int64(365 * 24 * 3600)
	vs := []Variant{
		{Name: "skew-30y", Binary: "skew", SkewSeconds: -30 * year, GoMaxProcs: 4},
		{Name: "skew+30y", Binary: "skew", SkewSeconds: 30 * year, GoMaxProcs: 16},
		{Name: "procs1", Binary: "plain", GoMaxProcs: 1},
		{Name: "config-a", Binary: "plain", GoMaxProcs: 8, MinGasPrices: "5000000000wei", Pruning: "everything", IAVLCache: 10, InterBlockCache: true,
			IndexEvents: []string{"message.sender"}, EVMTracer: "struct", QueryGasLimit: 1000, Telemetry: true},
		{Name: "config-b", Binary: "plain", GoMaxProcs: 4, Pruning: "nothing", EVMTracer: "access_list", IAVLCache: 1000000},
		{Name: "noisy", Binary: "plain", GoMaxProcs: 16, Noisy: true},
		{Name: "kill-restart", Binary: "plain", GoMaxProcs: 4, LevelDB: true, KillAfter: nBlocks / 2},
		// queries and mempool traffic concurrent with block execution, under the race detector
		{Name: "noisy-race", Binary: "race", GoMaxProcs: 16, Noisy: true},
	}
	if run.Thorough() {
		vs = append(vs,
			Variant{Name: "skew0", Binary: "skew", SkewSeconds: 0, GoMaxProcs: 1},
			Variant{Name: "skew+30y-procs1", Binary: "skew", SkewSeconds: 30 * year, GoMaxProcs: 1},
			Variant{Name: "skew-30y-procs16", Binary: "skew", SkewSeconds: -30 * year, GoMaxProcs: 16},
			Variant{Name: "config-c", Binary: "plain", GoMaxProcs: 16, Pruning: "custom", MinGasPrices: "0wei", InterBlockCache: true, LevelDB: true},
			Variant{Name: "config-d", Binary: "plain", GoMaxProcs: 2, EVMTracer: "json", IndexEvents: []string{"tx.height"}, QueryGasLimit: 1},
			Variant{Name: "config-e", Binary: "plain", GoMaxProcs: 3, Telemetry: true, Pruning: "everything", LevelDB: true, KillAfter: nBlocks / 3},
			Variant{Name: "race", Binary: "race", GoMaxProcs: 8},
		)
	}
	return vs
}

func oneHistory(run *vh.Run, label string, hi, nBlocks int) {
	r := run.RNG("history", hi)
	scratch := os.Getenv("VERIF_SCRATCH")
	if scratch == "" {
		scratch = filepath.Join(vh.Root(), ".build", "scratch", "c01")
	}
	dir := filepath.Join(scratch, label)
	_ = os.MkdirAll(dir, 0o755)
	g := newGen(r, r.U64())
	defer g.w.C.Cleanup()
	histPath := filepath.Join(dir, "history.bin")
	hw, err := NewHistoryWriter(histPath)
	if err != nil {
		run.Inconclusive("cannot write history: " + err.Error())
		return
	}
	_ = hw.Init(g.w.C.Genesis)
	var leader []BlockTrace
	var allPlans [][]*vh.TxPlan
	// the chain already ran block 1 (empty) inside NewChain: it is in Chain.Blocks (KeepBlocks)
	for _, b := range g.w.C.Blocks {
		_ = hw.Block(b.Req)
		leader = append(leader, TraceOf(b.Height, b.Res, b.Err))
		allPlans = append(allPlans, nil)
	}
	// warm-up: generated contracts
	record := func(ob *vh.ObservedBlock, plans []*vh.TxPlan) {
		_ = hw.Block(ob.Req)
		leader = append(leader, TraceOf(ob.Height, ob.Res, ob.Err))
		allPlans = append(allPlans, plans)
		if ob.Res != nil && len(ob.Res.ValidatorUpdates) > 0 {
			run.Count("blocks_with_validator_updates", 1)
		}
	}
	g.w.DeployGenerated(8, func(ob *vh.ObservedBlock, plans []*vh.TxPlan) { record(ob, plans) })
	for b := 0; b < nBlocks; b++ {
		plans, opt := g.block(b)
		txs := make([][]byte, len(plans))
		for i, p := range plans {
			txs[i] = p.Bytes
		}
		g.w.C.KeepBlocks = false
		br := g.w.C.NextBlock(txs, opt)
		g.w.ResetPending()
		ob := &vh.ObservedBlock{BlockResult: br}
		record(ob, plans)
		// measured: claims whose result carries rewards of >= 2 validators (order-sensitive transactions)
		if br.Res != nil {
			for i, p := range plans {
				for _, cp := range g.claimAll {
					if cp == p && i < len(br.Res.TxResults) {
						n := 0
						for _, ev := range br.Res.TxResults[i].Events {
							if ev.Type == "withdraw_rewards" {
								n++
							}
						}
						if br.Res.TxResults[i].Code == 0 && n >= 2 {
							run.Count("multi_validator_claim_txs", 1)
							run.Max("max_validators_claimed_in_one_tx", int64(n))
						}
					}
				}
			}
		}
		if br.Err != nil {
			run.Violation("finalize-block-error:leader", label, map[string]any{"height": br.Height, "err": br.Err.Error()})
			break
		}
	}
	hw.Close()
	for k, v := range g.stats {
		run.Count("gen_"+strings.SplitN(k, ":", 2)[0], v)
		run.Distinct("tx_kind", strings.SplitN(k, ":", 2)[0])
	}
	// count wall-clock sensitive touches: vesting accounts with end 2024-06 (block time < end < real date) or 2040 (real date < end < +30y)
	for k, v := range g.stats {
		if strings.HasPrefix(k, "vesting-touch:") && (strings.HasSuffix(k, "end=1717200000") || strings.HasSuffix(k, "end=2208988800")) {
			run.Count("wallclock_sensitive_txs", v)
		}
	}
	for bi := range leader {
		if bi%23 == 5 && bi < len(allPlans) && len(allPlans[bi]) > 0 {
			var kinds []string
			for ti, p := range allPlans[bi] {
				k := p.Kind
				if p.Tx != nil {
					k = p.String()
				}
				if ti < len(leader[bi].Txs) {
					k = fmt.Sprintf("%s => code %d gas %d events %d", k, leader[bi].Txs[ti].Code, leader[bi].Txs[ti].GasUsed, len(leader[bi].Txs[ti].Events))
				}
				kinds = append(kinds, k)
			}
			run.Sample(map[string]any{"history": label, "height": leader[bi].Height, "app_hash": leader[bi].AppHash, "txs": kinds, "validator_updates": len(leader[bi].ValUpdates)})
		}
	}
	run.Count("multi_destroy_txs", g.stats["multi-destroy"])
	run.Count("twin_nonce_txs", g.stats["twin-nonce"])
	run.Count("blocks_recorded", len(leader))
	ntx := 0
	for bi, t := range leader {
		ntx += len(t.Txs)
		for ti, x := range t.Txs {
			kind := "sentinel"
			if bi < len(allPlans) && ti < len(allPlans[bi]) {
				kind = allPlans[bi][ti].Kind
			}
			if kind == "sentinel" {
				continue
			}
			if x.Code == 0 {
				run.Count("leader_txs_code0", 1)
			} else {
				run.Count("leader_txs_failed", 1)
				run.Distinct("failure_codes", fmt.Sprintf("%s/%d", x.Codespace, x.Code))
			}
		}
	}
	run.Count("txs_recorded", ntx)
	// query suggestions for noisy followers
	qs := g.querySpecs()
	qb, _ := json.Marshal(qs)
	qPath := filepath.Join(dir, "queries.json")
	_ = os.WriteFile(qPath, qb, 0o644)

	// in-process re-executions (fresh app instances, other map seeds / goroutines)
	init, blocks, err := ReadHistory(histPath)
	if err != nil {
		run.Inconclusive("cannot read back history: " + err.Error())
		return
	}
	nIn := run.N(2, 4)
	for k := 0; k < nIn; k++ {
		tr := replayInProcess(init, blocks, filepath.Join(dir, fmt.Sprintf("inproc-%d", k)))
		compareTraces(run, label, fmt.Sprintf("in-process-%d", k), Variant{Name: "in-process"}, leader, tr, allPlans)
	}
	// followers in fresh processes
	vs := variants(run, len(blocks))
	binDir := os.Getenv("VERIF_BIN_DIR")
	var wg sync.WaitGroup
	type outcome struct {
		v   Variant
		tr  []BlockTrace
		err string
		nq  string
	}
	res := make([]outcome, len(vs))
	sem := make(chan struct{}, 6)
	for i, v := range vs {
		wg.Add(1)
		go func(i int, v Variant) {
			defer wg.Done()
			sem <- struct{}{}
			defer func() { <-sem }()
			tr, nq, e := runFollower(binDir, dir, histPath, qPath, v)
			res[i] = outcome{v: v, tr: tr, err: e, nq: nq}
		}(i, v)
	}
	wg.Wait()
	for _, o := range res {
		if o.err != "" {
			if strings.HasPrefix(o.err, "missing-binary") {
				run.Inconclusive("follower " + o.v.Name + ": " + o.err)
				continue
			}
			run.Violation("follower-failed:"+o.v.Name, label, map[string]any{"variant": o.v, "error": o.err})
			continue
		}
		if o.nq != "" {
			var n, nc, ns int
			fmt.Sscan(o.nq, &n, &nc, &ns)
			run.Count("noisy_queries_answered_during_replay", n)
			run.Count("noisy_checktx_calls_during_replay", nc)
			run.Count("noisy_simulations_of_coming_transactions_during_replay", ns)
		}
		if o.v.Noisy && tracesDiffer(leader, o.tr) {
			// Followers with concurrent query goroutines are schedule-dependent. A divergence there is re-examined once with
			// a second, independent run of the same follower: reported when it shows up again (at any block), otherwise
			// counted as a divergence that could not be reproduced (design: a trial is re-run once before it decides).
			tr2, _, e2 := runFollower(binDir, dir, histPath, qPath, o.v)
			if e2 == "" && !tracesDiffer(leader, tr2) {
				run.Count("noisy_follower_divergences_not_reproduced_on_rerun", 1)
				fmt.Printf("NOTE property=C01 follower %s of %s diverged once and agreed with the leader when re-run (schedule-dependent, not reproduced)\n", o.v.Name, label)
				compareTraces(run, label, o.v.Name, o.v, leader, tr2, allPlans)
				continue
			}
		}
		compareTraces(run, label, o.v.Name, o.v, leader, o.tr, allPlans)
	}
}

// tracesDiffer tells whether a follower trace differs from the leader's in anything the property names.
func tracesDiffer(leader, tr []BlockTrace) bool {
	if len(tr) != len(leader) {
		return true
	}
	for i := range leader {
		if what, _, _ := Compare(leader[i], tr[i]); what != "" {
			return true
		}
	}
	return false
}

func compareTraces(run *vh.Run, label, name string, v Variant, leader, tr []BlockTrace, plans [][]*vh.TxPlan) {
	run.Eval(len(leader))
	run.Count("followers_compared", 1)
	run.Distinct("variant", name)
	if len(tr) != len(leader) {
		run.Violation("trace-length-differs:"+variantClass(v), label, map[string]any{"variant": v, "leader_blocks": len(leader), "follower_blocks": len(tr),
			"follower_last": lastOf(tr)})
		return
	}
	logDiffs := 0
	for i := range leader {
		what, detail, logOnly := Compare(leader[i], tr[i])
		if logOnly {
			logDiffs++
		}
		if what != "" {
			var kinds []string
			if i < len(plans) {
				for _, p := range plans[i] {
					kinds = append(kinds, p.String())
				}
			}
			run.Violation("trace-differs:"+what+":"+variantClass(v), label, map[string]any{"variant": v, "height": leader[i].Height, "difference": what, "detail": detail,
				"block_plans": kinds, "leader": leader[i], "follower": tr[i]})
			return
		}
		run.Count("blocks_compared", 1)
	}
	if logDiffs > 0 {
		run.Count("blocks_with_log_string_differences", logDiffs)
	}
	for k := range kindsSeen(plans) {
		run.Nontrivial(name + "|" + k)
	}
}

func kindsSeen(plans [][]*vh.TxPlan) map[string]bool {
	m := map[string]bool{}
	for _, ps := range plans {
		for _, p := range ps {
			m[p.Kind] = true
		}
	}
	return m
}

func lastOf(tr []BlockTrace) any {
	if len(tr) == 0 {
		return nil
	}
	return tr[len(tr)-1]
}

// variantClass names the dimension a follower varies (used in violation signatures).
func variantClass(v Variant) string {
	switch {
	case v.Name == "in-process":
		return "fresh-instance"
	case v.Binary == "skew" && v.SkewSeconds != 0:
		return "wall-clock"
	case v.Binary == "race":
		return "race-build"
	case v.Noisy:
		return "concurrent-queries"
	case v.KillAfter > 0:
		return "kill-restart"
	case v.MinGasPrices != "" || v.Pruning != "" || v.EVMTracer != "" || v.Telemetry || v.InterBlockCache || len(v.IndexEvents) > 0:
		return "node-config"
	default:
		return "scheduling"
	}
}

func replayInProcess(init *abci.RequestInitChain, blocks []*abci.RequestFinalizeBlock, dir string) []BlockTrace {
	app := vh.NewBareApp(vh.NewMemDB(), filepath.Join(dir, "home"), nil)
	defer os.RemoveAll(dir)
	var out []BlockTrace
	if _, err := app.InitChain(init); err != nil {
		return []BlockTrace{{Err: "InitChain: " + err.Error()}}
	}
	for _, req := range blocks {
		var res *abci.ResponseFinalizeBlock
		var err error
		func() {
			defer func() {
				if r := recover(); r != nil {
					err = fmt.Errorf("panic: %v", r)
				}
			}()
			res, err = app.FinalizeBlock(req)
		}()
		out = append(out, TraceOf(req.Height, res, err))
		if err != nil {
			break
		}
		if _, err := app.Commit(); err != nil {
			break
		}
	}
	return out
}

func runFollower(binDir, dir, hist, queries string, v Variant) ([]BlockTrace, string, string) {
	bin := filepath.Join(binDir, v.Binary, "c01")
	if _, err := os.Stat(bin); err != nil {
		return nil, "", "missing-binary " + bin
	}
	fdir := filepath.Join(dir, "f-"+v.Name)
	_ = os.MkdirAll(fdir, 0o755)
	if os.Getenv("C01_KEEP") == "" {
		defer os.RemoveAll(fdir)
	}
	vb, _ := json.Marshal(v)
	trace := filepath.Join(fdir, "trace.jsonl")
	env := append(os.Environ(), "C01_MODE=follow", "C01_HISTORY="+hist, "C01_TRACE="+trace, "C01_VARIANT="+string(vb), "C01_DBDIR="+fdir, "C01_QUERIES="+queries,
		fmt.Sprintf("VERIF_WALLCLOCK_SKEW_S=%d", v.SkewSeconds), fmt.Sprintf("GOMAXPROCS=%d", v.GoMaxProcs),
		"GORACE=halt_on_error=0 log_path="+filepath.Join(fdir, "race"))
	runOnce := func(resume bool) (int, string) {
		cmd := exec.Command(bin)
		e := env
		if resume {
			e = append(e, "C01_RESUME=1")
		}
		cmd.Env = e
		out, _ := os.Create(filepath.Join(fdir, "out.log"))
		cmd.Stdout, cmd.Stderr = out, out
		err := cmd.Run()
		out.Close()
		code := 0
		if err != nil {
			if ee, ok := err.(*exec.ExitError); ok {
				code = ee.ExitCode()
			} else {
				return -1, err.Error()
			}
		}
		return code, ""
	}
	code, e := runOnce(false)
	if e != "" {
		return nil, "", e
	}
	if v.KillAfter > 0 {
		if code != 17 {
			return nil, "", fmt.Sprintf("kill phase exited with %d: %s", code, tail(filepath.Join(fdir, "out.log")))
		}
		code, e = runOnce(true)
		if e != "" {
			return nil, "", e
		}
	}
	if code != 0 && !(code == 66 && v.Binary == "race") { // 66 = the race detector printed reports in a run that completed
		return nil, "", fmt.Sprintf("exit %d: %s", code, tail(filepath.Join(fdir, "out.log")))
	}
	tr, err := ReadTrace(trace)
	if err != nil {
		return nil, "", err.Error()
	}
	nq := ""
	if b, err := os.ReadFile(trace + ".queries"); err == nil {
		nq = string(b)
	}
	// race reports of a race-build follower
	if v.Binary == "race" {
		if files, _ := filepath.Glob(filepath.Join(fdir, "race*")); len(files) > 0 {
			var sb strings.Builder
			for _, f := range files {
				b, _ := os.ReadFile(f)
				sb.Write(b)
			}
			if rep := sb.String(); strings.Contains(rep, "WARNING: DATA RACE") {
				_ = os.WriteFile(filepath.Join(dir, "race-"+v.Name+".txt"), []byte(rep), 0o644)
				return tr, nq, raceSummary(rep)
			}
		}
	}
	return tr, nq, ""
}

// raceSummary turns race-detector output into an error text when repository code performs one of the racing
// accesses (vh.ParseRaceLog: classification by access site; reports inside cosmos-sdk store / iavl between a
// query goroutine and Commit are dependency-only and are not this property's subject).
func raceSummary(rep string) string {
	var ever []string
	seen := map[string]bool{}
	for _, r := range vh.ParseRaceLog(rep) {
		if r.Class == "evermint" && !seen[r.Key] {
			seen[r.Key] = true
			t := r.Text
			if len(t) > 3000 {
				t = t[:3000]
			}
			ever = append(ever, r.Key+"\n"+t)
		}
	}
	if len(ever) == 0 {
		return ""
	}
	return "race-detector reports with a repository access site: " + strings.Join(ever, "\n----\n")
}

func tail(path string) string {
	b, _ := os.ReadFile(path)
	if len(b) > 1500 {
		b = b[len(b)-1500:]
	}
	return string(b)
}

// querySpecs builds the query mix noisy followers run during replay.
func (g *gen) querySpecs() []QuerySpec {
	var qs []QuerySpec
	w := g.w
	for i, c := range w.Contracts {
		if i >= 6 {
			break
		}
		to := c.Addr
		from := w.EOAs[i%len(w.EOAs)].Addr
		args := map[string]any{"from": from.Hex(), "to": to.Hex(), "gas": "0x100000", "data": "0x"}
		ab, _ := json.Marshal(args)
		req := &evmtypes.EthCallRequest{Args: ab, GasCap: 25_000_000}
		b, _ := proto.Marshal(req)
		qs = append(qs, QuerySpec{Path: "/ethermint.evm.v1.Query/EthCall", Data: b})
		qs = append(qs, QuerySpec{Path: "/ethermint.evm.v1.Query/EstimateGas", Data: b})
	}
	for _, a := range w.EOAs[:3] {
		b, _ := proto.Marshal(&evmtypes.QueryBalanceRequest{Address: a.Addr.Hex()})
		qs = append(qs, QuerySpec{Path: "/ethermint.evm.v1.Query/Balance", Data: b})
	}
	b, _ := proto.Marshal(&evmtypes.QueryParamsRequest{})
	qs = append(qs, QuerySpec{Path: "/ethermint.evm.v1.Query/Params", Data: b})
	return qs
}
