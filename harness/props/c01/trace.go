// Package c01 decides C01 (block execution is deterministic) by record / replay
// differential (engine E5): one leader generates a history while executing it; followers
// re-execute it in fresh processes under a skewed wall clock, other GOMAXPROCS, other
// node-local configuration, with concurrent queries, with a kill/restart in the middle;
// the oracle is equality of the consensus-visible traces.
package c01

import (
	"bufio"
	"crypto/sha256"
	"encoding/binary"
	"encoding/hex"
	"encoding/json"
	"fmt"
	"io"
	"os"

	abci "github.com/cometbft/cometbft/abci/types"
	"github.com/cosmos/gogoproto/proto"
)

// TxTrace is the consensus-visible result of one transaction.
type TxTrace struct {
	Code      uint32   `json:"code"`
	Codespace string   `json:"cs,omitempty"`
	Data      string   `json:"data,omitempty"`
	GasWanted int64    `json:"gw"`
	GasUsed   int64    `json:"gu"`
	Events    []string `json:"ev"`
	Log       string   `json:"log,omitempty"` // compared separately (not part of the statement)
}

// BlockTrace is one line of a follower's trace.
type BlockTrace struct {
	Height     int64     `json:"h"`
	AppHash    string    `json:"app"`
	Err        string    `json:"err,omitempty"`
	Txs        []TxTrace `json:"txs"`
	Events     []string  `json:"ev"`
	ValUpdates []string  `json:"vu"`
	ConsParams string    `json:"cp,omitempty"`
}

func evStrings(evs []abci.Event) []string {
	out := make([]string, 0, len(evs))
	for _, e := range evs {
		s := e.Type
		for _, a := range e.Attributes {
			// the Index flag is a node-local indexing hint (index-events config), not event content
			s += "|" + a.Key + "=" + a.Value
		}
		out = append(out, s)
	}
	return out
}

// TraceOf projects a FinalizeBlock response onto what the property names.
func TraceOf(height int64, res *abci.ResponseFinalizeBlock, err error) BlockTrace {
	bt := BlockTrace{Height: height}
	if err != nil {
		bt.Err = err.Error()
		return bt
	}
	bt.AppHash = hex.EncodeToString(res.AppHash)
	for _, r := range res.TxResults {
		h := sha256.Sum256(r.Data)
		t := TxTrace{Code: r.Code, Codespace: r.Codespace, GasWanted: r.GasWanted, GasUsed: r.GasUsed, Events: evStrings(r.Events), Log: r.Log}
		if len(r.Data) > 0 {
			t.Data = hex.EncodeToString(h[:8])
		}
		bt.Txs = append(bt.Txs, t)
	}
	bt.Events = evStrings(res.Events)
	for _, v := range res.ValidatorUpdates {
		b, _ := proto.Marshal(&v)
		bt.ValUpdates = append(bt.ValUpdates, hex.EncodeToString(b))
	}
	if res.ConsensusParamUpdates != nil {
		b, _ := proto.Marshal(res.ConsensusParamUpdates)
		bt.ConsParams = hex.EncodeToString(b)
	}
	return bt
}

// Compare returns a description of the first difference in what the statement covers
// ("" when equal) and, separately, whether only Log strings differ.
func Compare(a, b BlockTrace) (string, string, bool) {
	logOnly := false
	if a.Err != b.Err {
		return "finalize-error", fmt.Sprintf("err %q vs %q", a.Err, b.Err), false
	}
	if a.AppHash != b.AppHash {
		// find a tx-level difference first: more informative
		if d, det := cmpTxs(a, b, &logOnly); d != "" {
			return d, det, false
		}
		return "app-hash", fmt.Sprintf("%s vs %s", a.AppHash, b.AppHash), false
	}
	if d, det := cmpTxs(a, b, &logOnly); d != "" {
		return d, det, false
	}
	if d := cmpStrs(a.Events, b.Events); d != "" {
		return "block-events", d, false
	}
	if d := cmpStrs(a.ValUpdates, b.ValUpdates); d != "" {
		return "validator-updates", d, false
	}
	if a.ConsParams != b.ConsParams {
		return "consensus-param-updates", "", false
	}
	return "", "", logOnly
}

func cmpTxs(a, b BlockTrace, logOnly *bool) (string, string) {
	if len(a.Txs) != len(b.Txs) {
		return "tx-count", fmt.Sprintf("%d vs %d", len(a.Txs), len(b.Txs))
	}
	for i := range a.Txs {
		x, y := a.Txs[i], b.Txs[i]
		switch {
		case x.Code != y.Code || x.Codespace != y.Codespace:
			return "tx-code", fmt.Sprintf("tx %d: code %d/%s (%s) vs %d/%s (%s)", i, x.Code, x.Codespace, trunc(x.Log), y.Code, y.Codespace, trunc(y.Log))
		case x.Data != y.Data:
			return "tx-data", fmt.Sprintf("tx %d", i)
		case x.GasWanted != y.GasWanted:
			return "tx-gas-wanted", fmt.Sprintf("tx %d: %d vs %d", i, x.GasWanted, y.GasWanted)
		case x.GasUsed != y.GasUsed:
			return "tx-gas-used", fmt.Sprintf("tx %d: %d vs %d", i, x.GasUsed, y.GasUsed)
		}
		if d := cmpStrs(x.Events, y.Events); d != "" {
			return "tx-events", fmt.Sprintf("tx %d: %s", i, d)
		}
		if x.Log != y.Log {
			*logOnly = true
		}
	}
	return "", ""
}

func cmpStrs(a, b []string) string {
	if len(a) != len(b) {
		return fmt.Sprintf("count %d vs %d", len(a), len(b))
	}
	for i := range a {
		if a[i] != b[i] {
			// same multiset in another order?
			return fmt.Sprintf("item %d: %q vs %q", i, trunc(a[i]), trunc(b[i]))
		}
	}
	return ""
}

func trunc(s string) string {
	if len(s) > 300 {
		return s[:300] + "…"
	}
	return s
}

// ---- history file: length-prefixed protobuf records -----------------------------------

type HistoryWriter struct {
	f *os.File
	w *bufio.Writer
}

func NewHistoryWriter(path string) (*HistoryWriter, error) {
	f, err := os.Create(path)
	if err != nil {
		return nil, err
	}
	return &HistoryWriter{f: f, w: bufio.NewWriter(f)}, nil
}

func (h *HistoryWriter) put(kind byte, m proto.Message) error {
	b, err := proto.Marshal(m)
	if err != nil {
		return err
	}
	var hdr [5]byte
	hdr[0] = kind
	binary.BigEndian.PutUint32(hdr[1:], uint32(len(b)))
	if _, err := h.w.Write(hdr[:]); err != nil {
		return err
	}
	_, err = h.w.Write(b)
	return err
}

func (h *HistoryWriter) Init(req *abci.RequestInitChain) error      { return h.put('I', req) }
func (h *HistoryWriter) Block(req *abci.RequestFinalizeBlock) error { return h.put('B', req) }
func (h *HistoryWriter) Close() error                               { h.w.Flush(); return h.f.Close() }

// ReadHistory loads a recorded history.
func ReadHistory(path string) (*abci.RequestInitChain, []*abci.RequestFinalizeBlock, error) {
	f, err := os.Open(path)
	if err != nil {
		return nil, nil, err
	}
	defer f.Close()
	r := bufio.NewReader(f)
	var init *abci.RequestInitChain
	var blocks []*abci.RequestFinalizeBlock
	for {
		var hdr [5]byte
		if _, err := io.ReadFull(r, hdr[:]); err != nil {
			if err == io.EOF {
				break
			}
			return nil, nil, err
		}
		b := make([]byte, binary.BigEndian.Uint32(hdr[1:]))
		if _, err := io.ReadFull(r, b); err != nil {
			return nil, nil, err
		}
		switch hdr[0] {
		case 'I':
			init = &abci.RequestInitChain{}
			if err := proto.Unmarshal(b, init); err != nil {
				return nil, nil, err
			}
		case 'B':
			q := &abci.RequestFinalizeBlock{}
			if err := proto.Unmarshal(b, q); err != nil {
				return nil, nil, err
			}
			blocks = append(blocks, q)
		}
	}
	return init, blocks, nil
}

// WriteTrace / ReadTrace: JSON lines.
func WriteTrace(path string, ts []BlockTrace) error {
	f, err := os.Create(path)
	if err != nil {
		return err
	}
	w := bufio.NewWriter(f)
	for _, t := range ts {
		b, _ := json.Marshal(t)
		w.Write(b)
		w.WriteByte('\n')
	}
	w.Flush()
	return f.Close()
}

func ReadTrace(path string) ([]BlockTrace, error) {
	f, err := os.Open(path)
	if err != nil {
		return nil, err
	}
	defer f.Close()
	var out []BlockTrace
	sc := bufio.NewScanner(f)
	sc.Buffer(make([]byte, 1<<20), 1<<28)
	for sc.Scan() {
		var t BlockTrace
		if err := json.Unmarshal(sc.Bytes(), &t); err != nil {
			return nil, err
		}
		out = append(out, t)
	}
	return out, sc.Err()
}
