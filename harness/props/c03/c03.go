// Package c03 monitors property C03: reverted EVM call frames leave no trace, in any module.
package c03

import (
	"fmt"
	"os"
	"runtime"
	"runtime/debug"
	"runtime/pprof"
	"strings"
	"sync"
	"time"

	"verifharness/vh"
)

// Run executes the three monitors of C03 and declares floors, rule and assumptions.
func Run(run *vh.Run) {
	if pf := os.Getenv("VERIF_C03_PROF"); pf != "" { // development aid
		if f, err := os.Create(pf); err == nil {
			_ = pprof.StartCPUProfile(f)
			defer pprof.StopCPUProfile()
		}
	}
	debug.SetGCPercent(400) // the workload allocates many short-lived iterators; memory is not the constraint
	var jobs []func()
	only := os.Getenv("VERIF_C03_ONLY") // development aid: "m1", "m2", "m3"
	want := func(m string) bool { return only == "" || strings.Contains(only, m) }

	// monitor 1: op sequences; fixed number of worlds, fixed sequences per world
	seqWorlds := tier(run, 8, 32)
	seqTotal := run.N(3000, 100_000)
	if seqWorlds > seqTotal {
		seqWorlds = seqTotal
	}
	if want("m1") {
		for wi := 0; wi < seqWorlds; wi++ {
			wi := wi
			lo, hi := wi*seqTotal/seqWorlds, (wi+1)*seqTotal/seqWorlds
			if run.OnlyCase != "" && !strings.HasPrefix(run.OnlyCase, fmt.Sprintf("seq-w%d-", wi)) {
				continue
			}
			jobs = append(jobs, func() {
				t0 := time.Now()
				w := setupSeqWorld(run, wi)
				defer w.c.Cleanup()
				t1 := time.Now()
				for si := lo; si < hi; si++ {
					w.runSeq(si)
				}
				if os.Getenv("VERIF_C03_TIMING") != "" {
					fmt.Fprintf(os.Stderr, "m1 world %d: start %v setup %v seqs %v\n", wi, t0.Format("05.000"), t1.Sub(t0), time.Since(t1))
				}
			})
		}
	}
	// monitor 2: call trees; trees of one world run one after the other on an evolving chain
	treeWorlds := tier(run, 8, 32)
	treeTotal := run.N(400, 10_000)
	if treeWorlds > treeTotal {
		treeWorlds = treeTotal
	}
	if want("m2") {
		for wi := 0; wi < treeWorlds; wi++ {
			wi := wi
			lo, hi := wi*treeTotal/treeWorlds, (wi+1)*treeTotal/treeWorlds
			if run.OnlyCase != "" && !strings.HasPrefix(run.OnlyCase, fmt.Sprintf("tree-w%d-", wi)) {
				continue
			}
			jobs = append(jobs, func() {
				t0 := time.Now()
				tw := setupTreeWorld(run, wi)
				defer tw.c.Cleanup()
				for ti := lo; ti < hi; ti++ {
					tw.runTree(ti)
				}
				if os.Getenv("VERIF_C03_TIMING") != "" {
					fmt.Fprintf(os.Stderr, "m2 world %d: %d trees %v\n", wi, hi-lo, time.Since(t0))
				}
			})
		}
	}
	// monitor 3: VM-error law on a generated-program workload (and on every failed tree transaction above)
	vmWorlds := tier(run, 3, 16)
	vmBlocks := run.N(90, 500)
	if want("m3") {
		for wi := 0; wi < vmWorlds; wi++ {
			wi := wi
			jobs = append(jobs, func() {
				t0 := time.Now()
				vmErrorWorld(run, wi, vmBlocks)
				if os.Getenv("VERIF_C03_TIMING") != "" {
					fmt.Fprintf(os.Stderr, "m3 world %d: %v\n", wi, time.Since(t0))
				}
			})
		}
	}
	runJobs(run, jobs)

	run.Rule = "Three monitors on the real context-based StateDB. (1) Generated sequences (5-60 steps) of every CStateDB mutator and of keeper writes made through GetCurrentContext() " +
		"(bank send, ERC-20 allowance, delegate, undelegate, withdraw reward) over a pool of funded EOAs (two with delegations and accrued rewards), a contract with code+storage+balance, an existing empty account, fresh addresses and a module account, " +
		"interleaved with nested Snapshot/RevertToSnapshot (depth <= 8, reverts to older ids, re-snapshot after revert, 1/8 of reverts reuse the id later), ended by CommitMultiStore/IntermediateRoot or discard. " +
		"Oracle: the survivors (stack discipline over the sequence) are replayed without any Snapshot on a second StateDB over an identical branch; after every revert and at the end all getters, keeper views, white-box clones and the full store dump through the current context must agree, " +
		"per-operation outcomes (return value / error / panic) must agree, nothing may reach the original context before commit, and after commit full dumps and SDK events (operation events in order, commit-phase events as multiset) must agree. " +
		"Non-trivial = distinct (set of operation kinds undone x revert pattern depth>target) among sequences where a revert undid at least one executed operation. " +
		"(2) Generated puppet call trees (<= 7 nodes, depth <= 4; CALL/CALLCODE/DELEGATECALL children with ignore/propagate, STOP/REVERT/INVALID ends; leaves: SSTORE, LOG, value transfer, value-0 touch of an existing empty account, SELFDESTRUCT of the running context (as the end of a child), ERC-20 transfer/approve/burn, staking delegate/undelegate/withdrawReward via CALL/CALLCODE/DELEGATECALL/STATICCALL) run as real transactions, " +
		"directly or through persistent DELEGATECALL proxies that hold delegations with accrued rewards; a fold of the tree with snapshot semantics over leaf models predicts every footprint key, the receipt logs and the transaction status; the per-transaction write set over all stores must contain exactly the surviving effects plus the fee flow. " +
		"Non-trivial = distinct (mode x tree shape) among trees in which at least one executed effect was reverted. " +
		"(3) Every transaction with receipt status 0 in the tree workload and in a generated-program workload (REVERT, INVALID, out of gas at arbitrary points, failing creates): write set within sender nonce + fee flow."
	run.Assumptions = append(run.Assumptions,
		"the meaning of a single StateDB / keeper operation is taken from the implementation itself (survivors-only replay): only the snapshot / revert / commit machinery is judged by monitor 1",
		"a keeper operation that returns an error or panics is kept in the sequence with that outcome (it must repeat identically in the replay); in real execution a precompile error reverts the frame",
		"commit-phase SDK events are compared as a multiset because accounts are destroyed in Go map order",
		"tree worlds have no slashing, so staking shares equal tokens; reward amounts are not modelled: a context with an older delegation touched by a surviving staking leaf may gain any amount, every other balance is exact",
		"a surviving CALL to a custom precompile consumes one account number (go-ethereum creates the account-less callee, commit deletes it as empty); this is attributed to the frame that succeeded and counted exactly",
		"STATICCALL children are not generated (read-only contexts are property C12); STATICCALL is used only directly on precompile write methods, where it must fail",
	)
	if run.OnlyCase == "" && only == "" {
		seqN, treeN := int64(run.N(3000, 100_000)), int64(run.N(400, 10_000))
		run.Floor("m1 sequences in which a revert undid executed operations", run.Get("m1_sequences_with_undone_ops"), seqN/3)
		run.Floor("m1 comparisons after a revert", run.Get("m1_comparisons_after-revert"), seqN)
		run.Floor("m1 reverts that discarded >= 2 snapshots", run.Get("m1_reverts_discarding_2plus_snapshots"), seqN/5)
		run.Floor("m1 reverted frames containing a keeper write", run.Get("m1_reverted_frames_with_keeper_write"), seqN/5)
		run.Floor("m1 sequences ended by commit", run.Get("m1_ended_by_commit"), seqN/3)
		run.Floor("m1 max snapshot depth", run.Get("m1_max_depth"), maxDepth)
		for _, k := range allOpKinds {
			min := seqN / 20
			if k == "PrepareAccessList" {
				min = seqN / 80
			}
			run.Floor("m1 executions of "+k, run.Get("m1_ops_"+k), min)
		}
		run.Floor("m2 trees executed with a receipt", run.Get("m2_tx_status_0")+run.Get("m2_tx_status_1"), treeN*95/100)
		run.Floor("m2 leaves whose effect was reverted", run.Get("m2_leaves_reverted"), treeN)
		run.Floor("m2 leaves whose effect survived", run.Get("m2_leaves_survived"), treeN/2)
		run.Floor("m2 reverted frames containing a precompile write", run.Get("m2_reverted_frames_with_precompile_write"), treeN/3)
		run.Floor("m2 trees where every staking write was reverted (staking/distribution stores must be untouched)", run.Get("m2_trees_all_staking_writes_reverted_store_untouched_checked"), treeN/12)
		run.Floor("m2 trees touching a delegation with accrued rewards", run.Get("m2_trees_touching_delegation_with_accrued_rewards"), treeN/25)
		run.Floor("m2 distinct tree shapes", int64(run.DistinctN("m2_tree_shapes")), treeN/3)
		for _, k := range []string{"sstore", "log", "value", "erc20-transfer", "erc20-approve", "erc20-burn", "stake-delegate"} {
			run.Floor("m2 reverted "+k+" leaves", run.Get("m2_leaf_"+k+"_reverted"), treeN/16)
			run.Floor("m2 surviving "+k+" leaves", run.Get("m2_leaf_"+k+"_survived"), treeN/40)
		}
		for _, k := range []string{"stake-undelegate", "stake-withdraw", "selfdestruct", "touch"} {
			run.Floor("m2 reverted "+k+" leaves", run.Get("m2_leaf_"+k+"_reverted"), treeN/50)
			run.Floor("m2 surviving "+k+" leaves", run.Get("m2_leaf_"+k+"_survived"), treeN/80)
		}
		run.Floor("m3 transactions with receipt status 0 checked", run.Get("m3_vm_error_txs_checked"), int64(run.N(200, 3000)))
		run.Floor("m3 VM error kinds", int64(run.DistinctN("m3_vm_error_kinds")), 3)
	}
}

// runJobs runs the worlds on a goroutine pool. A world that cannot go on (a set-up transaction
// refused, a panic out of the application) makes the run inconclusive instead of crashing it, so
// that violations recorded before - typically the cause - are still reported.
func runJobs(run *vh.Run, jobs []func()) {
	par := runtime.GOMAXPROCS(0)
	if par > 16 {
		par = 16
	}
	if par > len(jobs) {
		par = len(jobs)
	}
	ch := make(chan func())
	var wg sync.WaitGroup
	for i := 0; i < par; i++ {
		wg.Add(1)
		go func() {
			defer wg.Done()
			for j := range ch {
				func() {
					defer func() {
						if r := recover(); r != nil {
							msg := fmt.Sprint(r)
							if len(msg) > 300 {
								msg = msg[:300]
							}
							run.Count("worlds_stopped_early", 1)
							run.Inconclusive("a world stopped early: " + strings.ReplaceAll(msg, "\n", " "))
						}
					}()
					j()
				}()
			}
		}()
	}
	for _, j := range jobs {
		ch <- j
	}
	close(ch)
	wg.Wait()
}

// tier picks a per-tier constant that VERIF_SCALE does not touch (numbers of worlds).
func tier(run *vh.Run, quick, thorough int) int {
	if run.Thorough() {
		return thorough
	}
	return quick
}
