package c03

import (
	"encoding/hex"
	"fmt"
	"math/big"
	"os"
	"sort"
	"strings"

	sdkmath "cosmossdk.io/math"
	abci "github.com/cometbft/cometbft/abci/types"
	sdk "github.com/cosmos/cosmos-sdk/types"
	distrkeeper "github.com/cosmos/cosmos-sdk/x/distribution/keeper"
	distrtypes "github.com/cosmos/cosmos-sdk/x/distribution/types"
	stakingkeeper "github.com/cosmos/cosmos-sdk/x/staking/keeper"
	stakingtypes "github.com/cosmos/cosmos-sdk/x/staking/types"
	"github.com/ethereum/go-ethereum/common"
	ethtypes "github.com/ethereum/go-ethereum/core/types"

	evmvm "github.com/EscanBE/evermint/v12/x/evm/vm"

	"verifharness/vh"
)

// ---------------------------------------------------------------------------------------
// Monitor 1: op sequences at the CStateDB API, survivors-only replay oracle.
//
// Run A executes a generated sequence of mutators interleaved with Snapshot / RevertToSnapshot
// on a real context-based StateDB. The operations not undone by any revert (computed from the
// sequence alone with a stack discipline) are replayed, without a single Snapshot call, on a
// second real StateDB over an identical branch of the same committed chain state (run B).
// Whatever a single operation means is defined by the implementation itself in both runs, so a
// difference between A and B can only come from the snapshot / revert / commit machinery.
// ---------------------------------------------------------------------------------------

const maxDepth = 8

// development aid: judge with the public getters and store dumps only (used to measure what the
// black-box observers catch on their own when mutating the implementation)
var noWhiteBox = os.Getenv("VERIF_C03_NO_WHITEBOX") != ""

var keeperKinds = map[string]bool{"BankSend": true, "SetAllowance": true, "Delegate": true, "Undelegate": true, "WithdrawReward": true}

var allOpKinds = []string{"CreateAccount", "AddBalance", "SubBalance", "SetNonce", "SetCode", "SetState", "Suicide", "Selfdestruct6780",
	"AddRefund", "SubRefund", "AddAddressToAccessList", "AddSlotToAccessList", "AddLog", "SetTransientState", "PrepareAccessList",
	"BankSend", "SetAllowance", "Delegate", "Undelegate", "WithdrawReward"}

// op is one mutator call with fully concrete arguments.
type op struct {
	K      string
	A, B   int // indices into the address pool
	V      int // validator index
	Key    common.Hash
	Val    common.Hash
	Amt    *big.Int
	N      uint64
	Data   []byte
	Topics []common.Hash
	AL     ethtypes.AccessList
	HasDst bool
	Out    string // outcome observed in run A ("ok", return value, error text or "panic: ...")
}

// step of a generated sequence (for the witness and the survivor computation).
type step struct {
	Type     string // "op" | "snapshot" | "revert"
	Op       int    // index into ops (Type == "op")
	ID       int    // snapshot id returned / reverted to
	Discards int    // number of live snapshots a revert discarded (including the target)
	KeepID   bool   // the reverted-to id stays usable (evermint keeps it; go-ethereum would not)
}

type seqWorld struct {
	c     *vh.Chain
	run   *vh.Run
	wi    int
	pool  []common.Address
	names []string
	vals  []sdk.ValAddress
	stk   stakingtypes.MsgServer
	dst   distrtypes.MsgServer
	dq    distrkeeper.Querier
	codes [][]byte
}

func short(h common.Hash) string {
	s := strings.TrimLeft(hex.EncodeToString(h[:]), "0")
	if s == "" {
		s = "0"
	}
	return "0x" + s
}

func (w *seqWorld) opString(o *op) string {
	a, b := w.names[o.A], w.names[o.B]
	switch o.K {
	case "CreateAccount", "Suicide", "Selfdestruct6780", "AddAddressToAccessList":
		return fmt.Sprintf("%s(%s)", o.K, a)
	case "AddBalance", "SubBalance":
		return fmt.Sprintf("%s(%s, %s)", o.K, a, o.Amt)
	case "SetNonce":
		return fmt.Sprintf("SetNonce(%s, %d)", a, o.N)
	case "SetCode":
		return fmt.Sprintf("SetCode(%s, 0x%x)", a, o.Data)
	case "SetState", "SetTransientState":
		return fmt.Sprintf("%s(%s, %s, %s)", o.K, a, short(o.Key), short(o.Val))
	case "AddRefund", "SubRefund":
		return fmt.Sprintf("%s(%d)", o.K, o.N)
	case "AddSlotToAccessList":
		return fmt.Sprintf("AddSlotToAccessList(%s, %s)", a, short(o.Key))
	case "AddLog":
		var ts []string
		for _, t := range o.Topics {
			ts = append(ts, short(t))
		}
		return fmt.Sprintf("AddLog(addr=%s, topics=[%s], data=0x%x)", a, strings.Join(ts, ","), o.Data)
	case "PrepareAccessList":
		dst := "nil"
		if o.HasDst {
			dst = b
		}
		var al []string
		for _, t := range o.AL {
			var ks []string
			for _, k := range t.StorageKeys {
				ks = append(ks, short(k))
			}
			al = append(al, fmt.Sprintf("%s:[%s]", w.nameOf(t.Address), strings.Join(ks, ",")))
		}
		return fmt.Sprintf("PrepareAccessList(sender=%s, dst=%s, list={%s})", a, dst, strings.Join(al, " "))
	case "BankSend":
		return fmt.Sprintf("ctx:bank.SendCoins(%s -> %s, %s)", a, b, o.Amt)
	case "SetAllowance":
		return fmt.Sprintf("ctx:cpc.SetErc20CpcAllowance(owner=%s, spender=%s, %s)", a, b, o.Amt)
	case "Delegate", "Undelegate":
		return fmt.Sprintf("ctx:staking.%s(%s, val%d, %s)", o.K, a, o.V, o.Amt)
	case "WithdrawReward":
		return fmt.Sprintf("ctx:distribution.WithdrawDelegatorReward(%s, val%d)", a, o.V)
	}
	return o.K
}

func (w *seqWorld) nameOf(a common.Address) string {
	for i, p := range w.pool {
		if p == a {
			return w.names[i]
		}
	}
	return a.Hex()
}

func errStr(err error) string {
	if err == nil {
		return "ok"
	}
	return "error: " + err.Error()
}

// exec runs one operation on sdb. Every operation runs under recover(): an operation that
// panics legitimately (SubBalance above the balance, SubRefund above the counter, destroying a
// module account ...) has the outcome "panic: ..." and must have the same outcome in both runs.
func (w *seqWorld) exec(sdb evmvm.CStateDB, o *op) (out string) {
	defer func() {
		if r := recover(); r != nil {
			out = "panic: " + fmt.Sprint(r)
		}
	}()
	a, b := w.pool[o.A], w.pool[o.B]
	app := w.c.App
	switch o.K {
	case "CreateAccount":
		sdb.CreateAccount(a)
	case "AddBalance":
		sdb.AddBalance(a, new(big.Int).Set(o.Amt))
	case "SubBalance":
		sdb.SubBalance(a, new(big.Int).Set(o.Amt))
	case "SetNonce":
		sdb.SetNonce(a, o.N)
	case "SetCode":
		sdb.SetCode(a, append([]byte{}, o.Data...))
	case "SetState":
		sdb.SetState(a, o.Key, o.Val)
	case "Suicide":
		return fmt.Sprintf("returned %v", sdb.Suicide(a))
	case "Selfdestruct6780":
		sdb.Selfdestruct6780(a)
	case "AddRefund":
		sdb.AddRefund(o.N)
	case "SubRefund":
		sdb.SubRefund(o.N)
	case "AddAddressToAccessList":
		sdb.AddAddressToAccessList(a)
	case "AddSlotToAccessList":
		sdb.AddSlotToAccessList(a, o.Key)
	case "AddLog":
		sdb.AddLog(&ethtypes.Log{Address: a, Topics: append([]common.Hash{}, o.Topics...), Data: append([]byte{}, o.Data...)})
	case "SetTransientState":
		sdb.SetTransientState(a, o.Key, o.Val)
	case "PrepareAccessList":
		var dst *common.Address
		if o.HasDst {
			dst = &b
		}
		sdb.PrepareAccessList(a, dst, []common.Address{common.BytesToAddress([]byte{1}), common.BytesToAddress([]byte{9})}, o.AL)
	case "BankSend":
		ctx := sdb.GetCurrentContext()
		return errStr(app.BankKeeper.SendCoins(ctx, a.Bytes(), b.Bytes(), sdk.NewCoins(sdk.NewCoin(vh.Denom, sdkmath.NewIntFromBigInt(o.Amt)))))
	case "SetAllowance":
		app.CPCKeeper.SetErc20CpcAllowance(sdb.GetCurrentContext(), a, b, new(big.Int).Set(o.Amt))
	case "Delegate":
		_, err := w.stk.Delegate(sdb.GetCurrentContext(), stakingtypes.NewMsgDelegate(sdk.AccAddress(a.Bytes()).String(), w.vals[o.V].String(),
			sdk.NewCoin(vh.Denom, sdkmath.NewIntFromBigInt(o.Amt))))
		return errStr(err)
	case "Undelegate":
		_, err := w.stk.Undelegate(sdb.GetCurrentContext(), stakingtypes.NewMsgUndelegate(sdk.AccAddress(a.Bytes()).String(), w.vals[o.V].String(),
			sdk.NewCoin(vh.Denom, sdkmath.NewIntFromBigInt(o.Amt))))
		return errStr(err)
	case "WithdrawReward":
		_, err := w.dst.WithdrawDelegatorReward(sdb.GetCurrentContext(), distrtypes.NewMsgWithdrawDelegatorReward(sdk.AccAddress(a.Bytes()).String(), w.vals[o.V].String()))
		return errStr(err)
	default:
		panic("unknown op kind " + o.K)
	}
	return "ok"
}

func hashN(n uint64) common.Hash { return common.BigToHash(new(big.Int).SetUint64(n)) }

var viewSlots = []common.Hash{hashN(0), hashN(1), hashN(2), hashN(3)}

func logsString(logs []*ethtypes.Log) string {
	var sb strings.Builder
	for _, l := range logs {
		fmt.Fprintf(&sb, "[%s", l.Address.Hex())
		for _, t := range l.Topics {
			sb.WriteString(" " + short(t))
		}
		fmt.Fprintf(&sb, " 0x%x]", l.Data)
	}
	return sb.String()
}

// view reads every getter of the StateDB and the keeper views through its current context.
// Keys are "<class>/<what>"; the class is what a violation signature names.
func (w *seqWorld) view(sdb evmvm.CStateDB, pairs map[[2]int]bool) map[string]string {
	v := map[string]string{}
	app := w.c.App
	ctx := sdb.GetCurrentContext()
	for i, a := range w.pool {
		n := w.names[i]
		v["balance/"+n] = sdb.GetBalance(a).String()
		v["nonce/"+n] = fmt.Sprint(sdb.GetNonce(a))
		code := sdb.GetCode(a)
		v["code/"+n] = fmt.Sprintf("%x|hash=%s|size=%d", code, sdb.GetCodeHash(a).Hex(), sdb.GetCodeSize(a))
		v["exist/"+n] = fmt.Sprint(sdb.Exist(a))
		v["empty/"+n] = fmt.Sprint(sdb.Empty(a))
		v["selfDestructed/"+n] = fmt.Sprint(sdb.HasSuicided(a))
		v["accessList/addr/"+n] = fmt.Sprint(sdb.AddressInAccessList(a))
		for _, s := range viewSlots {
			k := n + "/" + short(s)
			v["storage/"+k] = short(sdb.GetState(a, s))
			v["committedState/"+k] = short(sdb.GetCommittedState(a, s))
			v["transientStorage/"+k] = short(sdb.GetTransientState(a, s))
			ao, so := sdb.SlotInAccessList(a, s)
			v["accessList/slot/"+k] = fmt.Sprintf("%v,%v", ao, so)
		}
		var it []string
		_ = sdb.ForEachStorage(a, func(k, val common.Hash) bool {
			it = append(it, short(k)+"="+short(val))
			return true
		})
		sort.Strings(it)
		v["storage/iter/"+n] = strings.Join(it, ",")
		// keeper views through the current context
		v["bank-balance-via-context/"+n] = app.BankKeeper.GetBalance(ctx, a.Bytes(), vh.Denom).String()
		acc := app.AccountKeeper.GetAccount(ctx, a.Bytes())
		if acc == nil {
			v["account-via-context/"+n] = "-"
		} else {
			v["account-via-context/"+n] = fmt.Sprintf("%T num=%d seq=%d", acc, acc.GetAccountNumber(), acc.GetSequence())
		}
		for j, b := range w.pool {
			if !pairs[[2]int{i, j}] {
				continue
			}
			v["allowance-via-context/"+n+"/"+w.names[j]] = app.CPCKeeper.GetErc20CpcAllowance(ctx, a, b).String()
		}
		for vi, val := range w.vals {
			k := fmt.Sprintf("%s/val%d", n, vi)
			if d, err := app.StakingKeeper.GetDelegation(ctx, a.Bytes(), val); err == nil {
				v["delegation-via-context/"+k] = d.Shares.String()
				v["rewards-via-context/"+k] = w.rewards(ctx, a, val)
			}
			if u, err := app.StakingKeeper.GetUnbondingDelegation(ctx, a.Bytes(), val); err == nil {
				var es []string
				for _, e := range u.Entries {
					es = append(es, fmt.Sprintf("h%d:%s", e.CreationHeight, e.Balance))
				}
				v["unbonding-via-context/"+k] = strings.Join(es, ",")
			}
		}
	}
	v["refund/counter"] = fmt.Sprint(sdb.GetRefund())
	v["logs/transaction-logs"] = logsString(sdb.GetTransactionLogs())
	v["supply-via-context/"+vh.Denom] = app.BankKeeper.GetSupply(ctx, vh.Denom).String()
	if noWhiteBox {
		return v
	}
	// white-box clones of the revertible fields (observation only)
	var ts []string
	for a := range sdb.ForTest_CloneTouched() {
		ts = append(ts, w.nameOf(a))
	}
	sort.Strings(ts)
	v["touched/set"] = strings.Join(ts, ",")
	ts = nil
	for a := range sdb.ForTest_CloneSelfDestructed() {
		ts = append(ts, w.nameOf(a))
	}
	sort.Strings(ts)
	v["selfDestructed/set"] = strings.Join(ts, ",")
	ts = nil
	for a, slots := range sdb.ForTest_CloneAccessList().CloneElements() {
		var ss []string
		for s := range slots {
			ss = append(ss, short(s))
		}
		sort.Strings(ss)
		ts = append(ts, w.nameOf(a)+":["+strings.Join(ss, ",")+"]")
	}
	sort.Strings(ts)
	v["accessList/full"] = strings.Join(ts, " ")
	v["transientStorage/records"] = fmt.Sprint(sdb.ForTest_CountRecordsTransientStorage())
	return v
}

// rewards asks the distribution querier on a throw-away branch (the SDK querier increments the
// validator period on the context it is given). A keeper operation that was refused half-way can
// leave records the querier panics on; that outcome is a value like any other (equal in both runs).
func (w *seqWorld) rewards(ctx sdk.Context, a common.Address, val sdk.ValAddress) (out string) {
	defer func() {
		if r := recover(); r != nil {
			out = "panic: " + fmt.Sprint(r)
		}
	}()
	qctx, _ := ctx.CacheContext()
	rw, err := w.dq.DelegationRewards(qctx, &distrtypes.QueryDelegationRewardsRequest{DelegatorAddress: sdk.AccAddress(a.Bytes()).String(), ValidatorAddress: val.String()})
	if err != nil {
		return "error: " + err.Error()
	}
	return rw.Rewards.String()
}

func classOf(key string) string {
	if i := strings.IndexByte(key, '/'); i >= 0 {
		return key[:i]
	}
	return key
}

// storeClass names a changed raw store key for signatures: "<store>-<prefix class>".
func storeClass(ch vh.Change) string {
	p := byte(0xff)
	if len(ch.Key) > 0 {
		p = ch.Key[0]
	}
	switch ch.Store {
	case "acc":
		switch {
		case p == 0x01:
			return "acc-account-record"
		case p == 0x02 && len(ch.Key) == 1:
			return "acc-global-account-number"
		case strings.HasPrefix(string(ch.Key), "accountNumber"):
			return "acc-account-number-index"
		}
	case "bank":
		switch p {
		case 0x00:
			return "bank-supply"
		case 0x02:
			return "bank-balance"
		case 0x03:
			return "bank-denom-index"
		}
	case "evm":
		switch p {
		case 0x01:
			return "evm-code"
		case 0x02:
			return "evm-storage"
		case 0x04:
			return "evm-code-hash"
		}
	case "cpc":
		switch p {
		case 0x02:
			return "cpc-meta"
		case 0x03:
			return "cpc-denom-index"
		case 0x04:
			return "cpc-allowance"
		}
	case "staking":
		switch p {
		case 0x31:
			return "staking-delegation"
		case 0x32, 0x33:
			return "staking-unbonding-delegation"
		case 0x21:
			return "staking-validator"
		}
		return "staking-other"
	case "distribution":
		switch p {
		case 0x04:
			return "distribution-delegator-starting-info"
		}
		return "distribution-other"
	}
	return fmt.Sprintf("%s-prefix-%02x", ch.Store, p)
}

type seqCase struct {
	w     *seqWorld
	label string
	ops   []*op
	steps []step
	pairs map[[2]int]bool // (owner, spender) pairs whose allowance some operation wrote
}

func (sc *seqCase) stepStrings() []string {
	out := make([]string, 0, len(sc.steps))
	for i, s := range sc.steps {
		switch s.Type {
		case "op":
			out = append(out, fmt.Sprintf("%d: op#%d %s => %s", i, s.Op, sc.w.opString(sc.ops[s.Op]), sc.ops[s.Op].Out))
		case "snapshot":
			out = append(out, fmt.Sprintf("%d: Snapshot() = %d", i, s.ID))
		case "revert":
			k := ""
			if s.KeepID {
				k = " (id stays live)"
			}
			out = append(out, fmt.Sprintf("%d: RevertToSnapshot(%d) discards %d snapshot(s)%s", i, s.ID, s.Discards, k))
		default:
			out = append(out, fmt.Sprintf("%d: %s", i, s.Type))
		}
	}
	return out
}

func (sc *seqCase) survivorStrings(surv []int) []string {
	out := make([]string, 0, len(surv))
	for _, i := range surv {
		out = append(out, fmt.Sprintf("op#%d %s", i, sc.w.opString(sc.ops[i])))
	}
	return out
}

// replay builds run B: a fresh StateDB over a fresh branch of the same base state on which the
// survivors are executed in order without any Snapshot call.
func (sc *seqCase) replay(base sdk.Context, surv []int) (sdk.Context, evmvm.CStateDB, []string) {
	w := sc.w
	ctxB, _ := base.CacheContext()
	sdbB := evmvm.NewStateDB(ctxB, common.Address{}, w.c.App.EvmKeeper, w.c.App.AccountKeeper, w.c.App.BankKeeper)
	var mism []string
	for _, i := range surv {
		if out := w.exec(sdbB, sc.ops[i]); out != sc.ops[i].Out {
			mism = append(mism, fmt.Sprintf("op#%d %s: run A => %q, survivors-only replay => %q", i, w.opString(sc.ops[i]), sc.ops[i].Out, out))
		}
	}
	return ctxB, sdbB, mism
}

// compare checks A against the survivors-only replay; returns run B (for the commit phase) and
// whether everything agreed.
func (sc *seqCase) compare(phase string, base sdk.Context, g0 map[string]string, sdbA evmvm.CStateDB, surv []int) (sdk.Context, evmvm.CStateDB, bool) {
	w := sc.w
	run := w.run
	ctxB, sdbB, mism := sc.replay(base, surv)
	witness := func(extra map[string]any) map[string]any {
		m := map[string]any{"phase": phase, "pool": w.poolLegend(), "sequence": sc.stepStrings(), "survivors": sc.survivorStrings(surv)}
		for k, v := range extra {
			m[k] = v
		}
		return m
	}
	ok := true
	if len(mism) > 0 {
		ok = false
		k := strings.SplitN(mism[0], " ", 3)[1]
		if i := strings.IndexByte(k, '('); i > 0 {
			k = k[:i]
		}
		run.Violation("survivor-outcome-differs-in-replay:"+k, sc.label, witness(map[string]any{"outcome_mismatches": mism}))
	}
	vA, vB := w.view(sdbA, sc.pairs), w.view(sdbB, sc.pairs)
	run.Count("m1_getter_values_compared", len(vA))
	byClass := map[string]map[string]any{}
	dir := map[string]string{}
	keys := map[string]bool{}
	for k := range vA {
		keys[k] = true
	}
	for k := range vB {
		keys[k] = true
	}
	for k := range keys {
		a, aok := vA[k]
		b, bok := vB[k]
		if a == b && aok == bok {
			continue
		}
		c := classOf(k)
		if byClass[c] == nil {
			byClass[c] = map[string]any{}
		}
		byClass[c][k] = map[string]any{"run_A_with_snapshots": a, "run_B_survivors_only": b, "before_sequence": g0[k]}
		// A still equals the pre-sequence value while the replay moved it: an effect of a surviving
		// operation was lost; otherwise A carries something the survivors do not produce.
		d := "revert-left-trace"
		g, gok := g0[k]
		if !gok && c == "allowance-via-context" {
			g, gok = "0", true // no allowance exists in the base state
		}
		if a == g && aok == gok {
			d = "succeeded-frame-effect-lost"
		}
		if dir[c] == "" || d == "revert-left-trace" {
			dir[c] = d
		}
	}
	for c, m := range byClass {
		ok = false
		run.Violation(dir[c]+":"+c, sc.label, witness(map[string]any{"differing_getters": m}))
	}
	// full store contents seen through the current contexts
	dA, dB := w.c.DumpStores(sdbA.GetCurrentContext()), w.c.DumpStores(sdbB.GetCurrentContext())
	if diff := vh.Diff(dB, dA); len(diff) > 0 {
		ok = false
		cls := map[string]bool{}
		for _, ch := range diff {
			cls[storeClass(ch)] = true
		}
		for c := range cls {
			run.Violation("current-context-dump-differs:"+c, sc.label, witness(map[string]any{"diff_B_to_A": vh.ChangeStrings(diff)}))
		}
	}
	run.Count("m1_comparisons", 1)
	run.Count("m1_comparisons_"+phase, 1)
	return ctxB, sdbB, ok
}

func (w *seqWorld) poolLegend() map[string]string {
	m := map[string]string{}
	for i, a := range w.pool {
		m[w.names[i]] = a.Hex()
	}
	return m
}

func eventsStrings(evs []abci.Event) []string {
	out := make([]string, 0, len(evs))
	for _, e := range evs {
		var sb strings.Builder
		sb.WriteString(e.Type)
		for _, a := range e.Attributes {
			sb.WriteString(" " + a.Key + "=" + a.Value)
		}
		out = append(out, sb.String())
	}
	return out
}

func sortedCopy(xs []string) []string {
	c := append([]string{}, xs...)
	sort.Strings(c)
	return c
}

func equalStrings(a, b []string) bool {
	if len(a) != len(b) {
		return false
	}
	for i := range a {
		if a[i] != b[i] {
			return false
		}
	}
	return true
}

// genOp draws one operation; amounts that must stay within a balance / counter are taken from
// run A's current state (the sequence is generated while A executes it).
func (w *seqWorld) genOp(r *vh.RNG, sdb evmvm.CStateDB) *op {
	np := len(w.pool)
	o := &op{A: r.Intn(np), B: r.Intn(np), V: r.Intn(len(w.vals))}
	nonModule := func() int { return r.Intn(np - 1) } // the module account is the last pool entry
	if r.Chance(29, 30) {
		o.A = nonModule()
	}
	amountUpTo := func(bal *big.Int) *big.Int {
		switch k := r.Intn(10); {
		case k == 0:
			return new(big.Int)
		case k == 1:
			return big.NewInt(1)
		case k < 5:
			return big.NewInt(int64(1 + r.Intn(1_000_000)))
		case k == 5:
			return new(big.Int).Set(bal) // everything
		default:
			if bal.Sign() == 0 {
				return new(big.Int)
			}
			return new(big.Int).Div(bal, big.NewInt(int64(2+r.Intn(40))))
		}
	}
	clamp := func(a, max *big.Int) *big.Int {
		if a.Cmp(max) > 0 {
			return new(big.Int).Set(max)
		}
		return a
	}
	k := r.Intn(100)
	switch {
	case k < 5:
		o.K = "CreateAccount"
	case k < 13:
		o.K = "AddBalance"
		o.Amt = amountUpTo(vh.Ether(3))
	case k < 20:
		o.K = "SubBalance"
		bal := sdb.GetBalance(w.pool[o.A])
		o.Amt = clamp(amountUpTo(bal), bal)
		if r.Chance(1, 25) {
			o.Amt = new(big.Int).Add(bal, big.NewInt(1)) // legitimately panics (in both runs)
		}
	case k < 26:
		o.K = "SetNonce"
		o.N = uint64(vh.Pick(r, []int{0, 1, 2, 7, 1000}))
		if r.Bool() {
			o.N = sdb.GetNonce(w.pool[o.A]) + 1
		}
	case k < 32:
		o.K = "SetCode"
		o.Data = vh.Pick(r, w.codes)
		if r.Chance(1, 3) {
			o.Data = r.Bytes(1 + r.Intn(24))
		}
	case k < 44:
		o.K = "SetState"
		o.Key = vh.Pick(r, viewSlots)
		if !r.Chance(1, 3) {
			o.Val = hashN(uint64(1 + r.Intn(250)))
		}
	case k < 48:
		o.K = "Suicide"
	case k < 51:
		o.K = "Selfdestruct6780"
	case k < 56:
		o.K = "AddRefund"
		o.N = uint64(vh.Pick(r, []int{0, 1, 4800, 15000, 19900}))
	case k < 60:
		o.K = "SubRefund"
		cur := sdb.GetRefund()
		if cur > 0 {
			o.N = uint64(r.Intn(int(cur%1_000_000) + 1))
		}
		if r.Chance(1, 20) {
			o.N = cur + 1 // legitimately panics
		}
	case k < 65:
		o.K = "AddAddressToAccessList"
	case k < 70:
		o.K = "AddSlotToAccessList"
		o.Key = vh.Pick(r, viewSlots)
	case k < 76:
		o.K = "AddLog"
		for i := r.Intn(3); i > 0; i-- {
			o.Topics = append(o.Topics, hashN(uint64(r.Intn(1000))))
		}
		o.Data = r.Bytes(r.Intn(9))
	case k < 82:
		o.K = "SetTransientState"
		o.Key = vh.Pick(r, viewSlots)
		if !r.Chance(1, 4) {
			o.Val = hashN(uint64(1 + r.Intn(250)))
		}
	case k < 83:
		o.K = "PrepareAccessList"
		o.HasDst = r.Bool()
		for i := r.Intn(3); i > 0; i-- {
			t := ethtypes.AccessTuple{Address: vh.Pick(r, w.pool)}
			for j := r.Intn(3); j > 0; j-- {
				t.StorageKeys = append(t.StorageKeys, vh.Pick(r, viewSlots))
			}
			o.AL = append(o.AL, t)
		}
	case k < 88:
		o.K = "BankSend"
		bal := sdb.GetBalance(w.pool[o.A])
		o.Amt = clamp(amountUpTo(bal), bal)
		if o.Amt.Sign() == 0 || r.Chance(1, 20) {
			o.Amt = new(big.Int).Add(bal, big.NewInt(1)) // refused by x/bank with an error
		}
	case k < 92:
		o.K = "SetAllowance"
		o.Amt = vh.Pick(r, []*big.Int{new(big.Int), big.NewInt(1), big.NewInt(int64(1 + r.Intn(1_000_000))),
			new(big.Int).Sub(new(big.Int).Lsh(big.NewInt(1), 256), big.NewInt(1))})
	case k < 95:
		o.K = "Delegate"
		if r.Chance(4, 5) {
			o.A = r.Intn(5) // accounts that own coins
		}
		bal := sdb.GetBalance(w.pool[o.A])
		o.Amt = clamp(amountUpTo(bal), bal)
		if o.Amt.Sign() == 0 {
			o.Amt = big.NewInt(int64(1 + r.Intn(1000)))
		}
	case k < 97:
		o.K = "Undelegate"
		o.A = r.Intn(3) // the genesis delegators and one more
		if o.A == 0 && r.Chance(2, 3) {
			o.V = 0 // E0 delegated to val0 only
		}
		o.Amt = big.NewInt(int64(1 + r.Intn(1_000_000)))
		if r.Chance(1, 3) {
			o.Amt = vh.Ether(int64(1 + r.Intn(3)))
		}
	default:
		o.K = "WithdrawReward"
		o.A = r.Intn(3)
		if o.A == 0 && r.Chance(2, 3) {
			o.V = 0
		}
	}
	return o
}

// setupSeqWorld builds the chain whose committed state every sequence of the world branches from:
// funded EOAs (two of them delegators with accrued rewards), a contract with code, storage and
// balance, an existing but empty account, fresh addresses and a module account.
func setupSeqWorld(run *vh.Run, wi int) *seqWorld {
	r := run.RNG("m1-world", wi)
	var eoas []*vh.Acct
	var accs []vh.GenAccount
	for i := 0; i < 4; i++ {
		a := vh.NewAcct(r)
		eoas = append(eoas, a)
		accs = append(accs, vh.GenAccount{Addr: a.Addr, Coins: vh.NativeCoins(1000)})
	}
	dep := vh.NewAcct(r)
	accs = append(accs, vh.GenAccount{Addr: dep.Addr, Coins: vh.NativeCoins(1000)})
	empty := vh.NewAcct(r)
	accs = append(accs, vh.GenAccount{Addr: empty.Addr})
	c := vh.NewChain(vh.Config{Seed: r.U64(), NumVals: 2, Erc20Native: true, StakingCPC: true, Accounts: accs})
	w := &seqWorld{c: c, run: run, wi: wi}
	must := func(what string, br *vh.BlockResult) {
		if br.Err != nil {
			panic(fmt.Sprintf("c03 m1 setup %s: %v", what, br.Err))
		}
		for i, res := range br.TxResults() {
			if res.Code != 0 {
				panic(fmt.Sprintf("c03 m1 setup %s: tx %d code %d %s", what, i, res.Code, res.Log))
			}
		}
	}
	// contract with code + storage + balance
	k := &vh.Node{Steps: []vh.Step{{SStore: &[2]uint64{1, 11}}, {SStore: &[2]uint64{2, 22}}, {SStore: &[2]uint64{3, 33}}}}
	if err := c.DeployTree(dep, k); err != nil {
		panic(err)
	}
	price := new(big.Int).Mul(c.BaseFee(), big.NewInt(50))
	bz, _ := c.EthTx(dep, vh.LegacyTx(c.Nonce(dep.Addr), &k.Addr, big.NewInt(123_456_789), 300_000, price, nil))
	must("call contract", c.NextBlock([][]byte{bz}, nil))
	// delegations
	del := func(a *vh.Acct, v int, eth int64) []byte {
		return c.CosmosTx(a, []sdk.Msg{stakingtypes.NewMsgDelegate(a.Bech32(), c.Vals[v].Oper.String(), sdk.NewCoin(vh.Denom, sdkmath.NewIntFromBigInt(vh.Ether(eth))))}, nil)
	}
	must("delegate", c.NextBlock([][]byte{del(eoas[0], 0, 5), del(eoas[1], 0, 3)}, nil))
	must("delegate2", c.NextBlock([][]byte{del(eoas[1], 1, 2)}, nil))
	// fee-paying blocks so that rewards accrue
	for i := 0; i < 3; i++ {
		to := eoas[3].Addr
		bz, _ := c.EthTx(dep, vh.LegacyTx(c.Nonce(dep.Addr), &to, big.NewInt(1), 21000, price, nil))
		must("fee block", c.NextBlock([][]byte{bz}, nil))
	}
	must("empty block", c.NextBlock(nil, nil))
	for i, a := range eoas {
		w.pool = append(w.pool, a.Addr)
		w.names = append(w.names, fmt.Sprintf("E%d", i))
	}
	w.pool = append(w.pool, k.Addr, empty.Addr, common.BytesToAddress(r.Bytes(20)), common.BytesToAddress(r.Bytes(20)), vh.FeeCollectorAddr)
	w.names = append(w.names, "K", "Z", "F0", "F1", "M")
	for _, v := range c.Vals {
		w.vals = append(w.vals, v.Oper)
	}
	w.stk = stakingkeeper.NewMsgServerImpl(c.App.StakingKeeper)
	w.dst = distrkeeper.NewMsgServerImpl(c.App.DistrKeeper)
	w.dq = distrkeeper.NewQuerier(c.App.DistrKeeper)
	w.codes = [][]byte{nil, {0x00}, {0x60, 0x01, 0x60, 0x00, 0x55, 0x00}, k.Code()}
	return w
}

// runSeq generates and checks one sequence.
func (w *seqWorld) runSeq(si int) {
	run := w.run
	label := fmt.Sprintf("seq-w%d-%d", w.wi, si)
	if !run.WantCase(label) {
		return
	}
	r := run.RNG(fmt.Sprintf("m1-seq-w%d", w.wi), si)
	app := w.c.App
	base := w.c.QueryCtx()
	baseDump := w.c.DumpStores(base)
	ctxA, _ := base.CacheContext()
	sdbA := evmvm.NewStateDB(ctxA, common.Address{}, app.EvmKeeper, app.AccountKeeper, app.BankKeeper)
	sc := &seqCase{w: w, label: label, pairs: map[[2]int]bool{}}
	g0 := w.view(sdbA, nil)

	type frame struct {
		id      int
		survLen int
	}
	var stack []frame
	var surv []int
	n := r.Range(5, 60)
	kindsReverted := map[string]bool{}
	var pattern []string
	undone := 0
	depthMax := 0
	ok := true
	for i := 0; i < n && ok; i++ {
		x := r.Intn(100)
		switch {
		case x < 18 && len(stack) < maxDepth:
			id := sdbA.Snapshot()
			stack = append(stack, frame{id: id, survLen: len(surv)})
			sc.steps = append(sc.steps, step{Type: "snapshot", ID: id})
			run.Count("m1_snapshots", 1)
			if len(stack) > depthMax {
				depthMax = len(stack)
			}
		case x < 31 && len(stack) > 0:
			p := len(stack) - 1
			if r.Chance(1, 2) {
				p = r.Intn(len(stack))
			}
			f := stack[p]
			st := step{Type: "revert", ID: f.id, Discards: len(stack) - p, KeepID: r.Chance(1, 8)}
			sdbA.RevertToSnapshot(f.id)
			hadKeeper := false
			for _, oi := range surv[f.survLen:] {
				o := sc.ops[oi]
				if !strings.HasPrefix(o.Out, "panic") {
					kindsReverted[o.K] = true
					undone++
				}
				if keeperKinds[o.K] && o.Out == "ok" {
					hadKeeper = true
				}
			}
			pattern = append(pattern, fmt.Sprintf("%d>%d", len(stack), p))
			surv = surv[:f.survLen]
			if st.KeepID {
				stack = stack[:p+1]
				run.Count("m1_reverts_reusing_id_later", 1)
			} else {
				stack = stack[:p]
			}
			sc.steps = append(sc.steps, st)
			run.Count("m1_reverts", 1)
			if st.Discards >= 2 {
				run.Count("m1_reverts_discarding_2plus_snapshots", 1)
			}
			if hadKeeper {
				run.Count("m1_reverted_frames_with_keeper_write", 1)
			}
			_, _, ok = sc.compare("after-revert", base, g0, sdbA, surv)
		default:
			o := w.genOp(r, sdbA)
			if o.K == "SetAllowance" {
				sc.pairs[[2]int{o.A, o.B}] = true
			}
			o.Out = w.exec(sdbA, o)
			sc.ops = append(sc.ops, o)
			surv = append(surv, len(sc.ops)-1)
			sc.steps = append(sc.steps, step{Type: "op", Op: len(sc.ops) - 1})
			run.Count("m1_ops_"+o.K, 1)
			switch {
			case strings.HasPrefix(o.Out, "panic"):
				run.Count("m1_ops_panicked_in_both_runs", 1)
				run.Distinct("m1_panicking_kinds", o.K)
			case strings.HasPrefix(o.Out, "error"):
				run.Count("m1_keeper_ops_refused_with_error", 1)
			}
		}
	}
	run.Eval(1)
	run.Max("m1_max_depth", int64(depthMax))
	if !ok {
		return
	}
	ctxB, sdbB, ok := sc.compare("end-before-commit", base, g0, sdbA, surv)
	witness := func(extra map[string]any) map[string]any {
		m := map[string]any{"pool": w.poolLegend(), "sequence": sc.stepStrings(), "survivors": sc.survivorStrings(surv)}
		for k, v := range extra {
			m[k] = v
		}
		return m
	}
	// nothing may reach the original context before commit
	if d := vh.Diff(baseDump, w.c.DumpStores(ctxA)); len(d) > 0 {
		run.Violation("uncommitted-write-reached-original-context", label, witness(map[string]any{"diff": vh.ChangeStrings(d)}))
		ok = false
	}
	if evs := ctxA.EventManager().Events(); len(evs) > 0 {
		run.Violation("uncommitted-event-reached-original-context", label, witness(map[string]any{"events": eventsStrings(evs.ToABCIEvents())}))
		ok = false
	}
	if undone > 0 {
		var ks []string
		for k := range kindsReverted {
			ks = append(ks, k)
		}
		sort.Strings(ks)
		run.Nontrivial("m1|" + strings.Join(ks, "+") + "|" + strings.Join(pattern, ","))
		run.Count("m1_sequences_with_undone_ops", 1)
		run.Count("m1_ops_undone_by_reverts", undone)
	}
	if !ok {
		return
	}
	if r.Chance(3, 10) {
		sc.steps = append(sc.steps, step{Type: "discard"})
		run.Count("m1_ended_by_discard", 1)
		return
	}
	// commit both runs
	del := !r.Chance(1, 5)
	viaRoot := r.Chance(1, 4)
	sc.steps = append(sc.steps, step{Type: fmt.Sprintf("CommitMultiStore(deleteEmptyObjects=%v, viaIntermediateRoot=%v)", del, viaRoot)})
	preB := len(sdbB.GetCurrentContext().EventManager().Events())
	commit := func(sdb evmvm.CStateDB) (out string) {
		defer func() {
			if r := recover(); r != nil {
				out = "panic: " + fmt.Sprint(r)
			}
		}()
		if viaRoot {
			_, err := sdb.IntermediateRoot(del)
			return errStr(err)
		}
		return errStr(sdb.CommitMultiStore(del))
	}
	outA, outB := commit(sdbA), commit(sdbB)
	run.Count("m1_ended_by_commit", 1)
	if outA != outB {
		run.Violation("commit-outcome-differs", label, witness(map[string]any{"run_A": outA, "run_B": outB}))
		return
	}
	if outA != "ok" {
		run.Count("m1_commit_refused_in_both_runs", 1)
		return
	}
	dA, dB := w.c.DumpStores(ctxA), w.c.DumpStores(ctxB)
	if diff := vh.Diff(dB, dA); len(diff) > 0 {
		cls := map[string]bool{}
		for _, ch := range diff {
			cls[storeClass(ch)] = true
		}
		for c := range cls {
			run.Violation("commit-dump-differs:"+c, label, witness(map[string]any{"diff_B_to_A": vh.ChangeStrings(diff),
				"writes_of_run_B": vh.ChangeStrings(vh.Diff(baseDump, dB))}))
		}
	}
	run.Count("m1_commit_dump_keys_compared", len(dA))
	if len(vh.Diff(baseDump, dA)) > 0 {
		run.Count("m1_commits_with_nonempty_write_set", 1)
	}
	// SDK events that reach the original context: the operations' events in execution order, then
	// the commit-phase events (accounts are destroyed in map order, so those are compared as a multiset).
	eA, eB := eventsStrings(ctxA.EventManager().Events().ToABCIEvents()), eventsStrings(ctxB.EventManager().Events().ToABCIEvents())
	run.Count("m1_sdk_events_compared", len(eB))
	evOK := len(eA) == len(eB) && preB <= len(eA)
	if evOK {
		evOK = equalStrings(eA[:preB], eB[:preB]) && equalStrings(sortedCopy(eA[preB:]), sortedCopy(eB[preB:]))
	}
	if !evOK {
		sig := "commit-events-differ:order-or-content"
		if len(eA) > len(eB) {
			sig = "revert-left-trace:sdk-events"
		} else if len(eA) < len(eB) {
			sig = "succeeded-frame-effect-lost:sdk-events"
		}
		run.Violation(sig, label, witness(map[string]any{"events_run_A": eA, "events_run_B": eB, "events_before_commit_in_B": preB}))
	}
	if si%500 == 0 {
		run.Sample(map[string]any{"monitor": "op-sequence", "case": label, "sequence": sc.stepStrings(), "survivors": len(surv), "events_after_commit": len(eA),
			"write_set_after_commit": len(vh.Diff(baseDump, dA))})
	}
}
