package c03

import (
	"bytes"
	"fmt"
	"math/big"
	"sort"
	"strings"

	sdk "github.com/cosmos/cosmos-sdk/types"
	authtypes "github.com/cosmos/cosmos-sdk/x/auth/types"
	distrtypes "github.com/cosmos/cosmos-sdk/x/distribution/types"
	stakingtypes "github.com/cosmos/cosmos-sdk/x/staking/types"
	"github.com/ethereum/go-ethereum/common"
	ethtypes "github.com/ethereum/go-ethereum/core/types"
	"github.com/ethereum/go-ethereum/core/vm"
	"github.com/ethereum/go-ethereum/crypto"

	cpcabi "github.com/EscanBE/evermint/v12/x/cpc/abi"
	cpctypes "github.com/EscanBE/evermint/v12/x/cpc/types"

	"verifharness/vh"
)

// ---------------------------------------------------------------------------------------
// Monitor 2: end-to-end call trees through real transactions.
//
// One puppet contract per node of a generated abstract tree. Frames contain storage writes,
// logs, value transfers and calls into the stateful custom precompiles (ERC-20 of the native
// denomination, staking) and end by STOP / REVERT / INVALID; parents ignore or propagate a
// failed child. The oracle is a fold of the abstract tree with snapshot semantics over small
// models of what each leaf does (written from the property text and the ERC-20 / staking
// interfaces, not from the StateDB): it predicts the post-state of every footprint key and
// the receipt logs; the observed per-transaction write set over ALL stores must contain every
// surviving effect and nothing else.
// ---------------------------------------------------------------------------------------

var (
	sigTransfer   = common.HexToHash("0xddf252ad1be2c89b69c2b068fc378daa952ba7f163c4a11628f55a4df523b3ef")
	sigApproval   = common.HexToHash("0x8c5be1e5ebec7d5bd14f71427d1e84f3dd0314c0f7b2291e5b200ac8c7c3b925")
	sigDelegate   = crypto.Keccak256Hash([]byte("Delegate(address,address,uint256)"))
	sigUndelegate = crypto.Keccak256Hash([]byte("Undelegate(address,address,uint256)"))
	sigWithdraw   = crypto.Keccak256Hash([]byte("WithdrawReward(address,address,uint256)"))
	puppetTopic   = hashN(0x7e57)
)

var precompileLeaf = map[string]bool{"erc20-transfer": true, "erc20-approve": true, "erc20-burn": true,
	"stake-delegate": true, "stake-undelegate": true, "stake-withdraw": true}
var stakingLeaf = map[string]bool{"stake-delegate": true, "stake-undelegate": true, "stake-withdraw": true}

// leaf is one effectful action of a frame.
type leaf struct {
	Idx    int
	Kind   string // sstore | log | value | erc20-transfer | erc20-approve | erc20-burn | stake-delegate | stake-undelegate | stake-withdraw
	Call   vh.CallKind
	Slot   uint64
	Val    uint64
	Word   uint64
	To     common.Address // recipient / spender
	Amt    *big.Int
	V      int
	OnFail string
	// filled by the model fold
	Reached  bool           // the frame got as far as this step
	CallOK   bool           // the leaf itself succeeded when it ran (always true for sstore / log)
	Survived bool           // its effect is part of the final state
	Ctx      common.Address // storage context (== msg.sender seen by a precompile) it ran in
}

func (l *leaf) outcome() string {
	switch {
	case !l.Reached:
		return "not-reached"
	case !l.CallOK:
		return "call-failed"
	case l.Survived:
		return "survived"
	}
	return "reverted"
}

type titem struct {
	Leaf  *leaf
	Child *tnode
}

type tnode struct {
	N      *vh.Node
	Items  []titem
	budget uint64
}

func (t *tnode) walk(f func(*tnode)) {
	for _, it := range t.Items {
		if it.Child != nil {
			it.Child.walk(f)
		}
	}
	f(t)
}

// shape renders the tree without numbers or addresses (distinct-shape statistic).
func (t *tnode) shape() string {
	var sb strings.Builder
	sb.WriteString("(")
	for i, it := range t.Items {
		if i > 0 {
			sb.WriteString(" ")
		}
		if it.Leaf != nil {
			sb.WriteString(it.Leaf.Kind)
			if precompileLeaf[it.Leaf.Kind] {
				sb.WriteString("@" + it.Leaf.Call.String())
			}
			if it.Leaf.OnFail == "propagate" {
				sb.WriteString("!")
			}
		} else {
			c := it.Child
			fmt.Fprintf(&sb, "%s", c.N.Kind)
			if c.N.Value != nil && c.N.Value.Sign() > 0 {
				sb.WriteString("$")
			}
			if c.N.OnFail == "propagate" {
				sb.WriteString("!")
			}
			sb.WriteString(c.shape())
		}
	}
	end := t.N.End
	if end == "" {
		end = "stop"
	}
	sb.WriteString(")" + end)
	return sb.String()
}

func (t *tnode) describe(tw *treeWorld, indent string, out *[]string) {
	end := t.N.End
	if end == "" {
		end = "stop"
	}
	*out = append(*out, fmt.Sprintf("%snode %s @%s ends by %s", indent, t.N.Name, t.N.Addr.Hex(), end))
	for _, it := range t.Items {
		if l := it.Leaf; l != nil {
			d := ""
			switch l.Kind {
			case "sstore":
				d = fmt.Sprintf("SSTORE slot %d := %d", l.Slot, l.Val)
			case "log":
				d = fmt.Sprintf("LOG1 data %d", l.Word)
			case "value":
				d = fmt.Sprintf("CALL %s with value %s (onFail %s)", l.To.Hex(), l.Amt, l.OnFail)
			case "erc20-transfer":
				d = fmt.Sprintf("%s erc20.transfer(%s, %s) (onFail %s)", l.Call, l.To.Hex(), l.Amt, l.OnFail)
			case "erc20-approve":
				d = fmt.Sprintf("%s erc20.approve(%s, %s) (onFail %s)", l.Call, l.To.Hex(), l.Amt, l.OnFail)
			case "erc20-burn":
				d = fmt.Sprintf("%s erc20.burn(%s) (onFail %s)", l.Call, l.Amt, l.OnFail)
			case "stake-delegate", "stake-undelegate":
				d = fmt.Sprintf("%s staking.%s(val%d, %s) (onFail %s)", l.Call, strings.TrimPrefix(l.Kind, "stake-"), l.V, l.Amt, l.OnFail)
			case "stake-withdraw":
				d = fmt.Sprintf("%s staking.withdrawReward(val%d) (onFail %s)", l.Call, l.V, l.OnFail)
			case "selfdestruct":
				d = fmt.Sprintf("SELFDESTRUCT to %s", l.To.Hex())
			case "touch":
				d = fmt.Sprintf("CALL existing empty account %s with value 0", l.To.Hex())
			}
			*out = append(*out, fmt.Sprintf("%s  leaf#%d %s  => model: %s (context %s)", indent, l.Idx, d, l.outcome(), l.Ctx.Hex()))
		} else {
			c := it.Child
			v := "0"
			if c.N.Value != nil {
				v = c.N.Value.String()
			}
			*out = append(*out, fmt.Sprintf("%s  %s child (value %s, gas %d, onFail %s):", indent, c.N.Kind, v, c.N.Gas, c.N.OnFail))
			c.describe(tw, indent+"    ", out)
		}
	}
}

// ---- generator ----

type treeGen struct {
	r      *vh.RNG
	tw     *treeWorld
	ti     int
	mode   string
	nodes  int
	leaves []*leaf
	// amounts of delegate leaves per validator, so that undelegate leaves can ask for amounts that may be covered
	delegAmts [2][]*big.Int
}

const (
	maxTreeNodes = 7
	maxTreeDepth = 4
)

func (g *treeGen) uniqueAmt(base int64) *big.Int {
	// distinct per (tree, leaf): effects and logs stay attributable
	v := new(big.Int).Mul(big.NewInt(base), big.NewInt(1_000_000_000_000))
	return v.Add(v, big.NewInt(int64(g.ti%1000)*1000+int64(len(g.leaves))+1))
}

func (g *treeGen) leaf() *leaf {
	r := g.r
	l := &leaf{Idx: len(g.leaves), OnFail: "ignore", Call: vh.CALL}
	if r.Chance(1, 5) {
		l.OnFail = "propagate"
	}
	x := r.Intn(100)
	if x < 4 && len(g.tw.empties) > 0 {
		// value-0 CALL to an existing empty account: a surviving touch lets commit delete it (EIP-161), a reverted one must not
		l.Kind = "touch"
		l.To = g.tw.empties[len(g.tw.empties)-1]
		g.tw.empties = g.tw.empties[:len(g.tw.empties)-1]
		g.leaves = append(g.leaves, l)
		return l
	}
	switch {
	case x < 18:
		l.Kind = "sstore"
		l.Slot = uint64(1_000_000 + g.ti*64 + l.Idx)
		l.Val = uint64(7_000_000 + g.ti*64 + l.Idx)
	case x < 30:
		l.Kind = "log"
		l.Word = uint64(3_000_000 + g.ti*64 + l.Idx)
	case x < 42:
		l.Kind = "value"
		l.To = common.BytesToAddress(r.Bytes(20))
		l.Amt = g.uniqueAmt(int64(1 + r.Intn(900)))
		if r.Chance(1, 12) {
			l.Amt = vh.Ether(1_000_000) // more than the frame owns: the call fails
		}
	case x < 53:
		l.Kind = "erc20-transfer"
		l.To = common.BytesToAddress(r.Bytes(20))
		l.Amt = g.uniqueAmt(int64(1 + r.Intn(900)))
		if r.Chance(1, 10) {
			l.Amt = vh.Ether(1_000_000) // ERC20InsufficientBalance
		}
	case x < 66:
		l.Kind = "erc20-approve"
		l.To = common.BytesToAddress(r.Bytes(20))
		l.Amt = g.uniqueAmt(int64(1 + r.Intn(900)))
	case x < 72:
		l.Kind = "erc20-burn"
		l.Amt = g.uniqueAmt(int64(1 + r.Intn(900)))
	case x < 84:
		l.Kind = "stake-delegate"
		l.V = r.Intn(2)
		l.Amt = g.uniqueAmt(int64(1000 + r.Intn(9000)))
		g.delegAmts[l.V] = append(g.delegAmts[l.V], l.Amt)
	case x < 93:
		l.Kind = "stake-undelegate"
		l.V = r.Intn(2)
		if len(g.delegAmts[l.V]) == 0 && len(g.delegAmts[1-l.V]) > 0 {
			l.V = 1 - l.V
		}
		if n := len(g.delegAmts[l.V]); n > 0 && r.Chance(4, 5) {
			l.Amt = new(big.Int).Div(g.delegAmts[l.V][r.Intn(n)], big.NewInt(int64(1+r.Intn(3))))
			l.Amt.Add(l.Amt, big.NewInt(int64(l.Idx)+1))
			if l.Amt.Cmp(g.delegAmts[l.V][0]) > 0 {
				l.Amt = new(big.Int).Set(g.delegAmts[l.V][0])
			}
		} else {
			l.Amt = g.uniqueAmt(int64(100 + r.Intn(900)))
		}
	default:
		l.Kind = "stake-withdraw"
		l.V = r.Intn(2)
		if len(g.delegAmts[l.V]) == 0 && len(g.delegAmts[1-l.V]) > 0 {
			l.V = 1 - l.V
		}
	}
	if precompileLeaf[l.Kind] {
		switch y := r.Intn(20); {
		case y < 12:
			l.Call = vh.CALL
		case y < 15:
			l.Call = vh.CALLCODE
		case y < 18:
			l.Call = vh.DELEGATECALL
		default:
			l.Call = vh.STATICCALL // write protection: the call fails
		}
	}
	g.leaves = append(g.leaves, l)
	return l
}

// gas a leaf may consume at most (a failing precompile call burns everything it was given)
func leafGas(l *leaf) (callGas, budget uint64) {
	switch l.Kind {
	case "sstore":
		return 0, 30_000
	case "log":
		return 0, 5_000
	case "touch":
		return 0, 15_000
	case "value", "selfdestruct":
		return 0, 60_000
	case "erc20-transfer", "erc20-burn":
		return 60_000, 75_000
	case "erc20-approve":
		return 70_000, 85_000
	case "stake-delegate":
		return 360_000, 375_000
	default:
		return 260_000, 275_000
	}
}

// node generates a frame. safe: the storage context of this frame is certainly not a persistent proxy
// (only then may a descendant running in the same context SELFDESTRUCT it).
func (g *treeGen) node(depth int, safe bool) *tnode {
	r := g.r
	g.nodes++
	t := &tnode{N: &vh.Node{Name: fmt.Sprintf("n%d", g.nodes)}}
	nsteps := r.Range(1, 4)
	for i := 0; i < nsteps; i++ {
		if depth < maxTreeDepth && g.nodes < maxTreeNodes && r.Chance(45, 100) {
			kind := vh.CALLCODE
			switch y := r.Intn(20); {
			case y < 10:
				kind = vh.CALL
			case y < 15:
				kind = vh.DELEGATECALL
			}
			csafe := safe || kind == vh.CALL
			c := g.node(depth+1, csafe)
			c.N.Kind = kind
			c.N.OnFail = "ignore"
			if r.Chance(1, 4) {
				c.N.OnFail = "propagate"
			}
			if csafe && r.Chance(1, 6) {
				// the child ends by SELFDESTRUCT of the context it runs in (its own, or an ancestor's for
				// DELEGATECALL / CALLCODE children) instead of STOP/REVERT/INVALID
				l := &leaf{Idx: len(g.leaves), Kind: "selfdestruct", To: common.BytesToAddress(r.Bytes(20)), OnFail: "ignore"}
				g.leaves = append(g.leaves, l)
				b := l.To
				c.N.Steps = append(c.N.Steps, vh.Step{Destroy: &b})
				c.Items = append(c.Items, titem{Leaf: l})
				c.N.End = "stop"
				c.budget += 70_000
			}
			if c.N.Kind != vh.DELEGATECALL && r.Chance(1, 4) {
				c.N.Value = g.uniqueAmt(int64(1 + r.Intn(900)))
				if r.Chance(1, 12) {
					c.N.Value = vh.Ether(1_000_000) // more than the parent owns: the child never runs
				}
			}
			t.N.Steps = append(t.N.Steps, vh.Step{Child: c.N})
			t.Items = append(t.Items, titem{Child: c})
			continue
		}
		l := g.leaf()
		var st vh.Step
		switch l.Kind {
		case "sstore":
			st.SStore = &[2]uint64{l.Slot, l.Val}
		case "log":
			w := l.Word
			st.Log = &w
		case "value":
			st.Ext = &vh.ExtCall{Kind: vh.CALL, To: l.To, Value: l.Amt, OnFail: l.OnFail}
		case "touch":
			st.Ext = &vh.ExtCall{Kind: vh.CALL, To: l.To, OnFail: l.OnFail}
		default:
			cg, _ := leafGas(l)
			st.Ext = &vh.ExtCall{Kind: l.Call, To: g.tw.precompileOf(l.Kind), Gas: cg, Data: g.tw.callData(l), OnFail: l.OnFail}
		}
		t.N.Steps = append(t.N.Steps, st)
		t.Items = append(t.Items, titem{Leaf: l})
	}
	switch y := r.Intn(20); {
	case y < 13:
		t.N.End = "stop"
	case y < 18:
		t.N.End = "revert"
	default:
		t.N.End = "invalid"
	}
	// gas budget: everything the frame and its children may burn, with slack for the 63/64 rule
	b := uint64(40_000)
	for _, it := range t.Items {
		if it.Leaf != nil {
			_, lb := leafGas(it.Leaf)
			b += lb
		} else {
			it.Child.N.Gas = it.Child.budget
			b += it.Child.budget + 45_000
		}
	}
	t.budget = b*66/64 + 10_000
	return t
}

// ---- world ----

type treeWorld struct {
	c        *vh.Chain
	run      *vh.Run
	wi       int
	r        *vh.RNG
	sender   *vh.Acct
	funder   *vh.Acct
	deployer *vh.Acct
	erc20    common.Address
	staking  common.Address
	vals     []common.Address // operator addresses as EVM addresses
	valOpers []sdk.ValAddress
	proxies  [2]common.Address // [0] propagates a failed root, [1] ignores it
	proxyAge int
	modules  map[common.Address]string
	empties  []common.Address // stock of existing empty accounts (genesis accounts without coins), one per touch leaf
}

func (tw *treeWorld) precompileOf(kind string) common.Address {
	if stakingLeaf[kind] {
		return tw.staking
	}
	return tw.erc20
}

func (tw *treeWorld) callData(l *leaf) []byte {
	var bz []byte
	var err error
	switch l.Kind {
	case "erc20-transfer":
		bz, err = cpcabi.Erc20CpcInfo.ABI.Pack("transfer", l.To, l.Amt)
	case "erc20-approve":
		bz, err = cpcabi.Erc20CpcInfo.ABI.Pack("approve", l.To, l.Amt)
	case "erc20-burn":
		bz, err = cpcabi.Erc20CpcInfo.ABI.Pack("burn", l.Amt)
	case "stake-delegate":
		bz, err = cpcabi.StakingCpcInfo.ABI.Pack("delegate", tw.vals[l.V], l.Amt)
	case "stake-undelegate":
		bz, err = cpcabi.StakingCpcInfo.ABI.Pack("undelegate", tw.vals[l.V], l.Amt)
	case "stake-withdraw":
		bz, err = cpcabi.StakingCpcInfo.ABI.Pack("withdrawReward", tw.vals[l.V])
	}
	if err != nil {
		panic(err)
	}
	return bz
}

// proxyCode: DELEGATECALL the address given in calldata[0:32] with all gas; a failed callee is
// propagated (REVERT) or ignored. A tree run through a proxy executes in the proxy's storage
// context, which persists across trees (delegations with accrued rewards, unbonding entries).
func proxyCode(propagate bool) []byte {
	a := vh.NewAsm()
	a.PushU(0).PushU(0).PushU(0).PushU(0).PushU(0).Op(vm.CALLDATALOAD).Op(vm.GAS).Op(vm.DELEGATECALL)
	if propagate {
		a.JumpI("ok").PushU(0).PushU(0).Op(vm.REVERT).Label("ok")
	} else {
		a.Op(vm.POP)
	}
	a.Op(vm.STOP)
	return a.Bytes()
}

func (tw *treeWorld) price() *big.Int { return new(big.Int).Mul(tw.c.BaseFee(), big.NewInt(2)) }

func (tw *treeWorld) mustBlock(what string, txs [][]byte) {
	br := tw.c.NextBlock(txs, nil)
	if br.Err != nil {
		panic(fmt.Sprintf("c03 m2 %s: %v", what, br.Err))
	}
	for i, res := range br.TxResults() {
		if res.Code != 0 {
			panic(fmt.Sprintf("c03 m2 %s: tx %d code %d %s", what, i, res.Code, res.Log))
		}
	}
}

func (tw *treeWorld) newProxies() {
	c := tw.c
	n := c.Nonce(tw.deployer.Addr)
	var txs [][]byte
	for i := 0; i < 2; i++ {
		tw.proxies[i] = crypto.CreateAddress(tw.deployer.Addr, n+uint64(i))
		bz, _ := c.EthTx(tw.deployer, vh.LegacyTx(n+uint64(i), nil, nil, 500_000, tw.price(), vh.Deployer(proxyCode(i == 0))))
		txs = append(txs, bz)
	}
	fn := c.Nonce(tw.funder.Addr)
	for i := 0; i < 2; i++ {
		to := tw.proxies[i]
		bz, _ := c.EthTx(tw.funder, vh.LegacyTx(fn+uint64(i), &to, vh.Ether(200), 100_000, tw.price(), nil))
		txs = append(txs, bz)
	}
	tw.mustBlock("deploy proxies", txs)
	tw.proxyAge = 0
}

func setupTreeWorld(run *vh.Run, wi int) *treeWorld {
	r := run.RNG("m2-world", wi)
	tw := &treeWorld{run: run, wi: wi, r: r, sender: vh.NewAcct(r), funder: vh.NewAcct(r), deployer: vh.NewAcct(r)}
	var accs []vh.GenAccount
	for _, a := range []*vh.Acct{tw.sender, tw.funder, tw.deployer} {
		accs = append(accs, vh.GenAccount{Addr: a.Addr, Coins: vh.NativeCoins(1_000_000)})
	}
	for i := 0; i < 256; i++ {
		a := common.BytesToAddress(r.Bytes(20))
		tw.empties = append(tw.empties, a)
		accs = append(accs, vh.GenAccount{Addr: a})
	}
	tw.c = vh.NewChain(vh.Config{Seed: r.U64(), NumVals: 2, Erc20Native: true, StakingCPC: true, Accounts: accs})
	ctx := tw.c.QueryCtx()
	for _, m := range tw.c.App.CPCKeeper.GetAllCustomPrecompiledContractsMeta(ctx) {
		if m.CustomPrecompiledType == cpctypes.CpcTypeErc20 {
			tw.erc20 = common.BytesToAddress(m.Address)
		}
	}
	tw.staking = cpctypes.CpcStakingFixedAddress
	if tw.erc20 == (common.Address{}) {
		panic("c03: no ERC-20 precompile registered")
	}
	for _, v := range tw.c.Vals {
		tw.vals = append(tw.vals, common.BytesToAddress(v.Oper))
		tw.valOpers = append(tw.valOpers, v.Oper)
	}
	tw.modules = map[common.Address]string{}
	for _, n := range []string{authtypes.FeeCollectorName, "evm", cpctypes.ModuleName, stakingtypes.BondedPoolName, stakingtypes.NotBondedPoolName, distrtypes.ModuleName} {
		tw.modules[common.BytesToAddress(authtypes.NewModuleAddress(n))] = n
	}
	tw.newProxies()
	return tw
}

// ---- observation ----

type tview struct {
	Height int64
	Stor   map[string]uint64
	Bal    map[common.Address]*big.Int
	Allow  map[string]*big.Int
	Deleg  map[string]*big.Int
	Ubd    map[string]int  // number of unbonding entries
	UbdNow map[string]bool // an entry created at the current height exists (a further one merges into it)
	Supply *big.Int
	Seq    uint64
	Exists map[common.Address]bool // account record and code present (puppet contexts)
	Acct   map[common.Address]bool // account record present (touch targets)
}

func sk(a common.Address, slot uint64) string      { return fmt.Sprintf("%s/%d", a.Hex(), slot) }
func pk(a, b common.Address) string                { return a.Hex() + "/" + b.Hex() }
func dk(a common.Address, v int) string            { return fmt.Sprintf("%s/val%d", a.Hex(), v) }
func cloneBig(m map[string]*big.Int) map[string]*big.Int {
	o := make(map[string]*big.Int, len(m))
	for k, v := range m {
		o[k] = new(big.Int).Set(v)
	}
	return o
}

type tracked struct {
	stor  [][2]any // (addr, slot)
	bals  []common.Address
	allow [][2]common.Address
	ctxs  []common.Address
	touch []common.Address
}

func (tw *treeWorld) viewFn(tr *tracked) vh.ViewFn {
	return func(ctx sdk.Context) any {
		app := tw.c.App
		v := &tview{Height: ctx.BlockHeight(), Stor: map[string]uint64{}, Bal: map[common.Address]*big.Int{}, Allow: map[string]*big.Int{},
			Deleg: map[string]*big.Int{}, Ubd: map[string]int{}, UbdNow: map[string]bool{}, Exists: map[common.Address]bool{}, Acct: map[common.Address]bool{}}
		for _, a := range tr.touch {
			v.Acct[a] = app.AccountKeeper.HasAccount(ctx, a.Bytes())
		}
		for _, s := range tr.stor {
			a, slot := s[0].(common.Address), s[1].(uint64)
			v.Stor[sk(a, slot)] = app.EvmKeeper.GetState(ctx, a, hashN(slot)).Big().Uint64()
		}
		for _, a := range tr.bals {
			v.Bal[a] = app.BankKeeper.GetBalance(ctx, a.Bytes(), vh.Denom).Amount.BigInt()
		}
		for _, p := range tr.allow {
			v.Allow[pk(p[0], p[1])] = app.CPCKeeper.GetErc20CpcAllowance(ctx, p[0], p[1])
		}
		for _, a := range tr.ctxs {
			v.Exists[a] = app.AccountKeeper.HasAccount(ctx, a.Bytes()) && len(app.EvmKeeper.GetCode(ctx, app.EvmKeeper.GetCodeHash(ctx, a.Bytes()))) > 0
			for vi, val := range tw.valOpers {
				k := dk(a, vi)
				v.Deleg[k] = new(big.Int)
				if d, err := app.StakingKeeper.GetDelegation(ctx, a.Bytes(), val); err == nil {
					v.Deleg[k] = d.Shares.TruncateInt().BigInt()
					if !d.Shares.IsInteger() {
						v.Deleg[k] = big.NewInt(-1) // the models assume a 1:1 share price (no slashing in these worlds)
					}
				}
				if u, err := app.StakingKeeper.GetUnbondingDelegation(ctx, a.Bytes(), val); err == nil {
					v.Ubd[k] = len(u.Entries)
					for _, e := range u.Entries {
						if e.CreationHeight == ctx.BlockHeight() {
							v.UbdNow[k] = true
						}
					}
				}
			}
		}
		v.Supply = app.BankKeeper.GetSupply(ctx, vh.Denom).Amount.BigInt()
		if acc := app.AccountKeeper.GetAccount(ctx, tw.sender.Acc()); acc != nil {
			v.Seq = acc.GetSequence()
		}
		return v
	}
}

// ---- model (fold with snapshot semantics) ----

type mlog struct {
	Addr   common.Address
	Topics []common.Hash
	Data   []byte
	Leaf   int
}

func (l mlog) String() string {
	var ts []string
	for _, t := range l.Topics {
		ts = append(ts, short(t))
	}
	return fmt.Sprintf("%s [%s] 0x%x", l.Addr.Hex(), strings.Join(ts, ","), bytes.TrimLeft(l.Data, "\x00"))
}

type mstate struct {
	stor   map[string]uint64
	bal    map[common.Address]*big.Int
	allow  map[string]*big.Int
	deleg  map[string]*big.Int
	ubd    map[string]int
	ubdNow map[string]bool
	burnt  *big.Int
	logs   []mlog
	alive  map[int]bool // leaves whose effect is in force
	dead   map[common.Address]bool // contexts marked self-destructed
	poked  map[common.Address]bool // existing empty accounts touched by a value-0 call
}

func (s *mstate) clone() *mstate {
	c := &mstate{stor: make(map[string]uint64, len(s.stor)), bal: make(map[common.Address]*big.Int, len(s.bal)), allow: cloneBig(s.allow),
		deleg: cloneBig(s.deleg), ubd: make(map[string]int, len(s.ubd)), ubdNow: make(map[string]bool, len(s.ubdNow)),
		burnt: new(big.Int).Set(s.burnt), logs: append([]mlog{}, s.logs...), alive: make(map[int]bool, len(s.alive)), dead: make(map[common.Address]bool, len(s.dead))}
	for k, v := range s.dead {
		c.dead[k] = v
	}
	c.poked = make(map[common.Address]bool, len(s.poked))
	for k, v := range s.poked {
		c.poked[k] = v
	}
	for k, v := range s.stor {
		c.stor[k] = v
	}
	for k, v := range s.bal {
		c.bal[k] = new(big.Int).Set(v)
	}
	for k, v := range s.ubd {
		c.ubd[k] = v
	}
	for k, v := range s.ubdNow {
		c.ubdNow[k] = v
	}
	for k, v := range s.alive {
		c.alive[k] = v
	}
	return c
}

func (s *mstate) balOf(a common.Address) *big.Int {
	if b, ok := s.bal[a]; ok {
		return b
	}
	b := new(big.Int)
	s.bal[a] = b
	return b
}

func word(v *big.Int) []byte { return common.LeftPadBytes(v.Bytes(), 32) }
func addrTopic(a common.Address) common.Hash { return common.BytesToHash(a.Bytes()) }

type model struct {
	tw *treeWorld
	s  *mstate
}

// frame executes the body of node t in storage context ctx. On failure the state is restored to
// what it was on entry (the caller took the copy) and false is returned.
func (m *model) frame(t *tnode, ctx common.Address) bool {
	for _, it := range t.Items {
		if l := it.Leaf; l != nil {
			l.Reached, l.Ctx = true, ctx
			if !m.leaf(l, ctx) && l.OnFail == "propagate" {
				return false
			}
			if l.Kind == "selfdestruct" {
				return true // SELFDESTRUCT halts the frame successfully
			}
			continue
		}
		c := it.Child
		if !m.call(c, ctx) && c.N.OnFail == "propagate" {
			return false
		}
	}
	return t.N.End == "" || t.N.End == "stop"
}

// call performs the parent's CALL / CALLCODE / DELEGATECALL of child c from context pctx.
func (m *model) call(c *tnode, pctx common.Address) bool {
	val := c.N.Value
	if c.N.Kind == vh.DELEGATECALL || val == nil {
		val = new(big.Int)
	}
	if val.Sign() > 0 && m.s.balOf(pctx).Cmp(val) < 0 {
		return false // insufficient balance: the callee never runs, nothing to undo
	}
	snap := m.s.clone()
	cctx := pctx
	if c.N.Kind == vh.CALL {
		cctx = c.N.Addr
		if val.Sign() > 0 {
			m.s.balOf(pctx).Sub(m.s.balOf(pctx), val)
			m.s.balOf(cctx).Add(m.s.balOf(cctx), val)
		}
	}
	if !m.frame(c, cctx) {
		m.s = snap
		return false
	}
	return true
}

// leaf applies one leaf in context ctx; a failed external call leaves no effect at all.
func (m *model) leaf(l *leaf, ctx common.Address) bool {
	s := m.s
	tw := m.tw
	l.CallOK = false
	if precompileLeaf[l.Kind] && l.Call == vh.STATICCALL {
		return false // write protection
	}
	switch l.Kind {
	case "sstore":
		s.stor[sk(ctx, l.Slot)] = l.Val
	case "log":
		s.logs = append(s.logs, mlog{Addr: ctx, Topics: []common.Hash{puppetTopic}, Data: word(new(big.Int).SetUint64(l.Word)), Leaf: l.Idx})
	case "value":
		if s.balOf(ctx).Cmp(l.Amt) < 0 {
			return false
		}
		s.balOf(ctx).Sub(s.balOf(ctx), l.Amt)
		s.balOf(l.To).Add(s.balOf(l.To), l.Amt)
	case "erc20-transfer":
		if s.balOf(ctx).Cmp(l.Amt) < 0 {
			return false
		}
		s.balOf(ctx).Sub(s.balOf(ctx), l.Amt)
		s.balOf(l.To).Add(s.balOf(l.To), l.Amt)
		s.logs = append(s.logs, mlog{Addr: tw.erc20, Topics: []common.Hash{sigTransfer, addrTopic(ctx), addrTopic(l.To)}, Data: word(l.Amt), Leaf: l.Idx})
	case "erc20-approve":
		s.allow[pk(ctx, l.To)] = new(big.Int).Set(l.Amt)
		s.logs = append(s.logs, mlog{Addr: tw.erc20, Topics: []common.Hash{sigApproval, addrTopic(ctx), addrTopic(l.To)}, Data: word(l.Amt), Leaf: l.Idx})
	case "erc20-burn":
		if s.balOf(ctx).Cmp(l.Amt) < 0 {
			return false
		}
		s.balOf(ctx).Sub(s.balOf(ctx), l.Amt)
		s.burnt.Add(s.burnt, l.Amt)
		s.logs = append(s.logs, mlog{Addr: tw.erc20, Topics: []common.Hash{sigTransfer, addrTopic(ctx), {}}, Data: word(l.Amt), Leaf: l.Idx})
	case "stake-delegate":
		if s.balOf(ctx).Cmp(l.Amt) < 0 {
			return false
		}
		k := dk(ctx, l.V)
		s.balOf(ctx).Sub(s.balOf(ctx), l.Amt)
		if s.deleg[k] == nil {
			s.deleg[k] = new(big.Int)
		}
		s.deleg[k].Add(s.deleg[k], l.Amt)
		s.logs = append(s.logs, mlog{Addr: tw.staking, Topics: []common.Hash{sigDelegate, addrTopic(ctx), addrTopic(tw.vals[l.V])}, Data: word(l.Amt), Leaf: l.Idx})
	case "stake-undelegate":
		k := dk(ctx, l.V)
		if s.deleg[k] == nil || s.deleg[k].Cmp(l.Amt) < 0 {
			return false // no delegation / not enough shares
		}
		if s.ubd[k] >= 7 {
			return false // too many unbonding delegation entries
		}
		s.deleg[k].Sub(s.deleg[k], l.Amt)
		if !s.ubdNow[k] {
			s.ubd[k]++
			s.ubdNow[k] = true
		}
		s.logs = append(s.logs, mlog{Addr: tw.staking, Topics: []common.Hash{sigUndelegate, addrTopic(ctx), addrTopic(tw.vals[l.V])}, Data: word(l.Amt), Leaf: l.Idx})
	case "stake-withdraw":
		k := dk(ctx, l.V)
		if s.deleg[k] == nil || s.deleg[k].Sign() <= 0 {
			return false // no delegation
		}
	case "touch":
		s.poked[l.To] = true
	case "selfdestruct":
		b := new(big.Int).Set(s.balOf(ctx))
		s.balOf(l.To).Add(s.balOf(l.To), b)
		s.balOf(ctx).SetInt64(0)
		s.dead[ctx] = true
	}
	l.CallOK = true
	s.alive[l.Idx] = true
	return true
}

// ---- one tree ----

func (tw *treeWorld) runTree(ti int) {
	run := tw.run
	c := tw.c
	label := fmt.Sprintf("tree-w%d-%d", tw.wi, ti)
	r := run.RNG(fmt.Sprintf("m2-tree-w%d", tw.wi), ti)
	if tw.proxyAge >= 25 {
		tw.newProxies() // fresh persistent contexts before unbonding entries / balances run out
	}
	mode := "direct"
	switch x := r.Intn(20); {
	case x < 7:
		mode = "proxy-propagate"
	case x < 12:
		mode = "proxy-ignore"
	}
	g := &treeGen{r: r, tw: tw, ti: ti, mode: mode}
	root := g.node(1, mode == "direct")
	if tw.proxyAge < 2 { // the first two trees of a proxy generation give each proxy delegations to both validators
		mode = "proxy-propagate"
		if tw.proxyAge == 1 {
			mode = "proxy-ignore"
		}
		g = &treeGen{r: r, tw: tw, ti: ti}
		root = &tnode{N: &vh.Node{Name: "n1", End: "stop"}, budget: 2_000_000}
		for v := 0; v < 2; v++ {
			l := &leaf{Idx: v, Kind: "stake-delegate", Call: vh.CALL, V: v, Amt: vh.Ether(int64(3 - v)), OnFail: "propagate"}
			g.leaves = append(g.leaves, l)
			cg, _ := leafGas(l)
			root.N.Steps = append(root.N.Steps, vh.Step{Ext: &vh.ExtCall{Kind: vh.CALL, To: tw.staking, Gas: cg, Data: tw.callData(l), OnFail: "propagate"}})
			root.Items = append(root.Items, titem{Leaf: l})
		}
	}
	tw.proxyAge++
	proxy := common.Address{}
	switch mode {
	case "proxy-propagate":
		proxy = tw.proxies[0]
	case "proxy-ignore":
		proxy = tw.proxies[1]
	}

	// predicted addresses (same rule as vh.DeployTree), prefund every puppet, deploy
	var order []*vh.Node
	root.N.Walk(func(n *vh.Node) { order = append(order, n) })
	dn := c.Nonce(tw.deployer.Addr)
	for i, n := range order {
		n.Addr = crypto.CreateAddress(tw.deployer.Addr, dn+uint64(i))
	}
	fn := c.Nonce(tw.funder.Addr)
	var txs [][]byte
	for i, n := range order {
		to := n.Addr
		bz, _ := c.EthTx(tw.funder, vh.LegacyTx(fn+uint64(i), &to, vh.Ether(10), 21000, tw.price(), nil))
		txs = append(txs, bz)
	}
	tw.mustBlock("prefund", txs)
	if err := c.DeployTree(tw.deployer, root.N); err != nil {
		panic(fmt.Sprintf("c03 m2 deploy: %v", err))
	}

	// what to watch
	tr := &tracked{}
	ctxSet := map[common.Address]bool{}
	addCtx := func(a common.Address) {
		if !ctxSet[a] {
			ctxSet[a] = true
			tr.ctxs = append(tr.ctxs, a)
			tr.bals = append(tr.bals, a)
		}
	}
	for _, n := range order {
		addCtx(n.Addr)
	}
	if proxy != (common.Address{}) {
		addCtx(proxy)
	}
	for _, l := range g.leaves {
		switch l.Kind {
		case "sstore":
			for _, a := range tr.ctxs {
				tr.stor = append(tr.stor, [2]any{a, l.Slot})
			}
		case "value", "erc20-transfer", "selfdestruct":
			tr.bals = append(tr.bals, l.To)
		case "touch":
			tr.touch = append(tr.touch, l.To)
			tr.bals = append(tr.bals, l.To)
		case "erc20-approve":
			for _, a := range tr.ctxs {
				tr.allow = append(tr.allow, [2]common.Address{a, l.To})
			}
		}
	}

	// the transaction
	to := root.N.Addr
	var data []byte
	if proxy != (common.Address{}) {
		to = proxy
		data = common.LeftPadBytes(root.N.Addr.Bytes(), 32)
	}
	gas := root.budget*66/64 + 150_000
	bz, tx := c.EthTx(tw.sender, vh.LegacyTx(c.Nonce(tw.sender.Addr), &to, nil, gas, tw.price(), data))
	ob := c.RunObserved([][]byte{bz}, nil, tw.viewFn(tr), true)
	run.Eval(1)
	run.Count("m2_trees", 1)
	run.Count("m2_trees_"+mode, 1)
	if ob.Err != nil {
		run.Violation("finalize-block-error", label, map[string]any{"err": ob.Err.Error()})
		return
	}
	res := ob.Res.TxResults[0]
	rc, attrs := vh.ReceiptOf(res)
	pre, _ := ob.Pre[0].View.(*tview)
	post, _ := ob.Post[0].View.(*tview)
	if rc == nil || pre == nil || post == nil || !ob.Reached[0] {
		run.Count("m2_tree_tx_without_receipt", 1)
		return
	}

	// model fold from the observed pre-state
	m := &model{tw: tw, s: &mstate{stor: map[string]uint64{}, bal: map[common.Address]*big.Int{}, allow: cloneBig(pre.Allow), deleg: cloneBig(pre.Deleg),
		ubd: map[string]int{}, ubdNow: map[string]bool{}, burnt: new(big.Int), alive: map[int]bool{}, dead: map[common.Address]bool{}, poked: map[common.Address]bool{}}}
	for k, v := range pre.Stor {
		m.s.stor[k] = v
	}
	for k, v := range pre.Bal {
		m.s.bal[k] = new(big.Int).Set(v)
	}
	for k, v := range pre.Ubd {
		m.s.ubd[k] = v
	}
	for k, v := range pre.UbdNow {
		m.s.ubdNow[k] = v
	}
	preModel := m.s.clone()
	rootCtx := root.N.Addr
	if proxy != (common.Address{}) {
		rootCtx = proxy
	}
	snap := m.s.clone()
	rootOK := m.frame(root, rootCtx)
	if !rootOK {
		m.s = snap
	}
	txOK := rootOK || mode == "proxy-ignore"
	for _, l := range g.leaves {
		l.Survived = l.CallOK && m.s.alive[l.Idx] && txOK
	}
	fin := m.s
	if !txOK {
		fin.dead = map[common.Address]bool{}
		fin.poked = map[common.Address]bool{}
	}
	// commit destroys every context still marked self-destructed: whatever balance reached it after the
	// SELFDESTRUCT is burnt, its storage and code hash go away (delegations and allowances stay)
	for a := range fin.dead {
		fin.burnt.Add(fin.burnt, fin.balOf(a))
		fin.balOf(a).SetInt64(0)
		for k := range fin.stor {
			if strings.HasPrefix(k, a.Hex()+"/") {
				fin.stor[k] = 0
			}
		}
	}

	diff := vh.Diff(ob.Pre[0].Dump, ob.Post[0].Dump)
	if ob.PostIsEndBlock[0] {
		diff = dropEndBlockKeys(diff)
	}
	witness := func(extra map[string]any) map[string]any {
		var desc []string
		root.describe(tw, "", &desc)
		var logs []string
		for _, l := range rc.Logs {
			logs = append(logs, mlog{Addr: l.Address, Topics: l.Topics, Data: l.Data}.String())
		}
		w := map[string]any{"world": tw.wi, "tree": desc, "mode": mode, "proxy": proxy.Hex(), "erc20_precompile": tw.erc20.Hex(), "staking_precompile": tw.staking.Hex(),
			"receipt_status": rc.Status, "vm_error": attrs["error"], "gas_limit": tx.Gas(), "gas_used": attrs["gasUsed"], "model_root_ok": rootOK,
			"receipt_logs": logs, "write_set": vh.ChangeStrings(diff), "height": ob.Height}
		for k, v := range extra {
			w[k] = v
		}
		return w
	}

	// 0. transaction outcome
	wantStatus := uint64(0)
	if txOK {
		wantStatus = 1
	}
	run.Count(fmt.Sprintf("m2_tx_status_%d", rc.Status), 1)
	if rc.Status != wantStatus {
		run.Violation("tree-outcome-differs-from-fold", label, witness(map[string]any{"expected_status": wantStatus}))
		return
	}

	anyReverted, anyStakeSurvived, anyStakeReverted, revertedPrecompile := false, false, false, 0
	inexact := map[common.Address]bool{}
	for _, l := range g.leaves {
		run.Count("m2_leaves_"+l.outcome(), 1)
		run.Count("m2_leaf_"+l.Kind+"_"+l.outcome(), 1)
		if l.outcome() == "reverted" {
			anyReverted = true
			if precompileLeaf[l.Kind] {
				revertedPrecompile++
			}
			if stakingLeaf[l.Kind] {
				anyStakeReverted = true
			}
		}
		if l.Survived && stakingLeaf[l.Kind] {
			anyStakeSurvived = true
			for v := range tw.vals {
				if d := pre.Deleg[dk(l.Ctx, v)]; d != nil && d.Sign() > 0 {
					inexact[l.Ctx] = true // rewards of an older delegation are paid out: amount not modelled
				}
			}
		}
	}
	if revertedPrecompile > 0 {
		run.Count("m2_trees_with_reverted_precompile_write", 1)
		run.Count("m2_reverted_precompile_writes", revertedPrecompile)
	}
	// reverted frames that contained a precompile write
	root.walk(func(t *tnode) {
		n := 0
		for _, it := range t.Items {
			if it.Leaf != nil && precompileLeaf[it.Leaf.Kind] && it.Leaf.outcome() == "reverted" {
				n++
			}
		}
		if n > 0 {
			run.Count("m2_reverted_frames_with_precompile_write", 1)
		}
	})
	if anyReverted {
		run.Nontrivial("m2|" + mode + "|" + root.shape())
	}
	run.Distinct("m2_tree_shapes", root.shape())
	dirSig := func(reverted bool, class string) string {
		if reverted {
			return "revert-left-trace:" + class
		}
		return "succeeded-frame-effect-lost:" + class
	}

	// 1. exact post-state of every footprint key
	type mm struct{ Key, Model, Observed string }
	var bad []mm
	sigs := map[string]bool{}
	for _, l := range g.leaves {
		switch l.Kind {
		case "sstore":
			for _, a := range tr.ctxs {
				k := sk(a, l.Slot)
				if post.Stor[k] != fin.stor[k] {
					bad = append(bad, mm{"storage " + k, fmt.Sprint(fin.stor[k]), fmt.Sprint(post.Stor[k])})
					sigs[dirSig(post.Stor[k] != preModel.stor[k], "evm-storage")] = true
				}
			}
		case "erc20-approve":
			for _, a := range tr.ctxs {
				k := pk(a, l.To)
				mo, ob := fin.allow[k], post.Allow[k]
				if mo == nil {
					mo = new(big.Int)
				}
				if mo.Cmp(ob) != 0 {
					bad = append(bad, mm{"allowance " + k, mo.String(), ob.String()})
					sigs[dirSig(ob.Cmp(pre.Allow[k]) != 0, "cpc-allowance")] = true
				}
			}
		}
	}
	for _, a := range tr.bals {
		mo, ob := fin.balOf(a), post.Bal[a]
		if inexact[a] {
			if ob.Cmp(mo) < 0 {
				bad = append(bad, mm{"balance " + a.Hex() + " (plus rewards)", ">= " + mo.String(), ob.String()})
				sigs["succeeded-frame-effect-lost:bank-balance"] = true
			}
			continue
		}
		if mo.Cmp(ob) != 0 {
			bad = append(bad, mm{"balance " + a.Hex(), mo.String(), ob.String()})
			sigs[dirSig(ob.Cmp(pre.Bal[a]) != 0, "bank-balance")] = true
		}
	}
	for _, a := range tr.ctxs {
		for v := range tw.vals {
			k := dk(a, v)
			mo := fin.deleg[k]
			if mo == nil {
				mo = new(big.Int)
			}
			if mo.Cmp(post.Deleg[k]) != 0 {
				bad = append(bad, mm{"delegation " + k, mo.String(), post.Deleg[k].String()})
				sigs[dirSig(post.Deleg[k].Cmp(pre.Deleg[k]) != 0, "staking-delegation")] = true
			}
			if fin.ubd[k] != post.Ubd[k] {
				bad = append(bad, mm{"unbonding entries " + k, fmt.Sprint(fin.ubd[k]), fmt.Sprint(post.Ubd[k])})
				sigs[dirSig(post.Ubd[k] != pre.Ubd[k], "staking-unbonding-delegation")] = true
			}
		}
	}
	for _, a := range tr.ctxs {
		if want := pre.Exists[a] && !fin.dead[a]; post.Exists[a] != want {
			bad = append(bad, mm{"account+code present " + a.Hex(), fmt.Sprint(want), fmt.Sprint(post.Exists[a])})
			sigs[dirSig(post.Exists[a] != pre.Exists[a], "self-destruct")] = true
		}
	}
	for _, a := range tr.touch {
		switch {
		case fin.poked[a] && !post.Acct[a]:
			run.Count("m2_empty_accounts_deleted_after_surviving_touch", 1)
		case !fin.poked[a] && post.Acct[a] != pre.Acct[a]:
			bad = append(bad, mm{"existing empty account " + a.Hex() + " still present", fmt.Sprint(pre.Acct[a]), fmt.Sprint(post.Acct[a])})
			sigs["revert-left-trace:touched-empty-account"] = true
		}
	}
	if ds := new(big.Int).Sub(pre.Supply, post.Supply); ds.Cmp(fin.burnt) != 0 {
		bad = append(bad, mm{"supply decrease", fin.burnt.String(), ds.String()})
		sigs[dirSig(ds.Sign() != 0, "bank-supply")] = true
	}
	if post.Seq != pre.Seq+1 {
		bad = append(bad, mm{"sender sequence", fmt.Sprint(pre.Seq + 1), fmt.Sprint(post.Seq)})
		sigs["sender-sequence-not-incremented"] = true
	}
	for s := range sigs {
		run.Violation(s, label, witness(map[string]any{"state_mismatches": bad}))
	}
	run.Count("m2_footprint_keys_compared", len(tr.stor)+len(tr.allow)+len(tr.bals)+2*len(tr.ctxs)*len(tw.vals)+2)

	// 2. receipt logs: exactly the logs of surviving leaves, in order (reward pay-outs of older
	// delegations add WithdrawReward logs whose amount is not modelled)
	var want []string
	if txOK {
		for _, l := range fin.logs {
			want = append(want, l.String())
		}
	}
	var got []string
	for _, l := range rc.Logs {
		if l.Address == tw.staking && len(l.Topics) == 3 && l.Topics[0] == sigWithdraw && inexact[common.BytesToAddress(l.Topics[1].Bytes())] {
			run.Count("m2_reward_payout_logs_seen", 1)
			continue
		}
		got = append(got, mlog{Addr: l.Address, Topics: l.Topics, Data: l.Data}.String())
	}
	run.Count("m2_receipt_logs_compared", len(got))
	if !equalStrings(want, got) {
		wantSet := map[string]int{}
		for _, s := range want {
			wantSet[s]++
		}
		sig := "receipt-logs-reordered"
		for _, s := range got {
			wantSet[s]--
		}
		for _, n := range wantSet {
			if n < 0 {
				sig = "revert-left-trace:log"
				break
			}
			if n > 0 {
				sig = "succeeded-frame-effect-lost:log"
			}
		}
		run.Violation(sig, label, witness(map[string]any{"expected_logs": want, "observed_logs_without_reward_payouts": got}))
	}

	// 3. nothing else in the write set (all stores)
	changedBal := map[common.Address]bool{tw.sender.Addr: true, vh.FeeCollectorAddr: true}
	for a, b := range fin.bal {
		if p := preModel.bal[a]; p == nil || p.Cmp(b) != 0 {
			changedBal[a] = true
		}
	}
	for a := range inexact {
		changedBal[a] = true
	}
	if anyStakeSurvived {
		for a, n := range tw.modules {
			if n == stakingtypes.BondedPoolName || n == stakingtypes.NotBondedPoolName || n == distrtypes.ModuleName {
				changedBal[a] = true
			}
		}
	}
	newRecords, numberDelta := 0, int64(0)
	var unexplained []string
	ucls := map[string]bool{}
	flag := func(ch vh.Change) {
		unexplained = append(unexplained, ch.String())
		ucls[storeClass(ch)] = true
	}
	for _, ch := range diff {
		switch cls := storeClass(ch); cls {
		case "acc-account-record":
			a := common.BytesToAddress(ch.Key[1:])
			switch {
			case a == tw.sender.Addr && ch.Old != nil && ch.New != nil:
			case ch.Old != nil && ch.New == nil && (fin.dead[a] || fin.poked[a]):
			case ch.Old == nil && (changedBal[a] || tw.modules[a] == authtypes.FeeCollectorName || tw.modules[a] == "evm"):
				newRecords++
			default:
				flag(ch)
			}
		case "acc-global-account-number":
			numberDelta = int64(new(big.Int).SetBytes(ch.New).Uint64()) - int64(new(big.Int).SetBytes(ch.Old).Uint64())
		case "acc-account-number-index":
			switch {
			case ch.Old == nil && changedBal[common.BytesToAddress(ch.New)]:
			case ch.New == nil && (fin.dead[common.BytesToAddress(ch.Old)] || fin.poked[common.BytesToAddress(ch.Old)]):
			default:
				flag(ch)
			}
		case "bank-balance":
			if n := int(ch.Key[1]); len(ch.Key) < 2+n || !changedBal[common.BytesToAddress(ch.Key[2:2+n])] {
				flag(ch)
			}
		case "bank-denom-index":
			if len(ch.Key) < 20 || !changedBal[common.BytesToAddress(ch.Key[len(ch.Key)-20:])] {
				flag(ch)
			}
		case "bank-supply":
			if fin.burnt.Sign() == 0 || !txOK {
				flag(ch)
			}
		case "evm-storage":
			k := ""
			if len(ch.Key) == 53 {
				k = sk(common.BytesToAddress(ch.Key[1:21]), new(big.Int).SetBytes(ch.Key[21:]).Uint64())
			}
			if _, tracked := post.Stor[k]; !tracked || fin.stor[k] == preModel.stor[k] {
				flag(ch)
			}
		case "evm-code-hash":
			if !(len(ch.Key) == 21 && ch.New == nil && fin.dead[common.BytesToAddress(ch.Key[1:])]) {
				flag(ch)
			}
		case "cpc-allowance":
			k := ""
			if len(ch.Key) == 41 {
				k = pk(common.BytesToAddress(ch.Key[1:21]), common.BytesToAddress(ch.Key[21:]))
			}
			mo, p := fin.allow[k], preModel.allow[k]
			if _, tracked := post.Allow[k]; !tracked || mo == nil || (p != nil && p.Cmp(mo) == 0) {
				flag(ch)
			}
		default:
			if (ch.Store == "staking" || ch.Store == "distribution") && anyStakeSurvived && txOK {
				continue
			}
			flag(ch)
		}
	}
	// go-ethereum's Call creates the callee account when it does not exist; a custom precompile has no
	// account, so the first surviving CALL to it consumes an account number (commit then deletes the
	// empty account again). That is an effect of a frame that succeeded; in a reverted frame the
	// counter lives in the reverted store and must not move.
	bumped := map[common.Address]bool{}
	for _, l := range g.leaves {
		if l.Survived && precompileLeaf[l.Kind] && l.Call == vh.CALL {
			bumped[tw.precompileOf(l.Kind)] = true
		}
	}
	if len(bumped) > 0 {
		run.Count("m2_account_numbers_consumed_by_surviving_precompile_calls", len(bumped))
	}
	if numberDelta != int64(newRecords+len(bumped)) {
		unexplained = append(unexplained, fmt.Sprintf("acc global account number moved by %d but %d account records were created and %d precompile accounts were created-and-deleted by surviving CALLs", numberDelta, newRecords, len(bumped)))
		ucls["acc-global-account-number"] = true
	}
	for cls := range ucls {
		if rc.Status == 0 {
			break // judged by the (stricter) VM-error law below
		}
		sig := "unexplained-write:" + cls
		if anyReverted {
			sig = "revert-left-trace:" + cls
		}
		run.Violation(sig, label, witness(map[string]any{"unexplained_writes": unexplained}))
	}
	run.Count("m2_write_set_keys_explained", len(diff)-len(unexplained))
	if anyStakeSurvived {
		run.Count("m2_trees_with_surviving_staking_write", 1)
		touched := false
		for _, ch := range diff {
			if ch.Store == "distribution" || ch.Store == "staking" {
				touched = true
			}
		}
		if !touched {
			run.Violation("succeeded-frame-effect-lost:staking-store", label, witness(nil))
		}
	}
	if anyStakeReverted && !anyStakeSurvived {
		run.Count("m2_trees_all_staking_writes_reverted_store_untouched_checked", 1)
	}
	if len(inexact) > 0 {
		run.Count("m2_trees_touching_delegation_with_accrued_rewards", 1)
	}
	// 3b. VM-error law (monitor 3) on this transaction
	if rc.Status == 0 {
		vmErrorLaw(run, label, "tree", tw.sender.Addr, diff, witness)
	}
	if ti%97 == 3 {
		var desc []string
		root.describe(tw, "", &desc)
		run.Sample(map[string]any{"monitor": "call-tree", "case": label, "mode": mode, "tree": desc, "status": rc.Status, "writes": len(diff), "logs": len(rc.Logs)})
	}
}

var _ = sort.Strings
var _ = ethtypes.ReceiptStatusFailed
