package c03

import (
	"fmt"
	"math/big"
	"strings"

	"github.com/ethereum/go-ethereum/common"

	"verifharness/vh"
)

// ---------------------------------------------------------------------------------------
// Monitor 3: VM-error law. For every Ethereum transaction whose receipt status is 0 the
// observed write set (all stores) must lie inside
//   sender account record, sender balance, fee-collector balance (+ their denom-index entries),
//   and - on first use only - the creation of the fee-collector / evm module account records
//   together with the global account-number counter and the account-number index.
// The refunded part of the fee is minted to the sender and burnt from the fee collector: supply
// and the evm module account's balance net to zero and do not show up in the write set.
// ---------------------------------------------------------------------------------------

func dropEndBlockKeys(d []vh.Change) []vh.Change {
	var out []vh.Change
	for _, c := range d {
		switch c.Store {
		case "feemarket", "staking", "slashing", "distribution", "mint", "gov", "evidence", "upgrade", "ibc", "capability":
			continue
		}
		out = append(out, c)
	}
	return out
}

func vmErrorLaw(run *vh.Run, label, workload string, sender common.Address, diff []vh.Change, witness func(map[string]any) map[string]any) {
	run.Count("m3_vm_error_txs_checked", 1)
	run.Count("m3_vm_error_txs_checked_"+workload, 1)
	isFeeAcct := func(a common.Address) bool { return a == vh.FeeCollectorAddr || a == vh.EvmModuleAddr }
	created := 0
	numberDelta := int64(0)
	var bad []string
	cls := map[string]bool{}
	flag := func(ch vh.Change) {
		bad = append(bad, ch.String())
		cls[strings.Replace(storeClass(ch), "-", "/", 1)] = true
	}
	for _, ch := range diff {
		switch storeClass(ch) {
		case "acc-account-record":
			a := common.BytesToAddress(ch.Key[1:])
			switch {
			case a == sender && ch.Old != nil && ch.New != nil:
			case isFeeAcct(a) && ch.Old == nil:
				created++
			default:
				flag(ch)
			}
		case "acc-global-account-number":
			numberDelta = int64(new(big.Int).SetBytes(ch.New).Uint64()) - int64(new(big.Int).SetBytes(ch.Old).Uint64())
		case "acc-account-number-index":
			if ch.Old != nil || !isFeeAcct(common.BytesToAddress(ch.New)) {
				flag(ch)
			}
		case "bank-balance":
			n := int(ch.Key[1])
			if len(ch.Key) < 2+n {
				flag(ch)
				break
			}
			if a := common.BytesToAddress(ch.Key[2 : 2+n]); a != sender && a != vh.FeeCollectorAddr {
				flag(ch)
			}
		case "bank-denom-index":
			if len(ch.Key) < 20 {
				flag(ch)
				break
			}
			if a := common.BytesToAddress(ch.Key[len(ch.Key)-20:]); a != sender && a != vh.FeeCollectorAddr {
				flag(ch)
			}
		default:
			flag(ch)
		}
	}
	if numberDelta != int64(created) {
		bad = append(bad, fmt.Sprintf("global account number moved by %d, %d module account records created", numberDelta, created))
		cls["acc/global-account-number"] = true
	}
	run.Count("m3_write_set_keys_checked", len(diff))
	for c := range cls {
		run.Violation("vm-error-left-write:"+c, label, witness(map[string]any{"law": "vm-error", "writes_outside_sender_nonce_and_fee": bad}))
	}
}

// vmErrorWorld runs generated programs (storage writes, logs, calls, creates, self-destructs) with
// gas limits from intrinsic to ample, so that transactions fail by REVERT, INVALID and out of gas
// at arbitrary points, and applies the VM-error law to every transaction with receipt status 0.
func vmErrorWorld(run *vh.Run, wi, nBlocks int) {
	label := fmt.Sprintf("vmerr-w%d", wi)
	if !run.WantCase(label) {
		return
	}
	r := run.RNG("m3-world", wi)
	w := vh.NewWorld(r, vh.WorldOpts{Chain: vh.Config{Seed: r.U64(), NumVals: 1 + wi%2, Erc20Native: true, StakingCPC: true}, NumEOA: 5,
		Prog: vh.ProgOpts{MaxLen: 8, Depth: 2}})
	defer w.C.Cleanup()
	check := func(ob *vh.ObservedBlock, plans []*vh.TxPlan) {
		if ob.Err != nil {
			run.Violation("finalize-block-error", label, map[string]any{"height": ob.Height, "err": ob.Err.Error()})
			return
		}
		for i, pl := range plans {
			if pl.Tx == nil || !ob.Reached[i] {
				continue
			}
			res := ob.Res.TxResults[i]
			rc, attrs := vh.ReceiptOf(res)
			run.Eval(1)
			if rc == nil {
				run.Count("m3_world_txs_without_receipt", 1)
				continue
			}
			run.Count(fmt.Sprintf("m3_world_txs_status_%d", rc.Status), 1)
			if rc.Status != 0 {
				continue
			}
			e := attrs["error"]
			switch {
			case strings.Contains(e, "revert"):
				e = "revert"
			case strings.Contains(e, "out of gas"):
				e = "out-of-gas"
			case strings.Contains(e, "invalid opcode"):
				e = "invalid-opcode"
			default:
				if j := strings.IndexByte(e, ':'); j > 0 {
					e = e[:j]
				}
			}
			run.Distinct("m3_vm_error_kinds", e)
			run.Nontrivial("m3|" + pl.Kind + "|" + e)
			diff := vh.Diff(ob.Pre[i].Dump, ob.Post[i].Dump)
			if ob.PostIsEndBlock[i] {
				diff = dropEndBlockKeys(diff)
			}
			pre, _ := ob.Pre[i].View.(*vh.LedgerView)
			post, _ := ob.Post[i].View.(*vh.LedgerView)
			wit := func(extra map[string]any) map[string]any {
				m := map[string]any{"world": label, "height": ob.Height, "index": i, "plan": pl.String(), "vm_error": attrs["error"], "gas_used": attrs["gasUsed"],
					"write_set": vh.ChangeStrings(diff)}
				for k, v := range extra {
					m[k] = v
				}
				return m
			}
			vmErrorLaw(run, label, "world", pl.Sender.Addr, diff, wit)
			if pre != nil && post != nil && post.Seq[pl.Sender.Addr] != pre.Seq[pl.Sender.Addr]+1 {
				run.Violation("vm-error-sender-sequence-not-incremented", label, wit(map[string]any{"seq_before": pre.Seq[pl.Sender.Addr], "seq_after": post.Seq[pl.Sender.Addr]}))
			}
		}
	}
	w.DeployGenerated(10, check)
	for b := 0; b < nBlocks; b++ {
		var plans []*vh.TxPlan
		for i := r.Range(1, 5); i > 0; i-- {
			s := vh.Pick(r, w.EOAs)
			value := new(big.Int)
			if r.Chance(1, 3) {
				value = big.NewInt(int64(r.Intn(1_000_000)))
			}
			switch k := r.Intn(10); {
			case k == 0: // create that may fail
				p := vh.GenProgram(r, vh.ProgOpts{Pool: w.Pool, MaxLen: 6, Depth: 1})
				init := vh.Deployer(p.Code)
				if r.Bool() {
					init = append([]byte{0x60, 0x01, 0x60, 0x01, 0x55, 0xfe}, init...) // SSTORE then INVALID in init code
				}
				gas := uint64(vh.Pick(r, []int{53_000, 60_000, 90_000, 400_000, 3_000_000}))
				plans = append(plans, w.PlanEth(s, nil, value, gas, init, "ok", nil))
			default:
				c := vh.Pick(r, w.Contracts)
				to := c.Addr
				gas := uint64(vh.Pick(r, []int{21_000, 21_400, 22_000, 23_500, 26_000, 30_000, 45_000, 70_000, 120_000, 300_000, 2_000_000}))
				data := r.Bytes(vh.Pick(r, []int{0, 0, 4, 36}))
				plans = append(plans, w.PlanEth(s, &to, value, gas, data, "ok", nil))
			}
		}
		w.RunPlans(plans, nil, check)
	}
}
