// Package c06 decides C06: only sender-authorised transactions execute, each exactly once.
// Oracle: a nonce ledger per account computed at the tx-boundary observer, must-reject
// classes for hostile encodings, and re-offering of every admitted transaction.
package c06

import (
	"crypto/ecdsa"
	"fmt"
	chainapp "github.com/EscanBE/evermint/v12/app"
	"github.com/EscanBE/evermint/v12/app/params"
	"math/big"
	"strings"

	sdkmath "cosmossdk.io/math"
	abci "github.com/cometbft/cometbft/abci/types"
	sdk "github.com/cosmos/cosmos-sdk/types"
	txtypes "github.com/cosmos/cosmos-sdk/types/tx"
	"github.com/cosmos/cosmos-sdk/types/tx/signing"
	"github.com/cosmos/cosmos-sdk/x/authz"
	banktypes "github.com/cosmos/cosmos-sdk/x/bank/types"
	"github.com/ethereum/go-ethereum/common"
	ethtypes "github.com/ethereum/go-ethereum/core/types"
	"github.com/ethereum/go-ethereum/core/vm"
	"github.com/ethereum/go-ethereum/crypto"

	evmtypes "github.com/EscanBE/evermint/v12/x/evm/types"

	"verifharness/vh"
)

type plan struct {
	*vh.TxPlan
	hostile   string // non-empty: must-reject class
	replayOf  string // non-empty: re-offer of an admitted tx (must be rejected)
	cosmosSeq uint64
	isCosmos  bool
	// hostile only relative to the sender's sequence AT EXECUTION: the generator works with the pending sequence, which
	// over-counts when an earlier transaction of the same sender in the block was refused
	seqRelative bool
}

func Run(run *vh.Run) {
	nWorlds := run.N(8, 32)
	nBlocks := run.N(100, 800)
	for wi := 0; wi < nWorlds; wi++ {
		label := fmt.Sprintf("world-%d", wi)
		if !run.WantCase(label) {
			continue
		}
		world(run, label, wi, nBlocks)
	}
	for gi := 0; gi < run.N(6, 40); gi++ {
		if run.WantCase(fmt.Sprintf("gov-replay-%d", gi)) {
			GovReplay(run, gi, false)
		}
	}
	run.Floor("replays of an executed Ethereum transaction through a governance proposal judged", run.Get("gov_replays_judged"), int64(run.N(4, 30)))
	run.Rule = "Histories of Ethereum and Cosmos transactions on the real app with a hostile generator (unprotected, other chain ids, declared From != signer, payload or signature bit-flips after signing, stale and future nonces; Cosmos: wrong sequence / account number / chain id, foreign key, tampered body) and re-offering of every previously admitted transaction (same block, next block, k blocks later, CheckTx). Per transaction the observer's sequence ledger must show: sender sequence +1 iff admitted (consensus result carries ante events), 0 otherwise; admitted nonce == pre-state sequence; no other EOA's sequence moves; rejected => empty full-store write set; hostile and replayed transactions never admitted. Non-trivial = distinct (lane x class x execution outcome)."
	run.Floor("admitted transactions", run.Get("admitted"), int64(run.N(400, 8000)))
	run.Floor("transactions signed with the key of an account that holds code and has a sequence", run.Get("hostile_contract_as_sender_with_a_sequence_offered"), int64(run.N(5, 100)))
	run.Floor("hostile transactions", run.Get("hostile_offered"), int64(run.N(150, 3000)))
	run.Floor("replays attempted", run.Get("replays_offered"), int64(run.N(150, 3000)))
	run.Floor("replays with signer_infos.sequence rewritten to the current sequence", run.Get("replays_offered_with_rewritten_sequence"), int64(run.N(30, 600)))
	run.Floor("signing kinds of the Cosmos transactions replayed that way", int64(run.DistinctN("resequenced_replay_kinds")), 4)
	run.Floor("admitted transactions whose execution failed (nonce must still advance)", run.Get("admitted_exec_failed"), int64(run.N(40, 800)))
}

func world(run *vh.Run, label string, wi, nBlocks int) {
	r := run.RNG("c06", wi)
	maxGas := int64(-1)
	if wi%2 == 1 {
		maxGas = 2_500_000
	}
	// a key holder X and a funded 32-byte account whose last 20 bytes are X's address (no key controls it): transactions
	// signed by X that declare the long account as sender must be refused like any other From != signer
	aliasSigner = vh.NewAcct(r)
	aliasRaw = append(r.Bytes(12), aliasSigner.Addr.Bytes()...)
	// two accounts kept at the same sequence: a transaction signed by the first is, right after the node has seen it,
	// offered again declared as coming from the second (whose sequence equals its nonce)
	twinA, twinB := vh.NewAcct(r), vh.NewAcct(r)
	codeSenders = []*vh.Acct{vh.NewAcct(r), vh.NewAcct(r), vh.NewAcct(r)}
	var codeAccounts []evmtypes.GenesisAccount
	for _, cs := range codeSenders {
		codeAccounts = append(codeAccounts, evmtypes.GenesisAccount{Address: cs.Addr.Hex(), Code: common.Bytes2Hex(vh.NewAsm().Op(vm.STOP).Bytes())})
	}
	w := vh.NewWorld(r, vh.WorldOpts{Chain: vh.Config{Seed: r.U64(), NumVals: 1, MaxGas: maxGas,
		Accounts: []vh.GenAccount{{Addr: aliasSigner.Addr, Coins: vh.NativeCoins(100)}, {RawAddr: aliasRaw, Coins: vh.NativeCoins(100)},
			{Addr: twinA.Addr, Coins: vh.NativeCoins(100)}, {Addr: twinB.Addr, Coins: vh.NativeCoins(100)},
			{Addr: codeSenders[0].Addr, Coins: vh.NativeCoins(100)}, {Addr: codeSenders[1].Addr, Coins: vh.NativeCoins(100), Sequence: 1}, {Addr: codeSenders[2].Addr, Coins: vh.NativeCoins(100), Sequence: 9}},
		MutateGenesis: func(enc params.EncodingConfig, gs chainapp.GenesisState) {
			var eg evmtypes.GenesisState
			enc.Codec.MustUnmarshalJSON(gs[evmtypes.ModuleName], &eg)
			eg.Accounts = append(eg.Accounts, codeAccounts...)
			gs[evmtypes.ModuleName] = enc.Codec.MustMarshalJSON(&eg)
		}},
		NumEOA: 6, Prog: vh.ProgOpts{MaxLen: 6, Depth: 1}})
	defer w.C.Cleanup()
	c := w.C
	w.DeployGenerated(6, nil)
	type old struct {
		bytes  []byte
		desc   string
		age    int
		sender *vh.Acct // Cosmos-lane transactions only
	}
	var admittedPool []old
	for b := 0; b < nBlocks; b++ {
		var plans []*plan
		n := r.Range(1, 7)
		for i := 0; i < n; i++ {
			s := vh.Pick(r, w.EOAs)
			switch k := r.Intn(20); {
			case k < 7: // valid eth
				plans = append(plans, &plan{TxPlan: validEth(w, r, s)})
			case k < 10: // valid cosmos
				seq := w.NextNonce(s.Addr)
				msg := banktypes.NewMsgSend(s.Acc(), vh.Pick(r, w.EOAs).Acc(), sdk.NewCoins(sdk.NewCoin(vh.Denom, sdkmath.NewInt(int64(1+r.Intn(1000))))))
				gas := uint64(vh.Pick(r, []int{200000, 200000, 30000})) // 30000: out of gas after ante (sequence must still advance)
				// signed the plain way or the web3-wallet way (EIP-712 rendering of the sign document), in both sign modes
				signKind := vh.Pick(r, []string{"", "", "amino", "eip712-direct", "eip712-amino"})
				bz := c.CosmosTx(s, []sdk.Msg{msg}, &vh.CosmosOpts{Seq: &seq, Gas: gas, SignKind: signKind})
				w.BumpPending(s.Addr)
				kind := "cosmos-send"
				if signKind != "" {
					kind += ":" + signKind
				}
				plans = append(plans, &plan{TxPlan: &vh.TxPlan{Kind: kind, Class: "ok", Sender: s, Bytes: bz}, isCosmos: true, cosmosSeq: seq})
			case k < 15: // hostile
				if p := hostile(w, r, s); p != nil {
					plans = append(plans, p)
				}
			default: // replay of an earlier admitted tx
				if len(admittedPool) > 0 {
					o := vh.Pick(r, admittedPool)
					if o.sender != nil && r.Chance(2, 3) {
						// the replayer rewrites the unsigned-looking part: signer_infos[0].sequence := the sender's sequence now
						if bz := resequence(o.bytes, w.NextNonce(o.sender.Addr)); bz != nil {
							plans = append(plans, &plan{TxPlan: &vh.TxPlan{Kind: "replay", Class: "replay-resequenced", Bytes: bz}, replayOf: "resequenced:" + o.desc})
							continue
						}
					}
					plans = append(plans, &plan{TxPlan: &vh.TxPlan{Kind: "replay", Class: "replay", Bytes: o.bytes}, replayOf: o.desc})
				}
			}
			// same-block replay of the tx just planned
			if len(plans) > 0 && r.Chance(1, 8) {
				last := plans[len(plans)-1]
				if last.hostile == "" && last.replayOf == "" {
					plans = append(plans, &plan{TxPlan: &vh.TxPlan{Kind: "replay", Class: "replay-same-block", Bytes: last.Bytes}, replayOf: "same-block:" + last.Kind})
				}
			}
		}
		switch nA, nB := c.Nonce(twinA.Addr), c.Nonce(twinB.Addr); {
		case b%5 == 2 && nA == nB:
			to := vh.Pick(r, w.Pool)
			tx := vh.SignEth(twinA, &ethtypes.LegacyTx{Nonce: nA, To: &to, Value: big.NewInt(7), Gas: 30000, GasPrice: new(big.Int).Mul(c.BaseFee(), big.NewInt(3))})
			if bz, err := c.WrapEthErr(tx, twinA.Addr); err == nil {
				plans = append(plans, &plan{TxPlan: &vh.TxPlan{Kind: "eth-transfer", Class: "ok", Sender: twinA, Tx: tx, Bytes: bz}})
				if bz2, err := c.WrapEthErr(tx, twinB.Addr); err == nil {
					plans = append(plans, &plan{TxPlan: &vh.TxPlan{Kind: "eth-hostile", Class: "known-transaction-declared-from-other-account", Sender: twinB, Tx: tx, Bytes: bz2}, hostile: "known-transaction-declared-from-other-account"})
				}
			}
		case nB < nA: // the second account catches up with a transaction of its own
			to := vh.Pick(r, w.Pool)
			tx := vh.SignEth(twinB, &ethtypes.LegacyTx{Nonce: nB, To: &to, Value: big.NewInt(7), Gas: 30000, GasPrice: new(big.Int).Mul(c.BaseFee(), big.NewInt(3))})
			if bz, err := c.WrapEthErr(tx, twinB.Addr); err == nil {
				plans = append(plans, &plan{TxPlan: &vh.TxPlan{Kind: "eth-transfer", Class: "ok", Sender: twinB, Tx: tx, Bytes: bz}})
			}
		}
		txs := make([][]byte, len(plans))
		for i, p := range plans {
			txs[i] = p.Bytes
		}
		// mempool admission, as on a node: every transaction of the block is first offered to CheckTx (nothing is judged on
		// the answers; what the node remembers from them must not change what the block does)
		for _, tx := range txs {
			_, _ = c.App.CheckTx(&abci.RequestCheckTx{Tx: tx, Type: abci.CheckTxType_New})
			run.Count("mempool_offers_before_block", 1)
		}
		view := func(ctx sdk.Context) any {
			m := map[common.Address]uint64{}
			for _, a := range append([]*vh.Acct{twinA, twinB}, w.EOAs...) {
				if acc := c.App.AccountKeeper.GetAccount(ctx, a.Acc()); acc != nil {
					m[a.Addr] = acc.GetSequence()
				}
			}
			return m
		}
		ob := c.RunObserved(txs, nil, view, true)
		w.ResetPending()
		if ob.Err != nil {
			run.Violation("finalize-block-error", label, map[string]any{"err": ob.Err.Error()})
			return
		}
		for i, p := range plans {
			res := ob.Res.TxResults[i]
			run.Eval(1)
			pre, _ := ob.Pre[i].View.(map[common.Address]uint64)
			post, _ := ob.Post[i].View.(map[common.Address]uint64)
			diff := vh.Diff(ob.Pre[i].Dump, ob.Post[i].Dump)
			if ob.PostIsEndBlock[i] {
				diff = nil // "after" side includes EndBlock: sequence ledger still exact, write set not attributable
			}
			admitted := vh.HasEvent(res, "ethereum_tx") || hasAccSeq(res)
			wit := func(extra map[string]any) map[string]any {
				m := map[string]any{"world": label, "height": ob.Height, "index": i, "kind": p.Kind, "class": p.Class, "hostile": p.hostile, "replay_of": p.replayOf,
					"code": res.Code, "log": trunc(res.Log), "seq_before": pre, "seq_after": post, "write_set": vh.ChangeStrings(diff), "tx_bytes": fmt.Sprintf("%x", p.Bytes)}
				if p.Tx != nil {
					m["plan"] = p.String()
				}
				for k, v := range extra {
					m[k] = v
				}
				return m
			}
			lane := "eth"
			if p.isCosmos {
				lane = "cosmos"
			}
			outcome := "rejected"
			if admitted {
				outcome = "admitted-ok"
				if res.Code != 0 {
					outcome = "admitted-exec-failed"
					run.Count("admitted_exec_failed", 1)
				} else if rc, _ := vh.ReceiptOf(res); rc != nil && rc.Status == 0 {
					outcome = "admitted-vm-error"
					run.Count("admitted_exec_failed", 1)
				}
				run.Count("admitted", 1)
			}
			if (p.hostile == "stale-nonce" || p.hostile == "future-nonce") && p.Tx != nil {
				p.seqRelative, p.cosmosSeq = true, p.Tx.Nonce()
			}
			if p.hostile != "" && p.seqRelative && p.Sender != nil {
				if cur, ok := pre[p.Sender.Addr]; ok && cur == p.cosmosSeq {
					// the "wrong" sequence happens to be the right one at this point of the block: an ordinary valid transaction
					p.hostile, p.Class = "", "ok"
					run.Count("hostile_sequence_cases_that_were_valid_at_execution", 1)
				}
			}
			cls := p.Class
			if p.hostile != "" {
				cls = "hostile:" + p.hostile
				run.Count("hostile_offered", 1)
				run.Distinct("hostile_classes", p.hostile)
				if p.hostile == "contract-as-sender" {
					run.Count("hostile_contract_as_sender_offered", 1)
					if c.Nonce(p.Sender.Addr) > 0 {
						run.Count("hostile_contract_as_sender_with_a_sequence_offered", 1)
					}
				}
			}
			if p.replayOf != "" {
				run.Count("replays_offered", 1)
				if p.Class == "replay-resequenced" {
					run.Count("replays_offered_with_rewritten_sequence", 1)
					run.Distinct("resequenced_replay_kinds", strings.SplitN(strings.TrimPrefix(p.replayOf, "resequenced:"), "/", 2)[0])
				}
			}
			run.Nontrivial(lane + "|" + cls + "|" + outcome)
			// sequence ledger
			var moved []string
			for a, b := range pre {
				if post[a] != b {
					moved = append(moved, fmt.Sprintf("%s:%d->%d", a.Hex(), b, post[a]))
				}
			}
			switch {
			case p.hostile != "" && admitted:
				run.Violation("hostile-transaction-admitted:"+p.hostile, label, wit(nil))
			case p.replayOf != "" && admitted:
				run.Violation("replayed-transaction-admitted", label, wit(nil))
			}
			if !admitted {
				if len(moved) > 0 {
					run.Violation("rejected-transaction-moved-a-sequence", label, wit(map[string]any{"moved": moved}))
				}
				if len(diff) > 0 {
					run.Violation("rejected-transaction-nonempty-write-set", label, wit(nil))
				}
				continue
			}
			if p.Sender == nil {
				continue // admitted replay / hostile without a known sender: already reported
			}
			s := p.Sender.Addr
			want := pre[s] + 1
			if post[s] != want {
				run.Violation("admitted-transaction-sequence-not-plus-one:"+outcome, label, wit(map[string]any{"sender": s.Hex()}))
			}
			if p.Tx != nil && p.Tx.Nonce() != pre[s] {
				run.Violation("admitted-with-nonce-not-equal-sequence", label, wit(map[string]any{"sender": s.Hex()}))
			}
			if p.isCosmos && p.cosmosSeq != pre[s] {
				run.Violation("admitted-with-nonce-not-equal-sequence", label, wit(map[string]any{"sender": s.Hex()}))
			}
			for a, bfr := range pre {
				if a != s && post[a] != bfr {
					run.Violation("other-account-sequence-moved", label, wit(map[string]any{"other": a.Hex()}))
				}
			}
			if p.hostile == "" && p.replayOf == "" {
				o := old{bytes: p.Bytes, desc: p.Kind + "/" + outcome}
				if p.isCosmos {
					o.sender = p.Sender
				}
				admittedPool = append(admittedPool, o)
				if len(admittedPool) > 200 {
					admittedPool = admittedPool[50:]
				}
			}
			if i == 0 && ob.Height%13 == 0 {
				run.Sample(map[string]any{"lane": lane, "class": cls, "outcome": outcome, "seq_before": pre[s], "seq_after": post[s]})
			}
		}
		// CheckTx replays (mempool admission) of a few admitted transactions
		if len(admittedPool) > 0 && b%3 == 0 {
			o := vh.Pick(r, admittedPool)
			rsp, err := c.App.CheckTx(&abci.RequestCheckTx{Tx: o.bytes, Type: abci.CheckTxType_New})
			run.Count("checktx_replays", 1)
			if err == nil && rsp.Code == 0 {
				run.Violation("replayed-transaction-admitted:checktx", label, map[string]any{"replay_of": o.desc, "tx_bytes": fmt.Sprintf("%x", o.bytes)})
			}
		}
	}
}

func hasAccSeq(res *abci.ExecTxResult) bool {
	for _, e := range res.Events {
		if e.Type == "tx" {
			for _, a := range e.Attributes {
				if a.Key == "acc_seq" {
					return true
				}
			}
		}
	}
	return false
}

func validEth(w *vh.World, r *vh.RNG, s *vh.Acct) *vh.TxPlan {
	if len(w.Contracts) > 0 && r.Chance(2, 3) {
		to := vh.Pick(r, w.Contracts).Addr
		return w.PlanEth(s, &to, big.NewInt(int64(r.Intn(1000))), uint64(vh.Pick(r, []int{21000, 22000, 40000, 200000, 2_400_000})), r.Bytes(vh.Pick(r, []int{0, 4, 36})), "ok", nil)
	}
	to := vh.Pick(r, w.Pool)
	val := big.NewInt(int64(r.Intn(1_000_000)))
	if r.Chance(1, 8) {
		val = new(big.Int).Add(w.C.Balance(s.Addr), big.NewInt(1)) // core error after admission
		if r.Bool() {                                              // the same for a contract creation: unaffordable value, admitted, must still consume the nonce exactly once
			return w.PlanEth(s, nil, val, 200000, vh.Deployer(vh.NewAsm().Op(vm.STOP).Bytes()), "ok", nil)
		}
	}
	return w.PlanEth(s, &to, val, 21000, nil, "ok", nil)
}

var secpN, _ = new(big.Int).SetString("fffffffffffffffffffffffffffffffebaaedce6af48a03bbfd25e8cd0364141", 16)

// set per world (worlds run one after another)
var (
	aliasSigner *vh.Acct
	aliasRaw    []byte
	// accounts that hold contract code although a key for them is known (code given at genesis, as a state migration
	// would): sequence 0, and sequences > 0 (an address that sent transactions before it got code)
	codeSenders []*vh.Acct
)

func hostile(w *vh.World, r *vh.RNG, s *vh.Acct) *plan {
	c := w.C
	if len(codeSenders) > 0 && r.Chance(1, 10) {
		// correctly signed, correct nonce, funded: but the sender is a contract
		cs := vh.Pick(r, codeSenders)
		to := vh.Pick(r, w.Pool)
		var txd ethtypes.TxData = &ethtypes.LegacyTx{Nonce: c.Nonce(cs.Addr), To: &to, Value: big.NewInt(7), Gas: 30000, GasPrice: new(big.Int).Mul(c.BaseFee(), big.NewInt(3))}
		if r.Bool() {
			txd = &ethtypes.DynamicFeeTx{ChainID: big.NewInt(vh.EIP155ID), Nonce: c.Nonce(cs.Addr), To: &to, Value: big.NewInt(7), Gas: 30000, GasFeeCap: new(big.Int).Mul(c.BaseFee(), big.NewInt(3)), GasTipCap: big.NewInt(1)}
		}
		tx := vh.SignEth(cs, txd)
		bz, err := c.WrapEthErr(tx, cs.Addr)
		if err != nil {
			return nil
		}
		return &plan{TxPlan: &vh.TxPlan{Kind: "eth-hostile", Class: "contract-as-sender", Sender: cs, Tx: tx, Bytes: bz}, hostile: "contract-as-sender"}
	}
	if aliasSigner != nil && r.Chance(1, 12) {
		// declared sender = the 32-byte account ending in the signer's address; nonce = that account's sequence (0)
		to := vh.Pick(r, w.Pool)
		tx := vh.SignEth(aliasSigner, &ethtypes.LegacyTx{Nonce: 0, To: &to, Value: big.NewInt(7), Gas: 30000, GasPrice: new(big.Int).Mul(c.BaseFee(), big.NewInt(3))})
		bz, err := c.WrapEthFromRaw(tx, aliasRaw)
		if err != nil {
			return nil
		}
		return &plan{TxPlan: &vh.TxPlan{Kind: "eth-hostile", Class: "from-long-address-ending-in-signer", Sender: aliasSigner, Tx: tx, Bytes: bz}, hostile: "from-long-address-ending-in-signer"}
	}
	nonce := w.NextNonce(s.Addr)
	to := vh.Pick(r, w.Pool)
	price := new(big.Int).Mul(c.BaseFee(), big.NewInt(3))
	base := &ethtypes.LegacyTx{Nonce: nonce, To: &to, Value: big.NewInt(7), Gas: 30000, GasPrice: price}
	mk := func(class string, tx *ethtypes.Transaction, from common.Address) *plan {
		bz, err := c.WrapEthErr(tx, from)
		if err != nil {
			return nil
		}
		return &plan{TxPlan: &vh.TxPlan{Kind: "eth-hostile", Class: class, Sender: s, Tx: tx, Bytes: bz}, hostile: class}
	}
	switch k := r.Intn(11); k {
	case 0: // unprotected (pre-EIP-155 signature): a call, or a contract creation
		class := "unprotected"
		if r.Bool() {
			base = &ethtypes.LegacyTx{Nonce: nonce, Value: big.NewInt(0), Gas: 200000, GasPrice: price, Data: vh.Deployer(vh.NewAsm().Op(vm.STOP).Bytes())}
			class = "unprotected-create"
		}
		tx, err := ethtypes.SignNewTx(s.Key, ethtypes.HomesteadSigner{}, base)
		if err != nil {
			return nil
		}
		return mk(class, tx, s.Addr)
	case 1: // other chain id
		other := big.NewInt(int64(vh.EIP155ID + 1 + r.Intn(5)))
		var txd ethtypes.TxData = base
		if r.Bool() {
			txd = &ethtypes.DynamicFeeTx{ChainID: other, Nonce: nonce, To: &to, Value: big.NewInt(7), Gas: 30000, GasFeeCap: price, GasTipCap: big.NewInt(1)}
		}
		tx, err := ethtypes.SignNewTx(s.Key, ethtypes.LatestSignerForChainID(other), txd)
		if err != nil {
			return nil
		}
		return mk("wrong-chain-id", tx, s.Addr)
	case 2: // declared From != signer: signed by another key, declared as s (with s's nonce)
		o := otherEOA(w, r, s)
		tx := vh.SignEth(o, base)
		return mk("from-not-signer", tx, s.Addr)
	case 3: // signer's own valid tx declared as coming from a richer account
		o := otherEOA(w, r, s)
		tx := vh.SignEth(s, &ethtypes.LegacyTx{Nonce: w.NextNonce(o.Addr), To: &to, Value: big.NewInt(7), Gas: 30000, GasPrice: price})
		p := mk("from-not-signer", tx, o.Addr)
		if p != nil {
			p.Sender = o
		}
		return p
	case 4: // payload tampered after signing (value changed, signature kept)
		tx := vh.SignEth(s, base)
		v, rr, ss := tx.RawSignatureValues()
		t2 := ethtypes.NewTx(&ethtypes.LegacyTx{Nonce: nonce, To: &to, Value: big.NewInt(8), Gas: 30000, GasPrice: price, V: v, R: rr, S: ss})
		return mk("payload-tampered", t2, s.Addr)
	case 5: // signature bit flip in r
		tx := vh.SignEth(s, base)
		v, rr, ss := tx.RawSignatureValues()
		r2 := new(big.Int).Xor(rr, big.NewInt(1<<uint(r.Intn(60))))
		t2 := ethtypes.NewTx(&ethtypes.LegacyTx{Nonce: nonce, To: &to, Value: big.NewInt(7), Gas: 30000, GasPrice: price, V: v, R: r2, S: ss})
		return mk("signature-tampered", t2, s.Addr)
	case 6: // stale nonce
		if nonce == 0 {
			return nil
		}
		tx := vh.SignEth(s, &ethtypes.LegacyTx{Nonce: uint64(r.Intn(int(nonce))), To: &to, Value: big.NewInt(7), Gas: 30000, GasPrice: price})
		return mk("stale-nonce", tx, s.Addr)
	case 7: // future nonce
		tx := vh.SignEth(s, &ethtypes.LegacyTx{Nonce: nonce + uint64(1+r.Intn(4)), To: &to, Value: big.NewInt(7), Gas: 30000, GasPrice: price})
		return mk("future-nonce", tx, s.Addr)
	case 8: // zeroed / out-of-range signature values
		t2 := ethtypes.NewTx(&ethtypes.LegacyTx{Nonce: nonce, To: &to, Value: big.NewInt(7), Gas: 30000, GasPrice: price,
			V: big.NewInt(int64(vh.EIP155ID*2 + 35)), R: vh.Pick(r, []*big.Int{big.NewInt(0), secpN, big.NewInt(1)}), S: vh.Pick(r, []*big.Int{big.NewInt(0), secpN, big.NewInt(1)})})
		return mk("degenerate-signature", t2, s.Addr)
	default: // Cosmos lane
		o := otherEOA(w, r, s)
		seq := nonce
		msg := banktypes.NewMsgSend(s.Acc(), o.Acc(), sdk.NewCoins(sdk.NewCoin(vh.Denom, sdkmath.NewInt(5))))
		opts := &vh.CosmosOpts{Seq: &seq, Gas: 200000}
		class := ""
		switch r.Intn(7) {
		case 6:
			// the sender's own, correct signature replaced by its twin (r, n-s, v^1): same key, same message, but not a
			// signature standard verification accepts (low-s rule) - anybody can compute it from a transaction in flight
			txb, err := c.CosmosTxBuilder(s, []sdk.Msg{msg}, opts)
			if err != nil {
				return nil
			}
			sigs, err := txb.GetTx().GetSignaturesV2()
			if err != nil || len(sigs) != 1 {
				return nil
			}
			sd, ok := sigs[0].Data.(*signing.SingleSignatureData)
			if !ok || len(sd.Signature) < 64 {
				return nil
			}
			tw := append([]byte{}, sd.Signature...)
			sv := new(big.Int).Sub(secpN, new(big.Int).SetBytes(tw[32:64]))
			copy(tw[32:64], common.LeftPadBytes(sv.Bytes(), 32))
			if len(tw) == 65 {
				tw[64] ^= 1
			}
			sd.Signature = tw
			if err := txb.SetSignatures(sigs[0]); err != nil {
				return nil
			}
			return &plan{TxPlan: &vh.TxPlan{Kind: "cosmos-hostile", Class: "cosmos-malleated-signature", Sender: s, Bytes: c.Encode(txb)}, hostile: "cosmos-malleated-signature", isCosmos: true}
		case 5:
			// somebody else's signed Ethereum transaction (protected or not) inside the second of two authz exec messages
			// of the sender's own Cosmos transaction: it may only ever run through the Ethereum lane
			v := otherEOA(w, r, s)
			var vtx *ethtypes.Transaction
			inner := &ethtypes.LegacyTx{Nonce: w.NextNonce(v.Addr), To: &to, Value: big.NewInt(7), Gas: 30000, GasPrice: price}
			if r.Bool() {
				vtx = vh.SignEth(v, inner)
			} else if t, err := ethtypes.SignNewTx(v.Key, ethtypes.HomesteadSigner{}, inner); err == nil {
				vtx = t
			} else {
				return nil
			}
			bin, err := vtx.MarshalBinary()
			if err != nil {
				return nil
			}
			harmless := authz.NewMsgExec(s.Acc(), []sdk.Msg{msg})
			wrapped := authz.NewMsgExec(s.Acc(), []sdk.Msg{&evmtypes.MsgEthereumTx{MarshalledTx: bin, From: s.Bech32()}})
			txb, err := c.CosmosTxBuilder(s, []sdk.Msg{&harmless, &wrapped}, &vh.CosmosOpts{Seq: &seq, Gas: 400000})
			if err != nil {
				return nil
			}
			return &plan{TxPlan: &vh.TxPlan{Kind: "cosmos-hostile", Class: "cosmos-exec-wrapping-foreign-eth-tx", Sender: s, Bytes: c.Encode(txb)}, hostile: "cosmos-exec-wrapping-foreign-eth-tx", isCosmos: true}
		case 0:
			bad := seq + 1 + uint64(r.Intn(3))
			opts.Seq = &bad
			class = "cosmos-wrong-sequence"
		case 1:
			if seq == 0 {
				return nil
			}
			bad := seq - 1
			opts.Seq = &bad
			class = "cosmos-stale-sequence"
		case 2:
			bad := uint64(9999)
			opts.AccNum = &bad
			class = "cosmos-wrong-account-number"
		case 3:
			opts.ChainID = "evermint_80809-1"
			class = "cosmos-wrong-chain-id"
		default:
			// signed by another key: message says s, signature by o
			txb, err := c.CosmosTxBuilder(s, []sdk.Msg{msg}, &vh.CosmosOpts{Seq: &seq, Gas: 200000, NoSign: true})
			if err != nil {
				return nil
			}
			if err := c.SignCosmos(o, txb, &vh.CosmosOpts{Seq: &seq}); err != nil {
				return nil
			}
			return &plan{TxPlan: &vh.TxPlan{Kind: "cosmos-hostile", Class: "cosmos-foreign-key", Sender: s, Bytes: c.Encode(txb)}, hostile: "cosmos-foreign-key", isCosmos: true}
		}
		txb, err := c.CosmosTxBuilder(s, []sdk.Msg{msg}, opts)
		if err != nil {
			return nil
		}
		return &plan{TxPlan: &vh.TxPlan{Kind: "cosmos-hostile", Class: class, Sender: s, Bytes: c.Encode(txb)}, hostile: class, isCosmos: true, cosmosSeq: *opts.Seq, seqRelative: class == "cosmos-wrong-sequence" || class == "cosmos-stale-sequence"}
	}
}

// resequence returns the transaction with signer_infos[0].sequence set to seq (body bytes and signatures untouched).
func resequence(bz []byte, seq uint64) []byte {
	var raw txtypes.TxRaw
	if err := raw.Unmarshal(bz); err != nil {
		return nil
	}
	var ai txtypes.AuthInfo
	if err := ai.Unmarshal(raw.AuthInfoBytes); err != nil || len(ai.SignerInfos) == 0 || ai.SignerInfos[0].Sequence == seq {
		return nil
	}
	ai.SignerInfos[0].Sequence = seq
	nb, err := ai.Marshal()
	if err != nil {
		return nil
	}
	raw.AuthInfoBytes = nb
	out, err := raw.Marshal()
	if err != nil {
		return nil
	}
	return out
}

func otherEOA(w *vh.World, r *vh.RNG, s *vh.Acct) *vh.Acct {
	for {
		o := vh.Pick(r, w.EOAs)
		if o != s {
			return o
		}
	}
}

func trunc(s string) string {
	if len(s) > 300 {
		return s[:300] + "…"
	}
	return s
}

var _ = crypto.Keccak256
var _ ecdsa.PrivateKey
