package c06

import (
	"fmt"
	"math/big"

	sdk "github.com/cosmos/cosmos-sdk/types"
	"github.com/ethereum/go-ethereum/common"
	ethtypes "github.com/ethereum/go-ethereum/core/types"

	evmtypes "github.com/EscanBE/evermint/v12/x/evm/types"

	"verifharness/vh"
)

// Replay through a path that does not cross the ante handler: the signed bytes of an executed Ethereum transaction are put
// into a governance proposal as a MsgEthereumTx (declared sender = the governance module account, the only signer a
// proposal message may have), the proposal is voted through and its message runs in the end blocker. Nothing new was
// signed by the original sender, so whatever the proposal's fate, the original sender's sequence and balance and the
// receiver's balance must be what the ordinary blocks made them.
//
// The same scenario serves C20 (endBlockerProp = true): end-of-block processing must not fail whatever message a passed
// proposal carries - there the proposal's Ethereum transaction is, in turn, the replay, a fresh transaction whose gas limit is
// below the intrinsic gas, a fresh transaction its sender cannot afford, and a fresh valid one.
func GovReplay(run *vh.Run, idx int, endBlockerProp bool) {
	r := run.RNG("gov-replay", idx)
	label := fmt.Sprintf("gov-replay-%d", idx)
	proposer, s, rcv := vh.NewAcct(r), vh.NewAcct(r), vh.NewAcct(r)
	c := vh.NewChain(vh.Config{Seed: r.U64(), NumVals: 1 + idx%2, MaxGas: -1, MutateGenesis: vh.FastGov,
		Accounts: []vh.GenAccount{{Addr: proposer.Addr, Coins: vh.NativeCoins(1000)}, {Addr: s.Addr, Coins: vh.NativeCoins(1000)}, {Addr: rcv.Addr, Coins: vh.NativeCoins(1)}}})
	defer c.Cleanup()
	seqs := c.NewSeqs()
	price := new(big.Int).Mul(c.BaseFee(), big.NewInt(2))
	value := big.NewInt(int64(1_000 + r.Intn(1_000_000)))
	var txd ethtypes.TxData = &ethtypes.LegacyTx{Nonce: c.Nonce(s.Addr), To: &rcv.Addr, Value: value, Gas: 21000, GasPrice: price}
	if idx%2 == 1 {
		txd = &ethtypes.DynamicFeeTx{ChainID: big.NewInt(vh.EIP155ID), Nonce: c.Nonce(s.Addr), To: &rcv.Addr, Value: value, Gas: 30000, GasFeeCap: price, GasTipCap: big.NewInt(1)}
	}
	tx := vh.SignEth(s, txd)
	br := c.NextBlock([][]byte{c.WrapEth(tx, s.Addr)}, nil)
	if br.Err != nil || br.TxResults()[0].Code != 0 {
		run.Inconclusive("gov replay " + label + ": the original transaction was not executed")
		return
	}
	for i := r.Intn(3); i > 0; i-- {
		c.NextBlock(nil, nil)
	}
	type snap struct {
		seq      uint64
		sBal     *big.Int
		rcvBal   *big.Int
		govNonce uint64
	}
	take := func() snap {
		return snap{c.Nonce(s.Addr), c.Balance(s.Addr), c.Balance(rcv.Addr), c.Nonce(common.BytesToAddress(vh.GovAddr))}
	}
	variant := "replay"
	if endBlockerProp {
		variant = []string{"replay", "fresh-below-intrinsic-gas", "fresh-unaffordable", "fresh-valid"}[idx%4]
		switch variant {
		case "fresh-below-intrinsic-gas":
			tx = vh.SignEth(s, &ethtypes.LegacyTx{Nonce: c.Nonce(s.Addr), To: &rcv.Addr, Value: value, Gas: 20_000, GasPrice: price})
		case "fresh-unaffordable":
			tx = vh.SignEth(s, &ethtypes.LegacyTx{Nonce: c.Nonce(s.Addr), To: &rcv.Addr, Value: new(big.Int).Add(c.Balance(s.Addr), big.NewInt(1)), Gas: 21_000, GasPrice: price})
		case "fresh-valid":
			tx = vh.SignEth(s, &ethtypes.LegacyTx{Nonce: c.Nonce(s.Addr), To: &rcv.Addr, Value: value, Gas: 21_000, GasPrice: price})
		}
	}
	before := take()
	bin, err := tx.MarshalBinary()
	if err != nil {
		return
	}
	msg := &evmtypes.MsgEthereumTx{MarshalledTx: bin, From: vh.GovAddr.String()}
	txs, id, err := c.GovProposalTxs(proposer, []sdk.Msg{msg}, seqs, "replay")
	if err != nil {
		run.Count("gov_replay_proposals_not_buildable", 1)
		return
	}
	br = c.NextBlock(txs, nil)
	seqs.Reset()
	run.Eval(1)
	if br.Err != nil {
		run.Count("gov_replay_blocks_failed:"+trunc(br.Err.Error()), 1)
		return
	}
	if res := br.TxResults()[0]; res.Code != 0 {
		// the node refuses such a proposal at submission: nothing to execute
		run.Count("gov_replay_proposals_refused_at_submission", 1)
		run.Distinct("gov_replay_submission_refusals", trunc(res.Log))
		run.Nontrivial("gov-replay|refused-at-submission")
	} else {
		run.Count("gov_replay_proposals_submitted", 1)
	}
	status := int32(0)
	for i := 0; i < 6; i++ {
		var b2 *vh.BlockResult
		panicked := false
		func() {
			defer func() {
				if p := recover(); p != nil {
					panicked = true
					run.Distinct("gov_replay_end_blocker_failures", trunc(fmt.Sprint("panic: ", p)))
				}
			}()
			b2 = c.NextBlock(nil, nil)
		}()
		if panicked || (b2 != nil && b2.Err != nil) {
			// the end blocker failing on the proposal is a refusal as well as far as this property goes (the block is not
			// committed); the committed state is judged below
			run.Count("gov_replay_end_blocker_failed", 1)
			if endBlockerProp {
				what := "panic"
				if b2 != nil && b2.Err != nil {
					what = trunc(b2.Err.Error())
				}
				run.Violation("end-blocker-failed:passed-governance-proposal-with-ethereum-tx:"+variant, label, map[string]any{"variant": variant, "failure": what, "tx_hash": tx.Hash().Hex()})
				return
			}
			if b2 != nil && b2.Err != nil {
				run.Distinct("gov_replay_end_blocker_failures", trunc(b2.Err.Error()))
			}
			run.Nontrivial("gov-replay|end-blocker-failed")
			break
		}
		status = c.ProposalStatuses(c.QueryCtx())[id]
		if status == 3 || status == 4 || status == 5 {
			break
		}
	}
	run.Distinct("gov_replay_proposal_final_status", fmt.Sprint(status))
	run.Nontrivial(fmt.Sprintf("gov-replay|%s|status-%d", variant, status))
	if endBlockerProp {
		run.Count("governance_proposals_with_an_ethereum_tx_run_by_the_end_blocker", 1)
		return
	}
	after := take()
	run.Count("gov_replays_judged", 1)
	if after.seq != before.seq || after.sBal.Cmp(before.sBal) != 0 || after.rcvBal.Cmp(before.rcvBal) != 0 {
		run.Violation("replayed-transaction-executed-again:through-governance-proposal", label, map[string]any{
			"tx_hash": tx.Hash().Hex(), "proposal_status": status,
			"sender_sequence_before": before.seq, "sender_sequence_after": after.seq,
			"sender_balance_before": before.sBal.String(), "sender_balance_after": after.sBal.String(),
			"receiver_balance_before": before.rcvBal.String(), "receiver_balance_after": after.rcvBal.String()})
	}
}
