// Package c07 is the monitor for property C07 (dual-lane isolation).
//
// build.go: a raw protobuf transaction builder. Every generated shape is assembled field by
// field (body, auth info, signatures) so that shapes the SDK's tx builder cannot express
// (signatures without signer infos, signer infos without signatures, foreign extension
// options, a fee payer on an Ethereum-shaped envelope, ...) can be produced while everything
// else stays valid: the Cosmos signatures are real SIGN_MODE_DIRECT signatures over the final
// body / auth-info bytes with the signer's committed account number and sequence.
package c07

import (
	"fmt"

	codectypes "github.com/cosmos/cosmos-sdk/codec/types"
	sdk "github.com/cosmos/cosmos-sdk/types"
	txtypes "github.com/cosmos/cosmos-sdk/types/tx"
	"github.com/cosmos/cosmos-sdk/types/tx/signing"

	"verifharness/vh"
)

// signerSpec is one Cosmos signer of a raw transaction.
type signerSpec struct {
	A      *vh.Acct
	Seq    uint64
	AccNum uint64
	Info   bool // emit a SignerInfo (public key, SIGN_MODE_DIRECT, sequence)
	Sig    bool // emit a signature over the sign doc
}

// rawTx is the field-by-field description of a transaction envelope.
type rawTx struct {
	Msgs      []sdk.Msg
	Memo      string
	Timeout   uint64
	ExtOpts   []*codectypes.Any
	NonCrit   []*codectypes.Any
	Fee       sdk.Coins
	Gas       uint64
	Payer     string
	Granter   string
	Tip       *txtypes.Tip
	Signers   []*signerSpec
	NoAuthFee bool // leave AuthInfo.Fee nil
}

func mustAny(m any) *codectypes.Any {
	pm, ok := m.(interface {
		Reset()
		String() string
		ProtoMessage()
	})
	if !ok {
		panic(fmt.Sprintf("not a proto message: %T", m))
	}
	a, err := codectypes.NewAnyWithValue(pm)
	if err != nil {
		panic(err)
	}
	return a
}

// encode assembles and signs the transaction and returns the TxRaw bytes.
func (t *rawTx) encode() []byte {
	body := txtypes.TxBody{Memo: t.Memo, TimeoutHeight: t.Timeout, ExtensionOptions: t.ExtOpts, NonCriticalExtensionOptions: t.NonCrit}
	for _, m := range t.Msgs {
		body.Messages = append(body.Messages, mustAny(m))
	}
	bodyBz, err := body.Marshal()
	if err != nil {
		panic(err)
	}
	ai := txtypes.AuthInfo{Tip: t.Tip}
	if !t.NoAuthFee {
		ai.Fee = &txtypes.Fee{Amount: t.Fee, GasLimit: t.Gas, Payer: t.Payer, Granter: t.Granter}
	}
	for _, s := range t.Signers {
		if !s.Info {
			continue
		}
		ai.SignerInfos = append(ai.SignerInfos, &txtypes.SignerInfo{
			PublicKey: mustAny(s.A.PrivKey().PubKey()),
			ModeInfo:  &txtypes.ModeInfo{Sum: &txtypes.ModeInfo_Single_{Single: &txtypes.ModeInfo_Single{Mode: signing.SignMode_SIGN_MODE_DIRECT}}},
			Sequence:  s.Seq,
		})
	}
	aiBz, err := ai.Marshal()
	if err != nil {
		panic(err)
	}
	raw := txtypes.TxRaw{BodyBytes: bodyBz, AuthInfoBytes: aiBz}
	for _, s := range t.Signers {
		if !s.Sig {
			continue
		}
		doc := txtypes.SignDoc{BodyBytes: bodyBz, AuthInfoBytes: aiBz, ChainId: vh.ChainID, AccountNumber: s.AccNum}
		docBz, err := doc.Marshal()
		if err != nil {
			panic(err)
		}
		sig, err := s.A.PrivKey().Sign(docBz)
		if err != nil {
			panic(err)
		}
		raw.Signatures = append(raw.Signatures, sig)
	}
	bz, err := raw.Marshal()
	if err != nil {
		panic(err)
	}
	return bz
}
