package c07

// predicate.go: the reference lane predicate, written from the statement of property C07 and
// evaluated on the raw transaction bytes (own protobuf decoding; it never consults the
// repository's HasSingleEthereumMessage / IsEthereumTx / checkDisabledMsgs).
//
//	A transaction is in the MUST-REJECT set iff
//	  (1) it contains an Ethereum message anywhere other than as the sole top-level message, or
//	  (2) a disabled message (Ethereum message or one of the three vesting-creation messages) is
//	      nested inside an authz exec message at any depth, or
//	  (3) it contains (top-level or nested in exec) an authz grant of a generic authorisation
//	      for one of those four type URLs, or
//	  (4) it is Ethereum-shaped (exactly one top-level message, an Ethereum message) but carries
//	      signatures, signer infos, a fee payer, a fee granter, a memo, a timeout height, an
//	      extension option other than (at most) one ExtensionOptionsEthereumTx, any non-critical
//	      extension option, or a declared fee / gas limit different from gasLimit x
//	      (gasPrice | feeCap) in the EVM denomination / the gas limit of the embedded transaction.
//
//	Everything else MAY be accepted (the property does not demand acceptance).

import (
	"math/big"
	"sort"

	codectypes "github.com/cosmos/cosmos-sdk/codec/types"
	txtypes "github.com/cosmos/cosmos-sdk/types/tx"
	"github.com/cosmos/cosmos-sdk/x/authz"
	ethtypes "github.com/ethereum/go-ethereum/core/types"

	evmtypes "github.com/EscanBE/evermint/v12/x/evm/types"
)

const (
	urlEth       = "/ethermint.evm.v1.MsgEthereumTx"
	urlVest      = "/cosmos.vesting.v1beta1.MsgCreateVestingAccount"
	urlVestPer   = "/cosmos.vesting.v1beta1.MsgCreatePeriodicVestingAccount"
	urlVestPerm  = "/cosmos.vesting.v1beta1.MsgCreatePermanentLockedAccount"
	urlExec      = "/cosmos.authz.v1beta1.MsgExec"
	urlGrant     = "/cosmos.authz.v1beta1.MsgGrant"
	urlGeneric   = "/cosmos.authz.v1beta1.GenericAuthorization"
	urlExtEth    = "/ethermint.evm.v1.ExtensionOptionsEthereumTx"
	urlSend      = "/cosmos.bank.v1beta1.MsgSend"
	urlExtDynFee = "/ethermint.types.v1.ExtensionOptionDynamicFeeTx"
)

var disabledURL = map[string]string{urlEth: "eth", urlVest: "vesting", urlVestPer: "vesting", urlVestPerm: "vesting"}

// laneVerdict is what the reference predicate says about one transaction.
type laneVerdict struct {
	Decodable  bool
	EthShaped  bool // exactly one top-level message and it is an Ethereum message
	MustReject bool
	Reasons    []string // sorted, de-duplicated classifier reasons
	MaxDepth   int      // deepest message nesting seen (top level = 0)
	DisabledAt int      // deepest nesting at which a disabled message / grant was seen (-1 none)
	NumTop     int
	EthTxs     []*ethtypes.Transaction // embedded Ethereum transactions in order of appearance
}

func (v *laneVerdict) add(r string) {
	for _, x := range v.Reasons {
		if x == r {
			return
		}
	}
	v.Reasons = append(v.Reasons, r)
	v.MustReject = true
}

// Class is the classifier string used in violation signatures.
func (v *laneVerdict) Class() string {
	if len(v.Reasons) == 0 {
		return "none"
	}
	s := v.Reasons[0]
	for _, r := range v.Reasons[1:] {
		s += "+" + r
	}
	return s
}

func classify(txBytes []byte, evmDenom string) *laneVerdict {
	v := &laneVerdict{DisabledAt: -1}
	var raw txtypes.TxRaw
	if err := raw.Unmarshal(txBytes); err != nil {
		return v
	}
	var body txtypes.TxBody
	if err := body.Unmarshal(raw.BodyBytes); err != nil {
		return v
	}
	var ai txtypes.AuthInfo
	if err := ai.Unmarshal(raw.AuthInfoBytes); err != nil {
		return v
	}
	v.Decodable = true
	v.NumTop = len(body.Messages)
	nEthTop := 0
	for _, m := range body.Messages {
		if m.TypeUrl == urlEth {
			nEthTop++
		}
	}
	v.EthShaped = v.NumTop == 1 && nEthTop == 1
	if nEthTop > 0 && !v.EthShaped {
		if nEthTop == v.NumTop {
			v.add("multiple-eth-msgs")
		} else {
			v.add("eth-msg-beside-others")
		}
	}
	for _, m := range body.Messages {
		v.walk(m, 0)
	}
	if v.EthShaped {
		if len(raw.Signatures) > 0 {
			v.add("ethshape-signatures")
		}
		if len(ai.SignerInfos) > 0 {
			v.add("ethshape-signer-infos")
		}
		if ai.Fee != nil && ai.Fee.Payer != "" {
			v.add("ethshape-payer")
		}
		if ai.Fee != nil && ai.Fee.Granter != "" {
			v.add("ethshape-granter")
		}
		if body.Memo != "" {
			v.add("ethshape-memo")
		}
		if body.TimeoutHeight != 0 {
			v.add("ethshape-timeout")
		}
		if len(body.NonCriticalExtensionOptions) > 0 {
			v.add("ethshape-ext-noncritical")
		}
		switch {
		case len(body.ExtensionOptions) == 0:
		case len(body.ExtensionOptions) == 1 && body.ExtensionOptions[0].TypeUrl == urlExtEth:
		default:
			v.add("ethshape-ext-foreign")
		}
		if len(v.EthTxs) == 1 {
			etx := v.EthTxs[0]
			price := etx.GasPrice() // gas price of legacy / access-list txs, fee cap of dynamic-fee txs
			want := new(big.Int).Mul(price, new(big.Int).SetUint64(etx.Gas()))
			feeOK := false
			if ai.Fee != nil {
				switch {
				case len(ai.Fee.Amount) == 1:
					feeOK = ai.Fee.Amount[0].Denom == evmDenom && ai.Fee.Amount[0].Amount.BigInt().Cmp(want) == 0
				case len(ai.Fee.Amount) == 0:
					feeOK = want.Sign() == 0
				}
			}
			if !feeOK {
				v.add("ethshape-fee-mismatch")
			}
			if ai.Fee == nil || ai.Fee.GasLimit != etx.Gas() {
				v.add("ethshape-gas-mismatch")
			}
		}
	}
	sort.Strings(v.Reasons)
	return v
}

// walk inspects one message (packed as Any) at nesting depth d (0 = top level).
func (v *laneVerdict) walk(m *codectypes.Any, d int) {
	if d > v.MaxDepth {
		v.MaxDepth = d
	}
	mark := func() {
		if d > v.DisabledAt {
			v.DisabledAt = d
		}
	}
	switch m.TypeUrl {
	case urlEth:
		var e evmtypes.MsgEthereumTx
		if err := e.Unmarshal(m.Value); err == nil {
			etx := new(ethtypes.Transaction)
			if err := etx.UnmarshalBinary(e.MarshalledTx); err == nil {
				v.EthTxs = append(v.EthTxs, etx)
			}
		}
		if d > 0 {
			v.add("eth-msg-in-exec")
			mark()
		}
	case urlVest, urlVestPer, urlVestPerm:
		if d > 0 {
			v.add("vesting-msg-in-exec")
			mark()
		}
	case urlExec:
		var ex authz.MsgExec
		if err := ex.Unmarshal(m.Value); err != nil {
			return
		}
		for _, in := range ex.Msgs {
			v.walk(in, d+1)
		}
	case urlGrant:
		var g authz.MsgGrant
		if err := g.Unmarshal(m.Value); err != nil || g.Grant.Authorization == nil {
			return
		}
		if g.Grant.Authorization.TypeUrl != urlGeneric {
			return
		}
		var ga authz.GenericAuthorization
		if err := ga.Unmarshal(g.Grant.Authorization.Value); err != nil {
			return
		}
		if kind, bad := disabledURL[ga.Msg]; bad {
			if d > 0 {
				v.add("grant-for-" + kind + "-msg-in-exec")
			} else {
				v.add("grant-for-" + kind + "-msg")
			}
			mark()
		}
	}
}
