package c07

// run.go: worlds, the mode product (simulate, CheckTx new, CheckTx recheck, FinalizeBlock, plus
// Prepare/ProcessProposal for crash-freedom) and the verdicts.

import (
	"bytes"
	"fmt"
	"math/big"
	"sort"
	"strings"
	"sync"

	errorsmod "cosmossdk.io/errors"
	"cosmossdk.io/x/feegrant"
	abci "github.com/cometbft/cometbft/abci/types"
	sdk "github.com/cosmos/cosmos-sdk/types"
	authtypes "github.com/cosmos/cosmos-sdk/x/auth/types"
	"github.com/cosmos/cosmos-sdk/x/authz"
	"github.com/ethereum/go-ethereum/common"
	ethcrypto "github.com/ethereum/go-ethereum/crypto"

	chainapp "github.com/EscanBE/evermint/v12/app"
	"github.com/EscanBE/evermint/v12/app/params"

	"verifharness/vh"
)

const (
	mSim = iota
	mCheck
	mRecheck
	mDeliver
)

var modeName = [4]string{"simulate", "check", "recheck", "deliver"}

const slotsPerWorld = 40

type world struct {
	run       *vh.Run
	label     string
	c         *vh.Chain
	slots     []*slot
	contracts []common.Address
	qctx      *sdk.Context
}

// acct returns (sequence, account number) of an address in the committed state.
func (w *world) acct(a common.Address) (uint64, uint64) {
	if w.qctx == nil {
		q := w.c.QueryCtx()
		w.qctx = &q
	}
	if acc := w.c.App.AccountKeeper.GetAccount(*w.qctx, a.Bytes()); acc != nil {
		return acc.GetSequence(), acc.GetAccountNumber()
	}
	return 0, 0
}

var grantURLs = []string{urlEth, urlVest, urlVestPer, urlVestPerm, urlSend}

func newWorld(run *vh.Run, label string, wi int) *world {
	r := run.RNG("world", wi)
	w := &world{run: run, label: label}
	var accs []vh.GenAccount
	for i := 0; i < slotsPerWorld; i++ {
		sl := &slot{E: vh.NewAcct(r), S: vh.NewAcct(r), G: vh.NewAcct(r), P: vh.NewAcct(r)}
		w.slots = append(w.slots, sl)
		for _, a := range []*vh.Acct{sl.E, sl.S, sl.G, sl.P} {
			accs = append(accs, vh.GenAccount{Addr: a.Addr, Coins: vh.NativeCoins(1000)})
		}
	}
	w.c = vh.NewChain(vh.Config{Seed: r.U64(), NumVals: 1, Accounts: accs,
		MutateGenesis: func(enc params.EncodingConfig, gs chainapp.GenesisState) {
			// authz grants cannot be created by transaction for the disabled type URLs (the ante
			// handler refuses them), so genesis carries them: with these in place the ante
			// decorators are the only thing between a nested disabled message and its handler.
			var ag authz.GenesisState
			for _, sl := range w.slots {
				for _, u := range grantURLs {
					ag.Authorization = append(ag.Authorization, authz.GrantAuthorization{
						Granter: sl.G.Bech32(), Grantee: sl.S.Bech32(), Authorization: mustAny(authz.NewGenericAuthorization(u))})
				}
			}
			gs[authz.ModuleName] = enc.Codec.MustMarshalJSON(&ag)
			var fg feegrant.GenesisState
			for _, sl := range w.slots {
				for _, to := range []*vh.Acct{sl.E, sl.S} {
					fg.Allowances = append(fg.Allowances, feegrant.Grant{Granter: sl.G.Bech32(), Grantee: to.Bech32(), Allowance: mustAny(&feegrant.BasicAllowance{})})
				}
			}
			gs[feegrant.ModuleName] = enc.Codec.MustMarshalJSON(&fg)
		}})
	return w
}

// ---- dump readers (context-free decoding of raw store bytes) ------------------------------------

type accInfo struct {
	Exists bool
	Seq    uint64
	HasPub bool
	Type   string
}

func (w *world) accAt(d vh.Dump, a common.Address) accInfo {
	v, ok := d["acc\x00\x01"+string(a.Bytes())]
	if !ok {
		return accInfo{}
	}
	var acc sdk.AccountI
	if err := w.c.Enc.Codec.UnmarshalInterface([]byte(v), &acc); err != nil {
		return accInfo{Exists: true, Type: "undecodable"}
	}
	return accInfo{Exists: true, Seq: acc.GetSequence(), HasPub: acc.GetPubKey() != nil, Type: fmt.Sprintf("%T", acc)}
}

func bankKey(a common.Address, denom string) string {
	return "bank\x00\x02" + string([]byte{20}) + string(a.Bytes()) + denom
}

func balAt(d vh.Dump, a common.Address) *big.Int {
	v, ok := d[bankKey(a, vh.Denom)]
	if !ok {
		return new(big.Int)
	}
	b, ok := new(big.Int).SetString(v, 10)
	if !ok {
		return big.NewInt(-1)
	}
	return b
}

// ---- execution ------------------------------------------------------------------------------------

func eventTypes(evs []abci.Event) []string {
	seen := map[string]bool{}
	var out []string
	for _, e := range evs {
		if !seen[e.Type] {
			seen[e.Type] = true
			out = append(out, e.Type)
		}
	}
	sort.Strings(out)
	return out
}

func has(xs []string, s string) bool {
	for _, x := range xs {
		if x == s {
			return true
		}
	}
	return false
}

// shapeReason maps a rejection log to the shape rule that produced it (evidence only: shows that
// must-reject cases were refused because of their shape and not because the generator built
// something invalid; the verdict never depends on it).
func shapeReason(log string) string {
	for _, p := range [][2]string{
		{"not allowed to combine with other messages", "eth-combined"},
		{"cannot be mixed with Cosmos messages", "eth-mixed"},
		{"is not a valid Ethereum tx", "eth-ext-shape"},
		{"unknown extension options", "ext-options"},
		{"SignerInfos should be empty", "signer-infos"},
		{"Signatures should be empty", "signatures"},
		{"payer and granter should be empty", "payer-granter"},
		{"TimeoutHeight should be zero", "timeout"},
		{"memo should be empty", "memo"},
		{"invalid AuthInfo Fee Amount", "fee-amount"},
		{"invalid AuthInfo Fee GasLimit", "gas-limit"},
		{"not allowed to be nested message", "nested-disabled"},
		{"not allowed to grant", "grant-disabled"},
		{"nested level", "nesting-cap"},
		{"unable to resolve type URL", "undecodable-any"},
		{"wrong number of signers", "signer-count"},
		{"missing fee", "fee-missing"},
		{"tx parse error", "undecodable-any"},
		{"must prove account is external owned account", "vauth-proof"},
	} {
		if strings.Contains(log, p[0]) {
			return p[1]
		}
	}
	return ""
}

func (w *world) runBatch(r *vh.RNG, first, n int) {
	run, c := w.run, w.c
	w.qctx = nil
	cases := make([]*tcase, 0, n)
	for i := 0; i < n; i++ {
		cases = append(cases, w.gen(r, first+i, w.slots[i%len(w.slots)]))
	}
	fail := func(sig string, t *tcase, extra map[string]any) {
		d := map[string]any{"world": w.label, "case": t.Idx, "family": t.Family, "features": t.Feats, "depth": t.Depth, "note": t.Note,
			"predicate_reasons": t.V.Reasons, "eth_shaped": t.V.EthShaped, "tx_hex": fmt.Sprintf("%x", t.Tx),
			"codes":  map[string]int64{"simulate": t.Code[mSim], "check": t.Code[mCheck], "recheck": t.Code[mRecheck], "deliver": t.Code[mDeliver]},
			"logs":   map[string]string{"simulate": t.Log[mSim], "check": t.Log[mCheck], "recheck": t.Log[mRecheck], "deliver": t.Log[mDeliver]},
			"height": c.Height}
		for k, v := range extra {
			d[k] = v
		}
		run.Violation(sig, w.label, d)
	}
	guard := func(what string, t *tcase, f func()) {
		defer func() {
			if rec := recover(); rec != nil {
				var tt *tcase = t
				if tt == nil {
					tt = cases[0]
				}
				fail("panic-escaped:"+what, tt, map[string]any{"panic": fmt.Sprint(rec)})
			}
		}()
		f()
	}
	// 1. Simulate (on a branch of the check state: nothing persists)
	for _, t := range cases {
		t := t
		guard("simulate", t, func() {
			_, res, err := c.App.Simulate(t.Tx)
			if err != nil {
				_, code, log := errABCI(err)
				t.Code[mSim], t.Log[mSim] = int64(code), log
			} else {
				t.Code[mSim] = 0
				t.Events[mSim] = eventTypes(res.Events)
			}
		})
	}
	// 2. CheckTx (new)
	for _, t := range cases {
		t := t
		guard("check", t, func() {
			res, err := c.App.CheckTx(&abci.RequestCheckTx{Tx: t.Tx, Type: abci.CheckTxType_New})
			if err != nil {
				t.Code[mCheck], t.Log[mCheck] = 1, err.Error()
				return
			}
			t.Code[mCheck], t.Log[mCheck] = int64(res.Code), res.Log
			t.Events[mCheck] = eventTypes(res.Events)
		})
	}
	// 3. a block goes by without them (commit resets the check state), then CometBFT re-checks what it kept
	if br := c.NextBlock(nil, nil); br.Err != nil {
		fail("finalize-block-error", cases[0], map[string]any{"err": br.Err.Error()})
		return
	}
	for _, t := range cases {
		if t.Code[mCheck] != 0 {
			continue
		}
		t := t
		guard("recheck", t, func() {
			res, err := c.App.CheckTx(&abci.RequestCheckTx{Tx: t.Tx, Type: abci.CheckTxType_Recheck})
			if err != nil {
				t.Code[mRecheck], t.Log[mRecheck] = 1, err.Error()
				return
			}
			t.Code[mRecheck], t.Log[mRecheck] = int64(res.Code), res.Log
			t.Events[mRecheck] = eventTypes(res.Events)
		})
	}
	// 3b. re-check mode for what CheckTx refused (after the real re-checks, so that the check state they saw is
	// the one a node would have): decided for must-reject shapes only
	for _, t := range cases {
		if t.Code[mCheck] <= 0 {
			continue
		}
		t := t
		guard("recheck-unadmitted", t, func() {
			res, err := c.App.CheckTx(&abci.RequestCheckTx{Tx: t.Tx, Type: abci.CheckTxType_Recheck})
			if err != nil {
				t.CodeRU, t.LogRU = 1, err.Error()
				return
			}
			t.CodeRU, t.LogRU = int64(res.Code), res.Log
		})
	}
	// 4. proposal handlers (crash-freedom only)
	txs := make([][]byte, len(cases))
	for i, t := range cases {
		txs[i] = t.Tx
	}
	guard("prepare-proposal", nil, func() {
		vals := c.CurrentValidators()
		_, err := c.App.PrepareProposal(&abci.RequestPrepareProposal{Txs: txs, MaxTxBytes: 4_000_000, Height: c.Height + 1,
			Time: c.Time.Add(c.Cfg.BlockStep), ProposerAddress: vals[0].Address})
		if err != nil {
			run.Count("prepare_proposal_errors", 1)
		}
		run.Count("prepare_proposal_calls", 1)
	})
	guard("process-proposal", nil, func() {
		vals := c.CurrentValidators()
		res, err := c.App.ProcessProposal(&abci.RequestProcessProposal{Txs: txs, Height: c.Height + 1,
			Time: c.Time.Add(c.Cfg.BlockStep), ProposerAddress: vals[0].Address, Hash: []byte("verif-c07-proposal-hash-000000000")})
		if err != nil {
			run.Count("process_proposal_errors", 1)
		} else if res.Status == abci.ResponseProcessProposal_REJECT {
			run.Count("process_proposal_rejects", 1)
		}
		run.Count("process_proposal_calls", 1)
	})
	// 5. FinalizeBlock with the tx-boundary observer: full store dump + EVM transient stores per boundary
	var ob *vh.ObservedBlock
	guard("deliver", nil, func() {
		ob = c.RunObserved(txs, nil, func(ctx sdk.Context) any { return c.DumpTransient(ctx) }, true)
	})
	if ob == nil {
		return
	}
	if ob.Err != nil {
		fail("finalize-block-error", cases[0], map[string]any{"err": ob.Err.Error()})
		return
	}
	for i, t := range cases {
		res := ob.Res.TxResults[i]
		t.Code[mDeliver], t.Log[mDeliver] = int64(res.Code), res.Log
		t.Events[mDeliver] = eventTypes(res.Events)
		w.judge(t, ob, i, fail)
	}
}

// errABCI maps an error to (codespace, code, log) the way baseapp does for CheckTx / FinalizeBlock results.
func errABCI(err error) (string, uint32, string) { return errorsmod.ABCIInfo(err, false) }

var feeCollector = common.BytesToAddress(authtypes.NewModuleAddress(authtypes.FeeCollectorName))

// judge applies the verdicts to one case after all modes ran.
func (w *world) judge(t *tcase, ob *vh.ObservedBlock, i int, fail func(string, *tcase, map[string]any)) {
	run := w.run
	run.Eval(1)
	v := t.V
	class := "may-accept"
	if v.MustReject {
		class = "must-reject"
	}
	run.Count("shapes_"+class, 1)
	run.Count("family_"+t.Family, 1)
	run.Distinct("families", t.Family)
	for _, rs := range v.Reasons {
		run.Count("reason_"+rs, 1)
	}
	if v.MaxDepth > 0 {
		run.Count(fmt.Sprintf("nesting_depth_%d", v.MaxDepth), 1)
		run.Max("deepest_nesting", int64(v.MaxDepth))
		if v.DisabledAt > 0 {
			run.Max("deepest_disabled_nesting", int64(v.DisabledAt))
			run.Count(fmt.Sprintf("disabled_msg_at_depth_%d", v.DisabledAt), 1)
		}
	}
	pre, post := ob.Pre[i], ob.Post[i]
	diff := vh.Diff(pre.Dump, post.Dump)
	tdiff := vh.Diff(pre.View.(vh.Dump), post.View.(vh.Dump))
	if ob.PostIsEndBlock[i] {
		diff, tdiff = nil, nil
		run.Count("post_state_after_endblock_skipped", 1)
	}
	wit := func(extra map[string]any) map[string]any {
		m := map[string]any{"write_set": vh.ChangeStrings(diff), "transient_write_set": vh.ChangeStrings(tdiff), "deliver_events": t.Events[mDeliver]}
		for k, x := range extra {
			m[k] = x
		}
		return m
	}
	for m := 0; m < 4; m++ {
		if t.Code[m] < 0 {
			continue
		}
		out := "reject"
		if t.Code[m] == 0 {
			out = "accept"
		}
		run.Count(fmt.Sprintf("matrix_%s_%s_%s", modeName[m], class, out), 1)
	}

	if v.MustReject {
		// (V1) acceptance in any mode
		for m := 0; m < 4; m++ {
			if t.Code[m] == 0 {
				fail("must-reject-accepted:"+v.Class()+":mode="+modeName[m], t, wit(nil))
			}
		}
		// The envelope rules of 03_validate_basic (signatures, signer infos, fee payer / granter, fee and gas equal to
		// the embedded transaction) are stateless validation, which the tree - like the SDK's ValidateBasicDecorator -
		// deliberately does not repeat on re-check; a node never re-checks what it did not admit, so a shape whose
		// only defects are of that kind is not judged here. Every other rule is its own decorator and holds in every mode.
		statelessOnly := true
		for _, rs := range v.Reasons {
			switch rs {
			case "ethshape-signatures", "ethshape-signer-infos", "ethshape-payer", "ethshape-granter", "ethshape-fee-mismatch", "ethshape-gas-mismatch":
			default:
				statelessOnly = false
			}
		}
		if statelessOnly {
			run.Count("recheck_of_unadmitted_not_judged_stateless_envelope_rules_only", 1)
		} else if t.CodeRU == 0 {
			fail("must-reject-accepted:"+v.Class()+":mode=recheck-of-unadmitted", t, wit(map[string]any{"check_log": t.Log[mCheck]}))
		} else if t.CodeRU > 0 {
			run.Count("must_reject_refused_in_recheck_mode_too", 1)
		}
		// evidence of non-vacuity: refused because of the shape
		attributed := false
		for _, m := range []int{mCheck, mDeliver, mSim} {
			if t.Code[m] > 0 {
				if sr := shapeReason(t.Log[m]); sr != "" {
					run.Count("reject_attributed_"+modeName[m], 1)
					run.Distinct("reject_shape_rules", sr)
					if m == mCheck {
						attributed = true
					}
				} else {
					run.Count("reject_unattributed_"+modeName[m], 1)
					run.Distinct("unattributed_logs", trunc(t.Log[m], 90))
				}
			}
		}
		if attributed {
			run.Nontrivial("reject|" + t.key())
			run.Distinct("must_reject_classes", v.Class())
		}
		// (V2) a delivered must-reject transaction that "failed" but left traces of an inner handler or
		// of the other lane (an accepted one is already reported by V1 with its write set as witness)
		if t.Code[mDeliver] != 0 {
			w.handlerTraces(t, pre, post, diff, tdiff, fail, wit)
		}
		if t.Idx%97 == 0 {
			run.Sample(map[string]any{"family": t.Family, "features": t.Feats, "depth": t.Depth, "reasons": v.Reasons,
				"check": t.Log[mCheck], "deliver_code": t.Code[mDeliver], "writes": len(diff)})
		}
		return
	}

	// may-accept: count acceptance (coverage floor) and check "exactly one lane" for what was accepted
	allOK := t.Code[mSim] == 0 && t.Code[mCheck] == 0 && t.Code[mRecheck] == 0 && t.Code[mDeliver] == 0
	if allOK {
		run.Count("accepted_in_all_modes", 1)
		run.Count("accepted_in_all_modes_"+t.Family, 1)
		run.Nontrivial("accept|" + t.key())
	} else {
		for m := 0; m < 4; m++ {
			if t.Code[m] > 0 {
				run.Distinct("may_accept_reject_logs", t.Family+":"+modeName[m]+":"+trunc(t.Log[m], 70))
				break
			}
		}
	}
	for m := 0; m < 4; m++ {
		if t.Code[m] != 0 {
			continue
		}
		ev := t.Events[m]
		if v.EthShaped {
			// CheckTx responses carry no ante events in SDK 0.50 (only Simulate / FinalizeBlock results do)
			if (m == mDeliver || m == mSim) && !has(ev, "ethereum_tx") {
				fail("eth-lane-accepted-without-ethereum_tx-event:mode="+modeName[m], t, wit(nil))
			}
			if (m == mDeliver || m == mSim) && !has(ev, "tx_receipt") {
				fail("eth-lane-accepted-without-receipt:mode="+modeName[m], t, wit(nil))
			}
		} else if has(ev, "ethereum_tx") || has(ev, "tx_receipt") {
			fail("cosmos-lane-accepted-with-evm-events:mode="+modeName[m], t, wit(nil))
		}
	}
	if t.Code[mDeliver] != 0 || ob.PostIsEndBlock[i] {
		return
	}
	if v.EthShaped {
		from := t.EthFrom[0]
		a0, a1 := w.accAt(pre.Dump, from), w.accAt(post.Dump, from)
		if a1.Seq != a0.Seq+1 {
			fail("eth-lane-sequence-not-incremented-exactly-once", t, wit(map[string]any{"seq_before": a0.Seq, "seq_after": a1.Seq}))
		}
		if a1.HasPub && !a0.HasPub {
			fail("eth-lane-cosmos-signature-processing:pubkey-set", t, wit(nil))
		}
		if len(tdiff) == 0 {
			fail("eth-lane-no-evm-transient-effects", t, wit(nil))
		}
		run.Count("one_lane_checked_eth", 1)
		// remember created contracts for later call shapes
		if rc, _ := vh.ReceiptOf(ob.Res.TxResults[i]); rc != nil && rc.Status == 1 && len(t.Fresh) == 0 {
			if tx := v.EthTxs[0]; tx.To() == nil {
				w.contracts = append(w.contracts, ethcrypto.CreateAddress(from, tx.Nonce()))
			}
		}
	} else {
		if len(tdiff) != 0 {
			fail("cosmos-lane-evm-transient-effects", t, wit(nil))
		}
		for _, ch := range diff {
			if ch.Store == "evm" {
				fail("cosmos-lane-evm-store-write", t, wit(nil))
				break
			}
		}
		for k, sg := range t.Signers {
			a0, a1 := w.accAt(pre.Dump, sg), w.accAt(post.Dump, sg)
			if a1.Seq != a0.Seq+1 {
				fail("cosmos-lane-signer-sequence-not-incremented-exactly-once", t, wit(map[string]any{"signer": sg.Hex(), "seq_before": a0.Seq, "seq_after": a1.Seq}))
			}
			if k == 0 && !a1.HasPub {
				fail("cosmos-lane-no-signature-processing:pubkey-missing", t, wit(map[string]any{"signer": sg.Hex()}))
			}
		}
		run.Count("one_lane_checked_cosmos", 1)
	}
	if t.Idx%61 == 0 {
		run.Sample(map[string]any{"family": t.Family, "features": t.Feats, "depth": t.Depth, "accepted": "all modes", "events": t.Events[mDeliver], "writes": len(diff)})
	}
}

// handlerTraces looks, for a must-reject transaction that was delivered, for anything only an
// inner message handler (or the wrong lane) could have produced.
func (w *world) handlerTraces(t *tcase, pre, post *vh.Snap, diff, tdiff []vh.Change, fail func(string, *tcase, map[string]any), wit func(map[string]any) map[string]any) {
	v := t.V
	ev := t.Events[mDeliver]
	cls := v.Class()
	if !v.EthShaped {
		// Cosmos-shaped: no EVM execution may show
		if has(ev, "ethereum_tx") || has(ev, "tx_receipt") {
			fail("must-reject-inner-handler-ran:"+cls+":evm-events", t, wit(nil))
		}
		if len(tdiff) != 0 {
			fail("must-reject-inner-handler-ran:"+cls+":evm-transient", t, wit(nil))
		}
	} else {
		// Ethereum-shaped but unclean: no SDK signature processing may show
		for _, a := range append(append(append([]common.Address{}, t.EthFrom...), t.Signers...), t.Payers...) {
			if a0, a1 := w.accAt(pre.Dump, a), w.accAt(post.Dump, a); a1.HasPub && !a0.HasPub {
				fail("must-reject-other-lane-ran:"+cls+":pubkey-set", t, wit(map[string]any{"account": a.Hex()}))
			}
		}
		if has(ev, "tx_receipt") {
			fail("must-reject-inner-handler-ran:"+cls+":receipt", t, wit(nil))
		}
	}
	allowed := map[string]bool{}
	for _, a := range append(append([]common.Address{}, t.Signers...), t.Payers...) {
		allowed[string(a.Bytes())] = true
	}
	for _, a := range t.EthFrom {
		if v.EthShaped {
			allowed[string(a.Bytes())] = true // fee payer of an Ethereum-shaped envelope
		}
	}
	allowed[string(feeCollector.Bytes())] = true
	for _, ch := range diff {
		ok := false
		switch ch.Store {
		case "acc":
			if len(ch.Key) == 21 && ch.Key[0] == 0x01 {
				ok = allowed[string(ch.Key[1:])]
			} else {
				ok = true // account-number counter (first use of a module account)
			}
		case "bank":
			if len(ch.Key) > 22 && ch.Key[0] == 0x02 && ch.Key[1] == 20 {
				ok = allowed[string(ch.Key[2:22])]
			} else if len(ch.Key) > 0 && ch.Key[0] == 0x03 { // denom -> address index
				ok = len(ch.Key) >= 21 && allowed[string(ch.Key[len(ch.Key)-20:])] || indexKeyAllowed(ch.Key, allowed)
			}
		case "feegrant":
			ok = true // allowance bookkeeping of a named fee granter
		}
		if !ok {
			fail("must-reject-side-effect:"+cls+":store="+ch.Store, t, wit(map[string]any{"key": fmt.Sprintf("%x", ch.Key)}))
			break
		}
	}
	for _, a := range t.Fresh {
		if w.accAt(post.Dump, a).Exists || balAt(post.Dump, a).Sign() != 0 {
			fail("must-reject-inner-handler-ran:"+cls+":fresh-address-touched", t, wit(map[string]any{"address": a.Hex()}))
		}
	}
}

func indexKeyAllowed(key []byte, allowed map[string]bool) bool {
	for a := range allowed {
		if bytes.Contains(key, []byte(a)) {
			return true
		}
	}
	return false
}

func trunc(s string, n int) string {
	if len(s) > n {
		return s[:n]
	}
	return s
}

// Run is the entry point of the C07 monitor.
func Run(run *vh.Run) {
	total := run.N(1200, 30000)
	nWorlds := 4
	if run.Thorough() {
		nWorlds = 16
	}
	per := (total + nWorlds - 1) / nWorlds
	var wg sync.WaitGroup
	sem := make(chan struct{}, 8)
	for wi := 0; wi < nWorlds; wi++ {
		label := fmt.Sprintf("world-%d", wi)
		if !run.WantCase(label) {
			continue
		}
		wg.Add(1)
		go func(wi int, label string) {
			defer wg.Done()
			sem <- struct{}{}
			defer func() { <-sem }()
			w := newWorld(run, label, wi)
			defer w.c.Cleanup()
			r := run.RNG("shapes", wi)
			for done := 0; done < per; done += slotsPerWorld {
				n := slotsPerWorld
				if per-done < n {
					n = per - done
				}
				w.runBatch(r, wi*per+done, n)
			}
		}(wi, label)
	}
	wg.Wait()

	run.Rule = "Product generator on the real application: transaction shapes (raw protobuf envelopes: clean Ethereum tx; Ethereum-shaped with 1-3 of 30 envelope defects; Ethereum message beside other messages; Ethereum / vesting-creation message inside authz exec at depth 1-6, granted through genesis grants or self-exec; grants of generic authorisations for the disabled type URLs top-level, beside and inside exec; ordinary Cosmos txs incl. exec of allowed messages, fee payer / granter, extension options) x modes (Simulate, CheckTx new, CheckTx recheck for what CheckTx accepted, FinalizeBlock under the tx-boundary observer; Prepare/ProcessProposal for crash-freedom). Every case is otherwise valid (real Ethereum and SIGN_MODE_DIRECT signatures, committed nonces/sequences, fee >= 2 x base fee). The must-reject set is decided by a reference predicate written from the property and evaluated on the raw tx bytes. Non-trivial = distinct (family, feature set, depth) classes that were either rejected by CheckTx with a log attributable to a shape rule (must-reject) or accepted in all four modes (may-accept)."
	run.Assumptions = append(run.Assumptions,
		"nesting vehicles other than authz exec (governance proposals that pass, interchain-accounts host packets) are not driven",
		"authz and fee grants are placed in genesis because the disabled grants cannot be created by transaction",
		"rejection logs are used only to attribute rejections to shape rules in the evidence, never for a verdict",
		"acceptance = result code 0; over-rejection (e.g. allowed messages nested beyond the depth cap) is not a violation of this property")
	q := func(a, b int) int64 { return int64(run.N(a, b)) }
	run.Floor("must-reject shapes evaluated", run.Get("shapes_must-reject"), q(400, 10000))
	run.Floor("must-reject shapes refused by CheckTx for a shape rule", run.Get("reject_attributed_check"), q(350, 9000))
	run.Floor("may-accept shapes accepted in all four modes", run.Get("accepted_in_all_modes"), q(100, 2500))
	run.Floor("clean Ethereum txs accepted in all four modes", run.Get("accepted_in_all_modes_eth-clean"), q(30, 800))
	run.Floor("exec of allowed messages accepted in all four modes", run.Get("accepted_in_all_modes_exec-ok"), q(15, 400))
	run.Floor("distinct must-reject reason classes", int64(run.DistinctN("must_reject_classes")), 25)
	run.Floor("deepest nesting of a disabled message", run.Get("deepest_disabled_nesting"), 6)
	run.Floor("exactly-one-lane checks on delivered accepted txs", run.Get("one_lane_checked_eth")+run.Get("one_lane_checked_cosmos"), q(100, 2500))
}
