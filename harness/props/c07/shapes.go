package c07

// shapes.go: the shape generator. Every case is built for one "slot" of four genesis accounts
//
//	E  Ethereum sender (also Cosmos signer where a shape needs the Ethereum sender to sign)
//	S  Cosmos signer; grantee of G's genesis authz grants; fee-grantee of G
//	G  granter: genesis GenericAuthorization grants to S for MsgEthereumTx, the three
//	   vesting-creation messages and MsgSend; genesis fee allowances to E and S
//	P  spare funded account (fee payer, grantee of newly created grants)
//
// so that all transactions of one batch (one per slot) are independent of each other.

import (
	"fmt"
	"math/big"
	"sort"
	"strings"
	"time"

	sdkmath "cosmossdk.io/math"
	codectypes "github.com/cosmos/cosmos-sdk/codec/types"
	sdk "github.com/cosmos/cosmos-sdk/types"
	txtypes "github.com/cosmos/cosmos-sdk/types/tx"
	vestingtypes "github.com/cosmos/cosmos-sdk/x/auth/vesting/types"
	"github.com/cosmos/cosmos-sdk/x/authz"
	banktypes "github.com/cosmos/cosmos-sdk/x/bank/types"
	"github.com/ethereum/go-ethereum/common"
	ethtypes "github.com/ethereum/go-ethereum/core/types"

	evertypes "github.com/EscanBE/evermint/v12/types"
	evmtypes "github.com/EscanBE/evermint/v12/x/evm/types"

	"verifharness/vh"
)

type slot struct{ E, S, G, P *vh.Acct }

// smsg is a message together with the account that has to sign for it.
type smsg struct {
	M sdk.Msg
	A *vh.Acct
}

// tcase is one generated transaction shape.
type tcase struct {
	Idx     int
	Family  string
	Feats   []string
	Depth   int // exec nesting depth of the innermost message (0 = none)
	Tx      []byte
	Note    map[string]any
	Signers []common.Address    // accounts that signed as Cosmos signers
	Payers  []common.Address    // accounts named as fee payer / fee granter without signing
	EthFrom []common.Address    // senders of embedded Ethereum transactions
	Fresh   []common.Address    // addresses that only exist if an inner handler ran (recipients, vesting targets)
	Grants  [][2]common.Address // (granter, grantee) of grants the tx tries to create
	V       *laneVerdict
	Code    [4]int64 // per mode: -1 not run, else result code
	// re-check of a transaction CheckTx (new) had refused: -1 not run. A node only re-checks what it admitted, but
	// the ante handler is one function of (tx, mode) and the property quantifies over the product.
	CodeRU int64
	LogRU  string
	Log     [4]string
	Events  [4][]string
}

func (t *tcase) key() string {
	return t.Family + "|" + strings.Join(t.Feats, ",") + fmt.Sprintf("|d%d", t.Depth)
}

func (t *tcase) feat(f string) { t.Feats = append(t.Feats, f) }

// gen state shared by the builders of one case
type genCtx struct {
	w          *world
	r          *vh.RNG
	sl         *slot
	t          *tcase
	bf         *big.Int
	now        time.Time
	ht         int64
	nonceUsed  map[common.Address]uint64 // extra nonces consumed inside this case
	feeTouched bool
}

func (g *genCtx) fresh() common.Address {
	a := common.BytesToAddress(g.r.Bytes(20))
	g.t.Fresh = append(g.t.Fresh, a)
	return a
}

func (g *genCtx) send(from *vh.Acct) smsg {
	to := g.fresh()
	amt := sdk.NewCoins(sdk.NewCoin(vh.Denom, sdkmath.NewInt(int64(1+g.r.Intn(1_000_000)))))
	return smsg{M: banktypes.NewMsgSend(from.Acc(), to.Bytes(), amt), A: from}
}

// ethTx builds and signs an Ethereum transaction of a random type / action from `from`.
func (g *genCtx) ethTx(from *vh.Acct) (*ethtypes.Transaction, string) {
	seq, _ := g.w.acct(from.Addr)
	nonce := seq + g.nonceUsed[from.Addr]
	g.nonceUsed[from.Addr]++
	price := new(big.Int).Mul(g.bf, big.NewInt(int64(2+g.r.Intn(3))))
	var to *common.Address
	var data []byte
	value := big.NewInt(int64(g.r.Intn(1_000_000)))
	gas := uint64(21000)
	action := "transfer"
	switch k := g.r.Intn(10); {
	case k < 5:
		a := g.fresh()
		to = &a
		gas = uint64(vh.Pick(g.r, []int{21000, 21001, 30000, 100000}))
	case k < 7:
		action = "create"
		rt := vh.NewAsm().SStore(uint64(g.r.Intn(4)), uint64(1+g.r.Intn(1000))).Log(uint64(g.r.Intn(100)), 7).Bytes()
		data = vh.Deployer(rt)
		gas = uint64(vh.Pick(g.r, []int{150000, 300000}))
		value = new(big.Int)
	default:
		if len(g.w.contracts) == 0 {
			a := g.fresh()
			to = &a
			gas = 25000
		} else {
			action = "call"
			a := vh.Pick(g.r, g.w.contracts)
			to = &a
			data = g.r.Bytes(vh.Pick(g.r, []int{0, 4, 36}))
			gas = uint64(vh.Pick(g.r, []int{60000, 120000}))
			value = new(big.Int)
		}
	}
	var txd ethtypes.TxData
	typ := g.r.Intn(3)
	switch typ {
	case 0:
		txd = vh.LegacyTx(nonce, to, value, gas, price, data)
	case 1:
		txd = &ethtypes.AccessListTx{ChainID: big.NewInt(vh.EIP155ID), Nonce: nonce, To: to, Value: value, Gas: gas, GasPrice: price, Data: data}
	default:
		tip := big.NewInt(int64(g.r.Intn(1000)))
		txd = vh.DynTx(nonce, to, value, gas, price, tip, data, nil)
	}
	tx := vh.SignEth(from, txd)
	g.t.EthFrom = append(g.t.EthFrom, from.Addr)
	return tx, fmt.Sprintf("t%d-%s", typ, action)
}

func (g *genCtx) ethMsg(from *vh.Acct) (smsg, *ethtypes.Transaction, string) {
	tx, kind := g.ethTx(from)
	bin, err := tx.MarshalBinary()
	if err != nil {
		panic(err)
	}
	return smsg{M: &evmtypes.MsgEthereumTx{MarshalledTx: bin, From: from.Bech32()}, A: from}, tx, kind
}

func (g *genCtx) vestingMsg(from *vh.Acct) (smsg, string) {
	to := g.fresh()
	amt := sdk.NewCoins(sdk.NewCoin(vh.Denom, sdkmath.NewInt(int64(1000+g.r.Intn(1_000_000)))))
	end := g.now.Unix() + int64(3600+g.r.Intn(100000))
	switch g.r.Intn(3) {
	case 0:
		return smsg{M: vestingtypes.NewMsgCreateVestingAccount(from.Acc(), to.Bytes(), amt, end, g.r.Bool()), A: from}, "vest"
	case 1:
		return smsg{M: vestingtypes.NewMsgCreatePeriodicVestingAccount(from.Acc(), to.Bytes(), g.now.Unix(),
			[]vestingtypes.Period{{Length: int64(100 + g.r.Intn(1000)), Amount: amt}}), A: from}, "vest-periodic"
	default:
		return smsg{M: vestingtypes.NewMsgCreatePermanentLockedAccount(from.Acc(), to.Bytes(), amt), A: from}, "vest-permlock"
	}
}

func (g *genCtx) grantMsg(granter, grantee *vh.Acct, url string) smsg {
	var exp *time.Time
	if g.r.Bool() {
		e := g.now.Add(time.Duration(1+g.r.Intn(1000)) * time.Hour)
		exp = &e
	}
	m, err := authz.NewMsgGrant(granter.Acc(), grantee.Acc(), authz.NewGenericAuthorization(url), exp)
	if err != nil {
		panic(err)
	}
	g.t.Grants = append(g.t.Grants, [2]common.Address{granter.Addr, grantee.Addr})
	return smsg{M: m, A: granter}
}

// wrapExec nests inner inside depth exec messages, all with the same grantee.
func wrapExec(grantee *vh.Acct, inner []sdk.Msg, depth int) smsg {
	cur := inner
	var m authz.MsgExec
	for i := 0; i < depth; i++ {
		m = authz.NewMsgExec(grantee.Acc(), cur)
		mm := m
		cur = []sdk.Msg{&mm}
	}
	return smsg{M: cur[0], A: grantee}
}

func msgsOf(ms []smsg) []sdk.Msg {
	out := make([]sdk.Msg, len(ms))
	for i, m := range ms {
		out[i] = m.M
	}
	return out
}

// cosmosEnvelope builds a fully valid Cosmos-lane envelope around msgs: every distinct message
// signer (plus the payer, if any) signs in SIGN_MODE_DIRECT; fee = gas x 2 x base fee.
func (g *genCtx) cosmosEnvelope(ms []smsg, gas uint64) *rawTx {
	rt := &rawTx{Msgs: msgsOf(ms), Gas: gas}
	rt.Fee = sdk.NewCoins(sdk.NewCoin(vh.Denom, sdkmath.NewIntFromBigInt(new(big.Int).Mul(new(big.Int).Mul(g.bf, big.NewInt(2)), new(big.Int).SetUint64(gas)))))
	seen := map[common.Address]bool{}
	for _, m := range ms {
		if seen[m.A.Addr] {
			continue
		}
		seen[m.A.Addr] = true
		g.addSigner(rt, m.A, true, true)
	}
	return rt
}

func (g *genCtx) addSigner(rt *rawTx, a *vh.Acct, info, sig bool) {
	seq, num := g.w.acct(a.Addr)
	rt.Signers = append(rt.Signers, &signerSpec{A: a, Seq: seq, AccNum: num, Info: info, Sig: sig})
	g.t.Signers = append(g.t.Signers, a.Addr)
}

func extEth() *codectypes.Any { return mustAny(&evmtypes.ExtensionOptionsEthereumTx{}) }
func extDyn(tip int64) *codectypes.Any {
	return mustAny(&evertypes.ExtensionOptionDynamicFeeTx{MaxPriorityPrice: sdkmath.NewInt(tip)})
}
func extUnknown(r *vh.RNG) *codectypes.Any {
	return &codectypes.Any{TypeUrl: "/verif.v1.UnknownExtension", Value: r.Bytes(1 + r.Intn(16))}
}

// ethEnvelope is the canonical clean envelope of one signed Ethereum transaction.
func ethEnvelope(m smsg, tx *ethtypes.Transaction, withExt bool) *rawTx {
	rt := &rawTx{Msgs: []sdk.Msg{m.M}, Gas: tx.Gas()}
	fee := new(big.Int).Mul(tx.GasPrice(), new(big.Int).SetUint64(tx.Gas()))
	rt.Fee = sdk.Coins{sdk.NewCoin(vh.Denom, sdkmath.NewIntFromBigInt(fee))}
	if withExt {
		rt.ExtOpts = []*codectypes.Any{extEth()}
	}
	return rt
}

var ethDefectGroups = [][]string{
	{"sig+info", "info-only", "sig-only", "sig-other"},
	{"payer", "payer-signed"},
	{"granter"},
	{"memo"},
	{"timeout"},
	{"ext-dup", "ext-dynfee", "ext-eth+dynfee", "ext-dynfee+eth", "ext-unknown", "ext-eth+unknown"},
	{"noncrit-eth", "noncrit-dynfee", "noncrit-unknown"},
	{"fee+1", "fee-1", "feex2", "fee-empty", "fee-denom", "fee-two", "fee-nil"},
	{"gas+1", "gas-1", "gasx2", "gas+fee-rescaled"},
}

func (g *genCtx) applyEthDefect(rt *rawTx, tx *ethtypes.Transaction, d string) {
	sl := g.sl
	fee := sdkmath.NewIntFromBigInt(new(big.Int).Mul(tx.GasPrice(), new(big.Int).SetUint64(tx.Gas())))
	if strings.HasPrefix(d, "fee") {
		g.feeTouched = true
	}
	switch d {
	case "sig+info":
		g.addSigner(rt, sl.E, true, true)
	case "info-only":
		g.addSigner(rt, sl.E, true, false)
	case "sig-only":
		g.addSigner(rt, sl.E, false, true)
	case "sig-other":
		g.addSigner(rt, sl.S, true, true)
	case "payer":
		rt.Payer = sl.P.Bech32()
		g.t.Payers = append(g.t.Payers, sl.P.Addr)
	case "payer-signed":
		rt.Payer = sl.P.Bech32()
		if len(rt.Signers) == 0 {
			g.addSigner(rt, sl.E, true, true)
		}
		g.addSigner(rt, sl.P, true, true)
	case "granter":
		rt.Granter = sl.G.Bech32()
		g.t.Payers = append(g.t.Payers, sl.G.Addr)
	case "memo":
		rt.Memo = string(vh.Pick(g.r, []string{"x", "memo", " ", "\x00", strings.Repeat("m", 1+g.r.Intn(200))}))
	case "timeout":
		rt.Timeout = uint64(g.ht + 5 + int64(g.r.Intn(1000)))
		if g.r.Chance(1, 3) { // the field is a uint64: values around the signed range and at the top
			rt.Timeout = vh.Pick(g.r, []uint64{1, 1 << 62, 1<<63 - 1, 1 << 63, 1<<63 + uint64(g.ht), 1<<64 - 1, 1<<64 - 2})
		}
	case "ext-dup":
		rt.ExtOpts = []*codectypes.Any{extEth(), extEth()}
	case "ext-dynfee":
		rt.ExtOpts = []*codectypes.Any{extDyn(int64(g.r.Intn(100)))}
	case "ext-eth+dynfee":
		rt.ExtOpts = []*codectypes.Any{extEth(), extDyn(int64(g.r.Intn(100)))}
	case "ext-dynfee+eth":
		rt.ExtOpts = []*codectypes.Any{extDyn(int64(g.r.Intn(100))), extEth()}
	case "ext-unknown":
		rt.ExtOpts = []*codectypes.Any{extUnknown(g.r)}
	case "ext-eth+unknown":
		rt.ExtOpts = []*codectypes.Any{extEth(), extUnknown(g.r)}
	case "noncrit-eth":
		rt.NonCrit = []*codectypes.Any{extEth()}
	case "noncrit-dynfee":
		rt.NonCrit = []*codectypes.Any{extDyn(int64(g.r.Intn(100)))}
	case "noncrit-unknown":
		rt.NonCrit = []*codectypes.Any{extUnknown(g.r)}
	case "fee+1":
		rt.Fee = sdk.Coins{sdk.NewCoin(vh.Denom, fee.AddRaw(1))}
	case "fee-1":
		rt.Fee = sdk.Coins{sdk.NewCoin(vh.Denom, fee.SubRaw(1))}
	case "feex2":
		rt.Fee = sdk.Coins{sdk.NewCoin(vh.Denom, fee.MulRaw(2))}
	case "fee-empty":
		rt.Fee = sdk.Coins{}
	case "fee-nil":
		rt.NoAuthFee = true
	case "fee-denom":
		rt.Fee = sdk.Coins{sdk.NewCoin(vh.SecondDenom, fee)}
	case "fee-two":
		rt.Fee = sdk.Coins{sdk.NewCoin(vh.SecondDenom, sdkmath.NewInt(1)), sdk.NewCoin(vh.Denom, fee)}
	case "gas+1":
		rt.Gas = tx.Gas() + 1
	case "gas-1":
		rt.Gas = tx.Gas() - 1
	case "gasx2":
		rt.Gas = tx.Gas() * 2
	case "gas+fee-rescaled": // declared gas and fee consistent with each other but not with the embedded tx
		rt.Gas = tx.Gas() + 1000
		if g.feeTouched {
			break
		}
		rt.Fee = sdk.Coins{sdk.NewCoin(vh.Denom, sdkmath.NewIntFromBigInt(new(big.Int).Mul(tx.GasPrice(), new(big.Int).SetUint64(rt.Gas))))}
	default:
		panic("unknown defect " + d)
	}
}

// gen builds case idx for slot sl.
func (w *world) gen(r *vh.RNG, idx int, sl *slot) *tcase {
	t := &tcase{Idx: idx, Note: map[string]any{}}
	for i := range t.Code {
		t.Code[i] = -1
		t.CodeRU = -1
	}
	g := &genCtx{w: w, r: r, sl: sl, t: t, bf: w.c.BaseFee(), now: w.c.Time, ht: w.c.Height, nonceUsed: map[common.Address]uint64{}}
	var rt *rawTx
	switch k := r.Intn(100); {
	case k < 10: // clean Ethereum transaction
		t.Family = "eth-clean"
		m, tx, kind := g.ethMsg(sl.E)
		withExt := !r.Chance(1, 4)
		rt = ethEnvelope(m, tx, withExt)
		t.feat(kind)
		if !withExt {
			t.feat("no-ext")
		}
	case k < 13: // Ethereum-shaped with a tip (not mentioned by the property: no expectation)
		t.Family = "eth-tip"
		m, tx, kind := g.ethMsg(sl.E)
		rt = ethEnvelope(m, tx, true)
		rt.Tip = &txtypes.Tip{Amount: sdk.NewCoins(sdk.NewCoin(vh.Denom, sdkmath.NewInt(1))), Tipper: sl.S.Bech32()}
		t.feat(kind)
	case k < 43: // Ethereum-shaped with 1..3 defects
		t.Family = "eth-defect"
		m, tx, kind := g.ethMsg(sl.E)
		rt = ethEnvelope(m, tx, !r.Chance(1, 6))
		n := 1
		if r.Chance(3, 10) {
			n = 2
		}
		if r.Chance(1, 10) {
			n = 3
		}
		order := make([]int, len(ethDefectGroups))
		for i := range order {
			order[i] = i
		}
		vh.Shuffle(r, order)
		for _, gi := range order[:n] {
			d := vh.Pick(r, ethDefectGroups[gi])
			g.applyEthDefect(rt, tx, d)
			t.feat(d)
		}
		sort.Strings(t.Feats)
		t.Note["eth"] = kind
	case k < 53: // Ethereum message beside other messages
		t.Family = "eth-beside"
		var ms []smsg
		v := r.Intn(7)
		switch v {
		case 0:
			m, _, _ := g.ethMsg(sl.E)
			ms = []smsg{m, g.send(sl.S)}
		case 1:
			m, _, _ := g.ethMsg(sl.E)
			ms = []smsg{g.send(sl.S), m}
		case 2:
			m1, _, _ := g.ethMsg(sl.E)
			m2, _, _ := g.ethMsg(sl.E)
			ms = []smsg{m1, m2}
		case 3:
			m1, _, _ := g.ethMsg(sl.E)
			m2, _, _ := g.ethMsg(sl.G)
			ms = []smsg{m1, m2}
		case 4:
			m, _, _ := g.ethMsg(sl.E)
			ms = []smsg{g.send(sl.E), m}
		case 5:
			m, _, _ := g.ethMsg(sl.E)
			ms = []smsg{g.send(sl.S), m, g.send(sl.S)}
		default:
			m, _, _ := g.ethMsg(sl.E)
			ms = []smsg{m, wrapExec(sl.S, []sdk.Msg{g.send(sl.G).M}, 1)}
		}
		t.feat([]string{"eth,send", "send,eth", "eth,eth-same", "eth,eth-other", "send-self,eth", "send,eth,send", "eth,exec-send"}[v])
		rt = g.cosmosEnvelope(ms, 600000)
		if r.Chance(1, 4) {
			rt.ExtOpts = []*codectypes.Any{extEth()}
			t.feat("ext-eth")
		}
	case k < 68: // Ethereum message nested in exec
		t.Family = "eth-in-exec"
		rt = g.nested(func(from *vh.Acct) (smsg, string) {
			m, _, kind := g.ethMsg(from)
			return m, "eth:" + kind[:2]
		})
	case k < 78: // vesting-creation message nested in exec
		t.Family = "vesting-in-exec"
		rt = g.nested(func(from *vh.Acct) (smsg, string) { return g.vestingMsg(from) })
	case k < 85: // grant of a generic authorisation for a disabled message
		t.Family = "grant-disabled"
		url := vh.Pick(r, []string{urlEth, urlVest, urlVestPer, urlVestPerm})
		gm := g.grantMsg(sl.S, sl.P, url)
		t.feat(url[strings.LastIndex(url, ".")+1:])
		var ms []smsg
		switch v := r.Intn(5); v {
		case 0:
			ms = []smsg{gm}
			t.feat("alone")
		case 1:
			ms = []smsg{gm, g.send(sl.S)}
			if r.Bool() {
				ms[0], ms[1] = ms[1], ms[0]
			}
			t.feat("beside-send")
		case 2: // a harmless exec (or grant) listed before / after the disabled grant
			ok := wrapExec(sl.S, []sdk.Msg{g.send(sl.S).M}, 1+r.Intn(2))
			if r.Bool() {
				ok = g.grantMsg(sl.S, sl.P, urlSend)
				t.feat("beside-grant-ok")
			} else {
				t.feat("beside-exec-ok")
			}
			ms = []smsg{ok, gm}
			if r.Chance(1, 3) {
				ms[0], ms[1] = ms[1], ms[0]
				t.feat("after")
			}
		default:
			t.Depth = 1 + r.Intn(6)
			ms = []smsg{wrapExec(sl.S, []sdk.Msg{gm.M}, t.Depth)}
			t.feat("self-exec")
		}
		rt = g.cosmosEnvelope(ms, 600000)
	default: // ordinary Cosmos transactions (may accept)
		rt = g.cosmosOK()
	}
	t.Tx = rt.encode()
	t.V = classify(t.Tx, vh.Denom)
	return t
}

// nested builds "disabled message inside exec" shapes: granted (G's message, S executes with G's
// genesis grant) or self-exec (E's own message, E executes), depth 1..6, optionally with
// allowed neighbours inside and beside the exec.
func (g *genCtx) nested(inner func(from *vh.Acct) (smsg, string)) *rawTx {
	sl, r, t := g.sl, g.r, g.t
	from, grantee := sl.G, sl.S
	if r.Chance(2, 5) {
		from, grantee = sl.E, sl.E
		t.feat("self-exec")
	} else {
		t.feat("granted")
	}
	m, kind := inner(from)
	t.feat(kind)
	// harmless siblings of the offender, at the innermost level and at the top level: plain sends and
	// harmless MsgExec / MsgGrant messages (an exec of the grantee's own send needs no grant), before or after
	harmlessExec := func() sdk.Msg { return wrapExec(grantee, []sdk.Msg{g.send(grantee).M}, 1+r.Intn(2)).M }
	list := []sdk.Msg{m.M}
	switch r.Intn(9) {
	case 0:
		list = []sdk.Msg{g.send(from).M, m.M}
		t.feat("in:send,x")
	case 1:
		list = []sdk.Msg{m.M, g.send(from).M}
		t.feat("in:x,send")
	case 2:
		list = []sdk.Msg{harmlessExec(), m.M}
		t.feat("in:exec-ok,x")
	case 3:
		list = []sdk.Msg{m.M, harmlessExec()}
		t.feat("in:x,exec-ok")
	case 4:
		list = []sdk.Msg{harmlessExec(), g.send(grantee).M, m.M}
		t.feat("in:exec-ok,send,x")
	}
	t.Depth = 1 + r.Intn(6)
	ex := wrapExec(grantee, list, t.Depth)
	ms := []smsg{ex}
	switch r.Intn(12) {
	case 0:
		ms = []smsg{g.send(grantee), ex}
		t.feat("top:send,exec")
	case 1:
		ms = []smsg{ex, g.send(grantee)}
		t.feat("top:exec,send")
	case 2:
		ms = []smsg{{M: harmlessExec(), A: grantee}, ex}
		t.feat("top:exec-ok,exec")
	case 3:
		ms = []smsg{ex, {M: harmlessExec(), A: grantee}}
		t.feat("top:exec,exec-ok")
	case 4:
		ms = []smsg{g.grantMsg(grantee, g.sl.P, urlSend), ex}
		t.feat("top:grant-ok,exec")
	case 5:
		ms = []smsg{{M: harmlessExec(), A: grantee}, g.send(grantee), ex}
		t.feat("top:exec-ok,send,exec")
	}
	return g.cosmosEnvelope(ms, 800000)
}

// cosmosOK builds Cosmos-lane transactions outside the must-reject set.
func (g *genCtx) cosmosOK() *rawTx {
	sl, r, t := g.sl, g.r, g.t
	switch k := r.Intn(10); {
	case k < 3:
		t.Family = "cosmos-send"
		ms := []smsg{g.send(sl.S)}
		if r.Chance(1, 3) {
			ms = append(ms, g.send(sl.S))
			t.feat("two-msgs")
		} else if r.Chance(1, 4) {
			ms = append(ms, g.send(sl.E))
			t.feat("two-signers")
		}
		rt := g.cosmosEnvelope(ms, 400000)
		if r.Chance(1, 3) {
			rt.Memo = "hello"
			t.feat("memo")
		}
		if r.Chance(1, 3) {
			rt.Timeout = uint64(g.ht + 5 + int64(r.Intn(100)))
			t.feat("timeout")
		}
		switch r.Intn(6) {
		case 0:
			rt.ExtOpts = []*codectypes.Any{extDyn(int64(r.Intn(1000)))}
			t.feat("ext-dynfee")
		case 1:
			rt.Granter = sl.G.Bech32()
			t.Payers = append(t.Payers, sl.G.Addr)
			t.feat("fee-granter")
		case 2:
			if len(rt.Signers) == 1 {
				rt.Payer = sl.P.Bech32()
				g.addSigner(rt, sl.P, true, true)
				t.feat("fee-payer")
			}
		}
		return rt
	case k < 7:
		t.Family = "exec-ok"
		from, grantee := sl.G, sl.S
		if r.Chance(2, 5) {
			from, grantee = sl.S, sl.S
			t.feat("self-exec")
		} else {
			t.feat("granted")
		}
		list := []sdk.Msg{g.send(from).M}
		if r.Chance(1, 4) {
			list = append(list, g.send(from).M)
			t.feat("in:two")
		}
		t.Depth = vh.Pick(r, []int{1, 1, 1, 2, 2, 2, 3, 4, 5, 6})
		ms := []smsg{wrapExec(grantee, list, t.Depth)}
		if r.Chance(1, 6) {
			ms = append(ms, g.send(grantee))
			t.feat("top:exec,send")
		}
		return g.cosmosEnvelope(ms, 800000)
	case k < 9:
		t.Family = "grant-ok"
		url := vh.Pick(r, []string{urlSend, "/cosmos.bank.v1beta1.MsgMultiSend", "/cosmos.staking.v1beta1.MsgDelegate"})
		gm := g.grantMsg(sl.S, sl.P, url)
		t.feat(url[strings.LastIndex(url, ".")+1:])
		ms := []smsg{gm}
		if r.Chance(1, 3) {
			t.Depth = 1 + r.Intn(3)
			ms = []smsg{wrapExec(sl.S, []sdk.Msg{gm.M}, t.Depth)}
			t.feat("self-exec")
		}
		return g.cosmosEnvelope(ms, 600000)
	default:
		t.Family = "vesting-top-unproven" // C16's business; here only: whatever happens, one lane
		m, kind := g.vestingMsg(sl.S)
		t.feat(kind)
		return g.cosmosEnvelope([]smsg{m}, 400000)
	}
}
