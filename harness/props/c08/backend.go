package c08

import (
	"encoding/json"
	"fmt"
	"math/big"
	"os"

	"cosmossdk.io/log"
	dbm "github.com/cosmos/cosmos-db"
	"github.com/cosmos/cosmos-sdk/server"
	"github.com/ethereum/go-ethereum/common"
	"github.com/ethereum/go-ethereum/common/hexutil"
	"github.com/ethereum/go-ethereum/core/vm"

	"github.com/EscanBE/evermint/v12/indexer"
	rpcbackend "github.com/EscanBE/evermint/v12/rpc/backend"
	rpctypes "github.com/EscanBE/evermint/v12/rpc/types"
	evmtypes "github.com/EscanBE/evermint/v12/x/evm/types"

	"verifharness/props/c13"
	"verifharness/props/c14"
	"verifharness/vh"
)

// (e) the JSON-RPC backend's eth_call (rpc/backend.DoCall) over a recorded chain served by the fake CometBFT client:
// the answer for block h depends on the state committed at h and on nothing else. The call is a creation whose init
// code returns BALANCE(x) for a fee-paying account x: its answer at height h must be x's bank balance at height h
// (read from the store version h), for every recorded height, asked in scrambled order, with the backend's default
// configuration (evm timeout 5 s, gas cap 25M).
func runBackendHeights(run *vh.Run, label string, idx int) {
	r := run.RNG("backend-heights", idx)
	w := c13.NewWorld(r, c13.WorldCfg{MaxGas: -1, KeepBlocks: true, NumEOA: 6, Counter: 30}, nil)
	defer w.C.Cleanup()
	for b := 0; b < run.N(14, 40); b++ {
		if b%3 == 1 {
			w.Run(w.ComposeCounterBlock(r.Intn(4)))
			continue
		}
		w.Step(r.Range(2, 8))
	}
	st := c14.BuildStore(w.C)
	fake := c14.NewFakeClient(st, w.C.App, st.Height())
	cctx := c14.ClientCtx(w.C.Enc, fake)
	sctx := server.NewDefaultContext()
	// the node's default JSON-RPC settings (server/config DefaultConfig): an EVM timeout and a gas cap are configured
	sctx.Viper.Set("json-rpc.evm-timeout", "5s")
	sctx.Viper.Set("json-rpc.gas-cap", 25_000_000)
	sctx.Viper.Set("json-rpc.enable", true)
	kvi := indexer.NewKVIndexer(dbm.NewMemDB(), log.NewNopLogger(), cctx)
	be := rpcbackend.NewBackend(sctx, log.NewNopLogger(), cctx, kvi)
	traceRecorded(run, label, w, st, kvi, be)
	head := st.Height()
	var heights []int64
	for h := int64(2); h <= head; h++ {
		heights = append(heights, h)
	}
	vh.Shuffle(r, heights)
	for _, h := range heights {
		x := vh.Pick(r, w.EOAs).Addr
		code := vh.NewAsm().PushAddr(x).Op(vm.BALANCE).PushU(0).Op(vm.MSTORE).PushU(32).PushU(0).Op(vm.RETURN).Bytes()
		data := hexutil.Bytes(code)
		from := vh.Pick(r, w.EOAs).Addr
		args := evmtypes.TransactionArgs{From: &from, Data: &data}
		qctx, err := w.C.App.CreateQueryContext(h, false)
		if err != nil {
			run.Count("backend_heights_store_version_unavailable", 1)
			continue
		}
		want := w.C.App.BankKeeper.GetBalance(qctx, x.Bytes(), vh.Denom).Amount.BigInt()
		var res *evmtypes.MsgEthereumTxResponse
		var cerr error
		func() {
			defer func() {
				if p := recover(); p != nil {
					cerr = fmt.Errorf("panic: %v", p)
				}
			}()
			res, cerr = be.DoCall(args, rpctypes.BlockNumber(h))
		}()
		run.Eval(1)
		if cerr != nil || res == nil {
			run.Count("backend_eth_call_errors", 1)
			run.Distinct("backend_eth_call_error_texts", fmt.Sprint(cerr))
			continue
		}
		got := new(big.Int).SetBytes(res.Ret)
		run.Count("backend_eth_calls_at_recorded_heights", 1)
		headBal := w.C.Balance(x)
		if want.Cmp(headBal) != 0 {
			run.Count("backend_eth_calls_whose_answer_differs_from_the_head_state", 1)
			run.Nontrivial(fmt.Sprintf("backend-eth-call|height-below-head|%v", h < head-3))
		}
		if got.Cmp(want) != 0 {
			run.Violation("eth_call-answer-not-from-the-requested-height:rpc-backend", label, map[string]any{"requested_height": h, "head": head, "account": x.Hex(),
				"eth_call_returned_balance": got.String(), "bank_balance_at_requested_height": want.String(), "bank_balance_at_head": headBal.String(),
				"init_code": common.Bytes2Hex(code)})
		}
	}
}

// debug_traceTransaction through the backend for executed Ethereum transactions of recorded blocks - especially those that
// have other Ethereum transactions AND Cosmos transactions ahead of them in their block: the struct-logger trace replays
// the block up to the transaction and reports the gas it used there.
func traceRecorded(run *vh.Run, label string, w *c13.World, st *c14.Store, idx *indexer.KVIndexer, be *rpcbackend.Backend) {
	if err := st.IndexAll(idx); err != nil {
		run.Count("backend_trace_indexing_failed", 1)
		return
	}
	dec := w.Decoder()
	for h := int64(2); h <= st.Height(); h++ {
		txs, res := st.Recorded(h)
		bt := c13.ParseBlock(txs, res, dec)
		for k, t := range bt.Exec {
			if t.Code != 0 || k == 0 || !t.HasReceipt {
				continue // traced only when executed successfully at consensus level and preceded by another executed Ethereum tx
			}
			cosmosAhead := false
			for _, x := range bt.Txs[:t.Pos] {
				if !x.IsEth {
					cosmosAhead = true
				}
			}
			allAheadOK := true
			for _, x := range bt.Exec[:k] {
				allAheadOK = allAheadOK && x.Code == 0
			}
			if !allAheadOK {
				continue
			}
			// The backend hands the Ethereum transactions ahead to TraceTx as predecessors and leaves the Cosmos ones out, so
			// the replay differs from the execution by construction when a Cosmos transaction ahead was signed by one of the
			// senders involved (its sequence is one behind in the replay). Judged only when every nonce involved is the one
			// the state before the block plus the sender's own Ethereum transactions ahead give.
			clean := true
			if pctx, err := w.C.App.CreateQueryContext(h-1, false); err != nil {
				clean = false
			} else {
				seen := map[common.Address]uint64{}
				for _, x := range bt.Exec[:k+1] {
					if x.Tx.Nonce() != w.C.App.EvmKeeper.GetNonce(pctx, x.Sender)+seen[x.Sender] {
						clean = false
					}
					seen[x.Sender]++
				}
			}
			if !clean {
				run.Count("backend_traces_not_judged_a_sender_has_a_cosmos_transaction_ahead", 1)
				continue
			}
			var out any
			var terr error
			func() {
				defer func() {
					if p := recover(); p != nil {
						terr = fmt.Errorf("panic: %v", p)
					}
				}()
				out, terr = be.TraceTransaction(t.Hash, &evmtypes.TraceConfig{})
			}()
			run.Eval(1)
			if terr != nil {
				run.Count("backend_trace_transaction_errors", 1)
				run.Distinct("backend_trace_error_texts", trunc(terr.Error(), 100))
				if os.Getenv("C08_DEBUG") != "" {
					fmt.Fprintf(os.Stderr, "TRACE-ERR h=%d pos=%d k=%d err=%v\n", h, t.Pos, k, terr)
					for _, x := range bt.Txs[:t.Pos+1] {
						fmt.Fprintf(os.Stderr, "   pos=%d eth=%v class=%s code=%d reached=%v receipt=%v sender=%s nonce=%v log=%s\n", x.Pos, x.IsEth, x.Class, x.Code, x.Reached, x.HasReceipt, x.Sender.Hex(), func() any {
							if x.Tx != nil {
								return x.Tx.Nonce()
							}
							return "-"
						}(), trunc(x.Log, 80))
					}
				}
				continue
			}
			bz, _ := json.Marshal(out)
			var tr struct {
				Gas    uint64 `json:"gas"`
				Failed bool   `json:"failed"`
			}
			if json.Unmarshal(bz, &tr) != nil || tr.Gas == 0 {
				continue
			}
			run.Count("backend_traces_of_recorded_transactions", 1)
			dependsOnAhead := false
			if t.Tx.To() != nil && *t.Tx.To() == w.CounterAddr {
				for _, x := range bt.Exec[:k] {
					dependsOnAhead = dependsOnAhead || (x.Tx.To() != nil && *x.Tx.To() == w.CounterAddr)
				}
			}
			if dependsOnAhead {
				run.Count("backend_traces_whose_gas_depends_on_an_earlier_transaction_of_the_block", 1)
				if cosmosAhead {
					run.Count("backend_traces_whose_gas_depends_on_an_earlier_transaction_behind_a_cosmos_transaction", 1)
				}
			}
			if cosmosAhead {
				run.Count("backend_traces_with_cosmos_and_ethereum_transactions_ahead", 1)
				run.Nontrivial("backend-trace|cosmos-and-eth-ahead")
			}
			if tr.Gas != t.RcGasUsed {
				run.Violation("trace-of-a-recorded-transaction-differs-from-its-execution:rpc-backend", label, map[string]any{"height": h, "tx_hash": t.Hash.Hex(), "position_in_block": t.Pos,
					"ethereum_txs_ahead": k, "cosmos_tx_ahead": cosmosAhead, "traced_gas": tr.Gas, "executed_gas_used": t.RcGasUsed})
			}
		}
	}
}
