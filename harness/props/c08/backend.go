package c08

import (
	"fmt"
	"math/big"

	"cosmossdk.io/log"
	dbm "github.com/cosmos/cosmos-db"
	"github.com/cosmos/cosmos-sdk/server"
	"github.com/ethereum/go-ethereum/common"
	"github.com/ethereum/go-ethereum/common/hexutil"
	"github.com/ethereum/go-ethereum/core/vm"

	"github.com/EscanBE/evermint/v12/indexer"
	rpcbackend "github.com/EscanBE/evermint/v12/rpc/backend"
	rpctypes "github.com/EscanBE/evermint/v12/rpc/types"
	evmtypes "github.com/EscanBE/evermint/v12/x/evm/types"

	"verifharness/props/c13"
	"verifharness/props/c14"
	"verifharness/vh"
)

// (e) the JSON-RPC backend's eth_call (rpc/backend.DoCall) over a recorded chain served by the fake CometBFT client:
// the answer for block h depends on the state committed at h and on nothing else. The call is a creation whose init
// code returns BALANCE(x) for a fee-paying account x: its answer at height h must be x's bank balance at height h
// (read from the store version h), for every recorded height, asked in scrambled order, with the backend's default
// configuration (evm timeout 5 s, gas cap 25M).
func runBackendHeights(run *vh.Run, label string, idx int) {
	r := run.RNG("backend-heights", idx)
	w := c13.NewWorld(r, c13.WorldCfg{MaxGas: -1, KeepBlocks: true, NumEOA: 6}, nil)
	defer w.C.Cleanup()
	for b := 0; b < run.N(14, 40); b++ {
		w.Step(r.Range(2, 8))
	}
	st := c14.BuildStore(w.C)
	fake := c14.NewFakeClient(st, w.C.App, st.Height())
	cctx := c14.ClientCtx(w.C.Enc, fake)
	sctx := server.NewDefaultContext()
	// the node's default JSON-RPC settings (server/config DefaultConfig): an EVM timeout and a gas cap are configured
	sctx.Viper.Set("json-rpc.evm-timeout", "5s")
	sctx.Viper.Set("json-rpc.gas-cap", 25_000_000)
	sctx.Viper.Set("json-rpc.enable", true)
	be := rpcbackend.NewBackend(sctx, log.NewNopLogger(), cctx, indexer.NewKVIndexer(dbm.NewMemDB(), log.NewNopLogger(), cctx))
	head := st.Height()
	var heights []int64
	for h := int64(2); h <= head; h++ {
		heights = append(heights, h)
	}
	vh.Shuffle(r, heights)
	for _, h := range heights {
		x := vh.Pick(r, w.EOAs).Addr
		code := vh.NewAsm().PushAddr(x).Op(vm.BALANCE).PushU(0).Op(vm.MSTORE).PushU(32).PushU(0).Op(vm.RETURN).Bytes()
		data := hexutil.Bytes(code)
		from := vh.Pick(r, w.EOAs).Addr
		args := evmtypes.TransactionArgs{From: &from, Data: &data}
		qctx, err := w.C.App.CreateQueryContext(h, false)
		if err != nil {
			run.Count("backend_heights_store_version_unavailable", 1)
			continue
		}
		want := w.C.App.BankKeeper.GetBalance(qctx, x.Bytes(), vh.Denom).Amount.BigInt()
		var res *evmtypes.MsgEthereumTxResponse
		var cerr error
		func() {
			defer func() {
				if p := recover(); p != nil {
					cerr = fmt.Errorf("panic: %v", p)
				}
			}()
			res, cerr = be.DoCall(args, rpctypes.BlockNumber(h))
		}()
		run.Eval(1)
		if cerr != nil || res == nil {
			run.Count("backend_eth_call_errors", 1)
			run.Distinct("backend_eth_call_error_texts", fmt.Sprint(cerr))
			continue
		}
		got := new(big.Int).SetBytes(res.Ret)
		run.Count("backend_eth_calls_at_recorded_heights", 1)
		headBal := w.C.Balance(x)
		if want.Cmp(headBal) != 0 {
			run.Count("backend_eth_calls_whose_answer_differs_from_the_head_state", 1)
			run.Nontrivial(fmt.Sprintf("backend-eth-call|height-below-head|%v", h < head-3))
		}
		if got.Cmp(want) != 0 {
			run.Violation("eth_call-answer-not-from-the-requested-height:rpc-backend", label, map[string]any{"requested_height": h, "head": head, "account": x.Hex(),
				"eth_call_returned_balance": got.String(), "bank_balance_at_requested_height": want.String(), "bank_balance_at_head": headBal.String(),
				"init_code": common.Bytes2Hex(code)})
		}
	}
}
