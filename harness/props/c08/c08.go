package c08

import (
	"fmt"
	"sync"

	"verifharness/vh"
)

// RunD1 runs the deterministic, single-node part of C08 (sub-checks a, b, c).
func RunD1(run *vh.Run) {
	// (a)+(b): twin pairs; every query of chain Q is wrapped in a before/after state comparison
	nPairs := run.N(1, 16)
	nBlocks := run.N(30, 62)
	nQ := 14 // checked queries per block interval (+ admission calls + ~4-7 mid-block queries)
	if run.Thorough() {
		nQ = 15
	}
	// (c): prediction worlds
	nPredWorlds := run.N(4, 32)
	nPred := run.N(50, 157) // per world; each = one same-limit prediction + one estimate delivery
	stats := &ratioStats{}

	var wg sync.WaitGroup
	sem := make(chan struct{}, 12)
	guard := func(label string, f func()) {
		wg.Add(1)
		go func() {
			defer wg.Done()
			sem <- struct{}{}
			defer func() { <-sem }()
			defer func() {
				if r := recover(); r != nil {
					run.Violation("monitor-panic", label, map[string]any{"panic": fmt.Sprint(r)})
				}
			}()
			f()
		}()
	}
	for i := 0; i < nPairs; i++ {
		i := i
		label := fmt.Sprintf("twin-%d", i)
		if run.WantCase(label) {
			guard(label, func() { runTwin(run, label, i, nBlocks, nQ) })
		}
	}
	for i := 0; i < nPredWorlds; i++ {
		i := i
		label := fmt.Sprintf("predict-%d", i)
		if run.WantCase(label) {
			guard(label, func() { runPredict(run, label, i, nPred, stats) })
		}
	}
	for i := 0; i < run.N(2, 10); i++ {
		i := i
		label := fmt.Sprintf("backend-heights-%d", i)
		if run.WantCase(label) {
			guard(label, func() { runBackendHeights(run, label, i) })
		}
	}
	wg.Wait()

	if stats.n > 0 {
		run.Set("estimate_over_gas_used_ratio_min", float64(stats.min)/1000)
		run.Set("estimate_over_gas_used_ratio_max", float64(stats.max)/1000)
		run.Set("estimate_ratios_counted", stats.n)
	}
	run.Rule = "(a,b) Twin chains P,Q from one genesis (generated contracts, ERC-20 native + staking + bech32 precompiles, forwarder puppets of all four call kinds in front of them, a funded self-destructing contract, a CREATE/CREATE2 factory, real approvals and delegations) are fed the same generated blocks. On Q every block interval gets checked queries through BaseApp.Query (gRPC routes EthCall, EstimateGas, TraceTx, TraceBlock with struct logger / native / JS tracers and predecessors, all other x/evm, x/feemarket, x/cpc, x/vauth queries, SDK bank/staking/auth/distribution/gov/mint/slashing samples, /store and /app/simulate paths) at latest and historical heights with call data that creates contracts, self-destructs, writes storage and calls state-changing precompile methods directly and through puppets; CheckTx(New), CheckTx(Recheck) and Simulate of the next block's transactions; and queries issued from the tx-boundary observer DURING block execution. Around every call: full dump of all committed KV stores, root transient stores, check-state, queried historical version, last commit id and multistore working hash must be identical (check-state may change only through CheckTx, and never outside acc/bank for Ethereum transactions); in-flight block state untouched by mid-block queries; mid-block answers equal the answers before the block; every FinalizeBlock response byte-identical between P and Q. (c) In worlds whose programs are fenced to the premise (no block-context, balance, origin, caller or gas-price reads) but include GAS-dependent stores and branches, 63/64 forwarding chains, refunds, creation, self-destruct and balance-free precompile calls: EthCall(gas G, mirrored fee fields / access list) vs the same call delivered as the only transaction of the next block with limit G: refusal, VM error, return data, logs, receipt status and gas used equal; EstimateGas result used as the limit of a delivery must not run out of gas and must match EthCall at that limit. Non-trivial = distinct (query kind x height class x payload class x answer class), (admission entry x lane x class), (prediction target x outcome x gas-dependence x fee type x opcode families)."
	run.Assumptions = append(run.Assumptions,
		"queries are serialised with block execution here (issued between blocks and from inside the tx-boundary observer); true concurrency and data races are the live part (d)",
		"P and Q use vh's in-memory DB; historical versions are served by the IAVL store with pruning 'nothing'",
		"prediction premise is enforced by construction: generated programs use vh.ProgOpts.NoBlockCtx; precompile methods used there read no balance (approve, allowance, metadata, bech32, delegationOf)")
	if run.OnlyCase == "" {
		run.Floor("queries (between and during blocks)", run.Get("queries_total"), int64(run.N(300, 10000)))
		run.Floor("historical-height queries", sumPrefixSuffix(run, "q:", ":historical"), int64(run.N(60, 2000)))
		run.Floor("mid-block queries", sumPrefixSuffix(run, "q:", ":mid-block"), int64(run.N(50, 1500)))
		run.Floor("EthCall+EstimateGas+Trace queries", run.Get("q:evm/EthCall:latest")+run.Get("q:evm/EthCall:historical")+run.Get("q:evm/EstimateGas:latest")+run.Get("q:evm/EstimateGas:historical")+
			run.Get("q:evm/TraceTx:latest")+run.Get("q:evm/TraceTx:historical")+run.Get("q:evm/TraceBlock:latest")+run.Get("q:evm/TraceBlock:historical"), int64(run.N(120, 4000)))
		run.Floor("state-changing precompile calls simulated successfully", run.Get("state_changing_precompile_calls_simulated"), int64(run.N(25, 800)))
		run.Floor("query kinds", int64(run.DistinctN("query_kind")), 25)
		run.Floor("accepted CheckTx", run.Get("admission:check-new:accepted"), int64(run.N(15, 500)))
		run.Floor("twin blocks compared", run.Get("twin_blocks_compared"), int64(run.N(20, 600)))
		run.Floor("predictions compared", run.Get("predictions_compared"), int64(run.N(100, 2500)))
		run.Floor("gas-dependent predictions", run.Get("predictions_gas_dependent"), int64(run.N(25, 600)))
		run.Floor("predicted first delegations through funded staking puppets (with logs)", run.Get("predictions_of_staking_delegations_with_logs"), int64(run.N(8, 150)))
		run.Floor("debug_traceTransaction through the backend for transactions with Cosmos and Ethereum transactions ahead", run.Get("backend_traces_with_cosmos_and_ethereum_transactions_ahead"), int64(run.N(5, 60)))
		run.Floor("debug_traceTransaction through the backend for transactions whose gas depends on an earlier transaction of the block, with a Cosmos transaction ahead", run.Get("backend_traces_whose_gas_depends_on_an_earlier_transaction_behind_a_cosmos_transaction"), int64(run.N(2, 20)))
		run.Floor("eth_call through the JSON-RPC backend at recorded heights whose answer differs from the head state", run.Get("backend_eth_calls_whose_answer_differs_from_the_head_state"), int64(run.N(10, 100)))
		run.Floor("entries of struct-logger traces of recorded blocks compared with the gas used in the block", run.Get("recorded_block_trace_entries_compared_with_the_executed_gas"), int64(run.N(2, 100)))
		run.Floor("struct-logger traces of recorded transactions compared with the gas they used in their block", run.Get("recorded_tx_traces_compared_with_the_executed_gas"), int64(run.N(2, 60)))
		run.Floor("traces of recorded blocks / transactions asked again at a later head", run.Get("recorded_traces_asked_again_at_a_later_head"), int64(run.N(4, 100)))
		run.Floor("estimates delivered", run.Get("estimates_delivered"), int64(run.N(40, 1000)))
		run.Floor("prediction outcome classes", int64(run.DistinctN("prediction_outcome")), 4)
	}
}

func sumPrefixSuffix(run *vh.Run, prefix, suffix string) int64 {
	var s int64
	for _, k := range queryKinds {
		s += run.Get(prefix + k + suffix)
	}
	return s
}

var queryKinds = []string{"evm/EthCall", "evm/EstimateGas", "evm/TraceTx", "evm/TraceBlock", "evm/Account", "evm/CosmosAccount", "evm/ValidatorAccount", "evm/Balance",
	"evm/Storage", "evm/Code", "evm/Params", "evm/BaseFee", "feemarket/Params", "feemarket/BaseFee", "cpc/CustomPrecompiledContracts", "cpc/CustomPrecompiledContract",
	"cpc/Erc20CustomPrecompiledContractByDenom", "cpc/Params", "vauth/ProofExternalOwnedAccount", "sdk/bank.AllBalances", "sdk/bank.TotalSupply", "sdk/staking.Validators",
	"sdk/staking.DelegatorDelegations", "sdk/auth.Account", "sdk/distribution.DelegationTotalRewards", "sdk/gov.Params", "sdk/mint.Inflation", "sdk/slashing.SigningInfos", "store/key", "app/simulate"}
