// Package c08 holds the deterministic (single-node) monitors of property C08:
// simulation and query paths are side-effect free and predict execution.
//
//	(a) side-effect freedom: full KV dumps (committed, check-state, queried historical version),
//	    last commit id and working hash before vs after every query / CheckTx / Simulate;
//	(b) twin chains fed the same blocks, one of them with queries between and during blocks;
//	(c) predictiveness of eth_call and of gas estimates for fenced (pure) calls.
//
// The live-node / race-detector part (d) lives in props/live and is not built here.
package c08

import (
	"bytes"
	"encoding/hex"
	"fmt"
	"math/big"
	"time"

	sdkmath "cosmossdk.io/math"
	sdk "github.com/cosmos/cosmos-sdk/types"
	stakingtypes "github.com/cosmos/cosmos-sdk/x/staking/types"
	"github.com/ethereum/go-ethereum/common"
	"github.com/ethereum/go-ethereum/core/vm"
	"github.com/ethereum/go-ethereum/crypto"

	cpcabi "github.com/EscanBE/evermint/v12/x/cpc/abi"
	cpctypes "github.com/EscanBE/evermint/v12/x/cpc/types"
	evmtypes "github.com/EscanBE/evermint/v12/x/evm/types"
	vauthtypes "github.com/EscanBE/evermint/v12/x/vauth/types"

	"verifharness/vh"
)

// blockRec is what the trace queries need to know about an executed block.
type blockRec struct {
	Height   int64
	Time     time.Time
	Hash     []byte
	Proposer []byte
	EthMsgs  []*evmtypes.MsgEthereumTx // admitted Ethereum transactions, in block order
	EthGas   []uint64                  // gas used the consensus result reports for each of them (0 when it was not executed)
	EthExec  []bool                    // whether it was executed (a receipt exists)
	EthClean []bool                    // no transaction of the Cosmos lane ahead of it in the block (a trace replays Ethereum transactions only)
	Writer   bool                      // one of them calls the writer contract (gas depends on the block's time)
	Txs      [][]byte
}

// env is one twin pair: chain P (driven through the World) and chain Q (same genesis, same
// blocks, plus every query / CheckTx / Simulate the monitor issues).
type env struct {
	run   *vh.Run
	label string
	r     *vh.RNG
	w     *vh.World
	p, q  *vh.Chain

	erc20, staking, bech32 common.Address
	fw                     map[string]common.Address // forwarder puppets: kind/target
	destructor, factory    common.Address
	writer                 common.Address
	hist                   []*blockRec
	valEvm                 []common.Address // validator operator addresses as 20-byte EVM form

	// mid-block query plan of the block being executed on Q
	mid        []*query
	midPre     map[int][]byte // response bytes recorded right before the block
	midErr     []string
	midEnabled bool
	pruned     int64

	// traces of recorded blocks / transactions: request -> first answer; the request carries the block's number, hash, time
	// and proposer and names the parent height, so its answer may never change as the chain advances
	traceSeen map[string]traceAnswer
	traceOld  []*query
}

type traceAnswer struct {
	code   uint32
	value  string
	atHead int64
}

func mustPack(info cpcabi.CustomPrecompiledContractInfo, name string, args ...any) []byte {
	bz, err := info.ABI.Pack(name, args...)
	if err != nil {
		panic(fmt.Errorf("abi pack %s: %w", name, err))
	}
	return bz
}

// newEnv creates the twin pair with rich state: generated contracts, the ERC-20 (native denom)
// and staking precompiles, forwarder puppets in front of them, a self-destructing contract
// with balance, a factory, a storage writer, and real approvals / delegations.
func newEnv(run *vh.Run, label string, r *vh.RNG, twin bool) *env {
	e := &env{run: run, label: label, r: r, fw: map[string]common.Address{}, midPre: map[int][]byte{}}
	cfg := vh.Config{Seed: r.U64(), NumVals: 2, MaxGas: -1, BaseFee: big.NewInt(1_000_000_000), Erc20Native: true, StakingCPC: true,
		ValCommission: []string{"0.1", "0.05"}}
	e.w = vh.NewWorld(r, vh.WorldOpts{Chain: cfg, NumEOA: 6, Prog: vh.ProgOpts{MaxLen: 7, Depth: 2}})
	e.p = e.w.C
	if twin {
		e.q = vh.NewChain(e.p.Cfg)
		e.q.OnTx(e.midBlock)
	} else {
		e.q = e.p
	}
	ctx := e.p.QueryCtx()
	for _, m := range e.p.App.CPCKeeper.GetAllCustomPrecompiledContractsMeta(ctx) {
		a := common.BytesToAddress(m.Address)
		switch m.CustomPrecompiledType {
		case cpctypes.CpcTypeErc20:
			e.erc20 = a
		case cpctypes.CpcTypeStaking:
			e.staking = a
		case cpctypes.CpcTypeBech32:
			e.bech32 = a
		}
	}
	for _, v := range e.p.Vals {
		e.valEvm = append(e.valEvm, common.BytesToAddress(v.Oper))
	}
	if e.erc20 == (common.Address{}) || e.staking == (common.Address{}) || e.bech32 == (common.Address{}) {
		panic("c08: custom precompiles not deployed")
	}
	// the very first block (run inside NewChain) is identical by construction; check it anyway
	if twin && !bytes.Equal(e.p.LastHash, e.q.LastHash) {
		run.Violation("twin-app-hash-differs:genesis", label, map[string]any{"p": fmt.Sprintf("%x", e.p.LastHash), "q": fmt.Sprintf("%x", e.q.LastHash)})
	}
	e.w.DeployGenerated(10, func(ob *vh.ObservedBlock, plans []*vh.TxPlan) { e.mirror(ob.BlockResult, plans) })
	e.deploySpecials()
	return e
}

func (e *env) cleanup() {
	e.p.Cleanup()
	if e.q != e.p {
		e.q.Cleanup()
	}
}

// plansTxs extracts raw tx bytes.
func plansTxs(plans []*vh.TxPlan) [][]byte {
	txs := make([][]byte, len(plans))
	for i, p := range plans {
		txs[i] = p.Bytes
	}
	return txs
}

// mirror replays on Q a block that already ran on P, compares the consensus-visible results
// and records the block for the trace queries.
func (e *env) mirror(pb *vh.BlockResult, plans []*vh.TxPlan) {
	txs := plansTxs(plans)
	var qb *vh.BlockResult
	if e.q != e.p {
		qb = e.q.NextBlock(txs, nil)
		e.compareBlocks(pb, qb)
	}
	e.record(pb, plans)
}

func (e *env) record(pb *vh.BlockResult, plans []*vh.TxPlan) {
	if pb.Err != nil || pb.Res == nil {
		return
	}
	rec := &blockRec{Height: pb.Height, Time: pb.Time, Hash: pb.Req.Hash, Proposer: pb.Req.ProposerAddress, Txs: plansTxs(plans)}
	cosmosAhead := false
	for i, pl := range plans {
		if pl.Tx == nil {
			cosmosAhead = true
		}
		if pl.Tx == nil || i >= len(pb.Res.TxResults) {
			continue
		}
		if !vh.HasEvent(pb.Res.TxResults[i], "ethereum_tx") {
			continue
		}
		bin, err := pl.Tx.MarshalBinary()
		if err != nil {
			continue
		}
		rec.EthMsgs = append(rec.EthMsgs, &evmtypes.MsgEthereumTx{MarshalledTx: bin, From: pl.Sender.Bech32()})
		rec.EthClean = append(rec.EthClean, !cosmosAhead)
		if pl.Tx.To() != nil && *pl.Tx.To() == e.writer {
			rec.Writer = true
		}
		resp := vh.EthResponse(pb.Res.TxResults[i])
		if rc, _ := vh.ReceiptOf(pb.Res.TxResults[i]); rc != nil && resp != nil && pb.Res.TxResults[i].Code == 0 {
			rec.EthGas, rec.EthExec = append(rec.EthGas, resp.GasUsed), append(rec.EthExec, true)
		} else {
			rec.EthGas, rec.EthExec = append(rec.EthGas, 0), append(rec.EthExec, false)
		}
	}
	e.hist = append(e.hist, rec)
}

// runBlock executes the plans on P and on Q (Q possibly with mid-block queries).
func (e *env) runBlock(plans []*vh.TxPlan) (*vh.BlockResult, *vh.BlockResult) {
	txs := plansTxs(plans)
	pb := e.p.NextBlock(txs, nil)
	e.w.ResetPending()
	qb := pb
	if e.q != e.p {
		qb = e.q.NextBlock(txs, nil)
		e.compareBlocks(pb, qb)
	}
	e.record(pb, plans)
	return pb, qb
}

// price: a gas price every block of these worlds admits.
func (e *env) price() *big.Int { return new(big.Int).Mul(e.p.BaseFee(), big.NewInt(3)) }

func (e *env) fee() *vh.FeeShape {
	return &vh.FeeShape{Type: 0, Price: e.price(), Kind: "x3"}
}

func (e *env) deploySpecials() {
	w, r := e.w, e.r
	d := w.EOAs[0]
	var plans []*vh.TxPlan
	type pend struct {
		name string
		addr *common.Address
	}
	var pends []pend
	deploy := func(name string, runtime []byte, value *big.Int, slot *common.Address) {
		n := w.NextNonce(d.Addr)
		pl := w.PlanEth(d, nil, value, 2_000_000, vh.Deployer(runtime), "ok", e.fee())
		pl.Kind = "eth-create"
		plans = append(plans, pl)
		a := crypto.CreateAddress(d.Addr, n)
		if slot != nil {
			*slot = a
		}
		e.fw[name] = a
		pends = append(pends, pend{name, &a})
	}
	for _, t := range []struct {
		n  string
		to common.Address
	}{{"erc20", e.erc20}, {"staking", e.staking}, {"bech32", e.bech32}} {
		deploy("CALL/"+t.n, vh.Forwarder(vh.CALL, t.to, true), nil, nil)
		deploy("DELEGATECALL/"+t.n, vh.Forwarder(vh.DELEGATECALL, t.to, true), nil, nil)
		deploy("STATICCALL/"+t.n, vh.Forwarder(vh.STATICCALL, t.to, false), nil, nil)
		deploy("CALLCODE/"+t.n, vh.Forwarder(vh.CALLCODE, t.to, false), nil, nil)
	}
	// self-destructing contract holding balance: any call destroys it and pays a pool address
	ben := w.EOAs[3].Addr
	deploy("destructor", vh.NewAsm().SStore(1, 7).PushAddr(ben).Op(vm.SELFDESTRUCT).Bytes(), big.NewInt(5_000_000), &e.destructor)
	// factory: every call CREATEs a child holding storage, logs, stores the child address
	child := vh.Deployer(vh.NewAsm().SStore(0, 1).Op(vm.STOP).Bytes())
	fa := vh.NewAsm().MStoreBytes(0, child).PushU(uint64(len(child))).PushU(0).PushU(0).Op(vm.CREATE).PushU(2).Op(vm.SSTORE).Log(0xfac, 1, 2)
	fa.PushU(7).PushU(uint64(len(child))).PushU(0).PushU(0).Op(vm.CREATE2).PushU(3).Op(vm.SSTORE).Op(vm.STOP)
	deploy("factory", fa.Bytes(), nil, &e.factory)
	// writer: slot0 += 1 ; slot[calldatasize] = caller ; clears slot 5 ; slot7 = TIMESTAMP ; slot8 = NUMBER ; log
	wr := vh.NewAsm().PushU(1).PushU(0).Op(vm.SLOAD, vm.ADD).PushU(0).Op(vm.SSTORE).
		Op(vm.CALLER, vm.CALLDATASIZE, vm.SSTORE).SStore(5, 0).SStore(6, 9).
		Op(vm.TIMESTAMP).PushU(7).Op(vm.SSTORE).Op(vm.NUMBER).PushU(8).Op(vm.SSTORE). // block context of the block it runs in (visible in every trace of it)
		Op(vm.TIMESTAMP).PushU(15).Op(vm.AND).                                        // ... and TIMESTAMP mod 16 idle loop turns: the gas it uses depends on the block's time
		Label("turn").Op(vm.DUP1, vm.ISZERO).JumpI("done").PushU(1).Op(vm.SWAP1, vm.SUB).Jump("turn").Label("done").Op(vm.POP).
		Log(0x77, 3).Op(vm.STOP)
	deploy("writer", wr.Bytes(), nil, &e.writer)
	pb := e.p.NextBlock(plansTxs(plans), nil)
	w.ResetPending()
	e.mirror(pb, plans)
	for i, res := range pb.TxResults() {
		if res.Code != 0 {
			panic(fmt.Sprintf("c08: special deployment %s failed: %s", pends[i].name, res.Log))
		}
	}
	_ = r
	// fund the forwarders (they are the `caller` the precompiles see), then create real approvals and delegations
	plans = nil
	for _, k := range []string{"CALL/erc20", "CALL/staking", "DELEGATECALL/erc20", "CALLCODE/erc20", "CALLCODE/staking"} {
		to := e.fw[k]
		plans = append(plans, w.PlanEth(w.EOAs[1], &to, vh.Ether(3), 100_000, nil, "ok", e.fee()))
	}
	e.runBlockNoQuery(plans)
	plans = nil
	erc, stk := e.erc20, e.staking
	a0, a1, a2 := w.EOAs[0], w.EOAs[1], w.EOAs[2]
	fwE := e.fw["CALL/erc20"]
	plans = append(plans,
		w.PlanEth(a0, &erc, nil, 300_000, mustPack(cpcabi.Erc20CpcInfo, "approve", a1.Addr, vh.Ether(50)), "ok", e.fee()),
		w.PlanEth(a0, &erc, nil, 300_000, mustPack(cpcabi.Erc20CpcInfo, "approve", fwE, vh.Ether(40)), "ok", e.fee()),
		w.PlanEth(a1, &erc, nil, 300_000, mustPack(cpcabi.Erc20CpcInfo, "approve", a2.Addr, new(big.Int).Sub(new(big.Int).Lsh(big.NewInt(1), 256), big.NewInt(1))), "ok", e.fee()),
		w.PlanEth(a1, &stk, nil, 2_000_000, mustPack(cpcabi.StakingCpcInfo, "delegate", e.valEvm[0], vh.Ether(20)), "ok", e.fee()),
		w.PlanEth(a2, &stk, nil, 2_000_000, mustPack(cpcabi.StakingCpcInfo, "delegate", e.valEvm[1], vh.Ether(10)), "ok", e.fee()),
	)
	// a native MsgDelegate too
	{
		a3 := w.EOAs[3]
		seq := w.NextNonce(a3.Addr)
		msg := stakingtypes.NewMsgDelegate(a3.Bech32(), e.p.Vals[0].Oper.String(), sdk.NewCoin(vh.Denom, sdkmath.NewIntFromBigInt(vh.Ether(5))))
		bz := e.p.CosmosTx(a3, []sdk.Msg{msg}, &vh.CosmosOpts{Seq: &seq, Gas: 400000})
		plans = append(plans, &vh.TxPlan{Kind: "cosmos-delegate", Class: "ok", Sender: a3, Bytes: bz})
	}
	// a vauth proof: EOA4 submits the proof that EOA5's key signed the module's message
	{
		a4, a5 := w.EOAs[4], w.EOAs[5]
		sig, err := crypto.Sign(crypto.Keccak256([]byte(vauthtypes.MessageToSign)), a5.Key)
		if err != nil {
			panic(err)
		}
		seq := w.NextNonce(a4.Addr)
		msg := &vauthtypes.MsgSubmitProofExternalOwnedAccount{Submitter: a4.Bech32(), Account: a5.Bech32(), Signature: "0x" + hex.EncodeToString(sig)}
		bz := e.p.CosmosTx(a4, []sdk.Msg{msg}, &vh.CosmosOpts{Seq: &seq, Gas: 400000})
		plans = append(plans, &vh.TxPlan{Kind: "cosmos-vauth-proof", Class: "ok", Sender: a4, Bytes: bz})
	}
	pb = e.runBlockNoQuery(plans)
	for i, res := range pb.TxResults() {
		if res.Code != 0 {
			panic(fmt.Sprintf("c08: setup tx %d failed: %s", i, res.Log))
		}
	}
}

func (e *env) runBlockNoQuery(plans []*vh.TxPlan) *vh.BlockResult {
	saved := e.midEnabled
	e.midEnabled = false
	pb, _ := e.runBlock(plans)
	e.midEnabled = saved
	return pb
}
