package c08

import (
	"bytes"
	"context"
	"encoding/hex"
	"encoding/json"
	"fmt"
	"math/big"
	"strings"
	"sync"

	abci "github.com/cometbft/cometbft/abci/types"
	"github.com/ethereum/go-ethereum/common"
	"github.com/ethereum/go-ethereum/common/hexutil"
	ethtypes "github.com/ethereum/go-ethereum/core/types"
	"github.com/ethereum/go-ethereum/core/vm"
	"github.com/ethereum/go-ethereum/crypto"

	cpcabi "github.com/EscanBE/evermint/v12/x/cpc/abi"
	cpctypes "github.com/EscanBE/evermint/v12/x/cpc/types"
	evmtypes "github.com/EscanBE/evermint/v12/x/evm/types"

	"verifharness/vh"
)

// ratio statistics shared by all prediction worlds (permille of estimate / gas actually used).
type ratioStats struct {
	mu       sync.Mutex
	min, max int64
	n        int64
}

func (s *ratioStats) add(est, used uint64) {
	if used == 0 {
		return
	}
	p := int64(est * 1000 / used)
	s.mu.Lock()
	if s.n == 0 || p < s.min {
		s.min = p
	}
	if p > s.max {
		s.max = p
	}
	s.n++
	s.mu.Unlock()
}

type target struct {
	Addr  common.Address
	Desc  string
	Feats []string
}

// predWorld: a chain whose contracts satisfy the premise of the statement: no block-context
// opcode, no balance read, no origin/caller/gas-price read (vh.ProgOpts.NoBlockCtx), but with
// everything gas-dependent the quantifier names.
type predWorld struct {
	run     *vh.Run
	label   string
	r       *vh.RNG
	w       *vh.World
	c       *vh.Chain
	targets []*target
	erc20   common.Address
	bech32  common.Address
	staking common.Address
	stats   *ratioStats
	// (staking puppet, validator) pairs already used for a first delegation
	delegated map[string]bool
}

func feats(p *vh.Prog) []string {
	var f []string
	for _, k := range []string{"gas", "call", "create", "create2", "selfdestruct", "log", "loop", "sstore", "mem", "revert", "cond"} {
		if p.Uses[k] > 0 {
			f = append(f, k)
		}
	}
	return f
}

func newPredWorld(run *vh.Run, label string, idx int, stats *ratioStats) *predWorld {
	r := run.RNG("predict", idx)
	pw := &predWorld{run: run, label: label, r: r, stats: stats}
	cfg := vh.Config{Seed: r.U64(), NumVals: 1 + idx%2, MaxGas: -1, BaseFee: big.NewInt(1_000_000_000), Erc20Native: true, StakingCPC: true}
	pw.w = vh.NewWorld(r, vh.WorldOpts{Chain: cfg, NumEOA: 5, Prog: vh.ProgOpts{MaxLen: 8, Depth: 2, NoBlockCtx: true}})
	pw.c = pw.w.C
	for _, m := range pw.c.App.CPCKeeper.GetAllCustomPrecompiledContractsMeta(pw.c.QueryCtx()) {
		a := common.BytesToAddress(m.Address)
		switch m.CustomPrecompiledType {
		case cpctypes.CpcTypeErc20:
			pw.erc20 = a
		case cpctypes.CpcTypeBech32:
			pw.bech32 = a
		case cpctypes.CpcTypeStaking:
			pw.staking = a
		}
	}
	pw.w.DeployGenerated(12, nil)
	for _, c := range pw.w.Contracts {
		if len(pw.c.App.EvmKeeper.GetCode(pw.c.QueryCtx(), pw.c.App.EvmKeeper.GetCodeHash(pw.c.QueryCtx(), c.Addr.Bytes()))) > 0 {
			pw.targets = append(pw.targets, &target{Addr: c.Addr, Desc: strings.Join(c.Prog.Desc, "; "), Feats: feats(c.Prog)})
		}
	}
	pw.deployCrafted()
	return pw
}

// deployCrafted adds hand-written gas-dependent contracts: GAS-dependent stores, a three-level
// 63/64 forwarding chain whose inner frame runs out of gas for small limits, storage clears that
// earn refunds, and a puppet that calls the ERC-20 precompile's approve (a state-changing
// precompile method that reads no balance).
func (pw *predWorld) deployCrafted() {
	w := pw.w
	d := w.EOAs[0]
	base := w.NextNonce(d.Addr)
	var plans []*vh.TxPlan
	var names []string
	var featss [][]string
	var endow *big.Int
	add := func(name string, code []byte, f ...string) common.Address {
		a := crypto.CreateAddress(d.Addr, base+uint64(len(plans)))
		pl := w.PlanEth(d, nil, endow, 3_000_000, vh.Deployer(code), "ok", &vh.FeeShape{Type: 0, Price: new(big.Int).Mul(pw.c.BaseFee(), big.NewInt(3)), Kind: "x3"})
		plans = append(plans, pl)
		names = append(names, name)
		featss = append(featss, f)
		return a
	}
	// gasStore: slot0 = GAS; slot1 = GAS/1024 (branch on gas): log; return GAS
	gs := vh.NewAsm().Op(vm.GAS).PushU(0).Op(vm.SSTORE).
		PushU(100000).Op(vm.GAS, vm.GT).JumpI("rich"). // GAS > 100000 ?
		SStore(2, 1).Log(1, 0xaa).Jump("end").
		Label("rich").SStore(2, 2).SStore(3, 0xdeadbeef).Log(2, 0xbb, 0xcc).
		Label("end").Op(vm.GAS).PushU(0).Op(vm.MSTORE).PushU(32).PushU(0).Op(vm.RETURN)
	add("gas-branch", gs.Bytes(), "gas", "sstore", "log")
	// burner: loops calldata[0] (word) times, then SSTORE
	burn := vh.NewAsm().PushU(0).Op(vm.CALLDATALOAD).Label("l").PushU(1).Op(vm.SWAP1, vm.SUB, vm.DUP1).JumpI("l").Op(vm.POP).SStore(0, 5).Log(3, 1).Op(vm.STOP)
	cAddr := add("burner", burn.Bytes(), "loop", "sstore")
	// mid: forwards calldata to burner with all gas, stores the success flag and remaining gas
	mid := vh.NewAsm().Op(vm.CALLDATASIZE).PushU(0).PushU(0).Op(vm.CALLDATACOPY).
		PushU(0).PushU(0).Op(vm.CALLDATASIZE).PushU(0).PushU(0).PushAddr(cAddr).Op(vm.GAS, vm.CALL).
		PushU(1).Op(vm.ADD).PushU(0).Op(vm.SSTORE).Op(vm.GAS).PushU(1).Op(vm.SSTORE).Op(vm.STOP)
	mAddr := add("forward-63/64-mid", mid.Bytes(), "call", "gas", "sstore")
	top := vh.NewAsm().Op(vm.CALLDATASIZE).PushU(0).PushU(0).Op(vm.CALLDATACOPY).
		PushU(0).PushU(0).Op(vm.CALLDATASIZE).PushU(0).PushU(0).PushAddr(mAddr).Op(vm.GAS, vm.CALL).
		PushU(1).Op(vm.ADD).PushU(0).Op(vm.SSTORE).Log(4, 7).Op(vm.RETURNDATASIZE).PushU(0).Op(vm.MSTORE).PushU(32).PushU(0).Op(vm.RETURN)
	add("forward-63/64-top", top.Bytes(), "call", "gas", "sstore", "log")
	// refunder: toggles slots: if slot0 != 0 clear 0..3 (refund) else set them
	ref := vh.NewAsm().PushU(0).Op(vm.SLOAD).JumpI("clear").
		SStore(0, 1).SStore(1, 1).SStore(2, 1).SStore(3, 1).Op(vm.STOP).
		Label("clear").SStore(0, 0).SStore(1, 0).SStore(2, 0).SStore(3, 0).Op(vm.STOP)
	add("refund-toggle", ref.Bytes(), "sstore", "refund")
	// approve puppet: CALL erc20.approve(spender, amount) with all gas, return its data
	add("puppet-erc20", vh.Forwarder(vh.CALL, pw.erc20, true), "call", "precompile")
	add("puppet-bech32", vh.Forwarder(vh.STATICCALL, pw.bech32, true), "call", "precompile")
	// staking puppets: forwarders that own coins of their own (endowed at creation), so that delegate() through them
	// reads neither block context nor the SENDER's balance; each delegates to a validator at most once (a second
	// delegation pays out rewards, which depend on the block the call lands in: outside the premise)
	endow = vh.Ether(40)
	for k := 0; k < 12; k++ {
		add(fmt.Sprintf("puppet-staking-%d", k), vh.Forwarder(vh.CALL, pw.staking, true), "call", "precompile", "staking-write")
	}
	endow = nil
	br := pw.c.NextBlock(plansTxs(plans), nil)
	w.ResetPending()
	for i, res := range br.TxResults() {
		if res.Code != 0 {
			panic("c08: crafted deployment failed: " + res.Log)
		}
		pw.targets = append(pw.targets, &target{Addr: crypto.CreateAddress(d.Addr, base+uint64(i)), Desc: "crafted:" + names[i], Feats: featss[i]})
	}
}

// prediction case
type predCase struct {
	Target   string
	From     *vh.Acct
	To       *common.Address
	Data     []byte
	Value    *big.Int
	Gas      uint64
	FeeType  int
	Desc     string
	Feats    []string
	Access   ethtypes.AccessList
	price    *big.Int
	tip, cap *big.Int
}

func (pw *predWorld) genCase() *predCase {
	r, w := pw.r, pw.w
	pc := &predCase{From: vh.Pick(r, w.EOAs), Value: new(big.Int), FeeType: r.Intn(3)}
	bf := pw.c.BaseFee()
	pc.price = new(big.Int).Mul(bf, big.NewInt(int64(2+r.Intn(3))))
	pc.cap = new(big.Int).Mul(bf, big.NewInt(4))
	pc.tip = big.NewInt(int64(r.Intn(1000)))
	word := func(n uint64) []byte { return vh.WordU(n) }
	k := r.Intn(20)
	switch {
	case k < 2: // creation
		p := vh.GenProgram(r, vh.ProgOpts{Pool: w.Pool, Callees: pw.addrs(), MaxLen: 5, Depth: 2, NoBlockCtx: true})
		pc.Data, pc.Desc, pc.Feats, pc.Target = vh.Deployer(p.Code), "create: "+strings.Join(p.Desc, "; "), append(feats(p), "creation"), "create"
		pc.Gas = uint64(vh.Pick(r, []int{53_500, 60_000, 90_000, 150_000, 400_000, 3_000_000}))
	case k < 5: // direct precompile calls that read no balance
		pc.Target = "precompile"
		pc.Feats = []string{"precompile"}
		switch r.Intn(5) {
		case 0:
			pc.To, pc.Desc = addrPtr(pw.erc20), "erc20.approve"
			pc.Data = mustPack(cpcabi.Erc20CpcInfo, "approve", vh.Pick(r, w.Pool), big.NewInt(int64(r.Intn(1_000_000))))
		case 1:
			pc.To, pc.Desc = addrPtr(pw.erc20), "erc20.allowance"
			pc.Data = mustPack(cpcabi.Erc20CpcInfo, "allowance", vh.Pick(r, w.Pool), vh.Pick(r, w.Pool))
		case 2:
			pc.To, pc.Desc = addrPtr(pw.erc20), "erc20."+vh.Pick(r, []string{"name", "symbol", "decimals", "totalSupply"})
			pc.Data = mustPack(cpcabi.Erc20CpcInfo, strings.TrimPrefix(pc.Desc, "erc20."))
		case 3:
			pc.To, pc.Desc = addrPtr(pw.bech32), "bech32.bech32EncodeAddress"
			pc.Data = mustPack(cpcabi.Bech32CpcInfo, "bech32EncodeAddress", "evm", vh.Pick(r, w.Pool))
		default:
			pc.To, pc.Desc = addrPtr(pw.staking), "staking.delegationOf"
			pc.Data = mustPack(cpcabi.StakingCpcInfo, "delegationOf", vh.Pick(r, w.Pool), common.BytesToAddress(pw.c.Vals[0].Oper))
		}
		pc.Gas = uint64(vh.Pick(r, []int{21_700, 22_500, 30_000, 52_000, 100_000, 400_000}))
	case k >= 18: // no call data, destination without code: plain accounts, go-ethereum's precompiles, the custom ones
		pc.Target = "codeless"
		pc.Feats = []string{"codeless"}
		switch r.Intn(4) {
		case 0:
			pc.To, pc.Desc = addrPtr(vh.Pick(r, w.Pool)), "transfer to a plain account"
		case 1:
			pc.To, pc.Desc = addrPtr(common.BytesToAddress([]byte{byte(vh.Pick(r, []int{2, 3, 4}))})), "empty call data to a go-ethereum precompile (sha256 / ripemd160 / identity)"
		case 2:
			pc.To, pc.Desc = addrPtr(vh.Pick(r, []common.Address{pw.erc20, pw.bech32, pw.staking})), "empty call data to a custom precompile"
		default:
			pc.To, pc.Desc = addrPtr(common.BytesToAddress(r.Bytes(20))), "transfer to a fresh address"
		}
		if r.Bool() {
			pc.Value = big.NewInt(int64(1 + r.Intn(5000)))
		}
		pc.Gas = uint64(vh.Pick(r, []int{21_000, 21_010, 21_015, 21_100, 23_400, 25_300, 30_000, 100_000}))
	default:
		t := vh.Pick(r, pw.targets)
		if k < 8 { // a staking puppet that has a validator left for a first delegation
			var free []*target
			for _, c := range pw.targets {
				if strings.HasPrefix(c.Desc, "crafted:puppet-staking") {
					for _, v := range pw.c.Vals {
						if !pw.delegated[c.Desc+"/"+v.Oper.String()] {
							free = append(free, c)
							break
						}
					}
				}
			}
			if len(free) > 0 {
				t = vh.Pick(r, free)
			}
		}
		pc.To, pc.Desc, pc.Feats, pc.Target = addrPtr(t.Addr), t.Desc, t.Feats, "contract"
		switch {
		case strings.HasPrefix(t.Desc, "crafted:forward") || t.Desc == "crafted:burner":
			pc.Data = word(uint64(vh.Pick(r, []int{1, 10, 200, 1000, 5000, 40000})))
		case t.Desc == "crafted:puppet-erc20":
			pc.Data = mustPack(cpcabi.Erc20CpcInfo, "approve", vh.Pick(r, w.Pool), big.NewInt(int64(r.Intn(1_000_000))))
		case t.Desc == "crafted:puppet-bech32":
			pc.Data = mustPack(cpcabi.Bech32CpcInfo, "bech32EncodeAddress", "evm", vh.Pick(r, w.Pool))
		case strings.HasPrefix(t.Desc, "crafted:puppet-staking"):
			if pw.delegated == nil {
				pw.delegated = map[string]bool{}
			}
			var val *vh.Validator
			for _, v := range pw.c.Vals {
				if !pw.delegated[t.Desc+"/"+v.Oper.String()] {
					val = v
					break
				}
			}
			if val == nil { // every validator used by this puppet: a view through it
				pc.Data = mustPack(cpcabi.StakingCpcInfo, "delegationOf", t.Addr, common.BytesToAddress(pw.c.Vals[0].Oper))
				break
			}
			pw.delegated[t.Desc+"/"+val.Oper.String()] = true
			pc.Data = mustPack(cpcabi.StakingCpcInfo, "delegate", common.BytesToAddress(val.Oper), vh.Ether(int64(1+r.Intn(5))))
			pc.Desc += " delegate"
		default:
			pc.Data = r.Bytes(vh.Pick(r, []int{0, 0, 4, 36, 100}))
		}
		pc.Gas = uint64(vh.Pick(r, []int{21_000, 21_700, 23_000, 26_000, 30_000, 45_000, 70_000, 120_000, 300_000, 1_000_000, 8_000_000}))
		if strings.HasSuffix(pc.Desc, " delegate") && !r.Chance(1, 4) { // the method asks for 300000 gas: around and above it
			pc.Gas = uint64(vh.Pick(r, []int{330_000, 340_000, 400_000, 1_000_000, 8_000_000}))
		}
		if r.Chance(1, 5) {
			pc.Value = big.NewInt(int64(1 + r.Intn(5000)))
		}
	}
	if pc.FeeType != 0 && r.Bool() {
		for i := r.Intn(3); i >= 0; i-- {
			t := ethtypes.AccessTuple{Address: vh.Pick(r, w.Pool), StorageKeys: []common.Hash{}}
			if pc.To != nil && r.Bool() {
				t.Address = *pc.To
			}
			for j := r.Intn(3); j > 0; j-- {
				t.StorageKeys = append(t.StorageKeys, common.BigToHash(big.NewInt(int64(r.Intn(4)))))
			}
			pc.Access = append(pc.Access, t)
		}
	}
	// keep most limits at or above the intrinsic gas (a limit below it is refused on both sides: trivial)
	if ig := vh.IntrinsicGas(ethtypes.NewTx(pc.tx(0, pc.Gas))); pc.Gas < ig && !r.Chance(1, 5) {
		pc.Gas = ig + uint64(vh.Pick(r, []int{0, 1, 50, 700, 2300, 9000}))
	}
	return pc
}

func (pw *predWorld) addrs() []common.Address {
	var out []common.Address
	for _, t := range pw.targets {
		out = append(out, t.Addr)
	}
	return out
}

// args renders the eth_call arguments that mirror the transaction (gas 0 = leave the field out).
func (pc *predCase) args(gas uint64) []byte {
	from := pc.From.Addr
	a := evmtypes.TransactionArgs{From: &from, To: pc.To}
	if gas > 0 {
		g := hexutil.Uint64(gas)
		a.Gas = &g
	}
	switch pc.FeeType {
	case 2:
		a.MaxFeePerGas, a.MaxPriorityFeePerGas = (*hexutil.Big)(pc.cap), (*hexutil.Big)(pc.tip)
	default:
		a.GasPrice = (*hexutil.Big)(pc.price)
	}
	if pc.FeeType != 0 && pc.Access != nil {
		al := pc.Access
		a.AccessList = &al
	}
	if pc.Value.Sign() > 0 {
		a.Value = (*hexutil.Big)(pc.Value)
	}
	d := hexutil.Bytes(pc.Data)
	a.Data = &d
	bz, _ := json.Marshal(a)
	return bz
}

func (pc *predCase) tx(nonce, gas uint64) ethtypes.TxData {
	switch pc.FeeType {
	case 1:
		return &ethtypes.AccessListTx{ChainID: big.NewInt(vh.EIP155ID), Nonce: nonce, To: pc.To, Value: pc.Value, Gas: gas, GasPrice: pc.price, Data: pc.Data, AccessList: pc.Access}
	case 2:
		return vh.DynTx(nonce, pc.To, pc.Value, gas, pc.cap, pc.tip, pc.Data, pc.Access)
	default:
		return vh.LegacyTx(nonce, pc.To, pc.Value, gas, pc.price, pc.Data)
	}
}

func (pc *predCase) describe() map[string]any {
	to := "create"
	if pc.To != nil {
		to = pc.To.Hex()
	}
	return map[string]any{"from": pc.From.Addr.Hex(), "to": to, "gas": pc.Gas, "value": pc.Value.String(), "fee_type": pc.FeeType, "data": hex.EncodeToString(pc.Data),
		"access_list": pc.Access, "program": trunc(pc.Desc, 1500), "features": pc.Feats}
}

// outcome of one execution, from the query answer or from the delivered transaction
type outcome struct {
	CoreErr string // message refused before execution (no receipt)
	VmErr   string
	Ret     []byte
	GasUsed uint64
	Logs    []*ethtypes.Log
	Status  uint64
}

func (o *outcome) class() string {
	switch {
	case o.CoreErr != "":
		return "refused"
	case o.VmErr == "":
		return "success"
	case strings.Contains(o.VmErr, "revert"):
		return "revert"
	case strings.Contains(o.VmErr, "out of gas"):
		return "out-of-gas"
	default:
		return "vm-error"
	}
}

func (o *outcome) brief() map[string]any {
	var logs []string
	for _, l := range o.Logs {
		logs = append(logs, fmt.Sprintf("%s %v %x", l.Address.Hex(), l.Topics, l.Data))
	}
	return map[string]any{"refused": o.CoreErr, "vm_error": o.VmErr, "ret": hex.EncodeToString(o.Ret), "gas_used": o.GasUsed, "logs": logs, "status": o.Status}
}

func fromResponse(r *evmtypes.MsgEthereumTxResponse) *outcome {
	o := &outcome{VmErr: r.VmError, Ret: r.Ret, GasUsed: r.GasUsed}
	rc := &ethtypes.Receipt{}
	if err := rc.UnmarshalBinary(r.MarshalledReceipt); err == nil {
		o.Logs, o.Status = rc.Logs, rc.Status
	}
	return o
}

func (pw *predWorld) ethCall(args []byte) *outcome {
	req := &evmtypes.EthCallRequest{Args: args, GasCap: gasCap}
	res, err := pw.c.App.Query(context.Background(), &abci.RequestQuery{Path: "/ethermint.evm.v1.Query/EthCall", Data: mustMarshal(req)})
	if err != nil {
		return &outcome{CoreErr: err.Error()}
	}
	if res.Code != 0 {
		return &outcome{CoreErr: res.Log}
	}
	var out evmtypes.MsgEthereumTxResponse
	if err := out.Unmarshal(res.Value); err != nil {
		return &outcome{CoreErr: "undecodable answer: " + err.Error()}
	}
	return fromResponse(&out)
}

func (pw *predWorld) estimate(args []byte) (uint64, string) { return pw.estimateCap(args, gasCap) }

func (pw *predWorld) estimateCap(args []byte, cap uint64) (uint64, string) {
	req := &evmtypes.EthCallRequest{Args: args, GasCap: cap}
	res, err := pw.c.App.Query(context.Background(), &abci.RequestQuery{Path: "/ethermint.evm.v1.Query/EstimateGas", Data: mustMarshal(req)})
	if err != nil {
		return 0, err.Error()
	}
	if res.Code != 0 {
		return 0, res.Log
	}
	var out evmtypes.EstimateGasResponse
	if err := out.Unmarshal(res.Value); err != nil {
		return 0, err.Error()
	}
	return out.Gas, ""
}

// deliver executes the case as the only transaction of the next block.
func (pw *predWorld) deliver(pc *predCase, gas uint64) (*outcome, *abci.ExecTxResult) {
	bz, tx := pw.c.EthTx(pc.From, pc.tx(pw.c.Nonce(pc.From.Addr), gas))
	br := pw.c.NextBlock([][]byte{bz}, nil)
	if br.Err != nil {
		return &outcome{CoreErr: "finalize: " + br.Err.Error()}, nil
	}
	res := br.TxResults()[0]
	_ = tx
	if resp := vh.EthResponse(res); resp != nil {
		return fromResponse(resp), res
	}
	// no response data: refused by the ante handler or a core error of the state transition
	o := &outcome{CoreErr: res.Log}
	if o.CoreErr == "" {
		o.CoreErr = fmt.Sprintf("code %d", res.Code)
	}
	return o, res
}

func sameLogs(a, b []*ethtypes.Log) bool {
	if len(a) != len(b) {
		return false
	}
	for i := range a {
		if a[i].Address != b[i].Address || !bytes.Equal(a[i].Data, b[i].Data) || len(a[i].Topics) != len(b[i].Topics) {
			return false
		}
		for j := range a[i].Topics {
			if a[i].Topics[j] != b[i].Topics[j] {
				return false
			}
		}
	}
	return true
}

// one prediction: eth_call(G) vs delivery(G); estimate vs delivery(estimate).
func (pw *predWorld) predict(i int) {
	run := pw.run
	pc := pw.genCase()
	label := pw.label
	// --- same gas limit
	pred := pw.ethCall(pc.args(pc.Gas))
	ample := pw.ethCall(pc.args(gasCap))
	got, res := pw.deliver(pc, pc.Gas)
	run.Eval(1)
	run.Count("predictions_compared", 1)
	run.Count("prediction_outcome:"+got.class(), 1)
	gasDep := pred.class() != ample.class() || pred.GasUsed != ample.GasUsed || !bytes.Equal(pred.Ret, ample.Ret)
	if gasDep {
		run.Count("predictions_gas_dependent", 1)
	}
	if len(got.Logs) > 0 {
		run.Count("predictions_with_logs", 1)
		if strings.HasSuffix(pc.Desc, " delegate") {
			run.Count("predictions_of_staking_delegations_with_logs", 1)
		}
	}
	fkey := strings.Join(pc.Feats, ",")
	run.Nontrivial(fmt.Sprintf("predict|%s|%s|gasdep=%v|fee%d|%s", pc.Target, got.class(), gasDep, pc.FeeType, fkey))
	run.Distinct("prediction_outcome", got.class())
	wit := func(extra map[string]any) map[string]any {
		m := map[string]any{"case": pc.describe(), "eth_call": pred.brief(), "delivered": got.brief(), "height": pw.c.Height, "world": pw.label, "index": i}
		if res != nil {
			m["tx_code"], m["tx_log"], m["tx_gas_used"] = res.Code, trunc(res.Log, 300), res.GasUsed
		}
		for k, v := range extra {
			m[k] = v
		}
		return m
	}
	switch {
	case (pred.CoreErr != "") != (got.CoreErr != ""):
		run.Violation("prediction-differs:refusal", label, wit(nil))
	case pred.CoreErr != "":
		// refused in both: nothing else to compare
	default:
		if pred.VmErr != got.VmErr {
			run.Violation("prediction-differs:vm-error", label, wit(nil))
		} else if !bytes.Equal(pred.Ret, got.Ret) {
			run.Violation("prediction-differs:return-data", label, wit(nil))
		} else if !sameLogs(pred.Logs, got.Logs) {
			run.Violation("prediction-differs:logs", label, wit(nil))
		} else if pred.GasUsed != got.GasUsed {
			run.Violation("prediction-differs:gas-used", label, wit(nil))
		} else if pred.Status != got.Status {
			run.Violation("prediction-differs:receipt-status", label, wit(nil))
		}
		if res != nil && res.Code == 0 && uint64(res.GasUsed) != got.GasUsed {
			run.Violation("prediction-differs:consensus-gas-used-vs-response", label, wit(nil))
		}
	}
	if pc.To == nil && got.CoreErr == "" && got.VmErr == "" {
		a := crypto.CreateAddress(pc.From.Addr, pw.c.Nonce(pc.From.Addr)-1)
		if len(pw.c.App.EvmKeeper.GetCode(pw.c.QueryCtx(), pw.c.App.EvmKeeper.GetCodeHash(pw.c.QueryCtx(), a.Bytes()))) > 0 && len(pw.targets) < 60 {
			pw.targets = append(pw.targets, &target{Addr: a, Desc: strings.TrimPrefix(pc.Desc, "create: "), Feats: pc.Feats})
		}
	}
	if i%40 == 7 {
		run.Sample(map[string]any{"prediction": pc.describe(), "outcome": got.class(), "gas_used": got.GasUsed, "gas_dependent": gasDep})
	}

	// --- estimate on the new state
	pc2 := pw.genCase()
	est, estErr := pw.estimate(pc2.args(0))
	amp2 := pw.ethCall(pc2.args(gasCap))
	run.Eval(1)
	if estErr != "" {
		run.Count("estimates_refused", 1)
		// an estimate is refused only when the call fails with ample gas too
		if amp2.CoreErr == "" && amp2.VmErr == "" {
			run.Violation("estimate-refused-although-call-succeeds", label, map[string]any{"case": pc2.describe(), "estimate_error": estErr, "eth_call_ample": amp2.brief(), "world": pw.label})
		}
		return
	}
	pred2 := pw.ethCall(pc2.args(est))
	got2, res2 := pw.deliver(pc2, est)
	run.Count("estimates_delivered", 1)
	run.Nontrivial(fmt.Sprintf("estimate|%s|%s|fee%d|%s", pc2.Target, got2.class(), pc2.FeeType, strings.Join(pc2.Feats, ",")))
	wit2 := func() map[string]any {
		m := map[string]any{"case": pc2.describe(), "estimate": est, "eth_call_ample_gas": amp2.brief(), "eth_call_with_estimate": pred2.brief(), "delivered_with_estimate": got2.brief(), "height": pw.c.Height, "world": pw.label, "index": i}
		if res2 != nil {
			m["tx_code"], m["tx_log"] = res2.Code, trunc(res2.Log, 300)
		}
		return m
	}
	switch {
	case got2.CoreErr != "" && strings.Contains(got2.CoreErr, "gas"):
		run.Violation("estimate-insufficient:refused-for-gas", label, wit2())
	case got2.CoreErr != "":
		run.Violation("estimate-insufficient:refused", label, wit2())
	case strings.Contains(got2.VmErr, "out of gas"):
		run.Violation("estimate-insufficient:out-of-gas", label, wit2())
	case got2.VmErr != "":
		// an estimate is only returned for a call that succeeds with that limit
		run.Violation("estimate-delivery-fails:"+got2.class(), label, wit2())
	case pred2.CoreErr != "" || pred2.VmErr != got2.VmErr || !bytes.Equal(pred2.Ret, got2.Ret) || !sameLogs(pred2.Logs, got2.Logs) || pred2.GasUsed != got2.GasUsed:
		run.Violation("prediction-differs:at-estimated-gas-limit", label, wit2())
	default:
		pw.stats.add(est, got2.GasUsed)
		if est > got2.GasUsed {
			run.Count("estimates_above_gas_used", 1)
		}
		if got2.class() != amp2.class() {
			run.Count("estimates_outcome_differs_from_ample_gas_call", 1) // non-monotonic in gas: not demanded by the statement
		}
	}

	// --- the same request with an allowance that is too small: the caller names a large gas limit, the node's cap is
	// about half of what the call needs. Either no estimate is returned, or the returned one must work as a gas limit.
	if est >= 44000 && got2.CoreErr == "" && got2.VmErr == "" {
		pc3 := pc2
		tight := est / 2
		if tight < 21000 {
			tight = 21000
		}
		e3, e3err := pw.estimateCap(pc3.args(gasCap), tight)
		run.Eval(1)
		if e3err != "" {
			run.Count("estimates_refused_under_a_tight_cap", 1)
			run.Nontrivial(fmt.Sprintf("estimate-tight-cap|refused|%s", pc3.Target))
			return
		}
		run.Count("estimates_returned_under_a_tight_cap", 1)
		got3, res3 := pw.deliver(pc3, e3)
		run.Nontrivial(fmt.Sprintf("estimate-tight-cap|returned|%s|%s", pc3.Target, got3.class()))
		if got3.CoreErr != "" || got3.VmErr != "" {
			m := map[string]any{"case": pc3.describe(), "gas_named_by_caller": gasCap, "gas_cap_of_the_request": tight, "estimate_with_ample_cap": est, "estimate_returned": e3,
				"delivered_with_returned_estimate": got3.brief(), "height": pw.c.Height, "world": pw.label, "index": i}
			if res3 != nil {
				m["tx_code"], m["tx_log"] = res3.Code, trunc(res3.Log, 300)
			}
			sig := "estimate-insufficient:under-tight-cap:" + got3.class()
			if strings.Contains(got3.VmErr, "out of gas") || strings.Contains(got3.CoreErr, "gas") {
				sig = "estimate-insufficient:under-tight-cap:out-of-gas"
			}
			run.Violation(sig, label, m)
		}
	}
}

func runPredict(run *vh.Run, label string, idx, n int, stats *ratioStats) {
	pw := newPredWorld(run, label, idx, stats)
	defer pw.c.Cleanup()
	for i := 0; i < n; i++ {
		pw.predict(i)
	}
}
