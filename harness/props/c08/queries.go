package c08

import (
	"encoding/hex"
	"encoding/json"
	"fmt"
	"math/big"
	"strings"

	sdk "github.com/cosmos/cosmos-sdk/types"
	sdkquery "github.com/cosmos/cosmos-sdk/types/query"
	authtypes "github.com/cosmos/cosmos-sdk/x/auth/types"
	banktypes "github.com/cosmos/cosmos-sdk/x/bank/types"
	distrtypes "github.com/cosmos/cosmos-sdk/x/distribution/types"
	govv1 "github.com/cosmos/cosmos-sdk/x/gov/types/v1"
	minttypes "github.com/cosmos/cosmos-sdk/x/mint/types"
	slashingtypes "github.com/cosmos/cosmos-sdk/x/slashing/types"
	stakingtypes "github.com/cosmos/cosmos-sdk/x/staking/types"
	"github.com/cosmos/gogoproto/proto"
	"github.com/ethereum/go-ethereum/common"
	"github.com/ethereum/go-ethereum/common/hexutil"
	ethtypes "github.com/ethereum/go-ethereum/core/types"
	"github.com/ethereum/go-ethereum/core/vm"

	cpcabi "github.com/EscanBE/evermint/v12/x/cpc/abi"
	cpctypes "github.com/EscanBE/evermint/v12/x/cpc/types"
	evmtypes "github.com/EscanBE/evermint/v12/x/evm/types"
	feemarkettypes "github.com/EscanBE/evermint/v12/x/feemarket/types"
	vauthtypes "github.com/EscanBE/evermint/v12/x/vauth/types"

	"verifharness/vh"
)

const gasCap = 25_000_000

// query is one request against the ABCI Query entry point (gRPC route or legacy path).
type query struct {
	Kind     string // e.g. evm/EthCall
	Sub      string // payload class
	Path     string
	Data     []byte
	Height   int64 // 0 = latest
	HClass   string
	CpcWrite bool // simulates a state-changing custom-precompile method
	Desc     map[string]any
	// direct keeper variant (EthCall / EstimateGas only)
	ethReq *evmtypes.EthCallRequest
}

func describeQueries(qs []*query) []map[string]any {
	var out []map[string]any
	for _, q := range qs {
		out = append(out, q.describe())
	}
	return out
}

func (q *query) describe() map[string]any {
	m := map[string]any{"kind": q.Kind, "sub": q.Sub, "path": q.Path, "height": q.Height, "height_class": q.HClass, "request_hex": hex.EncodeToString(q.Data)}
	for k, v := range q.Desc {
		m[k] = v
	}
	return m
}

// callShape is an Ethereum call "whatever the simulated code does".
type callShape struct {
	Sub      string
	From     *vh.Acct
	To       *common.Address
	Value    *big.Int
	Data     []byte
	Gas      uint64
	CpcWrite bool
}

func (s *callShape) desc() map[string]any {
	to := "create"
	if s.To != nil {
		to = s.To.Hex()
	}
	return map[string]any{"call": s.Sub, "from": s.From.Addr.Hex(), "to": to, "value": s.Value.String(), "gas": s.Gas, "data": hex.EncodeToString(s.Data)}
}

func addrPtr(a common.Address) *common.Address { return &a }

// genCall draws a call shape from the classes the property names: contract creation,
// self-destruct, storage writes, and state-changing precompile calls (directly and through puppets).
func (e *env) genCall() *callShape {
	r, w := e.r, e.w
	s := &callShape{From: vh.Pick(r, w.EOAs), Value: new(big.Int), Gas: uint64(vh.Pick(r, []int{60_000, 300_000, 1_500_000, 5_000_000}))}
	amt := func() *big.Int {
		switch r.Intn(5) {
		case 0:
			return big.NewInt(0)
		case 1:
			return big.NewInt(int64(1 + r.Intn(1000)))
		case 2:
			return vh.Ether(int64(1 + r.Intn(5)))
		case 3:
			return vh.Ether(100000) // more than anybody owns
		default:
			return new(big.Int).Sub(new(big.Int).Lsh(big.NewInt(1), 256), big.NewInt(1))
		}
	}
	other := func() common.Address { return vh.Pick(r, w.Pool) }
	val := func() common.Address { return vh.Pick(r, e.valEvm) }
	erc := func(method string, args ...any) { s.Data = mustPack(cpcabi.Erc20CpcInfo, method, args...) }
	stk := func(method string, args ...any) { s.Data = mustPack(cpcabi.StakingCpcInfo, method, args...) }
	k := r.Intn(30)
	switch {
	case k < 3:
		s.Sub = "create"
		p := vh.GenProgram(r, vh.ProgOpts{Pool: w.Pool, MaxLen: 5, Depth: 2})
		s.Data = vh.Deployer(p.Code)
		if r.Chance(1, 3) {
			s.Data = vh.NewAsm().SStore(0, 1).SStore(1, 2).Log(9, 9).PushU(1).PushU(0).Op(vm.RETURN).Bytes()
			s.Value = big.NewInt(int64(r.Intn(1000)))
		}
		s.Gas = 3_000_000
	case k < 7:
		s.Sub = "generated"
		s.To = addrPtr(vh.Pick(r, w.Contracts).Addr)
		s.Data = r.Bytes(vh.Pick(r, []int{0, 4, 36, 100}))
		if r.Chance(1, 4) {
			s.Value = big.NewInt(int64(r.Intn(100000)))
		}
	case k < 9:
		s.Sub = "selfdestruct"
		s.To = addrPtr(e.destructor)
	case k < 11:
		s.Sub = "factory"
		s.To = addrPtr(e.factory)
		s.Gas = 1_500_000
	case k < 13:
		s.Sub = "sstore"
		s.To = addrPtr(e.writer)
		s.Data = r.Bytes(r.Intn(8))
	case k < 14:
		s.Sub = "transfer-new-account"
		s.To = addrPtr(common.BytesToAddress(r.Bytes(20)))
		s.Value = big.NewInt(int64(1 + r.Intn(1_000_000)))
	case k < 20: // ERC-20 precompile, directly
		s.To, s.CpcWrite, s.Gas = addrPtr(e.erc20), true, 500_000
		switch r.Intn(5) {
		case 0:
			s.Sub = "erc20-transfer"
			erc("transfer", other(), amt())
		case 1:
			s.Sub = "erc20-approve"
			erc("approve", other(), amt())
		case 2:
			s.Sub = "erc20-burn"
			erc("burn", amt())
		case 3:
			s.Sub = "erc20-transferFrom" // EOA1 holds an allowance of EOA0, EOA2 an unlimited one of EOA1
			s.From = w.EOAs[1+r.Intn(2)]
			owner := w.EOAs[0].Addr
			if s.From == w.EOAs[2] {
				owner = w.EOAs[1].Addr
			}
			erc("transferFrom", owner, other(), amt())
		default:
			s.Sub = "erc20-burnFrom"
			s.From = w.EOAs[1]
			erc("burnFrom", w.EOAs[0].Addr, amt())
		}
	case k < 25: // staking precompile, directly
		s.To, s.CpcWrite, s.Gas = addrPtr(e.staking), true, 3_000_000
		switch r.Intn(6) {
		case 0:
			s.Sub = "staking-delegate"
			stk("delegate", val(), amt())
		case 1:
			s.Sub = "staking-undelegate"
			s.From = w.EOAs[1]
			stk("undelegate", e.valEvm[0], amt())
		case 2:
			s.Sub = "staking-redelegate"
			s.From = w.EOAs[1]
			stk("redelegate", e.valEvm[0], e.valEvm[1], amt())
		case 3:
			s.Sub = "staking-withdrawRewards"
			s.From = w.EOAs[1+r.Intn(2)]
			stk("withdrawRewards")
		case 4:
			s.Sub = "staking-withdrawReward"
			s.From = w.EOAs[1+r.Intn(2)]
			stk("withdrawReward", val())
		default:
			s.Sub = "staking-transfer"
			s.From = w.EOAs[1]
			stk("transfer", other(), amt())
		}
	case k < 29: // through puppets: the forwarder is the caller the precompile sees
		kind := vh.Pick(r, []string{"CALL", "CALL", "DELEGATECALL", "STATICCALL", "CALLCODE"})
		s.CpcWrite, s.Gas = true, 3_000_000
		if r.Bool() {
			s.To = addrPtr(e.fw[kind+"/erc20"])
			switch r.Intn(3) {
			case 0:
				s.Sub = "puppet-" + kind + "-erc20-transfer"
				erc("transfer", other(), amt())
			case 1:
				s.Sub = "puppet-" + kind + "-erc20-approve"
				erc("approve", other(), amt())
			default:
				s.Sub = "puppet-" + kind + "-erc20-transferFrom"
				erc("transferFrom", w.EOAs[0].Addr, other(), amt())
			}
		} else {
			s.To = addrPtr(e.fw[kind+"/staking"])
			s.Sub = "puppet-" + kind + "-staking-delegate"
			stk("delegate", val(), amt())
		}
	default:
		s.Sub = "bech32-view"
		s.To = addrPtr(e.bech32)
		s.Data = mustPack(cpcabi.Bech32CpcInfo, "bech32EncodeAddress", "evm", other())
		s.Gas = 500_000
	}
	return s
}

func (s *callShape) args(withGas bool) []byte {
	from := s.From.Addr
	a := evmtypes.TransactionArgs{From: &from, To: s.To}
	if withGas {
		g := hexutil.Uint64(s.Gas)
		a.Gas = &g
	}
	if s.Value.Sign() > 0 {
		a.Value = (*hexutil.Big)(s.Value)
	}
	d := hexutil.Bytes(s.Data)
	a.Data = &d
	bz, err := json.Marshal(a)
	if err != nil {
		panic(err)
	}
	return bz
}

// signed builds the signed transaction of the shape with the sender's committed nonce (+ offset).
func (e *env) signed(s *callShape, nonceOff uint64) (*ethtypes.Transaction, []byte) {
	tx := vh.SignEth(s.From, vh.LegacyTx(e.q.Nonce(s.From.Addr)+nonceOff, s.To, s.Value, s.Gas, e.price(), s.Data))
	return tx, e.q.WrapEth(tx, s.From.Addr)
}

func ethMsg(tx *ethtypes.Transaction, from *vh.Acct) *evmtypes.MsgEthereumTx {
	bin, err := tx.MarshalBinary()
	if err != nil {
		panic(err)
	}
	return &evmtypes.MsgEthereumTx{MarshalledTx: bin, From: from.Bech32()}
}

func mustMarshal(m proto.Message) []byte {
	bz, err := proto.Marshal(m)
	if err != nil {
		panic(err)
	}
	return bz
}

var traceConfigs = []struct {
	name string
	cfg  *evmtypes.TraceConfig
}{
	{"struct-default", nil},
	{"struct-memory-returndata", &evmtypes.TraceConfig{EnableMemory: true, EnableReturnData: true}},
	{"struct-nostack-nostorage-limit", &evmtypes.TraceConfig{DisableStack: true, DisableStorage: true, Limit: 40}},
	{"callTracer", &evmtypes.TraceConfig{Tracer: "callTracer"}},
	{"callTracer-onlyTopCall", &evmtypes.TraceConfig{Tracer: "callTracer", TracerJsonConfig: `{"onlyTopCall":true}`}},
	{"prestateTracer", &evmtypes.TraceConfig{Tracer: "prestateTracer"}},
	{"4byteTracer", &evmtypes.TraceConfig{Tracer: "4byteTracer"}},
	{"noopTracer", &evmtypes.TraceConfig{Tracer: "noopTracer"}},
	{"revertReasonTracer", &evmtypes.TraceConfig{Tracer: "revertReasonTracer"}},
	{"js-opcountTracer", &evmtypes.TraceConfig{Tracer: "opcountTracer"}},
	{"js-prestateTracerLegacy", &evmtypes.TraceConfig{Tracer: "prestateTracerLegacy"}},
	{"js-callTracerLegacy", &evmtypes.TraceConfig{Tracer: "callTracerLegacy", Timeout: "10s"}},
	{"js-custom", &evmtypes.TraceConfig{Tracer: `{n:0, step: function(log, db) { this.n++; db.getBalance(log.contract.getAddress()); db.getState(log.contract.getAddress(), "0x0000000000000000000000000000000000000000000000000000000000000000") }, fault: function() {}, result: function() { return this.n }}`}},
}

// genQuery draws one query of the mix.
func (e *env) genQuery() *query {
	r := e.r
	q := &query{HClass: "latest", Desc: map[string]any{}}
	latest := e.q.Height
	if r.Chance(2, 5) && latest > 3 {
		q.Height = int64(r.Range(2, int(latest)-1))
		q.HClass = "historical"
	} else if r.Bool() {
		q.Height = latest // explicit latest height instead of 0
	}
	anyAddr := func() common.Address {
		switch r.Intn(5) {
		case 0:
			return vh.Pick(r, e.w.Contracts).Addr
		case 1:
			return e.erc20
		case 2:
			return e.fw["CALL/erc20"]
		default:
			return vh.Pick(r, e.w.Pool)
		}
	}
	grpc := func(kind, path string, m proto.Message) {
		q.Kind, q.Path, q.Data = kind, path, mustMarshal(m)
	}
	if len(e.traceOld) > 0 && r.Chance(1, 7) { // the same trace of a recorded block / transaction again, some blocks later
		old := vh.Pick(r, e.traceOld)
		c := *old
		c.Desc = map[string]any{"re-asked": true}
		for k, v := range old.Desc {
			c.Desc[k] = v
		}
		return &c
	}
	k := r.Intn(100)
	switch {
	case k < 24: // EthCall
		s := e.genCall()
		req := &evmtypes.EthCallRequest{Args: s.args(true), GasCap: gasCap}
		grpc("evm/EthCall", "/ethermint.evm.v1.Query/EthCall", req)
		q.Sub, q.CpcWrite, q.ethReq, q.Desc = s.Sub, s.CpcWrite, req, s.desc()
	case k < 36: // EstimateGas
		s := e.genCall()
		req := &evmtypes.EthCallRequest{Args: s.args(r.Bool()), GasCap: gasCap}
		grpc("evm/EstimateGas", "/ethermint.evm.v1.Query/EstimateGas", req)
		q.Sub, q.CpcWrite, q.ethReq, q.Desc = s.Sub, s.CpcWrite, req, s.desc()
	case k < 48: // TraceTx
		e.genTrace(q, false)
	case k < 56: // TraceBlock
		e.genTrace(q, true)
	case k < 59:
		grpc("evm/Account", "/ethermint.evm.v1.Query/Account", &evmtypes.QueryAccountRequest{Address: anyAddr().Hex()})
	case k < 61:
		grpc("evm/CosmosAccount", "/ethermint.evm.v1.Query/CosmosAccount", &evmtypes.QueryCosmosAccountRequest{Address: anyAddr().Hex()})
	case k < 63:
		grpc("evm/ValidatorAccount", "/ethermint.evm.v1.Query/ValidatorAccount", &evmtypes.QueryValidatorAccountRequest{ConsAddress: vh.Pick(r, e.q.Vals).Cons.String()})
	case k < 65:
		grpc("evm/Balance", "/ethermint.evm.v1.Query/Balance", &evmtypes.QueryBalanceRequest{Address: anyAddr().Hex()})
	case k < 68:
		grpc("evm/Storage", "/ethermint.evm.v1.Query/Storage", &evmtypes.QueryStorageRequest{Address: anyAddr().Hex(), Key: common.BigToHash(big.NewInt(int64(r.Intn(6)))).Hex()})
	case k < 70:
		grpc("evm/Code", "/ethermint.evm.v1.Query/Code", &evmtypes.QueryCodeRequest{Address: anyAddr().Hex()})
	case k < 71:
		grpc("evm/Params", "/ethermint.evm.v1.Query/Params", &evmtypes.QueryParamsRequest{})
	case k < 72:
		grpc("evm/BaseFee", "/ethermint.evm.v1.Query/BaseFee", &evmtypes.QueryBaseFeeRequest{})
	case k < 74:
		grpc("feemarket/Params", "/ethermint.feemarket.v1.Query/Params", &feemarkettypes.QueryParamsRequest{})
	case k < 76:
		grpc("feemarket/BaseFee", "/ethermint.feemarket.v1.Query/BaseFee", &feemarkettypes.QueryBaseFeeRequest{})
	case k < 78:
		grpc("cpc/CustomPrecompiledContracts", "/evermint.cpc.v1.Query/CustomPrecompiledContracts", &cpctypes.QueryCustomPrecompiledContractsRequest{Pagination: &sdkquery.PageRequest{Limit: uint64(1 + r.Intn(5))}})
	case k < 80:
		grpc("cpc/CustomPrecompiledContract", "/evermint.cpc.v1.Query/CustomPrecompiledContract", &cpctypes.QueryCustomPrecompiledContractRequest{Address: vh.Pick(r, []common.Address{e.erc20, e.staking, e.bech32, e.writer}).Hex()})
	case k < 82:
		grpc("cpc/Erc20CustomPrecompiledContractByDenom", "/evermint.cpc.v1.Query/Erc20CustomPrecompiledContractByDenom", &cpctypes.QueryErc20CustomPrecompiledContractByDenomRequest{MinDenom: vh.Pick(r, []string{vh.Denom, "nope"})})
	case k < 83:
		grpc("cpc/Params", "/evermint.cpc.v1.Query/Params", &cpctypes.QueryParamsRequest{})
	case k < 86:
		grpc("vauth/ProofExternalOwnedAccount", "/evermint.vauth.v1.Query/ProofExternalOwnedAccount", &vauthtypes.QueryProofExternalOwnedAccountRequest{Account: vh.Pick(r, []string{e.w.EOAs[5].Bech32(), e.w.EOAs[5].Bech32(), sdk.AccAddress(anyAddr().Bytes()).String()})})
	case k < 88:
		grpc("sdk/bank.AllBalances", "/cosmos.bank.v1beta1.Query/AllBalances", &banktypes.QueryAllBalancesRequest{Address: sdk.AccAddress(anyAddr().Bytes()).String()})
	case k < 89:
		grpc("sdk/bank.TotalSupply", "/cosmos.bank.v1beta1.Query/TotalSupply", &banktypes.QueryTotalSupplyRequest{})
	case k < 91:
		grpc("sdk/staking.Validators", "/cosmos.staking.v1beta1.Query/Validators", &stakingtypes.QueryValidatorsRequest{})
	case k < 92:
		grpc("sdk/staking.DelegatorDelegations", "/cosmos.staking.v1beta1.Query/DelegatorDelegations", &stakingtypes.QueryDelegatorDelegationsRequest{DelegatorAddr: e.w.EOAs[1+r.Intn(3)].Bech32()})
	case k < 94:
		grpc("sdk/auth.Account", "/cosmos.auth.v1beta1.Query/Account", &authtypes.QueryAccountRequest{Address: vh.Pick(r, e.w.EOAs).Bech32()})
	case k < 96: // computes rewards on a branch: the classic query with internal writes
		grpc("sdk/distribution.DelegationTotalRewards", "/cosmos.distribution.v1beta1.Query/DelegationTotalRewards", &distrtypes.QueryDelegationTotalRewardsRequest{DelegatorAddress: e.w.EOAs[1+r.Intn(3)].Bech32()})
	case k < 97:
		switch r.Intn(3) {
		case 0:
			grpc("sdk/gov.Params", "/cosmos.gov.v1.Query/Params", &govv1.QueryParamsRequest{ParamsType: "voting"})
		case 1:
			grpc("sdk/mint.Inflation", "/cosmos.mint.v1beta1.Query/Inflation", &minttypes.QueryInflationRequest{})
		default:
			grpc("sdk/slashing.SigningInfos", "/cosmos.slashing.v1beta1.Query/SigningInfos", &slashingtypes.QuerySigningInfosRequest{})
		}
	case k < 99: // legacy store path
		q.Kind = "store/key"
		q.Path = "/store/" + vh.Pick(r, []string{"evm", "bank", "acc", "cpc", "feemarket"}) + "/key"
		q.Data = append([]byte{0x01}, anyAddr().Bytes()...)
	default: // legacy simulate path
		s := e.genCall()
		_, bz := e.signed(s, 0)
		q.Kind, q.Path, q.Data, q.Sub, q.CpcWrite, q.Desc = "app/simulate", "/app/simulate", bz, s.Sub, s.CpcWrite, s.desc()
		q.Height, q.HClass = 0, "latest"
	}
	return q
}

// genTrace fills a TraceTx / TraceBlock request: historical = a recorded block traced on the state
// of its parent height, exactly as the JSON-RPC backend does; latest = freshly signed transactions
// (creation, self-destruct, precompile writes ...) traced on the latest state.
func (e *env) genTrace(q *query, block bool) {
	r := e.r
	tc := vh.Pick(r, traceConfigs)
	q.Desc["tracer"] = tc.name
	var rec *blockRec
	if q.HClass == "historical" {
		var cands []*blockRec
		for _, b := range e.hist {
			if len(b.EthMsgs) > 0 && b.Height >= 2 {
				cands = append(cands, b)
			}
		}
		if len(cands) > 0 {
			rec = vh.Pick(r, cands)
			var ww []*blockRec
			for _, b := range cands {
				if b.Writer {
					ww = append(ww, b)
				}
			}
			if len(ww) > 0 && r.Chance(2, 3) { // prefer blocks whose execution depended on their own time, traced with the struct logger
				rec = vh.Pick(r, ww)
				if r.Bool() {
					tc = traceConfigs[0]
					q.Desc["tracer"] = tc.name
				}
			}
		}
	}
	if rec != nil {
		q.Height = rec.Height - 1
		q.HClass = "historical"
		q.Desc["traced_block"] = rec.Height
		if block {
			req := &evmtypes.QueryTraceBlockRequest{Txs: rec.EthMsgs, TraceConfig: tc.cfg, BlockNumber: rec.Height, BlockHash: hex.EncodeToString(rec.Hash), BlockTime: rec.Time, ProposerAddress: rec.Proposer}
			q.Kind, q.Path, q.Data, q.Sub = "evm/TraceBlock", "/ethermint.evm.v1.Query/TraceBlock", mustMarshal(req), "recorded-block"
			q.Desc["txs"] = len(rec.EthMsgs)
			// (a trace replays the Ethereum transactions only: an entry is judged against the execution when it and everything
			// ahead of it was executed and no Cosmos-lane transaction stands ahead of it in the block)
			prefix := 0
			for k, x := range rec.EthExec {
				if !x || !rec.EthClean[k] {
					break
				}
				prefix++
			}
			if prefix > 0 && strings.HasPrefix(tc.name, "struct-") {
				q.Desc["executed_gas_used_per_tx"] = append([]uint64{}, rec.EthGas...)
				q.Desc["comparable_prefix"] = prefix
			}
		} else {
			i := r.Intn(len(rec.EthMsgs))
			req := &evmtypes.QueryTraceTxRequest{Msg: rec.EthMsgs[i], Predecessors: rec.EthMsgs[:i], TraceConfig: tc.cfg, BlockNumber: rec.Height, BlockHash: hex.EncodeToString(rec.Hash), BlockTime: rec.Time, ProposerAddress: rec.Proposer}
			q.Kind, q.Path, q.Data, q.Sub = "evm/TraceTx", "/ethermint.evm.v1.Query/TraceTx", mustMarshal(req), "recorded-tx"
			q.Desc["predecessors"] = i
			// every predecessor executed and so did the traced one: the trace re-executes exactly what the block did
			all := rec.EthExec[i] && rec.EthClean[i]
			for k := 0; k < i; k++ {
				all = all && rec.EthExec[k]
			}
			if all && strings.HasPrefix(tc.name, "struct-") {
				q.Desc["executed_gas_used"] = rec.EthGas[i]
				q.Desc["executed_gas_used_of_predecessors"] = append([]uint64{}, rec.EthGas[:i]...)
			}
		}
		return
	}
	// fresh transactions on the latest state
	q.Height, q.HClass = 0, "latest"
	n := 1 + r.Intn(3)
	var msgs []*evmtypes.MsgEthereumTx
	var subs []string
	used := map[common.Address]uint64{}
	for i := 0; i < n; i++ {
		s := e.genCall()
		tx, _ := e.signed(s, used[s.From.Addr])
		used[s.From.Addr]++
		msgs = append(msgs, ethMsg(tx, s.From))
		subs = append(subs, s.Sub)
		if s.CpcWrite {
			q.CpcWrite = true
		}
		if i == n-1 {
			q.Sub = s.Sub
		}
		q.Desc[fmt.Sprintf("tx%d", i)] = s.desc()
	}
	last := e.q
	hdrHash := hex.EncodeToString(make([]byte, 32))
	if len(e.hist) > 0 {
		hdrHash = hex.EncodeToString(e.hist[len(e.hist)-1].Hash)
	}
	if block {
		req := &evmtypes.QueryTraceBlockRequest{Txs: msgs, TraceConfig: tc.cfg, BlockNumber: last.Height, BlockHash: hdrHash, BlockTime: last.Time}
		q.Kind, q.Path, q.Data = "evm/TraceBlock", "/ethermint.evm.v1.Query/TraceBlock", mustMarshal(req)
	} else {
		req := &evmtypes.QueryTraceTxRequest{Msg: msgs[n-1], Predecessors: msgs[:n-1], TraceConfig: tc.cfg, BlockNumber: last.Height, BlockHash: hdrHash, BlockTime: last.Time}
		q.Kind, q.Path, q.Data = "evm/TraceTx", "/ethermint.evm.v1.Query/TraceTx", mustMarshal(req)
	}
}
