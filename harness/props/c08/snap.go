package c08

import (
	"bytes"
	"fmt"

	abci "github.com/cometbft/cometbft/abci/types"
	tmproto "github.com/cometbft/cometbft/proto/tendermint/types"
	sdk "github.com/cosmos/cosmos-sdk/types"
	"github.com/cosmos/gogoproto/proto"

	"verifharness/vh"
)

// stateSnap is everything the property says a query must leave untouched.
type stateSnap struct {
	Root      vh.Dump // committed stores as the root multistore serves them (what the next block starts from)
	RootHash  string
	Transient vh.Dump // root transient stores (empty between blocks)
	TransHash string
	Check     vh.Dump // BaseApp check-state (mempool view)
	CheckHash string
	CommitID  string
	Working   string // multistore working hash = the app hash the next FinalizeBlock would start from
	Hist      vh.Dump
	HistHash  string
	HistH     int64
}

func (s *stateSnap) keys() int { return len(s.Root) + len(s.Check) + len(s.Hist) + len(s.Transient) }

// takeSnap dumps the state of chain c. histHeight > 0 additionally dumps that committed version.
func takeSnap(c *vh.Chain, histHeight int64) *stateSnap {
	s := &stateSnap{}
	rootCtx := c.App.NewUncachedContext(false, tmproto.Header{Height: c.Height})
	s.Root = c.DumpStores(rootCtx)
	s.RootHash = s.Root.Hash()
	s.Transient = c.DumpTransient(rootCtx)
	s.TransHash = s.Transient.Hash()
	checkCtx := c.App.NewContext(true)
	s.Check = c.DumpStores(checkCtx)
	s.CheckHash = s.Check.Hash()
	id := c.App.LastCommitID()
	s.CommitID = fmt.Sprintf("%d/%x", id.Version, id.Hash)
	s.Working = fmt.Sprintf("%x", c.App.CommitMultiStore().WorkingHash())
	if histHeight > 0 {
		if ms, err := c.App.CommitMultiStore().CacheMultiStoreWithVersion(histHeight); err == nil {
			hctx := sdk.NewContext(ms, tmproto.Header{Height: histHeight}, false, c.App.Logger())
			s.Hist = c.DumpStores(hctx)
			s.HistHash = s.Hist.Hash()
			s.HistH = histHeight
		}
	}
	return s
}

// diffSnap lists what differs between two snapshots; checkToo selects whether the check-state is compared.
func diffSnap(a, b *stateSnap, checkToo bool) (what []string, detail map[string]any) {
	detail = map[string]any{}
	if a.RootHash != b.RootHash {
		what = append(what, "committed-stores")
		detail["committed_diff"] = vh.ChangeStrings(vh.Diff(a.Root, b.Root))
	}
	if a.CommitID != b.CommitID {
		what = append(what, "last-commit-id")
		detail["commit_id"] = []string{a.CommitID, b.CommitID}
	}
	if a.Working != b.Working {
		what = append(what, "working-hash")
		detail["working_hash"] = []string{a.Working, b.Working}
	}
	if a.TransHash != b.TransHash {
		what = append(what, "transient-stores")
		detail["transient_diff"] = vh.ChangeStrings(vh.Diff(a.Transient, b.Transient))
	}
	if checkToo && a.CheckHash != b.CheckHash {
		what = append(what, "check-state")
		detail["check_state_diff"] = vh.ChangeStrings(vh.Diff(a.Check, b.Check))
	}
	if a.HistH != 0 && a.HistH == b.HistH && a.HistHash != b.HistHash {
		what = append(what, "historical-version")
		detail["historical_diff"] = vh.ChangeStrings(vh.Diff(a.Hist, b.Hist))
		detail["historical_height"] = a.HistH
	}
	return what, detail
}

// compareBlocks checks that P and Q produced byte-identical consensus results.
func (e *env) compareBlocks(pb, qb *vh.BlockResult) {
	e.run.Count("twin_blocks_compared", 1)
	if (pb.Err == nil) != (qb.Err == nil) || (pb.Err != nil && pb.Err.Error() != qb.Err.Error()) {
		e.run.Violation("twin-finalize-error-differs", e.label, map[string]any{"height": pb.Height, "p_err": fmt.Sprint(pb.Err), "q_err": fmt.Sprint(qb.Err)})
		return
	}
	if pb.Res == nil || qb.Res == nil {
		return
	}
	e.run.Count("twin_tx_results_compared", len(pb.Res.TxResults))
	if !bytes.Equal(pb.Res.AppHash, qb.Res.AppHash) {
		e.run.Violation("twin-app-hash-differs", e.label, map[string]any{"height": pb.Height, "p_app_hash": fmt.Sprintf("%x", pb.Res.AppHash), "q_app_hash": fmt.Sprintf("%x", qb.Res.AppHash),
			"state_diff_p_vs_q": vh.ChangeStrings(vh.Diff(e.p.DumpStores(e.p.QueryCtx()), e.q.DumpStores(e.q.QueryCtx()))), "mid_block_queries": describeQueries(e.mid)})
	}
	if len(pb.Res.TxResults) != len(qb.Res.TxResults) {
		e.run.Violation("twin-result-count-differs", e.label, map[string]any{"height": pb.Height, "p": len(pb.Res.TxResults), "q": len(qb.Res.TxResults)})
		return
	}
	for i := range pb.Res.TxResults {
		if f := txResultDiff(pb.Res.TxResults[i], qb.Res.TxResults[i]); f != "" {
			e.run.Violation("twin-tx-result-differs:"+f, e.label, map[string]any{"height": pb.Height, "index": i, "field": f,
				"p": resBrief(pb.Res.TxResults[i]), "q": resBrief(qb.Res.TxResults[i]), "mid_block_queries": describeQueries(e.mid)})
			return
		}
	}
	pm, _ := proto.Marshal(pb.Res)
	qm, _ := proto.Marshal(qb.Res)
	if !bytes.Equal(pm, qm) {
		e.run.Violation("twin-block-response-differs", e.label, map[string]any{"height": pb.Height, "p_events": len(pb.Res.Events), "q_events": len(qb.Res.Events),
			"p_val_updates": len(pb.Res.ValidatorUpdates), "q_val_updates": len(qb.Res.ValidatorUpdates)})
	}
}

func txResultDiff(a, b *abci.ExecTxResult) string {
	switch {
	case a.Code != b.Code || a.Codespace != b.Codespace:
		return "code"
	case !bytes.Equal(a.Data, b.Data):
		return "data"
	case a.GasWanted != b.GasWanted:
		return "gas-wanted"
	case a.GasUsed != b.GasUsed:
		return "gas-used"
	case a.Log != b.Log:
		return "log"
	}
	if len(a.Events) != len(b.Events) {
		return "events"
	}
	for i := range a.Events {
		am, _ := proto.Marshal(&a.Events[i])
		bm, _ := proto.Marshal(&b.Events[i])
		if !bytes.Equal(am, bm) {
			return "events"
		}
	}
	return ""
}

func resBrief(r *abci.ExecTxResult) map[string]any {
	ev := []string{}
	for _, e := range r.Events {
		s := e.Type
		for _, a := range e.Attributes {
			v := a.Value
			if len(v) > 80 {
				v = v[:80] + "…"
			}
			s += " " + a.Key + "=" + v
		}
		ev = append(ev, s)
	}
	return map[string]any{"code": r.Code, "codespace": r.Codespace, "log": r.Log, "gas_wanted": r.GasWanted, "gas_used": r.GasUsed, "data": fmt.Sprintf("%x", r.Data), "events": ev}
}
