package c08

import (
	"bytes"
	"context"
	"crypto/sha256"
	"encoding/hex"
	"encoding/json"
	"fmt"
	"math/big"
	"regexp"
	"strings"

	abci "github.com/cometbft/cometbft/abci/types"
	sdk "github.com/cosmos/cosmos-sdk/types"
	"github.com/ethereum/go-ethereum/common"

	cpcabi "github.com/EscanBE/evermint/v12/x/cpc/abi"
	evmtypes "github.com/EscanBE/evermint/v12/x/evm/types"

	"verifharness/vh"
)

// issue sends one query to chain c through the ABCI Query entry point (BaseApp creates the query
// context itself) and classifies the answer.
func issue(c *vh.Chain, q *query) (res *abci.ResponseQuery, class string, escaped any) {
	defer func() {
		if r := recover(); r != nil {
			escaped, class = r, "panic-escaped"
		}
	}()
	res, err := c.App.Query(context.Background(), &abci.RequestQuery{Path: q.Path, Data: q.Data, Height: q.Height})
	switch {
	case err != nil:
		class = "abci-error"
	case res.Code == 0:
		class = "ok"
	default:
		class = "error-returned"
	}
	return res, class, nil
}

// cpcSimulatedOK tells whether a successful answer of a state-changing precompile call really
// executed the write in simulation (no VM error).
func cpcSimulatedOK(q *query, res *abci.ResponseQuery) bool {
	if res == nil || res.Code != 0 || !q.CpcWrite {
		return false
	}
	switch q.Kind {
	case "evm/EthCall":
		var out evmtypes.MsgEthereumTxResponse
		return out.Unmarshal(res.Value) == nil && out.VmError == ""
	case "evm/EstimateGas":
		return true // an estimate is only returned when the call succeeded
	case "evm/TraceTx":
		var out evmtypes.QueryTraceTxResponse
		if out.Unmarshal(res.Value) != nil {
			return false
		}
		return bytes.Contains(out.Data, []byte(`"failed":false`))
	case "evm/TraceBlock":
		var out evmtypes.QueryTraceBlockResponse
		if out.Unmarshal(res.Value) != nil {
			return false
		}
		return bytes.Contains(out.Data, []byte(`"failed":false`))
	case "app/simulate":
		return true
	}
	return false
}

// queryChecked runs q on Q and compares every store, the commit id, the working hash, the
// check-state and (for historical queries) the queried version before vs after.
func (e *env) queryChecked(q *query, before *stateSnap) *stateSnap {
	run := e.run
	hist := int64(0)
	if q.HClass == "historical" {
		hist = q.Height
	}
	if before == nil || before.HistH != hist {
		before = takeSnap(e.q, hist)
	}
	res, class, esc := issue(e.q, q)
	after := takeSnap(e.q, hist)
	run.Eval(1)
	run.Count("queries_total", 1)
	run.Count("q:"+q.Kind+":"+q.HClass, 1)
	run.Count("result:"+class, 1)
	run.Count("res:"+q.Kind+":"+class, 1)
	run.Count("store_keys_hashed", before.keys()+after.keys())
	run.Max("store_keys_per_comparison_max", int64(before.keys()+after.keys()))
	sub := q.Sub
	if i := strings.Index(sub, "-"); strings.HasPrefix(sub, "puppet-") && i > 0 {
		sub = "puppet" // keep the key space small: puppets are one class per kind
	}
	run.Nontrivial(q.Kind + "|" + q.HClass + "|" + sub + "|" + class)
	run.Distinct("query_kind", q.Kind)
	if cpcSimulatedOK(q, res) {
		run.Count("state_changing_precompile_calls_simulated", 1)
		run.Distinct("cpc_write_simulated", q.Kind+"|"+q.Sub)
	}
	if q.Sub != "" {
		run.Count("payload:"+strings.SplitN(q.Sub, "-", 2)[0], 1)
	}
	if esc != nil {
		run.Violation("query-panic-escaped:"+q.Kind, e.label, map[string]any{"query": q.describe(), "panic": fmt.Sprint(esc)})
	}
	// a struct-logger trace of a recorded transaction (block number, hash, time and proposer in the request, every executed
	// predecessor replayed first) re-executes what the block executed: it reports the gas the transaction used there
	if want, ok := q.Desc["executed_gas_used"].(uint64); ok && res != nil && res.Code == 0 && esc == nil {
		var out evmtypes.QueryTraceTxResponse
		var tr struct {
			Gas    uint64 `json:"gas"`
			Failed bool   `json:"failed"`
		}
		if out.Unmarshal(res.Value) == nil && json.Unmarshal(out.Data, &tr) == nil && tr.Gas > 0 {
			run.Count("recorded_tx_traces_compared_with_the_executed_gas", 1)
			if tr.Gas != want {
				// witness: the same question for every predecessor (which one is the first whose replay deviates)
				exempt := readsUncarriedContext(out.Data)
				var predTraced []uint64
				var req evmtypes.QueryTraceTxRequest
				targetCode := ""
				if req.Unmarshal(q.Data) == nil {
					if to := req.Msg.AsTransaction().To(); to != nil {
						qc := e.q.QueryCtx()
						targetCode = fmt.Sprintf("%x", e.q.App.EvmKeeper.GetCode(qc, e.q.App.EvmKeeper.GetCodeHash(qc, to.Bytes())))
					}
					for k := range req.Predecessors {
						r2 := req
						r2.Msg, r2.Predecessors = req.Predecessors[k], req.Predecessors[:k]
						q2 := *q
						q2.Data = mustMarshal(&r2)
						g := uint64(0)
						if res2, _, esc2 := issue(e.q, &q2); res2 != nil && esc2 == nil && res2.Code == 0 {
							var o2 evmtypes.QueryTraceTxResponse
							var t2 struct {
								Gas uint64 `json:"gas"`
							}
							if o2.Unmarshal(res2.Value) == nil && json.Unmarshal(o2.Data, &t2) == nil {
								g = t2.Gas
								exempt = exempt || readsUncarriedContext(o2.Data)
							}
						}
						predTraced = append(predTraced, g)
					}
				}
				if exempt {
					run.Count("recorded_tx_traces_not_judged_they_read_block_context_the_request_does_not_carry", 1)
				} else {
					run.Violation("trace-of-a-recorded-transaction-differs-from-its-execution:gas", e.label, map[string]any{"query": q.describe(), "traced_gas": tr.Gas, "executed_gas_used": want, "head": e.q.Height,
						"code_of_the_callee": targetCode, "traced_gas_of_predecessors": predTraced, "executed_gas_used_of_predecessors": q.Desc["executed_gas_used_of_predecessors"]})
				}
			}
		}
	}
	if want, ok := q.Desc["executed_gas_used_per_tx"].([]uint64); ok && res != nil && res.Code == 0 && esc == nil {
		var out evmtypes.QueryTraceBlockResponse
		var trs []struct {
			Result struct {
				Gas uint64 `json:"gas"`
			} `json:"result"`
			Error string `json:"error"`
		}
		if out.Unmarshal(res.Value) == nil && json.Unmarshal(out.Data, &trs) == nil && len(trs) == len(want) {
			prefix, _ := q.Desc["comparable_prefix"].(int)
			for i := range trs {
				if i >= prefix {
					break
				}
				if trs[i].Error != "" || trs[i].Result.Gas == 0 {
					continue
				}
				run.Count("recorded_block_trace_entries_compared_with_the_executed_gas", 1)

				if trs[i].Result.Gas != want[i] {
					if readsUncarriedContext(out.Data) {
						run.Count("recorded_block_traces_not_judged_they_read_block_context_the_request_does_not_carry", 1)
						break
					}
					run.Violation("trace-of-a-recorded-block-differs-from-its-execution:gas", e.label, map[string]any{"query": q.describe(), "tx_index_among_ethereum_txs": i,
						"traced_gas": trs[i].Result.Gas, "executed_gas_used": want[i], "head": e.q.Height})
					break
				}
			}
		}
	}
	// (JavaScript tracers are left out: they run under the request's own wall-clock timeout, so an answer may legitimately
	// be "execution timeout" on a loaded machine)
	if tn, _ := q.Desc["tracer"].(string); (q.Sub == "recorded-block" || q.Sub == "recorded-tx") && res != nil && esc == nil && !strings.HasPrefix(tn, "js-") &&
		!strings.Contains(string(res.Value), "execution timeout") && !strings.Contains(res.Log, "execution timeout") {
		key := fmt.Sprintf("%s|%d|%x", q.Path, q.Height, sha256.Sum256(q.Data))
		if e.traceSeen == nil {
			e.traceSeen = map[string]traceAnswer{}
		}
		if prev, ok := e.traceSeen[key]; !ok {
			e.traceSeen[key] = traceAnswer{code: res.Code, value: stripWallClock(res.Value), atHead: e.q.Height}
			if len(e.traceOld) < 64 {
				e.traceOld = append(e.traceOld, q)
			}
		} else if prev.atHead != e.q.Height {
			run.Count("recorded_traces_asked_again_at_a_later_head", 1)
			if now := stripWallClock(res.Value); prev.code != res.Code || prev.value != now {
				run.Violation("answer-for-a-fixed-height-changed-as-the-chain-advanced:"+q.Kind, e.label, map[string]any{"query": q.describe(), "first_asked_at_head": prev.atHead,
					"asked_again_at_head": e.q.Height, "first_answer": trunc(prev.value, 3000), "second_answer": trunc(stripWallClock(res.Value), 3000), "codes": []uint32{prev.code, res.Code}})
			}
		}
	}
	if what, detail := diffSnap(before, after, true); len(what) > 0 {
		detail["query"] = q.describe()
		detail["result_class"] = class
		if res != nil {
			detail["result_log"] = res.Log
		}
		run.Violation("query-changed-state:"+q.Kind+":"+strings.Join(what, "+"), e.label, detail)
	}
	if run.Get("queries_total")%97 == 0 && res != nil {
		run.Sample(map[string]any{"query": q.Kind, "sub": q.Sub, "height_class": q.HClass, "class": class, "log": trunc(res.Log, 120), "value_len": len(res.Value)})
	}
	return after
}

// the call tracers report how long each frame took on this machine ("time":"2.48ms"): not part of the answer
var wallClockField = regexp.MustCompile(`"time":"[^"]*"`)

func stripWallClock(b []byte) string { return wallClockField.ReplaceAllString(string(b), `"time":"-"`) }

func trunc(s string, n int) string {
	if len(s) > n {
		return s[:n] + "…"
	}
	return s
}

// admission runs CheckTx(New), CheckTx(Recheck) and Simulate of a transaction on Q. The committed
// stores, commit id and working hash must not move; the check-state may (accepted CheckTx), but
// the trial execution of an Ethereum transaction must never reach it.
func (e *env) admission(tx []byte, isEth bool, desc map[string]any, order int) {
	run := e.run
	// Simulate first (it runs on a branch of the check-state); then either New followed by Recheck, or
	// Recheck on the fresh check-state (what CometBFT does after a commit) followed by New.
	modes := []string{"simulate", "check-new", "recheck"}
	if order%2 == 1 {
		modes = []string{"simulate", "recheck", "check-new"}
	}
	for _, mode := range modes {
		before := takeSnap(e.q, 0)
		var code uint32
		var log string
		var esc any
		func() {
			defer func() { esc = recover() }()
			switch mode {
			case "check-new":
				r, err := e.q.App.CheckTx(&abci.RequestCheckTx{Tx: tx, Type: abci.CheckTxType_New})
				if err != nil {
					code, log = 1, err.Error()
				} else {
					code, log = r.Code, r.Log
				}
			case "recheck":
				r, err := e.q.App.CheckTx(&abci.RequestCheckTx{Tx: tx, Type: abci.CheckTxType_Recheck})
				if err != nil {
					code, log = 1, err.Error()
				} else {
					code, log = r.Code, r.Log
				}
			default:
				_, _, err := e.q.App.Simulate(tx)
				if err != nil {
					code, log = 1, err.Error()
				}
			}
		}()
		after := takeSnap(e.q, 0)
		class := "accepted"
		if code != 0 {
			class = "rejected"
		}
		run.Eval(1)
		run.Count("admission:"+mode+":"+class, 1)
		run.Count("store_keys_hashed", before.keys()+after.keys())
		lane := "cosmos"
		if isEth {
			lane = "eth"
		}
		run.Nontrivial("admission|" + mode + "|" + lane + "|" + class)
		wit := func(d map[string]any) map[string]any {
			d["entry"], d["tx"], d["tx_hex"], d["code"], d["log"] = mode, desc, hex.EncodeToString(tx), code, trunc(log, 300)
			return d
		}
		if esc != nil {
			run.Violation("admission-panic-escaped:"+mode, e.label, wit(map[string]any{"panic": fmt.Sprint(esc)}))
			continue
		}
		// committed side: never
		if what, detail := diffSnap(before, after, false); len(what) > 0 {
			run.Violation("admission-changed-committed-state:"+mode+":"+strings.Join(what, "+"), e.label, wit(detail))
		}
		// check-state side
		cd := vh.Diff(before.Check, after.Check)
		if mode == "simulate" {
			if len(cd) > 0 {
				run.Violation("simulate-changed-check-state", e.label, wit(map[string]any{"check_state_diff": vh.ChangeStrings(cd)}))
			}
			continue
		}
		if len(cd) > 0 {
			run.Count("checktx_check_state_writes", len(cd))
		}
		if isEth {
			var leaked []vh.Change
			for _, ch := range cd {
				if ch.Store != "acc" && ch.Store != "bank" {
					leaked = append(leaked, ch)
				}
			}
			if len(leaked) > 0 {
				run.Violation("checktx-trial-execution-written-to-check-state", e.label, wit(map[string]any{"check_state_diff_outside_acc_bank": vh.ChangeStrings(leaked)}))
			}
		}
	}
}

// midBlock is the tx-boundary observer of Q: it issues the planned queries DURING block
// execution (what a concurrent gRPC reader does, serialised), checks that neither the committed
// stores nor the in-flight block state move, and that the answers equal the ones recorded right
// before the block (results depend only on the committed state and the request).
func (e *env) midBlock(o *vh.TxObs) {
	if o.Mode != vh.ModeDeliver || !e.midEnabled || len(e.mid) == 0 {
		return
	}
	defer func() {
		if r := recover(); r != nil { // never let the monitor's own failure alter the block on Q
			e.midErr = append(e.midErr, fmt.Sprint(r))
		}
	}()
	run := e.run
	idx := o.Index % len(e.mid)
	q := e.mid[idx]
	inflightBefore := e.q.DumpStores(o.Ctx)
	inflightTrBefore := e.q.DumpTransient(o.Ctx)
	before := takeSnap(e.q, 0)
	res, class, esc := issue(e.q, q)
	// the same request as a direct keeper call on a throw-away context of the committed height
	var direct []byte
	if q.ethReq != nil {
		func() {
			// called without BaseApp's query recover(): a keeper panic on hostile arguments (e.g. "Int overflow" for a
			// 2^256-scale value) is an error answer on a node, not a failure of this monitor
			defer func() {
				if p := recover(); p != nil {
					run.Count("mid_block_direct_keeper_calls_panicked", 1)
				}
			}()
			qctx := e.q.QueryCtx()
			if q.Kind == "evm/EthCall" {
				if out, err := e.q.App.EvmKeeper.EthCall(sdk.WrapSDKContext(qctx), q.ethReq); err == nil {
					direct, _ = out.Marshal()
				}
			} else {
				if out, err := e.q.App.EvmKeeper.EstimateGas(sdk.WrapSDKContext(qctx), q.ethReq); err == nil {
					direct, _ = out.Marshal()
				}
			}
		}()
		run.Count("mid_block_direct_keeper_calls", 1)
	}
	_ = direct
	after := takeSnap(e.q, 0)
	inflightAfter := e.q.DumpStores(o.Ctx)
	inflightTrAfter := e.q.DumpTransient(o.Ctx)
	run.Eval(1)
	run.Count("queries_total", 1)
	run.Count("q:"+q.Kind+":mid-block", 1)
	run.Count("store_keys_hashed", before.keys()+after.keys()+len(inflightBefore)+len(inflightAfter))
	run.Nontrivial(q.Kind + "|mid-block|" + class)
	if cpcSimulatedOK(q, res) {
		run.Count("state_changing_precompile_calls_simulated", 1)
	}
	if esc != nil {
		run.Violation("query-panic-escaped:"+q.Kind, e.label, map[string]any{"query": q.describe(), "panic": fmt.Sprint(esc), "mid_block": true})
	}
	if what, detail := diffSnap(before, after, true); len(what) > 0 {
		detail["query"], detail["mid_block_tx_index"] = q.describe(), o.Index
		run.Violation("query-changed-state:"+q.Kind+":"+strings.Join(what, "+"), e.label, detail)
	}
	if d := vh.Diff(inflightBefore, inflightAfter); len(d) > 0 {
		run.Violation("query-changed-inflight-block-state:"+q.Kind, e.label, map[string]any{"query": q.describe(), "mid_block_tx_index": o.Index, "diff": vh.ChangeStrings(d)})
	}
	if d := vh.Diff(inflightTrBefore, inflightTrAfter); len(d) > 0 {
		run.Violation("query-changed-inflight-transient-state:"+q.Kind, e.label, map[string]any{"query": q.describe(), "mid_block_tx_index": o.Index, "diff": vh.ChangeStrings(d)})
	}
	if pre, ok := e.midPre[idx]; ok && res != nil && deterministicAnswer(q) {
		run.Count("mid_block_answers_compared", 1)
		got := append([]byte{byte(res.Code)}, res.Value...)
		if !bytes.Equal(pre, got) {
			run.Violation("query-answer-depends-on-inflight-block:"+q.Kind, e.label, map[string]any{"query": q.describe(), "mid_block_tx_index": o.Index,
				"answer_before_block": hex.EncodeToString(pre), "answer_during_block": hex.EncodeToString(got)})
		}
	}
}

// deterministicAnswer: answers of these kinds carry no wall-clock durations.
func deterministicAnswer(q *query) bool {
	return q.Kind != "evm/TraceTx" && q.Kind != "evm/TraceBlock"
}

// genBlock composes the next block's transactions (on P's state; Q is identical).
func (e *env) genBlock() []*vh.TxPlan {
	r, w := e.r, e.w
	var plans []*vh.TxPlan
	n := r.Range(2, 6)
	for i := 0; i < n; i++ {
		s := vh.Pick(r, w.EOAs)
		switch k := r.Intn(12); {
		case k < 4:
			c := vh.Pick(r, w.Contracts)
			to := c.Addr
			gas := uint64(vh.Pick(r, []int{23000, 50000, 200000, 2_000_000}))
			plans = append(plans, w.PlanEth(s, &to, nil, gas, r.Bytes(vh.Pick(r, []int{0, 4, 36})), vh.Pick(r, []string{"ok", "ok", "ok", "ok", "stale-nonce", "future-nonce"}), nil))
		case k < 5:
			p := vh.GenProgram(r, vh.ProgOpts{Pool: w.Pool, MaxLen: 5, Depth: 1})
			plans = append(plans, w.PlanEth(s, nil, nil, 2_000_000, vh.Deployer(p.Code), "ok", nil))
		case k < 6:
			to := vh.Pick(r, w.Pool)
			pl := w.PlanEth(s, &to, big.NewInt(int64(r.Intn(1_000_000))), 21000, nil, "ok", nil)
			pl.Kind = "eth-transfer"
			plans = append(plans, pl)
		case k < 8:
			to := e.erc20
			var data []byte
			if r.Bool() {
				data = mustPack(cpcabi.Erc20CpcInfo, "transfer", vh.Pick(r, w.Pool), big.NewInt(int64(r.Intn(1_000_000))))
			} else {
				data = mustPack(cpcabi.Erc20CpcInfo, "approve", vh.Pick(r, w.Pool), big.NewInt(int64(r.Intn(1_000_000))))
			}
			plans = append(plans, w.PlanEth(s, &to, nil, 400_000, data, "ok", nil))
		case k < 9:
			to := e.staking
			var data []byte
			if r.Bool() {
				data = mustPack(cpcabi.StakingCpcInfo, "delegate", vh.Pick(r, e.valEvm), big.NewInt(int64(1+r.Intn(1_000_000))))
			} else {
				data = mustPack(cpcabi.StakingCpcInfo, "withdrawRewards")
			}
			plans = append(plans, w.PlanEth(s, &to, nil, 3_000_000, data, "ok", nil))
		case k < 10:
			to := vh.Pick(r, []common.Address{e.writer, e.factory, e.fw["CALL/erc20"]})
			data := r.Bytes(r.Intn(6))
			if to == e.fw["CALL/erc20"] {
				data = mustPack(cpcabi.Erc20CpcInfo, "transfer", vh.Pick(r, w.Pool), big.NewInt(int64(r.Intn(1000))))
			}
			plans = append(plans, w.PlanEth(s, &to, nil, 1_500_000, data, "ok", nil))
		default:
			plans = append(plans, w.PlanCosmosSend(s, vh.Pick(r, w.Pool), int64(1+r.Intn(1_000_000))))
		}
	}
	if r.Chance(2, 3) { // most blocks carry a call of the writer, whose gas depends on the block's own time
		to := e.writer
		plans = append(plans, w.PlanEth(vh.Pick(r, w.EOAs), &to, nil, 1_500_000, r.Bytes(r.Intn(6)), "ok", nil))
	}
	return plans
}

// runTwin drives one twin pair: per block interval nQ checked queries, admission of the next
// block's transactions, mid-block queries on Q, then the block on both chains.
func runTwin(run *vh.Run, label string, idx, nBlocks, nQ int) {
	r := run.RNG("twin", idx)
	e := newEnv(run, label, r, true)
	defer e.cleanup()
	e.midEnabled = true
	for b := 0; b < nBlocks; b++ {
		var snap *stateSnap
		for i := 0; i < nQ; i++ {
			snap = e.queryChecked(e.genQuery(), snap)
		}
		plans := e.genBlock()
		// mempool admission of (some of) the block's transactions plus one that never gets included
		for i, pl := range plans {
			if i < 2 {
				e.admission(pl.Bytes, pl.Tx != nil, map[string]any{"plan": pl.String()}, i)
			}
		}
		if b%3 == 0 {
			s := e.genCall()
			_, bz := e.signed(s, 0)
			e.admission(bz, true, s.desc(), b)
		}
		// plan the queries issued during the block and record their answers now
		e.mid, e.midPre = nil, map[int][]byte{}
		for i := 0; i < 3; i++ {
			var q *query
			for q == nil || q.HClass != "latest" {
				q = e.genQuery()
			}
			if i == 0 { // always at least one EthCall / EstimateGas with the direct keeper variant
				for q.ethReq == nil || q.HClass != "latest" {
					q = e.genQuery()
				}
			}
			q.Height = 0
			e.mid = append(e.mid, q)
			if res, _, _ := issue(e.q, q); res != nil {
				e.midPre[i] = append([]byte{byte(res.Code)}, res.Value...)
			}
		}
		e.runBlock(plans)
		for _, m := range e.midErr {
			run.Inconclusive("monitor error inside the mid-block observer: " + trunc(m, 200))
		}
		e.midErr = nil
	}
}

// readsUncarriedContext tells whether a struct-logger trace executed an opcode whose answer comes from block context the
// trace request does not carry (block gas limit, base fee, effective gas price, coinbase lookup, block hashes, difficulty)
// or from a balance (fees are settled differently around a traced message): for such calls the statement does not promise
// that a query predicts execution. TIMESTAMP and NUMBER are carried by the request and stay judged.
func readsUncarriedContext(traceJSON []byte) bool {
	for _, op := range []string{"GASLIMIT", "BASEFEE", "GASPRICE", "COINBASE", "BLOCKHASH", "DIFFICULTY", "RANDOM", "PREVRANDAO", "BALANCE", "SELFBALANCE"} {
		if bytes.Contains(traceJSON, []byte(`"op":"`+op+`"`)) {
			return true
		}
	}
	return false
}
