package c09

import (
	"runtime"
	"sync"

	"verifharness/vh"
)

// Run is the C09 monitor: function level on the real keeper plus history level on real chains.
func Run(run *vh.Run) {
	rep := &reporter{run: run, n: map[string]int{}, max: 2}
	workers := runtime.NumCPU()
	if workers > 16 {
		workers = 16
	}
	if workers < 2 {
		workers = 2
	}
	nPoints := run.N(5000, 1_000_000)
	nBlocks := run.N(60, 500)
	nWorlds := 2
	if run.Thorough() {
		nWorlds = 6
	}
	nBursts := run.N(18, 120) // two-block chains whose block 1 runs under the genesis base fee
	fnWorkers := workers
	if !run.Thorough() && fnWorkers > 5 {
		fnWorkers = 5
	}

	var wg sync.WaitGroup
	wg.Add(1)
	go func() {
		defer wg.Done()
		runFunctionLevel(run, rep, nPoints, fnWorkers)
	}()

	// governance leg (minimum gas price raised by a passed proposal)
	for gi := 0; gi < run.N(3, 24); gi++ {
		wg.Add(1)
		go func(gi int) {
			defer wg.Done()
			runGovLeg(run, rep, gi)
		}(gi)
	}

	// history level: one goroutine per (variant, world), bounded by a semaphore
	sem := make(chan struct{}, workers)
	variants := 0
	for _, v := range histVariants() {
		if !v.Quick && !run.Thorough() {
			continue
		}
		variants++
		for wi := 0; wi < nWorlds; wi++ {
			wg.Add(1)
			go func(v histVariant, wi int) {
				defer wg.Done()
				sem <- struct{}{}
				defer func() { <-sem }()
				runHistory(run, rep, v, wi, nBlocks)
			}(v, wi)
		}
	}
	gi := 0
	for gi < nBursts {
		for _, v := range histVariants() {
			if !v.Genesis || gi >= nBursts {
				continue
			}
			wg.Add(1)
			go func(v histVariant, wi int) {
				defer wg.Done()
				sem <- struct{}{}
				defer func() { <-sem }()
				runHistory(run, rep, v, wi, 2)
			}(v, 1000+gi)
			gi++
		}
	}
	wg.Wait()

	run.Set("hist_variants", variants)
	run.Set("hist_blocks_per_chain", nBlocks)
	run.Rule = "Function level: points (consensus Block.MaxGas, block-gas-meter consumption, base fee, min gas price, height) from a boundary grid " +
		"(MaxGas in {-1,0,1,2,3,..,MaxInt64}; usage in {0,1,target-1,target,target+1,limit-1,limit,limit+1,..}; base fee in {0,1,7,8,..,2^63-1,2^63,2^64+-1,2^128,2^200,2^255,2^256-1}; " +
		"min price incl. fractional, aimed at the clamp boundary, huge) mixed with random magnitudes; the real FeeMarketKeeper.CalculateBaseFee and EndBlock run on a branch of committed state " +
		"with the block gas meter built as baseapp builds it (MaxGas>0 limited, 0/-1 infinite) and are compared with a math/big model written from the statement. " +
		"History level: real chains per (MaxGas, genesis base fee, min gas price) variant with fill levels empty / rejected-only / exact target / target+-4 / exact limit / over-full / random, " +
		"Ethereum legacy, access-list and dynamic-fee transactions and Cosmos bank sends (with and without the dynamic-fee extension) priced below / at / above max(base fee, floor(min gas price)); " +
		"after every block the fee_market event and the base-fee parameter are compared with the model applied to the block gas recomputed from the consensus results, and no admitted " +
		"transaction may be priced (or charged) below the bound. Non-trivial = distinct (level, MaxGas class, usage relation to target, base-fee class, min-price relation)."
	run.Assumptions = append(run.Assumptions,
		"gas consumed in the current block = what the SDK block gas meter reports to the fee market (sum over executed txs of min(gas used, gas wanted), capped at MaxGas in a gas-limited block)",
		"valid consensus parameters = Block.MaxGas >= -1 (CometBFT ConsensusParams.ValidateBasic); MaxGas 0 and -1 are gas-unlimited blocks (baseapp.getBlockGasMeter)",
		"when the gas target is 0 and usage > 0 EIP-1559 defines no movement: any non-panicking result >= floor(min gas price) is accepted",
		"admitted = the ante handler completed (fee deducted: tx/fee event, ethereum_tx event or code 0); the London fork is active at every height (default chain config)")

	if run.OnlyCase != "" {
		return
	}
	// ---- floors (>= 2x margin below what the fixed case lists produce at any seed) ----
	run.Floor("governance proposals raising the minimum gas price that passed", run.Get("gov_leg_proposals_passed"), int64(run.N(2, 16)))
	run.Floor("function points evaluated", run.Get("fn_points"), int64(nPoints)*9/10)
	run.Floor("function boundary points (usage at 0/target-1/target/target+1/limit/over-limit)", run.Get("fn_boundary_points"), int64(nPoints)/5)
	run.Floor("function points where the min-price clamp decides", run.Get("fn_min_price_clamps"), int64(nPoints)/20)
	run.Floor("function points where the at-least-1 rule decides", run.Get("fn_boundary_plus_one_rule"), int64(nPoints)/100)
	run.Floor("function points with a zero gas target and usage > 0", run.Get("fn_zero_target_with_usage"), int64(nPoints)/100)
	run.Floor("function points with base fee >= 2^63", run.Get("fn_base_fee_ge_2^63"), int64(nPoints)/10)
	run.Floor("function-level MaxGas classes", int64(run.DistinctN("fn_maxgas_class")), 10)
	run.Floor("distinct non-trivial (level, MaxGas class, usage, base-fee class, min-price relation) keys", int64(run.DistinctN("nontrivial_keys")), 800)
	full := 0 // variants whose chains ran at least half of the requested blocks
	for _, v := range histVariants() {
		if run.Get("hist_blocks["+v.Name+"]") >= int64(nBlocks*nWorlds)/2 {
			full++
		}
	}
	run.Set("hist_variants_with_half_of_blocks", full)
	run.Floor("MaxGas variants with >= half of the requested blocks checked", int64(full), 4)
	run.Floor("history blocks checked", run.Get("hist_blocks"), int64(variants*nWorlds*nBlocks)/4)
	run.Floor("history blocks exactly at target", run.Get("hist_usage_target"), int64(nWorlds*nBlocks)/6)
	run.Floor("history blocks above target", run.Get("hist_usage_above")+run.Get("hist_usage_limit")+run.Get("hist_usage_over-limit")+run.Get("hist_usage_target+1"), int64(nWorlds*nBlocks)/2)
	run.Floor("history blocks where the min-price clamp decides", run.Get("hist_blocks_min_price_clamps"), int64(nWorlds*nBlocks)/10)
	run.Floor("under-priced transactions refused", run.Get("hist_tx_rejected_below-base-fee")+run.Get("hist_tx_rejected_below-min-gas-price"), int64(nWorlds*nBlocks))
	run.Floor("transactions refused for a price between the base fee and floor(min gas price)", run.Get("hist_tx_rejected_below-min-gas-price"), int64(nBursts))
	run.Floor("blocks run while the base fee was below floor(min gas price)", run.Get("hist_blocks_base_fee_below_global_min"), int64(nBursts)/4)
	run.Floor("transactions admitted exactly at the bound", run.Get("hist_tx_admitted_equal"), int64(nWorlds*nBlocks)/2)
	run.Floor("transactions admitted above the bound", run.Get("hist_tx_admitted_above"), int64(nWorlds*nBlocks))
}
