package c09

import (
	"fmt"
	"math/big"
	"runtime/debug"
	"sort"
	"strings"
	"sync"

	sdkmath "cosmossdk.io/math"
	storetypes "cosmossdk.io/store/types"
	abci "github.com/cometbft/cometbft/abci/types"
	cmtproto "github.com/cometbft/cometbft/proto/tendermint/types"
	sdk "github.com/cosmos/cosmos-sdk/types"

	feemarkettypes "github.com/EscanBE/evermint/v12/x/feemarket/types"

	"verifharness/vh"
)

// ---------------------------------------------------------------------------------------------
// Level A: the real keeper's CalculateBaseFee and EndBlock on generated contexts.
// ---------------------------------------------------------------------------------------------

const fnChunk = 1000

type fnPoint struct {
	MaxGas   int64
	Base     *big.Int
	Consumed uint64 // what the block gas meter is made to consume
	MinGP    string // decimal string (<= 18 fractional digits)
	Height   int64
	Origin   string // grid | mixed | random
}

func (p fnPoint) witness() map[string]any {
	return map[string]any{"max_gas": p.MaxGas, "base_fee": p.Base.String(), "block_gas_consumed": p.Consumed,
		"min_gas_price": p.MinGP, "height": p.Height, "origin": p.Origin}
}

var gridMaxGas = []int64{-1, 0, 1, 2, 3, 4, 5, 7, 8, 16, 21000, 21001, 42000, 1_000_000, 40_000_000,
	1 << 31, 1 << 62, 1<<62 + 1, 1<<63 - 2, 1<<63 - 1}

func gridBases() []*big.Int {
	sub := func(a *big.Int, v int64) *big.Int { return new(big.Int).Sub(a, bi(v)) }
	add := func(a *big.Int, v int64) *big.Int { return new(big.Int).Add(a, bi(v)) }
	return []*big.Int{bi(0), bi(1), bi(7), bi(8), bi(9), bi(15), bi(16), bi(1_000_000_000), sub(two63, 1), pow2(63),
		sub(two64, 1), pow2(64), add(two64, 1), pow2(128), pow2(200), pow2(255), sub(two256, 2), sub(two256, 1)}
}

var usedKinds = []string{"zero", "one", "target-1", "target", "target+1", "half-target", "limit-1", "limit", "limit+1",
	"limit+rand", "rand-below", "rand-above", "max"}

var minKinds = []string{"0", "0.5", "1.9", "0.999999999999999999", "1", "raw-1.9", "raw", "raw.3", "raw+1", "raw+rand", "1e9", "2^200", "rand"}

// limitOf / targetOf: generator-side arithmetic only (the oracle recomputes both in math/big).
func limitOf(mg int64) uint64 {
	if mg >= 0 {
		return uint64(mg)
	}
	return ^uint64(0)
}

func genConsumed(r *vh.RNG, mg int64, kind string) uint64 {
	limit := limitOf(mg)
	target := limit / 2
	finite := mg > 0
	satAdd := func(a, b uint64) uint64 {
		if a+b < a {
			return ^uint64(0)
		}
		return a + b
	}
	randBelow := func(n uint64) uint64 {
		if n == 0 {
			return 0
		}
		return r.U64() % n
	}
	switch kind {
	case "zero":
		return 0
	case "one":
		return 1
	case "target-1":
		if target == 0 {
			return 0
		}
		return target - 1
	case "target":
		return target
	case "target+1":
		return satAdd(target, 1)
	case "half-target":
		return target / 2
	case "limit-1":
		if limit == 0 {
			return 0
		}
		return limit - 1
	case "limit":
		if !finite {
			return satAdd(target, target/2)
		}
		return limit
	case "limit+1":
		if !finite {
			return ^uint64(0) - 1
		}
		return satAdd(limit, 1)
	case "limit+rand":
		if !finite {
			return satAdd(target, randBelow(target))
		}
		return satAdd(limit, randBelow(1<<uint(r.Range(1, 40))))
	case "rand-below":
		return randBelow(target)
	case "rand-above":
		if finite {
			return satAdd(target, randBelow(limit-target+1))
		}
		return satAdd(target, randBelow(target))
	case "max":
		if finite {
			return limit
		}
		return ^uint64(0)
	}
	// fully random magnitude
	return r.U64() >> uint(r.Intn(64))
}

func randFraction(r *vh.RNG) string {
	digits := r.Range(1, 18)
	var sb strings.Builder
	for i := 0; i < digits; i++ {
		sb.WriteByte(byte('0' + r.Intn(10)))
	}
	return sb.String()
}

func genMinGP(r *vh.RNG, kind string, raw *big.Int) string {
	s := genMinGP0(r, kind, raw)
	// the SDK decimal type holds at most 315 bits including 18 decimal digits: larger minimum
	// prices are not valid parameters
	if decFloor(s).BitLen() > 254 {
		return pow2(254).String() + ".5"
	}
	return s
}

func genMinGP0(r *vh.RNG, kind string, raw *big.Int) string {
	if raw == nil {
		raw = bi(1_000_000_000)
	}
	switch kind {
	case "0", "0.5", "1.9", "0.999999999999999999", "1":
		return kind
	case "raw-1.9":
		if raw.Sign() == 0 {
			return "0.9"
		}
		return new(big.Int).Sub(raw, big1).String() + ".9"
	case "raw":
		return raw.String()
	case "raw.3":
		return raw.String() + ".3"
	case "raw+1":
		return new(big.Int).Add(raw, big1).String() + "." + randFraction(r)
	case "raw+rand":
		return new(big.Int).Add(raw, r.BigBits(r.Range(1, 80))).String()
	case "1e9":
		return "1000000000"
	case "2^200":
		return pow2(200).String() + ".5"
	}
	ip := r.BigBits(r.Range(0, 250))
	if r.Bool() {
		return ip.String()
	}
	return ip.String() + "." + randFraction(r)
}

func genPoint(r *vh.RNG, thoroughGridIdx int) fnPoint {
	bases := gridBases()
	var p fnPoint
	var uk, mk string
	switch {
	case thoroughGridIdx >= 0: // systematic boundary grid
		i := thoroughGridIdx
		p.MaxGas = gridMaxGas[i%len(gridMaxGas)]
		i /= len(gridMaxGas)
		p.Base = bases[i%len(bases)]
		i /= len(bases)
		uk = usedKinds[i%len(usedKinds)]
		i /= len(usedKinds)
		mk = minKinds[i%len(minKinds)]
		p.Origin = "grid"
	default:
		p.Origin = "mixed"
		if r.Chance(3, 5) {
			p.MaxGas = vh.Pick(r, gridMaxGas)
		} else {
			p.MaxGas = int64(r.U64() >> uint(r.Range(1, 63)))
			if r.Chance(1, 8) {
				p.MaxGas = 21000 * int64(r.Range(1, 2000))
			}
		}
		if r.Chance(1, 2) {
			p.Base = vh.Pick(r, bases)
		} else {
			p.Base = r.BigBits(r.Range(0, 256))
		}
		if r.Chance(3, 4) {
			uk = vh.Pick(r, usedKinds)
		} else {
			uk = "random"
		}
		if r.Chance(3, 4) {
			mk = vh.Pick(r, minKinds)
		} else {
			mk = "rand"
		}
		if uk == "random" && mk == "rand" {
			p.Origin = "random"
		}
	}
	p.Consumed = genConsumed(r, p.MaxGas, uk)
	// the generator may look at the model's unclamped value to aim the min price at the clamp boundary
	m := nextBaseFee(p.Base, p.MaxGas, p.Consumed, big0)
	p.MinGP = genMinGP(r, mk, m.Raw)
	p.Height = int64(1 + r.U64()%(1<<uint(r.Range(1, 40))))
	return p
}

func gridSize() int { return len(gridMaxGas) * len(gridBases()) * len(usedKinds) * len(minKinds) }

// callResult of one guarded call into the keeper.
type callResult struct {
	Panicked bool
	Msg      string
	Stack    []string
}

func guard(f func()) (cr callResult) {
	defer func() {
		if r := recover(); r != nil {
			cr.Panicked = true
			cr.Msg = fmt.Sprint(r)
			cr.Stack = shortStack(string(debug.Stack()))
		}
	}()
	f()
	return
}

// shortStack keeps the frames of the stack that lie in the repository, its go-ethereum fork,
// the SDK math package or math/big (where the panic originated), for the witness.
func shortStack(s string) []string {
	var out []string
	lines := strings.Split(s, "\n")
	for i := 0; i+1 < len(lines) && len(out) < 14; i++ {
		l := lines[i]
		if strings.HasPrefix(l, "\t") {
			continue
		}
		if strings.Contains(l, "evermint") || strings.Contains(l, "go-ethereum") || strings.Contains(l, "cosmossdk.io/math") ||
			strings.Contains(l, "math/big") || strings.Contains(l, "baseapp") || strings.Contains(l, "types/module") {
			loc := strings.TrimSpace(lines[i+1])
			if j := strings.LastIndex(loc, " +0x"); j > 0 {
				loc = loc[:j]
			}
			fn := l
			if j := strings.LastIndex(fn, "("); j > 0 {
				fn = fn[:j]
			}
			out = append(out, fn+" @ "+loc)
		}
	}
	return out
}

// panicClass maps a panic message to a classifier (no witness values in it).
func panicClass(msg string, m modelOut, alt *big.Int) string {
	switch {
	case strings.Contains(msg, "division by zero") || strings.Contains(msg, "divide by zero"):
		if m.Target.Sign() == 0 {
			return "basefee-panic:zero-gas-target"
		}
		return "basefee-panic:division-by-zero-nonzero-target"
	case strings.Contains(msg, "Int64() out of bound"):
		return "basefee-panic:endblock-telemetry-int64-overflow"
	case strings.Contains(msg, "NewIntFromBigInt() out of bound"):
		if (m.Defined && m.Next.BitLen() > 256) || (alt != nil && alt.BitLen() > 256) {
			return "basefee-panic:next-base-fee-exceeds-256-bits"
		}
		return "basefee-panic:int-out-of-bound"
	case strings.Contains(msg, "out of gas") || strings.Contains(msg, "gas overflow"):
		return "basefee-panic:gas-meter"
	}
	return "basefee-panic:unclassified"
}

// reporter limits the number of individually listed witnesses per signature so that one frequent
// (possibly known) defect cannot crowd out the witnesses of another.
type reporter struct {
	run *vh.Run
	mu  sync.Mutex
	n   map[string]int
	max int
}

func (rp *reporter) violation(level, sig, label string, detail any) {
	rp.mu.Lock()
	rp.n[level+"|"+sig]++
	k := rp.n[level+"|"+sig]
	rp.mu.Unlock()
	rp.run.Count("violations_observed["+sig+"]", 1)
	if k <= rp.max || rp.run.OnlyCase != "" {
		rp.run.Violation(sig, label, detail)
	}
}

type fnSample struct {
	key string
	v   any
}

type fnShared struct {
	run     *vh.Run
	rep     *reporter
	mu      sync.Mutex
	samples []fnSample
}

func newMeter(maxGas int64) storetypes.GasMeter {
	// baseapp.getBlockGasMeter: MaxGas > 0 => limited meter; 0 and -1 => infinite meter
	if maxGas > 0 {
		return storetypes.NewGasMeter(uint64(maxGas))
	}
	return storetypes.NewInfiniteGasMeter()
}

func evalPoint(sh *fnShared, c *vh.Chain, label string, idx int, p fnPoint) {
	run := sh.run
	k := c.App.FeeMarketKeeper
	minFloor := decFloor(p.MinGP)
	m := nextBaseFee(p.Base, p.MaxGas, p.Consumed, minFloor)

	meter := newMeter(p.MaxGas)
	guard(func() { meter.ConsumeGas(p.Consumed, "c09 block consumption") }) // past-the-limit consumption is recorded, then panics (as in runTx)
	if got := bu(meter.GasConsumedToLimit()); got.Cmp(m.Used) != 0 {
		panic(fmt.Sprintf("c09 harness: meter reads %s, model expects %s for %v", got, m.Used, p.witness()))
	}
	ctx := c.QueryCtx().
		WithBlockHeight(p.Height).
		WithConsensusParams(cmtproto.ConsensusParams{Block: &cmtproto.BlockParams{MaxBytes: 4_000_000, MaxGas: p.MaxGas}}).
		WithBlockGasMeter(meter).
		WithEventManager(sdk.NewEventManager())
	minDec := sdkmath.LegacyMustNewDecFromStr(p.MinGP)
	if err := k.SetParams(ctx, feemarkettypes.Params{BaseFee: sdkmath.NewIntFromBigInt(p.Base), MinGasPrice: minDec}); err != nil {
		panic(fmt.Sprintf("c09 harness: SetParams refused a valid point %v: %v", p.witness(), err))
	}
	run.Eval(1)
	run.Count("fn_points", 1)
	run.Count("fn_points_"+p.Origin, 1)

	key := maxGasClass(p.MaxGas) + "|" + m.Rel + "|" + baseClass(p.Base) + "|" + minRelClass(p.MinGP, m)
	run.Nontrivial(key)
	run.Distinct("nontrivial_keys", key)
	run.Distinct("fn_maxgas_class", maxGasClass(p.MaxGas))
	run.Count("fn_usage_"+m.Rel, 1)
	switch m.Rel {
	case "target-1", "target", "target+1", "limit", "over-limit", "zero":
		run.Count("fn_boundary_points", 1)
	}
	if m.PlusOne {
		run.Count("fn_boundary_plus_one_rule", 1)
	}
	if m.ZeroDec {
		run.Count("fn_boundary_decrease_rounds_to_zero", 1)
	}
	if m.Clamped {
		run.Count("fn_min_price_clamps", 1)
	}
	if m.AtFloor {
		run.Count("fn_boundary_min_price_equals_result", 1)
	}
	if decHasFraction(p.MinGP) {
		run.Count("fn_min_price_fractional", 1)
	}
	if !m.Defined {
		run.Count("fn_zero_target_with_usage", 1)
	}
	if p.Base.BitLen() > 63 {
		run.Count("fn_base_fee_ge_2^63", 1)
	}

	wit := func(extra map[string]any) map[string]any {
		w := p.witness()
		w["model"] = map[string]any{"gas_limit": m.Limit.String(), "gas_target": m.Target.String(), "gas_used": m.Used.String(),
			"usage": m.Rel, "defined": m.Defined, "floor_min_gas_price": minFloor.String()}
		if m.Defined {
			w["model"].(map[string]any)["delta"] = m.Delta.String()
			w["model"].(map[string]any)["expected_next_base_fee"] = m.Next.String()
		}
		for k, v := range extra {
			w[k] = v
		}
		return w
	}
	suffix := ":" + m.Side
	if m.Clamped {
		suffix += ":min-price-clamp"
	}

	alt := unlimitedReading(p.Base, p.MaxGas, p.Consumed, minFloor) // second admissible reading for MaxGas = 0 only
	want := m.Next

	// --- CalculateBaseFee ---
	var got *big.Int
	calc := guard(func() { got = k.CalculateBaseFee(ctx).BigInt() })
	calcClass := ""
	if calc.Panicked {
		calcClass = panicClass(calc.Msg, m, alt)
		run.Count("fn_panic["+calcClass+"]", 1)
		sh.rep.violation("function", calcClass, label, wit(map[string]any{"call": "FeeMarketKeeper.CalculateBaseFee", "panic": calc.Msg, "stack": calc.Stack}))
	} else if !m.Defined {
		run.Count("fn_zero_target_survived", 1)
		if got == nil || got.Sign() < 0 || got.Cmp(minFloor) < 0 {
			sh.rep.violation("function", "basefee-below-floor:zero-gas-target", label, wit(map[string]any{"call": "FeeMarketKeeper.CalculateBaseFee", "observed": fmt.Sprint(got)}))
		}
	} else if got == nil || (got.Cmp(m.Next) != 0 && !(alt != nil && got.Cmp(alt) == 0)) {
		sh.rep.violation("function", "basefee-mismatch:calculate"+suffix, label, wit(map[string]any{"call": "FeeMarketKeeper.CalculateBaseFee", "observed": fmt.Sprint(got)}))
	} else {
		run.Count("fn_calculate_agrees", 1)
		if alt != nil && got.Cmp(m.Next) != 0 {
			want = alt // EndBlock must then follow the same reading
			run.Count("fn_maxgas0_read_as_unlimited", 1)
		}
	}

	// --- EndBlock on the same context ---
	end := guard(func() { k.EndBlock(ctx) })
	var stored feemarkettypes.Params
	rd := guard(func() { stored = k.GetParams(ctx) })
	if end.Panicked {
		cls := panicClass(end.Msg, m, alt)
		run.Count("fn_endblock_panic["+cls+"]", 1)
		if cls != calcClass { // the same failure was already reported for CalculateBaseFee
			extra := map[string]any{"call": "FeeMarketKeeper.EndBlock", "panic": end.Msg, "stack": end.Stack, "calculate_base_fee_panicked": calc.Panicked}
			if got != nil {
				extra["calculate_base_fee_returned"] = got.String()
			}
			sh.rep.violation("function", cls, label, wit(extra))
		}
	}
	if rd.Panicked {
		sh.rep.violation("function", "basefee-panic:params-unreadable-after-endblock", label, wit(map[string]any{"panic": rd.Msg, "stack": rd.Stack}))
		return
	}
	telemetryOnly := end.Panicked && strings.Contains(end.Msg, "Int64() out of bound")
	if m.Defined && (!end.Panicked || telemetryOnly) {
		// the parameter is written before the telemetry gauge is computed, so it is checked in both cases
		if stored.BaseFee.IsNil() || stored.BaseFee.BigInt().Cmp(want) != 0 {
			sh.rep.violation("function", "basefee-mismatch:endblock-stored"+suffix, label, wit(map[string]any{"call": "FeeMarketKeeper.EndBlock", "stored_base_fee": stored.BaseFee.String()}))
		} else {
			run.Count("fn_endblock_stored_agrees", 1)
		}
		ev, n := feeMarketEvent(ctx.EventManager().ABCIEvents())
		if n != 1 {
			sh.rep.violation("function", "basefee-event-count:endblock", label, wit(map[string]any{"fee_market_events": n}))
		} else if ev != want.String() {
			sh.rep.violation("function", "basefee-mismatch:endblock-event"+suffix, label, wit(map[string]any{"event_base_fee": ev}))
		}
	}
	if !end.Panicked && !m.Defined {
		if stored.BaseFee.IsNil() || stored.BaseFee.IsNegative() || stored.BaseFee.BigInt().Cmp(minFloor) < 0 {
			sh.rep.violation("function", "basefee-below-floor:zero-gas-target", label, wit(map[string]any{"call": "FeeMarketKeeper.EndBlock", "stored_base_fee": stored.BaseFee.String()}))
		}
	}
	if !stored.MinGasPrice.Equal(minDec) {
		sh.rep.violation("function", "min-gas-price-changed-by-endblock", label, wit(map[string]any{"stored_min_gas_price": stored.MinGasPrice.String()}))
	}
	if idx < 2 {
		obs := "panic: " + calc.Msg
		if got != nil {
			obs = got.String()
		}
		exp := "undefined (zero target)"
		if m.Defined {
			exp = m.Next.String()
		}
		sh.mu.Lock()
		sh.samples = append(sh.samples, fnSample{key: fmt.Sprintf("%s/%06d", label, idx), v: map[string]any{"level": "function", "case": label, "point": p.witness(),
			"usage": m.Rel, "expected": exp, "calculate_base_fee": obs, "endblock_panicked": end.Panicked}})
		sh.mu.Unlock()
	}
}

// feeMarketEvent returns the base_fee attribute of the (last) fee_market event and the number of such events.
func feeMarketEvent(evs []abci.Event) (string, int) {
	val, n := "", 0
	for _, e := range evs {
		if e.Type != "fee_market" {
			continue
		}
		n++
		for _, a := range e.Attributes {
			if a.Key == "base_fee" {
				val = a.Value
			}
		}
	}
	return val, n
}

// runFunctionLevel evaluates nPoints points, chunked into independent PRNG streams, on nWorkers app instances.
func runFunctionLevel(run *vh.Run, rep *reporter, nPoints, nWorkers int) {
	sh := &fnShared{run: run, rep: rep}
	nChunks := (nPoints + fnChunk - 1) / fnChunk
	grid := 0
	if run.Thorough() {
		grid = gridSize()
		if grid > nPoints/2 {
			grid = nPoints / 2
		}
	}
	run.Set("fn_grid_points_enumerated", grid)
	var wg sync.WaitGroup
	for w := 0; w < nWorkers; w++ {
		wg.Add(1)
		go func(w int) {
			defer wg.Done()
			var c *vh.Chain
			for ch := w; ch < nChunks; ch += nWorkers {
				label := fmt.Sprintf("fn/%d", ch)
				if !run.WantCase(label) {
					continue
				}
				if c == nil {
					c = vh.NewChain(vh.Config{Seed: 0xc09 + uint64(w), NumVals: 1})
					defer c.Cleanup()
				}
				r := run.RNG("fn", ch)
				for i := 0; i < fnChunk && ch*fnChunk+i < nPoints; i++ {
					g := ch*fnChunk + i
					gi := -1
					if g < grid {
						gi = g
					}
					evalPoint(sh, c, label, i, genPoint(r, gi))
				}
			}
		}(w)
	}
	wg.Wait()
	sort.Slice(sh.samples, func(i, j int) bool { return sh.samples[i].key < sh.samples[j].key })
	for i, s := range sh.samples {
		if i >= 3 {
			break
		}
		run.Sample(s.v)
	}
}
