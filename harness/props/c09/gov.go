package c09

import (
	"fmt"
	"math/big"

	sdkmath "cosmossdk.io/math"
	sdk "github.com/cosmos/cosmos-sdk/types"

	feemarkettypes "github.com/EscanBE/evermint/v12/x/feemarket/types"

	"verifharness/vh"
)

// Governance leg: the global minimum gas price is RAISED above the base fee in force by a passed governance proposal
// (the only way the parameter changes on a live chain). The clause under test needs no model: after every block the
// committed base fee must be at or above the integer part of the committed minimum gas price - also in the very block
// whose end-of-block processing executes the proposal (the fee-market end blocker has to see the new parameter).
func runGovLeg(run *vh.Run, rep *reporter, idx int) {
	r := run.RNG("gov-min-price", idx)
	label := fmt.Sprintf("gov-min-price-%d", idx)
	proposer := vh.NewAcct(r)
	users := []*vh.Acct{vh.NewAcct(r), vh.NewAcct(r)}
	accts := []vh.GenAccount{{Addr: proposer.Addr, Coins: vh.NativeCoins(1000)}}
	for _, u := range users {
		accts = append(accts, vh.GenAccount{Addr: u.Addr, Coins: vh.NativeCoins(1000)})
	}
	base := vh.Pick(r, []*big.Int{big.NewInt(1_000_000_000), big.NewInt(7), big.NewInt(50_000_000_000)})
	var c *vh.Chain
	if cr := guard(func() {
		c = vh.NewChain(vh.Config{Seed: r.U64(), NumVals: 1 + idx%3, MaxGas: vh.Pick(r, []int64{-1, 10_000_000}), BaseFee: base, MinGasPrice: "0", Accounts: accts, MutateGenesis: vh.FastGov})
	}); cr.Panicked {
		rep.violation("history/gov", "gov-leg-setup-panicked", label, map[string]any{"panic": cr.Msg})
		return
	}
	defer c.Cleanup()
	seqs := c.NewSeqs()
	check := func(what string, br *vh.BlockResult) {
		run.Eval(1)
		p := c.App.FeeMarketKeeper.GetParams(c.QueryCtx())
		floor := p.MinGasPrice.TruncateInt().BigInt()
		bf := c.BaseFee()
		run.Count("gov_leg_blocks_checked", 1)
		if bf.Cmp(floor) < 0 {
			rep.violation("history/gov", "history-basefee-below-min-gas-price-after-governance-change", label, map[string]any{"level": "history", "height": br.Height, "what": what,
				"base_fee_after_block": bf.String(), "min_gas_price_after_block": p.MinGasPrice.String(), "floor": floor.String()})
		}
	}
	// a few ordinary blocks
	for i := 0; i < 3; i++ {
		br := c.NextBlock(nil, nil)
		if br.Err != nil {
			rep.violation("history/gov", "finalize-block-error", label, map[string]any{"err": br.Err.Error()})
			return
		}
		check("empty block", br)
	}
	// proposal: new minimum gas price far above the current base fee, with a fractional part
	cur := c.App.FeeMarketKeeper.GetParams(c.QueryCtx())
	np := cur
	mult := int64(vh.Pick(r, []int{2, 5, 1000}))
	np.MinGasPrice = sdkmath.LegacyNewDecFromBigInt(new(big.Int).Mul(c.BaseFee(), big.NewInt(mult))).Add(sdkmath.LegacyMustNewDecFromStr("5000000000.5"))
	msg := &feemarkettypes.MsgUpdateParams{Authority: vh.GovAddr.String(), Params: np}
	txs, id, err := c.GovProposalTxs(proposer, []sdk.Msg{msg}, seqs, "raise min gas price")
	if err != nil {
		run.Inconclusive("gov leg: cannot build the proposal: " + err.Error())
		return
	}
	br := c.NextBlock(txs, nil)
	seqs.Reset()
	if br.Err != nil {
		rep.violation("history/gov", "finalize-block-error", label, map[string]any{"err": br.Err.Error()})
		return
	}
	for i, res := range br.TxResults() {
		if res.Code != 0 {
			run.Inconclusive(fmt.Sprintf("gov leg %s: governance tx %d failed: %s", label, i, trunc(res.Log, 200)))
			return
		}
	}
	check("proposal submitted and voted", br)
	passed := false
	for i := 0; i < 6; i++ {
		br := c.NextBlock(nil, nil)
		if br.Err != nil {
			rep.violation("history/gov", "finalize-block-error", label, map[string]any{"err": br.Err.Error()})
			return
		}
		st := c.ProposalStatuses(c.QueryCtx())[id]
		what := "block after the vote"
		if !passed && st == 3 { // PROPOSAL_STATUS_PASSED
			passed = true
			what = "block whose end blocker executed the proposal"
			run.Count("gov_leg_proposals_passed", 1)
			run.Nontrivial(fmt.Sprintf("gov-min-price|base=%s|x%d", baseClass(base), mult))
		}
		check(what, br)
	}
	if !passed {
		run.Inconclusive("gov leg " + label + ": the proposal did not pass")
	}
}
