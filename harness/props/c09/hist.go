package c09

import (
	"fmt"
	"math/big"
	"strings"

	sdkmath "cosmossdk.io/math"
	abci "github.com/cometbft/cometbft/abci/types"
	sdk "github.com/cosmos/cosmos-sdk/types"
	banktypes "github.com/cosmos/cosmos-sdk/x/bank/types"
	"github.com/ethereum/go-ethereum/common"
	ethtypes "github.com/ethereum/go-ethereum/core/types"
	"github.com/ethereum/go-ethereum/core/vm"
	"github.com/ethereum/go-ethereum/crypto"

	"verifharness/vh"
)

// ---------------------------------------------------------------------------------------------
// Level B: real chains. After every block the new base fee (fee_market event and parameter) is
// compared with the model applied to the gas the block consumed (computed from the consensus
// results), and every admitted transaction's effective price is compared with the base fee in
// force and with floor(global min gas price).
// ---------------------------------------------------------------------------------------------

type histVariant struct {
	Name      string
	MaxGas    int64
	BaseFee   *big.Int
	MinGP     string
	Quick     bool
	Genesis   bool // compose block 1 ourselves: base fee in force = genesis base fee (may be < floor(min gas price))
	ForceFull bool // every block is filled exactly to the limit (base fee climbs 12.5% per block)
}

func histVariants() []histVariant {
	g := func(v int64) *big.Int { return big.NewInt(v) }
	return []histVariant{
		{Name: "unlimited", MaxGas: -1, BaseFee: g(1_000_000_000), MinGP: "0", Quick: true},
		{Name: "maxgas-0", MaxGas: 0, BaseFee: g(1_000_000_000), MinGP: "0", Quick: true},
		{Name: "maxgas-1", MaxGas: 1, BaseFee: g(1_000_000_000), MinGP: "0", Quick: true},
		{Name: "maxgas-3", MaxGas: 3, BaseFee: g(1_000_000_000), MinGP: "0.5", Quick: true},
		{Name: "maxgas-21000x2", MaxGas: 42000, BaseFee: g(1_000_000_000), MinGP: "0", Quick: true},
		{Name: "maxgas-21000x4-lowbase", MaxGas: 84000, BaseFee: g(7), MinGP: "1.9", Quick: true},
		{Name: "maxgas-21000x5-min-at-base", MaxGas: 105000, BaseFee: g(1_000_000_000), MinGP: "1000000000.5", Quick: true},
		{Name: "maxgas-1e6-min-above-genesis-base", MaxGas: 1_000_000, BaseFee: g(1_000_000_000), MinGP: "3000000000", Quick: true, Genesis: true},
		{Name: "maxgas-1e6-zero-base", MaxGas: 1_000_000, BaseFee: g(0), MinGP: "0", Quick: true},
		{Name: "maxgas-21000x2-base-near-2^63", MaxGas: 42000, BaseFee: new(big.Int).Sub(two63, big1), MinGP: "0", Quick: true, ForceFull: true},
		{Name: "maxgas-2", MaxGas: 2, BaseFee: g(100), MinGP: "1.9"},
		{Name: "maxgas-21000x3", MaxGas: 63000, BaseFee: g(1_000_000_000), MinGP: "0"},
		{Name: "maxgas-21000x10-base8", MaxGas: 210000, BaseFee: g(8), MinGP: "0"},
		{Name: "maxgas-4e7", MaxGas: 40_000_000, BaseFee: g(1_000_000_000), MinGP: "0.5"},
		{Name: "unlimited-fractional-min", MaxGas: -1, BaseFee: g(1_000_000_000), MinGP: "875000000.9", Genesis: true},
		{Name: "maxgas-1e6-min-far-above", MaxGas: 1_000_000, BaseFee: g(5), MinGP: "123456789012.000000000000000001", Genesis: true},
	}
}

type txPlan struct {
	Lane   string // eth-legacy | eth-accesslist | eth-dynamic | cosmos | cosmos-dynamic-ext
	Kind   string // transfer | call-data | contract-call | create | bank-send
	Bytes  []byte
	Eth    *ethtypes.Transaction
	Gas    uint64
	Fee    *big.Int // cosmos: total fee offered
	Tip    *big.Int // cosmos dynamic-fee extension: max priority price
	Shape  string
	Sender common.Address
	Nonce  uint64
}

func (p *txPlan) describe() map[string]any {
	m := map[string]any{"lane": p.Lane, "kind": p.Kind, "gas_limit": p.Gas, "price_shape": p.Shape, "sender": p.Sender.Hex(), "nonce": p.Nonce}
	if p.Eth != nil {
		if p.Eth.Type() == ethtypes.DynamicFeeTxType {
			m["gas_fee_cap"] = p.Eth.GasFeeCap().String()
			m["gas_tip_cap"] = p.Eth.GasTipCap().String()
		} else {
			m["gas_price"] = p.Eth.GasPrice().String()
		}
		m["data_len"] = len(p.Eth.Data())
	} else {
		m["fee"] = p.Fee.String()
		if p.Tip != nil {
			m["max_priority_price"] = p.Tip.String()
		}
	}
	return m
}

type histWorld struct {
	run      *vh.Run
	rep      *reporter
	v        histVariant
	label    string
	r        *vh.RNG
	c        *vh.Chain
	eoas     []*vh.Acct
	accNum   map[common.Address]uint64
	pending  map[common.Address]uint64
	contract *common.Address
	minFloor *big.Int
	blocks   int
	halted   string
}

func maxBig(a, b *big.Int) *big.Int {
	if a.Cmp(b) >= 0 {
		return new(big.Int).Set(a)
	}
	return new(big.Int).Set(b)
}

func dec1(a *big.Int) *big.Int {
	if a.Sign() <= 0 {
		return new(big.Int)
	}
	return new(big.Int).Sub(a, big1)
}

func mulU(a *big.Int, n uint64) *big.Int { return new(big.Int).Mul(a, bu(n)) }

// ---- price shapes (generator side; the oracle recomputes the relation from the tx fields) ----

type ethFee struct {
	Type            int
	Price, Cap, Tip *big.Int
	Shape           string
}

func (w *histWorld) genEthFee(base *big.Int, admissible bool) ethFee {
	r := w.r
	bound := maxBig(base, w.minFloor)
	f := ethFee{Type: r.Intn(3)}
	gap := new(big.Int).Sub(w.minFloor, base) // > 0 only while the base fee is below the global minimum
	if gap.Sign() < 0 {
		gap.SetInt64(0)
	}
	rnd := func(n int) *big.Int { return big.NewInt(int64(r.Intn(n))) }
	// upTo(x) is uniform in [0, x]
	upTo := func(x *big.Int) *big.Int { return r.BigBelow(new(big.Int).Add(x, big1)) }
	if admissible && bound.Sign() == 0 {
		// with a zero bound a zero effective price is refused for carrying no fee coin: offer a positive price
		f.Price = big.NewInt(int64(1 + r.Intn(1000)))
		f.Cap, f.Tip, f.Shape = f.Price, f.Price, "positive-over-zero-bound"
		return f
	}
	if f.Type < 2 {
		k := r.Intn(10)
		if admissible {
			k = 3 + r.Intn(5)
		}
		switch k {
		case 0:
			f.Price, f.Shape = new(big.Int), "zero"
		case 1:
			f.Price, f.Shape = new(big.Int).Rsh(bound, 1), "half-bound"
		case 2:
			f.Price, f.Shape = dec1(bound), "bound-1"
		case 3:
			f.Price, f.Shape = bound, "bound"
		case 4:
			f.Price, f.Shape = new(big.Int).Add(bound, big1), "bound+1"
		case 8:
			f.Price, f.Shape = new(big.Int).Set(base), "base-fee"
		case 9:
			f.Price, f.Shape = new(big.Int).Rsh(new(big.Int).Add(base, bound), 1), "between-base-and-bound"
		default:
			f.Price, f.Shape = new(big.Int).Add(new(big.Int).Lsh(bound, 1), rnd(1000)), "above"
		}
		return f
	}
	k := r.Intn(11)
	if admissible {
		k = 3 + r.Intn(6)
		if k == 5 && gap.Sign() > 0 {
			k = 3
		}
	}
	switch k {
	case 0:
		f.Cap, f.Tip, f.Shape = dec1(bound), new(big.Int), "cap=bound-1,tip=0"
	case 1:
		f.Cap, f.Tip, f.Shape = dec1(bound), dec1(bound), "cap=tip=bound-1"
	case 2:
		f.Cap, f.Tip, f.Shape = bound, new(big.Int), "cap=bound,tip=0"
	case 3:
		f.Cap, f.Tip, f.Shape = bound, new(big.Int).Set(bound), "cap=tip=bound"
	case 4:
		f.Cap, f.Tip, f.Shape = new(big.Int).Add(bound, big1), new(big.Int).Add(gap, big1), "cap=bound+1,tip=gap+1"
	case 5:
		f.Cap, f.Shape = new(big.Int).Add(mulU(bound, 3), big1), "cap=3bound+1,tip=small"
		if f.Tip = rnd(1000); f.Tip.Cmp(f.Cap) > 0 {
			f.Tip = upTo(f.Cap)
		}
	case 6:
		f.Cap, f.Shape = new(big.Int).Lsh(bound, 1), "cap=tip=2bound"
		f.Tip = new(big.Int).Set(f.Cap)
	case 7:
		f.Cap, f.Tip, f.Shape = new(big.Int).Add(new(big.Int).Lsh(bound, 1), big.NewInt(2)), new(big.Int).Set(gap), "cap=2bound+2,tip=gap"
	case 8:
		f.Cap, f.Tip, f.Shape = new(big.Int).Add(new(big.Int).Lsh(bound, 1), big.NewInt(2)), new(big.Int).Add(gap, upTo(bound)), "cap=2bound+2,tip=gap+rand"
	case 9:
		f.Cap, f.Tip, f.Shape = new(big.Int).Add(new(big.Int).Lsh(bound, 1), big.NewInt(2)), dec1(gap), "cap=2bound+2,tip=gap-1"
	default:
		f.Cap, f.Tip, f.Shape = new(big.Int).Rsh(bound, 1), new(big.Int), "cap=half-bound"
	}
	return f
}

// genCosmosFee returns (fee, tip|nil, shape) for gas limit g.
func (w *histWorld) genCosmosFee(base *big.Int, g uint64, admissible bool) (*big.Int, *big.Int, string) {
	r := w.r
	bound := maxBig(base, w.minFloor)
	gap := new(big.Int).Sub(w.minFloor, base)
	if gap.Sign() < 0 {
		gap.SetInt64(0)
	}
	bg := mulU(bound, g)
	if admissible && bound.Sign() == 0 {
		fee := mulU(big.NewInt(int64(1+r.Intn(5))), g)
		if r.Bool() {
			return fee, nil, "positive-over-zero-bound"
		}
		return fee, big.NewInt(int64(1 + r.Intn(1000))), "positive-over-zero-bound,tip=positive"
	}
	k := r.Intn(12)
	if admissible {
		k = 1 + r.Intn(2)
		if r.Bool() {
			k = 6
		}
	}
	var fee *big.Int
	var shape string
	switch k {
	case 0:
		fee, shape = dec1(bg), "fee=bound*gas-1"
	case 1:
		fee, shape = bg, "fee=bound*gas"
	case 2:
		fee, shape = new(big.Int).Add(bg, bu(g-1)), "fee=bound*gas+gas-1"
	case 3:
		fee, shape = new(big.Int).Add(mulU(dec1(bound), g), bu(g-1)), "fee=(bound-1)*gas+gas-1"
	case 4:
		fee, shape = new(big.Int).Rsh(bg, 1), "fee=bound*gas/2"
	case 5:
		fee, shape = mulU(base, g), "fee=base*gas"
	case 9: // a positive fee below the gas limit: the price per gas floors to 0
		fee, shape = bu(g-1), "fee=gas-1"
	case 10:
		fee, shape = big.NewInt(1), "fee=1"
	case 11:
		fee, shape = bu(g/2), "fee=gas/2"
	default:
		fee, shape = new(big.Int).Add(new(big.Int).Lsh(bg, 1), big.NewInt(int64(r.Intn(100000)))), "fee=2*bound*gas+rand"
	}
	if !r.Chance(2, 5) {
		return fee, nil, shape
	}
	var tip *big.Int
	t := r.Intn(5)
	if admissible {
		t = 2 + r.Intn(2)
	}
	switch t {
	case 0:
		tip, shape = new(big.Int), shape+",tip=0"
	case 1:
		tip, shape = dec1(gap), shape+",tip=gap-1"
	case 2:
		tip, shape = new(big.Int).Set(gap), shape+",tip=gap"
	case 3:
		tip, shape = new(big.Int).Add(gap, big.NewInt(int64(1+r.Intn(1000)))), shape+",tip=gap+rand"
	default:
		tip, shape = new(big.Int).Lsh(bound, 1), shape+",tip=2bound"
	}
	return fee, tip, shape
}

// ---- independent price relation (oracle side) ----

// priceRelation classifies the effective gas price of a plan against the base fee in force and
// floor(global min gas price): below-base-fee | below-min-gas-price | equal | above.
// Ethereum: min(tip+base, cap) or the gas price. Cosmos: fee/gas, or min(tip+base, fee/gas) with the
// dynamic-fee extension; fee/gas is compared as a rational (fee >= x*gas).
func priceRelation(p *txPlan, base, minFloor *big.Int) string {
	bound := maxBig(base, minFloor)
	if p.Eth != nil {
		eff := vh.EffectivePrice(p.Eth, base)
		switch {
		case eff.Cmp(base) < 0:
			return "below-base-fee"
		case eff.Cmp(minFloor) < 0:
			return "below-min-gas-price"
		case eff.Cmp(bound) == 0:
			return "equal"
		}
		return "above"
	}
	feeGE := func(x *big.Int) bool { return p.Fee.Cmp(mulU(x, p.Gas)) >= 0 }
	feeFloorEq := func(x *big.Int) bool {
		return feeGE(x) && p.Fee.Cmp(mulU(new(big.Int).Add(x, big1), p.Gas)) < 0
	}
	if p.Tip == nil {
		switch {
		case !feeGE(base):
			return "below-base-fee"
		case !feeGE(minFloor):
			return "below-min-gas-price"
		case feeFloorEq(bound):
			return "equal"
		}
		return "above"
	}
	tb := new(big.Int).Add(p.Tip, base)
	switch {
	case tb.Cmp(base) < 0 || !feeGE(base):
		return "below-base-fee"
	case tb.Cmp(minFloor) < 0 || !feeGE(minFloor):
		return "below-min-gas-price"
	case tb.Cmp(bound) == 0 || feeFloorEq(bound):
		return "equal"
	}
	return "above"
}

// ---- transaction builders ----

func (w *histWorld) nextNonce(a common.Address) uint64 { return w.c.Nonce(a) + w.pending[a] }

func dataForExtraGas(extra uint64) []byte {
	nz := extra / 16
	z := (extra % 16) / 4
	d := make([]byte, nz+z)
	for i := uint64(0); i < nz; i++ {
		d[i] = byte(1 + i%255)
	}
	return d
}

// ethPlan builds an Ethereum tx to `to` with the given data; gas limit = limit.
func (w *histWorld) ethPlan(s *vh.Acct, to *common.Address, data []byte, limit uint64, fee ethFee, kind string, base *big.Int) *txPlan {
	nonce := w.nextNonce(s.Addr)
	value := big.NewInt(int64(w.r.Intn(1000)))
	var txd ethtypes.TxData
	lane := "eth-legacy"
	switch fee.Type {
	case 0:
		txd = &ethtypes.LegacyTx{Nonce: nonce, To: to, Value: value, Gas: limit, GasPrice: fee.Price, Data: data}
	case 1:
		lane = "eth-accesslist"
		txd = &ethtypes.AccessListTx{ChainID: big.NewInt(vh.EIP155ID), Nonce: nonce, To: to, Value: value, Gas: limit, GasPrice: fee.Price, Data: data}
	default:
		lane = "eth-dynamic"
		txd = &ethtypes.DynamicFeeTx{ChainID: big.NewInt(vh.EIP155ID), Nonce: nonce, To: to, Value: value, Gas: limit, GasFeeCap: fee.Cap, GasTipCap: fee.Tip, Data: data}
	}
	bz, tx := w.c.EthTx(s, txd)
	p := &txPlan{Lane: lane, Kind: kind, Bytes: bz, Eth: tx, Gas: limit, Shape: fee.Shape, Sender: s.Addr, Nonce: nonce}
	if rel := priceRelation(p, base, w.minFloor); rel == "equal" || rel == "above" {
		w.pending[s.Addr]++
	}
	return p
}

func (w *histWorld) cosmosPlan(s *vh.Acct, to common.Address, gas uint64, fee, tip *big.Int, shape string, base *big.Int) *txPlan {
	seq := w.nextNonce(s.Addr)
	an := w.accNum[s.Addr]
	msg := banktypes.NewMsgSend(s.Acc(), sdk.AccAddress(to.Bytes()), sdk.NewCoins(sdk.NewCoin(vh.Denom, sdkmath.NewInt(int64(1+w.r.Intn(1000))))))
	coins := sdk.Coins{}
	if fee.Sign() > 0 {
		coins = sdk.Coins{sdk.NewCoin(vh.Denom, sdkmath.NewIntFromBigInt(fee))}
	}
	o := &vh.CosmosOpts{Seq: &seq, AccNum: &an, Gas: gas, Fee: coins, DynamicTip: tip}
	bz := w.c.CosmosTx(s, []sdk.Msg{msg}, o)
	lane := "cosmos"
	if tip != nil {
		lane = "cosmos-dynamic-ext"
	}
	p := &txPlan{Lane: lane, Kind: "bank-send", Bytes: bz, Gas: gas, Fee: fee, Tip: tip, Shape: shape, Sender: s.Addr, Nonce: seq}
	if rel := priceRelation(p, base, w.minFloor); rel == "equal" || rel == "above" {
		w.pending[s.Addr]++
	}
	return p
}

func (w *histWorld) sender() *vh.Acct { return vh.Pick(w.r, w.eoas) }
func (w *histWorld) recipient() common.Address {
	return vh.Pick(w.r, w.eoas).Addr
}

// exactEth builds admissible Ethereum transactions whose gas used sums to exactly total
// (calls with calldata to plain accounts use exactly their intrinsic gas).
func (w *histWorld) exactEth(total uint64, base *big.Int) []*txPlan {
	total -= total % 4
	if total < 21000 {
		return nil
	}
	maxN := total / 21000
	if maxN > 10 {
		maxN = 10
	}
	n := uint64(1)
	if maxN > 1 {
		n = uint64(w.r.Range(1, int(maxN)))
		if total/n > 120000 { // keep calldata moderate
			n = maxN
		}
	}
	var out []*txPlan
	left := total
	for i := uint64(0); i < n; i++ {
		g := (left / (n - i))
		g -= g % 4
		if i == n-1 {
			g = left
		}
		left -= g
		to := w.recipient()
		limit := g + uint64(vh.Pick(w.r, []int{0, 0, 1000, 30000}))
		kind := "call-data"
		if g == 21000 {
			kind = "transfer"
		}
		out = append(out, w.ethPlan(w.sender(), &to, dataForExtraGas(g-21000), limit, w.genEthFee(base, true), kind, base))
	}
	return out
}

func (w *histWorld) underpricedEth(base *big.Int) *txPlan {
	for i := 0; ; i++ {
		f := w.genEthFee(base, false)
		to := w.recipient()
		s := w.sender()
		probe := &txPlan{Eth: vh.SignEth(s, ethTxData(f, 0, &to, 21000)), Gas: 21000}
		if rel := priceRelation(probe, base, w.minFloor); strings.HasPrefix(rel, "below") || i > 40 {
			return w.ethPlan(s, &to, nil, 21000, f, "transfer", base)
		}
	}
}

func ethTxData(f ethFee, nonce uint64, to *common.Address, gas uint64) ethtypes.TxData {
	switch f.Type {
	case 0:
		return &ethtypes.LegacyTx{Nonce: nonce, To: to, Gas: gas, GasPrice: f.Price, Value: new(big.Int)}
	case 1:
		return &ethtypes.AccessListTx{ChainID: big.NewInt(vh.EIP155ID), Nonce: nonce, To: to, Gas: gas, GasPrice: f.Price, Value: new(big.Int)}
	}
	return &ethtypes.DynamicFeeTx{ChainID: big.NewInt(vh.EIP155ID), Nonce: nonce, To: to, Gas: gas, GasFeeCap: f.Cap, GasTipCap: f.Tip, Value: new(big.Int)}
}

func (w *histWorld) randomTx(base *big.Int, admissible bool) *txPlan {
	r := w.r
	switch k := r.Intn(20); {
	case k < 8:
		to := w.recipient()
		return w.ethPlan(w.sender(), &to, nil, uint64(vh.Pick(r, []int{21000, 21000, 25000, 100000})), w.genEthFee(base, admissible), "transfer", base)
	case k < 12:
		to := w.recipient()
		extra := uint64(4 * r.Intn(5000))
		return w.ethPlan(w.sender(), &to, dataForExtraGas(extra), 21000+extra+uint64(r.Intn(2))*5000, w.genEthFee(base, admissible), "call-data", base)
	case k < 14 && w.contract != nil:
		return w.ethPlan(w.sender(), w.contract, r.Bytes(r.Intn(40)), 120000, w.genEthFee(base, admissible), "contract-call", base)
	default:
		g := w.cosmosGas(uint64(vh.Pick(r, []int{150000, 200000, 200000, 333333, 400000})))
		fee, tip, shape := w.genCosmosFee(base, g, admissible)
		return w.cosmosPlan(w.sender(), w.recipient(), g, fee, tip, shape, base)
	}
}

// cosmosGas caps a Cosmos gas limit at the block max gas: the SDK refuses larger limits before any fee logic.
func (w *histWorld) cosmosGas(g uint64) uint64 {
	if w.v.MaxGas > 0 && g > uint64(w.v.MaxGas) {
		return uint64(w.v.MaxGas)
	}
	return g
}

func burnerRuntime() []byte {
	a := vh.NewAsm()
	a.PushU(0).Op(vm.SLOAD).PushU(1).Op(vm.ADD).PushU(0).Op(vm.SSTORE) // counter++
	a.Op(vm.CALLER, vm.NUMBER, vm.SSTORE)                              // slot[number] = caller
	a.Op(vm.STOP)
	return a.Bytes()
}

// compose picks a fill level for the block and builds its transactions.
func (w *histWorld) compose(base *big.Int, height int64) (string, []*txPlan) {
	r := w.r
	L := w.v.MaxGas
	var plans []*txPlan
	addUnder := func(n int) {
		for i := 0; i < n; i++ {
			plans = append(plans, w.underpricedEth(base))
		}
	}
	shuffleIn := func(extra []*txPlan) {
		for _, e := range extra {
			at := r.Intn(len(plans) + 1)
			plans = append(plans, nil)
			copy(plans[at+1:], plans[at:])
			plans[at] = e
		}
	}
	if w.v.ForceFull {
		return "exact-limit", w.exactEth(uint64(L), base)
	}
	if w.v.Genesis && w.blocks == 0 {
		// block 1 of a fresh chain: the genesis base fee is in force and may lie below floor(min gas price)
		for i := r.Range(10, 20); i > 0; i-- {
			plans = append(plans, w.randomTx(base, r.Chance(1, 3)))
		}
		return "genesis-many", plans
	}
	// deploy the burner contract once where a creation fits
	if w.contract == nil && w.blocks == 1 && (L < 0 || L >= 1_000_000) {
		s := w.eoas[0]
		f := w.genEthFee(base, true)
		p := w.ethPlan(s, nil, vh.Deployer(burnerRuntime()), 200000, f, "create", base)
		return "deploy", []*txPlan{p}
	}
	switch {
	case L >= 0 && L < 42000: // no transaction fits below the limit: every gas-consuming tx crosses it
		mode := vh.Pick(r, []string{"empty", "empty", "rejected-only", "rejected-only", "empty", "rejected-only", "single", "cosmos-underpriced", "random-small", "empty"})
		if w.blocks < 4 {
			mode = []string{"empty", "rejected-only", "empty", "rejected-only"}[w.blocks]
		}
		switch mode {
		case "rejected-only":
			addUnder(r.Range(1, 4))
		case "single":
			plans = append(plans, w.randomTx(base, true))
		case "cosmos-underpriced":
			g := w.cosmosGas(200000)
			bound := maxBig(base, w.minFloor)
			fee := dec1(mulU(bound, g))
			plans = append(plans, w.cosmosPlan(w.sender(), w.recipient(), g, fee, nil, "fee=bound*gas-1", base))
		case "random-small":
			for i := r.Range(1, 4); i > 0; i-- {
				plans = append(plans, w.randomTx(base, false))
			}
		}
		return mode, plans
	case L < 0:
		mode := vh.Pick(r, []string{"empty", "rejected-only", "single", "random", "random", "random", "many"})
		switch mode {
		case "rejected-only":
			addUnder(r.Range(1, 4))
		case "single":
			plans = append(plans, w.randomTx(base, true))
		case "random":
			for i := r.Range(1, 8); i > 0; i-- {
				plans = append(plans, w.randomTx(base, false))
			}
		case "many":
			for i := r.Range(10, 25); i > 0; i-- {
				plans = append(plans, w.randomTx(base, r.Chance(3, 4)))
			}
		}
		return mode, plans
	}
	limit := uint64(L)
	target := limit / 2
	mode := vh.Pick(r, []string{"empty", "rejected-only", "single", "exact-target", "exact-target", "target-minus", "target-plus",
		"exact-limit", "over-limit", "over-limit-cosmos", "random", "random", "below-random", "above-random"})
	switch mode {
	case "rejected-only":
		addUnder(r.Range(1, 4))
	case "single":
		plans = append(plans, w.randomTx(base, true))
	case "exact-target":
		plans = w.exactEth(target, base)
	case "target-minus":
		plans = w.exactEth(target-4*uint64(r.Range(1, 3)), base)
	case "target-plus":
		plans = w.exactEth(target+4*uint64(r.Range(1, 3)), base)
	case "exact-limit":
		plans = w.exactEth(limit, base)
	case "over-limit":
		plans = w.exactEth(limit-4*uint64(r.Intn(2000)), base)
		for i := r.Range(1, 3); i > 0; i-- {
			to := w.recipient()
			plans = append(plans, w.ethPlan(w.sender(), &to, nil, 21000, w.genEthFee(base, true), "transfer", base))
		}
	case "over-limit-cosmos":
		if limit > 250000 {
			plans = w.exactEth(limit-4*uint64(r.Range(5000, 20000)), base)
		}
		g := w.cosmosGas(200000)
		fee, tip, shape := w.genCosmosFee(base, g, true)
		plans = append(plans, w.cosmosPlan(w.sender(), w.recipient(), g, fee, tip, shape, base))
		plans = append(plans, w.randomTx(base, true))
	case "random":
		for i := r.Range(1, 10); i > 0; i-- {
			plans = append(plans, w.randomTx(base, false))
		}
	case "below-random":
		if target > 21000 {
			plans = w.exactEth(21000+uint64(r.U64()%(target-21000)), base)
		}
	case "above-random":
		plans = w.exactEth(target+4+uint64(r.U64()%(limit-target)), base)
	}
	if strings.HasPrefix(mode, "exact") || strings.HasPrefix(mode, "target") || strings.HasSuffix(mode, "-random") {
		// under-priced Ethereum txs consume no block gas: sprinkle them without disturbing the fill level
		var extra []*txPlan
		for i := r.Intn(3); i > 0; i-- {
			extra = append(extra, w.underpricedEth(base))
		}
		shuffleIn(extra)
	}
	return mode, plans
}

func feeCharged(res *abci.ExecTxResult) (*big.Int, bool) {
	for _, e := range res.Events {
		if e.Type != "tx" {
			continue
		}
		for _, a := range e.Attributes {
			if a.Key == "fee" {
				if a.Value == "" {
					return new(big.Int), true
				}
				cs, err := sdk.ParseCoinsNormalized(a.Value)
				if err != nil {
					return nil, true
				}
				return cs.AmountOf(vh.Denom).BigInt(), true
			}
		}
	}
	return nil, false
}

// blockGasFromResults recomputes what the block gas meter consumed from the consensus results.
// baseapp.runTx charges the block meter, for every transaction it starts (failed ones included), with
// ctx.GasMeter().GasConsumedToLimit() of the transaction's own meter:
//   - a transaction that got a limited meter from the ante handler (GasWanted > 0): min(GasUsed, GasWanted);
//   - an Ethereum transaction refused by the ante handler (infinite meter, reported as GasWanted -1): GasUsed;
//   - a transaction refused before, or by a panic inside, the ante handler never replaced runTx's own
//     infinite meter (GasWanted reported as 0): GasUsed (what reading the consensus params cost);
//   - a Cosmos transaction with gas limit 0 (GasWanted 0, out of gas, sdk/11): nothing up to its limit of 0;
//   - skipped for "no block gas left" and undecodable transactions report 0/0 and add nothing.
func blockGasFromResults(rs []*abci.ExecTxResult) uint64 {
	var sum uint64
	for _, res := range rs {
		u := uint64(res.GasUsed)
		if res.GasUsed < 0 {
			u = 0
		}
		wanted := uint64(res.GasWanted) // -1 => MaxUint64
		if res.GasWanted == 0 {
			// no limit was established (the ante handler did not get as far, e.g. it panicked and was recovered): baseapp
			// charges the block meter with what the transaction consumed; "no block gas left to run tx" results carry 0 used
			wanted = ^uint64(0)
		}
		if u > wanted {
			u = wanted
		}
		if sum+u < sum {
			return ^uint64(0)
		}
		sum += u
	}
	return sum
}

func runHistory(run *vh.Run, rep *reporter, v histVariant, world int, nBlocks int) {
	label := fmt.Sprintf("hist/%s/%d", v.Name, world)
	if !run.WantCase(label) {
		return
	}
	r := run.RNG("hist/"+v.Name, world)
	w := &histWorld{run: run, rep: rep, v: v, label: label, r: r, accNum: map[common.Address]uint64{}, pending: map[common.Address]uint64{},
		minFloor: decFloor(v.MinGP)}
	const numVals = 1
	var accts []vh.GenAccount
	for i := 0; i < 8; i++ {
		a := vh.NewAcct(r)
		w.eoas = append(w.eoas, a)
		w.accNum[a.Addr] = uint64(numVals + i) // genesis numbering: validator operators first, then cfg.Accounts in order
		accts = append(accts, vh.GenAccount{Addr: a.Addr, Coins: vh.NativeCoins(1_000_000_000)})
	}
	cfg := vh.Config{Seed: r.U64(), NumVals: numVals, MaxGas: v.MaxGas, MaxGasSet: true, BaseFee: v.BaseFee, MinGasPrice: v.MinGP,
		Accounts: accts, NoFirstBlock: v.Genesis}
	var c *vh.Chain
	if cr := guard(func() { c = vh.NewChain(cfg) }); cr.Panicked {
		m := nextBaseFee(v.BaseFee, v.MaxGas, 0, w.minFloor)
		rep.violation("history/"+v.Name, panicClass(cr.Msg, m, nil), label, map[string]any{"level": "history", "variant": v, "at": "InitChain / empty first block", "panic": cr.Msg, "stack": cr.Stack})
		run.Count("hist_chains_halted", 1)
		return
	}
	w.c = c
	defer c.Cleanup()
	run.Count("hist_chains", 1)
	inForce := new(big.Int).Set(v.BaseFee) // base fee in force in the next block (tracked from committed state)
	if !v.Genesis {
		inForce = c.BaseFee()
		// block 1 was an empty block run by the driver: check it as well
		m := nextBaseFee(v.BaseFee, v.MaxGas, 0, w.minFloor)
		if alt := unlimitedReading(v.BaseFee, v.MaxGas, 0, w.minFloor); m.Defined && inForce.Cmp(m.Next) != 0 && !(alt != nil && inForce.Cmp(alt) == 0) {
			sfx := m.Side
			if m.Clamped {
				sfx += ":min-price-clamp"
			}
			rep.violation("history/"+v.Name, "history-basefee-mismatch:param:"+sfx, label, map[string]any{"level": "history", "variant": v, "height": 1, "txs": 0,
				"base_fee_in_force": v.BaseFee.String(), "expected_next_base_fee": m.Next.String(), "observed_param": inForce.String()})
		}
	}
	mgKey := fmt.Sprintf("hist_blocks[%s]", v.Name)
	for b := 0; b < nBlocks; b++ {
		w.blocks = b
		w.pending = map[common.Address]uint64{}
		mode, plans := w.compose(inForce, c.Height+1)
		txs := make([][]byte, len(plans))
		for i, p := range plans {
			txs[i] = p.Bytes
		}
		describe := func() []map[string]any {
			var out []map[string]any
			for _, p := range plans {
				out = append(out, p.describe())
			}
			return out
		}
		var br *vh.BlockResult
		var sdkMeter uint64 // the SDK block gas meter itself, read before Commit: used only to validate the recomputation below
		cr := guard(func() {
			br = c.NextBlock(txs, &vh.BlockOpt{NoSentinel: true, NoCommit: true})
			if br.Err == nil && br.Res != nil {
				sdkMeter = c.App.GetContextForFinalizeBlock(nil).BlockGasMeter().GasConsumed()
				if _, err := c.App.Commit(); err != nil {
					br.Err = err
				}
			}
		})
		height := c.Height
		base := map[string]any{"level": "history", "variant": v, "case": label, "height": height, "fill_mode": mode,
			"base_fee_in_force": inForce.String(), "floor_min_gas_price": w.minFloor.String(), "txs": describe()}
		if cr.Panicked {
			m := nextBaseFee(inForce, v.MaxGas, 0, w.minFloor)
			cls := panicClass(cr.Msg, m, nil)
			base["panic"], base["stack"] = cr.Msg, cr.Stack
			base["note"] = "panic propagated out of BaseApp.FinalizeBlock; a node would crash on this block"
			base["blocks_before"] = b
			rep.violation("history/"+v.Name, cls, label, base)
			run.Count("hist_chains_halted", 1)
			run.Count("hist_finalize_panic["+cls+"]", 1)
			w.halted = cls
			return
		}
		if br.Err != nil || br.Res == nil {
			base["error"] = fmt.Sprint(br.Err)
			rep.violation("history/"+v.Name, "finalize-block-error", label, base)
			run.Count("hist_chains_halted", 1)
			return
		}
		run.Eval(1)
		run.Count(mgKey, 1)
		run.Count("hist_blocks", 1)
		run.Count("hist_fill_mode_"+mode, 1)

		// ---- base fee of the next block ----
		consumed := blockGasFromResults(br.Res.TxResults)
		if consumed != sdkMeter {
			// the harness' reading of the consensus results is off (or something other than baseapp.runTx
			// charged the block meter): no verdict for this block, and the run is not allowed to pass
			run.Count("hist_block_gas_recomputation_disagrees", 1)
			var rs []string
			for i, res := range br.Res.TxResults {
				rs = append(rs, fmt.Sprintf("#%d %s code=%s/%d used=%d wanted=%d log=%s", i, plans[i].Lane, res.Codespace, res.Code, res.GasUsed, res.GasWanted, trunc(res.Log, 60)))
			}
			run.Inconclusive(fmt.Sprintf("block gas recomputed from consensus results (%d) != SDK block gas meter (%d) at %s height %d: %s", consumed, sdkMeter, label, height, strings.Join(rs, "; ")))
			inForce = c.BaseFee()
			continue
		}
		m := nextBaseFee(inForce, v.MaxGas, consumed, w.minFloor)
		newBase := c.BaseFee()
		evVal, evN := feeMarketEvent(br.Res.Events)
		var results []map[string]any
		for i, res := range br.Res.TxResults {
			results = append(results, map[string]any{"i": i, "code": res.Code, "codespace": res.Codespace, "gas_wanted": res.GasWanted, "gas_used": res.GasUsed, "log": trunc(res.Log, 160)})
		}
		base["results"] = results
		base["block_gas_consumed"] = consumed
		base["model"] = map[string]any{"gas_limit": m.Limit.String(), "gas_target": m.Target.String(), "gas_used": m.Used.String(), "usage": m.Rel, "defined": m.Defined}
		base["observed_event_base_fee"], base["observed_param_base_fee"] = evVal, newBase.String()
		suffix := ":" + m.Side
		if m.Clamped {
			suffix += ":min-price-clamp"
		}
		if evN != 1 {
			base["fee_market_events"] = evN
			rep.violation("history/"+v.Name, "history-fee-market-event-count", label, base)
		}
		if m.Defined {
			base["model"].(map[string]any)["expected_next_base_fee"] = m.Next.String()
			ok := func(s string) bool {
				if s == m.Next.String() {
					return true
				}
				alt := unlimitedReading(inForce, v.MaxGas, consumed, w.minFloor)
				return alt != nil && s == alt.String()
			}
			if evN >= 1 && !ok(evVal) {
				rep.violation("history/"+v.Name, "history-basefee-mismatch:event"+suffix, label, base)
			}
			if !ok(newBase.String()) || (evN >= 1 && evVal != newBase.String()) {
				rep.violation("history/"+v.Name, "history-basefee-mismatch:param"+suffix, label, base)
			}
		} else {
			run.Count("hist_zero_target_blocks_survived", 1)
			if newBase.Sign() < 0 || newBase.Cmp(w.minFloor) < 0 || (evN >= 1 && evVal != newBase.String()) {
				rep.violation("history/"+v.Name, "history-basefee-below-floor:zero-gas-target", label, base)
			}
		}
		run.Count("hist_usage_"+m.Rel, 1)
		ntKey := "hist|" + maxGasClass(v.MaxGas) + "|" + m.Rel + "|" + baseClass(inForce) + "|" + minRelClass(v.MinGP, m)
		run.Nontrivial(ntKey)
		run.Distinct("nontrivial_keys", ntKey)
		if m.Clamped {
			run.Count("hist_blocks_min_price_clamps", 1)
		}
		if m.PlusOne {
			run.Count("hist_blocks_plus_one_rule", 1)
		}
		if m.ZeroDec {
			run.Count("hist_blocks_decrease_rounds_to_zero", 1)
		}
		if m.Used.Sign() > 0 {
			run.Count("hist_blocks_with_gas", 1)
		}
		if inForce.Cmp(w.minFloor) < 0 {
			run.Count("hist_blocks_base_fee_below_global_min", 1)
		}

		// ---- price bound of every admitted transaction ----
		bound := maxBig(inForce, w.minFloor)
		for i, p := range plans {
			res := br.Res.TxResults[i]
			charged, hasFee := feeCharged(res)
			admitted := res.Code == 0 || hasFee || vh.HasEvent(res, "ethereum_tx")
			rel := priceRelation(p, inForce, w.minFloor)
			st := "rejected"
			if admitted {
				st = "admitted"
			}
			run.Count(fmt.Sprintf("hist_tx_%s[%s,%s]", st, p.Lane, rel), 1)
			run.Count("hist_tx_"+st+"_"+rel, 1)
			run.Distinct("hist_price_shape", p.Lane+"/"+p.Shape+"/"+st)
			wit := func() map[string]any {
				x := map[string]any{}
				for k, v := range base {
					x[k] = v
				}
				x["index"], x["tx"], x["price_relation"] = i, p.describe(), rel
				x["code"], x["log"] = res.Code, res.Log
				if p.Eth != nil {
					x["effective_price"] = vh.EffectivePrice(p.Eth, inForce).String()
				}
				if charged != nil {
					x["fee_charged_by_ante"] = charged.String()
				}
				return x
			}
			if admitted && strings.HasPrefix(rel, "below") {
				rep.violation("history/"+v.Name, "underpriced-tx-admitted:"+p.Lane+":"+rel, label, wit())
			}
			if admitted && hasFee && (charged == nil || charged.Cmp(mulU(bound, p.Gas)) < 0) {
				rep.violation("history/"+v.Name, "admitted-tx-charged-below-bound:"+p.Lane, label, wit())
			}
			if admitted && p.Kind == "create" && res.Code == 0 {
				ca := crypto.CreateAddress(p.Sender, p.Nonce)
				w.contract = &ca
			}
			if !admitted && !strings.HasPrefix(rel, "below") {
				reason := fmt.Sprintf("%s/%d", res.Codespace, res.Code)
				run.Count("hist_tx_rejected_though_priced_ok["+reason+"]", 1)
			}
		}
		if b%17 == 3 && world == 0 {
			run.Sample(map[string]any{"level": "history", "case": label, "height": height, "fill_mode": mode, "txs": len(plans), "block_gas_consumed": consumed,
				"usage": m.Rel, "base_fee_in_force": inForce.String(), "next_base_fee": newBase.String()})
		}
		inForce = newBase
	}
}

func trunc(s string, n int) string {
	if len(s) > n {
		return s[:n]
	}
	return s
}
