// Package c09 monitors property C09: "Base fee follows EIP-1559 and bounds every executed
// transaction's price".
//
// model.go is the reference model. It is written from the property statement and the EIP-1559
// text in math/big only; it never calls into the repository or into go-ethereum's CalcBaseFee.
package c09

import (
	"fmt"
	"math/big"
	"strings"
)

var (
	big0   = big.NewInt(0)
	big1   = big.NewInt(1)
	big8   = big.NewInt(8)
	two64  = new(big.Int).Lsh(big1, 64)
	two63  = new(big.Int).Lsh(big1, 63)
	two256 = new(big.Int).Lsh(big1, 256)
	maxU64 = new(big.Int).Sub(two64, big1)
)

func pow2(n uint) *big.Int { return new(big.Int).Lsh(big1, n) }
func bi(v int64) *big.Int  { return big.NewInt(v) }
func bu(v uint64) *big.Int { return new(big.Int).SetUint64(v) }

// modelOut is what the statement prescribes for one (base fee, max gas, consumption, min price) point.
type modelOut struct {
	Limit     *big.Int // block gas limit the target is derived from
	Target    *big.Int // half the limit (integer)
	Used      *big.Int // gas consumed in the block as the fee market sees it (capped at the limit of a gas-limited block)
	Rel       string   // zero | below | target-1 | target | target+1 | above | limit | over-limit
	Side      string   // at-target | above-target | below-target
	Defined   bool     // false: target is 0 and usage > 0 (EIP-1559 movement undefined)
	Delta     *big.Int // movement before the min-price clamp
	Raw       *big.Int // next base fee before the min-price clamp
	Next      *big.Int // prescribed next base fee
	Saturated bool     // prescribed value exceeded 256 bits and was saturated at 2^256-1
	Clamped   bool     // floor(min gas price) > Raw
	AtFloor   bool     // floor(min gas price) == Raw
	PlusOne   bool     // above target and b*|d|/target/8 rounded to 0: the "at least 1" rule decided
	ZeroDec   bool     // below target and the movement rounded to 0
}

// nextBaseFee applies the statement: target = limit/2 where limit = MaxGas, or 2^64-1 when MaxGas = -1;
// unchanged at target; otherwise b -/+ b*|used-target|/target/8 (integer division in that order), at
// least +1 above target, never negative, never below floor(min gas price).
// consumed is the raw consumption of the block gas meter. A block is gas-limited only for MaxGas > 0
// (the SDK treats 0 and -1 as unlimited); in a gas-limited block consumption counts up to the limit.
func nextBaseFee(base *big.Int, maxGas int64, consumed uint64, minFloor *big.Int) modelOut {
	var m modelOut
	if maxGas >= 0 {
		m.Limit = bi(maxGas)
	} else {
		m.Limit = new(big.Int).Set(maxU64)
	}
	m.Target = new(big.Int).Rsh(m.Limit, 1)
	m.Used = bu(consumed)
	over := false
	if maxGas > 0 && m.Used.Cmp(m.Limit) > 0 {
		m.Used = new(big.Int).Set(m.Limit)
		over = true
	}
	d := new(big.Int).Sub(m.Used, m.Target)
	switch {
	case over:
		m.Rel = "over-limit"
	case m.Used.Sign() == 0 && m.Target.Sign() != 0:
		m.Rel = "zero"
	case d.Sign() == 0:
		m.Rel = "target"
	case d.Cmp(big1) == 0:
		m.Rel = "target+1"
	case d.Cmp(bi(-1)) == 0:
		m.Rel = "target-1"
	case maxGas > 0 && m.Used.Cmp(m.Limit) == 0:
		m.Rel = "limit"
	case d.Sign() > 0:
		m.Rel = "above"
	default:
		m.Rel = "below"
	}
	switch d.Sign() {
	case 0:
		m.Side = "at-target"
	case 1:
		m.Side = "above-target"
	default:
		m.Side = "below-target"
	}
	if d.Sign() == 0 {
		m.Defined = true
		m.Delta = new(big.Int)
		m.Raw = new(big.Int).Set(base)
	} else if m.Target.Sign() == 0 {
		// usage above a zero target: b*|d|/0 has no value; the statement only demands that the
		// computation does not fail and that the result respects the min-price floor.
		m.Defined = false
		m.Side = "zero-target"
		return m
	} else {
		m.Defined = true
		q := new(big.Int).Mul(base, new(big.Int).Abs(d))
		q.Quo(q, m.Target)
		q.Quo(q, big8)
		if d.Sign() > 0 {
			if q.Sign() == 0 {
				q.Set(big1)
				m.PlusOne = true
			}
			m.Raw = new(big.Int).Add(base, q)
		} else {
			if q.Sign() == 0 {
				m.ZeroDec = true
			}
			m.Raw = new(big.Int).Sub(base, q)
			if m.Raw.Sign() < 0 {
				m.Raw.SetInt64(0)
			}
		}
		m.Delta = q
	}
	m.Next = new(big.Int).Set(m.Raw)
	switch c := minFloor.Cmp(m.Raw); {
	case c > 0:
		m.Next.Set(minFloor)
		m.Clamped = true
	case c == 0:
		m.AtFloor = true
	}
	// The fee-market parameter is a 256-bit integer: a prescribed value that does not fit cannot be stored.
	// The property demands that the computation never fails, so the representable result is the saturated one.
	if m.Next.BitLen() > 256 {
		m.Next = new(big.Int).Sub(new(big.Int).Lsh(big.NewInt(1), 256), big.NewInt(1))
		m.Saturated = true
	}
	return m
}

// unlimitedReading: Block.MaxGas = 0 can be read in two ways. Literally the limit is 0 (target 0: the base
// fee stays when nothing was consumed, and no movement is defined otherwise). The SDK, however, runs
// such a block without any gas limit, exactly like MaxGas = -1. The statement does not choose, so for
// MaxGas = 0 the value prescribed for an unlimited block is accepted as well. Returns nil for other MaxGas.
func unlimitedReading(base *big.Int, maxGas int64, consumed uint64, minFloor *big.Int) *big.Int {
	if maxGas != 0 {
		return nil
	}
	return nextBaseFee(base, -1, consumed, minFloor).Next
}

// decFloor is the integer part of a non-negative decimal string ("12.75" -> 12), computed
// without the SDK's decimal type.
func decFloor(s string) *big.Int {
	ip := s
	if i := strings.IndexByte(s, '.'); i >= 0 {
		ip = s[:i]
	}
	v, ok := new(big.Int).SetString(ip, 10)
	if !ok {
		panic("c09: bad decimal " + s)
	}
	return v
}

func decHasFraction(s string) bool {
	i := strings.IndexByte(s, '.')
	return i >= 0 && strings.Trim(s[i+1:], "0") != ""
}

// ---- classes used for evidence keys (never for the verdict) ----

func maxGasClass(mg int64) string {
	par := "/even"
	if mg%2 != 0 {
		par = "/odd"
	}
	switch {
	case mg < 4:
		return fmt.Sprintf("%d", mg)
	case mg < 21000:
		return "tiny" + par
	case mg < 1_000_000:
		return "small" + par
	case mg < 1_000_000_000:
		return "mid" + par
	case mg < 1<<62:
		return "large" + par
	case mg == 1<<63-1:
		return "maxint64"
	default:
		return "huge" + par
	}
}

func baseClass(b *big.Int) string {
	switch n := b.BitLen(); {
	case n == 0:
		return "0"
	case n <= 3:
		return "1..7"
	case n <= 32:
		return "8..2^32"
	case n <= 63:
		return "2^32..2^63"
	case n <= 64:
		return "2^63..2^64"
	case n <= 128:
		return "2^64..2^128"
	case n <= 200:
		return "2^128..2^200"
	case n <= 255:
		return "2^200..2^255"
	default:
		return "2^255..2^256"
	}
}

func minRelClass(minStr string, m modelOut) string {
	f := decFloor(minStr)
	switch {
	case f.Sign() == 0 && !decHasFraction(minStr):
		return "zero"
	case f.Sign() == 0:
		return "fraction-only"
	case !m.Defined:
		return "positive"
	case m.Clamped:
		return "clamps"
	case m.AtFloor:
		return "equal-result"
	default:
		return "below-result"
	}
}
