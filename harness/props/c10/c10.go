// Package c10 monitors property C10: every ERC-20 precompile is an exact ERC-20 view of one
// bank denomination.
package c10

import (
	"encoding/json"
	"fmt"
	"math/big"
	"sync"

	"github.com/ethereum/go-ethereum/common"
	"github.com/ethereum/go-ethereum/common/hexutil"

	evmtypes "github.com/EscanBE/evermint/v12/x/evm/types"

	"verifharness/vh"
)

// Run executes the C10 workload.
func Run(run *vh.Run) {
	nWorlds := 4
	if run.Thorough() {
		nWorlds = 40
	}
	opsPer := run.N(2000, 80000) / nWorlds
	if opsPer < 1 {
		opsPer = 1
	}
	par := 4
	if run.Thorough() {
		par = 10
	}
	sem := make(chan struct{}, par)
	var wg sync.WaitGroup
	for wi := 0; wi < nWorlds; wi++ {
		label := fmt.Sprintf("world-%d", wi)
		if !run.WantCase(label) {
			continue
		}
		wg.Add(1)
		sem <- struct{}{}
		go func(wi int, label string) {
			defer wg.Done()
			defer func() { <-sem }()
			runWorld(run, label, wi, opsPer)
		}(wi, label)
	}
	wg.Wait()

	run.Rule = "Worlds with two ERC-20 precompiles (native denomination; a second denomination deployed by MsgDeployErc20ContractRequest). " +
		"Random sequences of transfer/transferFrom/approve/burn/burnFrom/views and malformed call data, one Ethereum transaction each, several per block, " +
		"sent directly by EOAs and vesting accounts or routed through 1-2 universal puppets (CALL, DELEGATECALL, CALLCODE, STATICCALL; report / propagate / call-then-revert), " +
		"interleaved with bank MsgSend of both denominations and plain value transfers. Amounts from {0,1,balance-1,balance,balance+1,spendable,spendable+1,allowance-1,allowance,allowance+1,2^128,2^255,2^256-1} and random; " +
		"counterparties incl. self, zero address, module accounts, the precompiles' own addresses, vesting accounts with locked coins. " +
		"After EVERY transaction the reference ledger (mirrored inside the tx-boundary observer at the pre-state: balances of all tracked holders in both denominations, locked coins, supplies, complete allowance prefix; " +
		"in flight = minus gasLimit x price for the fee payer) is compared with the post-state, the full-store write set, the receipt logs and the return data. " +
		"Non-trivial key = (call kind seen by the precompile x amount class measured against the in-flight balance/allowance x kind of the holder whose coins are addressed)."
	run.Assumptions = append(run.Assumptions,
		"x/bank is the ledger of record (the property defines the token as a view of it); its own accounting is trusted",
		"the effective gas price is recomputed from the raw transaction and the block's base fee; receipt gas used is taken from the receipt",
		"outcomes the statement does not decide (zero-address arguments, transfers to module accounts, writes in or below a STATICCALL, trailing call-data bytes, tight gas through puppets) are accepted either way, but their effects are still compared exactly",
		"mint inflation is 0 so that supply moves only through transactions")

	floor := func(name string, got int64, quick, thorough int) { run.Floor(name, got, int64(run.N(quick, thorough))) }
	sum := func(prefix string, names ...string) int64 {
		var t int64
		for _, n := range names {
			t += run.Get(prefix + n)
		}
		return t
	}
	moving := []string{"transfer", "transferFrom", "burn", "burnFrom", "approve"}
	per := func(suffix string) []string {
		var out []string
		for _, m := range moving {
			out = append(out, m+suffix)
		}
		return out
	}
	// floors: at most ~45% of the smallest count seen at seeds 1..7 (quick); thorough = 35 x quick for 40 x the operations
	floor("successful transfer", run.Get("op:transfer:ok"), 55, 1900)
	floor("successful transferFrom", run.Get("op:transferFrom:ok"), 30, 1000)
	floor("successful approve", run.Get("op:approve:ok"), 70, 2400)
	floor("successful burn", run.Get("op:burn:ok"), 15, 500)
	floor("successful burnFrom", run.Get("op:burnFrom:ok"), 14, 490)
	floor("spends on a finite allowance", run.Get("spends_on_finite_allowance"), 20, 700)
	floor("spends on an unlimited allowance", run.Get("spends_on_unlimited_allowance"), 6, 210)
	floor("calls refused for insufficient allowance", sum("op:", "transferFrom:fail:insufficient-allowance", "burnFrom:fail:insufficient-allowance"), 85, 3000)
	floor("calls refused for insufficient balance", sum("op:", per(":fail:insufficient-balance")...), 85, 3000)
	floor("calls refused for locked (vesting) coins", sum("op:", per(":fail:locked-coins")...), 4, 140)
	floor("failing calls checked for no effect", run.Get("failing_calls_checked_for_no_effect"), 450, 16000)
	floor("successful calls reverted by an outer frame", sum("op:", per(":ok-then-reverted-by-outer-frame")...), 28, 1000)
	floor("Transfer logs checked", run.Get("transfer_logs_checked"), 180, 6300)
	floor("views compared inside transactions", run.Get("views_in_tx_compared"), 110, 3800)
	floor("views after a write in the same transaction", run.Get("views_after_write_in_same_tx"), 40, 1400)
	floor("views compared through EthCall", run.Get("views_ethcall_compared"), 1000, 35000)
	floor("native-denomination moves by the fee payer", run.Get("native_moves_by_fee_payer"), 18, 630)
	floor("malformed call data that must fail", sum("malformed:", "short", "empty", "sel-only", "wrong-selector"), 35, 1200)
	floor("interleaved bank sends and value transfers", sum("interleaved_", "msgsend", "value-transfer"), 55, 1900)
	floor("burns while the account the precompile burns through holds the token", run.Get("burns_while_transit_account_holds_the_token"), 2, 40)
	floor("totalSupply() read after a burn that was rolled back in the same message", run.Get("peeks_after_reverted_burn"), 6, 200)
	floor("two-call transactions", run.Get("sequence_txs"), 130, 4500)
	run.Floor("distinct (call kind x amount class x holder kind)", int64(run.NontrivialN()), int64(run.N(150, 300)))
	run.Floor("distinct routes x modes", int64(run.DistinctN("route_x_mode")), int64(run.N(45, 100)))
}

func runWorld(run *vh.Run, label string, wi, nOps int) {
	w, err := newWorld(run, label, wi)
	if w.c != nil {
		defer w.c.Cleanup()
	}
	if err != nil {
		run.Inconclusive(label + ": " + err.Error())
		return
	}
	step := 0
	for w.ops < nOps {
		var ops []*op
		if step < preludeSteps {
			ops = w.prelude()[step] // built block by block: nonces and base fee are read from the committed state
			step++
		} else {
			ops = w.genBlock(nOps - w.ops)
		}
		if len(ops) == 0 {
			continue
		}
		txs := make([][]byte, len(ops))
		for i, o := range ops {
			txs[i] = o.Bytes
		}
		ob := w.c.RunObserved(txs, nil, w.view, true)
		w.block++
		w.checkBlock(ob, ops)
		if ob.Err != nil {
			return
		}
		w.ethCallViews()
		if w.block%12 == 5 {
			w.peekAfterRevertedBurn((w.block / 12) % 2)
		}
	}
	run.Max("blocks_per_world_max", int64(w.block))
}

// peekAfterRevertedBurn: one transaction in a block of its own calls the peeker contract (peekerCode). Nothing of the
// inner frame may survive: the bank supply is what it was, and the totalSupply() the OUTER frame reads afterwards,
// in the same message, is that supply.
func (w *world) peekAfterRevertedBurn(tok int) {
	run, c := w.run, w.c
	supply := func() *big.Int { return c.App.BankKeeper.GetSupply(c.QueryCtx(), denoms[tok]).Amount.BigInt() }
	held := c.App.BankKeeper.GetBalance(c.QueryCtx(), w.peeker.Addr.Bytes(), denoms[tok]).Amount.BigInt()
	if held.Sign() == 0 {
		return
	}
	amt := new(big.Int).Add(new(big.Int).Mod(w.r.BigBits(40), held), big.NewInt(1))
	if amt.Cmp(held) > 0 {
		amt.Set(held)
	}
	sender := w.byName("eoa0")
	before := supply()
	data := append(append([]byte{}, w.tok[tok].Bytes()...), common.LeftPadBytes(amt.Bytes(), 32)...)
	to := w.peeker.Addr
	bz, _ := c.EthTx(sender.Acct, vh.LegacyTx(c.Nonce(sender.Addr), &to, nil, 1_500_000, new(big.Int).Mul(c.BaseFee(), big.NewInt(2)), data))
	br := c.NextBlock([][]byte{bz}, nil)
	w.block++
	if br.Err != nil || len(br.TxResults()) != 1 {
		return
	}
	resp := vh.EthResponse(br.TxResults()[0])
	if resp == nil || resp.VmError != "" || len(resp.Ret) != 32 {
		run.Count("peeks_after_reverted_burn_not_executed", 1)
		return
	}
	run.Eval(1)
	run.Count("peeks_after_reverted_burn", 1)
	run.Nontrivial("peek-after-reverted-burn|" + denoms[tok])
	after, got := supply(), new(big.Int).SetBytes(resp.Ret)
	wit := map[string]any{"world": w.label, "height": br.Height, "token": denoms[tok], "burn_amount_in_the_reverted_frame": amt.String(),
		"bank_supply_before": before.String(), "bank_supply_after": after.String(), "totalSupply_read_by_the_outer_frame": got.String(), "peeker": w.peeker.Addr.Hex()}
	if before.Cmp(after) != 0 {
		run.Violation("reverted-burn-changed-the-supply", w.label, wit)
	}
	if got.Cmp(after) != 0 {
		run.Violation("view-differs-from-bank:totalSupply:after-reverted-burn-in-same-message", w.label, wit)
	}
}

// ethCallViews compares, on the committed state, what the EthCall gRPC query answers for
// balanceOf / totalSupply with x/bank (and allowance with the store).
func (w *world) ethCallViews() {
	r := w.r
	ctx := w.c.QueryCtx()
	st := w.view(ctx).(*state)
	from := vh.Pick(r, w.senders).Addr
	ask := func(tok int, c *call) ([]byte, error) {
		c.Tok = tok
		c.encode()
		to := w.tok[tok]
		data := hexutil.Bytes(c.Data)
		bz, _ := json.Marshal(evmtypes.TransactionArgs{From: &from, To: &to, Data: &data})
		res, err := w.c.App.EvmKeeper.EthCall(w.c.QueryCtx(), &evmtypes.EthCallRequest{Args: bz, GasCap: 5_000_000})
		if err != nil {
			return nil, err
		}
		if res.VmError != "" {
			return nil, fmt.Errorf("vm error: %s", res.VmError)
		}
		return res.Ret, nil
	}
	cmp := func(tok int, c *call, want *big.Int, sig string) {
		ret, err := ask(tok, c)
		w.run.Count("views_ethcall_compared", 1)
		if err != nil || len(ret) != 32 || new(big.Int).SetBytes(ret).Cmp(want) != 0 {
			w.run.Violation(sig, w.label, map[string]any{"world": w.label, "height": w.c.Height, "precompile": w.tok[tok].Hex(), "denom": denoms[tok],
				"method": c.Method, "args": []string{c.A1.Hex(), c.A2.Hex()}, "call_data": hexs(c.Data), "ethcall_return": hexs(ret), "error": fmt.Sprint(err), "bank_value": want.String()})
		}
	}
	for k := 0; k < 3; k++ {
		tok := r.Intn(2)
		h := vh.Pick(r, w.holders)
		cmp(tok, &call{Method: "balanceOf", A1: h.Addr}, st.bal(h.Addr, tok), "balanceOf-differs-from-bank:ethcall")
	}
	tok := r.Intn(2)
	cmp(tok, &call{Method: "totalSupply"}, st.Supply[tok], "totalSupply-differs-from-bank:ethcall")
	if ks := sortedAllowKeys(st.Allow); len(ks) > 0 {
		k := vh.Pick(r, ks)
		cmp(r.Intn(2), &call{Method: "allowance", A1: k.Owner, A2: k.Spender}, st.Allow[k], "allowance-view-differs-from-store:ethcall")
	}
	// a write through the query path must not stick
	if w.block%16 == 0 {
		before := w.c.DumpStores(w.c.QueryCtx()).Hash()
		_, _ = ask(r.Intn(2), &call{Method: "transfer", A1: vh.Pick(r, w.holders).Addr, Amount: big.NewInt(1)})
		if after := w.c.DumpStores(w.c.QueryCtx()).Hash(); after != before {
			w.run.Violation("ethcall-query-changed-committed-state", w.label, map[string]any{"world": w.label, "height": w.c.Height})
		}
		w.run.Count("ethcall_write_attempts_checked", 1)
	}
}
