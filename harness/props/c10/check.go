package c10

import (
	"bytes"
	"encoding/hex"
	"fmt"
	"math/big"
	"os"
	"strings"

	abci "github.com/cometbft/cometbft/abci/types"
	"github.com/ethereum/go-ethereum/common"
	ethtypes "github.com/ethereum/go-ethereum/core/types"
	"github.com/ethereum/go-ethereum/crypto"

	cpcabi "github.com/EscanBE/evermint/v12/x/cpc/abi"
	cpctypes "github.com/EscanBE/evermint/v12/x/cpc/types"

	"verifharness/vh"
)

var (
	transferSig = crypto.Keccak256Hash([]byte("Transfer(address,address,uint256)"))
	approvalSig = crypto.Keccak256Hash([]byte("Approval(address,address,uint256)"))
)

func (w *world) checkBlock(ob *vh.ObservedBlock, ops []*op) {
	run := w.run
	if ob.Err != nil {
		run.Violation("finalize-block-error", w.label, map[string]any{"height": ob.Height, "err": ob.Err.Error()})
		return
	}
	for i, o := range ops {
		res := ob.Res.TxResults[i]
		pre, _ := ob.Pre[i].View.(*state)
		post, _ := ob.Post[i].View.(*state)
		if pre == nil || post == nil {
			continue
		}
		if o.Noise != "" {
			run.Count("interleaved_"+o.Noise, 1)
			if res.Code != 0 {
				run.Count("interleaved_"+o.Noise+"_failed", 1)
			}
			continue
		}
		// instrument check: the ledger's spendable formula is x/bank's
		for a, l := range pre.Locked {
			for d := range denoms {
				sp := new(big.Int).Sub(pre.bal(a, d), l[d])
				if sp.Sign() < 0 {
					sp.SetInt64(0)
				}
				if !same(sp, pre.Spend[a][d]) {
					run.Violation("instrument:spendable-formula-differs-from-bank", w.label, map[string]any{"holder": w.nameOf(a), "denom": denoms[d],
						"balance": pre.bal(a, d).String(), "locked": l[d].String(), "bank_spendable": pre.Spend[a][d].String()})
				}
			}
		}
		if len(o.Seq) > 0 {
			w.checkSeq(ob, i, o, res, pre, post)
			continue
		}
		w.checkOp(ob, i, o, res, pre, post)
	}
}

func hexs(b []byte) string { return "0x" + hex.EncodeToString(b) }

func same(a, b *big.Int) bool { return a.Cmp(b) == 0 }

func decodeLogs(logs []*ethtypes.Log) []map[string]any {
	var out []map[string]any
	for _, l := range logs {
		var ts []string
		for _, t := range l.Topics {
			ts = append(ts, t.Hex())
		}
		out = append(out, map[string]any{"address": l.Address.Hex(), "topics": ts, "data": hexs(l.Data)})
	}
	return out
}

func (w *world) checkOp(ob *vh.ObservedBlock, i int, o *op, res *abci.ExecTxResult, pre, post *state) {
	run := w.run
	run.Eval(1)
	w.ops++
	c := o.Call
	sender := o.Sender.Addr
	caller, static, below := o.callerOf()
	owner, to, burn := c.parties(caller)
	price := vh.EffectivePrice(o.Tx, ob.BaseFee)
	gasLimit := o.Tx.Gas()
	admitted := vh.HasEvent(res, "ethereum_tx")
	rc, attrs := vh.ReceiptOf(res)
	diff := vh.Diff(ob.Pre[i].Dump, ob.Post[i].Dump)
	final := o.finalKind()

	involved := []common.Address{sender, caller, vh.FeeCollectorAddr, cpctypes.CpcModuleAddress, zeroAddr, w.tok[c.Tok]}
	if c.moves() {
		involved = append(involved, owner, to)
	} else if c.Method == "approve" || c.Method == "balanceOf" || c.Method == "allowance" {
		involved = append(involved, c.A1, c.A2)
	}
	var exp *state
	witness := func(extra map[string]any) map[string]any {
		m := map[string]any{"world": w.label, "height": ob.Height, "index": i, "op": o.String(), "tx_to": o.Tx.To().Hex(),
			"tx_data": hexs(o.Tx.Data()), "precompile_call_data": hexs(c.Data), "precompile": w.tok[c.Tok].Hex(), "denom": denoms[c.Tok],
			"caller_seen_by_precompile": caller.Hex(), "sender": sender.Hex(), "gas_limit": gasLimit, "effective_price": price.String(),
			"code": res.Code, "log": res.Log, "write_set": vh.ChangeStrings(diff)}
		if rc != nil {
			m["receipt_status"] = rc.Status
			m["receipt_logs"] = decodeLogs(rc.Logs)
			m["gas_used"] = attrs["gasUsed"]
		}
		if resp := vh.EthResponse(res); resp != nil {
			m["vm_error"] = resp.VmError
			m["return_data"] = hexs(resp.Ret)
		}
		bal := map[string]any{}
		seen := map[common.Address]bool{}
		for _, a := range involved {
			if seen[a] {
				continue
			}
			seen[a] = true
			e := map[string]any{"address": a.Hex()}
			for d := range denoms {
				row := map[string]string{"pre": pre.bal(a, d).String(), "post": post.bal(a, d).String()}
				if exp != nil {
					row["model"] = exp.bal(a, d).String()
				}
				if l, ok := pre.Locked[a]; ok {
					row["locked_pre"] = l[d].String()
					row["spendable_pre"] = pre.Spend[a][d].String()
				}
				e[denoms[d]] = row
			}
			bal[w.nameOf(a)] = e
		}
		m["balances"] = bal
		m["supply"] = map[string]any{"pre": []string{pre.Supply[0].String(), pre.Supply[1].String()}, "post": []string{post.Supply[0].String(), post.Supply[1].String()}}
		al := map[string]any{}
		for _, st := range []struct {
			n string
			s *state
		}{{"pre", pre}, {"post", post}} {
			row := map[string]string{}
			for _, k := range sortedAllowKeys(st.s.Allow) {
				if k.Owner == owner || k.Owner == caller || k.Spender == caller {
					row[w.nameOf(k.Owner)+"->"+w.nameOf(k.Spender)] = st.s.Allow[k].String()
				}
			}
			al[st.n] = row
		}
		m["allowance_store"] = al
		for k, v := range extra {
			m[k] = v
		}
		return m
	}

	// ---- transactions that never executed: nothing at all may change
	if !ob.Reached[i] || !admitted || rc == nil {
		cls := "rejected-by-ante"
		if admitted {
			cls = "admitted-without-receipt"
		}
		run.Count("op:"+c.Method+":"+cls, 1)
		lg := res.Log
		if len(lg) > 90 {
			lg = lg[:90]
		}
		run.Distinct("unexecuted_reason", fmt.Sprintf("%s|%s|%s", o.Sender.Kind, cls, stripDigits(lg)))
		if os.Getenv("C10_DEBUG") != "" {
			fmt.Fprintln(os.Stderr, "UNEXECUTED", w.label, ob.Height, o.String(), res.Log)
		}
		exp = pre.clone()
		for _, h := range w.holders {
			for d := range denoms {
				if admitted && d == 0 && (h.Addr == sender || h.Addr == vh.FeeCollectorAddr) {
					continue
				}
				if !same(exp.bal(h.Addr, d), post.bal(h.Addr, d)) {
					run.Violation("state-changed-by-unexecuted-tx:"+cls, w.label, witness(nil))
					return
				}
			}
		}
		if !allowEqual(pre.Allow, post.Allow) {
			run.Violation("allowance-changed-by-unexecuted-tx:"+cls, w.label, witness(nil))
		}
		return
	}

	var gasUsed uint64
	fmt.Sscan(attrs["gasUsed"], &gasUsed)
	txOK := rc.Status == 1
	var ret []byte
	vmErr := ""
	if resp := vh.EthResponse(res); resp != nil {
		ret, vmErr = resp.Ret, resp.VmError
	}

	// ---- the ledger in flight: the ante handler has taken gasLimit x price, value has moved
	exp = pre.clone()
	feeMax := new(big.Int).Mul(price, new(big.Int).SetUint64(gasLimit))
	exp.addBal(sender, 0, new(big.Int).Neg(feeMax))
	exp.addBal(vh.FeeCollectorAddr, 0, feeMax)
	if o.Value.Sign() > 0 {
		exp.addBal(sender, 0, new(big.Int).Neg(o.Value))
		exp.addBal(*o.Tx.To(), 0, o.Value)
	}
	pred, why := exp.predict(c, caller, static, w.isModule)
	if below && !static && !c.isView() && pred == mustOK {
		pred, why = either, "below-static-ancestor"
	}
	if o.GasCls == "tight" {
		if len(o.Hops) == 0 {
			if _, known := requiredGas[c.Method]; known && c.Malform != "wrong-selector" && c.Malform != "empty" && gasLimit-vh.IntrinsicGas(o.Tx) < requiredGas[c.Method] {
				pred, why = mustFail, "out-of-gas"
			}
		} else if pred != mustFail {
			pred, why = either, "tight-gas"
		}
	}
	inBal, inAllow := new(big.Int), new(big.Int)
	usesAllow := false
	if c.moves() {
		inBal.Set(exp.bal(owner, c.Tok))
		usesAllow = owner != caller
		inAllow.Set(exp.allowance(owner, caller))
	} else if c.Method == "approve" {
		inBal.Set(exp.bal(caller, c.Tok))
	}
	inSupply := new(big.Int).Set(exp.Supply[c.Tok])
	viewWant := new(big.Int)
	switch c.Method {
	case "balanceOf":
		viewWant.Set(exp.bal(c.A1, c.Tok))
	case "totalSupply":
		viewWant.Set(inSupply)
	case "allowance":
		viewWant.Set(exp.allowance(c.A1, c.A2))
	}

	// ---- what happened: success flag of the precompile call and of every puppet frame
	nh := len(o.Hops)
	var pOK *bool
	pret := ret
	frameObs := make([]*bool, nh)
	if nh == 0 {
		pOK = &txOK
	} else {
		flags, rest := splitFlags(ret, nh)
		frameObs[0] = &txOK
		for k := 1; k < nh; k++ {
			frameObs[k] = flags[k-1]
		}
		pOK, pret = flags[nh-1], rest
	}
	oog := strings.Contains(vmErr, "out of gas")
	persist := false
	if pOK != nil {
		child := *pOK
		frames := make([]bool, nh)
		persist = *pOK // the call's effects survive iff it succeeded and no enclosing frame reverted
		for k := nh - 1; k >= 0; k-- {
			m := o.Hops[k].Mode
			frames[k] = !(m == modeRevert || (m == modePropagate && !child))
			child = frames[k]
			persist = persist && frames[k]
		}
		if o.GasCls == "ample" && !oog {
			for k := range frames {
				if frameObs[k] != nil && *frameObs[k] != frames[k] {
					run.Violation("instrument:puppet-frame-outcome-unexpected", w.label, witness(map[string]any{"frame": k, "model_frames": frames}))
				}
			}
		}
		if !txOK {
			persist = false
		}
		switch {
		case pred == mustOK && !*pOK:
			run.Violation(fmt.Sprintf("unexpected-failure:%s:caller=%s", c.Method, final), w.label, witness(map[string]any{"model": "must succeed: " + why}))
		case pred == mustFail && *pOK:
			run.Violation(fmt.Sprintf("unexpected-success:%s:%s", c.Method, why), w.label, witness(map[string]any{"model": "must fail: " + why}))
		}
	} else {
		if txOK {
			run.Violation("instrument:puppet-return-missing", w.label, witness(nil))
		} else if o.GasCls == "ample" && !oog {
			run.Violation("instrument:puppet-flags-missing-on-revert", w.label, witness(nil))
		}
	}

	// ---- model effects
	var eff effect
	if persist {
		eff = exp.apply(c, caller)
	}
	if o.Value.Sign() > 0 && !txOK {
		exp.addBal(sender, 0, o.Value)
		exp.addBal(*o.Tx.To(), 0, new(big.Int).Neg(o.Value))
	}
	refund := new(big.Int).Mul(price, new(big.Int).SetUint64(gasLimit-gasUsed))
	exp.addBal(sender, 0, refund)
	exp.addBal(vh.FeeCollectorAddr, 0, new(big.Int).Neg(refund))

	outcome := "failure"
	if persist {
		outcome = "success"
	}
	cls := "ok"
	switch {
	case persist:
	case pOK != nil && *pOK:
		cls = "ok-then-reverted-by-outer-frame"
	case pOK == nil:
		cls = "fail:outer-frame-out-of-gas"
	default:
		cls = "fail:" + why
		if pred == mustOK {
			cls = "fail:UNEXPECTED"
		}
	}
	run.Count("op:"+c.Method+":"+cls, 1)
	run.Count("route:"+o.route(), 1)
	run.Distinct("method_x_class", c.Method+":"+cls)
	run.Distinct("route_x_mode", func() string {
		s := o.route()
		for _, h := range o.Hops {
			s += "/" + modeNames[h.Mode]
		}
		return s
	}())
	if pred == either && pOK != nil {
		run.Count(fmt.Sprintf("undecided_by_statement:%s:%v", why, *pOK), 1)
	}
	if c.Malform != "" {
		run.Count("malformed:"+c.Malform, 1)
	}
	if c.moves() || c.Method == "approve" {
		hk := w.kindOf(owner)
		if c.Method == "approve" {
			hk = w.kindOf(caller)
		}
		ac := amountClass(c.Amount, inBal, inAllow, usesAllow)
		if l, ok := exp.Locked[owner]; ok && c.moves() && l[c.Tok].Sign() > 0 {
			sp := new(big.Int).Sub(inBal, l[c.Tok])
			switch {
			case sp.Sign() >= 0 && same(c.Amount, sp):
				ac = "spendable"
			case sp.Sign() >= 0 && same(c.Amount, new(big.Int).Add(sp, big.NewInt(1))):
				ac = "spendable+1"
			case c.Amount.Cmp(sp) > 0 && c.Amount.Cmp(inBal) <= 0:
				ac = "locked-part"
			}
		}
		run.Nontrivial(final + "|" + ac + "|" + hk)
		run.Distinct("caller_amount_holder_method", o.route()+"|"+ac+"|"+hk+"|"+c.Method+"|"+outcome)
		run.Distinct("amount_class", ac)
		if usesAllow && same(inAllow, maxU256) && persist {
			run.Count("spends_on_unlimited_allowance", 1)
		}
		if usesAllow && persist && !same(inAllow, maxU256) {
			run.Count("spends_on_finite_allowance", 1)
		}
		if hk == "vesting" && c.moves() {
			run.Count("ops_on_vesting_owner:"+outcome, 1)
		}
	}
	if !persist {
		run.Count("failing_calls_checked_for_no_effect", 1)
	}
	if _, _, burn := c.parties(caller); burn && persist && c.Amount.Sign() > 0 && pre.bal(cpctypes.CpcModuleAddress, c.Tok).Sign() > 0 {
		run.Count("burns_while_transit_account_holds_the_token", 1)
	}
	if c.Tok == 0 && c.moves() && owner == sender && persist {
		run.Count("native_moves_by_fee_payer", 1)
	}

	// ---- (a) bank balances of every tracked holder, both denominations
	roleOf := func(a common.Address) string {
		switch {
		case c.moves() && a == owner:
			return "owner"
		case c.moves() && !burn && a == to:
			return "recipient"
		case a == caller:
			return "caller"
		case a == sender:
			return "sender"
		case a == vh.FeeCollectorAddr:
			return "fee-collector"
		case a == cpctypes.CpcModuleAddress:
			return "cpc-module"
		case a == zeroAddr:
			return "zero-address"
		}
		return "bystander"
	}
	var mism []string
	sig := ""
	for _, h := range w.holders {
		for d := range denoms {
			if same(exp.bal(h.Addr, d), post.bal(h.Addr, d)) {
				continue
			}
			dn := "same"
			if d != c.Tok {
				dn = "other"
			}
			mism = append(mism, fmt.Sprintf("%s %s: pre %s model %s observed %s", h.Name, denoms[d], pre.bal(h.Addr, d), exp.bal(h.Addr, d), post.bal(h.Addr, d)))
			involved = append(involved, h.Addr)
			if sig == "" {
				sig = fmt.Sprintf("balance-mismatch-after:%s:%s:role=%s:denom=%s:caller=%s", c.Method, outcome, roleOf(h.Addr), dn, final)
			}
		}
	}
	if sig != "" {
		run.Violation(sig, w.label, witness(map[string]any{"mismatches": mism}))
	}
	for d := range denoms {
		if !same(exp.Supply[d], post.Supply[d]) {
			dn := "same"
			if d != c.Tok {
				dn = "other"
			}
			run.Violation(fmt.Sprintf("supply-mismatch-after:%s:%s:denom=%s", c.Method, outcome, dn), w.label,
				witness(map[string]any{"denom_checked": denoms[d], "model_supply": exp.Supply[d].String(), "observed_supply": post.Supply[d].String()}))
		}
	}
	// every other account of the chain: no balance key outside the tracked set may be written
	if !ob.PostIsEndBlock[i] {
		w.scanWrites(diff, c.Method+":"+outcome, witness)
	}

	// ---- (b) the allowance table, complete
	keys := map[akey]bool{}
	for k := range exp.Allow {
		keys[k] = true
	}
	for k := range post.Allow {
		keys[k] = true
	}
	for k := range keys {
		e, p, p0 := exp.allowance(k.Owner, k.Spender), post.allowance(k.Owner, k.Spender), pre.allowance(k.Owner, k.Spender)
		if same(e, p) {
			continue
		}
		det := map[string]any{"owner": k.Owner.Hex(), "spender": k.Spender.Hex(), "pre": p0.String(), "model": e.String(), "observed": p.String()}
		switch {
		case persist && eff.SelfKey && k == (akey{caller, caller}) && !same(p0, maxU256) && same(p, new(big.Int).Sub(p0, c.Amount)):
			// spending one's own coins: the statement does not say whether allowance(self, self) is consumed
		case !persist:
			run.Violation("allowance-changed-by-failed-call:"+c.Method, w.label, witness(det))
		case eff.AllowKey != nil && k == *eff.AllowKey && c.Method == "approve":
			run.Violation("allowance-not-set-by-approve", w.label, witness(det))
		case eff.AllowKey != nil && k == *eff.AllowKey && same(p0, maxU256):
			run.Violation("unlimited-allowance-decremented:"+c.Method, w.label, witness(det))
		case eff.AllowKey != nil && k == *eff.AllowKey && same(p, p0):
			run.Violation("allowance-not-decremented:"+c.Method, w.label, witness(det))
		case eff.AllowKey != nil && k == *eff.AllowKey:
			run.Violation("allowance-decrement-mismatch:"+c.Method, w.label, witness(det))
		default:
			run.Violation("other-allowance-changed:"+c.Method, w.label, witness(det))
		}
	}

	// ---- (c) receipt logs
	nTransfer := 0
	var tl *ethtypes.Log
	for _, l := range rc.Logs {
		if len(l.Topics) > 0 && l.Topics[0] == transferSig {
			nTransfer++
			tl = l
		}
		if len(l.Topics) > 0 && l.Topics[0] == approvalSig {
			run.Count("approval_logs_seen", 1)
		}
	}
	switch {
	case !persist:
		if len(rc.Logs) != 0 {
			run.Violation("log-after-failed-call:"+c.Method, w.label, witness(nil))
		}
	case eff.Log != nil:
		run.Count("transfer_logs_checked", 1)
		if nTransfer != 1 {
			run.Violation("transfer-log-count:"+c.Method, w.label, witness(map[string]any{"transfer_logs": nTransfer}))
		} else {
			bad := ""
			switch {
			case tl.Address != w.tok[c.Tok]:
				bad = "emitter"
			case len(tl.Topics) != 3:
				bad = "topic-count"
			case tl.Topics[1] != common.BytesToHash(eff.Log.From.Bytes()):
				bad = "from"
			case tl.Topics[2] != common.BytesToHash(eff.Log.To.Bytes()):
				bad = "to"
			case !bytes.Equal(tl.Data, common.LeftPadBytes(eff.Log.Amount.Bytes(), 32)):
				bad = "value"
			}
			if bad != "" {
				run.Violation("transfer-log-mismatch:"+c.Method+":"+bad, w.label, witness(map[string]any{"model_log": map[string]string{
					"emitter": w.tok[c.Tok].Hex(), "from": eff.Log.From.Hex(), "to": eff.Log.To.Hex(), "value": eff.Log.Amount.String()}}))
			}
		}
	default: // successful approve or view: no coins moved, so no Transfer may be claimed
		if nTransfer != 0 {
			run.Violation("transfer-log-without-transfer:"+c.Method, w.label, witness(nil))
		}
		if c.isView() && len(rc.Logs) != 0 {
			run.Violation("log-from-view-call:"+c.Method, w.label, witness(nil))
		}
	}

	// ---- (d) return data of the precompile call
	if pOK != nil && *pOK && txOK {
		word := func() *big.Int {
			if len(pret) != 32 {
				return nil
			}
			return new(big.Int).SetBytes(pret)
		}
		switch c.Method {
		case "transfer", "transferFrom", "approve":
			if v := word(); v == nil || v.Cmp(big.NewInt(1)) != 0 {
				run.Violation("return-value-not-true:"+c.Method, w.label, witness(map[string]any{"precompile_return": hexs(pret)}))
			}
		case "balanceOf", "totalSupply", "allowance":
			run.Count("views_in_tx_compared", 1)
			run.Count("view_in_tx:"+c.Method, 1)
			if v := word(); v == nil || !same(v, viewWant) {
				name := c.Method + "-differs-from-bank"
				if c.Method == "allowance" {
					name = "allowance-view-differs-from-store"
				}
				run.Violation(name+":caller="+final, w.label, witness(map[string]any{"precompile_return": hexs(pret), "model_in_flight_value": viewWant.String()}))
			}
			if c.Method == "balanceOf" && c.Tok == 0 && (c.A1 == sender || c.A1 == vh.FeeCollectorAddr) {
				run.Count("views_of_in_flight_fee_balances", 1)
			}
			if c.Method == "allowance" {
				if a := w.approvedOf(c.Tok, akey{c.A1, c.A2}); !same(a, viewWant) {
					run.Count("allowance_views_showing_approval_made_through_other_precompile", 1)
				}
			}
		case "name", "symbol", "decimals":
			run.Count("views_in_tx_compared", 1)
			idx := map[string]int{"name": 0, "symbol": 1, "decimals": 2}[c.Method]
			want, err := cpcabi.Erc20CpcInfo.ABI.Methods[c.Method].Outputs.Pack(w.meta[c.Tok][idx])
			if err != nil || !bytes.Equal(want, pret) {
				run.Violation("metadata-view-mismatch:"+c.Method, w.label, witness(map[string]any{"precompile_return": hexs(pret), "model": hexs(want)}))
			}
		}
	}

	// ---- (e) authority: coins of another holder move only within what that holder approved THROUGH THIS TOKEN
	if persist {
		w.authority(c, caller, inAllow, fmt.Sprintf("height %d tx %d: %s; tx_to=%s tx_data=%s", ob.Height, i, o.String(), o.Tx.To().Hex(), hexs(o.Tx.Data())), witness)
	}

	if w.wi == 0 && w.ops%97 == 1 {
		run.Sample(map[string]any{"op": o.String(), "model": pred.String() + ": " + why, "class": cls, "tx_ok": txOK, "gas_used": gasUsed, "logs": len(rc.Logs), "writes": len(diff)})
	}
}

func (w *world) approvedOf(tok int, k akey) *big.Int {
	if v, ok := w.approved[tok][k]; ok {
		return v
	}
	return new(big.Int)
}

func allowEqual(a, b map[akey]*big.Int) bool {
	if len(a) != len(b) {
		return false
	}
	for k, v := range a {
		if o, ok := b[k]; !ok || o.Cmp(v) != 0 {
			return false
		}
	}
	return true
}

// scanWrites walks the transaction's full-store write set: bank balance keys of addresses outside the
// tracked set and cpc keys outside the allowance prefix must not be written by an ERC-20 call.
func (w *world) scanWrites(diff []vh.Change, what string, witness func(map[string]any) map[string]any) {
	for _, ch := range diff {
		switch {
		case ch.Store == "bank" && len(ch.Key) > 2 && ch.Key[0] == 0x02:
			l := int(ch.Key[1])
			if len(ch.Key) < 2+l || l != 20 || w.byAddr[common.BytesToAddress(ch.Key[2:2+l])] == nil {
				w.run.Violation("untracked-balance-changed:"+what, w.label, witness(map[string]any{"key": ch.String()}))
			}
		case ch.Store == cpctypes.StoreKey && (len(ch.Key) != 41 || ch.Key[0] != 0x04):
			w.run.Violation("cpc-store-non-allowance-write:"+what, w.label, witness(map[string]any{"key": ch.String()}))
		}
	}
}

// authority keeps, per token, what every owner approved through THAT token and the spender has not
// yet spent through it, and judges a spend that took effect against it: "nobody can move or burn
// another holder's coins beyond the allowance that holder approved".
func (w *world) authority(c *call, caller common.Address, storeBefore *big.Int, provenance string, witness func(map[string]any) map[string]any) {
	run := w.run
	owner, _, _ := c.parties(caller)
	switch {
	case c.Method == "approve":
		w.approved[c.Tok][akey{caller, c.A1}] = new(big.Int).Set(c.Amount)
		w.approvedBy[c.Tok][akey{caller, c.A1}] = provenance
	case c.moves() && owner != caller:
		k := akey{owner, caller}
		a := w.approvedOf(c.Tok, k)
		if same(a, maxU256) {
			return
		}
		if a.Cmp(c.Amount) < 0 {
			other := w.approvedOf(1-c.Tok, k)
			det := map[string]any{"owner": owner.Hex(), "spender": caller.Hex(), "amount": c.Amount.String(), "method": c.Method,
				"approved_through_this_precompile_and_unspent": a.String(), "approved_through_other_precompile_and_unspent": other.String(),
				"allowance_store_value_before_call":     storeBefore.String(),
				"last_approve_through_this_precompile":  w.approvedBy[c.Tok][k],
				"last_approve_through_other_precompile": w.approvedBy[1-c.Tok][k]}
			if same(storeBefore, maxU256) || storeBefore.Cmp(c.Amount) >= 0 {
				// one root cause: the store key is (owner, spender) without the token. Listed once per world, counted always.
				run.Count("spends_on_allowance_approved_through_other_precompile", 1)
				if !w.sharedReported {
					w.sharedReported = true
					run.Violation("spend-beyond-approved-allowance:allowance-table-shared-across-precompiles", w.label, witness(det))
				}
			} else {
				run.Violation("spend-beyond-approved-allowance:"+c.Method, w.label, witness(det))
			}
			a = new(big.Int)
		} else {
			a = new(big.Int).Sub(a, c.Amount)
		}
		w.approved[c.Tok][k] = a
	}
}

func stripDigits(s string) string {
	return strings.Map(func(r rune) rune {
		if r >= '0' && r <= '9' {
			return -1
		}
		return r
	}, s)
}
