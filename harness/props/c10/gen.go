package c10

import (
	"fmt"
	"math/big"
	"sort"
	"strings"

	sdkmath "cosmossdk.io/math"
	sdk "github.com/cosmos/cosmos-sdk/types"
	banktypes "github.com/cosmos/cosmos-sdk/x/bank/types"
	"github.com/ethereum/go-ethereum/common"
	ethtypes "github.com/ethereum/go-ethereum/core/types"

	cpcabi "github.com/EscanBE/evermint/v12/x/cpc/abi"
	cpctypes "github.com/EscanBE/evermint/v12/x/cpc/types"

	"verifharness/vh"
)

type hop struct {
	Puppet *holder
	Kind   vh.CallKind
	Mode   int
}

// op is one generated transaction.
type op struct {
	Noise  string // "" = ERC-20 operation; "msgsend", "topup", "value-transfer"
	Sender *holder
	Hops   []hop
	Call   *call
	Gas    uint64
	GasCls string // "ample" | "tight"
	Value  *big.Int
	Tx     *ethtypes.Transaction
	Bytes  []byte
	Note   string
	// two-call transactions through a sequencer contract
	Seq       []*step
	Seqr      *holder
	SeqRevert bool
}

// step is one of the two calls a sequencer makes: to the precompile itself (the sequencer is the
// caller) or through one universal puppet in propagate mode (the puppet is the caller).
type step struct {
	Via  *hop
	Call *call
}

func (s *step) callerOf(seqr *holder) (common.Address, bool) {
	if s.Via == nil {
		return seqr.Addr, false
	}
	return s.Via.Puppet.Addr, s.Via.Kind == vh.STATICCALL
}

func (s *step) kind() string {
	if s.Via == nil {
		return "seq-CALL"
	}
	return "seq-CALL>" + s.Via.Kind.String()
}

func (o *op) route() string {
	if len(o.Hops) == 0 {
		return "direct"
	}
	var ks []string
	for _, h := range o.Hops {
		ks = append(ks, h.Kind.String())
	}
	return strings.Join(ks, ">")
}

func (o *op) finalKind() string {
	if len(o.Hops) == 0 {
		return "direct"
	}
	return o.Hops[len(o.Hops)-1].Kind.String()
}

// callerOf works out, from the EVM's call rules, which address the precompile sees as its caller:
// a frame entered by CALL/STATICCALL runs as the callee's address, one entered by
// DELEGATECALL/CALLCODE keeps the address of the frame that made the call. The precompile is handed
// the calling frame itself (scope.Contract) for all four opcodes, so the caller is that frame's
// own address and never the transaction sender behind a DELEGATECALL.
func (o *op) callerOf() (caller common.Address, static, belowStatic bool) {
	self := o.Sender.Addr
	for i, h := range o.Hops {
		if i == 0 {
			self = h.Puppet.Addr // entered by the transaction's top-level call
		}
		last := i == len(o.Hops)-1
		if last {
			static = h.Kind == vh.STATICCALL
			break
		}
		next := o.Hops[i+1].Puppet.Addr
		switch h.Kind {
		case vh.CALL:
			self = next
		case vh.STATICCALL:
			self = next
			belowStatic = true
		} // DELEGATECALL, CALLCODE: next puppet's code, this frame's address
	}
	return self, static, belowStatic
}

func (o *op) String() string {
	if o.Noise != "" {
		return fmt.Sprintf("%s from=%s %s", o.Noise, o.Sender.Name, o.Note)
	}
	if len(o.Seq) > 0 {
		return fmt.Sprintf("sender=%s sequencer=%s revert-at-end=%v %s gas=%d", o.Sender.Name, o.Seqr.Name, o.SeqRevert, o.Note, o.Gas)
	}
	var hs []string
	for _, h := range o.Hops {
		hs = append(hs, fmt.Sprintf("%s-%s(%s)", h.Puppet.Name, h.Kind, modeNames[h.Mode]))
	}
	return fmt.Sprintf("sender=%s route=[%s] %s gas=%d value=%s", o.Sender.Name, strings.Join(hs, " "), o.Note, o.Gas, o.Value)
}

func pack(method string, args ...any) []byte {
	bz, err := cpcabi.Erc20CpcInfo.ABI.Pack(method, args...)
	if err != nil {
		panic(err)
	}
	return bz
}

func (c *call) encode() {
	switch c.Method {
	case "transfer", "approve", "burnFrom":
		c.Data = pack(c.Method, c.A1, c.Amount)
	case "transferFrom":
		c.Data = pack(c.Method, c.A1, c.A2, c.Amount)
	case "burn":
		c.Data = pack(c.Method, c.Amount)
	case "balanceOf":
		c.Data = pack(c.Method, c.A1)
	case "allowance":
		c.Data = pack(c.Method, c.A1, c.A2)
	default:
		c.Data = pack(c.Method)
	}
}

var requiredGas = map[string]uint64{"transfer": 15000, "transferFrom": 15000, "burn": 15000, "burnFrom": 15000, "approve": 30000,
	"balanceOf": 1000, "totalSupply": 1000, "allowance": 1000, "name": 0, "symbol": 0, "decimals": 0}

// readState mirrors the committed state as the NEXT block will see it (vesting schedules are a
// function of block time). Generator-side only; the oracle uses observer views.
func (w *world) readState() *state {
	ctx := w.c.QueryCtx().WithBlockTime(w.c.Time.Add(w.c.Cfg.BlockStep))
	return w.view(ctx).(*state)
}

type weighted[T any] struct {
	w int
	v T
}

func pickW[T any](r *vh.RNG, xs []weighted[T]) T {
	tot := 0
	for _, x := range xs {
		tot += x.w
	}
	k := r.Intn(tot)
	for _, x := range xs {
		if k < x.w {
			return x.v
		}
		k -= x.w
	}
	return xs[len(xs)-1].v
}

func (w *world) ofKind(kinds ...string) []*holder {
	var out []*holder
	for _, h := range w.holders {
		for _, k := range kinds {
			if h.Kind == k && h != w.funder {
				out = append(out, h)
			}
		}
	}
	return out
}

// pickAddr draws a counterparty: other holders of every kind, the caller itself, the zero address,
// module accounts, the precompiles' own addresses, never-used addresses.
func (w *world) pickAddr(caller common.Address, tok int) common.Address {
	r := w.r
	switch pickW(r, []weighted[string]{{30, "eoa"}, {18, "puppet"}, {14, "vesting"}, {9, "self"}, {6, "zero"}, {9, "module"}, {4, "own"}, {2, "other-token"}, {4, "fresh"}}) {
	case "self":
		return caller
	case "zero":
		return zeroAddr
	case "own":
		return w.tok[tok]
	case "other-token":
		return w.tok[1-tok]
	case "eoa":
		return vh.Pick(r, w.ofKind("eoa")).Addr
	case "puppet":
		return vh.Pick(r, w.ofKind("puppet", "sequencer")).Addr
	case "vesting":
		return vh.Pick(r, w.ofKind("vesting")).Addr
	case "module":
		return vh.Pick(r, w.ofKind("module")).Addr
	default:
		return vh.Pick(r, w.ofKind("fresh")).Addr
	}
}

// pickAmount draws from the edge set around the owner's (in-flight) balance / spendable amount and the allowance.
func (w *world) pickAmount(bal, spendable, allow *big.Int) *big.Int {
	r := w.r
	one := big.NewInt(1)
	add := func(a *big.Int, d int64) *big.Int {
		v := new(big.Int).Add(a, big.NewInt(d))
		if v.Sign() < 0 {
			v.SetInt64(0)
		}
		return v
	}
	opts := []weighted[string]{{5, "0"}, {5, "1"}, {7, "bal-1"}, {9, "bal"}, {8, "bal+1"}, {3, "2^128"}, {3, "2^255"}, {4, "max"}, {34, "below"}, {4, "above"}, {2, "rand256"}}
	if allow != nil && allow.Sign() > 0 && allow.Cmp(maxU256) != 0 {
		opts = append(opts, weighted[string]{7, "allow-1"}, weighted[string]{10, "allow"}, weighted[string]{8, "allow+1"}, weighted[string]{8, "below-allow"})
	}
	if spendable.Cmp(bal) != 0 {
		opts = append(opts, weighted[string]{8, "spend"}, weighted[string]{8, "spend+1"}, weighted[string]{4, "spend-1"})
	}
	switch pickW(r, opts) {
	case "0":
		return new(big.Int)
	case "1":
		return one
	case "bal-1":
		return add(bal, -1)
	case "bal":
		return new(big.Int).Set(bal)
	case "bal+1":
		return add(bal, 1)
	case "allow-1":
		return add(allow, -1)
	case "allow":
		return new(big.Int).Set(allow)
	case "allow+1":
		return add(allow, 1)
	case "below-allow":
		return r.BigBelow(add(allow, 1))
	case "spend":
		return new(big.Int).Set(spendable)
	case "spend+1":
		return add(spendable, 1)
	case "spend-1":
		return add(spendable, -1)
	case "2^128":
		return new(big.Int).Set(pow128)
	case "2^255":
		return new(big.Int).Set(pow255)
	case "max":
		return new(big.Int).Set(maxU256)
	case "above":
		return new(big.Int).Add(bal, add(r.BigBits(r.Range(1, 80)), 1))
	case "rand256":
		return r.BigBits(256)
	default: // a modest part of what can really be sent, so that holders stay interesting
		lim := spendable
		if lim.Sign() == 0 {
			return one
		}
		d := new(big.Int).Div(lim, big.NewInt(int64(r.Range(2, 60))))
		return add(r.BigBelow(add(d, 1)), 1)
	}
}

func (w *world) pickApproveAmount(bal *big.Int) *big.Int {
	r := w.r
	switch pickW(r, []weighted[string]{{8, "0"}, {6, "1"}, {30, "small"}, {12, "bal"}, {5, "2^128"}, {4, "2^255"}, {18, "max"}, {5, "max-1"}, {4, "rand256"}}) {
	case "0":
		return new(big.Int)
	case "1":
		return big.NewInt(1)
	case "bal":
		return new(big.Int).Set(bal)
	case "2^128":
		return new(big.Int).Set(pow128)
	case "2^255":
		return new(big.Int).Set(pow255)
	case "max":
		return new(big.Int).Set(maxU256)
	case "max-1":
		return new(big.Int).Sub(maxU256, big.NewInt(1))
	case "rand256":
		return r.BigBits(256)
	default:
		return new(big.Int).Add(r.BigBits(r.Range(1, 70)), big.NewInt(1))
	}
}

// sortedAllowKeys gives the allowance keys in a deterministic order.
func sortedAllowKeys(m map[akey]*big.Int) []akey {
	ks := make([]akey, 0, len(m))
	for k := range m {
		ks = append(ks, k)
	}
	sort.Slice(ks, func(i, j int) bool {
		if ks[i].Owner != ks[j].Owner {
			return ks[i].Owner.Hex() < ks[j].Owner.Hex()
		}
		return ks[i].Spender.Hex() < ks[j].Spender.Hex()
	})
	return ks
}

// genCall draws one ERC-20 call for the given caller on in-flight state st.
func (w *world) genCall(st *state, caller common.Address) *call {
	r := w.r
	c := &call{Tok: r.Intn(2), Amount: new(big.Int)}
	c.Method = pickW(r, []weighted[string]{{22, "transfer"}, {24, "transferFrom"}, {19, "approve"}, {7, "burn"}, {10, "burnFrom"},
		{5, "balanceOf"}, {3, "totalSupply"}, {3, "allowance"}, {1, "name"}, {1, "symbol"}, {1, "decimals"}})
	ownerWithAllowance := func() (common.Address, bool) {
		var owners []common.Address
		for _, k := range sortedAllowKeys(st.Allow) {
			if k.Spender == caller {
				owners = append(owners, k.Owner)
			}
		}
		if len(owners) == 0 {
			return zeroAddr, false
		}
		return vh.Pick(r, owners), true
	}
	pickOwner := func() common.Address {
		if o, ok := ownerWithAllowance(); ok && r.Chance(7, 10) {
			return o
		}
		if r.Chance(1, 8) {
			return caller
		}
		return w.pickAddr(caller, c.Tok)
	}
	switch c.Method {
	case "transfer":
		c.A1 = w.pickAddr(caller, c.Tok)
		c.Amount = w.pickAmount(st.bal(caller, c.Tok), st.spendable(caller, c.Tok), nil)
	case "transferFrom":
		c.A1 = pickOwner()
		c.A2 = w.pickAddr(caller, c.Tok)
		if r.Chance(1, 12) {
			c.A2 = c.A1
		}
		c.Amount = w.pickAmount(st.bal(c.A1, c.Tok), st.spendable(c.A1, c.Tok), st.allowance(c.A1, caller))
	case "burnFrom":
		c.A1 = pickOwner()
		c.Amount = w.pickAmount(st.bal(c.A1, c.Tok), st.spendable(c.A1, c.Tok), st.allowance(c.A1, caller))
	case "burn":
		c.Amount = w.pickAmount(st.bal(caller, c.Tok), st.spendable(caller, c.Tok), nil)
	case "approve":
		if r.Chance(3, 4) { // mostly somebody who can actually spend
			c.A1 = vh.Pick(r, w.actors).Addr
		} else {
			c.A1 = w.pickAddr(caller, c.Tok)
		}
		c.Amount = w.pickApproveAmount(st.bal(caller, c.Tok))
	case "balanceOf":
		c.A1 = w.pickAddr(caller, c.Tok)
		if r.Chance(1, 4) {
			c.A1 = modAddr("fee_collector")
		}
	case "allowance":
		if ks := sortedAllowKeys(st.Allow); len(ks) > 0 && r.Chance(3, 4) {
			k := vh.Pick(r, ks)
			c.A1, c.A2 = k.Owner, k.Spender
		} else {
			c.A1, c.A2 = w.pickAddr(caller, c.Tok), vh.Pick(r, w.actors).Addr
		}
	}
	c.encode()
	if r.Chance(1, 11) {
		w.malform(c)
	}
	return c
}

var knownSelectors = func() map[string]bool {
	m := map[string]bool{}
	for _, me := range cpcabi.Erc20CpcInfo.ABI.Methods {
		m[string(me.ID)] = true
	}
	return m
}()

// malform damages (or decorates) the call data.
func (w *world) malform(c *call) {
	r := w.r
	full := c.Data
	hasArgs := len(full) > 4
	kinds := []weighted[string]{{3, "wrong-selector"}, {2, "empty"}, {4, "long"}}
	if hasArgs {
		kinds = append(kinds, weighted[string]{5, "short"}, weighted[string]{2, "sel-only"})
		if c.Method != "burn" {
			kinds = append(kinds, weighted[string]{3, "dirty-address"})
		}
	}
	c.Malform = pickW(r, kinds)
	switch c.Malform {
	case "wrong-selector":
		d := append([]byte{}, full...)
		for {
			copy(d, r.Bytes(4))
			if !knownSelectors[string(d[:4])] {
				break
			}
		}
		if r.Chance(1, 3) { // a real selector of the staking precompile: delegate(address,uint256)
			copy(d, common.FromHex("0x026e402b"))
		}
		c.Data = d
	case "empty":
		c.Data = full[:r.Intn(4)]
	case "sel-only":
		c.Data = full[:4]
	case "short":
		c.Data = full[:4+r.Intn(len(full)-4)]
		if r.Chance(1, 3) {
			c.Data = full[:len(full)-1]
		}
	case "long":
		c.Data = append(append([]byte{}, full...), r.Bytes(r.Range(1, 70))...)
	case "dirty-address": // non-zero bytes in the 12 padding bytes of the first address word
		d := append([]byte{}, full...)
		copy(d[4:4+12], r.Bytes(12))
		d[4] |= 1
		c.Data = d
	}
}

// genOp draws one ERC-20 transaction of sender on generator state st (mutated with the guessed outcome).
func (w *world) genOp(st *state, sender *holder, baseFee *big.Int) *op {
	r := w.r
	o := &op{Sender: sender, Value: new(big.Int), GasCls: "ample"}
	nh := pickW(r, []weighted[int]{{34, 0}, {50, 1}, {16, 2}})
	ps := append([]*holder{}, w.puppets...)
	vh.Shuffle(r, ps)
	for i := 0; i < nh; i++ {
		kinds := []weighted[vh.CallKind]{{34, vh.CALL}, {26, vh.DELEGATECALL}, {16, vh.CALLCODE}, {24, vh.STATICCALL}}
		if i < nh-1 {
			kinds = []weighted[vh.CallKind]{{40, vh.CALL}, {30, vh.DELEGATECALL}, {16, vh.CALLCODE}, {14, vh.STATICCALL}}
		}
		o.Hops = append(o.Hops, hop{Puppet: ps[i], Kind: pickW(r, kinds), Mode: pickW(r, []weighted[int]{{60, modeReport}, {24, modePropagate}, {16, modeRevert}})})
	}
	caller, static, below := o.callerOf()

	// fee
	o.Gas = uint64(vh.Pick(r, []int{120_000, 300_000, 1_000_000}))
	if nh == 2 {
		o.Gas = uint64(vh.Pick(r, []int{400_000, 1_200_000}))
	}
	mult := int64(r.Range(1, 3))
	price := new(big.Int).Mul(baseFee, big.NewInt(mult))
	dyn := r.Chance(3, 10)
	var feeCap, tip *big.Int
	if dyn {
		feeCap = new(big.Int).Mul(baseFee, big.NewInt(3))
		tip = vh.Pick(r, []*big.Int{new(big.Int), big.NewInt(int64(r.Intn(1000))), new(big.Int).Set(baseFee), new(big.Int).Mul(baseFee, big.NewInt(2)), new(big.Int).Mul(baseFee, big.NewInt(3))})
		if tip.Cmp(feeCap) > 0 {
			tip = new(big.Int).Set(feeCap)
		}
		price = new(big.Int).Add(baseFee, tip)
		if price.Cmp(feeCap) > 0 {
			price = feeCap
		}
	}
	inflight := st.clone()
	feeMax := new(big.Int).Mul(price, new(big.Int).SetUint64(o.Gas))
	inflight.addBal(sender.Addr, 0, new(big.Int).Neg(feeMax))
	inflight.addBal(vh.FeeCollectorAddr, 0, feeMax)

	o.Call = w.genCall(inflight, caller)
	c := o.Call
	o.Note = fmt.Sprintf("token=%s %s(%s,%s,%s)%s caller=%s", denoms[c.Tok], c.Method, w.nameOf(c.A1), w.nameOf(c.A2), c.Amount, map[bool]string{true: " malformed=" + c.Malform, false: ""}[c.Malform != ""], w.nameOf(caller))

	to := w.tok[c.Tok]
	data := c.Data
	for i := len(o.Hops) - 1; i >= 0; i-- {
		data = puppetCall(o.Hops[i].Kind, o.Hops[i].Mode, to, data)
		to = o.Hops[i].Puppet.Addr
	}
	if nh == 0 && sender.Kind == "eoa" && r.Chance(1, 14) {
		o.Value = big.NewInt(int64(r.Range(1, 100_000)))
	}
	mk := func(gas uint64) ethtypes.TxData {
		nonce := w.c.Nonce(sender.Addr)
		if dyn {
			return vh.DynTx(nonce, &to, o.Value, gas, feeCap, tip, data, nil)
		}
		return vh.LegacyTx(nonce, &to, o.Value, gas, price, data)
	}
	if r.Chance(1, 12) { // tight gas: around the precompile's own requirement
		o.GasCls = "tight"
		intr := vh.IntrinsicGas(vh.SignEth(sender.Acct, mk(o.Gas)))
		need := requiredGas[c.Method]
		extra := vh.Pick(r, []int{0, 1, int(need) - 1, int(need), int(need) + 1, int(need) + 700, int(need) + 3000, 40_000})
		if extra < 0 {
			extra = 0
		}
		o.Gas = intr + uint64(extra)
		if nh > 0 {
			o.Gas += uint64(vh.Pick(r, []int{0, 300, 700, 2600, 3000, 6000}))
		}
	}
	o.Bytes, o.Tx = w.c.EthTx(sender.Acct, mk(o.Gas))

	// guessed outcome, so that later transactions of the same block aim at the right edges
	v, why := inflight.predict(c, caller, static, w.isModule)
	ok := v == mustOK || (v == either && (why == "to-module-account" || why == "lenient-decoding"))
	if v != mustFail && below && !static {
		ok = why != "zero-address"
	}
	for _, h := range o.Hops {
		if h.Mode == modeRevert {
			ok = false
		}
	}
	if ok && o.GasCls == "ample" {
		inflight.apply(c, caller)
		if o.Value.Sign() > 0 {
			inflight.addBal(sender.Addr, 0, new(big.Int).Neg(o.Value))
			inflight.addBal(to, 0, o.Value)
		}
		inflight.addBal(sender.Addr, 0, feeMax)
		inflight.addBal(vh.FeeCollectorAddr, 0, new(big.Int).Neg(feeMax))
		*st = *inflight
	}
	return o
}

// genBlock composes the next block: an optional top-up by the funder, then 2..6 transactions of
// distinct senders: ERC-20 operations interleaved with native bank sends and plain value transfers.
func (w *world) genBlock(maxOps int) []*op {
	r := w.r
	st := w.readState()
	baseFee := w.c.BaseFee()
	var ops []*op
	// keep fee payers liquid and second-denomination holders interesting
	var msgs []sdk.Msg
	var notes []string
	for _, h := range w.actors {
		if h.Acct != nil && st.spendable(h.Addr, 0).Cmp(vh.Ether(3)) < 0 {
			amt := vh.Ether(int64(20 + r.Intn(60)))
			msgs = append(msgs, banktypes.NewMsgSend(w.funder.Acct.Acc(), h.Addr.Bytes(), coins(amt, 0)))
			st.addBal(h.Addr, 0, amt)
			st.addBal(w.funder.Addr, 0, new(big.Int).Neg(amt))
			notes = append(notes, h.Name+"+native")
		}
		if st.spendable(h.Addr, 1).Sign() == 0 && r.Chance(1, 3) {
			amt := int64(1 + r.Intn(2_000_000_000))
			msgs = append(msgs, banktypes.NewMsgSend(w.funder.Acct.Acc(), h.Addr.Bytes(), coins(nil, amt)))
			st.addBal(h.Addr, 1, big.NewInt(amt))
			st.addBal(w.funder.Addr, 1, big.NewInt(-amt))
			notes = append(notes, h.Name+"+second")
		}
	}
	if len(msgs) > 0 {
		ops = append(ops, &op{Noise: "topup", Sender: w.funder, Note: strings.Join(notes, ","),
			Bytes: w.c.CosmosTx(w.funder.Acct, msgs, &vh.CosmosOpts{Gas: uint64(150_000 + 80_000*len(msgs))})})
	}
	senders := append([]*holder{}, w.senders...)
	vh.Shuffle(r, senders)
	n := r.Range(2, 6)
	for _, s := range senders {
		if n == 0 || maxOps == 0 {
			break
		}
		n--
		switch k := r.Intn(100); {
		case k < 7 && s.Kind == "eoa": // native bank send of either denomination
			tok := r.Intn(2)
			to := vh.Pick(r, w.ofKind("eoa", "puppet", "sequencer", "vesting", "fresh", "precompile"))
			lim := new(big.Int).Div(st.spendable(s.Addr, tok), big.NewInt(20))
			if lim.Sign() == 0 {
				continue
			}
			amt := new(big.Int).Add(r.BigBelow(lim), big.NewInt(1))
			msg := banktypes.NewMsgSend(s.Acct.Acc(), to.Addr.Bytes(), sdk.NewCoins(sdk.NewCoin(denoms[tok], sdkmath.NewIntFromBigInt(amt))))
			ops = append(ops, &op{Noise: "msgsend", Sender: s, Note: fmt.Sprintf("%s %s -> %s", amt, denoms[tok], to.Name),
				Bytes: w.c.CosmosTx(s.Acct, []sdk.Msg{msg}, &vh.CosmosOpts{Gas: 200_000})})
			st.addBal(s.Addr, tok, new(big.Int).Neg(amt))
			st.addBal(to.Addr, tok, amt)
		case k < 13 && s.Kind == "eoa": // plain value transfer
			to := vh.Pick(r, w.ofKind("eoa", "vesting", "fresh", "precompile"))
			amt := new(big.Int).Add(r.BigBits(r.Range(1, 50)), big.NewInt(1))
			price := new(big.Int).Mul(baseFee, big.NewInt(2))
			bz, tx := w.c.EthTx(s.Acct, vh.LegacyTx(w.c.Nonce(s.Addr), &to.Addr, amt, 60_000, price, nil))
			ops = append(ops, &op{Noise: "value-transfer", Sender: s, Note: fmt.Sprintf("%s wei -> %s", amt, to.Name), Bytes: bz, Tx: tx, Value: amt})
			if to.Kind != "precompile" {
				st.addBal(s.Addr, 0, new(big.Int).Neg(amt))
				st.addBal(to.Addr, 0, amt)
			}
		case k < 25 && maxOps >= 2:
			ops = append(ops, w.genSeq(st, s, baseFee))
			maxOps -= 2
		default:
			ops = append(ops, w.genOp(st, s, baseFee))
			maxOps--
		}
	}
	return ops
}

// genSeq draws a two-call transaction: the second call is often related to the first one
// (same token; view of a touched address; the same spend again).
func (w *world) genSeq(st *state, sender *holder, baseFee *big.Int) *op {
	r := w.r
	o := &op{Sender: sender, Value: new(big.Int), GasCls: "ample", Seqr: vh.Pick(r, w.seqs), SeqRevert: r.Chance(1, 8)}
	o.Gas = uint64(vh.Pick(r, []int{700_000, 1_500_000}))
	price := new(big.Int).Mul(baseFee, big.NewInt(int64(r.Range(1, 3))))
	inflight := st.clone()
	feeMax := new(big.Int).Mul(price, new(big.Int).SetUint64(o.Gas))
	inflight.addBal(sender.Addr, 0, new(big.Int).Neg(feeMax))
	inflight.addBal(vh.FeeCollectorAddr, 0, feeMax)
	var notes []string
	var targets [2]common.Address
	var datas [2][]byte
	for k := 0; k < 2; k++ {
		s := &step{}
		if r.Chance(45, 100) {
			s.Via = &hop{Puppet: vh.Pick(r, w.puppets), Mode: modePropagate,
				Kind: pickW(r, []weighted[vh.CallKind]{{40, vh.CALL}, {28, vh.DELEGATECALL}, {16, vh.CALLCODE}, {16, vh.STATICCALL}})}
		}
		caller, static := s.callerOf(o.Seqr)
		s.Call = w.genCall(inflight, caller)
		if k == 1 && r.Chance(1, 2) { // relate the second call to the first
			first := o.Seq[0].Call
			fc, _ := o.Seq[0].callerOf(o.Seqr)
			c := &call{Tok: first.Tok, Amount: new(big.Int)}
			if r.Chance(1, 10) {
				c.Tok = 1 - first.Tok // the same question to the other precompile
			}
			fo, ft, _ := first.parties(fc)
			switch pickW(r, []weighted[string]{{30, "balanceOf"}, {12, "totalSupply"}, {18, "allowance"}, {40, "again"}}) {
			case "balanceOf":
				c.Method, c.A1 = "balanceOf", vh.Pick(r, []common.Address{fo, ft, fc, first.A1})
			case "totalSupply":
				c.Method = "totalSupply"
			case "allowance":
				c.Method, c.A1, c.A2 = "allowance", fc, first.A1
				if first.moves() {
					c.A1, c.A2 = fo, fc
				}
			default:
				*c = *first
				c.Malform = ""
				if first.moves() && first.Amount.Sign() > 0 && r.Chance(1, 2) { // what is left after the first spend
					fo2, _, _ := c.parties(caller)
					c.Amount = vh.Pick(r, []*big.Int{inflight.bal(fo2, c.Tok), new(big.Int).Add(inflight.bal(fo2, c.Tok), big.NewInt(1)),
						inflight.allowance(fo2, caller), new(big.Int).Add(inflight.allowance(fo2, caller), big.NewInt(1))})
					c.Amount = new(big.Int).And(c.Amount, maxU256)
				}
			}
			c.encode()
			s.Call = c
		}
		c := s.Call
		o.Seq = append(o.Seq, s)
		targets[k], datas[k] = w.tok[c.Tok], c.Data
		via := "direct"
		if s.Via != nil {
			datas[k] = puppetCall(s.Via.Kind, s.Via.Mode, w.tok[c.Tok], c.Data)
			targets[k] = s.Via.Puppet.Addr
			via = s.Via.Puppet.Name + "-" + s.Via.Kind.String()
		}
		notes = append(notes, fmt.Sprintf("[%d via=%s caller=%s token=%s %s(%s,%s,%s)%s]", k+1, via, w.nameOf(caller), denoms[c.Tok], c.Method, w.nameOf(c.A1), w.nameOf(c.A2), c.Amount,
			map[bool]string{true: " malformed=" + c.Malform, false: ""}[c.Malform != ""]))
		v, why := inflight.predict(c, caller, static, w.isModule)
		if v == mustOK || (v == either && (why == "to-module-account" || why == "lenient-decoding")) {
			inflight.apply(c, caller)
		}
	}
	o.Note = strings.Join(notes, " ")
	to := o.Seqr.Addr
	data := sequencerCall(o.SeqRevert, targets[0], datas[0], targets[1], datas[1])
	o.Bytes, o.Tx = w.c.EthTx(sender.Acct, vh.LegacyTx(w.c.Nonce(sender.Addr), &to, nil, o.Gas, price, data))
	if !o.SeqRevert {
		inflight.addBal(sender.Addr, 0, feeMax)
		inflight.addBal(vh.FeeCollectorAddr, 0, new(big.Int).Neg(feeMax))
		*st = *inflight
	}
	return o
}

// directOp builds a plain direct call of sender to the token's precompile.
func (w *world) directOp(sender *holder, c *call) *op {
	c.encode()
	o := &op{Sender: sender, Call: c, Gas: 200_000, GasCls: "ample", Value: new(big.Int)}
	to := w.tok[c.Tok]
	price := new(big.Int).Mul(w.c.BaseFee(), big.NewInt(2))
	o.Note = fmt.Sprintf("token=%s %s(%s,%s,%s) caller=%s", denoms[c.Tok], c.Method, w.nameOf(c.A1), w.nameOf(c.A2), c.Amount, sender.Name)
	o.Bytes, o.Tx = w.c.EthTx(sender.Acct, vh.LegacyTx(w.c.Nonce(sender.Addr), &to, nil, o.Gas, price, c.Data))
	return o
}

// prelude is the shortest history that separates the two tokens' allowances: eoa0 approves eoa1 for 1000
// through the SECOND token only; eoa1 then asks the NATIVE token to move 1000 of eoa0's coins, and
// afterwards spends the approval where it was given. Judged by the same oracle as everything else.
func (w *world) prelude() [][]*op {
	e0, e1 := w.byName("eoa0"), w.byName("eoa1")
	amt := big.NewInt(1000)
	return [][]*op{
		{w.directOp(e0, &call{Tok: 1, Method: "approve", A1: e1.Addr, Amount: amt})},
		{w.directOp(e1, &call{Tok: 0, Method: "transferFrom", A1: e0.Addr, A2: e1.Addr, Amount: amt})},
		{w.directOp(e1, &call{Tok: 1, Method: "transferFrom", A1: e0.Addr, A2: e1.Addr, Amount: amt})},
		// the account the precompile burns through holds coins of its own (anybody can send them there) while
		// somebody else burns: exactly the stated amount is destroyed and the holding stays
		{w.directOp(e0, &call{Tok: 0, Method: "transfer", A1: cpctypes.CpcModuleAddress, Amount: big.NewInt(777)}),
			w.directOp(e1, &call{Tok: 1, Method: "transfer", A1: cpctypes.CpcModuleAddress, Amount: big.NewInt(555)})},
		{w.directOp(e1, &call{Tok: 0, Method: "burn", Amount: big.NewInt(5)}),
			w.directOp(e0, &call{Tok: 1, Method: "burn", Amount: big.NewInt(7)})},
	}
}

const preludeSteps = 5

func (w *world) byName(n string) *holder {
	for _, h := range w.holders {
		if h.Name == n {
			return h
		}
	}
	panic("no holder " + n)
}
