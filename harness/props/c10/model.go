package c10

import (
	"math/big"

	"github.com/ethereum/go-ethereum/common"
)

// Reference ERC-20 ledger, written from the property statement:
//   * a token is a window onto one denomination: balanceOf/totalSupply are the bank numbers;
//   * transfer/transferFrom move exactly `amount` from the owner to the recipient, burn/burnFrom
//     destroy exactly `amount` of the owner's coins (supply shrinks by the same amount);
//   * coins of an owner other than the caller move only within allowance(owner, caller); an
//     allowance of 2^256-1 is unlimited and never decremented, any other is reduced by exactly
//     the amount spent; approve sets allowance(caller, spender);
//   * a failing call changes nothing.
// The ledger state is mirrored from the chain at the pre-state of every transaction
// (bank balances, locked coins, supply, the allowance store prefix), so every transaction is
// judged on its own.

var (
	maxU256  = new(big.Int).Sub(new(big.Int).Lsh(big.NewInt(1), 256), big.NewInt(1))
	pow128   = new(big.Int).Lsh(big.NewInt(1), 128)
	pow255   = new(big.Int).Lsh(big.NewInt(1), 255)
	zeroAddr common.Address
)

type akey struct{ Owner, Spender common.Address }

type state struct {
	Bal    map[common.Address]*[2]*big.Int
	Locked map[common.Address]*[2]*big.Int // vesting holders only
	Spend  map[common.Address]*[2]*big.Int // bank's SpendableCoins (vesting holders only), evidence / cross-check
	Supply [2]*big.Int
	Allow  map[akey]*big.Int // the (shared) allowance store, absent = 0
	Time   int64
}

func newState() *state {
	return &state{Bal: map[common.Address]*[2]*big.Int{}, Locked: map[common.Address]*[2]*big.Int{},
		Spend: map[common.Address]*[2]*big.Int{}, Allow: map[akey]*big.Int{},
		Supply: [2]*big.Int{new(big.Int), new(big.Int)}}
}

func (s *state) clone() *state {
	c := newState()
	cp := func(m map[common.Address]*[2]*big.Int) map[common.Address]*[2]*big.Int {
		o := make(map[common.Address]*[2]*big.Int, len(m))
		for a, v := range m {
			o[a] = &[2]*big.Int{new(big.Int).Set(v[0]), new(big.Int).Set(v[1])}
		}
		return o
	}
	c.Bal, c.Locked, c.Spend = cp(s.Bal), cp(s.Locked), cp(s.Spend)
	for k, v := range s.Allow {
		c.Allow[k] = new(big.Int).Set(v)
	}
	c.Supply = [2]*big.Int{new(big.Int).Set(s.Supply[0]), new(big.Int).Set(s.Supply[1])}
	c.Time = s.Time
	return c
}

func (s *state) bal(a common.Address, tok int) *big.Int {
	if v, ok := s.Bal[a]; ok {
		return v[tok]
	}
	// untracked address: treated as zero; the write-set scan reports untracked movements
	v := &[2]*big.Int{new(big.Int), new(big.Int)}
	s.Bal[a] = v
	return v[tok]
}

func (s *state) addBal(a common.Address, tok int, d *big.Int) { b := s.bal(a, tok); b.Add(b, d) }

func (s *state) locked(a common.Address, tok int) *big.Int {
	if v, ok := s.Locked[a]; ok {
		return v[tok]
	}
	return new(big.Int)
}

// spendable = max(balance - locked, 0): what x/bank lets the holder send.
func (s *state) spendable(a common.Address, tok int) *big.Int {
	v := new(big.Int).Sub(s.bal(a, tok), s.locked(a, tok))
	if v.Sign() < 0 {
		v.SetInt64(0)
	}
	return v
}

func (s *state) allowance(o, sp common.Address) *big.Int {
	if v, ok := s.Allow[akey{o, sp}]; ok {
		return v
	}
	return new(big.Int)
}

func (s *state) setAllowance(o, sp common.Address, v *big.Int) {
	if v.Sign() == 0 {
		delete(s.Allow, akey{o, sp})
		return
	}
	s.Allow[akey{o, sp}] = new(big.Int).Set(v)
}

// call is one ERC-20 call as the precompile receives it.
type call struct {
	Tok     int
	Method  string // transfer transferFrom approve burn burnFrom balanceOf totalSupply allowance name symbol decimals
	A1, A2  common.Address
	Amount  *big.Int
	Data    []byte
	Malform string // "", short, empty, sel-only, wrong-selector (must fail) | long, dirty-address (decoded like the clean call)
}

func (c *call) isView() bool {
	switch c.Method {
	case "balanceOf", "totalSupply", "allowance", "name", "symbol", "decimals":
		return true
	}
	return false
}

func (c *call) moves() bool {
	switch c.Method {
	case "transfer", "transferFrom", "burn", "burnFrom":
		return true
	}
	return false
}

// owner, recipient of a moving call; burn has the zero address as "recipient" in the log.
func (c *call) parties(caller common.Address) (owner, to common.Address, burn bool) {
	switch c.Method {
	case "transfer":
		return caller, c.A1, false
	case "transferFrom":
		return c.A1, c.A2, false
	case "burn":
		return caller, zeroAddr, true
	case "burnFrom":
		return c.A1, zeroAddr, true
	}
	return
}

type verdict int

const (
	mustOK verdict = iota
	mustFail
	either // the statement does not decide; whichever happens must be exact
)

func (v verdict) String() string { return [...]string{"must-succeed", "must-fail", "either"}[v] }

// predict says whether the call has to succeed / fail on this (in-flight) state.
func (s *state) predict(c *call, caller common.Address, static bool, isModule func(common.Address) bool) (verdict, string) {
	switch c.Malform {
	case "short", "empty", "sel-only", "wrong-selector":
		return mustFail, "malformed"
	}
	v, why := s.predictClean(c, caller, static, isModule)
	if c.Malform != "" && v == mustOK { // trailing bytes / dirty address padding: decoding rules are not part of the statement
		return either, "lenient-decoding"
	}
	return v, why
}

func (s *state) predictClean(c *call, caller common.Address, static bool, isModule func(common.Address) bool) (verdict, string) {
	if c.isView() {
		return mustOK, "view"
	}
	if c.Method == "approve" {
		switch {
		case static:
			return either, "static-context"
		case c.A1 == zeroAddr:
			return either, "zero-address"
		}
		return mustOK, "ok"
	}
	owner, to, burn := c.parties(caller)
	amt := c.Amount
	if owner != caller {
		if a := s.allowance(owner, caller); a.Cmp(maxU256) != 0 && a.Cmp(amt) < 0 {
			return mustFail, "insufficient-allowance"
		}
	}
	if s.bal(owner, c.Tok).Cmp(amt) < 0 {
		return mustFail, "insufficient-balance"
	}
	movesCoins := amt.Sign() > 0 && (burn || owner != to)
	if movesCoins && s.locked(owner, c.Tok).Sign() > 0 && s.spendable(owner, c.Tok).Cmp(amt) < 0 {
		return mustFail, "locked-coins"
	}
	switch {
	case static:
		return either, "static-context"
	case owner == zeroAddr || (!burn && to == zeroAddr):
		return either, "zero-address"
	case !burn && isModule(to):
		return either, "to-module-account"
	case isModule(owner):
		return either, "from-module-account"
	}
	return mustOK, "ok"
}

// effect of a successful call.
type effect struct {
	Log      *xferLog // the one Transfer log a moving call must emit
	Burn     *big.Int
	AllowKey *akey // allowance entry the call may change
	SelfKey  bool  // owner == caller spend: statement is silent about allowance(caller, caller)
	Ret      []byte
}

type xferLog struct {
	From, To common.Address
	Amount   *big.Int
}

// apply performs the successful call on s.
func (s *state) apply(c *call, caller common.Address) effect {
	var e effect
	switch c.Method {
	case "approve":
		s.setAllowance(caller, c.A1, c.Amount)
		e.AllowKey = &akey{caller, c.A1}
	case "transfer", "transferFrom", "burn", "burnFrom":
		owner, to, burn := c.parties(caller)
		if owner != caller {
			k := akey{owner, caller}
			e.AllowKey = &k
			if a := s.allowance(owner, caller); a.Cmp(maxU256) != 0 {
				s.setAllowance(owner, caller, new(big.Int).Sub(a, c.Amount))
			}
		} else {
			e.SelfKey = true
		}
		s.addBal(owner, c.Tok, new(big.Int).Neg(c.Amount))
		if burn {
			s.Supply[c.Tok].Sub(s.Supply[c.Tok], c.Amount)
			e.Burn = c.Amount
		} else {
			s.addBal(to, c.Tok, c.Amount)
		}
		e.Log = &xferLog{From: owner, To: to, Amount: c.Amount}
	}
	return e
}

// amountClass names where amount sits relative to the owner's in-flight balance and the allowance in force.
func amountClass(amt, bal, allow *big.Int, usesAllowance bool) string {
	one := big.NewInt(1)
	eq := func(a, b *big.Int) bool { return a.Cmp(b) == 0 }
	switch {
	case amt.Sign() == 0:
		return "0"
	case eq(amt, maxU256):
		return "2^256-1"
	case eq(amt, pow255):
		return "2^255"
	case eq(amt, pow128):
		return "2^128"
	}
	if usesAllowance && allow.Cmp(maxU256) != 0 && allow.Sign() > 0 {
		switch {
		case eq(amt, allow):
			return "allowance"
		case eq(amt, new(big.Int).Add(allow, one)):
			return "allowance+1"
		case eq(amt, new(big.Int).Sub(allow, one)):
			return "allowance-1"
		}
	}
	switch {
	case eq(amt, bal):
		return "balance"
	case eq(amt, new(big.Int).Add(bal, one)):
		return "balance+1"
	case bal.Sign() > 0 && eq(amt, new(big.Int).Sub(bal, one)):
		return "balance-1"
	case eq(amt, one):
		return "1"
	case amt.Cmp(bal) < 0:
		return "below-balance"
	}
	return "above-balance"
}
