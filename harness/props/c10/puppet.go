package c10

import (
	"math/big"

	"github.com/ethereum/go-ethereum/common"
	"github.com/ethereum/go-ethereum/core/vm"

	cpcabi "github.com/EscanBE/evermint/v12/x/cpc/abi"

	"verifharness/vh"
)

// Universal puppet. Call data layout:
//
//	byte 0      call kind (0 CALL, 1 CALLCODE, 2 DELEGATECALL, 3 STATICCALL)
//	byte 1      mode (0 report, 1 propagate: revert when the callee failed, 2 call then revert anyway)
//	bytes 2..21 target address
//	bytes 22..  payload forwarded as the callee's call data
//
// The puppet returns (or reverts with) one word holding the callee's success flag followed by
// the callee's return data. It never writes storage and never logs, so it also runs below a
// STATICCALL ancestor. Because target and payload come from the call data, puppets chain:
// the payload of hop 1 is again a puppet header when the target is another puppet.
const (
	modeReport    = 0
	modePropagate = 1
	modeRevert    = 2
	puppetHdr     = 22
)

var modeNames = [...]string{"report", "propagate", "then-revert"}

func puppetCode() []byte {
	a := vh.NewAsm()
	plen := func() { a.PushU(puppetHdr).Op(vm.CALLDATASIZE).Op(vm.SUB) }
	target := func() { a.PushU(2).Op(vm.CALLDATALOAD).PushU(96).Op(vm.SHR) }
	// mem[0..plen) = calldata[22..]
	plen()
	a.PushU(puppetHdr).PushU(0).Op(vm.CALLDATACOPY)
	// kind = byte 0
	a.PushU(0).Op(vm.CALLDATALOAD).PushU(0).Op(vm.BYTE)
	a.Op(vm.DUP1).PushU(1).Op(vm.EQ).JumpI("callcode")
	a.Op(vm.DUP1).PushU(2).Op(vm.EQ).JumpI("delegate")
	a.Op(vm.DUP1).PushU(3).Op(vm.EQ).JumpI("static")
	args := func(withValue bool) {
		a.PushU(0).PushU(0) // retLen retOff
		plen()              // argLen
		a.PushU(0)          // argOff
		if withValue {
			a.Op(vm.CALLVALUE)
		}
		target()
		a.Op(vm.GAS)
	}
	args(true)
	a.Op(vm.CALL).Jump("after")
	a.Label("callcode")
	args(true)
	a.Op(vm.CALLCODE).Jump("after")
	a.Label("delegate")
	args(false)
	a.Op(vm.DELEGATECALL).Jump("after")
	a.Label("static")
	args(false)
	a.Op(vm.STATICCALL)
	a.Label("after") // [.., ok]
	a.Op(vm.DUP1).PushU(0).Op(vm.MSTORE)
	a.Op(vm.RETURNDATASIZE).PushU(0).PushU(32).Op(vm.RETURNDATACOPY)
	a.PushU(0).Op(vm.CALLDATALOAD).PushU(1).Op(vm.BYTE) // [.., ok, mode]
	a.Op(vm.DUP1).PushU(modeRevert).Op(vm.EQ).JumpI("rev")
	a.PushU(modePropagate).Op(vm.EQ)        // [.., ok, isProp]
	a.Op(vm.SWAP1).Op(vm.ISZERO).Op(vm.AND) // [.., isProp && !ok]
	a.JumpI("rev")
	a.Op(vm.RETURNDATASIZE).PushU(32).Op(vm.ADD).PushU(0).Op(vm.RETURN)
	a.Label("rev")
	a.Op(vm.RETURNDATASIZE).PushU(32).Op(vm.ADD).PushU(0).Op(vm.REVERT)
	return a.Bytes()
}

// puppetCall prepends a puppet header to payload.
func puppetCall(kind vh.CallKind, mode int, target common.Address, payload []byte) []byte {
	out := make([]byte, 0, puppetHdr+len(payload))
	out = append(out, byte(kind), byte(mode))
	out = append(out, target.Bytes()...)
	return append(out, payload...)
}

// splitFlags peels n leading success words off a puppet's return data. ok[i] is nil when the
// data ended early (a frame ran out of gas and returned nothing).
func splitFlags(ret []byte, n int) (flags []*bool, rest []byte) {
	rest = ret
	for i := 0; i < n; i++ {
		if len(rest) < 32 {
			flags = append(flags, nil)
			rest = nil
			continue
		}
		v := new(big.Int).SetBytes(rest[:32]).Sign() != 0
		flags = append(flags, &v)
		rest = rest[32:]
	}
	return flags, rest
}

// Sequencer: performs TWO calls in one transaction, so that the snapshot taken around every
// precompile call is exercised with earlier effects of the same transaction in place
// (approve-then-spend, spend-then-respend, success-then-failure, write-then-view).
// Call data: bytes 0..1 = flag<<15 | L1 (length of segment 1); segment i = 20-byte target followed by
// the call data for it; segment 2 runs to the end. Both calls are CALLs without value; the first gets half of the gas.
// Returns success flag 1, success flag 2, return data of call 2; reverts with the same data when flag is set.
func sequencerCode() []byte {
	a := vh.NewAsm()
	l1 := func() { a.PushU(0).Op(vm.CALLDATALOAD).PushU(240).Op(vm.SHR).PushU(0x7fff).Op(vm.AND) }
	size1 := func() { a.PushU(20); l1(); a.Op(vm.SUB) }
	off2 := func() { l1(); a.PushU(2).Op(vm.ADD) }
	size2 := func() { a.PushU(20); off2(); a.Op(vm.ADD).Op(vm.CALLDATASIZE).Op(vm.SUB) }
	// call 1
	size1()
	a.PushU(22).PushU(0).Op(vm.CALLDATACOPY)
	a.PushU(0).PushU(0)
	size1()
	a.PushU(0).PushU(0)
	a.PushU(2).Op(vm.CALLDATALOAD).PushU(96).Op(vm.SHR)
	// half of the gas only: a failing precompile call burns everything it was given
	a.Op(vm.GAS).PushU(1).Op(vm.SHR).Op(vm.CALL) // [ok1]
	// call 2
	size2()
	a.PushU(20)
	off2()
	a.Op(vm.ADD).PushU(0).Op(vm.CALLDATACOPY)
	a.PushU(0).PushU(0)
	size2()
	a.PushU(0).PushU(0)
	off2()
	a.Op(vm.CALLDATALOAD).PushU(96).Op(vm.SHR)
	a.Op(vm.GAS).Op(vm.CALL) // [ok1, ok2]
	a.PushU(32).Op(vm.MSTORE)
	a.PushU(0).Op(vm.MSTORE)
	a.Op(vm.RETURNDATASIZE).PushU(0).PushU(64).Op(vm.RETURNDATACOPY)
	a.PushU(0).Op(vm.CALLDATALOAD).PushU(255).Op(vm.SHR).JumpI("rev")
	a.Op(vm.RETURNDATASIZE).PushU(64).Op(vm.ADD).PushU(0).Op(vm.RETURN)
	a.Label("rev")
	a.Op(vm.RETURNDATASIZE).PushU(64).Op(vm.ADD).PushU(0).Op(vm.REVERT)
	return a.Bytes()
}

func sequencerCall(revert bool, t1 common.Address, d1 []byte, t2 common.Address, d2 []byte) []byte {
	l1 := 20 + len(d1)
	if l1 > 0x7fff {
		panic("segment too long")
	}
	if revert {
		l1 |= 0x8000
	}
	out := []byte{byte(l1 >> 8), byte(l1)}
	out = append(out, t1.Bytes()...)
	out = append(out, d1...)
	out = append(out, t2.Bytes()...)
	return append(out, d2...)
}

// peekerCode: a contract that, in ONE message, lets an inner frame of itself burn some of its own tokens through the
// precompile, ask the precompile for totalSupply() and REVERT, and then asks for totalSupply() again from the outer frame,
// returning that second answer. Call data (outer) = token address (20 bytes) || amount (32 bytes); the inner frame is a
// call to itself with one extra leading byte.
func peekerCode() []byte {
	selSupply := cpcabi.Erc20CpcInfo.ABI.Methods["totalSupply"].ID
	selBurn := cpcabi.Erc20CpcInfo.ABI.Methods["burn"].ID
	a := vh.NewAsm()
	a.Op(vm.CALLDATASIZE).PushU(53).Op(vm.EQ).JumpI("inner")
	// outer: mem[0] = 0x01, mem[1..53) = call data
	a.PushU(1).PushU(0).Op(vm.MSTORE8)
	a.PushU(52).PushU(0).PushU(1).Op(vm.CALLDATACOPY)
	a.PushU(0).PushU(0).PushU(53).PushU(0).PushU(0).Op(vm.ADDRESS, vm.GAS, vm.CALL, vm.POP)
	a.MStoreBytes(0x80, selSupply)
	a.PushU(32).PushU(0xa0).PushU(4).PushU(0x80).PushU(0).Op(vm.CALLDATALOAD).PushU(96).Op(vm.SHR).Op(vm.GAS, vm.STATICCALL, vm.POP)
	a.PushU(32).PushU(0xa0).Op(vm.RETURN)
	a.Label("inner")
	a.MStoreBytes(0x100, selBurn)
	a.PushU(21).Op(vm.CALLDATALOAD).PushU(0x104).Op(vm.MSTORE)
	a.PushU(0).PushU(0).PushU(36).PushU(0x100).PushU(0).PushU(1).Op(vm.CALLDATALOAD).PushU(96).Op(vm.SHR).Op(vm.GAS, vm.CALL, vm.POP)
	a.MStoreBytes(0x80, selSupply)
	a.PushU(32).PushU(0xa0).PushU(4).PushU(0x80).PushU(1).Op(vm.CALLDATALOAD).PushU(96).Op(vm.SHR).Op(vm.GAS, vm.STATICCALL, vm.POP)
	a.PushU(0).PushU(0).Op(vm.REVERT)
	return a.Bytes()
}
