package c10

import (
	"bytes"
	"fmt"
	"math/big"
	"strings"

	abci "github.com/cometbft/cometbft/abci/types"
	"github.com/ethereum/go-ethereum/common"
	ethtypes "github.com/ethereum/go-ethereum/core/types"

	cpctypes "github.com/EscanBE/evermint/v12/x/cpc/types"

	"verifharness/vh"
)

// checkSeq judges a two-call transaction: the ledger is folded over both calls in order (the second
// call is predicted on the state the first one left behind), a failing call must leave exactly the
// effects of the other one, a transaction reverted at the end must leave nothing.
func (w *world) checkSeq(ob *vh.ObservedBlock, i int, o *op, res *abci.ExecTxResult, pre, post *state) {
	run := w.run
	run.Eval(2)
	w.ops += 2
	sender := o.Sender.Addr
	price := vh.EffectivePrice(o.Tx, ob.BaseFee)
	gasLimit := o.Tx.Gas()
	admitted := vh.HasEvent(res, "ethereum_tx")
	rc, attrs := vh.ReceiptOf(res)
	diff := vh.Diff(ob.Pre[i].Dump, ob.Post[i].Dump)
	involved := []common.Address{sender, o.Seqr.Addr, vh.FeeCollectorAddr, cpctypes.CpcModuleAddress, zeroAddr}
	for _, s := range o.Seq {
		cl, _ := s.callerOf(o.Seqr)
		ow, to, _ := s.Call.parties(cl)
		involved = append(involved, cl, ow, to, s.Call.A1, s.Call.A2)
	}
	var exp *state
	shape := ""
	witness := func(extra map[string]any) map[string]any {
		m := map[string]any{"world": w.label, "height": ob.Height, "index": i, "op": o.String(), "shape": shape, "tx_to": o.Tx.To().Hex(), "tx_data": hexs(o.Tx.Data()),
			"precompiles": map[string]string{denoms[0]: w.tok[0].Hex(), denoms[1]: w.tok[1].Hex()}, "sender": sender.Hex(), "gas_limit": gasLimit,
			"effective_price": price.String(), "code": res.Code, "log": res.Log, "write_set": vh.ChangeStrings(diff)}
		for k, s := range o.Seq {
			cl, _ := s.callerOf(o.Seqr)
			m[fmt.Sprintf("call_%d", k+1)] = map[string]string{"precompile": w.tok[s.Call.Tok].Hex(), "call_data": hexs(s.Call.Data), "caller_seen_by_precompile": cl.Hex()}
		}
		if rc != nil {
			m["receipt_status"], m["receipt_logs"], m["gas_used"] = rc.Status, decodeLogs(rc.Logs), attrs["gasUsed"]
		}
		if resp := vh.EthResponse(res); resp != nil {
			m["vm_error"], m["return_data"] = resp.VmError, hexs(resp.Ret)
		}
		bal := map[string]any{}
		seen := map[common.Address]bool{}
		for _, a := range involved {
			if seen[a] {
				continue
			}
			seen[a] = true
			e := map[string]any{"address": a.Hex()}
			for d := range denoms {
				row := map[string]string{"pre": pre.bal(a, d).String(), "post": post.bal(a, d).String()}
				if exp != nil {
					row["model"] = exp.bal(a, d).String()
				}
				e[denoms[d]] = row
			}
			bal[w.nameOf(a)] = e
		}
		m["balances"] = bal
		m["supply"] = map[string]any{"pre": []string{pre.Supply[0].String(), pre.Supply[1].String()}, "post": []string{post.Supply[0].String(), post.Supply[1].String()}}
		al := map[string]any{}
		for _, st := range []struct {
			n string
			s *state
		}{{"pre", pre}, {"post", post}} {
			row := map[string]string{}
			for _, k := range sortedAllowKeys(st.s.Allow) {
				for _, a := range involved {
					if k.Owner == a && a != zeroAddr {
						row[w.nameOf(k.Owner)+"->"+w.nameOf(k.Spender)] = st.s.Allow[k].String()
						break
					}
				}
			}
			al[st.n] = row
		}
		m["allowance_store"] = al
		for k, v := range extra {
			m[k] = v
		}
		return m
	}
	if !ob.Reached[i] || !admitted || rc == nil {
		run.Count("sequence:unexecuted", 1)
		return
	}
	var gasUsed uint64
	fmt.Sscan(attrs["gasUsed"], &gasUsed)
	txOK := rc.Status == 1
	var ret []byte
	vmErr := ""
	if resp := vh.EthResponse(res); resp != nil {
		ret, vmErr = resp.Ret, resp.VmError
	}
	flags, rest := splitFlags(ret, 2)
	if flags[0] == nil || flags[1] == nil {
		if !strings.Contains(vmErr, "out of gas") {
			run.Violation("instrument:sequencer-flags-missing", w.label, witness(nil))
		}
		return
	}
	if txOK == o.SeqRevert {
		run.Violation("instrument:sequencer-outcome-unexpected", w.label, witness(nil))
		return
	}

	base := pre.clone()
	feeMax := new(big.Int).Mul(price, new(big.Int).SetUint64(gasLimit))
	base.addBal(sender, 0, new(big.Int).Neg(feeMax))
	base.addBal(vh.FeeCollectorAddr, 0, feeMax)
	exp = base.clone()
	var wantLogs []*xferLogAt
	var descs []string
	selfKeys := map[akey]bool{}
	type pending struct {
		c       *call
		caller  common.Address
		inAllow *big.Int
	}
	var took []pending
	for k, s := range o.Seq {
		c := s.Call
		caller, static := s.callerOf(o.Seqr)
		owner, _, _ := c.parties(caller)
		pred, why := exp.predict(c, caller, static, w.isModule)
		ok := *flags[k]
		inBal, inAllow := new(big.Int).Set(exp.bal(owner, c.Tok)), new(big.Int).Set(exp.allowance(owner, caller))
		viewWant := new(big.Int)
		switch c.Method {
		case "balanceOf":
			viewWant.Set(exp.bal(c.A1, c.Tok))
		case "totalSupply":
			viewWant.Set(exp.Supply[c.Tok])
		case "allowance":
			viewWant.Set(exp.allowance(c.A1, c.A2))
		}
		switch {
		case pred == mustOK && !ok:
			run.Violation(fmt.Sprintf("unexpected-failure:%s:caller=%s", c.Method, s.kind()), w.label, witness(map[string]any{"call": k + 1, "model": "must succeed: " + why}))
		case pred == mustFail && ok:
			run.Violation(fmt.Sprintf("unexpected-success:%s:%s", c.Method, why), w.label, witness(map[string]any{"call": k + 1, "model": "must fail: " + why}))
		}
		cls := "ok"
		if !ok {
			cls = "fail:" + why
			run.Count("failing_calls_checked_for_no_effect", 1)
		}
		descs = append(descs, c.Method+"/"+map[bool]string{true: "ok", false: "fail"}[ok])
		run.Count("seq_call:"+c.Method+":"+cls, 1)
		if c.moves() || c.Method == "approve" {
			hk := w.kindOf(owner)
			if c.Method == "approve" {
				hk = w.kindOf(caller)
			}
			run.Nontrivial(s.kind() + "|" + amountClass(c.Amount, inBal, inAllow, c.moves() && owner != caller) + "|" + hk)
		}
		if ok {
			eff := exp.apply(c, caller)
			if eff.Log != nil {
				wantLogs = append(wantLogs, &xferLogAt{Tok: c.Tok, L: eff.Log})
			}
			if eff.SelfKey {
				selfKeys[akey{caller, caller}] = true
			}
			took = append(took, pending{c, caller, inAllow})
			// the second call's view must already show the first call's effects
			if k == 1 && c.isView() && (c.Method == "balanceOf" || c.Method == "totalSupply" || c.Method == "allowance") {
				pret := rest
				if s.Via != nil {
					_, pret = splitFlags(rest, 1)
				}
				run.Count("views_in_tx_compared", 1)
				run.Count("views_after_write_in_same_tx", 1)
				if len(pret) != 32 || !same(new(big.Int).SetBytes(pret), viewWant) {
					name := c.Method + "-differs-from-bank"
					if c.Method == "allowance" {
						name = "allowance-view-differs-from-store"
					}
					run.Violation(name+":caller="+s.kind(), w.label, witness(map[string]any{"precompile_return": hexs(pret), "model_in_flight_value": viewWant.String()}))
				}
			}
		}
	}
	desc := strings.Join(descs, ",")
	shape = desc
	if !txOK {
		desc += ":tx-reverted"
		exp = base.clone()
		wantLogs = nil
		took = nil
		run.Count("failing_calls_checked_for_no_effect", 1)
	}
	rev := ""
	if !txOK {
		rev = ":tx-reverted"
	}
	run.Count("sequence_txs", 1)
	run.Distinct("sequence_shapes", desc)
	refund := new(big.Int).Mul(price, new(big.Int).SetUint64(gasLimit-gasUsed))
	exp.addBal(sender, 0, refund)
	exp.addBal(vh.FeeCollectorAddr, 0, new(big.Int).Neg(refund))

	var mism []string
	for _, h := range w.holders {
		for d := range denoms {
			if !same(exp.bal(h.Addr, d), post.bal(h.Addr, d)) {
				mism = append(mism, fmt.Sprintf("%s %s: pre %s model %s observed %s", h.Name, denoms[d], pre.bal(h.Addr, d), exp.bal(h.Addr, d), post.bal(h.Addr, d)))
				involved = append(involved, h.Addr)
			}
		}
	}
	if len(mism) > 0 {
		run.Violation("sequence:balance-mismatch"+rev, w.label, witness(map[string]any{"mismatches": mism}))
	}
	for d := range denoms {
		if !same(exp.Supply[d], post.Supply[d]) {
			run.Violation("sequence:supply-mismatch"+rev, w.label, witness(map[string]any{"denom_checked": denoms[d], "model_supply": exp.Supply[d].String(), "observed_supply": post.Supply[d].String()}))
		}
	}
	if !ob.PostIsEndBlock[i] {
		w.scanWrites(diff, "sequence"+rev, witness)
	}
	keys := map[akey]bool{}
	for k := range exp.Allow {
		keys[k] = true
	}
	for k := range post.Allow {
		keys[k] = true
	}
	for k := range keys {
		e, p := exp.allowance(k.Owner, k.Spender), post.allowance(k.Owner, k.Spender)
		if same(e, p) || selfKeys[k] {
			continue
		}
		run.Violation("sequence:allowance-mismatch"+rev, w.label, witness(map[string]any{"owner": k.Owner.Hex(), "spender": k.Spender.Hex(),
			"pre": pre.allowance(k.Owner, k.Spender).String(), "model": e.String(), "observed": p.String()}))
	}
	var got []*ethtypes.Log
	for _, l := range rc.Logs {
		if len(l.Topics) > 0 && l.Topics[0] == transferSig {
			got = append(got, l)
		}
	}
	if !txOK && len(rc.Logs) != 0 {
		run.Violation("sequence:log-after-reverted-tx"+rev, w.label, witness(nil))
	}
	if len(got) != len(wantLogs) {
		run.Violation("sequence:transfer-log-count"+rev, w.label, witness(map[string]any{"transfer_logs": len(got), "model_transfer_logs": len(wantLogs)}))
	} else {
		for k, l := range got {
			wl := wantLogs[k]
			run.Count("transfer_logs_checked", 1)
			if l.Address != w.tok[wl.Tok] || len(l.Topics) != 3 || l.Topics[1] != common.BytesToHash(wl.L.From.Bytes()) ||
				l.Topics[2] != common.BytesToHash(wl.L.To.Bytes()) || !bytes.Equal(l.Data, common.LeftPadBytes(wl.L.Amount.Bytes(), 32)) {
				run.Violation("sequence:transfer-log-mismatch"+rev, w.label, witness(map[string]any{"log_index": k,
					"model_log": map[string]string{"emitter": w.tok[wl.Tok].Hex(), "from": wl.L.From.Hex(), "to": wl.L.To.Hex(), "value": wl.L.Amount.String()}}))
			}
		}
	}
	for k, t := range took {
		w.authority(t.c, t.caller, t.inAllow, fmt.Sprintf("height %d tx %d call %d: %s; tx_to=%s tx_data=%s", ob.Height, i, k+1, o.String(), o.Tx.To().Hex(), hexs(o.Tx.Data())), witness)
	}
	w.seqTxs++
	if w.wi == 0 && w.seqTxs%41 == 1 {
		run.Sample(map[string]any{"op": o.String(), "shape": desc, "tx_ok": txOK, "gas_used": gasUsed, "logs": len(rc.Logs)})
	}
}

type xferLogAt struct {
	Tok int
	L   *xferLog
}
