package c10

import (
	"fmt"
	"math/big"
	"strings"

	sdkmath "cosmossdk.io/math"
	storetypes "cosmossdk.io/store/types"
	sdk "github.com/cosmos/cosmos-sdk/types"
	authtypes "github.com/cosmos/cosmos-sdk/x/auth/types"
	banktypes "github.com/cosmos/cosmos-sdk/x/bank/types"
	distrtypes "github.com/cosmos/cosmos-sdk/x/distribution/types"
	stakingtypes "github.com/cosmos/cosmos-sdk/x/staking/types"
	"github.com/ethereum/go-ethereum/common"
	"github.com/ethereum/go-ethereum/crypto"

	"github.com/EscanBE/evermint/v12/constants"
	cpctypes "github.com/EscanBE/evermint/v12/x/cpc/types"

	"verifharness/vh"
)

var denoms = [2]string{vh.Denom, vh.SecondDenom}

const (
	secondName     = "atom2"
	secondSymbol   = "ATOM2"
	secondDecimals = 6
)

type holder struct {
	Addr common.Address
	Kind string // eoa vesting puppet sequencer module zero precompile fresh
	Name string
	Acct *vh.Acct
}

type world struct {
	run     *vh.Run
	label   string
	wi      int
	r       *vh.RNG
	c       *vh.Chain
	holders []*holder
	byAddr  map[common.Address]*holder
	senders []*holder // key holders that sign ERC-20 transactions
	actors  []*holder // addresses that can be the precompile's caller (senders + puppets)
	puppets []*holder
	seqs    []*holder // sequencer contracts (two calls per transaction); they hold coins like puppets
	peeker  *holder   // peekerCode: burns in an inner frame that reverts, then reads totalSupply() from the outer frame
	funder  *holder
	tok     [2]common.Address
	meta    [2][3]any // name, symbol, decimals expected from each token
	// approved[tok][(owner, spender)]: what the owner approved THROUGH THIS TOKEN and the spender
	// has not yet spent through this token (history model of "the allowance that holder approved").
	approved       [2]map[akey]*big.Int
	approvedBy     [2]map[akey]string // provenance of the last approve per token and pair (for witnesses)
	sharedReported bool
	ops            int // ERC-20 operations executed so far
	block          int
	seqTxs         int
}

func coins(native *big.Int, second int64) sdk.Coins {
	cs := sdk.NewCoins()
	if native != nil && native.Sign() > 0 {
		cs = cs.Add(sdk.NewCoin(vh.Denom, sdkmath.NewIntFromBigInt(native)))
	}
	if second > 0 {
		cs = cs.Add(sdk.NewCoin(vh.SecondDenom, sdkmath.NewInt(second)))
	}
	return cs
}

func (w *world) add(h *holder) *holder {
	if old, ok := w.byAddr[h.Addr]; ok {
		return old
	}
	w.holders = append(w.holders, h)
	w.byAddr[h.Addr] = h
	return h
}

func modAddr(name string) common.Address {
	return common.BytesToAddress(authtypes.NewModuleAddress(name))
}

// newWorld builds a chain with two ERC-20 precompiles (native denomination deployed at genesis,
// the second one by a MsgDeployErc20ContractRequest of the whitelisted deployer), EOAs, vesting
// accounts with locked coins in both denominations, funded puppets, module accounts, the zero address.
func newWorld(run *vh.Run, label string, wi int) (*world, error) {
	r := run.RNG("world", wi)
	w := &world{run: run, label: label, wi: wi, r: r, byAddr: map[common.Address]*holder{}}
	w.approved = [2]map[akey]*big.Int{{}, {}}
	w.approvedBy = [2]map[akey]string{{}, {}}
	gen := int64(1_700_000_000)
	var accs []vh.GenAccount

	funder := vh.NewAcct(r)
	w.funder = w.add(&holder{Addr: funder.Addr, Kind: "eoa", Name: "funder", Acct: funder})
	accs = append(accs, vh.GenAccount{Addr: funder.Addr, Coins: coins(vh.Ether(1_000_000), 1_000_000_000_000_000)})
	deployer := vh.NewAcct(r)
	dep := w.add(&holder{Addr: deployer.Addr, Kind: "eoa", Name: "deployer", Acct: deployer})
	accs = append(accs, vh.GenAccount{Addr: deployer.Addr, Coins: coins(vh.Ether(1000), 3_000_000)})
	w.senders = append(w.senders, dep)

	second := []int64{1_000_000_000_000, 5_000_000_000, 1000, 7, 0}
	for i := 0; i < 5; i++ {
		a := vh.NewAcct(r)
		h := w.add(&holder{Addr: a.Addr, Kind: "eoa", Name: fmt.Sprintf("eoa%d", i), Acct: a})
		w.senders = append(w.senders, h)
		accs = append(accs, vh.GenAccount{Addr: a.Addr, Coins: coins(vh.Ether(int64(100+r.Intn(900))), second[i])})
	}
	type vspec struct {
		kind       string
		start, end int64
	}
	for i, v := range []vspec{{"delayed", 0, gen + 1_000_000}, {"continuous", gen - 2000, gen + 40_000}, {"permanent", 0, 0}, {"delayed", 0, gen + int64(300+r.Intn(900))}} {
		a := vh.NewAcct(r)
		h := w.add(&holder{Addr: a.Addr, Kind: "vesting", Name: fmt.Sprintf("vesting%d-%s", i, v.kind), Acct: a})
		w.senders = append(w.senders, h)
		lockedN, lockedS := vh.Ether(int64(100+r.Intn(400))), int64(100_000_000_000+r.Intn(400_000_000_000))
		freeN, freeS := vh.Ether(int64(50+r.Intn(100))), int64(r.Intn(100_000_000_000))
		ov := coins(lockedN, lockedS)
		accs = append(accs, vh.GenAccount{Addr: a.Addr, Kind: v.kind, VestStart: v.start, VestEnd: v.end, OrigVesting: ov,
			Coins: ov.Add(coins(freeN, freeS)...)})
	}
	w.add(&holder{Addr: zeroAddr, Kind: "zero", Name: "zero-address"})
	accs = append(accs, vh.GenAccount{Addr: zeroAddr, Coins: coins(vh.Ether(5), 12345)})
	for _, m := range []string{authtypes.FeeCollectorName, stakingtypes.BondedPoolName, cpctypes.ModuleName, "evm", distrtypes.ModuleName} {
		w.add(&holder{Addr: modAddr(m), Kind: "module", Name: "module:" + m})
	}
	for i := 0; i < 2; i++ {
		w.add(&holder{Addr: common.BytesToAddress(r.Bytes(20)), Kind: "fresh", Name: fmt.Sprintf("fresh%d", i)})
	}

	// odd worlds keep the base fee at >= 1 gwei (min gas price floor) so that fees stay sizeable; in even worlds it decays
	minGasPrice := "0"
	if wi%2 == 1 {
		minGasPrice = "1000000000"
	}
	w.c = vh.NewChain(vh.Config{Seed: r.U64(), NumVals: 1 + wi%3, Erc20Native: true, StakingCPC: true, MinGasPrice: minGasPrice,
		CpcWhitelist: []string{deployer.Bech32()}, Accounts: accs})
	c := w.c

	// second ERC-20 precompile
	msg := &cpctypes.MsgDeployErc20ContractRequest{Authority: deployer.Bech32(), Name: secondName, Symbol: secondSymbol,
		Decimals: secondDecimals, MinDenom: vh.SecondDenom}
	br := c.NextBlock([][]byte{c.CosmosTx(deployer, []sdk.Msg{msg}, nil)}, nil)
	if br.Err != nil || br.TxResults()[0].Code != 0 {
		return w, fmt.Errorf("deploying the second ERC-20 precompile failed: %v %s", br.Err, br.TxResults()[0].Log)
	}
	ctx := c.QueryCtx()
	for i, d := range denoms {
		p := c.App.CPCKeeper.GetErc20CustomPrecompiledContractAddressByMinDenom(ctx, d)
		if p == nil {
			return w, fmt.Errorf("no ERC-20 precompile for %s", d)
		}
		w.tok[i] = *p
		w.add(&holder{Addr: *p, Kind: "precompile", Name: "erc20:" + d})
	}
	if w.tok[0] != crypto.CreateAddress(cpctypes.CpcModuleAddress, 0) || w.tok[0] == w.tok[1] {
		return w, fmt.Errorf("unexpected precompile addresses %s %s", w.tok[0], w.tok[1])
	}
	w.meta[0] = [3]any{"Wrapped " + strings.ToUpper(constants.SymbolDenom), "W" + strings.ToUpper(constants.SymbolDenom), uint8(constants.BaseDenomExponent)}
	w.meta[1] = [3]any{secondName, secondSymbol, uint8(secondDecimals)}

	// puppets
	nonce := c.Nonce(deployer.Addr)
	price := new(big.Int).Mul(c.BaseFee(), big.NewInt(3))
	var txs [][]byte
	var contracts []*holder
	for i := 0; i < 6; i++ {
		code, kind, name := puppetCode(), "puppet", fmt.Sprintf("puppet%d", i)
		if i >= 3 {
			code, kind, name = sequencerCode(), "sequencer", fmt.Sprintf("sequencer%d", i-3)
		}
		if i == 5 {
			code, kind, name = peekerCode(), "peeker", "peeker"
		}
		bz, _ := c.EthTx(deployer, vh.LegacyTx(nonce+uint64(i), nil, nil, 1_000_000, price, vh.Deployer(code)))
		txs = append(txs, bz)
		h := w.add(&holder{Addr: crypto.CreateAddress(deployer.Addr, nonce+uint64(i)), Kind: kind, Name: name})
		contracts = append(contracts, h)
		switch {
		case i == 5:
			w.peeker = h
		case i >= 3:
			w.seqs = append(w.seqs, h)
		default:
			w.puppets = append(w.puppets, h)
		}
	}
	br = c.NextBlock(txs, nil)
	if br.Err != nil {
		return w, br.Err
	}
	for i, res := range br.TxResults() {
		if res.Code != 0 || len(c.App.EvmKeeper.GetCode(c.QueryCtx(), c.App.EvmKeeper.GetCodeHash(c.QueryCtx(), contracts[i].Addr.Bytes()))) == 0 {
			return w, fmt.Errorf("contract %d not deployed: %d %s", i, res.Code, res.Log)
		}
	}
	var msgs []sdk.Msg
	for i, p := range contracts {
		msgs = append(msgs, banktypes.NewMsgSend(funder.Acc(), p.Addr.Bytes(), coins(vh.Ether(int64(10+20*i)), int64(1_000_000_000*(i+1)+int(r.Intn(1000))))))
	}
	br = c.NextBlock([][]byte{c.CosmosTx(funder, msgs, &vh.CosmosOpts{Gas: 600_000})}, nil)
	if br.Err != nil || br.TxResults()[0].Code != 0 {
		return w, fmt.Errorf("funding puppets failed: %v %s", br.Err, br.TxResults()[0].Log)
	}
	w.actors = append(append(append([]*holder{}, w.senders...), w.puppets...), w.seqs...)
	return w, nil
}

func (w *world) isModule(a common.Address) bool {
	h := w.byAddr[a]
	return h != nil && h.Kind == "module"
}

func (w *world) kindOf(a common.Address) string {
	if h := w.byAddr[a]; h != nil {
		return h.Kind
	}
	return "untracked"
}

func (w *world) nameOf(a common.Address) string {
	if h := w.byAddr[a]; h != nil {
		return h.Name
	}
	return a.Hex()
}

// view mirrors, INSIDE the observer, everything the ledger needs: bank balances of every tracked
// holder in both denominations, locked and spendable coins of vesting holders, both supplies and
// the complete allowance prefix of the cpc store.
func (w *world) view(ctx sdk.Context) any {
	ctx = ctx.WithGasMeter(storetypes.NewInfiniteGasMeter()).WithKVGasConfig(storetypes.GasConfig{}).WithTransientKVGasConfig(storetypes.GasConfig{})
	app := w.c.App
	st := newState()
	st.Time = ctx.BlockTime().Unix()
	for _, h := range w.holders {
		acc := sdk.AccAddress(h.Addr.Bytes())
		st.Bal[h.Addr] = &[2]*big.Int{app.BankKeeper.GetBalance(ctx, acc, denoms[0]).Amount.BigInt(), app.BankKeeper.GetBalance(ctx, acc, denoms[1]).Amount.BigInt()}
		if h.Kind == "vesting" {
			l, s := app.BankKeeper.LockedCoins(ctx, acc), app.BankKeeper.SpendableCoins(ctx, acc)
			st.Locked[h.Addr] = &[2]*big.Int{l.AmountOf(denoms[0]).BigInt(), l.AmountOf(denoms[1]).BigInt()}
			st.Spend[h.Addr] = &[2]*big.Int{s.AmountOf(denoms[0]).BigInt(), s.AmountOf(denoms[1]).BigInt()}
		}
	}
	for i, d := range denoms {
		st.Supply[i] = app.BankKeeper.GetSupply(ctx, d).Amount.BigInt()
	}
	store := ctx.MultiStore().GetKVStore(app.GetKVStoreKey()[cpctypes.StoreKey])
	it := storetypes.KVStorePrefixIterator(store, cpctypes.KeyPrefixErc20CpcAllowance)
	defer it.Close()
	for ; it.Valid(); it.Next() {
		k := it.Key()
		if len(k) != 41 {
			continue
		}
		st.Allow[akey{common.BytesToAddress(k[1:21]), common.BytesToAddress(k[21:41])}] = new(big.Int).SetBytes(it.Value())
	}
	return st
}
