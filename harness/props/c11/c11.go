// Package c11 monitors property C11: the staking precompile acts only for its immediate
// caller and mirrors native staking (online twin inside the tx-boundary observer).
package c11

import (
	"fmt"
	"runtime"
	"sync"

	"github.com/ethereum/go-ethereum/common"

	"verifharness/vh"
)

// Run executes the C11 workload.
func Run(run *vh.Run) {
	nWorlds := run.N(12, 32)
	opsPer := run.N(210, 800)
	par := runtime.NumCPU() / 2
	if par < 1 {
		par = 1
	}
	if par > 8 {
		par = 8
	}
	if !run.Thorough() && par > 6 {
		par = 6
	}
	sem := make(chan struct{}, par)
	var wg sync.WaitGroup
	for wi := 0; wi < nWorlds; wi++ {
		label := fmt.Sprintf("world-%d", wi)
		if !run.WantCase(label) {
			continue
		}
		wg.Add(1)
		sem <- struct{}{}
		go func(wi int, label string) {
			defer wg.Done()
			defer func() { <-sem }()
			w := newWorld(run, label, wi)
			defer w.cleanup()
			w.drive(opsPer)
		}(wi, label)
	}
	wg.Wait()
	st.publish(run)

	run.Rule = "Worlds of 3-5 validators (equal and unequal powers, commissions 0..100%, with and without inflation, unbonding 30-90 s) with the staking precompile; " +
		"random blocks of 1-3 transactions mixing (a) designated precompile calls - delegate / undelegate / redelegate / withdrawReward / withdrawRewards / transfer / " +
		"delegateByActionMessage / withdrawRewardsByMessage - sent by EOAs directly, through forwarder contracts (CALL, CALLCODE, DELEGATECALL and two-hop combinations) " +
		"and through freshly deployed call trees with reverting / propagating frames, (b) native Cosmos staking and distribution messages, (c) view calls, (d) empty blocks for reward accrual and unbonding maturity. " +
		"Before each designated transaction the observer applies the corresponding native message(s) with the real x/staking and x/distribution message servers to a discarded branch of the same state (after moving gasLimit x price to the fee collector) " +
		"and the post-state, receipt logs and result are compared with that twin. Signed-message calls come from a forgery generator (16 classes) judged by the monitor's own EIP-712 hash and key recovery. " +
		"Non-trivial = distinct (method x caller kind x outcome x amount class)."
	run.Assumptions = append(run.Assumptions,
		"immediate caller = the account in whose context the call instruction executes (address(this) of the calling frame); a contract reached by DELEGATECALL/CALLCODE acts as the account whose context it runs in, never as the transaction sender",
		"withdrawRewards() / transfer() / withdrawRewardsByMessage('all') correspond to one MsgWithdrawDelegatorReward per validator whose truncated pending reward is at least 10^decimals/1000 (staking.sol: minimum claim), in the order of the native rewards query; with nothing to claim the call may either return or revert (it reverts today) but must change nothing",
		"transfer(self, v) = claim as above, then MsgDelegate(v) to the validator chosen by the rule documented in staking.sol; mirrored as: among bonded validators the delegator is delegated to (none: all bonded validators, take element n/2; one: it; several: the first) in ascending order of tokens, ties by operator address string. The choice is cross-checked for determinism by replaying every block on a second instance of the same chain (identical app hash and results)",
		"logs promised per module event: delegate -> Delegate, unbond -> Undelegate, redelegate -> Undelegate(src)+Delegate(dst), withdraw_rewards -> WithdrawReward, each only for a positive amount of the bond denom (the zero-amount withdraw_rewards event the distribution hooks emit on every delegation change carries no log); compared as multisets with the twin's events and in order with the module events of the transaction itself",
		"validator period counters of the F1 distribution bookkeeping (historical-reward record numbers, previous_period of starting infos) are not part of the compared effect: the precompile runs the rewards query on the live state, which advances periods; compared instead are the pending reward of every delegation in the state, outstanding rewards, commissions, community pool, stakes and heights of starting infos; x/staking and x/bank stores are compared byte for byte",
		"a signed message is acceptable iff secp256k1 recovery over the EIP-712 hash for this chain id and the staking precompile as verifying contract yields the message's delegator and that delegator is the immediate caller; v may be given as 27/28 or 0/1; a high-s signature with flipped v recovers the same signer and therefore counts as valid",
		"slashing-free histories (all validators sign every block); one validator per world may be jailed by unbonding its whole self-delegation through the precompile",
		"view numbers are compared with Query/Delegation, DelegatorDelegations (sum of balances), DelegationRewards, DelegationTotalRewards (truncated), DelegatorValidators and bank Query/Balance on the same state; where the native query refuses (no such delegation or validator) the precompile may answer 0 or refuse")

	run.Floor("designated precompile calls executed", run.Get("designated_ops_executed"), int64(run.N(700, 9000)))
	run.Floor("twin comparisons with a state effect", run.Get("twin_comparisons_with_effect"), int64(run.N(250, 3000)))
	run.Floor("forged signed messages", run.Get("signed_messages_forged"), int64(run.N(50, 600)))
	run.Floor("valid signed messages accepted", run.Get("signed_messages_valid_accepted"), int64(run.N(15, 150)))
	run.Floor("own signed messages in a denomination other than the bond denomination", run.Get("signed_messages_in_other_denomination"), int64(run.N(4, 60)))
	run.Floor("comparisons whose rewards are paid in several denominations", run.Get("twin_comparisons_paying_rewards_in_several_denominations"), int64(run.N(20, 300)))
	run.Floor("view / withdrawal / view sequences run by a contract in one transaction", run.Get("view_sequences_checked"), int64(run.N(15, 250)))
	run.Floor("of these, with an effective withdrawal between the two reads", run.Get("view_sequences_with_a_withdrawal_in_between"), int64(run.N(5, 80)))
	run.Floor("view answers compared with native queries", run.Get("views_compared"), int64(run.N(350, 4000)))
	run.Floor("receipt logs compared", run.Get("logs_compared"), int64(run.N(280, 3500)))
	run.Floor("native staking transactions interleaved", run.Get("native_staking_txs_interleaved"), int64(run.N(110, 1400)))
	run.Floor("caller kinds", int64(run.DistinctN("caller_kinds")), 8)
	run.Floor("methods", int64(run.DistinctN("methods")), 9)
	run.Floor("forged classes x caller kinds", int64(run.DistinctN("forged_classes")), int64(run.N(12, 15)))
	_ = common.Address{}
}

// drive runs the history of one world until nOps operations have been issued.
func (w *world) drive(nOps int) {
	r := w.r
	for w.ops < nOps {
		if w.run.Violations() > 40 {
			return
		}
		w.used = map[common.Address]uint64{}
		var plans []*plan
		n := 1 + r.Intn(3)
		if r.Chance(1, 6) {
			n = 0 // empty block: rewards accrue, unbonding entries mature
		}
		for k := 0; k < n; k++ {
			var p *plan
			switch x := r.Intn(100); {
			case x < 58:
				p = w.planOp()
			case x < 68:
				p = w.planViewTx()
			case x < 72:
				p = w.planViewSequence()
			default:
				p = w.planNative()
			}
			if p != nil {
				plans = append(plans, p)
				w.ops++
			}
		}
		if t := w.topUps(); t != nil {
			plans = append(plans, t)
		}
		w.block(plans, true)
		if r.Chance(1, 2) {
			w.ethcallViews(1 + r.Intn(2))
		}
		if r.Chance(1, 10) { // a run of empty blocks
			for k := 0; k < 2+r.Intn(8); k++ {
				w.used = map[common.Address]uint64{}
				w.block(nil, true)
			}
		}
	}
	w.run.Count("blocks", int(w.c.Height))
}
