package c11

import (
	"fmt"
	"math/big"
	"sort"
	"strings"
	"sync"

	sdkmath "cosmossdk.io/math"
	abci "github.com/cometbft/cometbft/abci/types"
	distrtypes "github.com/cosmos/cosmos-sdk/x/distribution/types"
	"github.com/ethereum/go-ethereum/common"
	ethtypes "github.com/ethereum/go-ethereum/core/types"

	cpcabi "github.com/EscanBE/evermint/v12/x/cpc/abi"

	"verifharness/vh"
)

// stats shared by all worlds (cells of the evidence tables).
type stats struct {
	mu    sync.Mutex
	cells map[string]map[string]int
}

var st = &stats{cells: map[string]map[string]int{}}

func (s *stats) add(table, cell string, n int) {
	s.mu.Lock()
	if s.cells[table] == nil {
		s.cells[table] = map[string]int{}
	}
	s.cells[table][cell] += n
	s.mu.Unlock()
}

func (s *stats) publish(run *vh.Run) {
	s.mu.Lock()
	defer s.mu.Unlock()
	for t, m := range s.cells {
		run.Set(t, m)
	}
}

// kindRank orders difference kinds so that the signature names the most telling one.
func kindRank(k string) int {
	order := []string{"staking:delegation", "staking:unbonding", "staking:redelegation", "staking:validator", "staking:", "bank:other-account", "bank:tx-sender",
		"bank:", "distribution:pending-reward", "distribution:starting-info", "distribution:"}
	for i, p := range order {
		if strings.HasPrefix(k, p) {
			return i
		}
	}
	return len(order)
}

func opsOf(f *frame) []*nativeOp {
	var ops []*nativeOp
	f.ops(&ops)
	return ops
}

func firstLine(s string) string {
	if i := strings.IndexByte(s, '\n'); i >= 0 {
		return s[:i]
	}
	return s
}

func decodeInt(bz []byte) *big.Int {
	var i sdkmath.Int
	if len(bz) == 0 || i.Unmarshal(bz) != nil {
		return new(big.Int)
	}
	return i.BigInt()
}

func balanceIn(d vh.Dump, a common.Address) *big.Int { return decodeInt([]byte(d[balanceKey(a)])) }

func gasUsedOf(res *abci.ExecTxResult, attrs map[string]string, limit uint64) uint64 {
	g := limit
	if s, ok := attrs["gasUsed"]; ok {
		fmt.Sscan(s, &g)
	} else if er := vh.EthResponse(res); er != nil {
		g = er.GasUsed
	}
	return g
}

// decodeLogs extracts the staking-ABI logs of a receipt.
func (w *world) decodeLogs(rc *ethtypes.Receipt) (logs []expLog, unknown int) {
	evs := cpcabi.StakingCpcInfo.ABI.Events
	for _, l := range rc.Logs {
		if l.Address != w.staking {
			continue
		}
		name := ""
		for _, n := range []string{"Delegate", "Undelegate", "WithdrawReward"} {
			if len(l.Topics) == 3 && l.Topics[0] == evs[n].ID {
				name = n
			}
		}
		if name == "" || len(l.Data) != 32 {
			unknown++
			continue
		}
		logs = append(logs, expLog{Event: name, Delegator: common.BytesToAddress(l.Topics[1].Bytes()), Validator: common.BytesToAddress(l.Topics[2].Bytes()),
			Amount: new(big.Int).SetBytes(l.Data).String()})
	}
	return
}

func abciModEvents(res *abci.ExecTxResult) []modEvent {
	var out []modEvent
	for _, e := range res.Events {
		m := map[string]string{}
		for _, a := range e.Attributes {
			m[a.Key] = a.Value
		}
		if me, ok := reduceEvent(e.Type, m); ok {
			out = append(out, me)
		}
	}
	return out
}

func logKeys(l []expLog) []string {
	var out []string
	for _, x := range l {
		out = append(out, x.key())
	}
	return out
}

func sortedCopy(s []string) []string {
	c := append([]string{}, s...)
	sort.Strings(c)
	return c
}

func storeOf(full string) (string, []byte) {
	i := strings.IndexByte(full, 0)
	return full[:i], []byte(full[i+1:])
}

func stakingKind(p byte) string {
	switch p {
	case 0x11:
		return "last-validator-power"
	case 0x12:
		return "last-total-power"
	case 0x21:
		return "validator"
	case 0x22:
		return "validator-by-cons"
	case 0x23:
		return "validator-power-index"
	case 0x31, 0x71:
		return "delegation"
	case 0x32, 0x33:
		return "unbonding"
	case 0x34, 0x35, 0x36:
		return "redelegation"
	case 0x37, 0x38, 0x39:
		return "unbonding-id"
	case 0x41:
		return "unbonding-queue"
	case 0x42:
		return "redelegation-queue"
	case 0x43:
		return "validator-queue"
	}
	return fmt.Sprintf("staking-0x%02x", p)
}

func distrKind(p byte) string {
	switch p {
	case 0x00:
		return "fee-pool"
	case 0x02:
		return "outstanding-rewards"
	case 0x03:
		return "withdraw-address"
	case 0x04:
		return "starting-info"
	case 0x05:
		return "historical-rewards"
	case 0x06:
		return "current-rewards"
	case 0x07:
		return "accumulated-commission"
	}
	return fmt.Sprintf("distribution-0x%02x", p)
}

type stateDiff struct {
	Kind   string `json:"kind"`
	Key    string `json:"key"`
	Native string `json:"native_twin"`
	Actual string `json:"actual"`
}

func hexOrAbsent(s string, ok bool) string {
	if !ok {
		return "-"
	}
	if len(s) > 96 {
		return fmt.Sprintf("%x…(%d bytes)", s[:96], len(s))
	}
	return fmt.Sprintf("%x", s)
}

// compareState compares the twin's staking / distribution / bank stores with the actual
// post-state. refund = (gasLimit - gasUsed) x price returned to the sender after execution.
// strict = byte-exact distribution store (used when the call is supposed to have done nothing);
// otherwise validator period counters are normalised away (they are bookkeeping of the F1
// algorithm: the pending reward of every delegation is compared instead).
func (w *world) compareState(twDump vh.Dump, post vh.Dump, sender common.Address, refund *big.Int, strict bool) []stateDiff {
	var out []stateDiff
	keys := map[string]bool{}
	for k := range twDump {
		keys[k] = true
	}
	for k := range post {
		s, _ := storeOf(k)
		if s == "staking" || s == "distribution" || s == "bank" {
			keys[k] = true
		}
	}
	cdc := w.c.App.AppCodec()
	for k := range keys {
		tv, tok := twDump[k]
		av, aok := post[k]
		if tok == aok && tv == av {
			continue
		}
		store, raw := storeOf(k)
		if len(raw) == 0 {
			continue
		}
		kind := ""
		switch store {
		case "staking":
			kind = "staking:" + stakingKind(raw[0])
		case "distribution":
			kind = "distribution:" + distrKind(raw[0])
			if !strict && tok && aok {
				switch raw[0] {
				case 0x05, 0x06:
					continue // period bookkeeping: covered by the pending-reward comparison
				case 0x04:
					var a, b distrtypes.DelegatorStartingInfo
					if cdc.Unmarshal([]byte(tv), &a) == nil && cdc.Unmarshal([]byte(av), &b) == nil && a.Stake.Equal(b.Stake) && a.Height == b.Height {
						continue
					}
				}
			}
			if !strict && raw[0] == 0x05 {
				continue // historical reward records are keyed by period number
			}
		case "bank":
			ch := vh.Change{Store: "bank", Key: raw}
			_, owner, ok := recordOwner(ch)
			if ok && (owner == sender || owner == feeCollector) {
				continue // judged below with the exactly known fee
			}
			who := "other-account"
			switch {
			case !ok:
				who = "supply-or-metadata"
			case w.modules[owner] != "":
				who = w.modules[owner]
			}
			kind = "bank:" + who
		}
		out = append(out, stateDiff{Kind: kind, Key: fmt.Sprintf("%s/%x", store, raw), Native: hexOrAbsent(tv, tok), Actual: hexOrAbsent(av, aok)})
	}
	// sender and fee collector: twin has gasLimit x price moved, the real run refunded the unused part
	wantSender := new(big.Int).Add(balanceIn(twDump, sender), refund)
	if got := balanceIn(post, sender); got.Cmp(wantSender) != 0 {
		out = append(out, stateDiff{Kind: "bank:tx-sender", Key: "balance " + sender.Hex(), Native: wantSender.String() + " (twin + refund of unused gas)", Actual: got.String()})
	}
	wantFC := new(big.Int).Sub(balanceIn(twDump, feeCollector), refund)
	if got := balanceIn(post, feeCollector); got.Cmp(wantFC) != 0 {
		out = append(out, stateDiff{Kind: "bank:fee-collector", Key: "balance fee collector", Native: wantFC.String() + " (twin - refund of unused gas)", Actual: got.String()})
	}
	sort.Slice(out, func(i, j int) bool { return out[i].Kind+out[i].Key < out[j].Kind+out[j].Key })
	return out
}

func compareRewards(native, actual map[string]string) []stateDiff {
	var out []stateDiff
	for k, v := range native {
		if a, ok := actual[k]; !ok || a != v {
			out = append(out, stateDiff{Kind: "distribution:pending-reward", Key: k, Native: v, Actual: actual[k]})
		}
	}
	for k, a := range actual {
		if _, ok := native[k]; !ok {
			out = append(out, stateDiff{Kind: "distribution:pending-reward", Key: k, Native: "-", Actual: a})
		}
	}
	sort.Slice(out, func(i, j int) bool { return out[i].Key < out[j].Key })
	return out
}

func (w *world) checkTx(ob *vh.ObservedBlock, i int, p *plan) {
	res := ob.Res.TxResults[i]
	switch p.Class {
	case "native":
		r := "ok"
		if res.Code != 0 {
			r = "failed"
		}
		st.add("native_cosmos_txs", p.Method+"|"+r, 1)
		w.run.Count("native_staking_txs_interleaved", 1)
		return
	case "view":
		w.checkViewTx(ob, i, p)
		return
	case "viewseq":
		w.checkViewSequence(ob, i, p)
		return
	case "op":
	default:
		return
	}
	run := w.run
	run.Eval(1)
	tw := p.twin
	rc, attrs := vh.ReceiptOf(res)
	if !ob.Reached[i] || tw == nil || tw.FeeErr != "" || ob.PostIsEndBlock[i] {
		run.Count("designated_tx_not_executed", 1)
		return
	}
	gasLimit := p.Tx.Gas()
	pre, post := ob.Pre[i].Dump, ob.Post[i].Dump
	diff := vh.Diff(pre, post)
	aborted := false
	if rc == nil {
		if len(diff) == 0 || res.Code == 0 {
			run.Count("designated_tx_rejected_by_ante", 1)
			return
		}
		// no receipt but the ante handler's effects stayed: the execution was aborted (a panic
		// below the EVM, recovered by baseapp). The whole gas limit is charged.
		aborted = true
		rc = &ethtypes.Receipt{Status: 0}
		attrs = map[string]string{"gasUsed": fmt.Sprint(gasLimit), "error": "aborted: " + firstLine(res.Log)}
		run.Count("designated_tx_aborted_by_panic", 1)
	}
	gasUsed := gasUsedOf(res, attrs, gasLimit)
	refund := new(big.Int).Mul(tw.Price, new(big.Int).SetUint64(gasLimit-gasUsed))
	actualOK := rc.Status == 1
	er := vh.EthResponse(res)
	vmErr := attrs["error"]
	if er != nil && er.VmError != "" {
		vmErr = er.VmError
	}
	cellKind := p.CallerKind
	sigTail := p.Method + ":caller=" + p.CallerKind

	witness := func(extra map[string]any) map[string]any {
		m := map[string]any{"world": w.label, "height": ob.Height, "index": i, "method": p.Method, "caller_kind": p.CallerKind, "amount_class": p.AmtClass,
			"tx_sender": p.Sender.Addr.Hex(), "tx_to": p.Tx.To().Hex(), "tx_gas": gasLimit, "tx_data": fmt.Sprintf("%x", p.Tx.Data()),
			"effective_price": tw.Price.String(), "receipt_status": rc.Status, "receipt_gas_used": gasUsed, "vm_error": vmErr,
			"twin_ops": tw.Ops, "twin_committed": tw.OK, "write_set": changeList(diff, 60), "staking_precompile": w.staking.Hex()}
		if er != nil {
			m["return_data"] = fmt.Sprintf("%x", er.Ret)
		}
		if p.Forge != "" {
			m["signed_message_class"] = p.Forge
		}
		if p.Desc != nil {
			m["plan"] = p.Desc
		}
		var ctxs []string
		cm := map[common.Address]bool{}
		p.Root.contexts(cm)
		for a := range cm {
			ctxs = append(ctxs, a.Hex())
		}
		sort.Strings(ctxs)
		m["immediate_callers"] = ctxs
		for k, v := range extra {
			m[k] = v
		}
		return m
	}

	// ---- outcome ----
	result := ""
	expectChange := false
	switch {
	case p.LowGas:
		result = "refused:gas-below-requirement"
		if actualOK {
			run.Violation("call-below-required-gas-succeeded:"+sigTail, w.label, witness(nil))
		}
	case tw.Noop:
		result = "nothing-to-withdraw"
		if actualOK {
			result = "nothing-to-withdraw:returned"
		} else {
			run.Count("withdraw_all_with_nothing_to_claim_reverted", 1)
		}
	case tw.OK && actualOK:
		result = "applied"
		expectChange = true
	case tw.OK && !actualOK:
		result = "VIOLATION:refused-though-native-applies"
		if strings.HasPrefix(p.Forge, "valid") {
			run.Violation("valid-signed-message-rejected:"+p.Forge, w.label, witness(nil))
		} else {
			run.Violation("precompile-failed-native-succeeds:"+sigTail, w.label, witness(nil))
		}
	case !tw.OK && actualOK:
		result = "VIOLATION:applied-though-native-refuses"
		switch {
		case strings.HasPrefix(tw.Rejected, "forged:"):
			run.Violation("forged-message-accepted:"+strings.TrimPrefix(tw.Rejected, "forged:"), w.label, witness(nil))
		case tw.Rejected != "":
			run.Violation("documented-refusal-not-enforced:"+tw.Rejected, w.label, witness(nil))
		default:
			run.Violation("precompile-succeeded-native-fails:"+sigTail, w.label, witness(nil))
		}
	default:
		result = "refused-like-native"
		if tw.Rejected != "" {
			result = "refused:" + tw.Rejected
		}
		if aborted {
			result = "aborted-like-native-panic"
		}
	}
	if p.Forge != "" {
		acc := "rejected"
		if actualOK {
			acc = "accepted"
		}
		st.add("signed_message_attempts_by_class", p.Forge+"|"+acc, 1)
		if p.Forge == otherDenomClass {
			run.Count("signed_messages_in_other_denomination", 1)
		} else if strings.HasPrefix(p.Forge, "valid") {
			run.Count("signed_messages_valid", 1)
			if actualOK {
				run.Count("signed_messages_valid_accepted", 1)
			}
		} else {
			run.Count("signed_messages_forged", 1)
			run.Distinct("forged_classes", p.Forge+"/"+p.CallerKind)
		}
	}
	st.add("ops_by_method_callerkind_result", p.Method+"|"+cellKind+"|"+result, 1)
	for _, op := range opsOf(p.Root) {
		if op.Action == "transfer" && op.Choice != "" && expectChange {
			st.add("transfer_validator_choice", op.Choice, 1)
		}
	}
	if p.AmtClass == "all-self-delegation" && expectChange {
		run.Count("validators_jailed_by_unbonding_self_delegation_through_precompile", 1)
	}
	run.Count("designated_ops_executed", 1)
	run.Distinct("caller_kinds", p.CallerKind)
	run.Distinct("methods", p.Method)
	amt := p.AmtClass
	if j := strings.IndexByte(amt, '/'); j >= 0 && p.Method != "transfer" {
		amt = amt[:j]
	}
	run.Nontrivial(p.Method + "|" + p.CallerKind + "|" + result + "|" + amt)

	// ---- state: twin vs actual ----
	var sd []stateDiff
	if !(actualOK && !expectChange && !tw.Noop) { // (an "applied though refused" outcome is already reported with its write set)
		base, baseRewards := tw.FeeOnly, tw.FeeOnlyRewards
		if expectChange {
			base, baseRewards = tw.Dump, tw.Rewards
		}
		sd = w.compareState(base, post, p.Sender.Addr, refund, !actualOK)
		if actual, ok := ob.Post[i].View.(map[string]string); ok {
			sd = append(sd, compareRewards(baseRewards, actual)...)
			run.Count("pending_reward_entries_compared", len(actual))
		}
	}
	run.Count("twin_comparisons", 1)
	if expectChange {
		run.Count("twin_comparisons_with_effect", 1)
		if tw.MultiDenomRewards {
			run.Count("twin_comparisons_paying_rewards_in_several_denominations", 1)
		}
	}
	if len(sd) > 0 {
		kinds := map[string]bool{}
		for _, d := range sd {
			kinds[d.Kind] = true
		}
		var ks []string
		for k := range kinds {
			ks = append(ks, k)
		}
		sort.Slice(ks, func(i, j int) bool {
			if a, b := kindRank(ks[i]), kindRank(ks[j]); a != b {
				return a < b
			}
			return ks[i] < ks[j]
		})
		prefix := "effect-differs-from-native:"
		if !actualOK {
			prefix = "failed-call-changed-state:"
		}
		if len(sd) > 40 {
			sd = sd[:40]
		}
		run.Violation(prefix+sigTail+":"+ks[0], w.label, witness(map[string]any{"differences": sd, "difference_kinds": ks}))
	}
	// other stores must not move at all (account records and EVM bookkeeping aside)
	for _, ch := range diff {
		switch ch.Store {
		case "staking", "distribution", "bank", "acc", "evm":
		default:
			run.Violation("unexpected-store-write:"+ch.Store+":"+p.Method, w.label, witness(nil))
		}
	}

	// ---- nobody but the immediate caller(s) ----
	allowed := map[common.Address]bool{}
	p.Root.contexts(allowed)
	var ops []*nativeOp
	p.Root.ops(&ops)
	scanned := 0
	for k := range post {
		if isRecordKey(k) {
			scanned++
		}
	}
	run.Count("records_scanned", scanned)
	for _, ch := range diff {
		kind, owner, ok := recordOwner(ch)
		if kind == "" {
			continue
		}
		bad := ""
		switch kind {
		case "balance", "balance-index":
			if !ok || !(allowed[owner] || owner == p.Sender.Addr || w.modules[owner] != "" || tw.WithdrawTo[owner]) {
				bad = "balance"
			}
		case "withdraw-address":
			bad = kind
		default:
			if !ok || !allowed[owner] {
				bad = kind
			}
		}
		if bad != "" {
			role := "third-party"
			if owner == p.Sender.Addr {
				role = "tx-sender-who-is-not-the-caller"
			}
			run.Violation("third-party-record-changed:"+sigTail+":"+bad, w.label, witness(map[string]any{"record": shortChange(ch), "owner": owner.Hex(), "owner_role": role}))
		}
	}

	// ---- logs ----
	logs, unknown := w.decodeLogs(rc)
	if unknown > 0 {
		run.Violation("unknown-log-from-staking-precompile:"+p.Method, w.label, witness(nil))
	}
	want := tw.Logs
	if !actualOK || !tw.OK {
		want = nil
	}
	gk, wk := logKeys(logs), logKeys(want)
	run.Count("logs_compared", len(gk))
	run.Count("receipts_with_logs_compared", 1)
	for _, l := range logs {
		run.Distinct("log_kinds", l.Event+"/"+p.Method)
	}
	if strings.Join(sortedCopy(gk), ";") != strings.Join(sortedCopy(wk), ";") {
		run.Violation("log-event-mismatch:"+p.Method, w.label, witness(map[string]any{"receipt_logs": gk, "logs_promised_for_native_module_events": wk}))
	}
	// against the module events the transaction itself reports
	if actualOK {
		evs := abciModEvents(res)
		if len(evs) > 0 || len(logs) > 0 {
			var ek []string
			for _, l := range logsOf(evs, common.Address{}) {
				ek = append(ek, l.key())
			}
			// redelegate events carry no delegator: blank it on both sides where the event had none
			blank := func(keys []string) []string {
				var out []string
				for _, k := range keys {
					f := strings.Split(k, "|")
					f[1] = ""
					out = append(out, strings.Join(f, "|"))
				}
				return out
			}
			full := strings.Join(gk, ";") == strings.Join(ek, ";")
			if !full && strings.Join(blank(gk), ";") != strings.Join(blank(ek), ";") {
				run.Violation("log-differs-from-emitted-module-events:"+p.Method, w.label, witness(map[string]any{"receipt_logs": gk, "logs_promised_for_emitted_module_events": ek}))
			}
			run.Count("logs_compared_with_emitted_events", len(gk))
		}
	}
	if expectChange && w.ops%17 == 0 {
		run.Sample(map[string]any{"method": p.Method, "caller_kind": p.CallerKind, "amount_class": p.AmtClass, "result": result, "twin_ops": tw.Ops,
			"receipt_logs": gk, "writes": len(diff), "gas_used": gasUsed})
	}
}

func (w *world) checkViewTx(ob *vh.ObservedBlock, i int, p *plan) {
	run := w.run
	res := ob.Res.TxResults[i]
	rc, _ := vh.ReceiptOf(res)
	if !ob.Reached[i] || !vh.HasEvent(res, "ethereum_tx") || rc == nil || p.twin == nil || p.twin.View == nil {
		run.Count("view_tx_not_executed", 1)
		return
	}
	run.Eval(1)
	er := vh.EthResponse(res)
	var ret []byte
	if er != nil {
		ret = er.Ret
	}
	why, det := compareView(p.View, p.twin.View, rc.Status == 1, ret)
	run.Count("views_compared", 1)
	outcome := "answered"
	if rc.Status != 1 {
		outcome = "refused"
	}
	st.add("views_by_method_outcome", p.View.Method+"|"+outcome, 1)
	st.add("views_by_route_outcome", p.View.Route+"|"+outcome, 1)
	run.Nontrivial("view:" + p.View.Method + "|" + p.View.Route + "|" + outcome)
	if why != "" {
		det["world"], det["height"], det["tx_sender"] = w.label, ob.Height, p.Sender.Addr.Hex()
		run.Violation("view-differs-from-native-query:"+p.View.Method+":"+why, w.label, det)
	}
	if !ob.PostIsEndBlock[i] {
		for _, ch := range vh.Diff(ob.Pre[i].Dump, ob.Post[i].Dump) {
			if ch.Store != "acc" && ch.Store != "bank" && ch.Store != "evm" {
				st.add("view_tx_store_writes", p.View.Method+"|"+ch.Store, 1)
			}
		}
	}
}

// ethcallViews compares view methods through eth_call with the native queries on the committed state.
func (w *world) ethcallViews(n int) {
	for k := 0; k < n; k++ {
		v := &viewPlan{Method: vh.Pick(w.r, viewMethods), Route: "ethcall"}
		v.Acct, v.Val = w.randViewTarget()
		if v.Method != "delegationOf" && v.Method != "rewardOf" {
			v.Val = nil
		}
		v.Input = v.pack()
		to := w.staking
		if w.r.Chance(1, 3) {
			p := vh.Pick(w.r, w.puppets)
			to, v.Route = p.Addr, "ethcall:"+p.Kind
		}
		ok, ret, _ := w.ethCall(w.relayer.Addr, to, v.Input)
		exp := w.nativeView(w.c.QueryCtx(), v)
		why, det := compareView(v, exp, ok, ret)
		w.run.Eval(1)
		w.run.Count("views_compared", 1)
		w.ops++
		outcome := "answered"
		if !ok {
			outcome = "refused"
		}
		st.add("views_by_method_outcome", v.Method+"|"+outcome, 1)
		st.add("views_by_route_outcome", v.Route+"|"+outcome, 1)
		w.run.Nontrivial("view:" + v.Method + "|" + v.Route + "|" + outcome)
		if why != "" {
			det["world"], det["height"] = w.label, w.c.Height
			w.run.Violation("view-differs-from-native-query:"+v.Method+":"+why, w.label, det)
		}
	}
}
