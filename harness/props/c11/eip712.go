package c11

import (
	"fmt"
	"math/big"
	"strings"

	"github.com/ethereum/go-ethereum/common"
	cmath "github.com/ethereum/go-ethereum/common/math"
	"github.com/ethereum/go-ethereum/crypto"
	"github.com/ethereum/go-ethereum/signer/core/apitypes"

	"github.com/EscanBE/evermint/v12/constants"
	cpcabi "github.com/EscanBE/evermint/v12/x/cpc/abi"
	cpctypes "github.com/EscanBE/evermint/v12/x/cpc/types"

	"verifharness/vh"
)

// ---------------------------------------------------------------------------------------
// EIP-712 typed data of the staking precompile, rebuilt here from the published schema
// (x/cpc/abi/staking.sol structs + x/cpc/eip712/domain.go) and hashed with go-ethereum's
// signer/core/apitypes. Nothing of x/cpc/eip712 is called: the monitor's signatures and its
// expectation "who is the recovered signer" are independent of the code under test.
// ---------------------------------------------------------------------------------------

// stakingMsg is the ABI tuple StakingMessage.
type stakingMsg struct {
	Action       string
	Delegator    common.Address
	Validator    string
	Amount       *big.Int
	Denom        string
	OldValidator string
}

// withdrawMsg is the ABI tuple WithdrawRewardMessage.
type withdrawMsg struct {
	Delegator     common.Address
	FromValidator string
}

func (m stakingMsg) clone() stakingMsg {
	c := m
	if m.Amount != nil {
		c.Amount = new(big.Int).Set(m.Amount)
	}
	return c
}

var domainTypes = []apitypes.Type{
	{Name: "name", Type: "string"},
	{Name: "version", Type: "string"},
	{Name: "chainId", Type: "uint256"},
	{Name: "verifyingContract", Type: "address"},
	{Name: "salt", Type: "string"},
}

func domainFor(chainID *big.Int, verifying common.Address) apitypes.TypedDataDomain {
	return apitypes.TypedDataDomain{
		Name:              strings.ToUpper(constants.ApplicationName),
		Version:           "1.0.0",
		ChainId:           (*cmath.HexOrDecimal256)(new(big.Int).Set(chainID)),
		VerifyingContract: verifying.Hex(),
		Salt:              fmt.Sprintf("0x%x", verifying.Bytes()[19]),
	}
}

func stakingTypedData(m stakingMsg, chainID *big.Int, verifying common.Address) apitypes.TypedData {
	amt := m.Amount
	if amt == nil {
		amt = new(big.Int)
	}
	return apitypes.TypedData{
		Types: apitypes.Types{
			"EIP712Domain": domainTypes,
			"StakingMessage": []apitypes.Type{
				{Name: "action", Type: "string"},
				{Name: "delegator", Type: "address"},
				{Name: "validator", Type: "string"},
				{Name: "amount", Type: "uint256"},
				{Name: "denom", Type: "string"},
				{Name: "oldValidator", Type: "string"},
			},
		},
		PrimaryType: "StakingMessage",
		Domain:      domainFor(chainID, verifying),
		Message: apitypes.TypedDataMessage{
			"action":       m.Action,
			"delegator":    m.Delegator.Hex(),
			"validator":    m.Validator,
			"amount":       (*cmath.HexOrDecimal256)(new(big.Int).Set(amt)),
			"denom":        m.Denom,
			"oldValidator": m.OldValidator,
		},
	}
}

func withdrawTypedData(m withdrawMsg, chainID *big.Int, verifying common.Address) apitypes.TypedData {
	return apitypes.TypedData{
		Types: apitypes.Types{
			"EIP712Domain": domainTypes,
			"WithdrawRewardMessage": []apitypes.Type{
				{Name: "delegator", Type: "address"},
				{Name: "fromValidator", Type: "string"},
			},
		},
		PrimaryType: "WithdrawRewardMessage",
		Domain:      domainFor(chainID, verifying),
		Message: apitypes.TypedDataMessage{
			"delegator":     m.Delegator.Hex(),
			"fromValidator": m.FromValidator,
		},
	}
}

func typedHash(td apitypes.TypedData) []byte {
	h, _, err := apitypes.TypedDataAndHash(td)
	if err != nil {
		panic(fmt.Errorf("typed data hash: %w", err))
	}
	return h
}

// thisChain is the EIP-155 id the EVM of the chains under test reports.
func thisChain() *big.Int { return big.NewInt(vh.EIP155ID) }

func stakingHash(m stakingMsg) []byte {
	return typedHash(stakingTypedData(m, thisChain(), cpctypes.CpcStakingFixedAddress))
}

func withdrawHash(m withdrawMsg) []byte {
	return typedHash(withdrawTypedData(m, thisChain(), cpctypes.CpcStakingFixedAddress))
}

// sig is an (r, s, v) triple as the ABI wants it.
type sig struct {
	R, S [32]byte
	V    uint8
}

func signHash(a *vh.Acct, hash []byte) sig {
	bz, err := crypto.Sign(hash, a.Key)
	if err != nil {
		panic(err)
	}
	var s sig
	copy(s.R[:], bz[:32])
	copy(s.S[:], bz[32:64])
	s.V = bz[64] + 27
	return s
}

// recoverSigner is the monitor's own notion of "the EIP-712 signer recovered": plain
// secp256k1 public-key recovery over the typed-data hash; v is a recovery id given either
// as 27/28 or as 0/1 (both conventions are in use); anything else recovers nobody.
func recoverSigner(hash []byte, s sig) (common.Address, bool) {
	v := s.V
	switch v {
	case 27, 28:
		v -= 27
	case 0, 1:
	default:
		return common.Address{}, false
	}
	bz := make([]byte, 65)
	copy(bz[:32], s.R[:])
	copy(bz[32:64], s.S[:])
	bz[64] = v
	pub, err := crypto.SigToPub(hash, bz)
	if err != nil || pub == nil {
		return common.Address{}, false
	}
	return crypto.PubkeyToAddress(*pub), true
}

var secpN = crypto.S256().Params().N

// malleate returns (r, n-s, v) or (r, n-s, v^1).
func malleate(s sig, flipV bool) sig {
	out := s
	ns := new(big.Int).Sub(secpN, new(big.Int).SetBytes(s.S[:]))
	copy(out.S[:], common.LeftPadBytes(ns.Bytes(), 32))
	if flipV {
		out.V = flipVByte(s.V)
	}
	return out
}

func flipVByte(v uint8) uint8 {
	switch v {
	case 27:
		return 28
	case 28:
		return 27
	case 0:
		return 1
	case 1:
		return 0
	}
	return v
}

func packStakingMsg(m stakingMsg, s sig) []byte {
	bz, err := cpcabi.StakingCpcInfo.ABI.Pack("delegateByActionMessage", m, s.R, s.S, s.V)
	if err != nil {
		panic(err)
	}
	return bz
}

func packWithdrawMsg(m withdrawMsg, s sig) []byte {
	bz, err := cpcabi.StakingCpcInfo.ABI.Pack("withdrawRewardsByMessage", m, s.R, s.S, s.V)
	if err != nil {
		panic(err)
	}
	return bz
}
