package c11

import (
	"bytes"
	"fmt"
	"math/big"
	"strings"

	sdkmath "cosmossdk.io/math"
	sdk "github.com/cosmos/cosmos-sdk/types"
	banktypes "github.com/cosmos/cosmos-sdk/x/bank/types"
	distrtypes "github.com/cosmos/cosmos-sdk/x/distribution/types"
	stakingtypes "github.com/cosmos/cosmos-sdk/x/staking/types"
	"github.com/ethereum/go-ethereum/common"
	"github.com/ethereum/go-ethereum/crypto"

	cpcabi "github.com/EscanBE/evermint/v12/x/cpc/abi"

	"verifharness/vh"
)

const opGas = 3_000_000

var (
	oneEther = vh.Ether(1)
	maxU256  = new(big.Int).Sub(new(big.Int).Lsh(big.NewInt(1), 256), big.NewInt(1))
)

func (w *world) randEther(lo, hi float64) *big.Int {
	// lo..hi ether with wei granularity
	span := new(big.Int).Sub(etherF(hi), etherF(lo))
	if span.Sign() <= 0 {
		return etherF(lo)
	}
	return new(big.Int).Add(etherF(lo), w.r.BigBelow(span))
}

func etherF(f float64) *big.Int {
	x := new(big.Float).Mul(big.NewFloat(f), new(big.Float).SetInt(oneEther))
	i, _ := x.Int(nil)
	return i
}

func (w *world) freeEOA(includeOthers bool) *vh.Acct {
	var c []*vh.Acct
	for _, a := range w.eoas {
		if !w.busy(a) {
			c = append(c, a)
		}
	}
	if includeOthers && !w.busy(w.relayer) {
		c = append(c, w.relayer)
	}
	if len(c) == 0 {
		return nil
	}
	return vh.Pick(w.r, c)
}

func (w *world) randVal() sdk.ValAddress { return vh.Pick(w.r, w.vals) }

func (w *world) unknownVal() sdk.ValAddress { return sdk.ValAddress(w.r.Bytes(20)) }

// buildAction chooses a native action for delegator (avail = what it can spend at the time
// the precompile runs, as far as the generator can tell from the committed state).
func (w *world) buildAction(delegator common.Address, avail *big.Int, allowAll bool) (*nativeOp, string) {
	r := w.r
	op := &nativeOp{Delegator: delegator}
	dels := w.delegationsOf(delegator)
	amount := func(total *big.Int, partName string) (*big.Int, string) {
		switch k := r.Intn(20); {
		case k == 0:
			return new(big.Int), "zero"
		case k == 1:
			return new(big.Int).Set(maxU256), "huge"
		case k == 2:
			return new(big.Int).Add(total, big.NewInt(1)), "over"
		case k == 3 || k == 4:
			return new(big.Int).Set(total), "all"
		case k == 5 || k == 6:
			return big.NewInt(int64(1 + r.Intn(999))), "tiny"
		case k == 7:
			return new(big.Int).Add(big.NewInt(1000), r.BigBelow(big.NewInt(1_000_000_000_000_000))), "dust"
		default:
			if total.Sign() <= 0 {
				return w.randEther(0.01, 5), partName
			}
			// a random part of what is there
			d := big.NewInt(int64(2 + r.Intn(30)))
			v := new(big.Int).Div(total, d)
			if v.Sign() == 0 {
				v = big.NewInt(1)
			}
			return v, partName
		}
	}
	k := r.Intn(100)
	switch {
	case k < 30 || (len(dels) == 0 && k < 70):
		op.Action = "delegate"
		op.Val = w.randVal()
		if r.Chance(1, 25) {
			op.Val = w.unknownVal()
		}
		var cls string
		op.Amount, cls = amount(avail, "normal")
		if cls == "normal" {
			cap := w.randEther(0.01, 40)
			if op.Amount.Cmp(cap) > 0 {
				op.Amount = cap
			}
		}
		return op, cls
	case k < 50:
		op.Action = "undelegate"
		if len(dels) > 0 && !r.Chance(1, 12) {
			d := vh.Pick(r, dels)
			op.Val = d.Val
			var cls string
			op.Amount, cls = amount(d.Tokens, "part")
			return op, cls
		}
		op.Val = w.randVal()
		if r.Chance(1, 3) {
			op.Val = w.unknownVal()
		}
		op.Amount = w.randEther(0.01, 2)
		return op, "no-delegation"
	case k < 66:
		op.Action = "redelegate"
		op.Val = w.randVal() // destination
		if r.Chance(1, 20) {
			op.Val = w.unknownVal()
		}
		if len(dels) > 0 && !r.Chance(1, 12) {
			d := vh.Pick(r, dels)
			op.Src = d.Val
			var cls string
			op.Amount, cls = amount(d.Tokens, "part")
			if op.Src.Equals(op.Val) {
				cls = "self"
			}
			return op, cls
		}
		op.Src = w.randVal()
		op.Amount = w.randEther(0.01, 2)
		return op, "no-delegation"
	case k < 80:
		op.Action = "withdrawReward"
		if len(dels) > 0 && !r.Chance(1, 5) {
			op.Val = vh.Pick(r, dels).Val
			return op, "delegated"
		}
		op.Val = w.randVal()
		if r.Chance(1, 3) {
			op.Val = w.unknownVal()
			return op, "unknown-validator"
		}
		return op, "maybe-not-delegated"
	case k < 90 && allowAll:
		op.Action = "withdrawRewards"
		return op, fmt.Sprintf("delegations-%d", min(len(dels), 3))
	default:
		op.Action = "transfer"
		op.To = delegator
		var cls string
		op.Amount, cls = amount(avail, "normal")
		if cls == "normal" {
			cap := w.randEther(0.01, 25)
			if op.Amount.Cmp(cap) > 0 {
				op.Amount = cap
			}
		}
		// "compound everything": more than the liquid balance, covered only together with the pending rewards that the
		// call withdraws first
		if len(dels) > 0 && r.Chance(1, 3) {
			if pend := totalBondRewards(w.pendingRewards(infinite(w.c.QueryCtx())), delegator); pend.Cmp(w.minWithdraw) >= 0 {
				op.Amount = new(big.Int).Add(avail, new(big.Int).Div(pend, big.NewInt(int64(2+r.Intn(3)))))
				cls = "liquid-plus-part-of-pending-rewards"
			}
		}
		switch r.Intn(12) {
		case 0:
			op.To = vh.Pick(r, w.eoas).Addr
			if op.To != delegator {
				op.MustReject = "transfer-receiver-not-self"
				cls = "to-other"
			}
		case 1:
			op.To = common.Address{}
			op.MustReject = "transfer-receiver-not-self"
			cls = "to-zero"
		}
		cls += fmt.Sprintf("/delegations-%d", min(len(dels), 3))
		return op, cls
	}
}

// encodeDirect produces the calldata of the plain (unsigned) method for an action.
func encodeDirect(op *nativeOp) {
	amt := op.Amount
	if amt == nil {
		amt = new(big.Int)
	}
	switch op.Action {
	case "delegate":
		op.Method, op.Input = "delegate", mustPack("delegate", common.BytesToAddress(op.Val), amt)
	case "undelegate":
		op.Method, op.Input = "undelegate", mustPack("undelegate", common.BytesToAddress(op.Val), amt)
	case "redelegate":
		op.Method, op.Input = "redelegate", mustPack("redelegate", common.BytesToAddress(op.Src), common.BytesToAddress(op.Val), amt)
	case "withdrawReward":
		op.Method, op.Input = "withdrawReward", mustPack("withdrawReward", common.BytesToAddress(op.Val))
	case "withdrawRewards":
		op.Method, op.Input = "withdrawRewards", mustPack("withdrawRewards")
	case "transfer":
		op.Method, op.Input = "transfer", mustPack("transfer", op.To, amt)
	default:
		panic("encodeDirect: " + op.Action)
	}
}

// planOp generates one designated state-changing call of the precompile.
func (w *world) planOp() *plan {
	r := w.r
	switch k := r.Intn(100); {
	case k < 20:
		return w.planSigned()
	case k < 28:
		return w.planTree()
	}
	sender := w.freeEOA(false)
	if sender == nil {
		return nil
	}
	var to common.Address
	delegator := sender.Addr
	kind := "EOA"
	if r.Chance(2, 5) {
		var ps []*puppet
		for _, p := range w.puppets {
			if !p.Static {
				ps = append(ps, p)
			}
		}
		p := vh.Pick(r, ps)
		to, delegator, kind = p.Addr, p.Ctx, p.Kind
		if r.Chance(1, 3) && !w.busy(w.relayer) {
			sender = w.relayer
		}
	} else {
		to = w.staking
		// now and then a validator operator acts for its own self-delegation
		if r.Chance(1, 12) {
			v := vh.Pick(r, w.c.Vals)
			if !w.busy(v.Acct) {
				sender, delegator = v.Acct, v.Acct.Addr
			}
		}
	}
	gas := uint64(opGas)
	low := r.Chance(1, 60)
	if low {
		gas = 100_000
	}
	pl := w.ethPlanFn(sender, &to, nil, gas, func(maxFee *big.Int) ([]byte, *plan) {
		avail := w.c.Balance(delegator)
		if delegator == sender.Addr {
			avail = new(big.Int).Sub(avail, maxFee)
			if avail.Sign() < 0 {
				avail = new(big.Int)
			}
		}
		op, cls := w.buildAction(delegator, avail, true)
		op = w.guardOperator(op, &cls)
		encodeDirect(op)
		p := &plan{Class: "op", Method: op.Method, CallerKind: kind, AmtClass: cls, LowGas: low,
			Root: &frame{Ctx: delegator, Steps: []fstep{{Op: op, OnFail: "propagate"}}}}
		return op.Input, p
	})
	return pl
}

// guardOperator keeps validator operators from unbonding their whole self-delegation more
// than once per world (one jailed validator exercises the non-bonded paths; more would
// empty the validator set).
func (w *world) guardOperator(op *nativeOp, cls *string) *nativeOp {
	for _, v := range w.c.Vals {
		if v.Acct.Addr != op.Delegator {
			continue
		}
		if op.Action == "undelegate" || op.Action == "redelegate" {
			src := op.Val
			if op.Action == "redelegate" {
				src = op.Src
			}
			if src.Equals(v.Oper) && (*cls == "all" || *cls == "over" || *cls == "huge") {
				if w.jailed || len(w.vals) < 4 {
					op.Amount = big.NewInt(12345)
					*cls = "tiny"
				} else {
					w.jailed = true
					*cls = "all-self-delegation"
				}
			}
		}
	}
	return op
}

// ethPlanFn chooses the fee first, lets build produce the payload knowing gasLimit x price, then signs.
func (w *world) ethPlanFn(s *vh.Acct, to *common.Address, value *big.Int, gas uint64, build func(maxFee *big.Int) ([]byte, *plan)) *plan {
	base := w.c.BaseFee()
	mult := int64(vh.Pick(w.r, []int{2, 2, 3, 5, 20, 60}))
	price := new(big.Int).Mul(base, big.NewInt(mult))
	if price.Sign() == 0 {
		price = big.NewInt(mult)
	}
	dyn := w.r.Chance(1, 4)
	tip := new(big.Int).Div(price, big.NewInt(int64(1+w.r.Intn(4))))
	eff := price
	if dyn {
		eff = new(big.Int).Add(base, tip)
		if eff.Cmp(price) > 0 {
			eff = price
		}
	}
	maxFee := new(big.Int).Mul(eff, new(big.Int).SetUint64(gas))
	data, p := build(maxFee)
	if p == nil {
		return nil
	}
	n := w.nonce(s)
	p.Sender = s
	if dyn {
		p.Bz, p.Tx = w.c.EthTx(s, vh.DynTx(n, to, value, gas, price, tip, data, nil))
	} else {
		p.Bz, p.Tx = w.c.EthTx(s, vh.LegacyTx(n, to, value, gas, price, data))
	}
	return p
}

// ---- signed-message variants and the forgery generator ----

var forgedClasses = []string{
	"relay-by-other-eoa", "relay-by-contract", "signed-by-other-key", "other-chain-id", "other-verifying-contract",
	"perturbed-validator", "perturbed-amount", "perturbed-action", "perturbed-delegator-to-contract", "contract-delegator-signed-by-eoa",
	"malleated-s-same-v", "wrong-v-flipped", "wrong-v-out-of-range", "truncated", "zero-signature",
	// the caller signs, with its OWN key, a message that names somebody else as delegator and submits it itself
	"caller-signs-for-other-delegator",
	// not a forgery: the caller's own, correctly signed message names a denomination other than the bond
	// denomination. The native message with that coin is what decides (x/staking refuses it).
	otherDenomClass, otherDenomClass,
}

const otherDenomClass = "own-message-in-other-denomination"

var validClasses = []string{"valid", "valid", "valid", "valid-v-0-1", "valid-malleated-s-flipped-v"}

// The property demands that the recovered signer be the delegator; it does not demand
// canonical (low-s) signatures or a particular encoding of v. (r, n-s, v^1) recovers the same
// key as (r, s, v), so such a signature is judged valid here. Both are counted separately in
// the evidence (signed_message_attempts_by_class).

func (w *world) planSigned() *plan {
	r := w.r
	signer := w.freeEOA(false)
	if signer == nil {
		return nil
	}
	class := vh.Pick(r, validClasses)
	if r.Chance(3, 5) {
		class = vh.Pick(r, forgedClasses)
	}
	sender := signer
	to := w.staking
	caller := signer.Addr
	kind := "EOA"
	var relay *puppet
	switch class {
	case "relay-by-other-eoa":
		if w.busy(w.relayer) {
			class = "signed-by-other-key"
		} else {
			sender, caller = w.relayer, w.relayer.Addr
			if r.Bool() { // another staking EOA relays
				if o := w.freeEOA(false); o != nil && o != signer {
					sender, caller = o, o.Addr
				}
			}
		}
	case "relay-by-contract", "perturbed-delegator-to-contract", "contract-delegator-signed-by-eoa":
		var ps []*puppet
		for _, p := range w.puppets {
			if !p.Static {
				ps = append(ps, p)
			}
		}
		relay = vh.Pick(r, ps)
		to, caller, kind = relay.Addr, relay.Ctx, relay.Kind
	}
	withdraw := r.Chance(1, 4)
	if withdraw && (class == "perturbed-amount" || class == "perturbed-action" || class == otherDenomClass) {
		withdraw = false
	}
	other := w.relayer
	if cands := w.eoas; len(cands) > 1 {
		for {
			other = vh.Pick(r, cands)
			if other != signer {
				break
			}
		}
	}
	if class == "caller-signs-for-other-delegator" {
		if other == signer || w.busy(other) {
			class = "signed-by-other-key"
		} else {
			sender, caller = other, other.Addr // the attacker sends the transaction; the message still names `signer`
		}
	}
	return w.ethPlanFn(sender, &to, nil, opGas, func(maxFee *big.Int) ([]byte, *plan) {
		avail := new(big.Int).Sub(w.c.Balance(signer.Addr), maxFee)
		if avail.Sign() < 0 {
			avail = new(big.Int)
		}
		var op *nativeOp
		var cls string
		var input []byte
		var recovered common.Address
		var recOK bool
		var submittedDelegator common.Address
		mutateSig := func(s sig, hashSigned []byte) sig {
			switch class {
			case "valid-v-0-1":
				s.V -= 27
			case "valid-malleated-s-flipped-v":
				s = malleate(s, true)
			case "signed-by-other-key", "caller-signs-for-other-delegator":
				s = signHash(other, hashSigned)
			case "malleated-s-same-v":
				s = malleate(s, false)
			case "wrong-v-flipped":
				s.V = flipVByte(s.V)
			case "wrong-v-out-of-range":
				s.V = uint8(vh.Pick(r, []int{2, 3, 26, 29, 35, 255}))
			case "zero-signature":
				s.R, s.S = [32]byte{}, [32]byte{}
			}
			return s
		}
		chain := thisChain()
		verifying := w.staking
		switch class {
		case "other-chain-id":
			chain = big.NewInt(int64(vh.Pick(r, []int{1, 9000, 9001, int(vh.EIP155ID) + 1, int(vh.EIP155ID) - 1, 1 + r.Intn(1_000_000)})))
			if chain.Cmp(thisChain()) == 0 {
				chain = big.NewInt(1)
			}
		case "other-verifying-contract":
			verifying = vh.Pick(r, []common.Address{w.puppets[0].Addr, {}, crypto.CreateAddress(w.staking, 0)})
		}
		if withdraw {
			m := withdrawMsg{Delegator: signer.Addr, FromValidator: "all"}
			op = &nativeOp{Method: "withdrawRewardsByMessage", Action: "withdrawRewards", Delegator: signer.Addr}
			cls = "all"
			if r.Chance(2, 3) {
				dels := w.delegationsOf(signer.Addr)
				v := w.randVal()
				cls = "maybe-not-delegated"
				if len(dels) > 0 && !r.Chance(1, 5) {
					v, cls = vh.Pick(r, dels).Val, "delegated"
				}
				m.FromValidator = v.String()
				op.Action, op.Val = "withdrawReward", v
			}
			signed := m
			switch class {
			case "perturbed-validator":
				signed.FromValidator = w.unknownVal().String()
				if m.FromValidator == "all" {
					signed.FromValidator = w.randVal().String()
				}
			case "perturbed-delegator-to-contract":
				m.Delegator = caller // submitted message names the contract; the EOA signed its own
				op.Delegator = caller
			case "contract-delegator-signed-by-eoa":
				m.Delegator = caller // the message names the contract and the EOA signs exactly that
				signed.Delegator = caller
				op.Delegator = caller
			}
			h := typedHash(withdrawTypedData(signed, chain, verifying))
			s := mutateSig(signHash(signer, h), h)
			input = packWithdrawMsg(m, s)
			submittedDelegator = m.Delegator
			recovered, recOK = recoverSigner(withdrawHash(m), s)
		} else {
			var base *nativeOp
			for {
				base, cls = w.buildAction(signer.Addr, avail, false)
				if base.Action == "delegate" || base.Action == "undelegate" || base.Action == "redelegate" {
					break
				}
			}
			m := stakingMsg{Delegator: signer.Addr, Validator: base.Val.String(), Amount: base.Amount, Denom: vh.Denom, OldValidator: "-"}
			switch base.Action {
			case "delegate":
				m.Action = "Delegate"
			case "undelegate":
				m.Action = "Undelegate"
			case "redelegate":
				m.Action = "Redelegate"
				m.OldValidator = base.Src.String()
			}
			op = base
			op.Method = "delegateByActionMessage"
			if class == otherDenomClass {
				m.Denom = vh.Pick(r, []string{vh.SecondDenom, "stake", "uatom", "ibc/27394FB092D2ECCD56123C74F36E4C1F926001CEADA9CA97EA622B25F41E5EB2", "WEI", "weii"})
				op.Denom = m.Denom
			}
			signed := m.clone()
			switch class {
			case "perturbed-validator":
				for signed.Validator == m.Validator {
					signed.Validator = w.randVal().String()
				}
			case "perturbed-amount":
				signed.Amount = new(big.Int).Add(m.Amount, big.NewInt(int64(1+r.Intn(1000))))
				if signed.Amount.Cmp(maxU256) > 0 {
					signed.Amount = new(big.Int).Sub(m.Amount, big.NewInt(int64(1+r.Intn(1000))))
				}
			case "perturbed-action":
				// the victim signed an undelegation; the submitted message delegates (or vice versa)
				if m.Action == "Delegate" {
					signed.Action = "Undelegate"
				} else if m.Action == "Undelegate" {
					signed.Action = "Delegate"
				} else {
					signed.Action, signed.OldValidator = "Delegate", "-"
				}
			case "perturbed-delegator-to-contract":
				m.Delegator = caller
				op.Delegator = caller
			case "contract-delegator-signed-by-eoa":
				m.Delegator = caller
				signed.Delegator = caller
				op.Delegator = caller
			}
			h := typedHash(stakingTypedData(signed, chain, verifying))
			s := mutateSig(signHash(signer, h), h)
			input = packStakingMsg(m, s)
			submittedDelegator = m.Delegator
			recovered, recOK = recoverSigner(stakingHash(m), s)
		}
		if class == "truncated" {
			full := input
			cut := 4 + r.Intn(len(input)-4)
			if r.Chance(1, 8) {
				cut = r.Intn(4)
			}
			input = full[:cut]
			stillValid := false
			if cut >= 4 {
				// a cut inside the zero padding of the last string leaves a payload that a standard ABI
				// decoder still reads as the very same message: that is no forgery
				meth := cpcabi.StakingCpcInfo.ABI.Methods[op.Method]
				if vals, err := meth.Inputs.Unpack(input[4:]); err == nil {
					if re, err := meth.Inputs.Pack(vals...); err == nil && bytes.Equal(re, full[4:]) {
						stillValid = true
					}
				}
			}
			if stillValid {
				class = "valid-unpadded-tail"
			} else {
				recOK = false
			}
		}
		// the monitor's own judgement, from the property text: delegator == immediate caller == recovered signer
		accept := recOK && recovered == submittedDelegator && submittedDelegator == caller
		forged := !strings.HasPrefix(class, "valid") && class != otherDenomClass
		if forged == accept {
			panic(fmt.Sprintf("c11 generator: class %s but independent verdict accept=%v (recovered %s delegator %s caller %s)", class, accept, recovered.Hex(), submittedDelegator.Hex(), caller.Hex()))
		}
		if !accept {
			op.MustReject = "forged:" + class
		}
		op.Input = input
		frameCtx := caller
		op.Delegator = submittedDelegator
		if !accept {
			// whoever it names: nobody's records may move. Keep the named delegator for the report only.
		}
		p := &plan{Class: "op", Method: op.Method, CallerKind: kind, AmtClass: cls, Forge: class,
			Root: &frame{Ctx: frameCtx, Steps: []fstep{{Op: op, OnFail: "propagate"}}}}
		return input, p
	})
}

// ---- call trees ----

type treeCtx struct {
	addr      common.Address
	delegated map[string]*big.Int // validator (bech32) -> delegated so far inside this transaction
}

func (w *world) planTree() *plan {
	r := w.r
	sender := w.freeEOA(true)
	if sender == nil || w.busy(w.deployer) {
		return nil
	}
	// abstract shape first (addresses are assigned post-order, children before parents)
	type protoStep struct {
		child *vh.Node
		steps int // ext ops of the child
	}
	root := &vh.Node{Name: "root", End: "stop"}
	if r.Chance(1, 10) {
		root.End = "revert"
	}
	nSteps := 2 + r.Intn(2)
	shape := make([]*protoStep, nSteps)
	for i := range shape {
		if r.Chance(3, 10) {
			ch := &vh.Node{Name: fmt.Sprintf("child%d", i), Kind: vh.Pick(r, []vh.CallKind{vh.CALL, vh.CALL, vh.DELEGATECALL, vh.CALLCODE}),
				OnFail: "ignore", End: "stop", Gas: 3_000_000}
			if r.Chance(3, 10) {
				ch.End = "revert"
			}
			if r.Chance(1, 5) {
				ch.OnFail = "propagate"
			}
			if ch.Kind == vh.CALL && r.Chance(3, 4) {
				ch.Value = w.randEther(0.5, 3)
			}
			shape[i] = &protoStep{child: ch, steps: 1 + r.Intn(2)}
		}
	}
	// addresses
	n0 := w.c.Nonce(w.deployer.Addr)
	idx := uint64(0)
	for _, s := range shape {
		if s != nil {
			s.child.Addr = crypto.CreateAddress(w.deployer.Addr, n0+idx)
			idx++
		}
	}
	root.Addr = crypto.CreateAddress(w.deployer.Addr, n0+idx)
	value := w.randEther(4, 12)
	rootFrame := &frame{Ctx: root.Addr, Value: value, From: sender.Addr, End: root.End}
	ctxs := map[common.Address]*treeCtx{}
	getCtx := func(a common.Address) *treeCtx {
		if c, ok := ctxs[a]; ok {
			return c
		}
		c := &treeCtx{addr: a, delegated: map[string]*big.Int{}}
		ctxs[a] = c
		return c
	}
	genExt := func(tc *treeCtx) (*vh.ExtCall, *nativeOp) {
		op := &nativeOp{Delegator: tc.addr}
		var have []string
		for v, a := range tc.delegated {
			if a.Sign() > 0 {
				have = append(have, v)
			}
		}
		sortStrings(have)
		k := r.Intn(10)
		switch {
		case len(have) == 0 || k < 4:
			op.Action, op.Val, op.Amount = "delegate", w.randVal(), w.randEther(0.05, 1.5)
			if r.Chance(1, 10) {
				op.Amount = w.randEther(50, 60) // more than the context can hold
			}
		case k < 6:
			v := vh.Pick(r, have)
			op.Action, op.Val = "undelegate", mustVal(v)
			op.Amount = new(big.Int).Div(tc.delegated[v], big.NewInt(int64(1+r.Intn(3))))
			if r.Chance(1, 8) {
				op.Amount = new(big.Int).Add(tc.delegated[v], big.NewInt(1))
			}
		case k < 8:
			v := vh.Pick(r, have)
			op.Action, op.Src, op.Val = "redelegate", mustVal(v), w.randVal()
			op.Amount = new(big.Int).Div(tc.delegated[v], big.NewInt(int64(1+r.Intn(3))))
		case k < 9:
			op.Action, op.Val = "withdrawReward", mustVal(vh.Pick(r, have))
		default:
			op.Action, op.To, op.Amount = "transfer", tc.addr, w.randEther(0.05, 1)
		}
		if op.Amount != nil && op.Amount.Sign() == 0 {
			op.Amount = big.NewInt(1)
		}
		encodeDirect(op)
		// optimistic bookkeeping (only steers later choices; the twin decides what really happens)
		switch op.Action {
		case "delegate":
			k := op.Val.String()
			if tc.delegated[k] == nil {
				tc.delegated[k] = new(big.Int)
			}
			if op.Amount.Cmp(etherF(40)) < 0 {
				tc.delegated[k].Add(tc.delegated[k], op.Amount)
			}
		case "undelegate":
			k := op.Val.String()
			if op.Amount.Cmp(tc.delegated[k]) <= 0 {
				tc.delegated[k].Sub(tc.delegated[k], op.Amount)
			}
		}
		e := &vh.ExtCall{Kind: vh.Pick(r, []vh.CallKind{vh.CALL, vh.DELEGATECALL, vh.CALLCODE}), To: w.staking, Data: op.Input, OnFail: "ignore", Gas: 1_000_000}
		if r.Chance(1, 8) {
			e.OnFail = "propagate"
		}
		return e, op
	}
	var opsDesc []any
	for i, s := range shape {
		if s == nil {
			e, op := genExt(getCtx(root.Addr))
			root.Steps = append(root.Steps, vh.Step{Ext: e})
			rootFrame.Steps = append(rootFrame.Steps, fstep{Op: op, OnFail: e.OnFail})
			opsDesc = append(opsDesc, map[string]any{"step": i, "frame": "root", "opcode": e.Kind.String(), "on_fail": e.OnFail, "op": op.describe()})
			continue
		}
		ch := s.child
		cf := &frame{Ctx: ch.Addr, End: ch.End}
		if ch.Kind != vh.CALL {
			cf.Ctx = root.Addr
		} else if ch.Value != nil {
			cf.Value, cf.From = ch.Value, root.Addr
		}
		for j := 0; j < s.steps; j++ {
			e, op := genExt(getCtx(cf.Ctx))
			ch.Steps = append(ch.Steps, vh.Step{Ext: e})
			cf.Steps = append(cf.Steps, fstep{Op: op, OnFail: e.OnFail})
			opsDesc = append(opsDesc, map[string]any{"step": i, "frame": ch.Name, "entered_by": ch.Kind.String(), "frame_end": ch.End, "frame_on_fail": ch.OnFail,
				"opcode": e.Kind.String(), "on_fail": e.OnFail, "op": op.describe()})
		}
		root.Steps = append(root.Steps, vh.Step{Child: ch})
		rootFrame.Steps = append(rootFrame.Steps, fstep{Child: cf, OnFail: ch.OnFail})
	}
	// deployment block (children first)
	var deploy []*plan
	price := new(big.Int).Mul(w.c.BaseFee(), big.NewInt(2))
	var order []*vh.Node
	for _, s := range shape {
		if s != nil {
			order = append(order, s.child)
		}
	}
	order = append(order, root)
	for _, n := range order {
		bz, tx := w.c.EthTx(w.deployer, vh.LegacyTx(w.nonce(w.deployer), nil, nil, 3_000_000, price, vh.Deployer(n.Code())))
		deploy = append(deploy, &plan{Class: "fund", Sender: w.deployer, Bz: bz, Tx: tx})
	}
	ob := w.block(deploy, false)
	delete(w.used, w.deployer.Addr)
	for i, res := range ob.TxResults() {
		rc, attrs := vh.ReceiptOf(res)
		if res.Code != 0 || rc == nil || rc.Status != 1 || common.HexToAddress(attrs["contractAddr"]) != order[i].Addr {
			panic(fmt.Sprintf("c11: tree deployment %d failed: code %d %s", i, res.Code, res.Log))
		}
	}
	to := root.Addr
	p := w.ethPlanFn(sender, &to, value, 12_000_000, func(*big.Int) ([]byte, *plan) {
		return nil, &plan{Class: "op", Method: "tree", CallerKind: "TREE", AmtClass: fmt.Sprintf("steps-%d", len(opsDesc)), Root: rootFrame, Tree: root,
			Desc: map[string]any{"tree": opsDesc, "root_end": root.End, "tx_value": value.String()}}
	})
	return p
}

func mustVal(bech string) sdk.ValAddress {
	v, err := sdk.ValAddressFromBech32(bech)
	if err != nil {
		panic(err)
	}
	return v
}

func sortStrings(s []string) {
	for i := 1; i < len(s); i++ {
		for j := i; j > 0 && s[j] < s[j-1]; j-- {
			s[j], s[j-1] = s[j-1], s[j]
		}
	}
}

// ---- views ----

func (w *world) randViewTarget() (common.Address, sdk.ValAddress) {
	r := w.r
	var acct common.Address
	switch k := r.Intn(10); {
	case k < 5:
		acct = vh.Pick(r, w.eoas).Addr
	case k < 8:
		acct = vh.Pick(r, w.puppets).Ctx
	case k < 9:
		acct = vh.Pick(r, w.c.Vals).Acct.Addr
	default:
		acct = common.BytesToAddress(r.Bytes(20))
	}
	val := w.randVal()
	if dels := w.delegationsOf(acct); len(dels) > 0 && r.Chance(2, 3) {
		val = vh.Pick(r, dels).Val
	}
	if r.Chance(1, 15) {
		val = w.unknownVal()
	}
	return acct, val
}

func (w *world) planViewTx() *plan {
	r := w.r
	sender := w.freeEOA(true)
	if sender == nil {
		return nil
	}
	v := &viewPlan{Method: vh.Pick(r, viewMethods)}
	v.Acct, v.Val = w.randViewTarget()
	if r.Chance(1, 4) {
		v.Acct = sender.Addr // balanceOf(sender) sees the in-flight balance
	}
	if v.Method != "delegationOf" && v.Method != "rewardOf" {
		v.Val = nil
	}
	v.Input = v.pack()
	to := w.staking
	v.Route = "tx:EOA"
	if r.Chance(3, 5) {
		p := vh.Pick(r, w.puppets)
		to, v.Route = p.Addr, "tx:"+p.Kind
	}
	return w.ethPlanFn(sender, &to, nil, 1_000_000, func(*big.Int) ([]byte, *plan) {
		return v.Input, &plan{Class: "view", Method: v.Method, CallerKind: v.Route, View: v}
	})
}

// ---- native Cosmos staking traffic ----

func (w *world) planNative() *plan {
	r := w.r
	s := w.freeEOA(false)
	if s == nil {
		return nil
	}
	del := s.Bech32()
	dels := w.delegationsOf(s.Addr)
	var msg sdk.Msg
	kind := ""
	switch k := r.Intn(13); {
	case k == 12:
		amt := sdk.NewCoins(sdk.NewCoin(vh.SecondDenom, sdkmath.NewInt(int64(r.Range(1000, 50_000_000)))))
		if r.Chance(1, 3) {
			amt = amt.Add(coin(w.randEther(0.01, 2)))
		}
		msg = &distrtypes.MsgDepositValidatorRewardsPool{Depositor: del, ValidatorAddress: w.randVal().String(), Amount: amt}
		kind = "MsgDepositValidatorRewardsPool"
	case k < 4 || len(dels) == 0:
		msg = &stakingtypes.MsgDelegate{DelegatorAddress: del, ValidatorAddress: w.randVal().String(), Amount: coin(w.randEther(0.05, 30))}
		kind = "MsgDelegate"
	case k < 6:
		d := vh.Pick(r, dels)
		msg = &stakingtypes.MsgUndelegate{DelegatorAddress: del, ValidatorAddress: d.Val.String(), Amount: coin(new(big.Int).Div(d.Tokens, big.NewInt(int64(1+r.Intn(5)))))}
		kind = "MsgUndelegate"
	case k < 8:
		d := vh.Pick(r, dels)
		msg = &stakingtypes.MsgBeginRedelegate{DelegatorAddress: del, ValidatorSrcAddress: d.Val.String(), ValidatorDstAddress: w.randVal().String(),
			Amount: coin(new(big.Int).Div(d.Tokens, big.NewInt(int64(1+r.Intn(5)))))}
		kind = "MsgBeginRedelegate"
	case k < 10:
		msg = &distrtypes.MsgWithdrawDelegatorReward{DelegatorAddress: del, ValidatorAddress: vh.Pick(r, dels).Val.String()}
		kind = "MsgWithdrawDelegatorReward"
	case k < 11:
		to := vh.Pick(r, w.eoas)
		if r.Chance(1, 3) {
			to = s // back to self
		}
		msg = &distrtypes.MsgSetWithdrawAddress{DelegatorAddress: del, WithdrawAddress: to.Bech32()}
		kind = "MsgSetWithdrawAddress"
	default:
		// cancel part of an unbonding entry, if any
		ubds, _ := w.c.App.StakingKeeper.GetUnbondingDelegations(w.c.QueryCtx(), s.Acc(), 10)
		if len(ubds) == 0 || len(ubds[0].Entries) == 0 {
			msg = &stakingtypes.MsgDelegate{DelegatorAddress: del, ValidatorAddress: w.randVal().String(), Amount: coin(w.randEther(0.05, 3))}
			kind = "MsgDelegate"
		} else {
			u := vh.Pick(r, ubds)
			e := vh.Pick(r, u.Entries)
			msg = &stakingtypes.MsgCancelUnbondingDelegation{DelegatorAddress: del, ValidatorAddress: u.ValidatorAddress,
				Amount: sdk.NewCoin(vh.Denom, e.Balance), CreationHeight: e.CreationHeight}
			kind = "MsgCancelUnbondingDelegation"
		}
	}
	p := w.cosmosPlan(s, msg)
	p.Method = kind
	return p
}

// topUps keeps the staking EOAs and forwarder contexts liquid.
func (w *world) topUps() *plan {
	if w.busy(w.bank) {
		return nil
	}
	var msgs []sdk.Msg
	for _, a := range w.eoas {
		if w.c.Balance(a.Addr).Cmp(vh.Ether(300)) < 0 {
			msgs = append(msgs, banktypes.NewMsgSend(w.bank.Acc(), a.Acc(), vh.NativeCoins(2000)))
		}
	}
	seen := map[common.Address]bool{}
	for _, p := range w.puppets {
		if p.Static || seen[p.Ctx] {
			continue
		}
		seen[p.Ctx] = true
		if w.c.Balance(p.Ctx).Cmp(vh.Ether(100)) < 0 {
			msgs = append(msgs, banktypes.NewMsgSend(w.bank.Acc(), p.Ctx.Bytes(), vh.NativeCoins(500)))
		}
	}
	for _, v := range w.c.Vals {
		if w.c.Balance(v.Acct.Addr).Cmp(vh.Ether(100)) < 0 {
			msgs = append(msgs, banktypes.NewMsgSend(w.bank.Acc(), v.Acct.Acc(), vh.NativeCoins(500)))
		}
	}
	if len(msgs) == 0 {
		return nil
	}
	p := w.cosmosPlan(w.bank, msgs...)
	p.Class, p.Method = "fund", "MsgSend"
	return p
}
