package c11

import (
	"bytes"
	"encoding/hex"
	"fmt"

	sdk "github.com/cosmos/cosmos-sdk/types"
	"github.com/ethereum/go-ethereum/common"

	"verifharness/vh"
)

// Store key layouts of cosmos-sdk v0.50 x/staking, x/distribution and x/bank (written down
// from the SDK's types/keys.go files): every per-delegator record embeds the delegator
// address in its key, which is what lets the monitor attribute each changed record to an owner.
//
//	staking      0x31|lp(del)|lp(val)             delegation
//	             0x71|lp(val)|del                 delegation-by-validator index
//	             0x32|lp(del)|lp(val)             unbonding delegation
//	             0x33|lp(val)|lp(del)             unbonding-by-validator index
//	             0x34|lp(del)|lp(src)|lp(dst)     redelegation
//	             0x35|lp(src)|lp(del)|lp(dst)     redelegation-by-source index
//	             0x36|lp(dst)|lp(del)|lp(src)     redelegation-by-destination index
//	distribution 0x03|lp(del)                     withdraw address
//	             0x04|lp(val)|lp(del)             delegator starting info
//	bank         0x02|lp(addr)|denom              balance
//	             0x03|denom|0x00|addr             denom -> address reverse index

// lpFields splits a sequence of length-prefixed fields.
func lpFields(b []byte, n int) ([][]byte, bool) {
	var out [][]byte
	for i := 0; i < n; i++ {
		if len(b) < 1 {
			return nil, false
		}
		l := int(b[0])
		if len(b) < 1+l {
			return nil, false
		}
		out = append(out, b[1:1+l])
		b = b[1+l:]
	}
	return out, len(b) == 0
}

// recordOwner classifies a changed key. kind == "" means "not a per-account record".
func recordOwner(ch vh.Change) (kind string, owner common.Address, ok bool) {
	k := ch.Key
	if len(k) == 0 {
		return "", common.Address{}, false
	}
	pick := func(n, idx int, kind string) (string, common.Address, bool) {
		f, good := lpFields(k[1:], n)
		if !good {
			return kind, common.Address{}, false
		}
		return kind, common.BytesToAddress(f[idx]), true
	}
	switch ch.Store {
	case "staking":
		switch k[0] {
		case 0x31:
			return pick(2, 0, "delegation")
		case 0x71: // 0x71|lp(val)|del (delegator not length-prefixed)
			if len(k) < 2 || len(k) < 2+int(k[1]) {
				return "delegation-index", common.Address{}, false
			}
			return "delegation-index", common.BytesToAddress(k[2+int(k[1]):]), true
		case 0x32:
			return pick(2, 0, "unbonding")
		case 0x33:
			return pick(2, 1, "unbonding-index")
		case 0x34:
			return pick(3, 0, "redelegation")
		case 0x35:
			return pick(3, 1, "redelegation-index")
		case 0x36:
			return pick(3, 1, "redelegation-index")
		}
	case "distribution":
		switch k[0] {
		case 0x03:
			return pick(1, 0, "withdraw-address")
		case 0x04:
			return pick(2, 1, "starting-info")
		}
	case "bank":
		switch k[0] {
		case 0x02:
			if len(k) < 2 || len(k) < 2+int(k[1]) {
				return "balance", common.Address{}, false
			}
			return "balance", common.BytesToAddress(k[2 : 2+int(k[1])]), true
		case 0x03:
			i := bytes.IndexByte(k[1:], 0)
			if i < 0 {
				return "balance-index", common.Address{}, false
			}
			return "balance-index", common.BytesToAddress(k[1+i+1:]), true
		}
	}
	return "", common.Address{}, false
}

// isRecordKey tells whether a dump key (store+"\x00"+raw) is a delegation / unbonding /
// redelegation / starting-info / balance record (for the "records scanned" evidence).
func isRecordKey(full string) bool {
	i := bytes.IndexByte([]byte(full), 0)
	if i < 0 || i+1 >= len(full) {
		return false
	}
	store, p := full[:i], full[i+1]
	switch store {
	case "staking":
		return p == 0x31 || p == 0x32 || p == 0x34
	case "distribution":
		return p == 0x04
	case "bank":
		return p == 0x02
	}
	return false
}

func balanceKey(a common.Address) string {
	k := append([]byte{0x02, byte(len(a.Bytes()))}, a.Bytes()...)
	return "bank\x00" + string(k) + vh.Denom
}

func shortChange(ch vh.Change) string {
	kind, owner, ok := recordOwner(ch)
	if kind != "" && ok {
		return fmt.Sprintf("%s[%s] %s", kind, owner.Hex(), ch.String())
	}
	return ch.String()
}

func changeList(d []vh.Change, max int) []string {
	var out []string
	for i, ch := range d {
		if i >= max {
			out = append(out, fmt.Sprintf("... %d more", len(d)-max))
			break
		}
		out = append(out, shortChange(ch))
	}
	return out
}

func valHex(v sdk.ValAddress) string { return "0x" + hex.EncodeToString(v) }
