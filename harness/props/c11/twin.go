package c11

import (
	"errors"
	"fmt"
	"math/big"
	"sort"
	"strings"

	sdkmath "cosmossdk.io/math"
	storetypes "cosmossdk.io/store/types"
	sdk "github.com/cosmos/cosmos-sdk/types"
	authtypes "github.com/cosmos/cosmos-sdk/x/auth/types"
	distrtypes "github.com/cosmos/cosmos-sdk/x/distribution/types"
	stakingtypes "github.com/cosmos/cosmos-sdk/x/staking/types"
	"github.com/ethereum/go-ethereum/common"

	"verifharness/vh"
)

// ---------------------------------------------------------------------------------------
// The twin: what the corresponding native messages do to a throw-away branch of the very
// state the designated transaction is about to run on.
// ---------------------------------------------------------------------------------------

// nativeOp is one staking-precompile call expressed as the native message(s) it stands for.
type nativeOp struct {
	Method    string         // ABI method the calldata invokes
	Action    string         // native action: delegate | undelegate | redelegate | withdrawReward | withdrawRewards | transfer
	Delegator common.Address // the immediate caller (context address of the frame executing the call op)
	Val       sdk.ValAddress // validator (destination for redelegate)
	Src       sdk.ValAddress // source validator (redelegate)
	Amount    *big.Int
	Denom     string         // denomination named by a signed message ("" = the bond denomination)
	To        common.Address // transfer(): receiver
	// MustReject != "": the call has to be refused whatever the native message would do
	// (forged signed message class, or a documented refusal of the precompile itself).
	MustReject string
	Input      []byte // calldata sent to the precompile
	Choice     string // transfer(): which rule of the documented validator choice applied (filled by the twin)
}

func (op *nativeOp) describe() map[string]any {
	m := map[string]any{"method": op.Method, "action": op.Action, "immediate_caller": op.Delegator.Hex()}
	if op.Val != nil {
		m["validator"] = op.Val.String()
	}
	if op.Src != nil {
		m["src_validator"] = op.Src.String()
	}
	if op.Amount != nil {
		m["amount"] = op.Amount.String()
	}
	if op.Action == "transfer" {
		m["to"] = op.To.Hex()
	}
	if op.MustReject != "" {
		m["must_reject"] = op.MustReject
	}
	return m
}

// frame is one EVM call frame of the designated transaction, as far as staking is concerned.
type frame struct {
	Ctx   common.Address // address(this) of the frame
	Value *big.Int       // value moved from the parent's context to Ctx when the frame is entered (CALL only)
	From  common.Address // who pays Value
	Steps []fstep
	End   string // "stop" | "revert"
}

type fstep struct {
	Op     *nativeOp
	Child  *frame
	OnFail string // "ignore" | "propagate"
}

func (f *frame) ops(out *[]*nativeOp) {
	for _, s := range f.Steps {
		if s.Op != nil {
			*out = append(*out, s.Op)
		} else if s.Child != nil {
			s.Child.ops(out)
		}
	}
}

func (f *frame) contexts(out map[common.Address]bool) {
	out[f.Ctx] = true
	for _, s := range f.Steps {
		if s.Child != nil {
			s.Child.contexts(out)
		}
	}
}

// expLog is an EVM log the staking ABI promises for a module event.
type expLog struct {
	Event     string // Delegate | Undelegate | WithdrawReward
	Delegator common.Address
	Validator common.Address
	Amount    string
}

func (l expLog) key() string {
	return l.Event + "|" + strings.ToLower(l.Delegator.Hex()) + "|" + strings.ToLower(l.Validator.Hex()) + "|" + l.Amount
}

// modEvent is a staking/distribution module event reduced to what the logs have to mirror.
type modEvent struct {
	Type      string
	Delegator string // bech32 ("" for redelegate, which carries none)
	Validator string
	Src, Dst  string
	Amount    string // amount of the bond denom
}

type opResult struct {
	Op   map[string]any `json:"op"`
	OK   bool           `json:"ok"`
	Err  string         `json:"err,omitempty"`
	Noop bool           `json:"noop,omitempty"`
}

type twinResult struct {
	FeeErr            string
	Price             *big.Int
	OK                bool // root frame committed
	Noop              bool // the only op had nothing to do (withdrawRewards with nothing above the threshold)
	Rejected          string
	Ops               []opResult
	Logs              []expLog
	Dump              vh.Dump // staking + distribution + bank stores of the branch after the native messages (only when OK)
	Rewards           map[string]string
	FeeOnly           vh.Dump // the same stores with nothing but the fee moved
	FeeOnlyRewards    map[string]string
	WithdrawTo        map[common.Address]bool
	MultiDenomRewards bool // a native withdraw_rewards event of this comparison paid out more than one denomination
	View              *viewExpect
}

var errNoop = errors.New("nothing to withdraw above the minimum")

func infinite(ctx sdk.Context) sdk.Context {
	return ctx.WithGasMeter(storetypes.NewInfiniteGasMeter()).WithBlockGasMeter(storetypes.NewInfiniteGasMeter())
}

// runTwin is called inside the tx-boundary observer, right before the designated transaction.
func (w *world) runTwin(octx sdk.Context, p *plan) *twinResult {
	tr := &twinResult{WithdrawTo: map[common.Address]bool{}}
	ctx, _ := octx.CacheContext() // never written
	ctx = infinite(ctx)
	app := w.c.App
	baseFee := app.FeeMarketKeeper.GetBaseFee(ctx).BigInt()
	tr.Price = vh.EffectivePrice(p.Tx, baseFee)
	fee := new(big.Int).Mul(tr.Price, new(big.Int).SetUint64(p.Tx.Gas()))
	if fee.Sign() > 0 {
		// the ante handler has taken gasLimit x effective price by the time the precompile runs
		if err := app.BankKeeper.SendCoinsFromAccountToModule(ctx, p.Sender.Acc(), authtypes.FeeCollectorName,
			sdk.NewCoins(sdk.NewCoin(vh.Denom, sdkmath.NewIntFromBigInt(fee)))); err != nil {
			tr.FeeErr = err.Error()
			return tr
		}
	}
	if p.View != nil {
		tr.View = w.nativeView(ctx, p.View)
		return tr
	}
	// withdraw addresses of every potential delegator (their balances may legitimately move)
	var ops []*nativeOp
	p.Root.ops(&ops)
	for _, op := range ops {
		if wa, err := app.DistrKeeper.GetDelegatorWithdrawAddr(ctx, op.Delegator.Bytes()); err == nil {
			tr.WithdrawTo[common.BytesToAddress(wa)] = true
		}
	}
	tr.FeeOnly = w.c.DumpStores(ctx, "staking", "distribution", "bank")
	tr.FeeOnlyRewards = w.pendingRewards(ctx)
	ok, logs := w.runFrame(ctx, p.Root, tr)
	tr.OK = ok
	if len(tr.Ops) == 1 && tr.Ops[0].Noop {
		tr.Noop = true
	}
	if ok {
		tr.Logs = logs
		tr.Dump = w.c.DumpStores(ctx, "staking", "distribution", "bank")
		tr.Rewards = w.pendingRewards(ctx)
	}
	return tr
}

// runFrame folds a frame with EVM snapshot semantics: a failing step is undone; with policy
// "propagate" it fails the frame; a frame ending in revert is undone as a whole.
func (w *world) runFrame(ctx sdk.Context, f *frame, tr *twinResult) (bool, []expLog) {
	cc, write := ctx.CacheContext()
	if f.Value != nil && f.Value.Sign() > 0 {
		if err := w.c.App.BankKeeper.SendCoins(cc, f.From.Bytes(), f.Ctx.Bytes(),
			sdk.NewCoins(sdk.NewCoin(vh.Denom, sdkmath.NewIntFromBigInt(f.Value)))); err != nil {
			return false, nil
		}
	}
	var logs []expLog
	for _, s := range f.Steps {
		var ok bool
		var l []expLog
		if s.Op != nil {
			ok, l = w.applyOp(cc, s.Op, tr)
		} else {
			ok, l = w.runFrame(cc, s.Child, tr)
		}
		if ok {
			logs = append(logs, l...)
		} else if s.OnFail == "propagate" {
			return false, nil
		}
	}
	if f.End == "revert" {
		return false, nil
	}
	write()
	return true, logs
}

func (w *world) applyOp(ctx sdk.Context, op *nativeOp, tr *twinResult) (bool, []expLog) {
	cc, write := ctx.CacheContext()
	res := opResult{Op: op.describe()}
	var err error
	if op.MustReject != "" {
		err = fmt.Errorf("must be refused: %s", op.MustReject)
		tr.Rejected = op.MustReject
	} else {
		err = w.nativeRecovered(cc, op)
	}
	if err != nil {
		res.Err = err.Error()
		res.Noop = errors.Is(err, errNoop)
		tr.Ops = append(tr.Ops, res)
		return false, nil
	}
	res.OK = true
	tr.Ops = append(tr.Ops, res)
	for _, e := range cc.EventManager().Events() {
		if e.Type != distrtypes.EventTypeWithdrawRewards {
			continue
		}
		for _, a := range e.Attributes {
			if a.Key == sdk.AttributeKeyAmount && strings.Contains(a.Value, ",") {
				tr.MultiDenomRewards = true
			}
		}
	}
	logs := w.logsFromEvents(cc.EventManager().Events(), op.Delegator)
	write()
	return true, logs
}

// opCoin is the coin the corresponding native message carries: the amount in the denomination the call names.
func opCoin(op *nativeOp) sdk.Coin {
	c := coin(op.Amount)
	if op.Denom != "" {
		c.Denom = op.Denom
	}
	return c
}

func coin(a *big.Int) sdk.Coin {
	if a == nil {
		a = new(big.Int)
	}
	return sdk.Coin{Denom: vh.Denom, Amount: sdkmath.NewIntFromBigInt(a)}
}

// nativeRecovered: a panic of the message server (e.g. "Int overflow" for absurd amounts) is
// how the native transaction would fail too (baseapp recovers it): count it as a failure.
func (w *world) nativeRecovered(ctx sdk.Context, op *nativeOp) (err error) {
	defer func() {
		if r := recover(); r != nil {
			err = fmt.Errorf("panic: %v", r)
		}
	}()
	return w.native(ctx, op)
}

// native applies the native message(s) an op stands for, through the real message servers.
func (w *world) native(ctx sdk.Context, op *nativeOp) error {
	del := sdk.AccAddress(op.Delegator.Bytes()).String()
	switch op.Action {
	case "delegate":
		_, err := w.stakeSrv.Delegate(ctx, &stakingtypes.MsgDelegate{DelegatorAddress: del, ValidatorAddress: op.Val.String(), Amount: opCoin(op)})
		return err
	case "undelegate":
		_, err := w.stakeSrv.Undelegate(ctx, &stakingtypes.MsgUndelegate{DelegatorAddress: del, ValidatorAddress: op.Val.String(), Amount: opCoin(op)})
		return err
	case "redelegate":
		_, err := w.stakeSrv.BeginRedelegate(ctx, &stakingtypes.MsgBeginRedelegate{DelegatorAddress: del, ValidatorSrcAddress: op.Src.String(),
			ValidatorDstAddress: op.Val.String(), Amount: opCoin(op)})
		return err
	case "withdrawReward":
		_, err := w.distSrv.WithdrawDelegatorReward(ctx, &distrtypes.MsgWithdrawDelegatorReward{DelegatorAddress: del, ValidatorAddress: op.Val.String()})
		return err
	case "withdrawRewards":
		n, err := w.withdrawAll(ctx, op.Delegator)
		if err != nil {
			return err
		}
		if n == 0 {
			return errNoop
		}
		return nil
	case "transfer":
		// staking.sol: "Claims available staking reward and then delegate"
		if op.Amount == nil || op.Amount.Sign() < 1 {
			return fmt.Errorf("transfer amount must be positive")
		}
		if _, err := w.withdrawAll(ctx, op.Delegator); err != nil {
			return err
		}
		bal := w.c.App.BankKeeper.GetBalance(ctx, op.Delegator.Bytes(), vh.Denom).Amount.BigInt()
		if bal.Cmp(op.Amount) < 0 {
			return fmt.Errorf("insufficient balance %s < %s", bal, op.Amount)
		}
		val, why := w.chooseTransferValidator(ctx, op.Delegator)
		if val == nil {
			return fmt.Errorf("no validator to select")
		}
		op.Val = val
		op.Choice = why
		_, err := w.stakeSrv.Delegate(ctx, &stakingtypes.MsgDelegate{DelegatorAddress: del, ValidatorAddress: val.String(), Amount: coin(op.Amount)})
		return err
	}
	return fmt.Errorf("unknown action %q", op.Action)
}

// withdrawAll = one MsgWithdrawDelegatorReward per validator whose pending reward (truncated)
// reaches the documented minimum of 1/1000 coin, in the order of the native rewards query.
// The query itself runs on a throw-away branch (a client would run it on a node).
func (w *world) withdrawAll(ctx sdk.Context, delegator common.Address) (int, error) {
	del := sdk.AccAddress(delegator.Bytes()).String()
	qctx, _ := ctx.CacheContext()
	res, err := w.distQ.DelegationTotalRewards(qctx, &distrtypes.QueryDelegationTotalRewardsRequest{DelegatorAddress: del})
	if err != nil {
		return 0, err
	}
	n := 0
	for _, rw := range res.Rewards {
		amt := rw.Reward.AmountOf(vh.Denom).TruncateInt()
		if amt.BigInt().Cmp(w.minWithdraw) < 0 {
			continue
		}
		if _, err := w.distSrv.WithdrawDelegatorReward(ctx, &distrtypes.MsgWithdrawDelegatorReward{DelegatorAddress: del, ValidatorAddress: rw.ValidatorAddress}); err != nil {
			return n, err
		}
		n++
	}
	return n, nil
}

// chooseTransferValidator mirrors the rule documented in staking.sol for transfer():
//   - not delegated to any (bonded) validator: a mid-power bonded validator,
//   - delegated to exactly one: that one,
//   - delegated to several: the lowest-power one.
//
// "Power" is taken as bonded tokens, ascending, ties broken by operator address string; "mid"
// is the element n/2 of that ascending list. Delegations to non-bonded validators are ignored.
func (w *world) chooseTransferValidator(ctx sdk.Context, delegator common.Address) (sdk.ValAddress, string) {
	sk := w.c.App.StakingKeeper
	type cand struct {
		oper   string
		tokens *big.Int
	}
	less := func(a, b cand) bool {
		if c := a.tokens.Cmp(b.tokens); c != 0 {
			return c < 0
		}
		return a.oper < b.oper
	}
	dels, err := sk.GetAllDelegatorDelegations(ctx, delegator.Bytes())
	if err != nil {
		return nil, ""
	}
	var mine []cand
	for _, d := range dels {
		vb, err := sk.ValidatorAddressCodec().StringToBytes(d.ValidatorAddress)
		if err != nil {
			continue
		}
		v, err := sk.GetValidator(ctx, vb)
		if err != nil || !v.IsBonded() {
			continue
		}
		mine = append(mine, cand{oper: v.OperatorAddress, tokens: v.Tokens.BigInt()})
	}
	pick := func(c cand) sdk.ValAddress {
		vb, _ := sk.ValidatorAddressCodec().StringToBytes(c.oper)
		return vb
	}
	tie := func(cs []cand, i int) string {
		for j := range cs {
			if j != i && cs[j].tokens.Cmp(cs[i].tokens) == 0 {
				return "+equal-power-tie"
			}
		}
		return ""
	}
	switch {
	case len(mine) == 1:
		return pick(mine[0]), "only-delegated"
	case len(mine) > 1:
		sort.Slice(mine, func(i, j int) bool { return less(mine[i], mine[j]) })
		return pick(mine[0]), fmt.Sprintf("lowest-of-%d-delegated%s", len(mine), tie(mine, 0))
	}
	all, err := sk.GetAllValidators(ctx)
	if err != nil {
		return nil, ""
	}
	var bonded []cand
	for _, v := range all {
		if v.IsBonded() {
			bonded = append(bonded, cand{oper: v.OperatorAddress, tokens: v.Tokens.BigInt()})
		}
	}
	if len(bonded) == 0 {
		return nil, ""
	}
	sort.Slice(bonded, func(i, j int) bool { return less(bonded[i], bonded[j]) })
	return pick(bonded[len(bonded)/2]), fmt.Sprintf("mid-of-%d-bonded%s", len(bonded), tie(bonded, len(bonded)/2))
}

// pendingRewards lists the pending reward of every delegation in the state (each computed on
// its own throw-away branch: the native query advances the validator period).
func (w *world) pendingRewards(ctx sdk.Context) map[string]string {
	out := map[string]string{}
	dels, err := w.c.App.StakingKeeper.GetAllDelegations(ctx)
	if err != nil {
		return out
	}
	for _, d := range dels {
		qctx, _ := ctx.CacheContext()
		qctx = infinite(qctx)
		k := d.DelegatorAddress + "|" + d.ValidatorAddress
		var res *distrtypes.QueryDelegationRewardsResponse
		var err error
		func() {
			// x/distribution's own query must be able to answer for every delegation in the state: one it cannot (a panic
			// on a delegation without distribution records) is a state no native staking message leaves behind
			defer func() {
				if p := recover(); p != nil {
					err = fmt.Errorf("panic: %v", p)
					w.run.Violation("native-reward-query-panics-for-a-delegation-in-state", w.label, map[string]any{"delegator": d.DelegatorAddress, "validator": d.ValidatorAddress,
						"height": ctx.BlockHeight(), "panic": fmt.Sprint(p)})
				}
			}()
			res, err = w.distQ.DelegationRewards(qctx, &distrtypes.QueryDelegationRewardsRequest{DelegatorAddress: d.DelegatorAddress, ValidatorAddress: d.ValidatorAddress})
		}()
		if err != nil {
			out[k] = "error: " + err.Error()
			continue
		}
		out[k] = res.Rewards.String()
	}
	return out
}

// ---- module events -> promised logs ----

func bondAmount(s string) *big.Int {
	coins, err := sdk.ParseCoinsNormalized(s)
	if err != nil {
		return new(big.Int)
	}
	return coins.AmountOf(vh.Denom).BigInt()
}

func valToEth(bech string) (common.Address, bool) {
	v, err := sdk.ValAddressFromBech32(bech)
	if err != nil {
		return common.Address{}, false
	}
	return common.BytesToAddress(v), true
}

func accToEth(bech string) (common.Address, bool) {
	a, err := sdk.AccAddressFromBech32(bech)
	if err != nil {
		return common.Address{}, false
	}
	return common.BytesToAddress(a), true
}

func attrMap(keys []string, vals []string) map[string]string {
	m := map[string]string{}
	for i := range keys {
		m[keys[i]] = vals[i]
	}
	return m
}

// reduceEvent maps (type, attributes) to a modEvent; ok=false for unrelated events.
func reduceEvent(typ string, attrs map[string]string) (modEvent, bool) {
	switch typ {
	case stakingtypes.EventTypeDelegate, stakingtypes.EventTypeUnbond:
		return modEvent{Type: typ, Delegator: attrs[stakingtypes.AttributeKeyDelegator], Validator: attrs[stakingtypes.AttributeKeyValidator],
			Amount: bondAmount(attrs[sdk.AttributeKeyAmount]).String()}, true
	case stakingtypes.EventTypeRedelegate:
		return modEvent{Type: typ, Src: attrs[stakingtypes.AttributeKeySrcValidator], Dst: attrs[stakingtypes.AttributeKeyDstValidator],
			Amount: bondAmount(attrs[sdk.AttributeKeyAmount]).String()}, true
	case distrtypes.EventTypeWithdrawRewards:
		return modEvent{Type: typ, Delegator: attrs[distrtypes.AttributeKeyDelegator], Validator: attrs[distrtypes.AttributeKeyValidator],
			Amount: bondAmount(attrs[sdk.AttributeKeyAmount]).String()}, true
	}
	return modEvent{}, false
}

func sdkModEvents(evs sdk.Events) []modEvent {
	var out []modEvent
	for _, e := range evs {
		m := map[string]string{}
		for _, a := range e.Attributes {
			m[a.Key] = a.Value
		}
		if me, ok := reduceEvent(e.Type, m); ok {
			out = append(out, me)
		}
	}
	return out
}

// logsOf turns module events into the logs the ABI promises: delegate -> Delegate, unbond ->
// Undelegate, redelegate -> Undelegate(src) + Delegate(dst) (staking.sol: "Emits {Undelegate} +
// {Delegate}"), withdraw_rewards -> WithdrawReward; zero-amount events carry no log.
// redelegator is used for redelegate events (the module event has no delegator attribute).
func logsOf(evs []modEvent, redelegator common.Address) []expLog {
	var out []expLog
	for _, e := range evs {
		if e.Amount == "0" || e.Amount == "" {
			continue
		}
		switch e.Type {
		case stakingtypes.EventTypeDelegate, stakingtypes.EventTypeUnbond, distrtypes.EventTypeWithdrawRewards:
			d, ok1 := accToEth(e.Delegator)
			v, ok2 := valToEth(e.Validator)
			if !ok1 || !ok2 {
				continue
			}
			name := map[string]string{stakingtypes.EventTypeDelegate: "Delegate", stakingtypes.EventTypeUnbond: "Undelegate", distrtypes.EventTypeWithdrawRewards: "WithdrawReward"}[e.Type]
			out = append(out, expLog{Event: name, Delegator: d, Validator: v, Amount: e.Amount})
		case stakingtypes.EventTypeRedelegate:
			s, ok1 := valToEth(e.Src)
			d, ok2 := valToEth(e.Dst)
			if !ok1 || !ok2 {
				continue
			}
			out = append(out, expLog{Event: "Undelegate", Delegator: redelegator, Validator: s, Amount: e.Amount},
				expLog{Event: "Delegate", Delegator: redelegator, Validator: d, Amount: e.Amount})
		}
	}
	return out
}

func (w *world) logsFromEvents(evs sdk.Events, delegator common.Address) []expLog {
	return logsOf(sdkModEvents(evs), delegator)
}
