package c11

import (
	"encoding/json"
	"fmt"
	"math/big"
	"sort"
	"strings"

	sdk "github.com/cosmos/cosmos-sdk/types"
	banktypes "github.com/cosmos/cosmos-sdk/x/bank/types"
	distrtypes "github.com/cosmos/cosmos-sdk/x/distribution/types"
	stakingtypes "github.com/cosmos/cosmos-sdk/x/staking/types"
	"github.com/ethereum/go-ethereum/common"
	"github.com/ethereum/go-ethereum/common/hexutil"

	cpcabi "github.com/EscanBE/evermint/v12/x/cpc/abi"
	evmtypes "github.com/EscanBE/evermint/v12/x/evm/types"

	"verifharness/vh"
)

// viewPlan is one call of a view method of the staking precompile.
type viewPlan struct {
	Method string
	Acct   common.Address
	Val    sdk.ValAddress
	Route  string // ethcall | tx:EOA | tx:STATICCALL | tx:CALL | tx:DELEGATECALL ...
	Input  []byte
}

// viewExpect is the answer of the native gRPC queries on the same state.
type viewExpect struct {
	Err   string
	Value *big.Int
	Addrs []common.Address
}

var viewMethods = []string{"delegationOf", "totalDelegationOf", "rewardOf", "rewardsOf", "delegatedValidators", "balanceOf"}

func (v *viewPlan) pack() []byte {
	var args []any
	switch v.Method {
	case "delegationOf", "rewardOf":
		args = []any{v.Acct, common.BytesToAddress(v.Val)}
	default:
		args = []any{v.Acct}
	}
	bz, err := cpcabi.StakingCpcInfo.ABI.Pack(v.Method, args...)
	if err != nil {
		panic(err)
	}
	return bz
}

// nativeView answers a view through the native query servers of x/staking, x/distribution
// and x/bank (on a throw-away branch: the reward queries advance validator periods).
func (w *world) nativeView(ctx sdk.Context, v *viewPlan) *viewExpect {
	qctx, _ := ctx.CacheContext()
	qctx = infinite(qctx)
	del := sdk.AccAddress(v.Acct.Bytes()).String()
	fail := func(err error) *viewExpect { return &viewExpect{Err: err.Error()} }
	totalRewards := func() (*big.Int, error) {
		res, err := w.distQ.DelegationTotalRewards(qctx, &distrtypes.QueryDelegationTotalRewardsRequest{DelegatorAddress: del})
		if err != nil {
			return nil, err
		}
		return res.Total.AmountOf(vh.Denom).TruncateInt().BigInt(), nil
	}
	switch v.Method {
	case "delegationOf":
		res, err := w.stakeQ.Delegation(qctx, &stakingtypes.QueryDelegationRequest{DelegatorAddr: del, ValidatorAddr: v.Val.String()})
		if err != nil {
			return fail(err)
		}
		return &viewExpect{Value: res.DelegationResponse.Balance.Amount.BigInt()}
	case "totalDelegationOf":
		res, err := w.stakeQ.DelegatorDelegations(qctx, &stakingtypes.QueryDelegatorDelegationsRequest{DelegatorAddr: del})
		if err != nil {
			return fail(err)
		}
		sum := new(big.Int)
		for _, d := range res.DelegationResponses {
			sum.Add(sum, d.Balance.Amount.BigInt())
		}
		return &viewExpect{Value: sum}
	case "rewardOf":
		res, err := w.distQ.DelegationRewards(qctx, &distrtypes.QueryDelegationRewardsRequest{DelegatorAddress: del, ValidatorAddress: v.Val.String()})
		if err != nil {
			return fail(err)
		}
		return &viewExpect{Value: res.Rewards.AmountOf(vh.Denom).TruncateInt().BigInt()}
	case "rewardsOf":
		t, err := totalRewards()
		if err != nil {
			return fail(err)
		}
		return &viewExpect{Value: t}
	case "delegatedValidators":
		res, err := w.stakeQ.DelegatorValidators(qctx, &stakingtypes.QueryDelegatorValidatorsRequest{DelegatorAddr: del})
		if err != nil {
			return fail(err)
		}
		e := &viewExpect{}
		for _, val := range res.Validators {
			a, ok := valToEth(val.OperatorAddress)
			if !ok {
				return &viewExpect{Err: "bad operator address " + val.OperatorAddress}
			}
			e.Addrs = append(e.Addrs, a)
		}
		return e
	case "balanceOf":
		t, err := totalRewards()
		if err != nil {
			return fail(err)
		}
		res, err := w.c.App.BankKeeper.Balance(qctx, &banktypes.QueryBalanceRequest{Address: del, Denom: vh.Denom})
		if err != nil {
			return fail(err)
		}
		return &viewExpect{Value: new(big.Int).Add(res.Balance.Amount.BigInt(), t)}
	}
	return &viewExpect{Err: "unknown view"}
}

// compareView judges the precompile's answer (ok = the call succeeded, ret = return data).
// A number reported must be the native number; where the native query refuses (no such
// delegation / validator) the precompile may answer 0 or refuse as well.
func compareView(v *viewPlan, exp *viewExpect, ok bool, ret []byte) (string, map[string]any) {
	det := map[string]any{"method": v.Method, "account": v.Acct.Hex(), "route": v.Route, "native_error": exp.Err}
	if v.Val != nil {
		det["validator"] = v.Val.String()
	}
	if exp.Value != nil {
		det["native_value"] = exp.Value.String()
	}
	if !ok {
		det["precompile"] = "call failed"
		if exp.Err == "" {
			return "failed-though-native-answers", det
		}
		return "", det
	}
	out, err := cpcabi.StakingCpcInfo.ABI.Unpack(v.Method, ret)
	if err != nil || len(out) != 1 {
		det["precompile_ret"] = fmt.Sprintf("%x", ret)
		return "undecodable-return", det
	}
	if v.Method == "delegatedValidators" {
		got, _ := out[0].([]common.Address)
		var gs, es []string
		for _, a := range got {
			gs = append(gs, strings.ToLower(a.Hex()))
		}
		for _, a := range exp.Addrs {
			es = append(es, strings.ToLower(a.Hex()))
		}
		sort.Strings(gs)
		sort.Strings(es)
		det["precompile_value"], det["native_validators"] = gs, es
		if exp.Err != "" {
			if len(got) != 0 {
				return "answers-though-native-refuses", det
			}
			return "", det
		}
		if strings.Join(gs, ",") != strings.Join(es, ",") {
			return "value", det
		}
		return "", det
	}
	got, _ := out[0].(*big.Int)
	if got == nil {
		return "undecodable-return", det
	}
	det["precompile_value"] = got.String()
	if exp.Err != "" {
		if got.Sign() != 0 {
			return "answers-though-native-refuses", det
		}
		return "", det
	}
	if got.Cmp(exp.Value) != 0 {
		return "value", det
	}
	return "", det
}

// ethCall runs an eth_call against the committed state.
func (w *world) ethCall(from, to common.Address, input []byte) (ok bool, ret []byte, errText string) {
	data := hexutil.Bytes(input)
	args := evmtypes.TransactionArgs{From: &from, To: &to, Data: &data}
	abz, _ := json.Marshal(args)
	res, err := w.c.App.EvmKeeper.EthCall(w.c.QueryCtx(), &evmtypes.EthCallRequest{Args: abz, GasCap: 5_000_000})
	if err != nil {
		return false, nil, err.Error()
	}
	return res.VmError == "", res.Ret, res.VmError
}
