package c11

import (
	"encoding/json"
	"fmt"
	"math/big"
	"strings"
	"time"

	sdkmath "cosmossdk.io/math"
	sdk "github.com/cosmos/cosmos-sdk/types"
	authtypes "github.com/cosmos/cosmos-sdk/x/auth/types"
	banktypes "github.com/cosmos/cosmos-sdk/x/bank/types"
	distrkeeper "github.com/cosmos/cosmos-sdk/x/distribution/keeper"
	distrtypes "github.com/cosmos/cosmos-sdk/x/distribution/types"
	minttypes "github.com/cosmos/cosmos-sdk/x/mint/types"
	stakingkeeper "github.com/cosmos/cosmos-sdk/x/staking/keeper"
	stakingtypes "github.com/cosmos/cosmos-sdk/x/staking/types"
	"github.com/ethereum/go-ethereum/common"
	ethtypes "github.com/ethereum/go-ethereum/core/types"
	"github.com/ethereum/go-ethereum/core/vm"
	"github.com/ethereum/go-ethereum/crypto"

	chainapp "github.com/EscanBE/evermint/v12/app"
	"github.com/EscanBE/evermint/v12/app/params"
	cpcabi "github.com/EscanBE/evermint/v12/x/cpc/abi"
	cpctypes "github.com/EscanBE/evermint/v12/x/cpc/types"

	"verifharness/vh"
)

// puppet is a deployed forwarder contract.
type puppet struct {
	Kind   string         // caller-kind label
	Addr   common.Address // address the transaction is sent to
	Ctx    common.Address // context address executing the final call op = the immediate caller the precompile must act for
	Static bool           // final hop is STATICCALL (views only)
}

// plan is one transaction of a block.
type plan struct {
	Class      string // op | view | native | fund
	Sender     *vh.Acct
	Bz         []byte
	Tx         *ethtypes.Transaction
	Root       *frame
	Method     string
	CallerKind string
	AmtClass   string
	Forge      string // signed-message class ("" = not a signed message)
	LowGas     bool
	View       *viewPlan
	Desc       map[string]any
	twin       *twinResult
	Tree       *vh.Node
}

type world struct {
	run         *vh.Run
	label       string
	r           *vh.RNG
	c           *vh.Chain
	mirror      *vh.Chain
	eoas        []*vh.Acct
	relayer     *vh.Acct // never stakes
	bank        *vh.Acct // funder
	deployer    *vh.Acct
	puppets     []*puppet
	vals        []sdk.ValAddress
	staking     common.Address
	staker      common.Address // contract that reads, withdraws and reads again in one transaction (stakerCode)
	minWithdraw *big.Int
	used        map[common.Address]uint64 // next nonce/sequence per sender within the block being planned
	stakeSrv    stakingtypes.MsgServer
	distSrv     distrtypes.MsgServer
	stakeQ      stakingkeeper.Querier
	distQ       distrkeeper.Querier
	modules     map[common.Address]string
	jailed      bool
	diverged    bool
	ops         int
}

var (
	bondedPool    = common.BytesToAddress(authtypes.NewModuleAddress(stakingtypes.BondedPoolName))
	notBondedPool = common.BytesToAddress(authtypes.NewModuleAddress(stakingtypes.NotBondedPoolName))
	distrModule   = common.BytesToAddress(authtypes.NewModuleAddress(distrtypes.ModuleName))
	feeCollector  = common.BytesToAddress(authtypes.NewModuleAddress(authtypes.FeeCollectorName))
)

type worldVariant struct {
	NumVals    int
	Powers     []int64
	Commission []string
	Inflation  bool
	Unbonding  time.Duration
}

var variants = []worldVariant{
	{NumVals: 3, Powers: []int64{2, 2, 5}, Commission: []string{"0.05", "0.10", "0"}, Inflation: true, Unbonding: 60 * time.Second},
	{NumVals: 4, Powers: []int64{1, 3, 3, 7}, Commission: []string{"0", "0.20", "0.05", "0.50"}, Inflation: false, Unbonding: 45 * time.Second},
	{NumVals: 5, Powers: []int64{4, 4, 4, 1, 9}, Commission: []string{"0.10", "0.01", "0.10", "1", "0"}, Inflation: true, Unbonding: 90 * time.Second},
	{NumVals: 4, Powers: []int64{6, 1, 1, 1}, Commission: []string{"0.03", "0.03", "0.30", "0"}, Inflation: false, Unbonding: 30 * time.Second},
}

func newWorld(run *vh.Run, label string, wi int) *world {
	r := run.RNG("world", wi)
	w := &world{run: run, label: label, r: r, used: map[common.Address]uint64{}, staking: cpctypes.CpcStakingFixedAddress}
	v := variants[wi%len(variants)]
	var accts []vh.GenAccount
	for i := 0; i < 6; i++ {
		a := vh.NewAcct(r)
		w.eoas = append(w.eoas, a)
		// a second denomination in the staking accounts: deposits into validator reward pools make the
		// rewards multi-denomination (what IBC fee income does on a live chain)
		accts = append(accts, vh.GenAccount{Addr: a.Addr, Coins: vh.NativeCoins(5000).Add(sdk.NewCoin(vh.SecondDenom, sdkmath.NewInt(5_000_000_000)))})
	}
	w.relayer, w.bank, w.deployer = vh.NewAcct(r), vh.NewAcct(r), vh.NewAcct(r)
	accts = append(accts, vh.GenAccount{Addr: w.relayer.Addr, Coins: vh.NativeCoins(100000)},
		vh.GenAccount{Addr: w.bank.Addr, Coins: vh.NativeCoins(100_000_000)},
		vh.GenAccount{Addr: w.deployer.Addr, Coins: vh.NativeCoins(100000)})
	cfg := vh.Config{Seed: r.U64(), NumVals: v.NumVals, ValPowers: v.Powers, ValCommission: v.Commission,
		BaseFee: big.NewInt(1_000_000_000), Erc20Native: true, StakingCPC: true, Inflation: v.Inflation,
		UnbondingTime: v.Unbonding, Accounts: accts}
	if v.Inflation {
		cfg.MutateGenesis = func(enc params.EncodingConfig, gs chainapp.GenesisState) {
			var mg minttypes.GenesisState
			enc.Codec.MustUnmarshalJSON(gs[minttypes.ModuleName], &mg)
			mg.Params.BlocksPerYear = 20000 // visible per-block provisions
			mg.Params.InflationMin = sdkmath.LegacyMustNewDecFromStr("0.20")
			mg.Params.InflationMax = sdkmath.LegacyMustNewDecFromStr("0.20")
			mg.Minter.Inflation = sdkmath.LegacyMustNewDecFromStr("0.20")
			gs[minttypes.ModuleName] = enc.Codec.MustMarshalJSON(&mg)
		}
	}
	w.c = vh.NewChain(cfg)
	w.mirror = vh.NewChain(cfg)
	for _, val := range w.c.Vals {
		w.vals = append(w.vals, val.Oper)
	}
	w.stakeSrv = stakingkeeper.NewMsgServerImpl(w.c.App.StakingKeeper)
	w.distSrv = distrkeeper.NewMsgServerImpl(w.c.App.DistrKeeper)
	w.stakeQ = stakingkeeper.NewQuerier(w.c.App.StakingKeeper)
	w.distQ = distrkeeper.NewQuerier(w.c.App.DistrKeeper)
	w.modules = map[common.Address]string{bondedPool: "bonded-pool", notBondedPool: "not-bonded-pool", distrModule: "distribution", feeCollector: "fee-collector"}
	w.setup()
	return w
}

func (w *world) cleanup() {
	w.c.Cleanup()
	w.mirror.Cleanup()
}

// block runs one block on the chain and replays it on the second instance.
func (w *world) block(plans []*plan, check bool) *vh.ObservedBlock {
	var txs [][]byte
	for _, p := range plans {
		txs = append(txs, p.Bz)
	}
	byBytes := map[string]*plan{}
	for _, p := range plans {
		byBytes[string(p.Bz)] = p
	}
	w.c.ClearObservers()
	w.c.OnTx(func(o *vh.TxObs) {
		if o.Mode != vh.ModeDeliver || o.Sentinel {
			return
		}
		p := byBytes[string(o.Ctx.TxBytes())]
		if p == nil || p.twin != nil || (p.Class != "op" && !(p.Class == "view" && p.Tx != nil)) {
			return
		}
		p.twin = w.runTwin(o.Ctx, p)
	})
	ob := w.c.RunObserved(txs, nil, func(ctx sdk.Context) any { return w.pendingRewards(infinite(ctx)) }, true)
	w.c.ClearObservers()
	if ob.Err != nil {
		w.run.Violation("finalize-block-error", w.label, map[string]any{"height": ob.Height, "err": ob.Err.Error()})
		return ob
	}
	// second instance of the same chain: same blocks must give the same results and app hash
	if w.diverged {
		return ob
	}
	mb := w.mirror.NextBlock(txs, nil)
	w.run.Count("blocks_replayed_on_second_instance", 1)
	if mb.Err != nil || string(mb.Res.AppHash) != string(ob.Res.AppHash) {
		w.diverged = true
		det := map[string]any{"height": ob.Height, "app_hash": fmt.Sprintf("%x", ob.Res.AppHash)}
		if mb.Err != nil {
			det["second_instance_error"] = mb.Err.Error()
		} else {
			det["second_instance_app_hash"] = fmt.Sprintf("%x", mb.Res.AppHash)
			for i := range plans {
				a, b := ob.Res.TxResults[i], mb.Res.TxResults[i]
				if a.Code != b.Code || string(a.Data) != string(b.Data) || a.GasUsed != b.GasUsed {
					det["first_differing_tx"] = map[string]any{"index": i, "desc": plans[i].Desc, "class": plans[i].Class, "method": plans[i].Method, "log": a.Log, "log2": b.Log, "code": []uint32{a.Code, b.Code}, "gas_used": []int64{a.GasUsed, b.GasUsed}}
					break
				}
			}
		}
		w.run.Violation("replay-on-second-instance-diverged", w.label, det)
	}
	if check {
		for i, p := range plans {
			w.checkTx(ob, i, p)
		}
	}
	return ob
}

func (w *world) nonce(a *vh.Acct) uint64 {
	if n, ok := w.used[a.Addr]; ok {
		w.used[a.Addr] = n + 1
		return n
	}
	n := w.c.Nonce(a.Addr)
	w.used[a.Addr] = n + 1
	return n
}

func (w *world) busy(a *vh.Acct) bool { _, ok := w.used[a.Addr]; return ok }

func (w *world) cosmosPlan(s *vh.Acct, msgs ...sdk.Msg) *plan {
	seq := w.nonce(s)
	bz := w.c.CosmosTx(s, msgs, &vh.CosmosOpts{Gas: 1_500_000, Seq: &seq})
	return &plan{Class: "native", Sender: s, Bz: bz}
}

func (w *world) setup() {
	// forwarders
	type spec struct {
		kind   string
		call   vh.CallKind
		target int // -1 = the precompile, else index of an earlier puppet
		ctx    int // -1 = own address, else index of the puppet whose context executes the final op
		static bool
	}
	specs := []spec{
		{"CALL", vh.CALL, -1, -1, false},
		{"CALLCODE", vh.CALLCODE, -1, -1, false},
		{"DELEGATECALL", vh.DELEGATECALL, -1, -1, false},
		{"DELEGATECALL>CALL", vh.DELEGATECALL, 0, -1, false}, // puppet 0's code runs in this contract's context
		{"CALL>DELEGATECALL", vh.CALL, 2, 2, false},          // calls puppet 2, which delegatecalls the precompile
		{"CALLCODE>DELEGATECALL", vh.CALLCODE, 2, -1, false}, // puppet 2's code in this contract's context
		{"STATICCALL", vh.STATICCALL, -1, -1, true},
	}
	n0 := w.c.Nonce(w.deployer.Addr)
	var txs []*plan
	for i, s := range specs {
		addr := crypto.CreateAddress(w.deployer.Addr, n0+uint64(i))
		target := w.staking
		if s.target >= 0 {
			target = w.puppets[s.target].Addr
		}
		p := &puppet{Kind: s.kind, Addr: addr, Ctx: addr, Static: s.static}
		if s.ctx >= 0 {
			p.Ctx = w.puppets[s.ctx].Addr
		}
		w.puppets = append(w.puppets, p)
		price := new(big.Int).Mul(w.c.BaseFee(), big.NewInt(2))
		bz, tx := w.c.EthTx(w.deployer, vh.LegacyTx(w.nonce(w.deployer), nil, nil, 1_000_000, price, vh.Deployer(vh.Forwarder(s.call, target, true))))
		txs = append(txs, &plan{Class: "fund", Sender: w.deployer, Bz: bz, Tx: tx})
	}
	ob := w.block(txs, false)
	w.used = map[common.Address]uint64{}
	for i, res := range ob.TxResults() {
		if res.Code != 0 {
			panic(fmt.Sprintf("deploy puppet %d: %d %s", i, res.Code, res.Log))
		}
		if rc, attrs := vh.ReceiptOf(res); rc == nil || rc.Status != 1 || common.HexToAddress(attrs["contractAddr"]) != w.puppets[i].Addr {
			panic(fmt.Sprintf("deploy puppet %d: bad receipt %v", i, attrs))
		}
	}
	// fund the contexts that stake for themselves
	var msgs []sdk.Msg
	seen := map[common.Address]bool{}
	for _, p := range w.puppets {
		if p.Static || seen[p.Ctx] {
			continue
		}
		seen[p.Ctx] = true
		msgs = append(msgs, banktypes.NewMsgSend(w.bank.Acc(), p.Ctx.Bytes(), vh.NativeCoins(800)))
	}
	ob = w.block([]*plan{w.cosmosPlan(w.bank, msgs...)}, false)
	w.used = map[common.Address]uint64{}
	if ob.TxResults()[0].Code != 0 {
		panic("fund puppets: " + ob.TxResults()[0].Log)
	}
	w.deployStaker()
	// the documented minimum reward that withdrawRewards() bothers to claim: 1/1000 coin
	ok, ret, errText := w.ethCall(w.relayer.Addr, w.staking, mustPack("decimals"))
	if !ok {
		panic("decimals(): " + errText)
	}
	out, err := cpcabi.StakingCpcInfo.ABI.Unpack("decimals", ret)
	if err != nil {
		panic(err)
	}
	dec := out[0].(uint8)
	w.minWithdraw = new(big.Int).Div(new(big.Int).Exp(big.NewInt(10), big.NewInt(int64(dec)), nil), big.NewInt(1000))
}

func mustPack(method string, args ...any) []byte {
	bz, err := cpcabi.StakingCpcInfo.ABI.Pack(method, args...)
	if err != nil {
		panic(err)
	}
	return bz
}

// ---- state probes used by the generator (committed state) ----

type delegationInfo struct {
	Val    sdk.ValAddress
	Tokens *big.Int
}

func (w *world) delegationsOf(a common.Address) []delegationInfo {
	ctx := w.c.QueryCtx()
	sk := w.c.App.StakingKeeper
	dels, _ := sk.GetAllDelegatorDelegations(ctx, a.Bytes())
	var out []delegationInfo
	for _, d := range dels {
		vb, err := sk.ValidatorAddressCodec().StringToBytes(d.ValidatorAddress)
		if err != nil {
			continue
		}
		v, err := sk.GetValidator(ctx, vb)
		if err != nil {
			continue
		}
		out = append(out, delegationInfo{Val: vb, Tokens: v.TokensFromShares(d.Shares).TruncateInt().BigInt()})
	}
	return out
}

func jsonClone(v any) map[string]any {
	b, _ := json.Marshal(v)
	m := map[string]any{}
	_ = json.Unmarshal(b, &m)
	return m
}

// ---- a contract that reads, writes and reads again inside one transaction ----

// stakerCode: with call data, forward it to the staking precompile (CALL, all gas) and return its answer; without call
// data run the sequence  rewardsOf(self) ; withdrawRewards() ; rewardsOf(self)  and return the three words
// (first answer, success flag of the withdrawal, second answer).
func stakerCode(staking common.Address) []byte {
	selRewardsOf := cpcabi.StakingCpcInfo.ABI.Methods["rewardsOf"].ID
	selWithdraw := cpcabi.StakingCpcInfo.ABI.Methods["withdrawRewards"].ID
	a := vh.NewAsm()
	a.Op(vm.CALLDATASIZE).JumpI("fwd")
	a.MStoreBytes(0, selRewardsOf)
	a.Op(vm.ADDRESS).PushU(4).Op(vm.MSTORE)
	a.CallMem(vh.STATICCALL, staking, nil, 0, 0, 36, 0x100, 32).Op(vm.POP)
	a.MStoreBytes(0x40, selWithdraw)
	a.CallMem(vh.CALL, staking, nil, 0, 0x40, 4, 0x180, 32)
	a.PushU(0x120).Op(vm.MSTORE)
	a.CallMem(vh.STATICCALL, staking, nil, 0, 0, 36, 0x140, 32).Op(vm.POP)
	a.PushU(0x60).PushU(0x100).Op(vm.RETURN)
	a.Label("fwd")
	a.Op(vm.CALLDATASIZE).PushU(0).PushU(0).Op(vm.CALLDATACOPY)
	a.PushU(0).PushU(0).Op(vm.CALLDATASIZE).PushU(0).PushU(0).PushAddr(staking).Op(vm.GAS, vm.CALL)
	a.Op(vm.RETURNDATASIZE).PushU(0).PushU(0).Op(vm.RETURNDATACOPY)
	a.JumpI("ok")
	a.Op(vm.RETURNDATASIZE).PushU(0).Op(vm.REVERT)
	a.Label("ok")
	a.Op(vm.RETURNDATASIZE).PushU(0).Op(vm.RETURN)
	return a.Bytes()
}

func (w *world) deployStaker() {
	price := new(big.Int).Mul(w.c.BaseFee(), big.NewInt(2))
	w.staker = crypto.CreateAddress(w.deployer.Addr, w.c.Nonce(w.deployer.Addr))
	bz, tx := w.c.EthTx(w.deployer, vh.LegacyTx(w.nonce(w.deployer), nil, vh.Ether(60), 1_000_000, price, vh.Deployer(stakerCode(w.staking))))
	ob := w.block([]*plan{{Class: "fund", Sender: w.deployer, Bz: bz, Tx: tx}}, false)
	w.used = map[common.Address]uint64{}
	if res := ob.TxResults()[0]; res.Code != 0 {
		panic("deploy staker: " + res.Log)
	}
	// it delegates to every validator (so that rewards accrue to it from now on)
	var txs []*plan
	for _, v := range w.c.Vals {
		to := w.staker
		data := mustPack("delegate", common.BytesToAddress(v.Oper), vh.Ether(10))
		bz, tx := w.c.EthTx(w.deployer, vh.LegacyTx(w.nonce(w.deployer), &to, nil, 1_500_000, price, data))
		txs = append(txs, &plan{Class: "fund", Sender: w.deployer, Bz: bz, Tx: tx})
	}
	ob = w.block(txs, false)
	w.used = map[common.Address]uint64{}
	for _, res := range ob.TxResults() {
		if rc, _ := vh.ReceiptOf(res); res.Code != 0 || rc == nil || rc.Status != 1 {
			panic("staker delegation failed: " + res.Log)
		}
	}
}

// planViewSequence: somebody calls the staker contract without call data.
func (w *world) planViewSequence() *plan {
	sender := w.freeEOA(true)
	if sender == nil {
		return nil
	}
	to := w.staker
	return w.ethPlanFn(sender, &to, nil, 3_000_000, func(*big.Int) ([]byte, *plan) {
		return nil, &plan{Class: "viewseq", Method: "rewardsOf;withdrawRewards;rewardsOf", CallerKind: "contract-in-one-tx"}
	})
}

// totalBondRewards: what the native total-rewards query answers for the delegator on a pending-rewards view
// (per-delegation DecCoins summed, bond denomination, integer part).
func totalBondRewards(view map[string]string, delegator common.Address) *big.Int {
	total := sdk.DecCoins{}
	pre := sdk.AccAddress(delegator.Bytes()).String() + "|"
	for k, v := range view {
		if !strings.HasPrefix(k, pre) {
			continue
		}
		dc, err := sdk.ParseDecCoins(v)
		if err != nil {
			continue
		}
		total = total.Add(dc...)
	}
	return total.AmountOf(vh.Denom).TruncateInt().BigInt()
}

func (w *world) checkViewSequence(ob *vh.ObservedBlock, i int, p *plan) {
	run := w.run
	res := ob.Res.TxResults[i]
	preV, ok1 := ob.Pre[i].View.(map[string]string)
	postV, ok2 := ob.Post[i].View.(map[string]string)
	resp := vh.EthResponse(res)
	if !ob.Reached[i] || !ok1 || !ok2 || resp == nil || resp.VmError != "" || len(resp.Ret) != 96 {
		run.Count("view_sequences_not_executed", 1)
		return
	}
	run.Eval(1)
	first, flag, second := new(big.Int).SetBytes(resp.Ret[:32]), new(big.Int).SetBytes(resp.Ret[32:64]), new(big.Int).SetBytes(resp.Ret[64:])
	wantFirst, wantSecond := totalBondRewards(preV, w.staker), totalBondRewards(postV, w.staker)
	run.Count("view_sequences_checked", 1)
	if flag.Sign() > 0 && wantFirst.Cmp(wantSecond) != 0 {
		run.Count("view_sequences_with_a_withdrawal_in_between", 1)
	}
	run.Nontrivial(fmt.Sprintf("viewseq|withdrawn=%v|rewards-before-zero=%v", flag.Sign() > 0, wantFirst.Sign() == 0))
	wit := map[string]any{"world": w.label, "height": ob.Height, "index": i, "contract": w.staker.Hex(), "rewardsOf_before": first.String(), "native_before": wantFirst.String(),
		"withdrawRewards_succeeded": flag.Sign() > 0, "rewardsOf_after": second.String(), "native_after": wantSecond.String()}
	if first.Cmp(wantFirst) != 0 {
		run.Violation("view-in-tx-differs-from-native:rewardsOf:before-write", w.label, wit)
	}
	if second.Cmp(wantSecond) != 0 {
		run.Violation("view-in-tx-differs-from-native:rewardsOf:after-write-in-same-tx", w.label, wit)
	}
}
