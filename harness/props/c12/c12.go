// Package c12 decides C12: read-only (STATICCALL) EVM contexts cannot change state through
// custom precompiles; read-only methods never write; state-changing methods cost gas.
// Engine: chains of calldata forwarders (E3b) ending in a call to a custom precompile,
// per-transaction full-store write sets from the tx-boundary observer.
package c12

import (
	"fmt"
	"math/big"
	"sort"
	"strings"

	sdkmath "cosmossdk.io/math"
	sdk "github.com/cosmos/cosmos-sdk/types"
	banktypes "github.com/cosmos/cosmos-sdk/x/bank/types"
	"github.com/ethereum/go-ethereum/accounts/abi"
	"github.com/ethereum/go-ethereum/common"
	"github.com/ethereum/go-ethereum/crypto"

	cpcabi "github.com/EscanBE/evermint/v12/x/cpc/abi"
	cpctypes "github.com/EscanBE/evermint/v12/x/cpc/types"

	"verifharness/vh"
)

type method struct {
	Kind     string // erc20 | staking | bech32
	Addr     common.Address
	Selector [4]byte
	Name     string
	ReadOnly bool
	Gas      uint64
}

type env struct {
	run     *vh.Run
	c       *vh.Chain
	r       *vh.RNG
	sender  *vh.Acct // sends the probe transactions (pays fees only)
	owner   *vh.Acct // holder that approved every final forwarder (transferFrom / burnFrom)
	rcpt    *vh.Acct
	deploy  *vh.Acct
	methods []method
	finals  map[string]map[vh.CallKind]common.Address // kind -> final opcode -> L
	nonce   uint64
}

func Run(run *vh.Run) {
	variants := run.N(2, 20)
	for v := 0; v < variants; v++ {
		label := fmt.Sprintf("variant-%d", v)
		if !run.WantCase(label) {
			continue
		}
		one(run, label, v)
	}
	run.Rule = "For every method in the registered method table of every custom precompile (read at run time from the keeper's executor list: selector, ReadOnly(), RequireGas()) x every final call opcode (CALL, CALLCODE, DELEGATECALL, STATICCALL) x every chain depth 1..4 x every position of the STATICCALL ancestor, one transaction through a chain of calldata forwarders with arguments that succeed outside a static context (funded caller, existing delegation, approved spender); oracle: the observed full-store write set must be within {sender sequence, fee movement} and the receipt must carry no log. Plus: read-only methods called without any static ancestor must not write; state-changing methods called directly must consume precompile gas. Non-trivial = distinct (precompile, method, final opcode, depth, static position, edge-kind pattern)."
	run.Exhaustive(true)
	run.Floor("trees executed", run.Get("trees_executed"), int64(run.N(1000, 20000)))
	run.Floor("state-changing methods that demonstrably write outside static context (controls)", run.Get("control_writes_observed"), 8)
	run.Assumptions = append(run.Assumptions, "signed-message variants cannot be satisfied by a contract caller (signer must equal caller): exercised with well-formed but unsatisfiable arguments",
		"final forwarders are entered by CALL or STATICCALL so that the precompile's caller is the funded, set-up contract")
}

func one(run *vh.Run, label string, variant int) {
	r := run.RNG("c12", variant)
	e := &env{run: run, r: r, finals: map[string]map[vh.CallKind]common.Address{}}
	e.sender, e.owner, e.rcpt, e.deploy = vh.NewAcct(r), vh.NewAcct(r), vh.NewAcct(r), vh.NewAcct(r)
	var accts []vh.GenAccount
	for _, a := range []*vh.Acct{e.sender, e.owner, e.rcpt, e.deploy} {
		accts = append(accts, vh.GenAccount{Addr: a.Addr, Coins: vh.NativeCoins(100000).Add(sdk.NewCoin(vh.SecondDenom, sdkmath.NewInt(1_000_000)))})
	}
	e.c = vh.NewChain(vh.Config{Seed: r.U64(), NumVals: 2, Erc20Native: true, StakingCPC: true, Accounts: accts, Inflation: true})
	defer e.c.Cleanup()
	c := e.c
	ctx := c.QueryCtx()
	// method table from the keeper's own executor list
	abis := map[string]abi.ABI{"erc20": cpcabi.Erc20CpcInfo.ABI, "staking": cpcabi.StakingCpcInfo.ABI, "bech32": cpcabi.Bech32CpcInfo.ABI}
	for _, ct := range c.App.CPCKeeper.GetAllCustomPrecompiledContracts(ctx) {
		meta := ct.GetMetadata()
		kind := map[uint32]string{cpctypes.CpcTypeErc20: "erc20", cpctypes.CpcTypeStaking: "staking", cpctypes.CpcTypeBech32: "bech32"}[meta.CustomPrecompiledType]
		if kind == "" {
			kind = fmt.Sprintf("type-%d", meta.CustomPrecompiledType)
		}
		for _, ex := range ct.GetMethodExecutors() {
			m := method{Kind: kind, Addr: common.BytesToAddress(meta.Address), ReadOnly: ex.ReadOnly(), Gas: ex.RequireGas()}
			copy(m.Selector[:], ex.Method4BytesSignatures())
			if a, ok := abis[kind]; ok {
				if am, err := a.MethodById(m.Selector[:]); err == nil {
					m.Name = am.Name
				}
			}
			if m.Name == "" {
				m.Name = fmt.Sprintf("unknown-%x", m.Selector)
			}
			e.methods = append(e.methods, m)
			if !m.ReadOnly && m.Gas == 0 {
				run.Violation("state-changing-method-declares-zero-gas:"+kind+":"+m.Name, label, map[string]any{"method": m.Name})
			}
		}
	}
	sort.Slice(e.methods, func(i, j int) bool {
		if e.methods[i].Kind != e.methods[j].Kind {
			return e.methods[i].Kind < e.methods[j].Kind
		}
		return e.methods[i].Name < e.methods[j].Name
	})
	run.Set("method_table_size", len(e.methods))
	kinds := map[string]common.Address{}
	for _, m := range e.methods {
		kinds[m.Kind] = m.Addr
	}
	// odd variants: coins of another denomination sit at the precompiles' own addresses (sent there by mistake, as happens):
	// a read-only call tree that merely touches such an address may not remove them
	if variant%2 == 1 {
		var msgs []sdk.Msg
		var ks []string
		for k := range kinds {
			ks = append(ks, k)
		}
		sort.Strings(ks)
		for _, k := range ks {
			a := kinds[k]
			msgs = append(msgs, banktypes.NewMsgSend(e.owner.Acc(), a.Bytes(), sdk.NewCoins(sdk.NewCoin(vh.SecondDenom, sdkmath.NewInt(int64(1+r.Intn(1000)))))))
		}
		mustOK(run, label, "park a second denomination at the precompile addresses", c.NextBlock([][]byte{c.CosmosTx(e.owner, msgs, &vh.CosmosOpts{Gas: 600000})}, nil))
		run.Count("worlds_with_foreign_coins_parked_at_precompile_addresses", 1)
	}
	// final forwarders L[kind][opcode]
	price := new(big.Int).Mul(c.BaseFee(), big.NewInt(3))
	// even variants: somebody transfers ZERO tokens to each precompile address through the ERC-20 precompile beforehand
	// (moves nothing; whatever it may leave behind at those addresses, a later read-only tree may not change it)
	if erc20, ok := kinds["erc20"]; ok && variant%2 == 0 {
		var ks []string
		for k := range kinds {
			ks = append(ks, k)
		}
		sort.Strings(ks)
		var txs [][]byte
		on0 := c.Nonce(e.owner.Addr)
		for i, k := range ks {
			data, err := cpcabi.Erc20CpcInfo.ABI.Pack("transfer", kinds[k], big.NewInt(0))
			if err != nil {
				continue
			}
			to := erc20
			bz, _ := c.EthTx(e.owner, vh.LegacyTx(on0+uint64(i), &to, nil, 300_000, price, data))
			txs = append(txs, bz)
		}
		mustOK(run, label, "zero-value ERC-20 transfers to the precompile addresses", c.NextBlock(txs, nil))
		run.Count("worlds_with_zero_value_transfers_to_precompile_addresses", 1)
	}
	var setup [][]byte
	dn := c.Nonce(e.deploy.Addr)
	var kindNames []string
	for k := range kinds {
		kindNames = append(kindNames, k)
	}
	sort.Strings(kindNames)
	for _, k := range kindNames {
		e.finals[k] = map[vh.CallKind]common.Address{}
		for _, f := range []vh.CallKind{vh.CALL, vh.CALLCODE, vh.DELEGATECALL, vh.STATICCALL} {
			addr := crypto.CreateAddress(e.deploy.Addr, dn)
			bz, _ := c.EthTx(e.deploy, vh.LegacyTx(dn, nil, nil, 1_000_000, price, vh.Deployer(vh.Forwarder(f, kinds[k], false))))
			setup = append(setup, bz)
			e.finals[k][f] = addr
			dn++
		}
	}
	mustOK(run, label, "deploy finals", c.NextBlock(setup, nil))
	// fund every final forwarder, approve it from the owner, give it a delegation where it can create one itself
	setup = nil
	on := c.Nonce(e.owner.Addr)
	erc20 := kinds["erc20"]
	staking := kinds["staking"]
	val0 := common.BytesToAddress(c.Vals[0].Oper)
	val1 := common.BytesToAddress(c.Vals[1].Oper)
	for _, k := range kindNames {
		for _, f := range []vh.CallKind{vh.CALL, vh.CALLCODE, vh.DELEGATECALL, vh.STATICCALL} {
			l := e.finals[k][f]
			bz, _ := c.EthTx(e.owner, vh.LegacyTx(on, &l, vh.Ether(100), 100000, price, nil))
			setup = append(setup, bz)
			on++
			data, _ := cpcabi.Erc20CpcInfo.ABI.Pack("approve", l, vh.Ether(50))
			bz, _ = c.EthTx(e.owner, vh.LegacyTx(on, &erc20, nil, 300000, price, data))
			setup = append(setup, bz)
			on++
			if k == "staking" && f != vh.STATICCALL {
				data, _ := cpcabi.StakingCpcInfo.ABI.Pack("delegate", val0, vh.Ether(3))
				bz, _ = c.EthTx(e.owner, vh.LegacyTx(on, &l, nil, 1_500_000, price, data))
				setup = append(setup, bz)
				on++
			}
		}
	}
	mustOK(run, label, "fund/approve/delegate finals", c.NextBlock(setup, nil))
	for i := 0; i < 3; i++ { // let rewards accrue
		c.NextBlock(nil, nil)
	}
	_ = staking
	// argument builders
	args := func(m method, l common.Address) ([]byte, string) {
		var a abi.ABI
		switch m.Kind {
		case "erc20":
			a = cpcabi.Erc20CpcInfo.ABI
		case "staking":
			a = cpcabi.StakingCpcInfo.ABI
		case "bech32":
			a = cpcabi.Bech32CpcInfo.ABI
		default:
			return append(m.Selector[:], make([]byte, 96)...), "zero-args"
		}
		amt := func(n int64) *big.Int { return big.NewInt(n + int64(r.Intn(1000))) }
		var in []any
		class := "valid"
		switch m.Kind + "." + m.Name {
		case "erc20.allowance":
			in = []any{e.owner.Addr, l}
		case "erc20.approve":
			in = []any{e.rcpt.Addr, amt(123456)}
		case "erc20.balanceOf", "staking.balanceOf", "staking.delegatedValidators", "staking.rewardsOf", "staking.totalDelegationOf":
			in = []any{l}
		case "erc20.burn":
			in = []any{amt(700000)}
		case "erc20.burnFrom":
			in = []any{e.owner.Addr, amt(300000)}
		case "erc20.transfer":
			in = []any{e.rcpt.Addr, amt(1000000)}
		case "erc20.transferFrom":
			in = []any{e.owner.Addr, e.rcpt.Addr, amt(500000)}
		case "staking.delegate":
			in = []any{val0, new(big.Int).Add(big.NewInt(1e15), amt(0))}
		case "staking.undelegate":
			in = []any{val0, new(big.Int).Add(big.NewInt(1e14), amt(0))}
		case "staking.redelegate":
			in = []any{val0, val1, new(big.Int).Add(big.NewInt(1e14), amt(0))}
		case "staking.withdrawReward":
			in = []any{val0}
		case "staking.delegationOf", "staking.rewardOf":
			in = []any{l, val0}
		case "staking.transfer":
			in = []any{l, new(big.Int).Add(big.NewInt(1e15), amt(0))}
		case "bech32.bech32Decode":
			in = []any{e.owner.Bech32()}
		case "bech32.bech32EncodeAddress":
			in = []any{"evm", e.owner.Addr}
		case "bech32.bech32Encode32BytesAddress":
			in = []any{"evm", [32]byte{1, 2, 3}}
		case "bech32.bech32EncodeBytes":
			in = []any{"evm", []byte{1, 2, 3, 4}}
		default:
			am, err := a.MethodById(m.Selector[:])
			if err == nil && len(am.Inputs) == 0 {
				in = nil
			} else {
				// signed-message variants and unknown methods: well-formed zero arguments
				n := 32 * 12
				return append(append([]byte{}, m.Selector[:]...), make([]byte, n)...), "unsatisfiable-or-unknown"
			}
		}
		data, err := a.Pack(m.Name, in...)
		if err != nil {
			return append(append([]byte{}, m.Selector[:]...), make([]byte, 96)...), "pack-failed"
		}
		return data, class
	}

	// chains: depth d, static position p (1-based), edge kinds
	type chain struct {
		kinds []vh.CallKind
		head  common.Address
	}
	buildChains := func(k string, f vh.CallKind, mixed bool) []chain {
		var out []chain
		for d := 1; d <= 4; d++ {
			for p := 1; p <= d; p++ {
				ks := make([]vh.CallKind, d)
				for i := range ks {
					ks[i] = vh.CALL
					if mixed && i != d-1 {
						ks[i] = vh.Pick(r, []vh.CallKind{vh.CALL, vh.DELEGATECALL, vh.CALLCODE})
					}
				}
				ks[p-1] = vh.STATICCALL
				out = append(out, chain{kinds: ks})
			}
		}
		return out
	}
	mixed := variant > 0
	type job struct {
		m     method
		f     vh.CallKind
		ch    chain
		l     common.Address
		data  []byte
		class string
	}
	var jobs []job
	var deployTxs [][]byte
	dn = c.Nonce(e.deploy.Addr)
	chainsFor := map[string][]chain{}
	for _, k := range kindNames {
		for _, f := range []vh.CallKind{vh.CALL, vh.CALLCODE, vh.DELEGATECALL, vh.STATICCALL} {
			chs := buildChains(k, f, mixed)
			for ci := range chs {
				// deploy from the tail: node i forwards with kinds[i] to node i+1 (or L)
				next := e.finals[k][f]
				for i := len(chs[ci].kinds) - 1; i >= 0; i-- {
					addr := crypto.CreateAddress(e.deploy.Addr, dn)
					bz, _ := c.EthTx(e.deploy, vh.LegacyTx(dn, nil, nil, 1_000_000, price, vh.Deployer(vh.Forwarder(chs[ci].kinds[i], next, false))))
					deployTxs = append(deployTxs, bz)
					dn++
					next = addr
				}
				chs[ci].head = next
			}
			chainsFor[k+"/"+f.String()] = chs
		}
	}
	for i := 0; i < len(deployTxs); i += 100 {
		mustOK(run, label, "deploy chains", c.NextBlock(deployTxs[i:min(i+100, len(deployTxs))], nil))
	}
	for _, m := range e.methods {
		for _, f := range []vh.CallKind{vh.CALL, vh.CALLCODE, vh.DELEGATECALL, vh.STATICCALL} {
			for _, ch := range chainsFor[m.Kind+"/"+f.String()] {
				l := e.finals[m.Kind][f]
				data, class := args(m, l)
				jobs = append(jobs, job{m: m, f: f, ch: ch, l: l, data: data, class: class})
			}
		}
	}
	// execute: a few probes per block, each bracketed by full dumps
	e.nonce = c.Nonce(e.sender.Addr)
	for i := 0; i < len(jobs); i += 20 {
		batch := jobs[i:min(i+20, len(jobs))]
		var txs [][]byte
		for _, j := range batch {
			to := j.ch.head
			bz, _ := c.EthTx(e.sender, vh.LegacyTx(e.nonce, &to, nil, 3_000_000, price, j.data))
			txs = append(txs, bz)
			e.nonce++
		}
		ob := c.RunObserved(txs, nil, nil, true)
		for bi, j := range batch {
			res := ob.Res.TxResults[bi]
			run.Eval(1)
			run.Count("trees_executed", 1)
			pat := make([]string, len(j.ch.kinds))
			pos := 0
			for x, k := range j.ch.kinds {
				pat[x] = k.String()
				if k == vh.STATICCALL {
					pos = x + 1
				}
			}
			run.Nontrivial(fmt.Sprintf("%s.%s|%s|d%d|p%d|%s", j.m.Kind, j.m.Name, j.f, len(j.ch.kinds), pos, strings.Join(pat, ">")))
			run.Distinct("method_x_final", fmt.Sprintf("%s.%s|%s", j.m.Kind, j.m.Name, j.f))
			diff := vh.Diff(ob.Pre[bi].Dump, ob.Post[bi].Dump)
			extra := nonTrivialWritesJ(diff, e.sender.Addr, j.f == vh.STATICCALL)
			if j.f == vh.STATICCALL {
				run.Count("static_final_trees_with_the_account_counter_judged", 1)
			}
			rc, _ := vh.ReceiptOf(res)
			nlogs := 0
			if rc != nil {
				nlogs = len(rc.Logs)
			}
			if len(extra) > 0 || nlogs > 0 {
				sig := "cpc-write-under-static-ancestor:final=STATICCALL"
				if j.f != vh.STATICCALL {
					sig = "cpc-write-under-static-ancestor:non-static-final-opcode"
				}
				if j.m.ReadOnly {
					sig = "readonly-method-wrote-state:" + j.m.Kind + ":" + j.m.Name
				}
				run.Violation(sig, label, map[string]any{"precompile": j.m.Kind, "method": j.m.Name, "declared_read_only": j.m.ReadOnly, "final_opcode": j.f.String(),
					"chain": pat, "call_data": fmt.Sprintf("%x", j.data), "args_class": j.class, "code": res.Code, "log": res.Log,
					"unexpected_writes": vh.ChangeStrings(extra), "receipt_logs": nlogs})
			}
		}
	}
	// controls without any static ancestor: (a) read-only methods must not write; (b) state-changing methods do write
	// (proves the arguments are good and a protection failure would be observable) and consume precompile gas.
	for i := 0; i < len(e.methods); i += 10 {
		batch := e.methods[i:min(i+10, len(e.methods))]
		var txs [][]byte
		type ctl struct {
			m      method
			data   []byte
			class  string
			direct bool
			tx     uint64
		}
		var ctls []ctl
		for _, m := range batch {
			// via L(final=CALL) called directly: caller of the precompile is L
			l := e.finals[m.Kind][vh.CALL]
			data, class := args(m, l)
			bz, _ := c.EthTx(e.sender, vh.LegacyTx(e.nonce, &l, nil, 3_000_000, price, data))
			txs = append(txs, bz)
			ctls = append(ctls, ctl{m: m, data: data, class: class})
			e.nonce++
		}
		ob := c.RunObserved(txs, nil, nil, true)
		for bi, ct := range ctls {
			res := ob.Res.TxResults[bi]
			diff := vh.Diff(ob.Pre[bi].Dump, ob.Post[bi].Dump)
			extra := nonTrivialWrites(diff, e.sender.Addr)
			run.Eval(1)
			if ct.m.ReadOnly {
				run.Count("readonly_controls", 1)
				if len(extra) > 0 {
					run.Violation("readonly-method-wrote-state:"+ct.m.Kind+":"+ct.m.Name, label, map[string]any{"method": ct.m.Name, "context": "no static ancestor", "unexpected_writes": vh.ChangeStrings(extra)})
				}
			} else if len(extra) > 0 {
				run.Count("control_writes_observed", 1)
				run.Distinct("methods_with_observable_write", ct.m.Kind+"."+ct.m.Name)
				// gas law: a call that changed state consumed more than a plain forwarder round trip would:
				// compare with the declared RequireGas — the fork deducts it before running the method.
				if ct.m.Gas == 0 {
					run.Violation("state-changing-call-charged-zero-precompile-gas:"+ct.m.Kind+":"+ct.m.Name, label, map[string]any{"method": ct.m.Name})
				}
				_ = res
			}
		}
	}
	// direct calls from an EOA (tx.To = precompile): gas used - intrinsic must be > 0 whenever the write set is non-trivial
	var txs [][]byte
	var direct []method
	var datas [][]byte
	on = c.Nonce(e.owner.Addr)
	for _, m := range e.methods {
		if m.ReadOnly {
			continue
		}
		data, _ := args(m, e.owner.Addr)
		switch m.Kind + "." + m.Name { // the owner is the caller here: use arguments that succeed for it
		case "erc20.transferFrom", "erc20.burnFrom":
			continue
		}
		to := m.Addr
		bz, _ := c.EthTx(e.owner, vh.LegacyTx(on, &to, nil, 3_000_000, price, data))
		on++
		txs = append(txs, bz)
		direct = append(direct, m)
		datas = append(datas, data)
	}
	ob := c.RunObserved(txs, nil, nil, true)
	for bi, m := range direct {
		res := ob.Res.TxResults[bi]
		diff := vh.Diff(ob.Pre[bi].Dump, ob.Post[bi].Dump)
		extra := nonTrivialWrites(diff, e.owner.Addr)
		rc, attrs := vh.ReceiptOf(res)
		if rc == nil || len(extra) == 0 {
			continue
		}
		var gasUsed uint64
		fmt.Sscan(attrs["gasUsed"], &gasUsed)
		_, tx := c.EthTx(e.owner, vh.LegacyTx(0, &m.Addr, nil, 3_000_000, price, datas[bi]))
		intrinsic := vh.IntrinsicGas(tx)
		run.Count("direct_state_changing_calls_with_writes", 1)
		if gasUsed <= intrinsic {
			run.Violation("state-changing-call-charged-zero-precompile-gas:"+m.Kind+":"+m.Name, label, map[string]any{"method": m.Name, "gas_used": gasUsed, "intrinsic": intrinsic})
		}
		run.Sample(map[string]any{"direct_call": m.Kind + "." + m.Name, "gas_used": gasUsed, "intrinsic": intrinsic, "writes": len(extra)})
	}
}

func mustOK(run *vh.Run, label, what string, br *vh.BlockResult) {
	if br.Err != nil {
		run.Violation("setup-failed", label, map[string]any{"step": what, "err": br.Err.Error()})
		return
	}
	for i, r := range br.TxResults() {
		if r.Code != 0 {
			run.Inconclusive(fmt.Sprintf("setup step %q tx %d failed: %s", what, i, r.Log))
			return
		}
	}
}

// nonTrivialWrites filters a write set down to what is NOT explained by the sender's
// sequence increment and the fee movement (incl. first-use module account records and the
// supply / EVM-module bookkeeping of the fee refund).
func nonTrivialWrites(diff []vh.Change, sender common.Address) []vh.Change {
	return nonTrivialWritesJ(diff, sender, false)
}

// nonTrivialWritesJ: with judgeCounter, a move of x/auth's global account number that no new account record in the same
// write set explains counts as a write (an account was created and swept again inside the transaction). Only asked for
// where the precompile is entered by STATICCALL: a CALL to an address without an account record creates one in
// go-ethereum itself (and the sweep of empty accounts removes it), whatever the callee is.
func nonTrivialWritesJ(diff []vh.Change, sender common.Address, judgeCounter bool) []vh.Change {
	newRecords := 0
	for _, ch := range diff {
		if ch.Store == "acc" && len(ch.Key) > 0 && ch.Key[0] == 0x01 && ch.Old == nil {
			newRecords++
		}
	}
	feeColl := vh.FeeCollectorAddr.Bytes()
	evmMod := vh.EvmModuleAddr.Bytes()
	var out []vh.Change
	has := func(key []byte, addr []byte) bool { return strings.Contains(string(key), string(addr)) }
	for _, ch := range diff {
		switch ch.Store {
		case "acc":
			if len(ch.Key) > 0 && ch.Key[0] == 0x01 && (has(ch.Key, sender.Bytes()) || has(ch.Key, feeColl) || has(ch.Key, evmMod)) {
				continue
			}
			if len(ch.Key) > 0 && ch.Key[0] != 0x01 { // global account number counter / index
				if !judgeCounter || newRecords > 0 || ch.Key[0] != 0x02 {
					continue
				}
			}
		case "bank":
			if len(ch.Key) > 0 && ch.Key[0] == 0x00 { // supply
				continue
			}
			if has(ch.Key, sender.Bytes()) || has(ch.Key, feeColl) || has(ch.Key, evmMod) {
				continue
			}
		}
		out = append(out, ch)
	}
	return out
}

var _ = sdk.AccAddress{}
