package c13

import (
	"fmt"
	"strings"

	"github.com/ethereum/go-ethereum/common"
	ethtypes "github.com/ethereum/go-ethereum/core/types"
	"github.com/ethereum/go-ethereum/crypto"
)

// Finding is one refutation of C13 inside one block.
type Finding struct {
	Sig      string `json:"signature"`
	Pos      int    `json:"pos"` // block position of the offending tx (-1: block level)
	Expected any    `json:"expected"`
	Observed any    `json:"observed"`
	Note     string `json:"note,omitempty"`
}

// bloomOfLogs recomputes a bloom from logs alone with go-ethereum's function.
func bloomOfLogs(logs []*ethtypes.Log) ethtypes.Bloom {
	return ethtypes.BytesToBloom(ethtypes.LogsBloom(logs))
}

func orBloom(a *ethtypes.Bloom, b ethtypes.Bloom) {
	for i := range a {
		a[i] |= b[i]
	}
}

// CheckBlock applies the six laws of C13 to one parsed block. Everything expected is taken
// from BlockTruth's recomputed fields (EthIndex, LogStart, CumGas, Created) or recomputed here
// from the logs; everything observed is what the events / marshalled receipt say.
func CheckBlock(bt *BlockTruth) []Finding {
	var out []Finding
	add := func(sig string, pos int, exp, obs any, note string) {
		out = append(out, Finding{Sig: sig, Pos: pos, Expected: exp, Observed: obs, Note: note})
	}
	var union ethtypes.Bloom
	var allLogs []*ethtypes.Log
	for _, t := range bt.Eth {
		// structural sanity of the event stream
		if t.NEthEvents > 1 {
			add("duplicate-ethereum-tx-event", t.Pos, 1, t.NEthEvents, "")
		}
		if t.NReceiptEvents > 1 {
			add("duplicate-tx-receipt-event", t.Pos, 1, t.NReceiptEvents, "")
		}
		if t.HasReceipt && !t.Reached {
			add("receipt-without-ethereum-tx-event", t.Pos, "ethereum_tx event", "absent", "")
		}
		if t.HasReceipt && t.Code != 0 {
			add("receipt-on-failed-tx-result", t.Pos, "code 0", t.Code, trunc(t.Log, 120))
		}
		if !t.Reached {
			continue
		}
		if t.SenderErr != "" {
			add("executed-tx-with-unrecoverable-sender", t.Pos, "recoverable signature", t.SenderErr, "")
		}
		// (1) numbering 0,1,2,... in block order over the txs that reached execution
		if !t.EvTxIndexOK || t.EvTxIndex != int64(t.EthIndex) {
			add("tx-index-not-sequential:ethereum_tx", t.Pos, t.EthIndex, t.EvTxIndex, "ethereum_tx.txIndex")
		}
		if !strings.EqualFold(t.EvHash, t.Hash.Hex()) {
			add("tx-hash-mismatch:ethereum_tx", t.Pos, t.Hash.Hex(), t.EvHash, "")
		}
		if !t.HasReceipt {
			continue
		}
		if len(t.AttrErr) > 0 {
			add("receipt-attribute-missing-or-malformed", t.Pos, "well-formed attributes", t.AttrErr, "")
		}
		if t.Receipt == nil {
			add("receipt-undecodable", t.Pos, "decodable marshalled receipt", t.ReceiptErr, "")
			continue
		}
		rc := t.Receipt
		if t.RcTxIdx != int64(t.EthIndex) {
			add("tx-index-not-sequential:tx_receipt", t.Pos, t.EthIndex, t.RcTxIdx, "tx_receipt.txIdx")
		}
		if !strings.EqualFold(t.RcEvmTxHash, t.Hash.Hex()) {
			add("tx-hash-mismatch:tx_receipt", t.Pos, t.Hash.Hex(), t.RcEvmTxHash, "")
		}
		if bt.Height != 0 && t.RcBlockNumber != bt.Height {
			add("receipt-block-number-mismatch", t.Pos, bt.Height, t.RcBlockNumber, "")
		}
		// (2) log numbering: first log index == number of logs of all earlier Ethereum txs
		if len(rc.Logs) > 0 {
			switch {
			case t.RcLogIdx < 0:
				add("log-index-missing", t.Pos, t.LogStart, "attribute logIdx absent", fmt.Sprintf("%d logs", len(rc.Logs)))
			case uint64(t.RcLogIdx) != t.LogStart:
				add("log-index-not-cumulative", t.Pos, t.LogStart, t.RcLogIdx,
					fmt.Sprintf("tx carries %d logs; %d logs were emitted by earlier Ethereum txs of the block", len(rc.Logs), t.LogStart))
			}
		}
		// (3) cumulative gas == running sum (receipt gas used; gas limit for admitted txs without receipt)
		if rc.CumulativeGasUsed != t.CumGas {
			add("cumulative-gas-not-running-sum", t.Pos, t.CumGas, rc.CumulativeGasUsed, "")
		}
		if t.Code == 0 && (uint64(t.GasUsed) != t.RcGasUsed || (t.RespPresent && t.RespGasUsed != t.RcGasUsed)) {
			add("receipt-gas-used-differs-from-tx-result", t.Pos, t.RcGasUsed, map[string]any{"ExecTxResult.GasUsed": t.GasUsed, "response.gas_used": t.RespGasUsed}, "")
		}
		if t.RcGasUsed > t.Tx.Gas() {
			add("receipt-gas-used-above-limit", t.Pos, t.Tx.Gas(), t.RcGasUsed, "")
		}
		// (4) status == 1 exactly when no VM error
		ok := rc.Status == ethtypes.ReceiptStatusSuccessful
		if rc.Status != ethtypes.ReceiptStatusSuccessful && rc.Status != ethtypes.ReceiptStatusFailed {
			add("receipt-status-out-of-range", t.Pos, "0 or 1", rc.Status, "")
		}
		if ok == t.RcHasError {
			add("status-disagrees-with-vm-error:event", t.Pos, map[string]any{"status": rc.Status}, map[string]any{"error_attr_present": t.RcHasError, "error": t.RcError}, "")
		}
		if t.RespPresent && ok != (t.RespVMError == "") {
			add("status-disagrees-with-vm-error:response", t.Pos, map[string]any{"status": rc.Status}, map[string]any{"vm_error": t.RespVMError}, "")
		}
		// (5) bloom of the receipt == bloom of its own logs
		want := bloomOfLogs(rc.Logs)
		if rc.Bloom != want {
			add("receipt-bloom-differs-from-own-logs", t.Pos, common.Bytes2Hex(want[:]), common.Bytes2Hex(rc.Bloom[:]), "")
		}
		orBloom(&union, rc.Bloom)
		allLogs = append(allLogs, rc.Logs...)
		// (6) created-contract address
		isCreateOK := t.Tx.To() == nil && ok
		switch {
		case isCreateOK && t.RcContractAddr == "":
			add("contract-address-missing-on-successful-creation", t.Pos, crypto.CreateAddress(t.Sender, t.Tx.Nonce()).Hex(), "", "")
		case isCreateOK && !strings.EqualFold(t.RcContractAddr, crypto.CreateAddress(t.Sender, t.Tx.Nonce()).Hex()):
			add("contract-address-not-create-address", t.Pos, crypto.CreateAddress(t.Sender, t.Tx.Nonce()).Hex(), t.RcContractAddr,
				fmt.Sprintf("sender %s nonce %d", t.Sender.Hex(), t.Tx.Nonce()))
		case !isCreateOK && t.RcContractAddr != "":
			sig := "contract-address-reported-on-failed-creation"
			if t.Tx.To() != nil {
				sig = "contract-address-reported-on-call"
			}
			add(sig, t.Pos, "", t.RcContractAddr, "")
		}
	}
	// block bloom == union of the receipts' blooms (and == bloom of all logs of the block)
	switch {
	case bt.NBloomEvents == 0:
		add("block-bloom-event-missing", -1, 1, 0, "")
	case bt.NBloomEvents > 1:
		add("duplicate-block-bloom-event", -1, 1, bt.NBloomEvents, "")
	case bt.BlockBloomErr != "":
		add("block-bloom-undecodable", -1, "512 hex digits or empty", bt.BlockBloomErr, "")
	default:
		if bt.BlockBloom != union {
			add("block-bloom-differs-from-union-of-receipt-blooms", -1, common.Bytes2Hex(union[:]), bt.BlockBloomHex, "")
		}
		if all := bloomOfLogs(allLogs); bt.BlockBloom != all {
			add("block-bloom-differs-from-bloom-of-all-logs", -1, common.Bytes2Hex(all[:]), bt.BlockBloomHex, "")
		}
	}
	return out
}

// Witness renders the whole block for a violation detail.
func (bt *BlockTruth) Witness() []map[string]any {
	var out []map[string]any
	for _, t := range bt.Txs {
		out = append(out, t.Summary())
	}
	return out
}
