// Package c13 decides property C13 ("per-block receipts, indices, cumulative gas and bloom are
// mutually consistent") with an offline checker over recorded ResponseFinalizeBlock + raw
// transactions. Its parser (ParseBlock) is the consensus-derived truth that C14 compares the
// indexer / JSON-RPC views with.
//
// Nothing in this file calls evermint's own receipt / event helpers: events are read by their
// attribute names, the marshalled receipt is decoded with go-ethereum, the sender is recovered
// with go-ethereum's signer, and every derived number (indices, running sums, blooms, CREATE
// address) is recomputed from the logs and the signed transaction alone.
package c13

import (
	"encoding/hex"
	"fmt"
	"math/big"
	"strconv"
	"strings"

	abci "github.com/cometbft/cometbft/abci/types"
	sdk "github.com/cosmos/cosmos-sdk/types"
	"github.com/ethereum/go-ethereum/common"
	ethtypes "github.com/ethereum/go-ethereum/core/types"
	"github.com/ethereum/go-ethereum/crypto"

	"verifharness/vh"
)

// TxDecoder decodes raw block transactions (the application's TxConfig.TxDecoder()).
type TxDecoder = sdk.TxDecoder

// event / attribute names as they appear on the wire (deliberately not imported from x/evm/types)
const (
	evEthereumTx = "ethereum_tx"
	evTxReceipt  = "tx_receipt"
	evBlockBloom = "block_bloom"
)

// Outcome classes, computed from the consensus results alone.
const (
	ClassCosmos        = "cosmos"
	ClassUndecodable   = "undecodable"
	ClassRejected      = "rejected"            // refused by the ante handler (no ethereum_tx event)
	ClassDropped       = "dropped-pre-ante"    // never reached the ante handler: block gas already exhausted
	ClassBlockGas      = "block-gas-exhausted" // admitted, executed, exceeded the block gas limit itself
	ClassCoreError     = "core-error"          // admitted, state transition refused (no receipt)
	ClassSuccess       = "success"
	ClassRevert        = "revert"
	ClassOutOfGas      = "out-of-gas"
	ClassVMError       = "vm-error"
	ClassCreateSuccess = "create-success"
	ClassCreateFail    = "create-fail"
)

// ethMsg is the shape of x/evm's MsgEthereumTx the parser relies on.
type ethMsg interface {
	AsTransaction() *ethtypes.Transaction
}

// TxTruth is everything the consensus results say about one block transaction, plus the
// values recomputed independently from the signed transaction and the logs.
type TxTruth struct {
	Pos     int    `json:"pos"` // position in the block's tx list
	IsEth   bool   `json:"is_eth"`
	Class   string `json:"class"`
	Raw     []byte `json:"-"`
	Decoded bool   `json:"-"`

	Tx           *ethtypes.Transaction `json:"-"`
	Hash         common.Hash           `json:"hash"`
	Sender       common.Address        `json:"sender"` // recovered from the signature with go-ethereum
	SenderErr    string                `json:"sender_err,omitempty"`
	DeclaredFrom string                `json:"-"`

	// ExecTxResult
	Code      uint32 `json:"code"`
	Codespace string `json:"codespace,omitempty"`
	Log       string `json:"log,omitempty"`
	GasWanted int64  `json:"gas_wanted"`
	GasUsed   int64  `json:"gas_used"`

	// ethereum_tx event (emitted by the last ante decorator: "reached execution")
	Reached     bool   `json:"reached"`
	NEthEvents  int    `json:"-"`
	EvHash      string `json:"ev_hash,omitempty"`
	EvTxIndex   int64  `json:"ev_tx_index"` // -1 = absent / unparsable
	EvTxIndexOK bool   `json:"-"`

	// tx_receipt event
	HasReceipt     bool              `json:"has_receipt"`
	NReceiptEvents int               `json:"-"`
	Attr           map[string]string `json:"-"`
	RcTxIdx        int64             `json:"rc_tx_idx"`  // -1 = absent
	RcLogIdx       int64             `json:"rc_log_idx"` // -1 = attribute absent
	RcGasUsed      uint64            `json:"rc_gas_used"`
	RcContractAddr string            `json:"rc_contract_addr,omitempty"`
	RcError        string            `json:"rc_error,omitempty"`
	RcHasError     bool              `json:"rc_has_error"`
	RcEffPrice     *big.Int          `json:"-"`
	RcBlockNumber  int64             `json:"rc_block_number"`
	RcEvmTxHash    string            `json:"-"`
	Receipt        *ethtypes.Receipt `json:"-"` // decoded marshalled receipt: status, cumulative gas, bloom, logs
	ReceiptErr     string            `json:"receipt_err,omitempty"`
	AttrErr        []string          `json:"attr_err,omitempty"`

	// MsgEthereumTxResponse in ExecTxResult.Data (nil when the tx failed as a whole)
	RespPresent bool   `json:"-"`
	RespVMError string `json:"-"`
	RespGasUsed uint64 `json:"-"`
	RespHash    string `json:"-"`

	// Recomputed truth (only meaningful when Reached):
	EthIndex     int             `json:"eth_index"`      // rank among the Ethereum txs that reached execution (-1 otherwise)
	LogStart     uint64          `json:"log_start"`      // number of logs of all earlier Ethereum txs of the block
	NLogs        int             `json:"n_logs"`         // logs carried by the receipt
	GasUsedTruth uint64          `json:"gas_used_truth"` // receipt gas used, or the gas limit when admitted without receipt
	CumGas       uint64          `json:"cum_gas_truth"`  // running sum up to and including this tx
	StatusTruth  uint64          `json:"status_truth"`   // receipt status, 0 when there is no receipt
	Created      *common.Address `json:"created,omitempty"`
}

// BlockTruth is the parsed block.
type BlockTruth struct {
	Height int64      // filled by the caller (not part of ResponseFinalizeBlock)
	Txs    []*TxTruth // every tx of the block, in block order
	Eth    []*TxTruth // Ethereum txs, in block order
	Exec   []*TxTruth // Ethereum txs that reached execution, in block order

	NBloomEvents  int
	BlockBloomHex string
	BlockBloom    ethtypes.Bloom
	BlockBloomErr string
	TotalLogs     uint64
	TotalGas      uint64
}

func attrMap(e abci.Event) map[string]string {
	m := map[string]string{}
	for _, a := range e.Attributes {
		if _, dup := m[a.Key]; !dup {
			m[a.Key] = a.Value
		}
	}
	return m
}

// ParseBlock turns the raw transactions and the FinalizeBlock response into the truth table.
// len(txs) may exceed len(res.TxResults) only by mistake of the caller; extra txs are ignored.
func ParseBlock(txs [][]byte, res *abci.ResponseFinalizeBlock, decode TxDecoder) *BlockTruth {
	bt := &BlockTruth{}
	for i, raw := range txs {
		if i >= len(res.TxResults) {
			break
		}
		t := parseTx(i, raw, res.TxResults[i], decode)
		bt.Txs = append(bt.Txs, t)
		if t.IsEth {
			bt.Eth = append(bt.Eth, t)
		}
	}
	// independent arithmetic over the Ethereum txs that reached execution
	var logs, gas uint64
	k := 0
	for _, t := range bt.Eth {
		t.EthIndex = -1
		if !t.Reached {
			continue
		}
		t.EthIndex = k
		k++
		t.LogStart = logs
		if t.HasReceipt && t.Receipt != nil {
			t.NLogs = len(t.Receipt.Logs)
			t.StatusTruth = t.Receipt.Status
			t.GasUsedTruth = t.RcGasUsed
		} else {
			t.GasUsedTruth = t.Tx.Gas() // admitted without receipt: the whole gas limit is charged
		}
		logs += uint64(t.NLogs)
		gas += t.GasUsedTruth
		t.CumGas = gas
		if t.Tx.To() == nil && t.HasReceipt && t.StatusTruth == ethtypes.ReceiptStatusSuccessful && t.SenderErr == "" {
			a := crypto.CreateAddress(t.Sender, t.Tx.Nonce())
			t.Created = &a
		}
		bt.Exec = append(bt.Exec, t)
	}
	bt.TotalLogs, bt.TotalGas = logs, gas
	for _, e := range res.Events {
		if e.Type != evBlockBloom {
			continue
		}
		bt.NBloomEvents++
		if bt.NBloomEvents > 1 {
			continue
		}
		v, ok := attrMap(e)["bloom"]
		if !ok {
			bt.BlockBloomErr = "block_bloom event without bloom attribute"
			continue
		}
		bt.BlockBloomHex = v
		if v != "" { // empty string = all-zero bloom
			bz, err := hex.DecodeString(strings.TrimPrefix(v, "0x"))
			if err != nil || len(bz) != ethtypes.BloomByteLength {
				bt.BlockBloomErr = fmt.Sprintf("undecodable block bloom (len %d, err %v)", len(bz), err)
				continue
			}
			bt.BlockBloom = ethtypes.BytesToBloom(bz)
		}
	}
	return bt
}

func parseTx(pos int, raw []byte, res *abci.ExecTxResult, decode TxDecoder) *TxTruth {
	t := &TxTruth{Pos: pos, Raw: raw, Code: res.Code, Codespace: res.Codespace, Log: res.Log, GasWanted: res.GasWanted, GasUsed: res.GasUsed,
		EvTxIndex: -1, RcTxIdx: -1, RcLogIdx: -1, EthIndex: -1, Class: ClassCosmos}
	stx, err := decode(raw)
	if err != nil {
		t.Class = ClassUndecodable
		return t
	}
	t.Decoded = true
	msgs := stx.GetMsgs()
	if len(msgs) != 1 {
		return t
	}
	em, ok := msgs[0].(ethMsg)
	if !ok {
		return t
	}
	tx := em.AsTransaction()
	if tx == nil {
		return t
	}
	t.IsEth, t.Tx, t.Hash = true, tx, tx.Hash()
	if f, ok := msgs[0].(interface{ GetFrom() sdk.AccAddress }); ok {
		t.DeclaredFrom = common.BytesToAddress(f.GetFrom()).Hex()
	}
	var signer ethtypes.Signer = ethtypes.HomesteadSigner{}
	if tx.Protected() {
		signer = ethtypes.LatestSignerForChainID(tx.ChainId())
	}
	if s, err := ethtypes.Sender(signer, tx); err != nil {
		t.SenderErr = err.Error()
	} else {
		t.Sender = s
	}

	for _, e := range res.Events {
		switch e.Type {
		case evEthereumTx:
			t.NEthEvents++
			if t.NEthEvents > 1 {
				continue
			}
			t.Reached = true
			m := attrMap(e)
			t.EvHash = m["ethereumTxHash"]
			if v, ok := m["txIndex"]; ok {
				if n, err := strconv.ParseInt(v, 10, 64); err == nil {
					t.EvTxIndex, t.EvTxIndexOK = n, true
				}
			}
		case evTxReceipt:
			t.NReceiptEvents++
			if t.NReceiptEvents > 1 {
				continue
			}
			t.HasReceipt = true
			m := attrMap(e)
			t.Attr = m
			bad := func(k string) { t.AttrErr = append(t.AttrErr, k) }
			if v, ok := m["txIdx"]; ok {
				if n, err := strconv.ParseInt(v, 10, 64); err == nil {
					t.RcTxIdx = n
				} else {
					bad("txIdx")
				}
			} else {
				bad("txIdx")
			}
			if v, ok := m["logIdx"]; ok {
				if n, err := strconv.ParseInt(v, 10, 64); err == nil {
					t.RcLogIdx = n
				} else {
					bad("logIdx")
				}
			}
			if v, ok := m["gasUsed"]; ok {
				if n, err := strconv.ParseUint(v, 10, 64); err == nil {
					t.RcGasUsed = n
				} else {
					bad("gasUsed")
				}
			} else {
				bad("gasUsed")
			}
			t.RcContractAddr = m["contractAddr"]
			t.RcError, t.RcHasError = m["error"], false
			if _, ok := m["error"]; ok {
				t.RcHasError = true
			}
			if v, ok := m["effectiveGasPrice"]; ok {
				if n, ok := new(big.Int).SetString(v, 10); ok {
					t.RcEffPrice = n
				} else {
					bad("effectiveGasPrice")
				}
			}
			if v, ok := m["blockNumber"]; ok {
				if n, err := strconv.ParseInt(v, 10, 64); err == nil {
					t.RcBlockNumber = n
				} else {
					bad("blockNumber")
				}
			}
			t.RcEvmTxHash = m["evmTxHash"]
			bz, err := hex.DecodeString(strings.TrimPrefix(m["marshalled"], "0x"))
			if err != nil || len(bz) == 0 {
				t.ReceiptErr = fmt.Sprintf("marshalled receipt not hex (%v)", err)
				break
			}
			rc := &ethtypes.Receipt{}
			if err := rc.UnmarshalBinary(bz); err != nil {
				t.ReceiptErr = "marshalled receipt: " + err.Error()
				break
			}
			t.Receipt = rc
		}
	}
	parseResponse(t, res)

	switch {
	case !t.Reached && strings.Contains(res.Log, "no block gas left"):
		t.Class = ClassDropped
	case !t.Reached:
		t.Class = ClassRejected
	case !t.HasReceipt && strings.Contains(res.Log, "out of gas"):
		t.Class = ClassBlockGas
	case !t.HasReceipt:
		t.Class = ClassCoreError
	case t.Receipt == nil:
		t.Class = ClassVMError
	case t.Receipt.Status == ethtypes.ReceiptStatusSuccessful && tx.To() == nil:
		t.Class = ClassCreateSuccess
	case t.Receipt.Status == ethtypes.ReceiptStatusSuccessful:
		t.Class = ClassSuccess
	case tx.To() == nil:
		t.Class = ClassCreateFail
	case strings.Contains(t.RcError, "revert"):
		t.Class = ClassRevert
	case strings.Contains(t.RcError, "out of gas"):
		t.Class = ClassOutOfGas
	default:
		t.Class = ClassVMError
	}
	return t
}

// parseResponse reads vm_error / gas_used / hash of the MsgEthereumTxResponse carried in
// ExecTxResult.Data (plain protobuf decoding through vh.EthResponse).
func parseResponse(t *TxTruth, res *abci.ExecTxResult) {
	r := vh.EthResponse(res)
	if r == nil {
		return
	}
	t.RespPresent, t.RespVMError, t.RespGasUsed, t.RespHash = true, r.VmError, r.GasUsed, r.Hash
}

// Summary renders one tx for witnesses.
func (t *TxTruth) Summary() map[string]any {
	m := map[string]any{"pos": t.Pos, "class": t.Class, "code": t.Code}
	if !t.IsEth {
		return m
	}
	m["hash"] = t.Hash.Hex()
	m["sender"] = t.Sender.Hex()
	m["nonce"] = t.Tx.Nonce()
	m["gas_limit"] = t.Tx.Gas()
	if t.Tx.To() == nil {
		m["to"] = "create"
	} else {
		m["to"] = t.Tx.To().Hex()
	}
	if t.Code != 0 {
		m["log"] = trunc(t.Log, 160)
	}
	if t.Reached {
		m["ethereum_tx.txIndex"] = t.EvTxIndex
		m["expected_eth_index"] = t.EthIndex
		m["expected_cumulative_gas"] = t.CumGas
		m["expected_first_log_index"] = t.LogStart
	}
	if t.HasReceipt {
		m["tx_receipt.txIdx"] = t.RcTxIdx
		if t.RcLogIdx >= 0 {
			m["tx_receipt.logIdx"] = t.RcLogIdx
		} else {
			m["tx_receipt.logIdx"] = "absent"
		}
		m["tx_receipt.gasUsed"] = t.RcGasUsed
		m["tx_receipt.contractAddr"] = t.RcContractAddr
		if t.RcHasError {
			m["tx_receipt.error"] = t.RcError
		}
		if t.Receipt != nil {
			m["receipt.status"] = t.Receipt.Status
			m["receipt.cumulativeGasUsed"] = t.Receipt.CumulativeGasUsed
			m["receipt.logs"] = len(t.Receipt.Logs)
		}
	}
	return m
}

func trunc(s string, n int) string {
	if len(s) > n {
		return s[:n] + "..."
	}
	return s
}
