package c13

import (
	"fmt"
	"sort"
	"strings"
	"sync"

	"verifharness/vh"
)

// worldResult collects what one world observed; results are merged in world order so that the
// evidence does not depend on goroutine scheduling.
type worldResult struct {
	counts  map[string]int
	maxes   map[string]int64
	sets    map[string]map[string]struct{}
	nontriv map[string]struct{}
	evals   int
	samples []any
	viol    []struct {
		sig, label string
		detail     any
	}
}

func newWorldResult() *worldResult {
	return &worldResult{counts: map[string]int{}, maxes: map[string]int64{}, sets: map[string]map[string]struct{}{}, nontriv: map[string]struct{}{}}
}

func (wr *worldResult) count(k string, n int) { wr.counts[k] += n }
func (wr *worldResult) max(k string, v int64) {
	if v > wr.maxes[k] {
		wr.maxes[k] = v
	}
}
func (wr *worldResult) distinct(set, k string) {
	if wr.sets[set] == nil {
		wr.sets[set] = map[string]struct{}{}
	}
	wr.sets[set][k] = struct{}{}
}

func (wr *worldResult) merge(run *vh.Run) {
	for k, v := range wr.counts {
		run.Count(k, v)
	}
	for k, v := range wr.maxes {
		run.Max(k, v)
	}
	for s, m := range wr.sets {
		for k := range m {
			run.Distinct(s, k)
		}
	}
	for k := range wr.nontriv {
		run.Nontrivial(k)
	}
	run.Eval(wr.evals)
	for _, s := range wr.samples {
		run.Sample(s)
	}
	for _, v := range wr.viol {
		run.Violation(v.sig, v.label, v.detail)
	}
}

var maxGasVariants = []int64{-1, 300_000, 600_000, 1_000_000, 1_500_000, -1, 450_000, 800_000}

// Run is the C13 monitor.
func Run(run *vh.Run) {
	nWorlds := run.N(10, 120)
	blocksPer := run.N(30, 125)
	results := make([]*worldResult, nWorlds)
	var wg sync.WaitGroup
	sem := make(chan struct{}, 12)
	for wi := 0; wi < nWorlds; wi++ {
		label := fmt.Sprintf("world-%d", wi)
		if !run.WantCase(label) {
			continue
		}
		wg.Add(1)
		sem <- struct{}{}
		go func(wi int, label string) {
			defer wg.Done()
			defer func() { <-sem }()
			results[wi] = runWorld(run, wi, label, blocksPer)
		}(wi, label)
	}
	wg.Wait()
	for _, wr := range results {
		if wr != nil {
			wr.merge(run)
		}
	}
	run.Rule = "Blocks of 0-25 transactions composed on the real application (ABCI FinalizeBlock), Ethereum and Cosmos bank sends mixed; every Ethereum one drawn from {call emitting 0-9 logs with 0-4 topics (direct, nested, with reverted or static sub-calls), plain transfer, revert, VM out of gas, core error (value > balance, gas < intrinsic), ante failure (stale / future nonce, under-priced, replayed earlier tx), a loop whose gas limit equals the block gas limit (exhausts block gas itself; everything after it is dropped), create success with 0-3 init-code logs, create failure (revert / out of gas / 0xEF code)}; block gas limits -1, 300k ... 1.5M; all three tx types. The recorded ResponseFinalizeBlock + raw txs are parsed offline (events by attribute name, marshalled receipt with go-ethereum) and indices, first-log indices, running gas sums, status, blooms (go-ethereum LogsBloom on the logs alone) and CREATE addresses are recomputed independently. Cumulative gas ranges over the Ethereum txs that reached execution (ethereum_tx event): receipt gas used, or the gas limit when admitted without receipt (what the sender is charged); txs refused by the ante handler or dropped use no gas. Non-trivial = distinct (set of outcome classes present, >=2 logging txs, failing tx between two logging ones, finite block gas) compositions."
	run.Floor("blocks checked", run.Get("blocks"), int64(run.N(150, 7000)))
	run.Floor("blocks with >= 2 logging Ethereum txs", run.Get("blocks_with_ge2_logging_txs"), int64(run.N(60, 3000)))
	run.Floor("blocks with a failing Ethereum tx between two logging ones", run.Get("blocks_with_failing_tx_between_logging"), int64(run.N(40, 2000)))
	run.Floor("receipts checked", run.Get("receipts_checked"), int64(run.N(700, 30000)))
	run.Floor("outcome classes observed", int64(run.DistinctN("outcome")), 9)
	for _, c := range []string{ClassSuccess, ClassRevert, ClassOutOfGas, ClassCoreError, ClassRejected, ClassDropped, ClassBlockGas, ClassCreateSuccess, ClassCreateFail} {
		run.Floor("txs of class "+c, run.Get("outcome_"+c), int64(run.N(8, 300)))
	}
	run.Assumptions = append(run.Assumptions,
		"go-ethereum's receipt decoding, LogsBloom/CreateBloom, signer recovery and crypto.CreateAddress are the reference",
		"a transaction 'reached execution' iff its ExecTxResult carries the ethereum_tx event (emitted by the last ante decorator)",
		"gas used of an admitted transaction without receipt is its gas limit (C05)")
}

func runWorld(run *vh.Run, wi int, label string, nBlocks int) *worldResult {
	wr := newWorldResult()
	r := run.RNG("world", wi)
	cfg := WorldCfg{MaxGas: maxGasVariants[wi%len(maxGasVariants)], NumVals: 1 + wi%3}
	w := NewWorld(r, cfg, func(w *World, br *vh.BlockResult, planned []string) {
		checkBlock(wr, label, cfg, br, planned, w.Decoder())
	})
	defer w.C.Cleanup()
	for b := 0; b < nBlocks; b++ {
		w.Step(DrawSize(r))
	}
	return wr
}

func checkBlock(wr *worldResult, label string, cfg WorldCfg, br *vh.BlockResult, planned []string, dec TxDecoder) {
	if br.Err != nil {
		wr.viol = append(wr.viol, struct {
			sig, label string
			detail     any
		}{"finalize-block-error", label, map[string]any{"height": br.Height, "err": br.Err.Error()}})
		return
	}
	bt := ParseBlock(br.Req.Txs, br.Res, dec)
	bt.Height = br.Height
	wr.evals++
	wr.count("blocks", 1)
	wr.max("max_tx_per_block", int64(len(bt.Txs)))
	wr.max("max_eth_tx_reaching_execution_per_block", int64(len(bt.Exec)))
	wr.max("max_logs_per_block", int64(bt.TotalLogs))
	classes := map[string]struct{}{}
	logging := 0
	failBetween := false
	seenLogging, failSince := false, false
	for _, t := range bt.Txs {
		wr.count("outcome_"+t.Class, 1)
		wr.distinct("outcome", t.Class)
		classes[t.Class] = struct{}{}
		if !t.IsEth {
			continue
		}
		wr.count("eth_txs", 1)
		if t.Reached {
			wr.count("eth_txs_reached_execution", 1)
		}
		if t.HasReceipt {
			wr.count("receipts_checked", 1)
			wr.count("logs_total", t.NLogs)
			wr.distinct("logs_per_tx", fmt.Sprint(t.NLogs))
		}
		if t.NLogs > 0 {
			logging++
			if seenLogging && failSince {
				failBetween = true
			}
			seenLogging, failSince = true, false
		} else if t.Class != ClassSuccess && t.Class != ClassCreateSuccess {
			failSince = true
		}
		if t.Created != nil {
			wr.count("contract_addresses_checked", 1)
		}
	}
	if logging >= 2 {
		wr.count("blocks_with_ge2_logging_txs", 1)
	}
	if failBetween {
		wr.count("blocks_with_failing_tx_between_logging", 1)
	}
	if bt.BlockBloomHex != "" {
		wr.count("blocks_with_nonzero_bloom", 1)
	}
	keys := make([]string, 0, len(classes))
	for k := range classes {
		keys = append(keys, k)
	}
	sort.Strings(keys)
	wr.nontriv[fmt.Sprintf("%s|L2=%v|FB=%v|finite=%v", strings.Join(keys, ","), logging >= 2, failBetween, cfg.MaxGas > 0)] = struct{}{}

	findings := CheckBlock(bt)
	seen := map[string]bool{}
	for _, f := range findings {
		if seen[f.Sig] { // one witness per signature and block
			continue
		}
		seen[f.Sig] = true
		wr.viol = append(wr.viol, struct {
			sig, label string
			detail     any
		}{f.Sig, label, map[string]any{"world": label, "height": br.Height, "max_gas": cfg.MaxGas, "finding": f,
			"all_findings_in_block": len(findings), "planned": planned, "block": bt.Witness()}})
	}
	if len(wr.samples) < 2 && logging >= 2 && failBetween {
		wr.samples = append(wr.samples, map[string]any{"world": label, "height": br.Height, "max_gas": cfg.MaxGas, "block": bt.Witness()})
	}
}
