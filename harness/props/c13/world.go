package c13

import (
	"fmt"
	"math/big"

	sdkmath "cosmossdk.io/math"
	sdk "github.com/cosmos/cosmos-sdk/types"
	banktypes "github.com/cosmos/cosmos-sdk/x/bank/types"
	"github.com/ethereum/go-ethereum/common"
	ethtypes "github.com/ethereum/go-ethereum/core/types"
	"github.com/ethereum/go-ethereum/core/vm"
	"github.com/ethereum/go-ethereum/crypto"

	"verifharness/vh"
)

// WorldCfg selects the chain variant of one composed-block world.
type WorldCfg struct {
	MaxGas     int64 // consensus block gas limit (-1 = unlimited)
	NumVals    int
	NumEOA     int
	BaseFee    int64
	KeepBlocks bool // keep every BlockResult (incl. block 1 and the deployment blocks) in C.Blocks
	// Counter > 0 deploys a contract whose gas use depends on how often it has been called before (it counts its calls in
	// slot 0 and loops count&7 times), and adds calls to it with this weight among the planned classes.
	Counter int
}

// Logger is a deployed contract that emits a fixed number of logs per call.
type Logger struct {
	Addr  common.Address
	NLogs int
	Gas   uint64 // a gas limit that is enough for one call
}

// World composes blocks whose receipt indices are non-trivial.
type World struct {
	C                         *vh.Chain
	R                         *vh.RNG
	Cfg                       WorldCfg
	EOAs                      []*vh.Acct
	Loggers                   []Logger // calls that succeed with NLogs logs (0..9)
	Reverter, Burner, LogBurn common.Address
	CounterAddr               common.Address
	pending                   map[common.Address]uint64
	history                   [][]byte // raw Ethereum txs of earlier blocks (replay class)
	// OnBlock sees every block the world produces (deployment blocks included).
	OnBlock func(w *World, br *vh.BlockResult, planned []string)
}

// Planned classes (what the generator intends; the checker classifies from results only).
var plannedClasses = []struct {
	name   string
	weight int
}{
	{"logs", 34}, {"plain", 6}, {"revert", 8}, {"vm-oog", 6}, {"core-value", 4}, {"core-intrinsic", 4},
	{"ante-stale", 4}, {"ante-underpriced", 4}, {"ante-future", 2}, {"replay", 3}, {"exhaust", 2},
	{"create-ok", 8}, {"create-fail", 6}, {"cosmos", 14},
}

func logCode(a *vh.Asm, n, variant int) {
	for i := 0; i < n; i++ {
		nt := (i + variant) % 5
		topics := make([]uint64, nt)
		for j := range topics {
			topics[j] = uint64(1000*(variant+1) + 10*i + j)
		}
		a.Log(uint64(100*n+i+1), topics...)
	}
}

func loggerRuntime(n, variant int) []byte {
	a := vh.NewAsm()
	logCode(a, n, variant)
	a.Op(vm.STOP)
	return a.Bytes()
}

// initWithLogs returns init code that emits n logs and then returns runtime.
func initWithLogs(n, variant int, runtime []byte) []byte {
	a := vh.NewAsm()
	logCode(a, n, variant)
	prefix := a.Bytes()
	off := len(prefix) + 13
	l := len(runtime)
	tail := []byte{0x61, byte(l >> 8), byte(l), 0x80, 0x61, byte(off >> 8), byte(off), 0x60, 0x00, 0x39, 0x60, 0x00, 0xf3}
	return append(append(prefix, tail...), runtime...)
}

// NewWorld builds the chain, funds the EOAs and deploys the logging contracts (one create per block,
// so that even the smallest block gas limit admits them).
func NewWorld(r *vh.RNG, cfg WorldCfg, onBlock func(w *World, br *vh.BlockResult, planned []string)) *World {
	if cfg.NumEOA == 0 {
		cfg.NumEOA = 10
	}
	if cfg.NumVals == 0 {
		cfg.NumVals = 1
	}
	if cfg.BaseFee == 0 {
		cfg.BaseFee = 1_000_000_000
	}
	w := &World{R: r, Cfg: cfg, pending: map[common.Address]uint64{}, OnBlock: onBlock}
	ccfg := vh.Config{Seed: r.U64(), NumVals: cfg.NumVals, MaxGas: cfg.MaxGas, BaseFee: big.NewInt(cfg.BaseFee)}
	for i := 0; i < cfg.NumEOA; i++ {
		a := vh.NewAcct(r)
		w.EOAs = append(w.EOAs, a)
		ccfg.Accounts = append(ccfg.Accounts, vh.GenAccount{Addr: a.Addr, Coins: vh.NativeCoins(1_000_000)})
	}
	w.C = vh.PrepareChain(ccfg)
	w.C.KeepBlocks = cfg.KeepBlocks
	w.C.Init()

	deploy := func(runtime []byte, initLogs int) common.Address {
		s := vh.Pick(r, w.EOAs)
		nonce := w.C.Nonce(s.Addr)
		raw, _ := w.signed(s, nonce, nil, nil, 250_000, initWithLogs(initLogs, 3, runtime), 0)
		br := w.Run([][]byte{raw}, []string{"deploy"})
		addr := crypto.CreateAddress(s.Addr, nonce)
		if br.Err != nil || br.Res.TxResults[0].Code != 0 || len(w.C.App.EvmKeeper.GetCode(w.C.QueryCtx(), w.C.App.EvmKeeper.GetCodeHash(w.C.QueryCtx(), addr.Bytes()))) == 0 {
			panic(fmt.Sprintf("c13: deployment failed: err=%v res=%+v", br.Err, br.Res.TxResults[0]))
		}
		return addr
	}
	for n := 0; n <= 6; n++ {
		w.Loggers = append(w.Loggers, Logger{Addr: deploy(loggerRuntime(n, n), n%3), NLogs: n, Gas: uint64(30_000 + 3_000*n)})
	}
	w.Reverter = deploy(func() []byte {
		a := vh.NewAsm()
		logCode(a, 2, 1)
		a.PushU(0).PushU(0).Op(vm.REVERT)
		return a.Bytes()
	}(), 0)
	w.Burner = deploy(vh.NewAsm().Label("l").Jump("l").Bytes(), 1)
	w.LogBurn = deploy(func() []byte {
		a := vh.NewAsm()
		logCode(a, 3, 2)
		a.Label("l").Jump("l")
		return a.Bytes()
	}(), 0)
	if cfg.Counter > 0 {
		w.CounterAddr = deploy(vh.NewAsm().PushU(0).Op(vm.SLOAD, vm.DUP1).PushU(1).Op(vm.ADD).PushU(0).Op(vm.SSTORE).PushU(7).Op(vm.AND).
			Label("turn").Op(vm.DUP1, vm.ISZERO).JumpI("done").PushU(1).Op(vm.SWAP1, vm.SUB).Jump("turn").Label("done").Op(vm.POP, vm.STOP).Bytes(), 0)
	}
	// nested: own log, call a logger (3 logs), own log  => 5 logs in call order
	l3 := w.Loggers[3].Addr
	w.Loggers = append(w.Loggers, Logger{Addr: deploy(func() []byte {
		a := vh.NewAsm()
		a.Log(71, 7)
		a.CallWithData(vh.CALL, l3, nil, 0, nil, 0).Op(vm.POP)
		a.Log(72)
		a.Op(vm.STOP)
		return a.Bytes()
	}(), 0), NLogs: 5, Gas: 70_000})
	// nested with reverting callee (its 2 logs vanish) => 2 logs
	rev := w.Reverter
	w.Loggers = append(w.Loggers, Logger{Addr: deploy(func() []byte {
		a := vh.NewAsm()
		a.Log(81, 8, 9)
		a.CallWithData(vh.CALL, rev, nil, 0, nil, 0).Op(vm.POP)
		a.Log(82)
		a.Op(vm.STOP)
		return a.Bytes()
	}(), 0), NLogs: 2, Gas: 70_000})
	// static call into a logger fails inside (LOG in a static frame), caller's 1 log survives; then 8 more via two loggers
	l4, l5 := w.Loggers[4].Addr, w.Loggers[5].Addr
	w.Loggers = append(w.Loggers, Logger{Addr: deploy(func() []byte {
		a := vh.NewAsm()
		a.CallWithData(vh.STATICCALL, l4, nil, 20_000, nil, 0).Op(vm.POP)
		a.CallWithData(vh.CALL, l4, nil, 0, nil, 0).Op(vm.POP)
		a.CallWithData(vh.CALL, l5, nil, 0, nil, 0).Op(vm.POP)
		a.Op(vm.STOP)
		return a.Bytes()
	}(), 0), NLogs: 9, Gas: 140_000})
	return w
}

// signed builds one signed + wrapped Ethereum tx. priceMode: 0 admissible random shape, 1 under-priced.
func (w *World) signed(s *vh.Acct, nonce uint64, to *common.Address, value *big.Int, gas uint64, data []byte, priceMode int) ([]byte, *ethtypes.Transaction) {
	r := w.R
	bf := w.C.BaseFee()
	if value == nil {
		value = new(big.Int)
	}
	mul := func(n int64) *big.Int { return new(big.Int).Mul(bf, big.NewInt(n)) }
	var txd ethtypes.TxData
	if priceMode == 1 {
		p := new(big.Int).Sub(bf, big.NewInt(1))
		if p.Sign() < 0 {
			p = new(big.Int)
		}
		txd = &ethtypes.LegacyTx{Nonce: nonce, To: to, Value: value, Gas: gas, GasPrice: p, Data: data}
	} else {
		switch r.Intn(3) {
		case 0:
			txd = &ethtypes.LegacyTx{Nonce: nonce, To: to, Value: value, Gas: gas, GasPrice: new(big.Int).Add(mul(int64(1+r.Intn(4))), big.NewInt(int64(r.Intn(3)))), Data: data}
		case 1:
			var al ethtypes.AccessList
			if r.Bool() {
				al = ethtypes.AccessList{{Address: vh.Pick(r, w.EOAs).Addr, StorageKeys: []common.Hash{common.BigToHash(big.NewInt(int64(r.Intn(3))))}}}
			}
			txd = &ethtypes.AccessListTx{ChainID: big.NewInt(vh.EIP155ID), Nonce: nonce, To: to, Value: value, Gas: gas, GasPrice: mul(int64(2 + r.Intn(3))), Data: data, AccessList: al}
		default:
			cap := mul(int64(2 + r.Intn(3)))
			tip := new(big.Int)
			switch r.Intn(3) {
			case 1:
				tip = new(big.Int).Div(bf, big.NewInt(int64(1+r.Intn(8))))
			case 2:
				tip = new(big.Int).Set(cap)
			}
			txd = &ethtypes.DynamicFeeTx{ChainID: big.NewInt(vh.EIP155ID), Nonce: nonce, To: to, Value: value, Gas: gas, GasFeeCap: cap, GasTipCap: tip, Data: data}
		}
	}
	tx := vh.SignEth(s, txd)
	return w.C.WrapEth(tx, s.Addr), tx
}

func (w *World) next(a common.Address) uint64 { return w.C.Nonce(a) + w.pending[a] }

// Compose draws n transactions (planned classes returned alongside).
func (w *World) Compose(n int) (txs [][]byte, planned []string) {
	r := w.R
	total := 0
	classes := plannedClasses
	if w.Cfg.Counter > 0 {
		classes = append(append(classes[:0:0], plannedClasses...), struct {
			name   string
			weight int
		}{"counter", w.Cfg.Counter})
	}
	for _, c := range classes {
		total += c.weight
	}
	finite := w.Cfg.MaxGas > 0
	for len(txs) < n {
		k := r.Intn(total)
		class := ""
		for _, c := range classes {
			if k < c.weight {
				class = c.name
				break
			}
			k -= c.weight
		}
		s := vh.Pick(r, w.EOAs)
		nonce := w.next(s.Addr)
		var raw []byte
		admitted := true
		switch class {
		case "logs":
			lg := vh.Pick(r, w.Loggers)
			raw, _ = w.signed(s, nonce, &lg.Addr, nil, lg.Gas+uint64(r.Intn(30_000)), nil, 0)
			class = fmt.Sprintf("logs-%d", lg.NLogs)
		case "counter":
			raw, _ = w.signed(s, nonce, &w.CounterAddr, nil, uint64(60_000+r.Intn(20_000)), nil, 0)
		case "plain":
			to := vh.Pick(r, w.EOAs).Addr
			raw, _ = w.signed(s, nonce, &to, big.NewInt(int64(r.Intn(1000))), uint64(vh.Pick(r, []int{21000, 21001, 40000})), nil, 0)
		case "revert":
			raw, _ = w.signed(s, nonce, &w.Reverter, nil, uint64(40_000+r.Intn(30_000)), nil, 0)
		case "vm-oog":
			to := w.Burner
			if r.Bool() {
				to = w.LogBurn
			}
			raw, _ = w.signed(s, nonce, &to, nil, uint64(25_000+r.Intn(40_000)), nil, 0)
		case "core-value":
			v := new(big.Int).Add(w.C.Balance(s.Addr), vh.Ether(10))
			to := vh.Pick(r, w.Loggers).Addr
			raw, _ = w.signed(s, nonce, &to, v, uint64(30_000+r.Intn(30_000)), nil, 0)
		case "core-intrinsic":
			to := vh.Pick(r, w.Loggers).Addr
			if r.Bool() {
				raw, _ = w.signed(s, nonce, &to, nil, 20_999, nil, 0)
			} else {
				raw, _ = w.signed(s, nonce, &to, nil, 21_000, []byte{1, 2, 3, 4}, 0) // needs 21064
			}
		case "ante-stale":
			if nonce == 0 {
				continue
			}
			lg := vh.Pick(r, w.Loggers)
			raw, _ = w.signed(s, uint64(r.Intn(int(nonce))), &lg.Addr, nil, lg.Gas, nil, 0)
			admitted = false
		case "ante-underpriced":
			if w.C.BaseFee().Sign() == 0 {
				continue
			}
			lg := vh.Pick(r, w.Loggers)
			raw, _ = w.signed(s, nonce, &lg.Addr, nil, lg.Gas, nil, 1)
			admitted = false
		case "ante-future":
			lg := vh.Pick(r, w.Loggers)
			raw, _ = w.signed(s, nonce+1+uint64(r.Intn(2)), &lg.Addr, nil, lg.Gas, nil, 0)
			admitted = false
		case "replay":
			if len(w.history) == 0 {
				continue
			}
			raw = vh.Pick(r, w.history)
			admitted = false // may turn out to be admitted when it was a future-nonce tx whose turn has come
		case "exhaust":
			if !finite || len(txs) == 0 {
				continue
			}
			// a loop that burns its whole gas limit; the limit equals the block limit, so together with
			// what earlier txs of the block used it exceeds the block gas limit by itself
			raw, _ = w.signed(s, nonce, &w.Burner, nil, uint64(w.Cfg.MaxGas), nil, 0)
		case "create-ok":
			nl := r.Intn(4)
			raw, _ = w.signed(s, nonce, nil, nil, 250_000, initWithLogs(nl, r.Intn(5), loggerRuntime(r.Intn(4), r.Intn(5))), 0)
			class = fmt.Sprintf("create-ok-%d", nl)
		case "create-fail":
			switch r.Intn(3) {
			case 0: // init code reverts after logging
				a := vh.NewAsm()
				logCode(a, 2, 0)
				a.PushU(0).PushU(0).Op(vm.REVERT)
				raw, _ = w.signed(s, nonce, nil, nil, 120_000, a.Bytes(), 0)
			case 1: // init code loops: out of gas
				raw, _ = w.signed(s, nonce, nil, nil, 90_000, vh.NewAsm().Label("l").Jump("l").Bytes(), 0)
			default: // returns code starting with 0xEF (EIP-3541)
				raw, _ = w.signed(s, nonce, nil, nil, 120_000, vh.Deployer([]byte{0xef, 0x00}), 0)
			}
		case "cosmos":
			to := vh.Pick(r, w.EOAs)
			msg := banktypes.NewMsgSend(s.Acc(), to.Acc(), sdk.NewCoins(sdk.NewCoin(vh.Denom, sdkmath.NewInt(int64(1+r.Intn(1000))))))
			seq := nonce
			raw = w.C.CosmosTx(s, []sdk.Msg{msg}, &vh.CosmosOpts{Seq: &seq, Gas: 150_000})
		}
		if raw == nil {
			continue
		}
		if admitted {
			w.pending[s.Addr]++
		}
		txs = append(txs, raw)
		planned = append(planned, class)
	}
	return txs, planned
}

// ComposeCounterBlock is a block that starts with a Cosmos transaction and has at least two calls of the counter contract
// (by different senders) behind it, with `extra` drawn transactions in between.
func (w *World) ComposeCounterBlock(extra int) (txs [][]byte, planned []string) {
	r := w.R
	who := append([]*vh.Acct(nil), w.EOAs...)
	vh.Shuffle(r, who)
	s0, s1, s2 := who[0], who[1], who[2]
	seq := w.next(s0.Addr)
	msg := banktypes.NewMsgSend(s0.Acc(), s1.Acc(), sdk.NewCoins(sdk.NewCoin(vh.Denom, sdkmath.NewInt(int64(1+r.Intn(1000))))))
	txs = append(txs, w.C.CosmosTx(s0, []sdk.Msg{msg}, &vh.CosmosOpts{Seq: &seq, Gas: 150_000}))
	planned = append(planned, "cosmos")
	w.pending[s0.Addr]++
	call := func(s *vh.Acct) {
		raw, _ := w.signed(s, w.next(s.Addr), &w.CounterAddr, nil, uint64(60_000+r.Intn(20_000)), nil, 0)
		w.pending[s.Addr]++
		txs = append(txs, raw)
		planned = append(planned, "counter")
	}
	call(s1)
	if extra > 0 {
		t2, p2 := w.Compose(extra)
		txs, planned = append(txs, t2...), append(planned, p2...)
	}
	call(s2)
	return txs, planned
}

// Run executes one block without sentinel and hands it to OnBlock.
func (w *World) Run(txs [][]byte, planned []string) *vh.BlockResult {
	br := w.C.NextBlock(txs, &vh.BlockOpt{NoSentinel: true, Proposer: w.R.Intn(8)})
	w.pending = map[common.Address]uint64{}
	dec := w.C.Enc.TxConfig.TxDecoder()
	for _, raw := range txs {
		if stx, err := dec(raw); err == nil && len(stx.GetMsgs()) == 1 {
			if _, ok := stx.GetMsgs()[0].(ethMsg); ok && len(w.history) < 4096 {
				w.history = append(w.history, raw)
			}
		}
	}
	if w.OnBlock != nil {
		w.OnBlock(w, br, planned)
	}
	return br
}

// Decoder is the application's tx decoder.
func (w *World) Decoder() TxDecoder { return w.C.Enc.TxConfig.TxDecoder() }

// Step composes and runs one block of n transactions.
func (w *World) Step(n int) *vh.BlockResult {
	txs, planned := w.Compose(n)
	return w.Run(txs, planned)
}

// DrawSize draws a block size in 0..25 (small, medium and full blocks all common).
func DrawSize(r *vh.RNG) int {
	switch k := r.Intn(10); {
	case k == 0:
		return 0
	case k < 3:
		return r.Range(1, 4)
	case k < 7:
		return r.Range(5, 14)
	default:
		return r.Range(15, 25)
	}
}
