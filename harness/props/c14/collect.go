package c14

import (
	"verifharness/vh"
)

// Viol is one violation to be reported.
type Viol struct {
	Sig    string `json:"signature"`
	Label  string `json:"case"`
	Detail any    `json:"detail"`
}

// Result collects what one leg / world observed; results are merged in a fixed order so that
// the evidence does not depend on goroutine scheduling. It is JSON-serialisable because the
// race-build child process hands its result to the parent through a file.
type Result struct {
	Counts       map[string]int            `json:"counts"`
	Maxes        map[string]int64          `json:"maxes"`
	Sets         map[string]map[string]int `json:"sets"`
	Nontriv      map[string]int            `json:"nontrivial"`
	Evals        int                       `json:"evals"`
	Samples      []any                     `json:"samples"`
	Viol         []Viol                    `json:"violations"`
	Inconclusive []string                  `json:"inconclusive"`
}

func NewResult() *Result {
	return &Result{Counts: map[string]int{}, Maxes: map[string]int64{}, Sets: map[string]map[string]int{}, Nontriv: map[string]int{}}
}

func (r *Result) Count(k string, n int) { r.Counts[k] += n }
func (r *Result) Max(k string, v int64) {
	if v > r.Maxes[k] {
		r.Maxes[k] = v
	}
}
func (r *Result) Distinct(set, k string) {
	if r.Sets[set] == nil {
		r.Sets[set] = map[string]int{}
	}
	r.Sets[set][k]++
}
func (r *Result) Nontrivial(k string) { r.Nontriv[k]++ }
func (r *Result) Violation(sig, label string, detail any) {
	// one witness per (signature, case) is enough; the rest is counted
	n := 0
	for _, v := range r.Viol {
		if v.Sig == sig {
			n++
		}
	}
	r.Counts["violations:"+sig]++
	if n < 3 {
		r.Viol = append(r.Viol, Viol{sig, label, detail})
	}
}

func (r *Result) Merge(run *vh.Run) {
	for k, v := range r.Counts {
		run.Count(k, v)
	}
	for k, v := range r.Maxes {
		run.Max(k, v)
	}
	for s, m := range r.Sets {
		for k := range m {
			run.Distinct(s, k)
		}
	}
	for k := range r.Nontriv {
		run.Nontrivial(k)
	}
	run.Eval(r.Evals)
	for _, s := range r.Samples {
		run.Sample(s)
	}
	for _, v := range r.Viol {
		run.Violation(v.Sig, v.Label, v.Detail)
	}
	for _, s := range r.Inconclusive {
		run.Inconclusive(s)
	}
}
