package c14

import (
	"bytes"
	"fmt"
	"runtime"
	"strings"
	"sync"
	"sync/atomic"
	"time"

	"cosmossdk.io/log"
	abci "github.com/cometbft/cometbft/abci/types"
	cmttypes "github.com/cometbft/cometbft/types"
	dbm "github.com/cosmos/cosmos-db"
	"github.com/cosmos/cosmos-sdk/client"
	"github.com/ethereum/go-ethereum/common"

	"github.com/EscanBE/evermint/v12/indexer"
	evmserver "github.com/EscanBE/evermint/v12/server"
	evertypes "github.com/EscanBE/evermint/v12/types"

	"verifharness/vh"
)

// watchdog for quiescence waits; its firing makes the run INCONCLUSIVE, never a violation.
const watchdog = 30 * time.Second

// stopGrace is how long a stopped service's OnStart is waited for.
const stopGrace = 2 * time.Second

// serviceStack returns the stack of the goroutine(s) still inside EVMIndexerService.OnStart.
func serviceStack() string {
	buf := make([]byte, 1<<20)
	buf = buf[:runtime.Stack(buf, true)]
	var out []string
	for _, g := range strings.Split(string(buf), "\n\n") {
		if strings.Contains(g, "(*EVMIndexerService).OnStart(") && !strings.Contains(g, "OnStart.func") {
			out = append(out, trunc(g, 900))
		}
	}
	return strings.Join(out, "\n\n")
}

// tapIndexer delegates everything to the real KVIndexer and only records when IndexBlock
// returned, so that the driver can wait for quiescence without guessing from timing.
type tapIndexer struct {
	*indexer.KVIndexer
	maxReturned atomic.Int64
	first       atomic.Int64 // height of the first IndexBlock call (0 = none)
	calls       atomic.Int64
	errs        atomic.Int64
}

func (t *tapIndexer) IndexBlock(b *cmttypes.Block, r []*abci.ExecTxResult) error {
	t.first.CompareAndSwap(0, b.Height)
	err := t.KVIndexer.IndexBlock(b, r)
	t.calls.Add(1)
	if err != nil {
		t.errs.Add(1)
	}
	for {
		cur := t.maxReturned.Load()
		if b.Height <= cur || t.maxReturned.CompareAndSwap(cur, b.Height) {
			break
		}
	}
	return err
}

var _ evertypes.EVMTxIndexer = (*tapIndexer)(nil)

// history is one crash-enumeration scenario over a window of a recorded chain.
type history struct {
	label    string
	st       *Store
	cctx     client.Context // TxConfig + Codec only (no node behind it: the indexer never queries)
	mode     string         // "fresh": empty DB at the first start; "resume": DB holds an earlier clean session
	preFrom  int64          // resume: blocks preFrom..preTo were indexed by the earlier session
	preTo    int64
	start    int64             // chain head when the service starts
	end      int64             // chain head at the end of the history
	preErr   error             // IndexBlock failed while building the earlier session's index
	prepFake func(*FakeClient) // optional: configure the fake node of the next session (transient RPC faults)
}

func (h *history) initialDB() dbm.DB {
	db := dbm.NewMemDB()
	if h.mode == "resume" {
		idx := indexer.NewKVIndexer(db, log.NewNopLogger(), h.cctx)
		for b := h.preFrom; b <= h.preTo; b++ {
			sb := h.st.at(b)
			if err := idx.IndexBlock(sb.rb.Block, sb.rr.TxsResults); err != nil {
				h.preErr = fmt.Errorf("IndexBlock(%d): %w", b, err)
				break
			}
		}
	}
	return db
}

type sessionOutcome struct {
	watchdog bool
	startErr error
	indexed  int64 // IndexBlock calls
	maxRet   int64
	first    int64
	// OnStart did not return within stopGrace after Stop (observation, not a verdict)
	stopHung     bool
	stopStack    string
	faultsServed int64
}

// session runs the REAL EVMIndexerService + KVIndexer over db against a fresh fake node whose head
// is startHead; once the service reports ready, the chain advances to publishTo (NewBlockHeader
// events). It returns when block publishTo has been processed, or the database "died".
func (h *history) session(db dbm.DB, crash *CrashDB, startHead, publishTo int64) sessionOutcome {
	var out sessionOutcome
	fake := NewFakeClient(h.st, nil, startHead)
	if h.prepFake != nil {
		h.prepFake(fake)
	}
	kv := indexer.NewKVIndexer(db, log.NewNopLogger(), h.cctx)
	tap := &tapIndexer{KVIndexer: kv}
	svc := evmserver.NewEVMIndexerService(tap, fake)
	done := make(chan error, 1)
	go func() { done <- svc.Start() }() // OnStart only returns when the service is stopped
	dead := func() bool { return crash != nil && crash.Crashed() }
	wait := func(cond func() bool) bool {
		deadline := time.Now().Add(watchdog)
		for !cond() {
			select {
			case err := <-done:
				out.startErr = err
				done <- err
				return false
			default:
			}
			if time.Now().After(deadline) {
				out.watchdog = true
				return false
			}
			time.Sleep(200 * time.Microsecond)
		}
		return true
	}
	ok := wait(func() bool { return kv.IsReady() || dead() })
	if ok && !dead() && publishTo > startHead {
		for b := startHead + 1; b <= publishTo; b++ {
			fake.Publish(b)
		}
		wait(func() bool { return tap.maxReturned.Load() >= publishTo || dead() })
	}
	// the service must be running before it can be stopped (Start marks it started before OnStart)
	wait(func() bool { return fake.Status_.Load() > 0 })
	_ = svc.Stop()
	// OnStart normally returns at once. It is not waited for beyond a grace period: the verdict is the
	// database content, the chain head is fixed, every block up to it has been processed (or the database
	// is dead), so a service goroutine that fails to return cannot change the outcome any more.
	select {
	case err := <-done:
		if out.startErr == nil {
			out.startErr = err
		}
	case <-time.After(stopGrace):
		out.stopHung = true
		out.stopStack = serviceStack()
	}
	out.indexed, out.maxRet, out.first = tap.calls.Load(), tap.maxReturned.Load(), tap.first.Load()
	out.faultsServed = fake.FaultsServed.Load()
	return out
}

type crashPointResult struct {
	stopHung   int
	stopStack  string
	k          int64
	applied    bool
	restartAt  int64
	survivors  int
	equal      bool
	watchdog   bool
	err        string
	finalCount int
}

// enumerate runs the uninterrupted reference and then EVERY crash point of the history.
func (h *history) enumerate(res *Result, r *vh.RNG, workers int) {
	// reference: uninterrupted run
	refDB := h.initialDB()
	if h.preErr != nil {
		res.Violation("index-block-error", h.label, map[string]any{"history": h.describe(), "error": h.preErr.Error()})
		return
	}
	refCrash := NewCrashDB(refDB, 0, false)
	so := h.session(refCrash, refCrash, h.start, h.end)
	if so.watchdog || so.startErr != nil {
		res.Inconclusive = append(res.Inconclusive, fmt.Sprintf("%s: reference session did not finish (watchdog=%v err=%v)", h.label, so.watchdog, so.startErr))
		return
	}
	B := refCrash.Writes()
	ref := DumpDB(refDB)
	res.Count("crash_histories", 1)
	res.Count("crash_history_batches", int(B))
	res.Max("max_batches_in_history", B)
	res.Distinct("crash_history_mode", h.mode)
	if h.start > 1 {
		res.Count("crash_histories_with_start_height_gt_1", 1)
	}
	if len(ref) == 0 {
		res.Count("crash_histories_with_empty_reference_index", 1)
	}
	// a second uninterrupted run must reproduce the reference (the machinery itself is deterministic)
	{
		db := h.initialDB()
		c := NewCrashDB(db, 0, false)
		so := h.session(c, c, h.start, h.end)
		if so.watchdog {
			res.Inconclusive = append(res.Inconclusive, h.label+": second reference session hit the watchdog")
			return
		}
		if !bytes.Equal(DumpDB(db), ref) || c.Writes() != B {
			res.Violation("uninterrupted-run-not-reproducible", h.label, map[string]any{"history": h.describe(), "batches": []int64{B, c.Writes()}})
			return
		}
	}
	type job struct {
		k       int64
		applied bool
		variant int
	}
	var jobs []job
	for k := int64(1); k <= B; k++ {
		for _, applied := range []bool{false, true} {
			jobs = append(jobs, job{k, applied, r.Intn(2)})
		}
	}
	out := make([]crashPointResult, len(jobs))
	var wg sync.WaitGroup
	sem := make(chan struct{}, workers)
	for i, j := range jobs {
		wg.Add(1)
		sem <- struct{}{}
		go func(i int, j job) {
			defer wg.Done()
			defer func() { <-sem }()
			out[i] = h.crashPoint(j.k, j.applied, j.variant, ref, so.first)
		}(i, j)
	}
	wg.Wait()
	for _, cp := range out {
		side := map[bool]string{false: "batch-lost", true: "batch-applied"}[cp.applied]
		res.Evals++
		if cp.stopHung > 0 {
			res.Count("sessions_whose_OnStart_did_not_return_within_2s_after_Stop", cp.stopHung)
			if len(res.Samples) < 1 {
				res.Samples = append(res.Samples, map[string]any{"observation": "EVMIndexerService.OnStart still running 2 s after Stop()", "history": h.label, "k": cp.k, "stack": cp.stopStack})
			}
		}
		res.Count("crash_points_enumerated", 1)
		res.Count("crash_points_"+side, 1)
		pos := "middle"
		switch {
		case cp.k == 1:
			pos = "first-batch"
			res.Count("crash_points_at_first_batch", 1)
		case cp.k == B:
			pos = "last-batch"
		}
		res.Nontrivial(fmt.Sprintf("crash:%s:%s:%s:survivors=%v", h.mode, side, pos, cp.survivors > 0))
		if cp.watchdog {
			res.Inconclusive = append(res.Inconclusive, fmt.Sprintf("%s k=%d %s: watchdog fired", h.label, cp.k, side))
			continue
		}
		if cp.err != "" {
			res.Violation("crash-restart-service-error", h.label, map[string]any{"history": h.describe(), "k": cp.k, "side": side, "error": cp.err})
			continue
		}
		if cp.equal {
			res.Count("crash_points_converged", 1)
			if len(res.Samples) < 2 && cp.survivors > 0 {
				res.Samples = append(res.Samples, map[string]any{"observation": "crash point converged", "history": h.describe(), "crash_at_batch": cp.k, "of_batches": B, "side": side,
					"entries_surviving_the_crash": cp.survivors, "chain_head_at_restart": cp.restartAt, "entries_after_restart_and_catch_up": cp.finalCount})
			}
			continue
		}
		sig := "crash-restart-index-differs:after-first-persisted-batch"
		if cp.survivors == 0 {
			sig = "crash-restart-index-differs:crash-before-first-persisted-batch"
		}
		res.Count("crash_points_diverged", 1)
		res.Violation(sig, h.label, map[string]any{
			"history": h.describe(), "crash_at_batch": cp.k, "of_batches": B, "side": side,
			"entries_surviving_the_crash": cp.survivors, "chain_head_at_restart": cp.restartAt,
			"entries_after_restart_and_catch_up": cp.finalCount, "entries_in_uninterrupted_index": countDump(ref),
			"explanation": "after the restart the service caught up to the head and reported ready; the final index differs from the uninterrupted run's index",
			"blocks_after_service_start_whose_batch_is_not_empty": h.ethBlocks(),
		})
	}
}

func (h *history) crashPoint(k int64, applied bool, variant int, ref []byte, firstBatchBlock int64) crashPointResult {
	cp := crashPointResult{k: k, applied: applied}
	db := h.initialDB()
	crash := NewCrashDB(db, k, applied)
	so := h.session(crash, crash, h.start, h.end)
	if so.stopHung {
		cp.stopHung++
		cp.stopStack = so.stopStack
	}
	if so.watchdog {
		cp.watchdog = true
		return cp
	}
	if !crash.Crashed() {
		cp.err = fmt.Sprintf("crash point %d never reached (%d batch writes)", k, crash.Writes())
		return cp
	}
	cp.survivors = CountDB(db)
	// restart: a FRESH service + indexer over what survived. Variant 0: the chain went on to the end of
	// the history while the indexer was down. Variant 1: restart right at the crash-time head, the rest
	// of the chain arrives as new-block events.
	restartHead := h.end
	if variant == 1 {
		restartHead = firstBatchBlock + k - 1 // the block whose batch was being written when the process died
		if restartHead < h.start {
			restartHead = h.start
		}
		if restartHead > h.end {
			restartHead = h.end
		}
	}
	cp.restartAt = restartHead
	so2 := h.session(db, nil, restartHead, h.end)
	if so2.stopHung {
		cp.stopHung++
		cp.stopStack = so2.stopStack
	}
	if so2.watchdog {
		cp.watchdog = true
		return cp
	}
	if so2.startErr != nil {
		cp.err = "restart: " + so2.startErr.Error()
		return cp
	}
	final := DumpDB(db)
	cp.finalCount = countDump(final)
	cp.equal = bytes.Equal(final, ref)
	return cp
}

func countDump(d []byte) int {
	n := 0
	for i := 0; i+4 <= len(d); {
		l := int(d[i])<<24 | int(d[i+1])<<16 | int(d[i+2])<<8 | int(d[i+3])
		i += 4 + l
		n++
	}
	return n / 2
}

func (h *history) describe() map[string]any {
	return map[string]any{"label": h.label, "mode": h.mode, "previous_clean_session_indexed_blocks": []int64{h.preFrom, h.preTo},
		"service_start_height": h.start, "end_height": h.end}
}

// ethBlocks lists the heights in (start, end] whose IndexBlock batch is non-empty.
func (h *history) ethBlocks() []int64 {
	var out []int64
	for b := h.start + 1; b <= h.end; b++ {
		if h.st.hasIndexable(b, h.cctx) {
			out = append(out, b)
		}
	}
	return out
}

// hasIndexable tells whether IndexBlock writes anything for block b.
func (s *Store) hasIndexable(b int64, cctx client.Context) bool {
	sb := s.at(b)
	if sb == nil {
		return false
	}
	db := dbm.NewMemDB()
	_ = indexer.NewKVIndexer(db, log.NewNopLogger(), cctx).IndexBlock(sb.rb.Block, sb.rr.TxsResults)
	return CountDB(db) > 0
}

var _ = common.Hash{}

// rpcFaults enumerates transient RPC faults: for every block of the window and each of the two fetch calls of the
// service (Block, BlockResults) one session in which that call fails once (and once more: twice) while later blocks
// are already available (catch-up) or arrive afterwards (live). A failed fetch is retried by the service; the final
// index must equal the index of the fault-free run - the index is a function of the chain alone.
func (h *history) rpcFaults(res *Result) {
	refDB := h.initialDB()
	ref0 := h.session(refDB, nil, h.start, h.end)
	if ref0.watchdog || ref0.startErr != nil {
		res.Inconclusive = append(res.Inconclusive, h.label+": fault-free reference session failed")
		return
	}
	ref := DumpDB(refDB)
	for _, catchUp := range []bool{true, false} {
		for b := h.start + 1; b <= h.end; b++ {
			for _, method := range []string{"Block", "BlockResults"} {
				for _, times := range []int{1, 2} {
					if times == 2 && (b-h.start)%3 != 0 {
						continue
					}
					db := h.initialDB()
					h.prepFake = func(f *FakeClient) { f.FailNext(method, b, times) }
					var out sessionOutcome
					if catchUp { // the node is already at the final head when the service starts: everything is catch-up
						out = h.session(db, nil, h.end, h.end)
					} else {
						out = h.session(db, nil, h.start, h.end)
					}
					h.prepFake = nil
					res.Evals++
					mode := "live"
					if catchUp {
						mode = "catch-up"
					}
					if out.watchdog {
						res.Inconclusive = append(res.Inconclusive, fmt.Sprintf("%s rpc fault %s(%d): watchdog", h.label, method, b))
						continue
					}
					if out.faultsServed == 0 {
						res.Count("rpc_fault_sessions_where_the_call_was_never_made", 1)
						continue
					}
					res.Count("rpc_fault_sessions", 1)
					res.Nontrivial(fmt.Sprintf("rpc-fault:%s:%s:x%d:%s", mode, method, times, h.mode))
					want := ref
					if catchUp && h.mode != "resume" {
						continue // a fresh index started at the final head indexes nothing by design: no reference to compare with
					}
					if got := DumpDB(db); !bytes.Equal(got, want) {
						res.Violation("index-differs-after-transient-rpc-error:"+method, h.label, map[string]any{"history": h.describe(), "mode": mode, "failed_call": method, "height": b, "times": times,
							"entries_with_fault": countDump(got), "entries_fault_free": countDump(want), "blocks_with_ethereum_txs": h.ethBlocks()})
					}
				}
			}
		}
	}
}
