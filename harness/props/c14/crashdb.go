package c14

import (
	"encoding/binary"
	"errors"
	"sync/atomic"

	dbm "github.com/cosmos/cosmos-db"
)

var errKilled = errors.New("crashdb: process killed")

// CrashDB wraps the indexer's database. At the k-th write (batch Write/WriteSync, or a direct Set/Delete) it either drops
// (applied=false) or applies (applied=true) the batch and from then on fails every operation:
// the view a killed process leaves on disk. Torn batches are deliberately not injected: the
// production backends (LevelDB / Pebble / RocksDB) write a batch atomically.
type CrashDB struct {
	inner   dbm.DB
	k       int64 // 0 = never crash
	applied bool
	writes  atomic.Int64
	crashed atomic.Bool
	crashAt atomic.Int64 // size (ops) of the batch at the crash point
}

func NewCrashDB(inner dbm.DB, k int64, applied bool) *CrashDB {
	return &CrashDB{inner: inner, k: k, applied: applied}
}

func (c *CrashDB) Crashed() bool { return c.crashed.Load() }
func (c *CrashDB) Writes() int64 { return c.writes.Load() }
func (c *CrashDB) Inner() dbm.DB { return c.inner }

func (c *CrashDB) Get(k []byte) ([]byte, error) {
	if c.crashed.Load() {
		return nil, errKilled
	}
	return c.inner.Get(k)
}

func (c *CrashDB) Has(k []byte) (bool, error) {
	if c.crashed.Load() {
		return false, errKilled
	}
	return c.inner.Has(k)
}

// direct writes (outside any batch) are write points of their own: the k-th write of the process, batch or not, is
// where it dies
func (c *CrashDB) direct(apply func() error) error {
	if c.crashed.Load() {
		return errKilled
	}
	n := c.writes.Add(1)
	if c.k > 0 && n == c.k {
		var err error
		if c.applied {
			err = apply()
		}
		c.crashAt.Store(1)
		c.crashed.Store(true)
		if err != nil {
			return err
		}
		return errKilled
	}
	return apply()
}

func (c *CrashDB) Set(k, v []byte) error {
	return c.direct(func() error { return c.inner.Set(k, v) })
}
func (c *CrashDB) SetSync(k, v []byte) error { return c.Set(k, v) }

func (c *CrashDB) Delete(k []byte) error {
	return c.direct(func() error { return c.inner.Delete(k) })
}
func (c *CrashDB) DeleteSync(k []byte) error { return c.Delete(k) }

func (c *CrashDB) Iterator(s, e []byte) (dbm.Iterator, error) {
	if c.crashed.Load() {
		return nil, errKilled
	}
	return c.inner.Iterator(s, e)
}

func (c *CrashDB) ReverseIterator(s, e []byte) (dbm.Iterator, error) {
	if c.crashed.Load() {
		return nil, errKilled
	}
	return c.inner.ReverseIterator(s, e)
}

func (c *CrashDB) Close() error             { return nil }
func (c *CrashDB) Print() error             { return nil }
func (c *CrashDB) Stats() map[string]string { return nil }

func (c *CrashDB) NewBatch() dbm.Batch { return &crashBatch{db: c, inner: c.inner.NewBatch()} }
func (c *CrashDB) NewBatchWithSize(n int) dbm.Batch {
	return &crashBatch{db: c, inner: c.inner.NewBatchWithSize(n)}
}

type crashBatch struct {
	db    *CrashDB
	inner dbm.Batch
	ops   int64
}

func (b *crashBatch) Set(k, v []byte) error {
	if b.db.crashed.Load() {
		return errKilled
	}
	b.ops++
	return b.inner.Set(k, v)
}

func (b *crashBatch) Delete(k []byte) error {
	if b.db.crashed.Load() {
		return errKilled
	}
	b.ops++
	return b.inner.Delete(k)
}

func (b *crashBatch) Write() error {
	if b.db.crashed.Load() {
		return errKilled
	}
	n := b.db.writes.Add(1)
	if b.db.k > 0 && n == b.db.k {
		var err error
		if b.db.applied {
			err = b.inner.Write()
		}
		b.db.crashAt.Store(b.ops)
		b.db.crashed.Store(true)
		if err != nil {
			return err
		}
		return errKilled
	}
	return b.inner.Write()
}

func (b *crashBatch) WriteSync() error { return b.Write() }
func (b *crashBatch) Close() error     { return b.inner.Close() }
func (b *crashBatch) GetByteSize() (int, error) {
	return b.inner.GetByteSize()
}

// DumpDB serialises the full content of a database (length-prefixed key/value pairs in key order).
func DumpDB(db dbm.DB) []byte {
	it, err := db.Iterator(nil, nil)
	if err != nil {
		panic(err)
	}
	defer it.Close()
	var out []byte
	var l [4]byte
	for ; it.Valid(); it.Next() {
		k, v := it.Key(), it.Value()
		binary.BigEndian.PutUint32(l[:], uint32(len(k)))
		out = append(append(out, l[:]...), k...)
		binary.BigEndian.PutUint32(l[:], uint32(len(v)))
		out = append(append(out, l[:]...), v...)
	}
	return out
}

// CountDB returns the number of entries.
func CountDB(db dbm.DB) int {
	it, err := db.Iterator(nil, nil)
	if err != nil {
		panic(err)
	}
	defer it.Close()
	n := 0
	for ; it.Valid(); it.Next() {
		n++
	}
	return n
}

// CloneMemDB copies a database into a fresh MemDB.
func CloneMemDB(db dbm.DB) dbm.DB {
	out := dbm.NewMemDB()
	it, err := db.Iterator(nil, nil)
	if err != nil {
		panic(err)
	}
	defer it.Close()
	for ; it.Valid(); it.Next() {
		k, v := append([]byte{}, it.Key()...), append([]byte{}, it.Value()...)
		if err := out.Set(k, v); err != nil {
			panic(err)
		}
	}
	return out
}
