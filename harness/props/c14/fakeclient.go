// Package c14 decides property C14 ("transaction indexer and JSON-RPC views agree with consensus
// results") with engine E7: the REAL KVIndexer, rpc Backend and EVMIndexerService of the repository
// run against a fake CometBFT RPC client that serves the blocks recorded by the ABCI chain driver,
// over a fault-injecting database.
package c14

import (
	"context"
	"errors"
	"fmt"
	"sync"
	"sync/atomic"

	abci "github.com/cometbft/cometbft/abci/types"
	cmtbytes "github.com/cometbft/cometbft/libs/bytes"
	cmtversion "github.com/cometbft/cometbft/proto/tendermint/version"
	rpcclient "github.com/cometbft/cometbft/rpc/client"
	coretypes "github.com/cometbft/cometbft/rpc/core/types"
	cmttypes "github.com/cometbft/cometbft/types"

	"verifharness/vh"
)

// storedBlock is one recorded block in CometBFT's RPC shapes.
type storedBlock struct {
	rb  *coretypes.ResultBlock
	rr  *coretypes.ResultBlockResults
	req *abci.RequestFinalizeBlock
	res *abci.ResponseFinalizeBlock
}

// Store is the immutable block history a FakeClient serves (heights 1..len).
type Store struct {
	blocks []*storedBlock
	byHash map[string]int64
	maxGas int64
}

func (s *Store) Height() int64 { return int64(len(s.blocks)) }

// IndexAll feeds every recorded block to idx, in order (what the indexer service does on a healthy node).
func (s *Store) IndexAll(idx interface {
	IndexBlock(*cmttypes.Block, []*abci.ExecTxResult) error
}) error {
	for h := int64(1); h <= s.Height(); h++ {
		sb := s.at(h)
		if err := idx.IndexBlock(sb.rb.Block, sb.rr.TxsResults); err != nil {
			return err
		}
	}
	return nil
}

// Recorded returns the transactions and the consensus results of block h.
func (s *Store) Recorded(h int64) ([][]byte, *abci.ResponseFinalizeBlock) {
	sb := s.at(h)
	return sb.req.Txs, sb.res
}

func (s *Store) at(h int64) *storedBlock {
	if h < 1 || h > int64(len(s.blocks)) {
		return nil
	}
	return s.blocks[h-1]
}

func pad32(b []byte) []byte {
	out := make([]byte, 32)
	copy(out, b)
	return out
}

// BuildStore converts the blocks recorded by a vh.Chain (KeepBlocks, from height 1, no sentinel)
// into CometBFT blocks: block data = ALL txs of the FinalizeBlock request, results = the response.
func BuildStore(c *vh.Chain) *Store {
	st := &Store{byHash: map[string]int64{}, maxGas: c.Cfg.MaxGas}
	var prevID cmttypes.BlockID
	var prevApp []byte
	for i, br := range c.Blocks {
		if br.Height != int64(i+1) || br.Res == nil {
			panic(fmt.Sprintf("c14: recorded blocks not contiguous from 1 (index %d height %d)", i, br.Height))
		}
		if len(br.Req.Txs) != len(br.Res.TxResults) {
			panic("c14: tx / result count mismatch")
		}
		txs := make(cmttypes.Txs, len(br.Req.Txs))
		for j, t := range br.Req.Txs {
			txs[j] = cmttypes.Tx(t)
		}
		hdr := cmttypes.Header{
			Version: cmtversion.Consensus{Block: 11}, ChainID: vh.ChainID, Height: br.Height, Time: br.Time,
			LastBlockID: prevID, ValidatorsHash: pad32(br.Req.NextValidatorsHash), NextValidatorsHash: pad32(br.Req.NextValidatorsHash),
			ConsensusHash: pad32([]byte("consensus")), AppHash: prevApp, LastResultsHash: pad32([]byte("results")),
			ProposerAddress: br.Req.ProposerAddress,
		}
		blk := &cmttypes.Block{Header: hdr, Data: cmttypes.Data{Txs: txs},
			LastCommit: &cmttypes.Commit{Height: br.Height - 1, BlockID: prevID}}
		hash := blk.Hash()
		if len(hash) == 0 {
			panic("c14: block hash empty")
		}
		id := cmttypes.BlockID{Hash: hash, PartSetHeader: cmttypes.PartSetHeader{Total: 1, Hash: pad32(hash)}}
		sb := &storedBlock{req: br.Req, res: br.Res,
			rb: &coretypes.ResultBlock{BlockID: id, Block: blk},
			rr: &coretypes.ResultBlockResults{Height: br.Height, TxsResults: br.Res.TxResults, FinalizeBlockEvents: br.Res.Events,
				ValidatorUpdates: br.Res.ValidatorUpdates, ConsensusParamUpdates: br.Res.ConsensusParamUpdates, AppHash: br.Res.AppHash}}
		st.blocks = append(st.blocks, sb)
		st.byHash[string(hash)] = br.Height
		prevID, prevApp = id, br.Res.AppHash
	}
	return st
}

type queryApp interface {
	Query(ctx context.Context, req *abci.RequestQuery) (*abci.ResponseQuery, error)
}

// FakeClient implements the subset of CometBFT's rpc client that rpc/backend and
// server.EVMIndexerService use. Every other method of the embedded (nil) interface panics
// with a nil dereference, which the monitors report as a harness error, never as a verdict.
type FakeClient struct {
	rpcclient.Client
	st  *Store
	app queryApp
	qmu sync.Mutex

	mu           sync.Mutex
	head         int64
	subs         map[string]chan coretypes.ResultEvent
	Calls        sync.Map // method name -> *atomic.Int64
	Status_      atomic.Int64
	faults       sync.Map // "method/height" -> *atomic.Int32: number of transient errors still to be answered
	FaultsServed atomic.Int64
}

// FailNext makes the next `times` calls of method ("Block" | "BlockResults") for height h fail with a transient
// RPC error (what a briefly unavailable or lagging CometBFT RPC endpoint answers), after which it answers normally.
func (f *FakeClient) FailNext(method string, h int64, times int) {
	c := new(atomic.Int32)
	c.Store(int32(times))
	f.faults.Store(fmt.Sprintf("%s/%d", method, h), c)
}

func (f *FakeClient) fault(method string, height *int64) error {
	if height == nil {
		return nil
	}
	if v, ok := f.faults.Load(fmt.Sprintf("%s/%d", method, *height)); ok {
		if v.(*atomic.Int32).Add(-1) >= 0 {
			f.FaultsServed.Add(1)
			return fmt.Errorf("injected transient RPC error: %s(%d): connection refused", method, *height)
		}
	}
	return nil
}

func NewFakeClient(st *Store, app queryApp, head int64) *FakeClient {
	return &FakeClient{st: st, app: app, head: head, subs: map[string]chan coretypes.ResultEvent{}}
}

func (f *FakeClient) called(m string) {
	v, _ := f.Calls.LoadOrStore(m, new(atomic.Int64))
	v.(*atomic.Int64).Add(1)
}

func (f *FakeClient) Head() int64 { f.mu.Lock(); defer f.mu.Unlock(); return f.head }

// SetHead makes blocks up to h visible (no event).
func (f *FakeClient) SetHead(h int64) {
	f.mu.Lock()
	if h > f.st.Height() {
		h = f.st.Height()
	}
	f.head = h
	f.mu.Unlock()
}

// Publish makes block h visible and sends its NewBlockHeader event to every subscriber.
func (f *FakeClient) Publish(h int64) {
	f.mu.Lock()
	if h > f.head {
		f.head = h
	}
	sb := f.st.at(h)
	var chans []chan coretypes.ResultEvent
	for _, c := range f.subs {
		chans = append(chans, c)
	}
	f.mu.Unlock()
	if sb == nil {
		return
	}
	ev := coretypes.ResultEvent{Query: cmttypes.QueryForEvent(cmttypes.EventNewBlockHeader).String(),
		Data: cmttypes.EventDataNewBlockHeader{Header: sb.rb.Block.Header}}
	for _, c := range chans {
		c <- ev // buffered beyond the length of any history: never blocks
	}
}

func (f *FakeClient) resolve(height *int64) (*storedBlock, error) {
	head := f.Head()
	h := head
	if height != nil {
		h = *height
	}
	if h <= 0 {
		return nil, fmt.Errorf("height must be greater than 0, but got %d", h)
	}
	if h > head {
		return nil, fmt.Errorf("height %d must be less than or equal to the current blockchain height %d", h, head)
	}
	return f.st.at(h), nil
}

func (f *FakeClient) Status(context.Context) (*coretypes.ResultStatus, error) {
	f.called("Status")
	f.Status_.Add(1)
	head := f.Head()
	si := coretypes.SyncInfo{LatestBlockHeight: head, EarliestBlockHeight: 1}
	if sb := f.st.at(head); sb != nil {
		si.LatestBlockHash, si.LatestBlockTime, si.LatestAppHash = sb.rb.BlockID.Hash, sb.rb.Block.Time, sb.res.AppHash
	}
	if sb := f.st.at(1); sb != nil {
		si.EarliestBlockHash, si.EarliestBlockTime = sb.rb.BlockID.Hash, sb.rb.Block.Time
	}
	return &coretypes.ResultStatus{SyncInfo: si}, nil
}

func (f *FakeClient) Block(_ context.Context, height *int64) (*coretypes.ResultBlock, error) {
	f.called("Block")
	if err := f.fault("Block", height); err != nil {
		return nil, err
	}
	sb, err := f.resolve(height)
	if err != nil {
		return nil, err
	}
	return sb.rb, nil
}

func (f *FakeClient) BlockByHash(_ context.Context, hash []byte) (*coretypes.ResultBlock, error) {
	f.called("BlockByHash")
	h, ok := f.st.byHash[string(hash)]
	if !ok || h > f.Head() {
		return &coretypes.ResultBlock{BlockID: cmttypes.BlockID{}, Block: nil}, nil // what CometBFT answers for an unknown hash
	}
	return f.st.at(h).rb, nil
}

func (f *FakeClient) BlockResults(_ context.Context, height *int64) (*coretypes.ResultBlockResults, error) {
	f.called("BlockResults")
	if err := f.fault("BlockResults", height); err != nil {
		return nil, err
	}
	sb, err := f.resolve(height)
	if err != nil {
		return nil, err
	}
	return sb.rr, nil
}

func (f *FakeClient) Header(_ context.Context, height *int64) (*coretypes.ResultHeader, error) {
	f.called("Header")
	sb, err := f.resolve(height)
	if err != nil {
		return nil, err
	}
	h := sb.rb.Block.Header
	return &coretypes.ResultHeader{Header: &h}, nil
}

func (f *FakeClient) HeaderByHash(_ context.Context, hash cmtbytes.HexBytes) (*coretypes.ResultHeader, error) {
	f.called("HeaderByHash")
	h, ok := f.st.byHash[string(hash)]
	if !ok || h > f.Head() {
		return &coretypes.ResultHeader{}, nil
	}
	hd := f.st.at(h).rb.Block.Header
	return &coretypes.ResultHeader{Header: &hd}, nil
}

func (f *FakeClient) ConsensusParams(_ context.Context, height *int64) (*coretypes.ResultConsensusParams, error) {
	f.called("ConsensusParams")
	sb, err := f.resolve(height)
	if err != nil {
		return nil, err
	}
	cp := *cmttypes.DefaultConsensusParams()
	cp.Block.MaxBytes, cp.Block.MaxGas = 4_000_000, f.st.maxGas
	return &coretypes.ResultConsensusParams{BlockHeight: sb.rr.Height, ConsensusParams: cp}, nil
}

func (f *FakeClient) UnconfirmedTxs(context.Context, *int) (*coretypes.ResultUnconfirmedTxs, error) {
	f.called("UnconfirmedTxs")
	return &coretypes.ResultUnconfirmedTxs{}, nil
}

func (f *FakeClient) NumUnconfirmedTxs(context.Context) (*coretypes.ResultUnconfirmedTxs, error) {
	f.called("NumUnconfirmedTxs")
	return &coretypes.ResultUnconfirmedTxs{}, nil
}

func (f *FakeClient) ABCIInfo(ctx context.Context) (*coretypes.ResultABCIInfo, error) {
	f.called("ABCIInfo")
	return &coretypes.ResultABCIInfo{Response: abci.ResponseInfo{LastBlockHeight: f.Head()}}, nil
}

func (f *FakeClient) ABCIQuery(ctx context.Context, path string, data cmtbytes.HexBytes) (*coretypes.ResultABCIQuery, error) {
	return f.ABCIQueryWithOptions(ctx, path, data, rpcclient.DefaultABCIQueryOptions)
}

// ABCIQueryWithOptions forwards to the real application's Query entry point.
func (f *FakeClient) ABCIQueryWithOptions(ctx context.Context, path string, data cmtbytes.HexBytes, opts rpcclient.ABCIQueryOptions) (*coretypes.ResultABCIQuery, error) {
	f.called("ABCIQueryWithOptions")
	if f.app == nil {
		return nil, errors.New("fake client: no application attached")
	}
	f.qmu.Lock()
	defer f.qmu.Unlock()
	res, err := f.app.Query(ctx, &abci.RequestQuery{Path: path, Data: data, Height: opts.Height, Prove: opts.Prove})
	if err != nil {
		return nil, err
	}
	return &coretypes.ResultABCIQuery{Response: *res}, nil
}

func (f *FakeClient) Subscribe(_ context.Context, subscriber, query string, _ ...int) (<-chan coretypes.ResultEvent, error) {
	f.called("Subscribe")
	f.mu.Lock()
	defer f.mu.Unlock()
	key := subscriber + "|" + query
	if _, dup := f.subs[key]; dup {
		return nil, errors.New("already subscribed")
	}
	c := make(chan coretypes.ResultEvent, int(f.st.Height())+16)
	f.subs[key] = c
	return c, nil
}

func (f *FakeClient) Unsubscribe(_ context.Context, subscriber, query string) error {
	f.called("Unsubscribe")
	f.mu.Lock()
	defer f.mu.Unlock()
	delete(f.subs, subscriber+"|"+query)
	return nil
}

func (f *FakeClient) UnsubscribeAll(_ context.Context, subscriber string) error {
	f.called("UnsubscribeAll")
	f.mu.Lock()
	defer f.mu.Unlock()
	for k := range f.subs {
		if len(k) > len(subscriber) && k[:len(subscriber)+1] == subscriber+"|" {
			delete(f.subs, k)
		}
	}
	return nil
}

// Subscribed tells whether any subscription is active.
func (f *FakeClient) Subscribed() bool { f.mu.Lock(); defer f.mu.Unlock(); return len(f.subs) > 0 }

// CallCounts returns how often each method was used (evidence).
func (f *FakeClient) CallCounts() map[string]int64 {
	out := map[string]int64{}
	f.Calls.Range(func(k, v any) bool { out[k.(string)] = v.(*atomic.Int64).Load(); return true })
	return out
}
