package c14

import (
	"bytes"
	"encoding/json"
	"fmt"
	"os"
	"os/exec"
	"path/filepath"
	"runtime"
	"sort"
	"sync"
	"sync/atomic"
	"time"

	"cosmossdk.io/log"
	"github.com/anishathalye/porcupine"
	dbm "github.com/cosmos/cosmos-db"
	"github.com/cosmos/cosmos-sdk/client"
	"github.com/ethereum/go-ethereum/common"

	"github.com/EscanBE/evermint/v12/indexer"

	"verifharness/props/c13"
	"verifharness/vh"
)

// ---------------------------------------------------------------------------------------------
// Linearizability leg: IndexBlock and the two lookups called concurrently on the real KVIndexer;
// every tx hash's sub-history must be a linearizable history of a write-once register
// (absent -> present(v)): a lookup that starts after an IndexBlock of the tx's block has returned
// must find it, a lookup may find it while an IndexBlock is in flight, never before any was
// called, never "found, then absent", and whatever is found must be the true (block, index).
// ---------------------------------------------------------------------------------------------

type linTx struct {
	hash     common.Hash
	height   int64
	pos      uint32
	ethIndex int32
}

type linBlock struct {
	sb  *storedBlock
	txs []linTx
}

type linOp struct {
	Client int    `json:"client"`
	Kind   string `json:"kind"` // "IndexBlock" | "GetByTxHash" | "GetByBlockAndIndex"
	Block  int    `json:"block"`
	Tx     int    `json:"tx"` // index into the window's tx list (-1: unknown hash / IndexBlock)
	Gate   int64  `json:"-"`
	Call   int64  `json:"call"`
	Ret    int64  `json:"ret"`
	Found  bool   `json:"found"`
	Val    string `json:"val,omitempty"`
	Err    string `json:"err,omitempty"`
}

type regIn struct{ write bool }

var registerModel = porcupine.Model{
	Init: func() interface{} { return false },
	Step: func(state, in, out interface{}) (bool, interface{}) {
		present := state.(bool)
		if in.(regIn).write {
			return true, true
		}
		return out.(bool) == present, present
	},
	Equal: func(a, b interface{}) bool { return a.(bool) == b.(bool) },
}

// linWorld records one small chain and returns its blocks that carry executed Ethereum txs.
func linWorld(r *vh.RNG, nBlocks int) ([]linBlock, client.Context, func()) {
	w := c13.NewWorld(r, c13.WorldCfg{MaxGas: 1_500_000, KeepBlocks: true, NumEOA: 8}, nil)
	for b := 0; b < nBlocks; b++ {
		w.Step(r.Range(3, 12))
	}
	st := BuildStore(w.C)
	dec := w.Decoder()
	var out []linBlock
	for h := int64(1); h <= st.Height(); h++ {
		sb := st.at(h)
		bt := c13.ParseBlock(sb.req.Txs, sb.res, dec)
		lb := linBlock{sb: sb}
		for _, t := range bt.Exec {
			lb.txs = append(lb.txs, linTx{hash: t.Hash, height: h, pos: uint32(t.Pos), ethIndex: int32(t.EthIndex)})
		}
		if len(lb.txs) > 0 {
			out = append(out, lb)
		}
	}
	return out, ClientCtx(w.C.Enc, nil), w.C.Cleanup
}

// LinLeg runs nHist short concurrent histories and checks each with porcupine.
func LinLeg(run *vh.Run, tag string, nHist int) *Result {
	res := NewResult()
	r0 := run.RNG("lin-world", 0)
	blocks, cctx, cleanup := linWorld(r0, 14)
	defer cleanup()
	if len(blocks) < 6 {
		res.Inconclusive = append(res.Inconclusive, "linearizability: recorded chain has too few blocks with Ethereum txs")
		return res
	}
	for hi := 0; hi < nHist; hi++ {
		linHistory(res, run.RNG("lin-"+tag, hi), tag, hi, blocks, cctx)
	}
	return res
}

func linHistory(res *Result, r *vh.RNG, tag string, hi int, blocks []linBlock, cctx client.Context) {
	label := "lin"
	m := r.Range(2, 4)
	s := r.Intn(len(blocks) - m + 1)
	win := blocks[s : s+m]
	var txs []linTx
	blockOf := []int{}
	for bi, b := range win {
		for _, t := range b.txs {
			txs = append(txs, t)
			blockOf = append(blockOf, bi)
		}
	}
	db := dbm.NewMemDB()
	kv := indexer.NewKVIndexer(db, log.NewNopLogger(), cctx)
	mode := hi % 3 // 0: one writer in order; 1: two writers, both in order (racing for the same block); 2: two writers, opposite orders
	writers := [][]int{seqInt(m)}
	switch mode {
	case 1:
		writers = append(writers, seqInt(m))
	case 2:
		rev := seqInt(m)
		for i, j := 0, m-1; i < j; i, j = i+1, j-1 {
			rev[i], rev[j] = rev[j], rev[i]
		}
		writers = append(writers, rev)
	}
	totalWrites := 0
	for _, w := range writers {
		totalWrites += len(w)
	}
	maxGate := int64(2 * totalWrites)
	const nReaders = 3
	readerOps := make([][]*linOp, nReaders)
	for c := range readerOps {
		n := r.Range(28, 40)
		gates := make([]int64, n)
		for i := range gates {
			gates[i] = int64(r.Intn(int(maxGate) + 1))
		}
		sort.Slice(gates, func(i, j int) bool { return gates[i] < gates[j] })
		for i := 0; i < n; i++ {
			op := &linOp{Client: len(writers) + c, Gate: gates[i], Tx: r.Intn(len(txs)), Kind: "GetByTxHash"}
			if r.Bool() {
				op.Kind = "GetByBlockAndIndex"
			}
			if r.Chance(1, 12) {
				op.Tx = -1 // a hash / slot that is never indexed in this history
			}
			if op.Tx >= 0 {
				op.Block = blockOf[op.Tx]
			}
			readerOps[c] = append(readerOps[c], op)
		}
	}
	unknownHash := common.BytesToHash(r.Bytes(32))

	var clock, stage atomic.Int64
	var wg sync.WaitGroup
	start := make(chan struct{})
	writerOps := make([][]*linOp, len(writers))
	for wi, order := range writers {
		wg.Add(1)
		go func(wi int, order []int) {
			defer wg.Done()
			<-start
			for _, bi := range order {
				op := &linOp{Client: wi, Kind: "IndexBlock", Block: bi, Tx: -1}
				sb := win[bi].sb
				stage.Add(1)
				op.Call = clock.Add(1)
				err := kv.IndexBlock(sb.rb.Block, sb.rr.TxsResults)
				op.Ret = clock.Add(1)
				stage.Add(1)
				if err != nil {
					op.Err = err.Error()
				}
				writerOps[wi] = append(writerOps[wi], op)
			}
		}(wi, order)
	}
	for c := range readerOps {
		wg.Add(1)
		go func(ops []*linOp) {
			defer wg.Done()
			<-start
			for _, op := range ops {
				for stage.Load() < op.Gate {
					runtime.Gosched()
				}
				switch {
				case op.Kind == "GetByTxHash":
					h := unknownHash
					if op.Tx >= 0 {
						h = txs[op.Tx].hash
					}
					op.Call = clock.Add(1)
					got, err := kv.GetByTxHash(h)
					op.Ret = clock.Add(1)
					if err == nil && got != nil {
						op.Found, op.Val = true, fmt.Sprintf("%d/%d/%d", got.Height, got.TxIndex, got.EthTxIndex)
					}
				default:
					height, idx := win[len(win)-1].sb.rr.Height+1000, int32(0)
					if op.Tx >= 0 {
						height, idx = txs[op.Tx].height, txs[op.Tx].ethIndex
					}
					op.Call = clock.Add(1)
					got, err := kv.GetByBlockAndIndex(height, idx)
					op.Ret = clock.Add(1)
					if err == nil && got != nil {
						op.Found, op.Val = true, fmt.Sprintf("%d/%d/%d", got.Height, got.TxIndex, got.EthTxIndex)
					}
				}
			}
		}(readerOps[c])
	}
	close(start)
	wg.Wait()

	res.Evals++
	res.Count("lin_histories", 1)
	res.Count("lin_histories_"+tag, 1)
	res.Nontrivial(fmt.Sprintf("lin:%s:writers=%d", tag, mode))
	var writes []*linOp
	for _, ops := range writerOps {
		for _, op := range ops {
			writes = append(writes, op)
			res.Count("lin_ops", 1)
			res.Count("lin_ops_IndexBlock", 1)
			if op.Err != "" {
				res.Violation("concurrent-IndexBlock-error", label, map[string]any{"history": hi, "tag": tag, "op": op})
			}
		}
	}
	witness := func(tx int, ops []*linOp, extra map[string]any) map[string]any {
		m := map[string]any{"leg": "linearizability", "build": tag, "history": hi, "writer_mode": mode, "ops_of_this_tx": ops}
		if tx >= 0 {
			t := txs[tx]
			m["tx"] = map[string]any{"hash": t.hash.Hex(), "height": t.height, "position_in_block": t.pos, "eth_index": t.ethIndex, "window_block": blockOf[tx]}
		}
		for k, v := range extra {
			m[k] = v
		}
		return m
	}
	perTx := make([][]*linOp, len(txs))
	for _, ops := range readerOps {
		for _, op := range ops {
			res.Count("lin_ops", 1)
			res.Count("lin_ops_"+op.Kind, 1)
			if op.Found {
				res.Count("lin_lookups_found", 1)
			} else {
				res.Count("lin_lookups_not_found", 1)
			}
			if op.Tx < 0 {
				res.Count("lin_lookups_of_unindexed_key", 1)
				if op.Found {
					res.Violation("lookup-finds-unindexed-tx:"+op.Kind, label, witness(-1, []*linOp{op}, nil))
				}
				continue
			}
			t := txs[op.Tx]
			if op.Found {
				if want := fmt.Sprintf("%d/%d/%d", t.height, t.pos, t.ethIndex); op.Val != want {
					res.Violation("concurrent-lookup-returns-wrong-position:"+op.Kind, label, witness(op.Tx, []*linOp{op}, map[string]any{"expected": want}))
				}
			}
			perTx[op.Tx] = append(perTx[op.Tx], op)
		}
	}
	histOK, histUnknown := true, false
	for ti, reads := range perTx {
		if len(reads) == 0 {
			continue
		}
		var ops []porcupine.Operation
		var all []*linOp
		overlap := 0
		for _, w := range writes {
			if w.Block != blockOf[ti] {
				continue
			}
			all = append(all, w)
			ops = append(ops, porcupine.Operation{ClientId: w.Client, Input: regIn{write: true}, Call: w.Call, Output: true, Return: w.Ret})
		}
		for _, rd := range reads {
			all = append(all, rd)
			ops = append(ops, porcupine.Operation{ClientId: rd.Client, Input: regIn{}, Call: rd.Call, Output: rd.Found, Return: rd.Ret})
			after, conc := false, false
			for _, w := range writes {
				if w.Block != blockOf[ti] {
					continue
				}
				if w.Ret < rd.Call {
					after = true
				}
				if rd.Call < w.Ret && rd.Ret > w.Call {
					conc = true
				}
			}
			switch {
			case conc:
				overlap++
				res.Count("lin_lookups_concurrent_with_IndexBlock_of_their_block", 1)
				if rd.Found && !after {
					res.Count("lin_lookups_that_found_the_tx_before_IndexBlock_returned", 1)
				}
			case after:
				res.Count("lin_lookups_after_IndexBlock_returned", 1)
			default:
				res.Count("lin_lookups_before_IndexBlock_called", 1)
			}
		}
		res.Count("lin_partitions_checked", 1)
		switch porcupine.CheckOperationsTimeout(registerModel, ops, 10*time.Second) {
		case porcupine.Ok:
		case porcupine.Unknown:
			histUnknown = true
		case porcupine.Illegal:
			histOK = false
			sort.Slice(all, func(i, j int) bool { return all[i].Call < all[j].Call })
			sig := "not-linearizable:write-once-register"
			for _, rd := range reads {
				firstCall, firstRet := int64(1<<62), int64(1<<62)
				for _, w := range writes {
					if w.Block == blockOf[ti] {
						if w.Call < firstCall {
							firstCall = w.Call
						}
						if w.Ret < firstRet {
							firstRet = w.Ret
						}
					}
				}
				if !rd.Found && firstRet < rd.Call {
					sig = "lookup-misses-tx-after-IndexBlock-returned:" + rd.Kind
					break
				}
				if rd.Found && rd.Ret < firstCall {
					sig = "lookup-finds-tx-before-any-IndexBlock-call:" + rd.Kind
					break
				}
			}
			res.Violation(sig, label, witness(ti, all, nil))
		}
	}
	switch {
	case histUnknown:
		res.Count("lin_histories_unknown", 1)
		res.Inconclusive = append(res.Inconclusive, fmt.Sprintf("porcupine timed out on history %d (%s build)", hi, tag))
	case histOK:
		res.Count("lin_histories_linearizable", 1)
	default:
		res.Count("lin_histories_illegal", 1)
	}
}

func seqInt(n int) []int {
	out := make([]int, n)
	for i := range out {
		out[i] = i
	}
	return out
}

// LinChild is the entry point of the race-build child process (env C14_LEG=linearizability).
func LinChild() int {
	run := vh.Start("C14")
	res := LinLeg(run, "race", run.N(20, 1600))
	serviceUnderRace(run, res)
	b, _ := json.Marshal(res)
	out := os.Getenv("C14_OUT")
	if out == "" {
		fmt.Println(string(b))
		return 0
	}
	if err := os.WriteFile(out, b, 0o644); err != nil {
		fmt.Println("c14 child:", err)
		return 3
	}
	return 0
}

// raceChild runs the leg in the -race binary (when ./check built one) and collects the detector's reports.
func raceChild(run *vh.Run, res *Result) bool {
	bin := os.Getenv("VERIF_BIN_DIR")
	scratch := os.Getenv("VERIF_SCRATCH")
	if bin == "" || scratch == "" {
		return false
	}
	exe := filepath.Join(bin, "race", "c14")
	if _, err := os.Stat(exe); err != nil {
		return false
	}
	_ = os.MkdirAll(scratch, 0o755)
	out := filepath.Join(scratch, "c14-lin-race.json")
	logp := filepath.Join(scratch, "race")
	cmd := exec.Command(exe, run.Tier)
	cmd.Env = append(os.Environ(), "C14_LEG=linearizability", "C14_OUT="+out, "GORACE=halt_on_error=0 log_path="+logp)
	output, err := cmd.CombinedOutput()
	code := 0
	if ee, ok := err.(*exec.ExitError); ok {
		code = ee.ExitCode()
	} else if err != nil {
		res.Inconclusive = append(res.Inconclusive, "race-build child could not be started: "+err.Error())
		return true
	}
	b, rerr := os.ReadFile(out)
	var child Result
	if rerr != nil || json.Unmarshal(b, &child) != nil {
		res.Inconclusive = append(res.Inconclusive, fmt.Sprintf("race-build child gave no result (exit %d): %s", code, trunc(string(output), 600)))
		return true
	}
	if code != 0 && code != 66 { // 66 = the race detector's exit code when it reported something
		res.Inconclusive = append(res.Inconclusive, fmt.Sprintf("race-build child exit code %d: %s", code, trunc(string(output), 600)))
	}
	mergeResult(res, &child)
	res.Count("race_child_runs", 1)
	// race reports
	files, _ := filepath.Glob(logp + ".*")
	sort.Strings(files)
	deps := map[string]int{}
	for _, f := range files {
		txt, err := os.ReadFile(f)
		if err != nil {
			continue
		}
		for _, rep := range vh.ParseRaceLog(string(txt)) {
			res.Count("race_reports", 1)
			switch rep.Class {
			case "evermint":
				res.Violation("data-race:"+rep.Key, "lin", map[string]any{"leg": "linearizability+service", "build": "race", "report": trunc(rep.Text, 6000)})
			case "harness":
				res.Inconclusive = append(res.Inconclusive, "race report inside the harness itself: "+rep.Key)
			default:
				deps[rep.Key]++
			}
		}
	}
	for k, n := range deps {
		res.Count("race_reports_in_dependencies", n)
		res.Distinct("race_dependency_reports", k)
	}
	return true
}

func mergeResult(dst, src *Result) {
	for k, v := range src.Counts {
		dst.Counts[k] += v
	}
	for k, v := range src.Maxes {
		dst.Max(k, v)
	}
	for s, m := range src.Sets {
		for k := range m {
			dst.Distinct(s, k)
		}
	}
	for k := range src.Nontriv {
		dst.Nontrivial(k)
	}
	dst.Evals += src.Evals
	dst.Samples = append(dst.Samples, src.Samples...)
	dst.Viol = append(dst.Viol, src.Viol...)
	dst.Inconclusive = append(dst.Inconclusive, src.Inconclusive...)
}

// serviceUnderRace runs uninterrupted sessions of the REAL EVMIndexerService (status poll, header
// subscription goroutine, catch-up loop, live blocks, stop) in this race-build process: the detector
// watches the service's own goroutines; the index must equal the one built by plain IndexBlock calls.
func serviceUnderRace(run *vh.Run, res *Result) {
	n := run.N(3, 24)
	for i := 0; i < n; i++ {
		r := run.RNG("service-race", i)
		w := c13.NewWorld(r, c13.WorldCfg{MaxGas: viewMaxGas[i%len(viewMaxGas)], NumVals: 1, KeepBlocks: true}, nil)
		for b := 0; b < 14; b++ {
			w.Step(c13.DrawSize(r))
		}
		e := newEnv(fmt.Sprintf("service-race-%d", i), w)
		H := e.st.Height()
		h := &history{label: e.label, st: e.st, cctx: ClientCtx(w.C.Enc, nil), mode: "fresh", start: int64(r.Range(2, 6)), end: H}
		db := h.initialDB()
		out := h.session(db, nil, h.start, h.end)
		res.Evals++
		res.Count("service_sessions_under_race_detector", 1)
		res.Count("service_blocks_indexed_under_race_detector", int(out.indexed))
		if out.watchdog {
			res.Inconclusive = append(res.Inconclusive, "service session under the race detector hit the watchdog")
		} else if out.startErr != nil {
			res.Violation("indexer-service-error", e.label, out.startErr.Error())
		} else {
			// reference: the same blocks through IndexBlock directly
			ref := dbm.NewMemDB()
			idx := indexer.NewKVIndexer(ref, log.NewNopLogger(), h.cctx)
			for b := h.start + 1; b <= h.end; b++ {
				sb := h.st.at(b)
				_ = idx.IndexBlock(sb.rb.Block, sb.rr.TxsResults)
			}
			if !bytes.Equal(DumpDB(db), DumpDB(ref)) {
				res.Violation("service-index-differs-from-direct-indexing", e.label, map[string]any{"start": h.start, "end": h.end, "service_entries": countDump(DumpDB(db)), "direct_entries": countDump(DumpDB(ref))})
			}
			res.Nontrivial(fmt.Sprintf("service-under-race|blocks=%d", h.end-h.start))
		}
		w.C.Cleanup()
	}
}
