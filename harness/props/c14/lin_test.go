package c14

import "testing"

const sampleRace = `==================
WARNING: DATA RACE
Read at 0x00c0001a4078 by goroutine 8:
  github.com/EscanBE/evermint/v12/indexer.(*KVIndexer).getByTxHash()
      /repo/indexer/kv_indexer.go:10 +0xa4
  github.com/EscanBE/evermint/v12/indexer.(*KVIndexer).GetByTxHash()
      /repo/indexer/kv_indexer.go:17 +0x12
  verifharness/props/c14.linHistory.func2()
      /verif/harness/props/c14/lin.go:1 +0x1

Previous write at 0x00c0001a4078 by goroutine 7:
  github.com/cosmos/cosmos-db.(*MemDB).set()
      /x/memdb.go:10 +0xb6
  github.com/EscanBE/evermint/v12/indexer.(*KVIndexer).IndexBlock()
      /repo/indexer/kv_indexer.go:17 +0x12

Goroutine 8 (running) created at:
  main.main()
      /verif/x/main.go:17 +0x78
==================
==================
WARNING: DATA RACE
Write at 0x00c0001a4078 by goroutine 8:
  github.com/foo/bar.(*T).m()
      /x/y.go:10 +0xa4

Previous write at 0x00c0001a4078 by goroutine 7:
  github.com/foo/bar.(*T).n()
      /x/y.go:10 +0xb6
==================
Found 2 data race(s)
`

func TestParseRaceReports(t *testing.T) {
	reps := parseRaceReports(sampleRace)
	if len(reps) != 2 {
		t.Fatalf("want 2 reports, got %d", len(reps))
	}
	if !reps[0].evermint || reps[0].key != "indexer.(*KVIndexer).GetByTxHash|indexer.(*KVIndexer).IndexBlock" {
		t.Fatalf("bad first report: %+v", reps[0].key)
	}
	if reps[1].evermint || reps[1].key != "github.com/foo/bar.(*T).m|github.com/foo/bar.(*T).n" {
		t.Fatalf("bad second report: %v %q", reps[1].evermint, reps[1].key)
	}
}
