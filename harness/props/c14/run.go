package c14

import (
	"fmt"
	"sync"

	"verifharness/props/c13"
	"verifharness/vh"
)

var viewMaxGas = []int64{600_000, 300_000, -1, 1_000_000, 1_500_000, -1}

// Run is the C14 monitor: (a) views, (b) idempotence, (c) crash enumeration, (d) linearizability.
func Run(run *vh.Run) {
	nWorlds := run.N(4, 30)
	blocksPer := run.N(22, 50)
	nHist := run.N(4, 20) // crash histories (every crash point of each is enumerated)
	histLen := [2]int{run.N(8, 25), run.N(11, 60)}

	type worldOut struct {
		res   *Result
		st    *Store
		world *c13.World
	}
	outs := make([]*worldOut, nWorlds)
	var wg sync.WaitGroup
	sem := make(chan struct{}, 10)
	for wi := 0; wi < nWorlds; wi++ {
		label := fmt.Sprintf("views-world-%d", wi)
		needForCrash := wi < nHist // crash histories reuse the recorded chains
		if !run.WantCase(label) && !(needForCrash && wantAnyCrash(run, nHist, nWorlds, wi)) {
			continue
		}
		wg.Add(1)
		sem <- struct{}{}
		go func(wi int, label string) {
			defer wg.Done()
			defer func() { <-sem }()
			res := NewResult()
			r := run.RNG("views", wi)
			w := c13.NewWorld(r, c13.WorldCfg{MaxGas: viewMaxGas[wi%len(viewMaxGas)], NumVals: 1 + wi%3, KeepBlocks: true}, nil)
			for b := 0; b < blocksPer; b++ {
				w.Step(c13.DrawSize(r))
			}
			e := newEnv(label, w)
			outs[wi] = &worldOut{res: res, st: e.st, world: w}
			if !run.WantCase(label) {
				return
			}
			if err := e.indexAll(e.idx, seq(1, e.st.Height())); err != nil {
				res.Violation("index-block-error", label, err.Error())
				return
			}
			res.Count("blocks_indexed", int(e.st.Height()))
			e.checkViews(res, r)
			e.checkIdempotence(res, r)
			for m, n := range e.fake.CallCounts() {
				res.Count("fake_node_calls_"+m, int(n))
			}
		}(wi, label)
	}
	wg.Wait()
	for _, o := range outs {
		if o != nil {
			o.res.Merge(run)
		}
	}

	// (c) crash enumeration over windows of the recorded chains
	allEnumerated := true
	nCrashRun := 0
	for hi := 0; hi < nHist; hi++ {
		label := fmt.Sprintf("crash-history-%d", hi)
		if !run.WantCase(label) {
			continue
		}
		o := outs[hi%nWorlds]
		if o == nil {
			continue
		}
		r := run.RNG("crash", hi)
		res := NewResult()
		h := &history{label: label, st: o.st, cctx: ClientCtx(o.world.C.Enc, nil)}
		H := o.st.Height()
		B := int64(r.Range(histLen[0], histLen[1]))
		if B > H-16 {
			B = H - 16
		}
		switch hi % 4 {
		case 0: // fresh node: empty index, service starts at height > 1
			h.mode = "fresh"
			h.start = int64(r.Range(14, int(H-B)))
			h.end = h.start + B
		case 3: // fresh node whose first live block(s) carry no Ethereum tx (empty batches leave no mark)
			h.mode = "fresh"
			h.start = int64(r.Range(14, int(H-B)))
			var cands []int64
			for b := int64(14); b <= H-B; b++ {
				if !o.st.hasIndexable(b+1, h.cctx) {
					cands = append(cands, b)
				}
			}
			if len(cands) > 0 {
				h.start = vh.Pick(r, cands)
				h.mode = "fresh-empty-first-batch"
			}
			h.end = h.start + B
		case 1: // restart after an earlier clean session: catch-up + live blocks
			h.mode = "resume"
			h.preFrom = int64(r.Range(1, 3))
			h.preTo = int64(r.Range(6, 13))
			gap := int64(r.Range(1, int(B)-1))
			h.start = h.preTo + gap
			h.end = h.preTo + B
		default: // fresh node started right after genesis (height 1): deployment blocks arrive live
			h.mode = "fresh"
			h.start = 1
			h.end = 1 + B
		}
		if h.end > H {
			h.end = H
		}
		before := len(res.Inconclusive)
		h.enumerate(res, r, 12)
		h.rpcFaults(res)
		if len(res.Inconclusive) > before {
			allEnumerated = false
		}
		nCrashRun++
		res.Merge(run)
	}
	for _, o := range outs {
		if o != nil {
			o.world.C.Cleanup()
		}
	}

	// (d) linearizability: in-process (plain build) and in the race-build child
	if run.WantCase("lin") {
		res := NewResult()
		raced := raceChild(run, res)
		plain := LinLeg(run, "plain", run.N(20, 1600))
		mergeResult(res, plain)
		if raced {
			res.Count("linearizability_ran_under_race_detector", 1)
		}
		res.Merge(run)
	}

	if nCrashRun > 0 && allEnumerated && run.Get("crash_points_enumerated") == 2*run.Get("crash_history_batches") {
		// every batch write of every generated history was used as a crash point, on both sides
		run.Exhaustive(true)
		run.Level = "fault_enumeration"
	}
	run.Rule = "Chains of composed blocks (C13's generator: 0-25 txs, Ethereum/Cosmos mixed, success with 0-9 logs, revert, VM out of gas, core error, ante failure, replayed and future-nonce txs, block-gas exhaustion, dropped, create ok/fail; block gas limits 300k ... -1) are recorded through ABCI and served by a fake CometBFT RPC client to the REAL KVIndexer, rpc Backend and EVMIndexerService. (a) every executed Ethereum tx: both indexer lookups and 6 RPC views field by field against the consensus-derived truth (C13's parser), plus never-executed / unknown hashes, out-of-range indices, future blocks; (b) re-indexing (in order, random subset, reverse order into a fresh DB) with byte-compared DB dumps; (c) for windows of those chains (fresh node at height 1, fresh node at height > 1, restart after an earlier clean session) EVERY batch write of the real service is a crash point, on both sides (batch lost / batch applied, then every DB operation fails), followed by a fresh service + indexer over the surviving DB (restarting at the final head or at the crash-time head with the rest arriving as events), dump compared with the uninterrupted run; (d) concurrent IndexBlock (1 or 2 writers, same / opposite order) and lookups gated on writer progress, each tx's sub-history checked by porcupine against a write-once register, also in the -race build. Non-trivial = distinct (lookup kind x outcome class), (history mode x crash side x position x survivors) and (writer mode x build) classes."
	run.Floor("executed Ethereum txs looked up", sumPrefix(run, "txs_looked_up_"), int64(run.N(250, 7000)))
	run.Floor("RPC fields compared", run.Get("rpc_fields_compared"), int64(run.N(20000, 500000)))
	run.Floor("txs without receipt looked up (synthetic receipt path)", run.Get("txs_looked_up_"+c13.ClassCoreError)+run.Get("txs_looked_up_"+c13.ClassBlockGas), int64(run.N(20, 500)))
	run.Floor("never-executed Ethereum txs looked up", run.Get("lookups_never_executed_"+c13.ClassRejected)+run.Get("lookups_never_executed_"+c13.ClassDropped), int64(run.N(40, 1000)))
	run.Floor("crash points enumerated", run.Get("crash_points_enumerated"), int64(run.N(25, 600)))
	run.Floor("crash points that converged", run.Get("crash_points_converged"), int64(run.N(12, 300)))
	run.Floor("concurrent operations", run.Get("lin_ops"), int64(run.N(2000, 200000)))
	run.Floor("lookups concurrent with IndexBlock of their block", run.Get("lin_lookups_concurrent_with_IndexBlock_of_their_block"), int64(run.N(100, 10000)))
	run.Assumptions = append(run.Assumptions,
		"C13's offline parse of the consensus results is the truth (C13 checks its internal consistency separately)",
		"log indices are compared with what the consensus tx_receipt event reports (first-log-index attribute + offset); whether that attribute is right is C13's law, not C14's",
		"the production database backends write a batch atomically: torn batches are not injected",
		"the fake node answers like CometBFT for the methods the backend and the indexer service use (Status, Block, BlockByHash, BlockResults, ConsensusParams, UnconfirmedTxs, Subscribe/Unsubscribe, ABCIQueryWithOptions -> app.Query)",
		"wall-clock waits (quiescence polling with a 30 s watchdog) only decide INCONCLUSIVE, never a verdict")
}

func wantAnyCrash(run *vh.Run, nHist, nWorlds, wi int) bool {
	for hi := 0; hi < nHist; hi++ {
		if hi%nWorlds == wi && run.WantCase(fmt.Sprintf("crash-history-%d", hi)) {
			return true
		}
	}
	return false
}

func sumPrefix(run *vh.Run, prefix string) int64 {
	var n int64
	for _, c := range []string{c13.ClassSuccess, c13.ClassRevert, c13.ClassOutOfGas, c13.ClassVMError, c13.ClassCoreError, c13.ClassBlockGas, c13.ClassCreateSuccess, c13.ClassCreateFail} {
		n += run.Get(prefix + c)
	}
	return n
}
