package c14

import (
	"bytes"
	"fmt"
	"math/big"
	"runtime/debug"
	"strings"

	"cosmossdk.io/log"
	dbm "github.com/cosmos/cosmos-db"
	"github.com/cosmos/cosmos-sdk/client"
	"github.com/cosmos/cosmos-sdk/server"
	"github.com/ethereum/go-ethereum/common"
	"github.com/ethereum/go-ethereum/common/hexutil"
	ethtypes "github.com/ethereum/go-ethereum/core/types"

	"github.com/EscanBE/evermint/v12/app/params"
	"github.com/EscanBE/evermint/v12/indexer"
	rpcbackend "github.com/EscanBE/evermint/v12/rpc/backend"
	rpctypes "github.com/EscanBE/evermint/v12/rpc/types"
	evertypes "github.com/EscanBE/evermint/v12/types"

	"verifharness/props/c13"
	"verifharness/vh"
)

// loc is the consensus-derived truth about one executed Ethereum tx.
type loc struct {
	bt *c13.BlockTruth
	t  *c13.TxTruth
}

// env couples one recorded chain with the real indexer and RPC backend over the fake client.
type env struct {
	label  string
	maxGas int64
	st     *Store
	fake   *FakeClient
	cctx   client.Context
	db     dbm.DB
	idx    *indexer.KVIndexer
	be     *rpcbackend.Backend
	truth  []*c13.BlockTruth // index = height-1
	byHash map[common.Hash]loc
	never  map[common.Hash]*c13.TxTruth // Ethereum txs present in some block that never reached execution anywhere
}

// ClientCtx builds the client.Context the production code gets (server/start.go), over the fake node.
func ClientCtx(enc params.EncodingConfig, fake *FakeClient) client.Context {
	c := client.Context{}.WithChainID(vh.ChainID).WithCodec(enc.Codec).WithInterfaceRegistry(enc.InterfaceRegistry).
		WithTxConfig(enc.TxConfig).WithLegacyAmino(enc.Amino)
	if fake != nil {
		c = c.WithClient(fake)
	}
	return c
}

func newEnv(label string, w *c13.World) *env {
	e := &env{label: label, maxGas: w.Cfg.MaxGas, byHash: map[common.Hash]loc{}, never: map[common.Hash]*c13.TxTruth{}}
	e.st = BuildStore(w.C)
	e.fake = NewFakeClient(e.st, w.C.App, e.st.Height())
	e.cctx = ClientCtx(w.C.Enc, e.fake)
	e.db = dbm.NewMemDB()
	e.idx = indexer.NewKVIndexer(e.db, log.NewNopLogger(), e.cctx)
	e.be = rpcbackend.NewBackend(server.NewDefaultContext(), log.NewNopLogger(), e.cctx, e.idx)
	dec := w.Decoder()
	for h := int64(1); h <= e.st.Height(); h++ {
		sb := e.st.at(h)
		bt := c13.ParseBlock(sb.req.Txs, sb.res, dec)
		bt.Height = h
		e.truth = append(e.truth, bt)
		for _, t := range bt.Eth {
			if t.Reached {
				e.byHash[t.Hash] = loc{bt, t}
			}
		}
	}
	for _, bt := range e.truth {
		for _, t := range bt.Eth {
			if _, ok := e.byHash[t.Hash]; !ok {
				e.never[t.Hash] = t
			}
		}
	}
	return e
}

func (e *env) indexAll(idx *indexer.KVIndexer, order []int64) error {
	for _, h := range order {
		sb := e.st.at(h)
		if err := idx.IndexBlock(sb.rb.Block, sb.rr.TxsResults); err != nil {
			return fmt.Errorf("IndexBlock(%d): %w", h, err)
		}
	}
	return nil
}

func seq(from, to int64) []int64 {
	var out []int64
	for h := from; h <= to; h++ {
		out = append(out, h)
	}
	return out
}

// cmp is one field-by-field comparison session against one truth row.
type cmp struct {
	e      *env
	res    *Result
	method string
	kind   string // "receipt" | "no-receipt:<class>" | "block" | "unknown"
	bt     *c13.BlockTruth
	t      *c13.TxTruth
}

func str(v any) string {
	switch x := v.(type) {
	case *common.Address:
		if x == nil {
			return "nil"
		}
		return x.Hex()
	case common.Address:
		return x.Hex()
	case common.Hash:
		return x.Hex()
	case *common.Hash:
		if x == nil {
			return "nil"
		}
		return x.Hex()
	case []byte:
		return hexutil.Encode(x)
	case hexutil.Bytes:
		return hexutil.Encode(x)
	case *big.Int:
		if x == nil {
			return "nil"
		}
		return x.String()
	case *hexutil.Big:
		if x == nil {
			return "nil"
		}
		return x.ToInt().String()
	case *hexutil.Uint64:
		if x == nil {
			return "nil"
		}
		return fmt.Sprint(uint64(*x))
	case hexutil.Uint64:
		return fmt.Sprint(uint64(x))
	case hexutil.Uint:
		return fmt.Sprint(uint64(x))
	}
	return fmt.Sprint(v)
}

func (c *cmp) witness(field string, exp, obs any) map[string]any {
	m := map[string]any{"world": c.e.label, "max_gas": c.e.maxGas, "method": c.method, "field": field, "expected_from_consensus_results": str(exp), "observed": str(obs)}
	if c.bt != nil {
		m["height"] = c.bt.Height
		m["block"] = c.bt.Witness()
	}
	if c.t != nil {
		m["tx"] = c.t.Summary()
	}
	return m
}

func (c *cmp) eq(field string, exp, obs any) bool {
	c.res.Count("rpc_fields_compared", 1)
	c.res.Distinct("rpc_fields", c.method+"."+field)
	if str(exp) == str(obs) {
		return true
	}
	prefix := "rpc-mismatch:"
	if strings.HasPrefix(c.method, "indexer.") {
		prefix = "indexer-mismatch:"
	}
	c.res.Violation(prefix+c.method+"."+field+":"+c.kind, c.e.label, c.witness(field, exp, obs))
	return false
}

func (c *cmp) fail(what string, detail any) {
	c.res.Violation(what+":"+c.method+":"+c.kind, c.e.label, c.witness(what, "", detail))
}

// guard runs one RPC call; a panic is a violation of "no panic on any query".
func (c *cmp) guard(f func()) {
	defer func() {
		if r := recover(); r != nil {
			st := string(debug.Stack())
			sig := "rpc-panic:" + c.method + ":" + c.kind
			if strings.Contains(st, "props/c14.(*FakeClient)") && strings.Contains(fmt.Sprint(r), "nil pointer") && !strings.Contains(st, "evermint/v12/rpc") {
				sig = "HARNESS-fake-client-method-missing:" + c.method
			}
			c.res.Violation(sig, c.e.label, c.witness("panic", "no panic", fmt.Sprintf("%v\n%s", r, trunc(st, 3000))))
		}
	}()
	f()
}

func trunc(s string, n int) string {
	if len(s) > n {
		return s[:n] + "..."
	}
	return s
}

// expectedLogs: the logs the consensus results report for a tx: address/topics/data from the
// marshalled receipt, index = first-log-index attribute + offset, tx index = txIdx attribute.
func expectedLogs(t *c13.TxTruth) []*ethtypes.Log {
	if t.Receipt == nil {
		return nil
	}
	start := uint64(0)
	if t.RcLogIdx > 0 {
		start = uint64(t.RcLogIdx)
	}
	var out []*ethtypes.Log
	for i, l := range t.Receipt.Logs {
		out = append(out, &ethtypes.Log{Address: l.Address, Topics: l.Topics, Data: l.Data, Index: uint(start) + uint(i), TxIndex: uint(t.EthIndex), TxHash: t.Hash})
	}
	return out
}

func (c *cmp) logs(prefix string, exp, obs []*ethtypes.Log, height int64, wantBlockHash *common.Hash) {
	if !c.eq(prefix+"logs.length", len(exp), len(obs)) {
		return
	}
	for i := range exp {
		x, o := exp[i], obs[i]
		if o == nil {
			c.fail("nil-log", i)
			continue
		}
		c.eq(prefix+"logs.address", x.Address, o.Address)
		c.eq(prefix+"logs.topics", fmt.Sprint(x.Topics), fmt.Sprint(o.Topics))
		c.eq(prefix+"logs.data", x.Data, o.Data)
		c.eq(prefix+"logs.logIndex", x.Index, o.Index)
		c.eq(prefix+"logs.transactionIndex", x.TxIndex, o.TxIndex)
		c.eq(prefix+"logs.transactionHash", x.TxHash, o.TxHash)
		c.eq(prefix+"logs.blockNumber", uint64(height), o.BlockNumber)
		if wantBlockHash != nil {
			c.eq(prefix+"logs.blockHash", *wantBlockHash, o.BlockHash)
		}
		c.res.Count("rpc_logs_compared", 1)
		if uint64(o.Index) != c.t.LogStart+uint64(i) {
			// not a C14 verdict: the RPC repeats what the consensus event says (C13's first-log-index law)
			c.res.Count("rpc_logs_whose_index_differs_from_position_in_block", 1)
		}
	}
}

func kindOf(t *c13.TxTruth) string {
	if t.HasReceipt {
		return "receipt"
	}
	return "no-receipt:" + t.Class
}

// unadmittedGasBefore sums the gas limits of the earlier Ethereum txs of the block that never reached execution.
func unadmittedGasBefore(bt *c13.BlockTruth, t *c13.TxTruth) uint64 {
	var g uint64
	for _, o := range bt.Eth {
		if o.Pos >= t.Pos {
			break
		}
		if !o.Reached {
			g += o.Tx.Gas()
		}
	}
	return g
}

func sameTxResult(a, b *evertypes.TxResult) bool {
	return a.Height == b.Height && a.TxIndex == b.TxIndex && a.EthTxIndex == b.EthTxIndex && a.Failed == b.Failed
}

// checkViews compares every lookup / RPC view with the truth. The index must be complete (all blocks indexed).
func (e *env) checkViews(res *Result, r *vh.RNG) {
	head := e.st.Height()
	for _, bt := range e.truth {
		h := bt.Height
		sb := e.st.at(h)
		blockHash := common.BytesToHash(sb.rb.BlockID.Hash)
		res.Evals++
		res.Count("blocks_viewed", 1)
		classes := map[string]bool{}
		for _, t := range bt.Eth {
			classes[t.Class] = true
			if !t.Reached {
				continue
			}
			e.checkTx(res, bt, t, blockHash)
		}
		e.checkBlockViews(res, bt, blockHash)
		// out-of-range indices of this block
		c := &cmp{e: e, res: res, kind: "out-of-range", bt: bt}
		n := len(bt.Exec)
		for _, k := range []int{n, n + 1 + r.Intn(40)} {
			c.method = "indexer.GetByBlockAndIndex"
			c.guard(func() {
				if got, err := e.idx.GetByBlockAndIndex(h, int32(k)); err == nil && got != nil {
					c.fail("out-of-range-index-found", fmt.Sprintf("index %d of %d -> %+v", k, n, got))
				}
			})
			c.method = "GetTransactionByBlockNumberAndIndex"
			c.guard(func() {
				if got, _ := e.be.GetTransactionByBlockNumberAndIndex(rpctypes.BlockNumber(h), hexutil.Uint(k)); got != nil {
					c.fail("out-of-range-index-found", fmt.Sprintf("index %d of %d -> %s", k, n, got.Hash.Hex()))
				}
			})
			c.method = "GetTransactionByBlockHashAndIndex"
			c.guard(func() {
				if got, _ := e.be.GetTransactionByBlockHashAndIndex(blockHash, hexutil.Uint(k)); got != nil {
					c.fail("out-of-range-index-found", fmt.Sprintf("index %d of %d -> %s", k, n, got.Hash.Hex()))
				}
			})
			res.Count("lookups_out_of_range", 3)
			res.Nontrivial("lookup:out-of-range-index")
		}
	}
	// Ethereum txs that sit in some block but never reached execution: unknown to every view
	for hsh, t := range e.never {
		c := &cmp{e: e, res: res, kind: "never-executed:" + t.Class, t: t}
		e.checkUnknown(c, hsh)
		res.Count("lookups_never_executed_"+t.Class, 1)
		res.Nontrivial("lookup:never-executed:" + t.Class)
	}
	// unknown hashes, future blocks, unknown block hashes
	for i := 0; i < 8; i++ {
		c := &cmp{e: e, res: res, kind: "unknown-hash"}
		e.checkUnknown(c, common.BytesToHash(r.Bytes(32)))
		res.Count("lookups_unknown_hash", 1)
		res.Nontrivial("lookup:unknown-hash")
	}
	for _, fh := range []int64{head + 1, head + 2 + int64(r.Intn(1000))} {
		c := &cmp{e: e, res: res, kind: "future-block"}
		c.method = "GetBlockByNumber"
		c.guard(func() {
			for _, full := range []bool{false, true} {
				if b, _ := e.be.GetBlockByNumber(rpctypes.BlockNumber(fh), full); b != nil {
					c.fail("future-block-found", fmt.Sprintf("height %d head %d -> number %v", fh, head, b["number"]))
				}
			}
		})
		c.method = "GetTransactionByBlockNumberAndIndex"
		c.guard(func() {
			if tx, _ := e.be.GetTransactionByBlockNumberAndIndex(rpctypes.BlockNumber(fh), 0); tx != nil {
				c.fail("future-block-found", tx.Hash.Hex())
			}
		})
		c.method = "GetLogsByHeight"
		c.guard(func() {
			hh := fh
			if l, _ := e.be.GetLogsByHeight(&hh); len(l) != 0 {
				c.fail("future-block-found", len(l))
			}
		})
		c.method = "indexer.GetByBlockAndIndex"
		c.guard(func() {
			if got, err := e.idx.GetByBlockAndIndex(fh, 0); err == nil && got != nil {
				c.fail("future-block-found", fmt.Sprintf("%+v", got))
			}
		})
		c.method = "GetBlockTransactionCountByNumber"
		c.guard(func() {
			if n := e.be.GetBlockTransactionCountByNumber(rpctypes.BlockNumber(fh)); n != nil {
				c.fail("future-block-found", uint(*n))
			}
		})
		res.Count("lookups_future_block", 5)
		res.Nontrivial("lookup:future-block")
	}
	{
		c := &cmp{e: e, res: res, kind: "unknown-block-hash"}
		bh := common.BytesToHash(r.Bytes(32))
		c.method = "GetBlockByHash"
		c.guard(func() {
			if b, _ := e.be.GetBlockByHash(bh, true); b != nil {
				c.fail("unknown-block-found", b["number"])
			}
		})
		c.method = "GetLogs"
		c.guard(func() {
			if l, _ := e.be.GetLogs(bh); len(l) != 0 {
				c.fail("unknown-block-found", len(l))
			}
		})
		c.method = "GetTransactionByBlockHashAndIndex"
		c.guard(func() {
			if tx, _ := e.be.GetTransactionByBlockHashAndIndex(bh, 0); tx != nil {
				c.fail("unknown-block-found", tx.Hash.Hex())
			}
		})
		res.Count("lookups_unknown_block_hash", 3)
		res.Nontrivial("lookup:unknown-block-hash")
	}
	// "latest" resolves to the last indexed block
	{
		c := &cmp{e: e, res: res, kind: "block", method: "GetBlockByNumber(latest)", bt: e.truth[head-1]}
		c.guard(func() {
			b, err := e.be.GetBlockByNumber(rpctypes.EthLatestBlockNumber, false)
			if err != nil || b == nil {
				c.fail("latest-block-not-found", fmt.Sprint(err))
				return
			}
			c.eq("number", uint64(head), b["number"])
		})
	}
}

func (e *env) checkUnknown(c *cmp, h common.Hash) {
	c.method = "indexer.GetByTxHash"
	c.guard(func() {
		if got, err := e.idx.GetByTxHash(h); err == nil && got != nil {
			c.fail("unexecuted-or-unknown-tx-found", fmt.Sprintf("%+v", got))
		}
	})
	c.method = "GetTransactionReceipt"
	c.guard(func() {
		if rc, _ := e.be.GetTransactionReceipt(h); rc != nil {
			c.fail("unexecuted-or-unknown-tx-found", fmt.Sprintf("receipt status %d block %d index %d", rc.Status, rc.BlockNumber, rc.TransactionIndex))
		}
	})
	c.method = "GetTransactionByHash"
	c.guard(func() {
		if tx, _ := e.be.GetTransactionByHash(h); tx != nil {
			c.fail("unexecuted-or-unknown-tx-found", fmt.Sprintf("tx block %v index %v", str(tx.BlockNumber), str(tx.TransactionIndex)))
		}
	})
}

func (e *env) checkTx(res *Result, bt *c13.BlockTruth, t *c13.TxTruth, blockHash common.Hash) {
	h := bt.Height
	kind := kindOf(t)
	res.Count("txs_looked_up_"+t.Class, 1)
	res.Nontrivial("lookup:executed:" + t.Class)
	failed := t.StatusTruth != ethtypes.ReceiptStatusSuccessful

	// 1+2: the two indexer lookups agree with each other and with the real position
	c := &cmp{e: e, res: res, kind: kind, bt: bt, t: t, method: "indexer.GetByTxHash"}
	var r1, r2 *evertypes.TxResult
	c.guard(func() {
		var err error
		r1, err = e.idx.GetByTxHash(t.Hash)
		if err != nil || r1 == nil {
			r1 = nil
			c.res.Violation("indexed-tx-not-found-by-hash:"+kind, e.label, c.witness("found", true, fmt.Sprint(err)))
			return
		}
		c.eq("Height", h, r1.Height)
		c.eq("TxIndex", t.Pos, r1.TxIndex)
		c.eq("EthTxIndex", t.EthIndex, r1.EthTxIndex)
		c.eq("Failed", failed, r1.Failed)
	})
	c.method = "indexer.GetByBlockAndIndex"
	c.guard(func() {
		var err error
		r2, err = e.idx.GetByBlockAndIndex(h, int32(t.EthIndex))
		if err != nil || r2 == nil {
			r2 = nil
			c.res.Violation("indexed-tx-not-found-by-block-and-index:"+kind, e.label, c.witness("found", true, fmt.Sprint(err)))
			return
		}
		c.eq("Height", h, r2.Height)
		c.eq("TxIndex", t.Pos, r2.TxIndex)
		c.eq("EthTxIndex", t.EthIndex, r2.EthTxIndex)
		if r1 != nil && !sameTxResult(r1, r2) {
			c.res.Violation("indexer-lookups-disagree:"+kind, e.label, c.witness("by-hash vs by-index", fmt.Sprintf("%+v", r1), fmt.Sprintf("%+v", r2)))
		}
	})
	res.Count("indexer_lookups", 2)

	// 3: receipt
	c.method = "GetTransactionReceipt"
	c.guard(func() {
		rc, err := e.be.GetTransactionReceipt(t.Hash)
		if err != nil || rc == nil {
			c.res.Violation("rpc-receipt-missing:"+kind, e.label, c.witness("receipt", "present", fmt.Sprint(err)))
			return
		}
		c.eq("from", t.Sender, rc.From)
		c.eq("to", t.Tx.To(), rc.To)
		c.eq("status", t.StatusTruth, uint64(rc.Status))
		c.eq("gasUsed", t.GasUsedTruth, uint64(rc.GasUsed))
		wantCum := t.CumGas // running sum over the Ethereum txs that reached execution
		if t.HasReceipt && t.Receipt != nil {
			wantCum = t.Receipt.CumulativeGasUsed // what the consensus receipt says (C13 checks it equals the running sum)
		}
		c.res.Count("rpc_fields_compared", 1)
		c.res.Distinct("rpc_fields", c.method+".cumulativeGasUsed")
		if uint64(rc.CumulativeGasUsed) != wantCum {
			sig := "rpc-mismatch:GetTransactionReceipt.cumulativeGasUsed:" + kind
			w := c.witness("cumulativeGasUsed", wantCum, uint64(rc.CumulativeGasUsed))
			if ug := unadmittedGasBefore(bt, t); !t.HasReceipt && ug > 0 && uint64(rc.CumulativeGasUsed) == wantCum+ug {
				sig = "rpc-synthetic-receipt-cumulative-gas-counts-unadmitted-txs"
				w["gas_limits_of_earlier_ethereum_txs_that_never_reached_execution"] = ug
			}
			c.res.Violation(sig, e.label, w)
		}
		c.eq("transactionHash", t.Hash, rc.TransactionHash)
		c.eq("transactionIndex", t.EthIndex, uint64(rc.TransactionIndex))
		c.eq("blockNumber", h, uint64(rc.BlockNumber))
		c.eq("blockHash", blockHash, rc.BlockHash)
		c.eq("type", t.Tx.Type(), uint64(rc.Type))
		var wantAddr *common.Address
		if t.RcContractAddr != "" {
			a := common.HexToAddress(t.RcContractAddr)
			wantAddr = &a
		}
		c.eq("contractAddress", wantAddr, rc.ContractAddress)
		c.eq("contractAddress(recomputed)", t.Created, rc.ContractAddress)
		if t.Receipt != nil {
			c.eq("logsBloom", t.Receipt.Bloom.Bytes(), rc.Bloom.Bytes())
		} else {
			c.eq("logsBloom", ethtypes.Bloom{}.Bytes(), rc.Bloom.Bytes())
		}
		c.logs("", expectedLogs(t), rc.Logs, h, &blockHash)
	})

	// 4: transaction by hash
	checkRPCTx := func(tx *rpctypes.RPCTransaction) {
		c.eq("hash", t.Hash, tx.Hash)
		c.eq("from", t.Sender, tx.From)
		c.eq("blockNumber", h, tx.BlockNumber)
		c.eq("blockHash", &blockHash, tx.BlockHash)
		c.eq("transactionIndex", t.EthIndex, tx.TransactionIndex)
		c.eq("nonce", t.Tx.Nonce(), tx.Nonce)
		c.eq("to", t.Tx.To(), tx.To)
		c.eq("gas", t.Tx.Gas(), tx.Gas)
		c.eq("value", t.Tx.Value(), tx.Value)
		c.eq("input", t.Tx.Data(), []byte(tx.Input))
	}
	c.method = "GetTransactionByHash"
	c.guard(func() {
		tx, err := e.be.GetTransactionByHash(t.Hash)
		if err != nil || tx == nil {
			c.res.Violation("rpc-transaction-missing:"+c.method+":"+kind, e.label, c.witness("transaction", "present", fmt.Sprint(err)))
			return
		}
		checkRPCTx(tx)
	})
	// 5: by block and index
	c.method = "GetTransactionByBlockNumberAndIndex"
	c.guard(func() {
		tx, err := e.be.GetTransactionByBlockNumberAndIndex(rpctypes.BlockNumber(h), hexutil.Uint(t.EthIndex))
		if err != nil || tx == nil {
			c.res.Violation("rpc-transaction-missing:"+c.method+":"+kind, e.label, c.witness("transaction", "present", fmt.Sprint(err)))
			return
		}
		checkRPCTx(tx)
	})
	c.method = "GetTransactionByBlockHashAndIndex"
	c.guard(func() {
		tx, err := e.be.GetTransactionByBlockHashAndIndex(blockHash, hexutil.Uint(t.EthIndex))
		if err != nil || tx == nil {
			c.res.Violation("rpc-transaction-missing:"+c.method+":"+kind, e.label, c.witness("transaction", "present", fmt.Sprint(err)))
			return
		}
		checkRPCTx(tx)
	})
	res.Count("rpc_tx_lookups", 4)
}

func (e *env) checkBlockViews(res *Result, bt *c13.BlockTruth, blockHash common.Hash) {
	h := bt.Height
	c := &cmp{e: e, res: res, kind: "block", bt: bt}
	for _, full := range []bool{false, true} {
		for _, byHash := range []bool{false, true} {
			c.method = fmt.Sprintf("GetBlockBy%s(fullTx=%v)", map[bool]string{false: "Number", true: "Hash"}[byHash], full)
			c.guard(func() {
				var b map[string]interface{}
				var err error
				if byHash {
					b, err = e.be.GetBlockByHash(blockHash, full)
				} else {
					b, err = e.be.GetBlockByNumber(rpctypes.BlockNumber(h), full)
				}
				if err != nil || b == nil {
					c.res.Violation("rpc-block-missing:"+c.method, e.label, c.witness("block", "present", fmt.Sprint(err)))
					return
				}
				c.eq("number", uint64(h), b["number"])
				c.eq("hash", blockHash.Bytes(), b["hash"])
				c.eq("gasUsed", bt.TotalGas, b["gasUsed"])
				if bl, ok := b["logsBloom"].(ethtypes.Bloom); ok {
					c.eq("logsBloom", bt.BlockBloom.Bytes(), bl.Bytes())
				} else {
					c.fail("block-bloom-wrong-type", fmt.Sprintf("%T", b["logsBloom"]))
				}
				txs, _ := b["transactions"].([]interface{})
				if !c.eq("transactions.length", len(bt.Exec), len(txs)) {
					return
				}
				for i, t := range bt.Exec {
					c.t = t
					if !full {
						c.eq("transactions.hash", t.Hash, txs[i])
						continue
					}
					tx, ok := txs[i].(*rpctypes.RPCTransaction)
					if !ok {
						c.fail("block-tx-wrong-type", fmt.Sprintf("%T", txs[i]))
						continue
					}
					c.eq("transactions.hash", t.Hash, tx.Hash)
					c.eq("transactions.from", t.Sender, tx.From)
					c.eq("transactions.transactionIndex", t.EthIndex, tx.TransactionIndex)
					c.eq("transactions.blockNumber", h, tx.BlockNumber)
					c.eq("transactions.blockHash", &blockHash, tx.BlockHash)
				}
				c.t = nil
			})
			res.Count("rpc_block_lookups", 1)
		}
	}
	c.method = "GetBlockTransactionCountByNumber"
	c.guard(func() {
		n := e.be.GetBlockTransactionCountByNumber(rpctypes.BlockNumber(h))
		if n == nil {
			c.fail("count-missing", nil)
			return
		}
		c.eq("count", len(bt.Exec), uint(*n))
	})
	// block logs: one group per tx that carries a receipt event, in block order
	var want [][]*ethtypes.Log
	var owners []*c13.TxTruth
	for _, t := range bt.Exec {
		if t.HasReceipt {
			want = append(want, expectedLogs(t))
			owners = append(owners, t)
		}
	}
	for _, byHash := range []bool{false, true} {
		c.method = map[bool]string{false: "GetLogsByHeight", true: "GetLogs"}[byHash]
		c.guard(func() {
			var got [][]*ethtypes.Log
			var err error
			if byHash {
				got, err = e.be.GetLogs(blockHash)
			} else {
				hh := h
				got, err = e.be.GetLogsByHeight(&hh)
			}
			if err != nil {
				c.res.Violation("rpc-logs-error:"+c.method, e.label, c.witness("logs", "no error", err.Error()))
				return
			}
			if !c.eq("groups.length", len(want), len(got)) {
				return
			}
			for i := range want {
				c.t = owners[i]
				c.logs("", want[i], got[i], h, nil)
			}
			c.t = nil
		})
		res.Count("rpc_log_lookups", 1)
	}
}

// checkIdempotence: indexing again (whole chain, random subset in random order) changes nothing;
// the index does not depend on the order in which blocks were indexed.
func (e *env) checkIdempotence(res *Result, r *vh.RNG) {
	d0 := DumpDB(e.db)
	res.Count("index_entries", CountDB(e.db))
	head := e.st.Height()
	report := func(sig string, d1 []byte, what string) {
		res.Violation(sig, e.label, map[string]any{"world": e.label, "what": what, "dump_len_before": len(d0), "dump_len_after": len(d1), "first_difference": firstDiff(d0, d1)})
	}
	if err := e.indexAll(e.idx, seq(1, head)); err != nil {
		res.Violation("reindex-error", e.label, err.Error())
	}
	if d1 := DumpDB(e.db); !bytes.Equal(d0, d1) {
		report("reindex-changes-db", d1, "every block indexed a second time, in order")
	}
	res.Count("blocks_reindexed", int(head))
	sub := seq(1, head)
	vh.Shuffle(r, sub)
	sub = sub[:len(sub)/2+1]
	if err := e.indexAll(e.idx, sub); err != nil {
		res.Violation("reindex-error", e.label, err.Error())
	}
	if d1 := DumpDB(e.db); !bytes.Equal(d0, d1) {
		report("reindex-changes-db", d1, fmt.Sprintf("random half of the blocks indexed again in random order %v", sub))
	}
	res.Count("blocks_reindexed", len(sub))
	// fresh index built in reverse order
	db2 := dbm.NewMemDB()
	idx2 := indexer.NewKVIndexer(db2, log.NewNopLogger(), e.cctx)
	rev := seq(1, head)
	for i, j := 0, len(rev)-1; i < j; i, j = i+1, j-1 {
		rev[i], rev[j] = rev[j], rev[i]
	}
	if err := e.indexAll(idx2, rev); err != nil {
		res.Violation("reindex-error", e.label, err.Error())
	}
	if d1 := DumpDB(db2); !bytes.Equal(d0, d1) {
		report("index-depends-on-indexing-order", d1, "fresh index built from the last block to the first")
	}
	res.Count("idempotence_dump_comparisons", 3)
	res.Nontrivial("idempotence:reindex-in-order")
	res.Nontrivial("idempotence:reindex-random-subset")
	res.Nontrivial("idempotence:reverse-order")
}

func firstDiff(a, b []byte) int {
	n := len(a)
	if len(b) < n {
		n = len(b)
	}
	for i := 0; i < n; i++ {
		if a[i] != b[i] {
			return i
		}
	}
	if len(a) != len(b) {
		return n
	}
	return -1
}
