// Package c15 decides C15: EVM execution cannot destroy protected accounts or spend
// vesting-locked coins; deleted accounts are removed completely. Oracle: an account-kind
// ledger computed inside the tx-boundary observer before and after every transaction.
package c15

import (
	"bytes"
	"fmt"
	chainapp "github.com/EscanBE/evermint/v12/app"
	"github.com/EscanBE/evermint/v12/app/params"
	evmtypes "github.com/EscanBE/evermint/v12/x/evm/types"
	"math/big"
	"os"
	"os/exec"
	"path/filepath"
	"strings"
	"time"

	sdkmath "cosmossdk.io/math"
	sdk "github.com/cosmos/cosmos-sdk/types"
	authtypes "github.com/cosmos/cosmos-sdk/x/auth/types"
	vestexported "github.com/cosmos/cosmos-sdk/x/auth/vesting/exported"
	vestingtypes "github.com/cosmos/cosmos-sdk/x/auth/vesting/types"
	banktypes "github.com/cosmos/cosmos-sdk/x/bank/types"
	"github.com/ethereum/go-ethereum/common"
	"github.com/ethereum/go-ethereum/core/vm"
	"github.com/ethereum/go-ethereum/crypto"

	"verifharness/vh"
)

type acctInfo struct {
	Exists    bool
	Type      string
	IsModule  bool
	IsVesting bool
	Permanent bool
	EndTime   int64
	Seq       uint64
	Balances  sdk.Coins
	Locked    sdk.Coins // locked at block time
	HasCode   bool
	Slots     int
}

type view struct {
	BlockTime int64
	Accts     map[common.Address]*acctInfo
}

type special struct {
	addr common.Address
	desc string
	key  *vh.Acct
}

// Run is the C15 check. Child mode (under the skewed-clock build) runs the same monitor.
func Run(run *vh.Run) {
	nWorlds := run.N(4, 24)
	nBlocks := run.N(90, 500)
	if os.Getenv("VERIF_CHILD_REPORT") != "" {
		nWorlds, nBlocks = run.N(2, 4), run.N(60, 200)
	}
	for wi := 0; wi < nWorlds; wi++ {
		label := fmt.Sprintf("world-%d", wi)
		if !run.WantCase(label) {
			continue
		}
		world(run, label, wi, nBlocks)
	}
	if os.Getenv("VERIF_CHILD_REPORT") != "" {
		return
	}
	// cross-check: same monitor, same verdicts, under a wall clock skewed by -30y / +30y
	if run.OnlyCase == "" {
		for _, skew := range []int64{-30 * 365 * 86400, 30 * 365 * 86400} {
			bin := filepath.Join(os.Getenv("VERIF_BIN_DIR"), "skew", "c15")
			if _, err := os.Stat(bin); err != nil {
				run.Inconclusive("skew binary missing: " + bin)
				continue
			}
			rep := filepath.Join(os.Getenv("VERIF_SCRATCH"), fmt.Sprintf("c15-skew-%d.json", skew))
			cmd := exec.Command(bin, run.Tier)
			cmd.Env = append(os.Environ(), "VERIF_CHILD_REPORT="+rep, fmt.Sprintf("VERIF_WALLCLOCK_SKEW_S=%d", skew))
			out, _ := os.Create(rep + ".log")
			cmd.Stdout, cmd.Stderr = out, out
			err := cmd.Run()
			out.Close()
			if err != nil {
				b, _ := os.ReadFile(rep + ".log")
				if len(b) > 1500 {
					b = b[len(b)-1500:]
				}
				run.Violation("skewed-clock-child-crashed", "skew", map[string]any{"skew_s": skew, "error": err.Error(), "output": string(b)})
				continue
			}
			if err := run.MergeChild(rep, ":under-skewed-wall-clock", "skew_"); err != nil {
				run.Inconclusive("cannot read skew child report: " + err.Error())
			}
			run.Count("skewed_clock_children", 1)
		}
	}
	run.Rule = "Real chains whose address pool is special accounts: every module account, vesting accounts of all four kinds (funded and unfunded, end times before / between / after the block times the history passes, far from the real date; permanent-locked), multi-denomination base accounts, contracts. Generated programs and direct transactions touch (zero value), pay, BALANCE/EXTCODE*-probe and self-destruct toward them; vesting accounts act as senders spending at and beyond their unlocked amount. Before and after every transaction the observer records concrete account type, sequence, all balances, locked coins at block time, code and storage presence. Non-trivial = distinct (account kind x relation(block time, end time) x interaction x outcome)."
	run.Floor("transactions touching protected accounts", run.Get("tx_touching_protected"), int64(run.N(300, 5000)))
	run.Floor("touches of vesting accounts unexpired as of block time", run.Get("touch_unexpired_vesting"), int64(run.N(60, 1000)))
	run.Floor("touches of vesting accounts expired as of block time", run.Get("touch_expired_vesting"), int64(run.N(20, 300)))
	run.Floor("contracts deleted after receiving value following their SELFDESTRUCT", run.Get("vaults_deleted_after_being_paid_again"), int64(run.N(6, 60)))
	run.Floor("of these, holding a second denomination", run.Get("vaults_deleted_while_holding_a_second_denomination"), int64(run.N(3, 30)))
	run.Floor("vaults intact after a SELFDESTRUCT in a rolled-back frame", run.Get("vaults_intact_after_a_reverted_selfdestruct"), int64(run.N(6, 60)))
	run.Floor("successful transactions touching the storage-only account whose lowest slot holds zero", run.Get("transactions_touching_the_storage_only_account_whose_lowest_slot_is_zero"), int64(run.N(2, 30)))
	run.Floor("storage written by init code of contracts that self-destruct in their constructor", run.Get("constructor_selfdestructs_after_sstore"), int64(run.N(10, 150)))
	run.Floor("contracts that self-destruct in their constructor after clearing a slot they had written", run.Get("constructor_selfdestructs_after_clearing_a_slot"), int64(run.N(5, 70)))
	run.Floor("deletions observed", run.Get("accounts_deleted"), int64(run.N(10, 150)))
	run.Assumptions = append(run.Assumptions, "delegation of locked coins is not 'spending' (standard vesting semantics); the staking precompile is not part of this workload",
		"an account that existed with code before the transaction and is deleted must be one whose code contains a reachable SELFDESTRUCT (known from the generator)")
}

var genesis = time.Unix(1700000000, 0).UTC() // 2023-11-14
const step = 20 * 24 * time.Hour             // block time advances 20 days per block

func world(run *vh.Run, label string, wi, nBlocks int) {
	r := run.RNG("world", wi)
	var specials []special
	var accts []vh.GenAccount
	// vesting end times relative to the history (starts 2023-11, +20 days per block)
	ends := []int64{946684800, genesis.Add(15 * step).Unix(), genesis.Add(45 * step).Unix(), genesis.Add(80 * step).Unix(), 2208988800, 4102444800}
	for _, kind := range []string{"delayed", "continuous", "periodic", "permanent"} {
		for ei, end := range ends {
			if kind == "permanent" && ei > 1 {
				continue
			}
			for _, funded := range []bool{false, true} {
				a := vh.NewAcct(r)
				ga := vh.GenAccount{Addr: a.Addr, Kind: kind, VestStart: 946000000, VestEnd: end,
					OrigVesting: sdk.NewCoins(sdk.NewCoin(vh.Denom, sdkmath.NewIntFromBigInt(vh.Ether(10))))}
				if funded {
					ga.Coins = sdk.NewCoins(sdk.NewCoin(vh.Denom, sdkmath.NewIntFromBigInt(vh.Ether(12))))
					if r.Bool() {
						ga.OrigVesting = ga.OrigVesting.Add(sdk.NewCoin(vh.SecondDenom, sdkmath.NewInt(500)))
						ga.Coins = ga.Coins.Add(sdk.NewCoin(vh.SecondDenom, sdkmath.NewInt(700)))
					}
				}
				accts = append(accts, ga)
				specials = append(specials, special{addr: a.Addr, desc: fmt.Sprintf("vesting:%s:funded=%v", kind, funded), key: a})
			}
		}
	}
	// vesting accounts whose schedule has not STARTED yet (a cliff: start and end both in the future of the whole history, or
	// start in its middle): protected until the end time like any other
	for _, kind := range []string{"continuous", "periodic"} {
		for _, startAt := range []int{60, 100000} {
			for _, funded := range []bool{false, true} {
				a := vh.NewAcct(r)
				start := genesis.Add(time.Duration(startAt) * step).Unix()
				ga := vh.GenAccount{Addr: a.Addr, Kind: kind, VestStart: start, VestEnd: start + int64(40*step/time.Second),
					OrigVesting: sdk.NewCoins(sdk.NewCoin(vh.Denom, sdkmath.NewIntFromBigInt(vh.Ether(10))))}
				if funded {
					ga.Coins = sdk.NewCoins(sdk.NewCoin(vh.Denom, sdkmath.NewIntFromBigInt(vh.Ether(12))))
				}
				accts = append(accts, ga)
				specials = append(specials, special{addr: a.Addr, desc: fmt.Sprintf("vesting:%s-not-started:funded=%v", kind, funded), key: a})
			}
		}
	}
	// special accounts sitting at the addresses a known key will create contracts at (CREATE(creator, 0..7)): a creation
	// transaction (or CREATE) whose target address is a protected account must fail as a whole and leave it alone
	creator := vh.NewAcct(r)
	accts = append(accts, vh.GenAccount{Addr: creator.Addr, Coins: vh.NativeCoins(1000)})
	// a holder of both denominations that pays a second denomination into contracts about to self-destruct
	donor := vh.NewAcct(r)
	accts = append(accts, vh.GenAccount{Addr: donor.Addr, Coins: vh.NativeCoins(1000).Add(sdk.NewCoin(vh.SecondDenom, sdkmath.NewInt(1_000_000)))})
	for n := uint64(0); n < 8; n++ {
		at := crypto.CreateAddress(creator.Addr, n)
		switch n % 4 {
		case 0: // unfunded delayed vesting account that never expires during the history
			accts = append(accts, vh.GenAccount{Addr: at, Kind: "delayed", VestStart: 946000000, VestEnd: 4102444800,
				OrigVesting: sdk.NewCoins(sdk.NewCoin(vh.Denom, sdkmath.NewIntFromBigInt(vh.Ether(10))))})
			specials = append(specials, special{addr: at, desc: "vesting:delayed:funded=false"})
		case 1: // funded continuous vesting account, unexpired
			ov := sdk.NewCoins(sdk.NewCoin(vh.Denom, sdkmath.NewIntFromBigInt(vh.Ether(10))))
			accts = append(accts, vh.GenAccount{Addr: at, Kind: "continuous", VestStart: 946000000, VestEnd: 4102444800, OrigVesting: ov,
				Coins: sdk.NewCoins(sdk.NewCoin(vh.Denom, sdkmath.NewIntFromBigInt(vh.Ether(12))))})
			specials = append(specials, special{addr: at, desc: "vesting:continuous:funded=true"})
		case 2: // permanent locked, unfunded
			accts = append(accts, vh.GenAccount{Addr: at, Kind: "permanent", OrigVesting: sdk.NewCoins(sdk.NewCoin(vh.Denom, sdkmath.NewIntFromBigInt(vh.Ether(10))))})
			specials = append(specials, special{addr: at, desc: "vesting:permanent:funded=false"})
		default: // base account holding only a second denomination
			accts = append(accts, vh.GenAccount{Addr: at, Coins: sdk.NewCoins(sdk.NewCoin(vh.SecondDenom, sdkmath.NewInt(int64(5+n))))})
			specials = append(specials, special{addr: at, desc: "base:second-denom-only"})
		}
	}
	// base accounts holding only a second denomination (zero evm-denom balance, nonce 0)
	for i := 0; i < 3; i++ {
		a := vh.NewAcct(r)
		accts = append(accts, vh.GenAccount{Addr: a.Addr, Coins: sdk.NewCoins(sdk.NewCoin(vh.SecondDenom, sdkmath.NewInt(int64(1+i))))})
		specials = append(specials, special{addr: a.Addr, desc: "base:second-denom-only", key: a})
	}
	// empty base accounts (nonce 0, no coins): legitimately deletable
	for i := 0; i < 6; i++ {
		a := vh.NewAcct(r)
		accts = append(accts, vh.GenAccount{Addr: a.Addr})
		specials = append(specials, special{addr: a.Addr, desc: "base:empty", key: a})
	}
	// base account with nonce > 0 and no coins
	for i := 0; i < 2; i++ {
		a := vh.NewAcct(r)
		accts = append(accts, vh.GenAccount{Addr: a.Addr, Sequence: 3})
		specials = append(specials, special{addr: a.Addr, desc: "base:nonce-only", key: a})
	}
	// accounts that own contract storage and nothing else (no code, nonce 0, no coins): the x/evm genesis accepts them; one
	// whose lowest slot holds the zero value while a higher slot is live, one with a single live slot, one with a high slot only
	var storageOnly []evmtypes.GenesisAccount
	for i, st := range []evmtypes.Storage{
		{{Key: common.BigToHash(big.NewInt(0)).Hex(), Value: common.Hash{}.Hex()}, {Key: common.BigToHash(big.NewInt(5)).Hex(), Value: common.BigToHash(big.NewInt(7)).Hex()}},
		{{Key: common.BigToHash(big.NewInt(0)).Hex(), Value: common.BigToHash(big.NewInt(1)).Hex()}},
		{{Key: common.HexToHash("0xff00000000000000000000000000000000000000000000000000000000000001").Hex(), Value: common.BigToHash(big.NewInt(9)).Hex()}},
	} {
		a := vh.NewAcct(r)
		accts = append(accts, vh.GenAccount{Addr: a.Addr})
		specials = append(specials, special{addr: a.Addr, desc: fmt.Sprintf("base:storage-only-%d", i), key: a})
		storageOnly = append(storageOnly, evmtypes.GenesisAccount{Address: a.Addr.Hex(), Storage: st})
	}
	for _, name := range []string{authtypes.FeeCollectorName, "distribution", "bonded_tokens_pool", "not_bonded_tokens_pool", "gov", "mint", "transfer", "evm", "vauth", "cpc", "interchainaccounts"} {
		specials = append(specials, special{addr: common.BytesToAddress(authtypes.NewModuleAddress(name)), desc: "module:" + name})
	}
	var pool []common.Address
	for _, s := range specials {
		pool = append(pool, s.addr)
	}
	w := vh.NewWorld(r, vh.WorldOpts{Chain: vh.Config{Seed: r.U64(), NumVals: 2, GenesisTime: genesis, BlockStep: step, Accounts: accts, Erc20Native: wi%2 == 0,
		MutateGenesis: func(enc params.EncodingConfig, gs chainapp.GenesisState) {
			var eg evmtypes.GenesisState
			enc.Codec.MustUnmarshalJSON(gs[evmtypes.ModuleName], &eg)
			eg.Accounts = append(eg.Accounts, storageOnly...)
			gs[evmtypes.ModuleName] = enc.Codec.MustMarshalJSON(&eg)
		}},
		NumEOA: 5, Prog: vh.ProgOpts{MaxLen: 6, Depth: 1}, ExtraPool: pool})
	defer w.C.Cleanup()
	tracked := map[common.Address]string{}
	for _, s := range specials {
		tracked[s.addr] = s.desc
	}
	for _, a := range w.EOAs {
		tracked[a.Addr] = "base:funded-eoa"
	}
	selfDestructable := map[common.Address]bool{}
	viewFn := func(ctx sdk.Context) any {
		v := &view{BlockTime: ctx.BlockTime().Unix(), Accts: map[common.Address]*acctInfo{}}
		for a := range tracked {
			v.Accts[a] = info(w.C, ctx, a)
		}
		return v
	}
	runBlock := func(plans []*vh.TxPlan) {
		txs := make([][]byte, len(plans))
		for i, p := range plans {
			txs[i] = p.Bytes
		}
		ob := w.C.RunObserved(txs, nil, viewFn, true)
		w.ResetPending()
		check(run, label, w, ob, plans, tracked, selfDestructable)
	}
	// contracts: generated ones whose pool is the special accounts + explicit "touch all" / "pay" / "selfdestruct-to" helpers
	for len(w.Contracts) < 10 {
		var plans []*vh.TxPlan
		var progs []*vh.Prog
		for i := 0; i < 3; i++ {
			p := vh.GenProgram(r, vh.ProgOpts{Pool: pool, Callees: contractAddrs(w), MaxLen: 6, Depth: 1})
			progs = append(progs, p)
			plans = append(plans, w.PlanEth(vh.Pick(r, w.EOAs), nil, nil, 2_000_000, vh.Deployer(p.Code), "ok", nil))
		}
		runBlock(plans)
		for i, pl := range plans {
			addr := crypto.CreateAddress(pl.Sender.Addr, pl.Tx.Nonce())
			w.Contracts = append(w.Contracts, &vh.Contract{Addr: addr, Prog: progs[i], Deployer: pl.Sender.Addr})
			tracked[addr] = "contract"
			// a contract can destroy itself through its own SELFDESTRUCT or by running a callee's code in its own
			// context (DELEGATECALL / CALLCODE to a contract that contains SELFDESTRUCT)
			if progs[i].Uses["selfdestruct"] > 0 || progs[i].Uses["call:DELEGATECALL"] > 0 || progs[i].Uses["call:CALLCODE"] > 0 {
				selfDestructable[addr] = true
			}
		}
	}
	for b := 0; b < nBlocks; b++ {
		var plans []*vh.TxPlan
		if b%5 == 3 && w.C.Nonce(creator.Addr) < 8 {
			// creation transaction whose target address is occupied by a special account
			code := vh.Deployer(vh.NewAsm().SStore(1, 1).Op(vm.STOP).Bytes())
			plans = append(plans, tag(w.PlanEth(creator, nil, big.NewInt(int64(r.Intn(2)*1000)), 400000, code, "ok", nil), "create-at-special"))
			run.Count("creations_targeting_the_address_of_a_special_account", 1)
		}
		n := r.Range(1, 6)
		for i := 0; i < n; i++ {
			s := vh.Pick(r, w.EOAs)
			sp := vh.Pick(r, specials)
			switch k := r.Intn(20); {
			case k < 5: // zero-value touch
				to := sp.addr
				plans = append(plans, tag(w.PlanEth(s, &to, nil, 30000, nil, "ok", nil), "touch0"))
			case k < 7: // pay
				to := sp.addr
				plans = append(plans, tag(w.PlanEth(s, &to, big.NewInt(int64(1+r.Intn(1000))), 30000, nil, "ok", nil), "pay"))
			case k < 9: // one-off contract: touch several specials (BALANCE + zero-value CALL), then maybe selfdestruct toward one
				a := vh.NewAsm()
				stored := r.Bool()
				cleared := false
				if stored { // storage written by the constructor of a contract that may destroy itself right there
					slot := uint64(1 + r.Intn(3))
					a.SStore(slot, 7)
					if r.Bool() { // ... and cleared again (a slot holding zero), next to one that stays live
						a.SStore(slot+10, 9)
						a.SStore(slot+10, 0)
						cleared = true
					}
				}
				for j := r.Range(1, 4); j > 0; j-- {
					t := vh.Pick(r, specials).addr
					a.PushAddr(t).Op(vm.BALANCE, vm.POP)
					a.CallMem(vh.CALL, t, nil, 0, 0, 0, 0, 0).Op(vm.POP)
				}
				kind := "probe-contract"
				if r.Bool() {
					a.PushAddr(sp.addr).Op(vm.SELFDESTRUCT)
					kind = "selfdestruct-toward"
					if stored {
						run.Count("constructor_selfdestructs_after_sstore", 1)
					}
					if cleared {
						run.Count("constructor_selfdestructs_after_clearing_a_slot", 1)
					}
				} else {
					a.Op(vm.STOP)
				}
				// run as init code: executes immediately inside the create transaction
				plans = append(plans, tag(w.PlanEth(s, nil, big.NewInt(int64(r.Intn(3)*777)), 600000, a.Bytes(), "ok", nil), kind))
			case k < 12: // special account as sender (vesting accounts spending at / beyond the unlocked amount)
				if sp.key != nil {
					bal := w.C.Balance(sp.addr)
					val := new(big.Int)
					switch r.Intn(4) {
					case 0:
						val = new(big.Int).Div(bal, big.NewInt(3))
					case 1:
						val = new(big.Int).Sub(bal, vh.Ether(10)) // everything above the locked amount (minus nothing for fees: fails)
						if val.Sign() < 0 {
							val = big.NewInt(1)
						}
					case 2:
						val = new(big.Int).Set(bal)
					default:
						val = big.NewInt(int64(r.Intn(1000)))
					}
					to := vh.Pick(r, w.EOAs).Addr
					plans = append(plans, tag(w.PlanEth(sp.key, &to, val, 21000, nil, "ok", nil), "special-as-sender"))
				}
			default:
				if len(w.Contracts) > 0 {
					c := vh.Pick(r, w.Contracts)
					to := c.Addr
					plans = append(plans, tag(w.PlanEth(s, &to, big.NewInt(int64(r.Intn(3)*1000)), uint64(vh.Pick(r, []int{30000, 100000, 800000})), r.Bytes(vh.Pick(r, []int{0, 4, 36})), "ok", nil), "generated-contract"))
				}
			}
		}
		runBlock(plans)
		if b%10 == 4 {
			// a contract that holds a second denomination (paid in through x/bank) is paid, self-destructs and is paid
			// AGAIN inside one transaction: it is deleted with everything it holds, in every denomination
			owner := vh.Pick(r, w.EOAs)
			ben := common.BytesToAddress(r.Bytes(20))
			sc := w.PlanDestroyThenPay(owner, ben, big.NewInt(int64(1+r.Intn(1000))*1_000_000_000))
			tracked[sc.Vault], tracked[sc.Orch], tracked[ben] = "contract:vault", "contract", "base:fresh"
			selfDestructable[sc.Vault] = true
			runBlock([]*vh.TxPlan{tag(sc.Deploy[0], "deploy-vault"), tag(sc.Deploy[1], "deploy-orchestrator")})
			withSecond := r.Chance(2, 3)
			if withSecond {
				msg := banktypes.NewMsgSend(donor.Acc(), sc.Vault.Bytes(), sdk.NewCoins(sdk.NewCoin(vh.SecondDenom, sdkmath.NewInt(int64(1+r.Intn(1000))))))
				bz := w.C.CosmosTx(donor, []sdk.Msg{msg}, &vh.CosmosOpts{Gas: 200000})
				runBlock([]*vh.TxPlan{tag(&vh.TxPlan{Kind: "cosmos-send", Class: "ok", Sender: donor, Bytes: bz}, "second-denom-into-vault")})
			}
			runBlock([]*vh.TxPlan{tag(sc.Fire(w, vh.Pick(r, w.EOAs)), "pay-destroy-pay-again")})
			if !w.C.App.AccountKeeper.HasAccount(w.C.QueryCtx(), sc.Vault.Bytes()) {
				run.Count("vaults_deleted_after_being_paid_again", 1)
				if withSecond {
					run.Count("vaults_deleted_while_holding_a_second_denomination", 1)
				}
			}
		}
		if b%10 == 8 {
			// a SELFDESTRUCT inside a frame that is rolled back (vault <- middle contract that reverts <- top contract that
			// ignores the failure): the vault did not self-destruct; it keeps its record, code and coins
			owner := vh.Pick(r, w.EOAs)
			ben := common.BytesToAddress(r.Bytes(20))
			v := big.NewInt(int64(1+r.Intn(1000)) * 1_000_000_000)
			sc := w.PlanRevertedDestroy(owner, ben, v)
			tracked[sc.Vault], tracked[sc.Mid], tracked[sc.Top], tracked[ben] = "contract:vault", "contract", "contract", "base:fresh"
			// deliberately NOT marked self-destructable: in this scenario its SELFDESTRUCT never survives
			runBlock([]*vh.TxPlan{tag(sc.Deploy[0], "deploy-vault"), tag(sc.Deploy[1], "deploy-reverting-middle"), tag(sc.Deploy[2], "deploy-top")})
			runBlock([]*vh.TxPlan{tag(sc.Fire(w, vh.Pick(r, w.EOAs)), "selfdestruct-in-reverted-frame")})
			if w.C.App.AccountKeeper.HasAccount(w.C.QueryCtx(), sc.Vault.Bytes()) && w.C.Balance(sc.Vault).Cmp(new(big.Int).Add(v, big.NewInt(1))) == 0 && w.C.Balance(ben).Sign() == 0 {
				run.Count("vaults_intact_after_a_reverted_selfdestruct", 1)
			}
		}
	}
}

func tag(p *vh.TxPlan, note string) *vh.TxPlan { p.Note = note; return p }

func contractAddrs(w *vh.World) []common.Address {
	var out []common.Address
	for _, c := range w.Contracts {
		out = append(out, c.Addr)
	}
	return out
}

func info(c *vh.Chain, ctx sdk.Context, a common.Address) *acctInfo {
	app := c.App
	ai := &acctInfo{}
	acc := app.AccountKeeper.GetAccount(ctx, a.Bytes())
	ai.Balances = app.BankKeeper.GetAllBalances(ctx, a.Bytes())
	if acc != nil {
		ai.Exists = true
		ai.Type = fmt.Sprintf("%T", acc)
		ai.Seq = acc.GetSequence()
		if _, ok := acc.(sdk.ModuleAccountI); ok {
			ai.IsModule = true
		}
		if va, ok := acc.(vestexported.VestingAccount); ok {
			ai.IsVesting = true
			ai.EndTime = va.GetEndTime()
			ai.Locked = va.LockedCoins(ctx.BlockTime())
			if _, ok := acc.(*vestingtypes.PermanentLockedAccount); ok {
				ai.Permanent = true
			}
		}
	}
	ch := app.EvmKeeper.GetCodeHash(ctx, a.Bytes())
	ai.HasCode = ch != (common.Hash{}) && ch != common.HexToHash("0xc5d2460186f7233c927e7db2dcc703c0e500b653ca82273b7bfad8045d85a470")
	app.EvmKeeper.ForEachStorage(ctx, a, func(_, _ common.Hash) bool { ai.Slots++; return true })
	return ai
}

func check(run *vh.Run, label string, w *vh.World, ob *vh.ObservedBlock, plans []*vh.TxPlan, tracked map[common.Address]string, selfDestructable map[common.Address]bool) {
	if ob.Err != nil {
		run.Violation("finalize-block-error", label, map[string]any{"err": ob.Err.Error()})
		return
	}
	for i, pl := range plans {
		res := ob.Res.TxResults[i]
		pre, _ := ob.Pre[i].View.(*view)
		post, _ := ob.Post[i].View.(*view)
		if pre == nil || post == nil || !ob.Reached[i] {
			continue
		}
		run.Eval(1)
		if pl.Note == "selfdestruct-in-reverted-frame" {
			run.Max("reverted_destroy_fire_gas_used_max", res.GasUsed)
		}
		diff := vh.Diff(ob.Pre[i].Dump, ob.Post[i].Dump)
		wit := func(a common.Address, extra map[string]any) map[string]any {
			m := map[string]any{"world": label, "height": ob.Height, "block_time": pre.BlockTime, "index": i, "plan": pl.String(), "interaction": pl.Note,
				"code": res.Code, "log": truncS(res.Log, 300), "account": a.Hex(), "account_kind": tracked[a], "before": pre.Accts[a], "after": post.Accts[a],
				"write_set": vh.ChangeStrings(diff)}
			for k, v := range extra {
				m[k] = v
			}
			return m
		}
		touchedProtected := false
		for a, kind := range tracked {
			b, af := pre.Accts[a], post.Accts[a]
			if b == nil || af == nil {
				continue // tracked from a later block on
			}
			changed := b.Exists != af.Exists || b.Type != af.Type || !b.Balances.Equal(af.Balances) || b.Seq != af.Seq
			rel := ""
			if b.IsVesting {
				switch {
				case b.Permanent:
					rel = "permanent"
				case b.EndTime > pre.BlockTime:
					rel = "unexpired"
				default:
					rel = "expired"
				}
			}
			isTarget := pl.Tx != nil && pl.Tx.To() != nil && *pl.Tx.To() == a
			if isTarget || changed {
				outcome := "ok"
				if res.Code != 0 {
					outcome = "failed"
				}
				run.Nontrivial(fmt.Sprintf("%s|%s|%s|%s", kind, rel, pl.Note, outcome))
				if strings.HasPrefix(kind, "base:storage-only") && res.Code == 0 {
					run.Count("transactions_touching_accounts_that_own_storage_only", 1)
					if kind == "base:storage-only-0" {
						run.Count("transactions_touching_the_storage_only_account_whose_lowest_slot_is_zero", 1)
					}
				}
				if isTarget && b.IsVesting {
					if rel == "expired" {
						run.Count("touch_expired_vesting", 1)
					} else {
						run.Count("touch_unexpired_vesting", 1)
					}
				}
				if b.IsModule || b.IsVesting {
					touchedProtected = true
				}
			}
			// (1) module accounts and (2) vesting accounts unexpired as of block time: never deleted / re-typed
			if b.Exists && (b.IsModule || (b.IsVesting && rel != "expired")) {
				if !af.Exists {
					run.Violation("protected-account-deleted:"+kindClass(kind, rel), label, wit(a, nil))
				} else if af.Type != b.Type {
					run.Violation("protected-account-retyped:"+kindClass(kind, rel), label, wit(a, nil))
				}
			}
			// (3) locked coins are never spent: balance may not fall below min(balance before, locked at block time)
			if b.IsVesting && b.Exists {
				for _, lc := range b.Locked {
					before := b.Balances.AmountOf(lc.Denom)
					after := af.Balances.AmountOf(lc.Denom)
					floor := sdkmath.MinInt(before, lc.Amount)
					if after.LT(floor) {
						run.Violation("vesting-locked-coins-spent:"+kindClass(kind, rel), label, wit(a, map[string]any{"denom": lc.Denom, "locked": lc.Amount.String()}))
					}
				}
				run.Count("locked_coin_checks", 1)
			}
			// (4) deletion only of accounts without code, storage, nonce and any balance — unless self-destructed
			if b.Exists && !af.Exists {
				run.Count("accounts_deleted", 1)
				run.Distinct("deleted_kinds", kind)
				if b.HasCode {
					if !selfDestructable[a] {
						run.Violation("contract-deleted-without-selfdestruct", label, wit(a, nil))
					}
				} else if b.Seq > 0 || !b.Balances.IsZero() || b.Slots > 0 {
					// a creation transaction whose new contract lands on this (code-less, possibly funded) address and whose
					// init code self-destructs: the account did self-destruct - as the contract it was for the length of the call
					createdHere := pl.Tx != nil && pl.Tx.To() == nil && crypto.CreateAddress(pl.Sender.Addr, pl.Tx.Nonce()) == a
					if createdHere && pl.Note == "selfdestruct-toward" && b.Seq == 0 && b.Slots == 0 {
						run.Count("funded_addresses_taken_by_a_constructor_that_self_destructs", 1)
					} else {
						run.Violation("non-empty-account-deleted:"+kindClass(kind, rel), label, wit(a, nil))
					}
				}
				// (5) complete removal: no balance of any denom, no code hash, no storage
				if !af.Balances.IsZero() || af.HasCode || af.Slots > 0 {
					run.Violation("deleted-account-left-residue", label, wit(a, nil))
				}
				if res.Code != 0 {
					run.Violation("failed-transaction-deleted-account", label, wit(a, nil))
				}
			}
			// residue scan on the raw dump: any bank / evm key still mentioning a deleted address
			if b.Exists && !af.Exists {
				for k := range ob.Post[i].Dump {
					if (strings.HasPrefix(k, "bank\x00") || strings.HasPrefix(k, "evm\x00")) && bytes.Contains([]byte(k), a.Bytes()) {
						if strings.HasPrefix(k, "evm\x00\x01") {
							continue // code is stored by hash, shared between accounts
						}
						run.Violation("deleted-account-left-residue", label, wit(a, map[string]any{"leftover_key": fmt.Sprintf("%x", k)}))
						break
					}
				}
			}
		}
		// whatever the transaction did: contract state (storage slot, code hash) it leaves behind belongs to an address
		// that has an account record afterwards
		for _, ch := range diff {
			if ch.Store != "evm" || ch.New == nil || len(ch.Key) < 21 || (ch.Key[0] != 0x02 && ch.Key[0] != 0x04) {
				continue
			}
			owner := common.BytesToAddress(ch.Key[1:21])
			if _, ok := ob.Post[i].Dump["acc\x00\x01"+string(owner.Bytes())]; !ok {
				run.Violation("contract-state-left-at-address-without-account", label, map[string]any{"world": label, "height": ob.Height, "index": i, "plan": pl.String(), "interaction": pl.Note,
					"address": owner.Hex(), "leftover_key": fmt.Sprintf("%x", ch.Key), "code": res.Code})
				break
			}
			run.Count("contract_state_writes_checked_for_an_account_record", 1)
		}
		if touchedProtected {
			run.Count("tx_touching_protected", 1)
		}
		if i == 0 && ob.Height%11 == 0 {
			run.Sample(map[string]any{"plan": pl.String(), "interaction": pl.Note, "code": res.Code, "block_time": time.Unix(pre.BlockTime, 0).UTC().Format("2006-01-02")})
		}
	}
}

func kindClass(kind, rel string) string {
	k := strings.SplitN(kind, ":", 3)
	s := k[0]
	if len(k) > 1 {
		s += ":" + k[1]
	}
	if rel != "" {
		s += ":" + rel
	}
	return s
}

func truncS(s string, n int) string {
	if len(s) > n {
		return s[:n] + "…"
	}
	return s
}
