package c16

// run.go: block driver and the oracles of C16.

import (
	"bytes"
	"fmt"

	abci "github.com/cometbft/cometbft/abci/types"
	"math/big"
	"os"
	"sort"
	"strings"
	"sync"

	codectypes "github.com/cosmos/cosmos-sdk/codec/types"
	sdk "github.com/cosmos/cosmos-sdk/types"
	"github.com/ethereum/go-ethereum/common"

	vauthtypes "github.com/EscanBE/evermint/v12/x/vauth/types"

	"verifharness/vh"
)

// kview is the keeper-level view computed inside the tx-boundary observer.
type kview struct {
	Proof   map[common.Address]bool
	AccType map[common.Address]string
	Supply  string
	Vauth   string
}

func (w *world) viewFn(track []common.Address) vh.ViewFn {
	return func(ctx sdk.Context) any {
		v := &kview{Proof: map[common.Address]bool{}, AccType: map[common.Address]string{}}
		app := w.c.App
		for _, a := range track {
			v.Proof[a] = app.VAuthKeeper.HasProofExternalOwnedAccount(ctx, a.Bytes())
			if acc := app.AccountKeeper.GetAccount(ctx, a.Bytes()); acc != nil {
				v.AccType[a] = fmt.Sprintf("%T", acc)
			}
		}
		v.Supply = app.BankKeeper.GetSupply(ctx, vh.Denom).Amount.String()
		v.Vauth = app.BankKeeper.GetBalance(ctx, vauthModule.Bytes(), vh.Denom).Amount.String()
		return v
	}
}

// ---- raw store readers ----------------------------------------------------------------------------

func accTypeURL(bz []byte) string {
	var any codectypes.Any
	if err := any.Unmarshal(bz); err != nil {
		return "undecodable"
	}
	return any.TypeUrl
}

func isVesting(url string) bool { return strings.Contains(url, ".vesting.") }

func proofKey(a common.Address) string { return "vauth\x00\x01" + string(a.Bytes()) }

func supplyOf(d vh.Dump) map[string]*big.Int {
	out := map[string]*big.Int{}
	const p = "bank\x00\x00"
	for k, v := range d {
		if strings.HasPrefix(k, p) {
			n, ok := new(big.Int).SetString(v, 10)
			if !ok {
				n = big.NewInt(-1)
			}
			out[k[len(p):]] = n
		}
	}
	return out
}

func balOf(d vh.Dump, a common.Address) *big.Int {
	v, ok := d["bank\x00\x02\x14"+string(a.Bytes())+vh.Denom]
	if !ok {
		return new(big.Int)
	}
	n, ok := new(big.Int).SetString(v, 10)
	if !ok {
		return big.NewInt(-1)
	}
	return n
}

// verifyRecord checks one stored proof record (raw key / value of the vauth store).
func verifyRecord(key, val []byte) (common.Address, string) {
	if len(key) != 21 || key[0] != 0x01 {
		return common.Address{}, "unexpected-key-shape"
	}
	addr := common.BytesToAddress(key[1:])
	var rec vauthtypes.ProofExternalOwnedAccount
	if err := rec.Unmarshal(val); err != nil {
		return addr, "undecodable-record"
	}
	acc, err := sdk.AccAddressFromBech32(rec.Account)
	if err != nil || !bytes.Equal(acc.Bytes(), addr.Bytes()) {
		return addr, "record-account-differs-from-key"
	}
	if !strings.EqualFold(strings.TrimPrefix(rec.Hash, "0x"), fmt.Sprintf("%x", msgHash(fixedMessage))) {
		return addr, "record-hash-is-not-keccak-of-fixed-message"
	}
	rc := recoverSigner(rec.Signature, fixedMessage)
	switch {
	case rc.proves(addr):
		return addr, ""
	case rc.provesEither(addr):
		return addr, "recovery-implementations-disagree"
	default:
		return addr, "signature-does-not-recover-to-account"
	}
}

// ---- block driver -------------------------------------------------------------------------------

func (w *world) runBlock(descs []*txDesc) {
	if len(descs) == 0 {
		w.c.NextBlock(nil, nil)
		return
	}
	track := make([]common.Address, 0, len(w.track))
	for a := range w.track {
		track = append(track, a)
	}
	sort.Slice(track, func(i, j int) bool { return bytes.Compare(track[i][:], track[j][:]) < 0 })
	txs := make([][]byte, len(descs))
	for i, d := range descs {
		txs[i] = d.Bz
	}
	// mempool activity around the block, as on a node: every transaction is offered to CheckTx before the block
	// (admission) and once more between FinalizeBlock and Commit (a user re-broadcasting; the mempool connection still
	// answers from the check state of the previous block then). Crash-freedom aside, nothing is judged on these answers:
	// what they may leave behind is judged by the ordinary per-transaction oracle on the following blocks.
	offer := func(when string) {
		for _, tx := range txs {
			func() {
				defer func() {
					if p := recover(); p != nil {
						w.run.Violation("checktx-panicked", w.label, map[string]any{"when": when, "panic": fmt.Sprint(p), "tx_bytes": fmt.Sprintf("%x", tx)})
					}
				}()
				_, _ = w.c.App.CheckTx(&abci.RequestCheckTx{Tx: tx, Type: abci.CheckTxType_New})
				w.run.Count("mempool_offers_"+when, 1)
			}()
		}
	}
	offer("before_block")
	ob := w.c.RunObserved(txs, &vh.BlockOpt{BeforeCommit: func() { offer("between_finalize_and_commit") }}, w.viewFn(track), true)
	if ob.Err != nil {
		w.run.Violation("finalize-block-error", w.label, map[string]any{"height": ob.Height, "err": ob.Err.Error()})
		return
	}
	for i, d := range descs {
		w.checkTx(ob, i, d)
	}
	w.checkFinal(ob)
	w.txCount += len(descs)
}

func (w *world) checkTx(ob *vh.ObservedBlock, i int, d *txDesc) {
	run := w.run
	run.Eval(1)
	res := ob.Res.TxResults[i]
	pre, post := ob.Pre[i], ob.Post[i]
	diff := vh.Diff(pre.Dump, post.Dump)
	kpre, _ := pre.View.(*kview)
	kpost, _ := post.View.(*kview)
	ok := res.Code == 0
	outcome := "rejected"
	if ok {
		outcome = "accepted"
	}
	if os.Getenv("C16_DEBUG") != "" && !ok {
		fmt.Printf("DBG %s | code=%d/%s | %s\n", d.Class, res.Code, res.Codespace, trunc(res.Log, 160))
	}
	run.Count("class_"+d.Class+"_"+outcome, 1)
	run.Nontrivial(fmt.Sprintf("%s|d%d|%s", d.Class, d.Depth, outcome))
	if d.Depth > 0 {
		what := "proof"
		if len(d.Vests) > 0 {
			what = "vest"
		}
		run.Count(fmt.Sprintf("exec_depth_%d_%s_%s", d.Depth, what, outcome), 1)
	}
	run.Distinct("scenarios", d.Scn)
	if ob.PostIsEndBlock[i] {
		run.Count("post_state_after_endblock_skipped", 1)
		return
	}
	wit := func(extra map[string]any) map[string]any {
		m := map[string]any{"world": w.label, "height": ob.Height, "index": i, "scenario": d.Scn, "class": d.Class, "route": d.Route, "depth": d.Depth,
			"signer": d.Signer.Hex(), "declared_fee": d.Fee.String(), "code": res.Code, "codespace": res.Codespace, "log": res.Log,
			"write_set": vh.ChangeStrings(diff), "tx_hex": fmt.Sprintf("%x", d.Bz)}
		var ps []map[string]any
		for _, p := range d.Proofs {
			ps = append(ps, map[string]any{"submitter": p.Submitter.Hex(), "account": p.Account.Hex(), "signature": p.Sig, "kind": p.Kind,
				"independent_recovery_proves_account": p.Rec.proves(p.Account), "had_proof_before": pre.Dump[proofKey(p.Account)] != ""})
		}
		if ps != nil {
			m["proof_submissions"] = ps
		}
		var vs []map[string]any
		for _, v := range d.Vests {
			vs = append(vs, map[string]any{"from": v.From.Hex(), "to": v.To.Hex(), "kind": v.Kind, "target": v.Target, "had_proof_before": pre.Dump[proofKey(v.To)] != ""})
		}
		if vs != nil {
			m["vesting_creations"] = vs
		}
		for k, x := range extra {
			m[k] = x
		}
		return m
	}

	// (1) proof store: write set of the vauth store
	newProofs := 0
	for _, ch := range diff {
		if ch.Store != "vauth" {
			continue
		}
		switch {
		case ch.Old != nil && ch.New != nil:
			run.Violation("stored-proof-overwritten", w.label, wit(map[string]any{"key": fmt.Sprintf("%x", ch.Key)}))
		case ch.Old != nil:
			run.Violation("stored-proof-deleted", w.label, wit(map[string]any{"key": fmt.Sprintf("%x", ch.Key)}))
		default:
			newProofs++
			addr, bad := verifyRecord(ch.Key, ch.New)
			if bad != "" {
				run.Violation("stored-proof-invalid:"+bad, w.label, wit(map[string]any{"key": fmt.Sprintf("%x", ch.Key), "record": fmt.Sprintf("%x", ch.New)}))
			} else {
				run.Count("stored_proofs_verified_by_independent_recovery", 1)
			}
			submitted := false
			for _, p := range d.Proofs {
				if p.Account == addr {
					submitted = true
				}
			}
			if !submitted {
				run.Violation("proof-stored-for-address-not-submitted", w.label, wit(map[string]any{"address": addr.Hex()}))
			}
			if kpost != nil {
				if has, tracked := kpost.Proof[addr]; tracked && !has {
					run.Violation("keeper-and-store-disagree-on-proof", w.label, wit(map[string]any{"address": addr.Hex()}))
				}
			}
		}
		if !ok {
			run.Violation("rejected-tx-changed-proof-store", w.label, wit(nil))
		}
	}
	if ok {
		for _, p := range d.Proofs {
			if pre.Dump[proofKey(p.Account)] != "" {
				run.Violation("proven-address-proved-again:"+p.Kind, w.label, wit(nil))
			}
			if !p.Rec.proves(p.Account) {
				sig := "forged-proof-accepted:" + p.Kind
				if p.Rec.provesEither(p.Account) {
					sig = "proof-accepted-on-which-recovery-implementations-disagree:" + p.Kind
				}
				run.Violation(sig, w.label, wit(nil))
			}
		}
		// every accepted submission stores exactly one new record (distinct accounts within a tx)
		distinct := map[common.Address]bool{}
		for _, p := range d.Proofs {
			distinct[p.Account] = true
		}
		if newProofs != len(distinct) || len(distinct) != len(d.Proofs) {
			run.Violation("accepted-submissions-vs-new-records-mismatch", w.label, wit(map[string]any{"new_records": newProofs, "submissions": len(d.Proofs)}))
		}
		run.Count("proof_submissions_accepted", len(d.Proofs))
	} else {
		run.Count("proof_submissions_rejected", len(d.Proofs))
	}

	// (2) supply: burnt exactly fixed fee per accepted submission, nothing otherwise, no other denom moves
	burn := new(big.Int)
	if ok {
		burn.Mul(fixedFee, big.NewInt(int64(len(d.Proofs))))
	}
	s0, s1 := supplyOf(pre.Dump), supplyOf(post.Dump)
	for denom, b := range s0 {
		a := s1[denom]
		if a == nil {
			a = new(big.Int)
		}
		want := new(big.Int).Set(b)
		if denom == vh.Denom {
			want.Sub(want, burn)
		}
		if a.Cmp(want) != 0 {
			sig := "supply-delta-wrong:" + outcome
			if len(d.Proofs) > 0 {
				sig = "supply-delta-not-fixed-fee-per-accepted-proof:" + outcome
			}
			run.Violation(sig, w.label, wit(map[string]any{"denom": denom, "supply_before": b.String(), "supply_after": a.String(),
				"expected_burn": burn.String(), "actual_delta": new(big.Int).Sub(a, b).String()}))
		}
	}
	for denom := range s1 {
		if _, had := s0[denom]; !had {
			run.Violation("new-denom-appeared", w.label, wit(map[string]any{"denom": denom}))
		}
	}
	if kpre != nil && kpost != nil {
		if kpre.Supply != s0[vh.Denom].String() || kpost.Supply != s1[vh.Denom].String() {
			run.Violation("keeper-and-store-disagree-on-supply", w.label, wit(nil))
		}
		// the module account the fee is burnt through ends with what it held before (it may hold coins of its own)
		if kpost.Vauth != kpre.Vauth {
			pre, _ := new(big.Int).SetString(kpre.Vauth, 10)
			post, _ := new(big.Int).SetString(kpost.Vauth, 10)
			sig := "fee-parked-in-module-account-not-burnt"
			if pre != nil && post != nil && post.Cmp(pre) < 0 {
				sig = "module-account-holdings-burnt-with-the-fee"
			}
			run.Violation(sig, w.label, wit(map[string]any{"vauth_module_balance_before": kpre.Vauth, "vauth_module_balance_after": kpost.Vauth}))
		}
		if kpre.Vauth != "0" && len(d.Proofs) > 0 && ok {
			run.Count("accepted_submissions_while_the_module_account_holds_coins", 1)
		}
	}
	if len(d.Proofs) > 0 && ok {
		run.Count("burn_checked_accepted", 1)
	} else if len(d.Proofs) > 0 {
		run.Count("burn_checked_rejected", 1)
	}

	// (3) balances: who paid what
	want := map[common.Address]*big.Int{}
	add := func(a common.Address, v *big.Int) {
		if want[a] == nil {
			want[a] = new(big.Int)
		}
		want[a].Add(want[a], v)
	}
	if ok {
		for _, f := range d.Flows {
			add(f.From, new(big.Int).Neg(f.Amt))
			add(f.To, f.Amt)
		}
		for _, p := range d.Proofs {
			add(p.Submitter, new(big.Int).Neg(fixedFee))
		}
	}
	actual := func(a common.Address) *big.Int { return new(big.Int).Sub(balOf(post.Dump, a), balOf(pre.Dump, a)) }
	// the fee: exactly the declared fee on success; nothing or the declared fee on rejection
	feePaid := new(big.Int).Neg(new(big.Int).Sub(actual(d.Signer), orZero(want[d.Signer])))
	switch {
	case ok && feePaid.Cmp(d.Fee) != 0:
		sig := "charge-mismatch:accepted"
		if len(d.Proofs) > 0 {
			sig = "submitter-not-charged-fixed-fee-plus-tx-fee"
		}
		run.Violation(sig, w.label, wit(map[string]any{"signer_delta": actual(d.Signer).String(), "expected_delta": new(big.Int).Sub(orZero(want[d.Signer]), d.Fee).String()}))
	case !ok && feePaid.Sign() != 0 && feePaid.Cmp(d.Fee) != 0:
		run.Violation("rejected-tx-charged-other-than-nothing-or-tx-fee", w.label, wit(map[string]any{"signer_delta": actual(d.Signer).String()}))
	}
	if !ok {
		if feePaid.Sign() == 0 {
			run.Count("rejected_charged_nothing", 1)
		} else {
			run.Count("rejected_charged_tx_fee", 1)
		}
	}
	add(d.Signer, new(big.Int).Neg(feePaid))
	add(feeCollector, feePaid)
	seen := map[common.Address]bool{}
	for _, ch := range diff {
		if ch.Store == "bank" && len(ch.Key) > 22 && ch.Key[0] == 0x02 && ch.Key[1] == 20 && string(ch.Key[22:]) == vh.Denom {
			seen[common.BytesToAddress(ch.Key[2:22])] = true
		}
	}
	for a := range want {
		seen[a] = true
	}
	addrs := make([]common.Address, 0, len(seen))
	for a := range seen {
		addrs = append(addrs, a)
	}
	sort.Slice(addrs, func(i, j int) bool { return bytes.Compare(addrs[i][:], addrs[j][:]) < 0 })
	for _, a := range addrs {
		if actual(a).Cmp(orZero(want[a])) != 0 {
			sig := "balance-delta-mismatch:" + outcome
			run.Violation(sig, w.label, wit(map[string]any{"address": a.Hex(), "delta": actual(a).String(), "expected": orZero(want[a]).String()}))
			break
		}
	}
	if len(d.Proofs) > 0 {
		run.Count("charge_checked", 1)
	}

	// (4) vesting accounts: any new one needs a proof that existed before this transaction
	for _, ch := range diff {
		if ch.Store == "acc" && len(ch.Key) > 1 && len(ch.Key) != 21 && ch.Key[0] == 0x01 && ch.New != nil && isVesting(accTypeURL(ch.New)) && (ch.Old == nil || !isVesting(accTypeURL(ch.Old))) {
			// an address that is not 20 bytes long is nobody's externally owned account and has no proof record
			run.Violation("vesting-account-created-for-address-that-is-not-20-bytes:"+routeClass(d.Route, d.Depth), w.label, wit(map[string]any{"address_bytes": fmt.Sprintf("%x", ch.Key[1:]), "account_type": accTypeURL(ch.New)}))
			continue
		}
		if ch.Store != "acc" || len(ch.Key) != 21 || ch.Key[0] != 0x01 || ch.New == nil {
			continue
		}
		nu := accTypeURL(ch.New)
		if !isVesting(nu) || (ch.Old != nil && isVesting(accTypeURL(ch.Old))) {
			continue
		}
		addr := common.BytesToAddress(ch.Key[1:])
		run.Count("vesting_accounts_created", 1)
		run.Count("vesting_created_route_"+routeClass(d.Route, 0), 1)
		run.Distinct("vesting_account_types", nu)
		provenBefore := pre.Dump[proofKey(addr)] != ""
		if kpre != nil {
			if has, tracked := kpre.Proof[addr]; tracked {
				if has != provenBefore {
					run.Violation("keeper-and-store-disagree-on-proof", w.label, wit(map[string]any{"address": addr.Hex()}))
				}
				provenBefore = provenBefore && has
			}
		}
		if kpost != nil {
			if ty, tracked := kpost.AccType[addr]; tracked && !strings.Contains(ty, "vesting") && !strings.Contains(ty, "Vesting") && !strings.Contains(ty, "PermanentLocked") {
				run.Violation("keeper-and-store-disagree-on-account-type", w.label, wit(map[string]any{"address": addr.Hex(), "keeper_type": ty, "store_type": nu}))
			}
		}
		if !provenBefore {
			run.Violation("vesting-account-created-without-prior-proof:"+routeClass(d.Route, d.Depth), w.label, wit(map[string]any{"address": addr.Hex(), "account_type": nu}))
		}
		if !ok {
			run.Violation("rejected-tx-created-vesting-account", w.label, wit(map[string]any{"address": addr.Hex()}))
		}
		if ch.Old != nil {
			run.Violation("existing-account-converted-to-vesting", w.label, wit(map[string]any{"address": addr.Hex(), "old_type": accTypeURL(ch.Old)}))
		}
	}
	for _, v := range d.Vests {
		run.Count("vest_target_"+v.Target+"_"+outcome, 1)
		run.Distinct("vest_kinds", v.Kind)
		if d.Depth > 0 {
			run.Max("deepest_vesting_nesting", int64(d.Depth))
		}
	}
	if !ok && len(diff) > 0 {
		// a rejected transaction may only have paid its fee (and had its signer's sequence / pubkey processed)
		for _, ch := range diff {
			switch ch.Store {
			case "acc", "bank":
			default:
				run.Violation("rejected-tx-side-effect:store="+ch.Store, w.label, wit(nil))
			}
		}
	}
	if w.txCount%53 == 0 && i == 0 {
		run.Sample(map[string]any{"class": d.Class, "outcome": outcome, "log": trunc(res.Log, 100), "writes": len(diff), "new_proofs": newProofs})
	}
}

func orZero(v *big.Int) *big.Int {
	if v == nil {
		return new(big.Int)
	}
	return v
}

func trunc(s string, n int) string {
	if len(s) > n {
		return s[:n]
	}
	return s
}

// checkFinal scans the whole proof store and all accounts after EndBlock.
func (w *world) checkFinal(ob *vh.ObservedBlock) {
	d := ob.Final.Dump
	n := 0
	for k, v := range d {
		if strings.HasPrefix(k, "vauth\x00") {
			key := []byte(k[len("vauth\x00"):])
			if _, bad := verifyRecord(key, []byte(v)); bad != "" {
				w.run.Violation("final-scan:stored-proof-invalid:"+bad, w.label, map[string]any{"height": ob.Height, "key": fmt.Sprintf("%x", key), "record": fmt.Sprintf("%x", v)})
			}
			n++
		}
	}
	w.run.Max("proof_records_in_largest_store", int64(n))
	for k, v := range d {
		if strings.HasPrefix(k, "acc\x00\x01") && isVesting(accTypeURL([]byte(v))) {
			raw := []byte(k[len("acc\x00\x01"):])
			if len(raw) != 20 {
				w.run.Violation("final-scan:vesting-account-at-address-that-is-not-20-bytes", w.label, map[string]any{"height": ob.Height, "address_bytes": fmt.Sprintf("%x", raw)})
				continue
			}
			addr := common.BytesToAddress(raw)
			if d[proofKey(addr)] == "" {
				w.run.Violation("final-scan:vesting-account-without-proof", w.label, map[string]any{"height": ob.Height, "address": addr.Hex()})
			}
		}
	}
	w.run.Count("final_scans", 1)
}

// Run is the entry point of the C16 monitor.
func Run(run *vh.Run) {
	total := run.N(1000, 30000)
	nWorlds := 4
	if run.Thorough() {
		nWorlds = 16
	}
	per := (total + nWorlds - 1) / nWorlds
	var wg sync.WaitGroup
	sem := make(chan struct{}, 8)
	for wi := 0; wi < nWorlds; wi++ {
		label := fmt.Sprintf("world-%d", wi)
		if !run.WantCase(label) {
			continue
		}
		wg.Add(1)
		go func(wi int, label string) {
			defer wg.Done()
			sem <- struct{}{}
			defer func() { <-sem }()
			w := newWorld(run, label, wi)
			defer w.c.Cleanup()
			r := run.RNG("scenarios", wi)
			for w.txCount < per {
				w.round(r)
			}
		}(wi, label)
	}
	wg.Wait()

	run.Rule = "Scenario generator on real chains under the tx-boundary observer (full store dump + keeper view before and after every transaction): the three vesting-creation messages (4 account kinds) top-level, in multi-message transactions and inside authz exec depth 1-5 (self-exec and through genesis grants) for targets {proven, unproven, proven later in the same block, proven earlier in the same block, proven in the previous block, proven inside the same transaction, module accounts, contract, existing account, existing proven account, already vesting}; proof submissions with 22 signature renderings (valid, malleated twin, other key, other message, random 1-80 bytes, upper-case hex, missing / upper-case prefix, legacy and out-of-range v, truncated, extended, empty, non-hex, zero, bit-flipped), top-level and inside exec, submitter = account, submitters funded to exactly / 1 below / 1 above / far below fixed fee + tx fee, repeats, two for one address in one block and in one transaction. Non-trivial = distinct (transaction class, outcome)."
	run.Assumptions = append(run.Assumptions,
		"routes that need another chain (interchain-accounts host) and passed governance proposals are not driven",
		"mint inflation is 0 so that total supply moves only through transactions",
		"authz grants for the vesting-creation messages are placed in genesis (they cannot be created by transaction)",
		"the fixed message and the fixed fee are read from the module's constants (the property refers to them as the module's); recovery is done by go-ethereum's SigToPub and btcec's RecoverCompact, not by the module's verifier",
		"a signature counts as made by the account's key iff both recoveries over keccak256(fixed message) yield the account (so the (r, n-s, v^1) twin of a real signature counts as made by the key)")
	q := func(a, b int) int64 { return int64(run.N(a, b)) }
	run.Floor("transactions evaluated", run.Get("charge_checked")+run.Get("vesting_accounts_created"), q(300, 9000))
	run.Floor("vesting accounts created (each checked for a prior proof)", run.Get("vesting_accounts_created"), q(25, 750))
	run.Floor("vesting creations for unproven targets rejected", run.Get("vest_target_unproven_rejected"), q(60, 1800))
	run.Floor("accepted proof submissions (stored record verified, burn and charge checked)", run.Get("burn_checked_accepted"), q(100, 3000))
	run.Floor("accepted proof submissions while the burning module account holds coins of its own", run.Get("accepted_submissions_while_the_module_account_holds_coins"), q(30, 900))
	run.Floor("rejected proof submissions (nothing stored, nothing burnt)", run.Get("burn_checked_rejected"), q(100, 3000))
	run.Floor("scenario kinds exercised", int64(run.DistinctN("scenarios")), 9)
	run.Floor("deepest nesting of a vesting-creation message", run.Get("deepest_vesting_nesting"), 5)
}

// round runs one batch of scenarios over three blocks.
func (w *world) round(r *vh.RNG) {
	const perRound = 14
	scns := make([]*scenario, perRound)
	for i := range scns {
		scns[i] = w.genScenario(r)
	}
	for b := 0; b < 3; b++ {
		w.used = map[int]bool{}
		order := make([]int, perRound)
		for i := range order {
			order[i] = i
		}
		vh.Shuffle(r, order)
		var descs []*txDesc
		for _, si := range order {
			if f := scns[si].steps[b]; f != nil {
				descs = append(descs, f()...)
			}
		}
		w.runBlock(descs)
	}
	// forget tracked addresses of finished scenarios (keeps the keeper view small)
	w.track = map[common.Address]bool{}
}
