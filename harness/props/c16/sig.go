// Package c16 is the monitor for property C16 (vesting accounts only for proven EOAs;
// ownership proofs unforgeable and final).
//
// sig.go: signature material. Proof signatures are produced here with go-ethereum's
// crypto.Sign over keccak256(fixed message); the oracle side recovers the signer twice,
// independently of the module's own verifier: with go-ethereum's crypto.SigToPub and with
// btcec's RecoverCompact (a different implementation of the curve arithmetic).
package c16

import (
	"crypto/ecdsa"
	"encoding/hex"
	"fmt"
	"math/big"
	"strings"

	btcecdsa "github.com/btcsuite/btcd/btcec/v2/ecdsa"
	"github.com/ethereum/go-ethereum/common"
	ethcrypto "github.com/ethereum/go-ethereum/crypto"

	vauthtypes "github.com/EscanBE/evermint/v12/x/vauth/types"

	"verifharness/vh"
)

// fixedMessage is the module's fixed message (a constant of the code under test: the property
// speaks of "the module's fixed message", so the constant is the specification here).
const fixedMessage = vauthtypes.MessageToSign

func msgHash(msg string) []byte { return ethcrypto.Keccak256([]byte(msg)) }

func rawSign(key *ecdsa.PrivateKey, hash []byte) []byte {
	sig, err := ethcrypto.Sign(hash, key)
	if err != nil {
		panic(err)
	}
	return sig
}

var secpN = ethcrypto.S256().Params().N

// malleate returns the twin signature (r, n-s, v^1), which recovers to the same key.
func malleate(sig []byte) []byte {
	out := append([]byte{}, sig...)
	s := new(big.Int).SetBytes(sig[32:64])
	s.Sub(secpN, s)
	copy(out[32:64], common.LeftPadBytes(s.Bytes(), 32))
	out[64] ^= 1
	return out
}

var sigKinds = []string{
	"valid", "valid", "valid", "malleated", "other-key", "submitter-key", "submitter-key", "signer-key", "other-msg", "other-msg", "random", "random", "random65",
	"upper-hex", "upper-prefix", "no-0x", "v+27", "v-2or3", "v-flipped", "trunc64", "ext66", "empty", "non-hex", "zero-rs", "r-tweaked", "odd-hex",
}

// makeSig renders a signature string of the given kind for the account key.
func makeSig(r *vh.RNG, key *ecdsa.PrivateKey, kind string) string {
	good := rawSign(key, msgHash(fixedMessage))
	hx := func(b []byte) string { return "0x" + hex.EncodeToString(b) }
	switch kind {
	case "valid":
		return hx(good)
	case "malleated":
		return hx(malleate(good))
	case "other-key":
		return hx(rawSign(vh.NewAcct(r).Key, msgHash(fixedMessage)))
	case "other-msg":
		addr := ethcrypto.PubkeyToAddress(key.PublicKey)
		m := vh.Pick(r, []string{fixedMessage + " ", " " + fixedMessage, strings.ToUpper(fixedMessage), fixedMessage + "\n", "x/" + fixedMessage,
			fmt.Sprintf("\x19Ethereum Signed Message:\n%d%s", len(fixedMessage), fixedMessage), addr.Hex(), "proof"})
		return hx(rawSign(key, msgHash(m)))
	case "random":
		return hx(r.Bytes(1 + r.Intn(80)))
	case "random65":
		b := r.Bytes(65)
		b[64] = byte(r.Intn(2))
		return hx(b)
	case "upper-hex":
		return "0x" + strings.ToUpper(hex.EncodeToString(good))
	case "upper-prefix":
		return "0X" + hex.EncodeToString(good)
	case "no-0x":
		return hex.EncodeToString(good)
	case "v+27":
		b := append([]byte{}, good...)
		b[64] += 27
		return hx(b)
	case "v-2or3":
		b := append([]byte{}, good...)
		b[64] += 2
		return hx(b)
	case "v-flipped":
		b := append([]byte{}, good...)
		b[64] ^= 1
		return hx(b)
	case "trunc64":
		return hx(good[:64])
	case "ext66":
		return hx(append(append([]byte{}, good...), byte(r.Intn(256))))
	case "empty":
		return vh.Pick(r, []string{"0x", ""})
	case "non-hex":
		return "0x" + strings.Repeat("zz", 65)
	case "zero-rs":
		return hx(make([]byte, 65))
	case "r-tweaked":
		b := append([]byte{}, good...)
		b[r.Intn(64)] ^= byte(1 << r.Intn(8))
		return hx(b)
	case "odd-hex":
		return hx(good) + "0"
	}
	panic("unknown signature kind " + kind)
}

// recovered is the result of the independent recovery of a signature string.
type recovered struct {
	Decoded  bool // a 65-byte [R||S||V] signature could be decoded (0x optional, any hex case, V in {0,1,27,28})
	Geth     *common.Address
	Btcec    *common.Address
	Disagree bool
}

// recoverSigner decodes sigStr permissively and recovers the signing address over keccak256(msg)
// with two independent implementations. The decoding is deliberately more permissive than the
// module's (prefix optional, either hex case, legacy V) so that the oracle never calls a
// signature forged merely because of its rendering.
func recoverSigner(sigStr, msg string) recovered {
	var out recovered
	s := sigStr
	if strings.HasPrefix(s, "0x") || strings.HasPrefix(s, "0X") {
		s = s[2:]
	}
	bz, err := hex.DecodeString(s)
	if err != nil || len(bz) != 65 {
		return out
	}
	v := bz[64]
	if v >= 27 {
		v -= 27
	}
	if v > 1 {
		return out
	}
	out.Decoded = true
	hash := msgHash(msg)
	sig := append(append([]byte{}, bz[:64]...), v)
	if pub, err := ethcrypto.SigToPub(hash, sig); err == nil && pub != nil {
		a := ethcrypto.PubkeyToAddress(*pub)
		out.Geth = &a
	}
	compact := append([]byte{27 + v}, bz[:64]...)
	if pub, _, err := btcecdsa.RecoverCompact(compact, hash); err == nil && pub != nil {
		ser := pub.SerializeUncompressed()
		a := common.BytesToAddress(ethcrypto.Keccak256(ser[1:])[12:])
		out.Btcec = &a
	}
	switch {
	case out.Geth == nil && out.Btcec == nil:
	case out.Geth == nil || out.Btcec == nil || *out.Geth != *out.Btcec:
		out.Disagree = true
	}
	return out
}

// provesOwnership: both implementations recover addr.
func (rc recovered) proves(addr common.Address) bool {
	return rc.Geth != nil && rc.Btcec != nil && *rc.Geth == addr && *rc.Btcec == addr
}

// provesEither: at least one implementation recovers addr (used to separate "forged" from
// "implementations disagree").
func (rc recovered) provesEither(addr common.Address) bool {
	return (rc.Geth != nil && *rc.Geth == addr) || (rc.Btcec != nil && *rc.Btcec == addr)
}
