package c16

// world.go: chains, actors, transaction builders and the scenario catalogue.

import (
	"fmt"
	"math/big"
	"strings"

	sdkmath "cosmossdk.io/math"
	codectypes "github.com/cosmos/cosmos-sdk/codec/types"
	sdk "github.com/cosmos/cosmos-sdk/types"
	authtypes "github.com/cosmos/cosmos-sdk/x/auth/types"
	vestingtypes "github.com/cosmos/cosmos-sdk/x/auth/vesting/types"
	"github.com/cosmos/cosmos-sdk/x/authz"
	banktypes "github.com/cosmos/cosmos-sdk/x/bank/types"
	distrtypes "github.com/cosmos/cosmos-sdk/x/distribution/types"
	govtypes "github.com/cosmos/cosmos-sdk/x/gov/types"
	stakingtypes "github.com/cosmos/cosmos-sdk/x/staking/types"
	"github.com/ethereum/go-ethereum/common"
	ethcrypto "github.com/ethereum/go-ethereum/crypto"

	chainapp "github.com/EscanBE/evermint/v12/app"
	"github.com/EscanBE/evermint/v12/app/params"
	evmtypes "github.com/EscanBE/evermint/v12/x/evm/types"
	vauthkeeper "github.com/EscanBE/evermint/v12/x/vauth/keeper"
	vauthtypes "github.com/EscanBE/evermint/v12/x/vauth/types"

	"verifharness/vh"
)

// fixedFee is the module's fixed submission cost (constant of the code under test; the property
// says "exactly the fixed fee").
var fixedFee = big.NewInt(vauthkeeper.CostSubmitProofExternalOwnedAccount)

const (
	urlVest     = "/cosmos.vesting.v1beta1.MsgCreateVestingAccount"
	urlVestPer  = "/cosmos.vesting.v1beta1.MsgCreatePeriodicVestingAccount"
	urlVestPerm = "/cosmos.vesting.v1beta1.MsgCreatePermanentLockedAccount"
	urlProof    = "/evermint.vauth.v1.MsgSubmitProofExternalOwnedAccount"
	urlSend     = "/cosmos.bank.v1beta1.MsgSend"
	numActors   = 120
	txGas       = 700000
)

var (
	feeCollector = common.BytesToAddress(authtypes.NewModuleAddress(authtypes.FeeCollectorName))
	vauthModule  = common.BytesToAddress(authtypes.NewModuleAddress(vauthtypes.ModuleName))
)

type flow struct {
	From, To common.Address
	Amt      *big.Int
}

type proofItem struct {
	Submitter common.Address
	Account   common.Address
	Sig       string
	Kind      string
	Rec       recovered
}

type vestItem struct {
	From   common.Address
	To     common.Address
	Kind   string
	Target string
}

// txDesc is one generated transaction with everything the oracle needs to know about it.
type txDesc struct {
	Scn    string
	Class  string // evidence class
	Route  string
	Depth  int
	Bz     []byte
	Signer common.Address
	Fee    *big.Int
	Proofs []proofItem
	Vests  []vestItem
	Flows  []flow // value moved by the messages if the transaction succeeds (proof fees excluded)
	Note   string
}

type world struct {
	run      *vh.Run
	label    string
	c        *vh.Chain
	actors   []*vh.Acct
	used     map[int]bool
	contract common.Address
	modules  []common.Address
	track    map[common.Address]bool
	txCount  int
	forceFrom *vh.Acct // next vestTx: use this funder
	forceKind string   // next vestTx: use this vesting kind
	forceToRaw []byte  // next vestMsg: raw target address bytes (any length)
}

type rawAddr []byte

func (a rawAddr) Bytes() []byte { return []byte(a) }

func newWorld(run *vh.Run, label string, wi int) *world {
	r := run.RNG("world", wi)
	w := &world{run: run, label: label, used: map[int]bool{}, track: map[common.Address]bool{}}
	var accs []vh.GenAccount
	for i := 0; i < numActors; i++ {
		a := vh.NewAcct(r)
		w.actors = append(w.actors, a)
		accs = append(accs, vh.GenAccount{Addr: a.Addr, Coins: vh.NativeCoins(100000)})
	}
	deployer := vh.NewAcct(r)
	accs = append(accs, vh.GenAccount{Addr: deployer.Addr, Coins: vh.NativeCoins(10)})
	if wi%2 == 1 {
		// the module account the fixed fee is burnt through holds coins of its own, in two denominations (nothing
		// stops coins from reaching it: genesis, module transfers, the ERC-20 precompile): a submission still burns
		// exactly the fixed fee
		accs = append(accs, vh.GenAccount{Addr: common.BytesToAddress(authtypes.NewModuleAddress(vauthtypes.ModuleName)), NoAuthAccount: true,
			Coins: vh.NativeCoins(3).Add(sdk.NewCoin(vh.SecondDenom, sdkmath.NewInt(int64(1+r.Intn(1_000_000)))))})
	}
	w.c = vh.NewChain(vh.Config{Seed: r.U64(), NumVals: 1, Accounts: accs,
		MutateGenesis: func(enc params.EncodingConfig, gs chainapp.GenesisState) {
			// actor i grants actor i+1 generic authorisations for the vesting-creation messages, the
			// proof submission and MsgSend: if the ante handler let a nested vesting message through,
			// authz itself would execute it.
			var ag authz.GenesisState
			for i, g := range w.actors {
				s := w.actors[(i+1)%numActors]
				for _, u := range []string{urlVest, urlVestPer, urlVestPerm, urlProof, urlSend} {
					any, err := codectypes.NewAnyWithValue(authz.NewGenericAuthorization(u))
					if err != nil {
						panic(err)
					}
					ag.Authorization = append(ag.Authorization, authz.GrantAuthorization{Granter: g.Bech32(), Grantee: s.Bech32(), Authorization: any})
				}
			}
			gs[authz.ModuleName] = enc.Codec.MustMarshalJSON(&ag)
		}})
	for _, n := range []string{authtypes.FeeCollectorName, distrtypes.ModuleName, vauthtypes.ModuleName, evmtypes.ModuleName, stakingtypes.BondedPoolName, govtypes.ModuleName} {
		w.modules = append(w.modules, common.BytesToAddress(authtypes.NewModuleAddress(n)))
	}
	// one contract account as a vesting target
	rt := vh.NewAsm().SStore(0, 1).Bytes()
	bz, _ := w.c.EthTx(deployer, vh.LegacyTx(0, nil, nil, 200000, new(big.Int).Mul(w.c.BaseFee(), big.NewInt(2)), vh.Deployer(rt)))
	br := w.c.NextBlock([][]byte{bz}, nil)
	if br.Err != nil || br.TxResults()[0].Code != 0 {
		panic(fmt.Sprintf("contract deployment failed: %v %v", br.Err, br.TxResults()[0].Log))
	}
	w.contract = ethcrypto.CreateAddress(deployer.Addr, 0)
	return w
}

// ---- per-block actor allocation: one transaction per sender per block ---------------------------

func (w *world) take(r *vh.RNG) *vh.Acct {
	for tries := 0; tries < 10000; tries++ {
		i := r.Intn(numActors)
		if !w.used[i] {
			w.used[i] = true
			return w.actors[i]
		}
	}
	panic("actor pool exhausted")
}

// takePair returns (granter, grantee) with a genesis grant granter -> grantee.
func (w *world) takePair(r *vh.RNG) (*vh.Acct, *vh.Acct) {
	for tries := 0; tries < 10000; tries++ {
		i := r.Intn(numActors)
		j := (i + 1) % numActors
		if !w.used[i] && !w.used[j] {
			w.used[i], w.used[j] = true, true
			return w.actors[i], w.actors[j]
		}
	}
	panic("actor pool exhausted")
}

func (w *world) stdFee() *big.Int {
	return new(big.Int).Mul(new(big.Int).Mul(w.c.BaseFee(), big.NewInt(3)), big.NewInt(txGas))
}

func coins(v *big.Int) sdk.Coins {
	return sdk.NewCoins(sdk.NewCoin(vh.Denom, sdkmath.NewIntFromBigInt(v)))
}

func (w *world) encode(signer *vh.Acct, msgs []sdk.Msg, fee *big.Int) []byte {
	return w.c.CosmosTx(signer, msgs, &vh.CosmosOpts{Gas: txGas, Fee: coins(fee)})
}

func wrapExec(grantee *vh.Acct, inner []sdk.Msg, depth int) []sdk.Msg {
	cur := inner
	for i := 0; i < depth; i++ {
		m := authz.NewMsgExec(grantee.Acc(), cur)
		cur = []sdk.Msg{&m}
	}
	return cur
}

func bech(a common.Address) string { return sdk.AccAddress(a.Bytes()).String() }

// ---- builders -----------------------------------------------------------------------------------

// proofTx: submissions for (account, signature) pairs by one submitter.
// route "top": signer = submitter; "self-exec": signer = submitter, nested depth times;
// "granted-exec": submitter = granter, signer = grantee.
func (w *world) proofTx(scn, class string, signer, submitter *vh.Acct, items []proofItem, route string, depth int, fee *big.Int, upperAcct bool) *txDesc {
	var msgs []sdk.Msg
	for i := range items {
		items[i].Submitter = submitter.Addr
		items[i].Rec = recoverSigner(items[i].Sig, fixedMessage)
		acct := bech(items[i].Account)
		if upperAcct {
			acct = strings.ToUpper(acct)
		}
		msgs = append(msgs, &vauthtypes.MsgSubmitProofExternalOwnedAccount{Submitter: submitter.Bech32(), Account: acct, Signature: items[i].Sig})
		w.track[items[i].Account] = true
	}
	if route != "top" {
		msgs = wrapExec(signer, msgs, depth)
	}
	if fee == nil {
		fee = w.stdFee()
	}
	return &txDesc{Scn: scn, Class: class, Route: route, Depth: depth, Bz: w.encode(signer, msgs, fee), Signer: signer.Addr, Fee: fee, Proofs: items}
}

var vestKinds = []string{"delayed", "continuous", "periodic", "permlock"}

func (w *world) vestMsg(r *vh.RNG, from *vh.Acct, toAddr common.Address, kind string) (sdk.Msg, *big.Int) {
	to := rawAddr(toAddr.Bytes())
	if w.forceToRaw != nil { // scenario-chosen raw target (an address that is not 20 bytes long)
		to, w.forceToRaw = rawAddr(w.forceToRaw), nil
	}
	amt := big.NewInt(int64(1000 + r.Intn(1_000_000_000)))
	end := w.c.Time.Unix() + int64(3600+r.Intn(1_000_000))
	switch kind {
	case "delayed":
		return vestingtypes.NewMsgCreateVestingAccount(from.Acc(), to.Bytes(), coins(amt), end, true), amt
	case "continuous":
		return vestingtypes.NewMsgCreateVestingAccount(from.Acc(), to.Bytes(), coins(amt), end, false), amt
	case "periodic":
		half := new(big.Int).Rsh(amt, 1)
		rest := new(big.Int).Sub(amt, half)
		return vestingtypes.NewMsgCreatePeriodicVestingAccount(from.Acc(), to.Bytes(), w.c.Time.Unix(),
			[]vestingtypes.Period{{Length: int64(100 + r.Intn(10000)), Amount: coins(half)}, {Length: int64(100 + r.Intn(10000)), Amount: coins(rest)}}), amt
	default:
		return vestingtypes.NewMsgCreatePermanentLockedAccount(from.Acc(), to.Bytes(), coins(amt)), amt
	}
}

// vestTx builds a vesting-creation transaction for target `to` along `route`:
//
//	top                       [vest]
//	multi:send,vest / multi:vest,send / multi:vest,vest2 (second vest to a fresh unproven address)
//	self-exec  d              exec^d(grantee = funder)[vest]
//	granted-exec d            exec^d(grantee = partner)[vest from funder]   (genesis grant funder -> partner)
//	exec-mixed d              exec^d[send, vest]
func (w *world) vestTx(r *vh.RNG, scn, target string, to common.Address, route string, depth int) *txDesc {
	kind := vh.Pick(r, vestKinds)
	d := &txDesc{Scn: scn, Route: route, Depth: depth}
	var signer, from *vh.Acct
	if route == "granted-exec" {
		from, signer = w.takePair(r)
	} else if w.forceFrom != nil { // scenario-chosen funder (already taken for this round)
		from, signer = w.forceFrom, w.forceFrom
		w.forceFrom = nil
	} else {
		from = w.take(r)
		signer = from
	}
	if w.forceKind != "" {
		kind, w.forceKind = w.forceKind, ""
	}
	vm, amt := w.vestMsg(r, from, to, kind)
	d.Vests = append(d.Vests, vestItem{From: from.Addr, To: to, Kind: kind, Target: target})
	d.Flows = append(d.Flows, flow{From: from.Addr, To: to, Amt: amt})
	w.track[to] = true
	send := func() sdk.Msg {
		x := common.BytesToAddress(r.Bytes(20))
		a := big.NewInt(int64(1 + r.Intn(1000)))
		d.Flows = append(d.Flows, flow{From: from.Addr, To: x, Amt: a})
		return banktypes.NewMsgSend(from.Acc(), x.Bytes(), coins(a))
	}
	var msgs []sdk.Msg
	switch route {
	case "top":
		msgs = []sdk.Msg{vm}
	case "multi:send,vest":
		msgs = []sdk.Msg{send(), vm}
	case "multi:vest,send":
		msgs = []sdk.Msg{vm, send()}
	case "multi:vest,vest2":
		to2 := common.BytesToAddress(r.Bytes(20))
		k2 := vh.Pick(r, vestKinds)
		vm2, amt2 := w.vestMsg(r, from, to2, k2)
		d.Vests = append(d.Vests, vestItem{From: from.Addr, To: to2, Kind: k2, Target: "unproven"})
		d.Flows = append(d.Flows, flow{From: from.Addr, To: to2, Amt: amt2})
		w.track[to2] = true
		msgs = []sdk.Msg{vm, vm2}
		if r.Bool() {
			msgs = []sdk.Msg{vm2, vm}
		}
	case "self-exec", "granted-exec":
		msgs = wrapExec(signer, []sdk.Msg{vm}, depth)
	case "exec-mixed":
		inner := []sdk.Msg{send(), vm}
		if r.Bool() {
			inner = []sdk.Msg{vm, send()}
		}
		msgs = wrapExec(signer, inner, depth)
	case "exec-sibling":
		// a harmless exec (the signer's own send, which needs no grant) listed BEFORE the exec that carries the vesting
		// message - at the top level or inside the innermost exec
		harmless := wrapExec(signer, []sdk.Msg{send()}, 1+r.Intn(2))
		if r.Bool() {
			msgs = append(harmless, wrapExec(signer, []sdk.Msg{vm}, depth)...)
		} else {
			msgs = wrapExec(signer, append(harmless, vm), depth)
		}
	default:
		panic("route " + route)
	}
	d.Fee = w.stdFee()
	d.Signer = signer.Addr
	d.Class = "vest:" + route + ":" + target
	d.Bz = w.encode(signer, msgs, d.Fee)
	return d
}

func routeClass(route string, depth int) string {
	if depth > 0 {
		return fmt.Sprintf("%s-d%d", route, depth)
	}
	return route
}

var topRoutes = []string{"top", "top", "top", "multi:send,vest", "multi:vest,send", "multi:vest,vest2"}
var execRoutes = []string{"self-exec", "granted-exec", "exec-mixed", "exec-sibling"}

func pickRoute(r *vh.RNG, execShare int) (string, int) {
	if r.Intn(100) < execShare {
		return vh.Pick(r, execRoutes), 1 + r.Intn(5)
	}
	return vh.Pick(r, topRoutes), 0
}

// ---- scenarios ------------------------------------------------------------------------------------

// A scenario spans up to three consecutive blocks; steps are built right before their block so
// that sequences, account numbers and the base fee are the committed ones.
type scenario struct {
	name  string
	steps [3]func() []*txDesc
}

func (w *world) validProof(r *vh.RNG, scn string, target *vh.Acct) *txDesc {
	x := w.take(r)
	return w.proofTx(scn, "proof:setup-valid", x, x, []proofItem{{Account: target.Addr, Sig: makeSig(r, target.Key, "valid"), Kind: "valid"}}, "top", 0, nil, false)
}

func (w *world) genScenario(r *vh.RNG) *scenario {
	s := &scenario{}
	switch k := r.Intn(100); {
	case k < 12: // proven target, then creation along a top-level route (must be able to succeed) or an exec route
		s.name = "vest-proven"
		a := vh.NewAcct(r)
		s.steps[0] = func() []*txDesc { return []*txDesc{w.validProof(r, s.name, a)} }
		s.steps[1] = func() []*txDesc {
			route, d := pickRoute(r, 25)
			return []*txDesc{w.vestTx(r, s.name, "proven", a.Addr, route, d)}
		}
		s.steps[2] = func() []*txDesc { // a second creation for the same (now existing / vesting) account
			route, d := pickRoute(r, 20)
			return []*txDesc{w.vestTx(r, s.name, "second-creation", a.Addr, route, d)}
		}
	case k < 17: // the FUNDER holds a proof, the target does not: every kind, top-level routes and self-exec
		s.name = "vest-unproven-by-proven-funder"
		f := w.take(r)
		s.steps[0] = func() []*txDesc { return []*txDesc{w.validProof(r, s.name, f)} }
		mk := func(kind string) func() []*txDesc {
			return func() []*txDesc {
				route, d := vh.Pick(r, []string{"top", "top", "multi:send,vest", "multi:vest,send", "self-exec"}), 0
				if route == "self-exec" {
					d = 1 + r.Intn(3)
				}
				w.forceFrom, w.forceKind = f, kind
				return []*txDesc{w.vestTx(r, s.name, "unproven", vh.NewAcct(r).Addr, route, d)}
			}
		}
		k1, k2 := vh.Pick(r, vestKinds), vh.Pick(r, vestKinds)
		s.steps[1], s.steps[2] = mk(k1), mk(k2)
	case k < 21: // targets whose address is LONGER than 20 bytes and ends in the address of a proven account (no key controls
		// such an address and it can hold no proof of its own): every kind, top-level
		s.name = "vest-long-address-ending-in-proven-eoa"
		a := vh.NewAcct(r)
		s.steps[0] = func() []*txDesc { return []*txDesc{w.validProof(r, s.name, a)} }
		mk := func(kind string, n int) func() []*txDesc {
			return func() []*txDesc {
				w.forceKind = kind
				w.forceToRaw = append(r.Bytes(n-20), a.Addr.Bytes()...)
				return []*txDesc{w.vestTx(r, s.name, "long-address", a.Addr, vh.Pick(r, []string{"top", "multi:send,vest"}), 0)}
			}
		}
		s.steps[1], s.steps[2] = mk(vh.Pick(r, vestKinds), 32), mk(vh.Pick(r, vestKinds), vh.Pick(r, []int{21, 32, 40}))
	case k < 30: // unproven targets along every route
		s.name = "vest-unproven"
		s.steps[1] = func() []*txDesc {
			route, d := pickRoute(r, 60)
			return []*txDesc{w.vestTx(r, s.name, "unproven", vh.NewAcct(r).Addr, route, d)}
		}
	case k < 36: // proof arrives later in the same block, creation retried in the next block
		s.name = "vest-proven-later"
		a := vh.NewAcct(r)
		s.steps[1] = func() []*txDesc {
			route, d := pickRoute(r, 30)
			return []*txDesc{w.vestTx(r, s.name, "proven-later-same-block", a.Addr, route, d), w.validProof(r, s.name, a)}
		}
		s.steps[2] = func() []*txDesc {
			route, d := pickRoute(r, 20)
			out := []*txDesc{w.vestTx(r, s.name, "proven-previous-block", a.Addr, route, d)}
			if r.Bool() { // and somebody proves the address once more (before or after the creation): the proof is final
				x := w.take(r)
				rep := w.proofTx(s.name, "proof:repeat-after-refused-creation", x, x, []proofItem{{Account: a.Addr, Sig: makeSig(r, a.Key, vh.Pick(r, []string{"valid", "malleated"})), Kind: "repeat"}}, "top", 0, nil, r.Chance(1, 3))
				if r.Bool() {
					out = append(out, rep)
				} else {
					out = append([]*txDesc{rep}, out...)
				}
			}
			return out
		}
	case k < 41: // proof earlier in the same block
		s.name = "vest-proven-earlier-same-block"
		a := vh.NewAcct(r)
		s.steps[1] = func() []*txDesc {
			route, d := pickRoute(r, 20)
			return []*txDesc{w.validProof(r, s.name, a), w.vestTx(r, s.name, "proven-earlier-same-block", a.Addr, route, d)}
		}
	case k < 45: // proof and creation in the same transaction
		s.name = "vest-same-tx-as-proof"
		a := vh.NewAcct(r)
		s.steps[1] = func() []*txDesc {
			x := w.take(r)
			kind := vh.Pick(r, vestKinds)
			vm, amt := w.vestMsg(r, x, a.Addr, kind)
			sig := makeSig(r, a.Key, "valid")
			pm := &vauthtypes.MsgSubmitProofExternalOwnedAccount{Submitter: x.Bech32(), Account: bech(a.Addr), Signature: sig}
			msgs := []sdk.Msg{pm, vm}
			if r.Bool() {
				msgs = []sdk.Msg{vm, pm}
			}
			w.track[a.Addr] = true
			fee := w.stdFee()
			return []*txDesc{{Scn: s.name, Class: "vest:multi:proof+vest:same-tx", Route: "multi:proof,vest", Bz: w.encode(x, msgs, fee), Signer: x.Addr, Fee: fee,
				Proofs: []proofItem{{Submitter: x.Addr, Account: a.Addr, Sig: sig, Kind: "valid", Rec: recoverSigner(sig, fixedMessage)}},
				Vests:  []vestItem{{From: x.Addr, To: a.Addr, Kind: kind, Target: "proven-in-same-tx"}},
				Flows:  []flow{{From: x.Addr, To: a.Addr, Amt: amt}}}}
		}
	case k < 53: // targets that can never be proven, and existing accounts
		s.name = "vest-special-target"
		kind := vh.Pick(r, []string{"module", "module", "contract", "existing", "existing-proven"})
		var to common.Address
		var holder *vh.Acct
		switch kind {
		case "module":
			to = vh.Pick(r, w.modules)
		case "contract":
			to = w.contract
		default:
			holder = w.actors[r.Intn(numActors)]
			to = holder.Addr
		}
		if kind == "existing-proven" {
			s.steps[0] = func() []*txDesc {
				if w.hasProof(holder.Addr) {
					return nil
				}
				return []*txDesc{w.validProof(r, s.name, holder)}
			}
		}
		s.steps[1] = func() []*txDesc {
			route, d := pickRoute(r, 30)
			return []*txDesc{w.vestTx(r, s.name, kind, to, route, d)}
		}
	case k < 75: // signature classes
		s.name = "proof-signature"
		a := vh.NewAcct(r)
		kind := vh.Pick(r, sigKinds)
		var sig string
		s.steps[1] = func() []*txDesc {
			x := w.take(r)
			route, d, signer, sub := "top", 0, x, x
			switch r.Intn(8) {
			case 0:
				route, d = "self-exec", 1+r.Intn(3)
			case 1:
				w.used[w.idx(x)] = false
				sub, signer = w.takePair(r)
				route, d = "granted-exec", 1+r.Intn(3)
			}
			switch kind {
			case "submitter-key": // the submitter signs the fixed message with its own key for someone else's address
				sig = makeSig(r, sub.Key, "valid")
			case "signer-key":
				sig = makeSig(r, signer.Key, "valid")
			default:
				sig = makeSig(r, a.Key, kind)
			}
			return []*txDesc{w.proofTx(s.name, "proof:"+kind+":"+route, signer, sub, []proofItem{{Account: a.Addr, Sig: sig, Kind: kind}}, route, d, nil, r.Chance(1, 10))}
		}
		s.steps[2] = func() []*txDesc { // whatever happened: a repeat (same string), a valid one, or the malleated twin
			x := w.take(r)
			k2 := vh.Pick(r, []string{"same", "valid", "malleated"})
			sg := sig
			if k2 != "same" {
				sg = makeSig(r, a.Key, k2)
			}
			return []*txDesc{w.proofTx(s.name, "proof:followup-"+k2, x, x, []proofItem{{Account: a.Addr, Sig: sg, Kind: "followup-" + k2}}, "top", 0, nil, r.Chance(1, 3))}
		}
	case k < 87: // submitter balance around fixed fee + tx fee
		s.name = "proof-balance-edge"
		a := vh.NewAcct(r)
		x := vh.NewAcct(r)
		edge := vh.Pick(r, []string{"exact", "exact", "minus-1", "minus-1", "plus-1", "above", "below-fixed-fee", "only-tx-fee", "below-tx-fee"})
		var fee *big.Int
		s.steps[0] = func() []*txDesc {
			fee = w.stdFee()
			need := new(big.Int).Add(fixedFee, fee)
			var amt *big.Int
			switch edge {
			case "exact":
				amt = need
			case "minus-1":
				amt = new(big.Int).Sub(need, big.NewInt(1))
			case "plus-1":
				amt = new(big.Int).Add(need, big.NewInt(1))
			case "above":
				amt = new(big.Int).Add(need, big.NewInt(int64(2+r.Intn(1_000_000_000))))
			case "below-fixed-fee":
				amt = new(big.Int).Add(fee, new(big.Int).Rsh(fixedFee, uint(1+r.Intn(8))))
			case "only-tx-fee":
				amt = new(big.Int).Set(fee)
			default:
				amt = new(big.Int).Sub(fee, big.NewInt(int64(1+r.Intn(1000))))
			}
			f := w.take(r)
			fd := w.stdFee()
			return []*txDesc{{Scn: s.name, Class: "setup:fund-submitter", Route: "top", Bz: w.encode(f, []sdk.Msg{banktypes.NewMsgSend(f.Acc(), x.Acc(), coins(amt))}, fd),
				Signer: f.Addr, Fee: fd, Flows: []flow{{From: f.Addr, To: x.Addr, Amt: amt}}}}
		}
		s.steps[1] = func() []*txDesc {
			kind := "valid"
			if r.Chance(1, 6) {
				kind = "malleated"
			}
			return []*txDesc{w.proofTx(s.name, "proof:balance-"+edge, x, x, []proofItem{{Account: a.Addr, Sig: makeSig(r, a.Key, kind), Kind: kind}}, "top", 0, fee, false)}
		}
	case k < 93: // two submissions for one address in one block / one transaction
		s.name = "proof-double"
		a := vh.NewAcct(r)
		b := vh.NewAcct(r)
		v := r.Intn(4)
		s.steps[1] = func() []*txDesc {
			switch v {
			case 0, 1: // two transactions, same block
				x1, x2 := w.take(r), w.take(r)
				k2 := vh.Pick(r, []string{"valid", "malleated"})
				return []*txDesc{
					w.proofTx(s.name, "proof:two-in-block:first", x1, x1, []proofItem{{Account: a.Addr, Sig: makeSig(r, a.Key, "valid"), Kind: "valid"}}, "top", 0, nil, false),
					w.proofTx(s.name, "proof:two-in-block:second-"+k2, x2, x2, []proofItem{{Account: a.Addr, Sig: makeSig(r, a.Key, k2), Kind: k2}}, "top", 0, nil, false)}
			case 2: // one transaction, same address twice
				x := w.take(r)
				return []*txDesc{w.proofTx(s.name, "proof:same-address-twice-in-tx", x, x, []proofItem{
					{Account: a.Addr, Sig: makeSig(r, a.Key, "valid"), Kind: "valid"}, {Account: a.Addr, Sig: makeSig(r, a.Key, "malleated"), Kind: "malleated"}}, "top", 0, nil, false)}
			default: // one transaction, two different addresses
				x := w.take(r)
				return []*txDesc{w.proofTx(s.name, "proof:two-addresses-in-tx", x, x, []proofItem{
					{Account: a.Addr, Sig: makeSig(r, a.Key, "valid"), Kind: "valid"}, {Account: b.Addr, Sig: makeSig(r, b.Key, "valid"), Kind: "valid"}}, "top", 0, nil, false)}
			}
		}
		s.steps[2] = func() []*txDesc { // third attempt in a later block
			x := w.take(r)
			return []*txDesc{w.proofTx(s.name, "proof:repeat-later-block", x, x, []proofItem{{Account: a.Addr, Sig: makeSig(r, a.Key, vh.Pick(r, []string{"valid", "malleated"})), Kind: "repeat"}}, "top", 0, nil, r.Chance(1, 2))}
		}
	default: // submitter = account
		s.name = "proof-self"
		xi := r.Intn(numActors)
		x := w.actors[xi]
		s.steps[1] = func() []*txDesc {
			if w.used[xi] {
				return nil
			}
			w.used[xi] = true
			kind := vh.Pick(r, []string{"valid", "valid", "other-key"})
			return []*txDesc{w.proofTx(s.name, "proof:submitter-is-account:"+kind, x, x, []proofItem{{Account: x.Addr, Sig: makeSig(r, x.Key, kind), Kind: kind}}, "top", 0, nil, false)}
		}
	}
	return s
}

func (w *world) idx(a *vh.Acct) int {
	for i, x := range w.actors {
		if x == a {
			return i
		}
	}
	return -1
}

func (w *world) hasProof(a common.Address) bool {
	return w.c.App.VAuthKeeper.HasProofExternalOwnedAccount(w.c.QueryCtx(), a.Bytes())
}
