package c17

import (
	"fmt"
	"runtime"
	"runtime/debug"
	"sort"
	"strings"
	"sync"

	sdkmath "cosmossdk.io/math"
	abci "github.com/cometbft/cometbft/abci/types"
	sdk "github.com/cosmos/cosmos-sdk/types"
	banktypes "github.com/cosmos/cosmos-sdk/x/bank/types"
	govv1 "github.com/cosmos/cosmos-sdk/x/gov/types/v1"
	"github.com/ethereum/go-ethereum/common"

	chainapp "github.com/EscanBE/evermint/v12/app"
	"github.com/EscanBE/evermint/v12/app/params"
	cpctypes "github.com/EscanBE/evermint/v12/x/cpc/types"

	"verifharness/vh"
)

// recorder buffers the order-sensitive outputs of one world so that parallel worlds produce
// the same evidence / replay numbering on every run.
type recorder struct {
	viol []struct {
		sig, label string
		detail     any
	}
	samples []any
}

func (r *recorder) violation(sig, label string, detail any) {
	r.viol = append(r.viol, struct {
		sig, label string
		detail     any
	}{sig, label, detail})
}

type proposal struct {
	ID     uint64
	Msgs   []passedMsg
	Desc   string
	Class  string
	Height int64
}

// passedMsg is one message of a governance proposal in execution order.
type passedMsg struct {
	Params     *wantParams
	DeployAuth string
}

type op struct {
	Kind        string // deploy-erc20 | deploy-staking | multi-deploy | user-update-params | gov-submit | gov-vote | probe
	Signer      *vh.Acct
	SignerClass string // whitelisted | formerly-whitelisted | foreign | impersonator | proposer | validator | prober
	ArgClass    string
	Desc        string
	Bytes       []byte
	probe       *probeCall
	created     common.Address // probe-create: address of the contract the creation deploys
}

type world struct {
	bigDenoms []string // extra bank denominations of a "large registry" world
	run   *vh.Run
	rec   *recorder
	label string
	wi    int
	r     *vh.RNG
	c     *vh.Chain
	flags int // bit0 Erc20Native, bit1 StakingCPC

	users    []*vh.Acct
	prober   *vh.Acct
	proposer *vh.Acct
	byBech   map[string]*vh.Acct

	realDenoms []string
	zeroDenom  string

	prev      *scan
	everWL    map[string]bool
	proposals map[uint64]*proposal
	inflight  *proposal
	seqs      *vh.Seqs
	txCount   int
	step      int
	genesisWL []string
	nameSeq   int
	reported  map[string]int
}

const (
	govVoting = int32(govv1.StatusVotingPeriod)
	govPassed = int32(govv1.StatusPassed)
)

// Run drives the whole C17 workload.
func Run(run *vh.Run) {
	nWorlds := run.N(8, 260)
	txPer := 77
	workers := runtime.NumCPU()
	if workers > 8 {
		workers = 8
	}
	if workers < 1 {
		workers = 1
	}
	recs := make([]*recorder, nWorlds)
	var wg sync.WaitGroup
	sem := make(chan struct{}, workers)
	for wi := 0; wi < nWorlds; wi++ {
		label := fmt.Sprintf("world-%d", wi)
		if !run.WantCase(label) {
			continue
		}
		recs[wi] = &recorder{}
		wg.Add(1)
		sem <- struct{}{}
		go func(wi int, label string) {
			defer wg.Done()
			defer func() { <-sem }()
			defer func() {
				if p := recover(); p != nil {
					recs[wi].violation("panic-while-driving-world", label, map[string]any{"panic": fmt.Sprint(p), "stack": clip(string(debug.Stack()), 6000)})
				}
			}()
			w := newWorld(run, recs[wi], label, wi)
			defer w.c.Cleanup()
			w.play(txPer)
		}(wi, label)
	}
	wg.Wait()
	for _, rc := range recs {
		if rc == nil {
			continue
		}
		for _, s := range rc.samples {
			run.Sample(s)
		}
		for _, v := range rc.viol {
			run.Violation(v.sig, v.label, v.detail)
		}
	}

	run.Rule = "Worlds = real chains over all four (Erc20Native, StakingCPC) genesis flag combinations with a generated genesis whitelist (0-3 of 6 user accounts) and 4 extra bank denominations. " +
		"Each world plays ~77 Cosmos transactions in multi-tx blocks: MsgDeployErc20ContractRequest / MsgDeployStakingContractRequest by whitelisted, formerly-whitelisted and never-whitelisted signers and by impersonators (authority = whitelisted address, signature of another key), " +
		"single-field perturbed names / symbols / decimals / denominations (fresh, duplicate, native, non-existent, zero-supply with bank metadata, empty, over-long, padded, upper-case), multi-message and same-block double deployments, user-signed MsgUpdateParams, " +
		"and governance rounds (MsgSubmitProposal + validator votes, 2 s voting period) carrying MsgUpdateParams (whitelist add / remove / replace / clear / gov account / invalid lists; protocol version 0, 1, 2) or deploy messages with the gov account as authority. " +
		"After every transaction and after Begin/EndBlock the observer decodes the raw cpc store (params, metadata, denom index), bank supply and gov proposal statuses; state invariants are asserted on every scan and history invariants between consecutive scans. " +
		"Exposure probes call name()/symbol()/decimals()/bech32AccountAddrPrefix() on every registered address, the fixed and dynamic (module nonce) addresses that are not registered, +-1 neighbours, every account seen, random addresses and code-less controls, in simulate, check, query (EthCall) and deliver mode; answers are compared with ABI encodings of the stored metadata. " +
		"Non-trivial = distinct (operation kind x signer class x argument class x outcome x flag combination) and distinct (probe mode x target class x selector)."
	run.Assumptions = append(run.Assumptions,
		"x/bank total supply and x/gov proposal status are trusted as read through the observer",
		"check mode executes the ante chain only (cosmos-sdk skips message handlers in CheckTx): the check-mode oracle is acceptance of calls to registered contracts",
		"the disabled flag is exercised the only way the code offers: keeper.SetCustomPrecompiledContractMeta(meta{Disabled:true}, false) as an upgrade handler would call it, on a branch of committed state (query mode) and, as the last act of a world, on the root store between two blocks (all modes)",
		"only one protocol version (1) passes Params.Validate in this tree, so governance moves to 0 / 2 are all rejected; the no-downgrade rule itself is exercised once per world on a branch whose stored version was raised to 2 by the harness (injected state)",
		"at most one governance proposal is in flight per world, so the whitelist in force when a proposal message runs is unambiguous")

	q := func(quick, thorough int64) int64 {
		if run.Thorough() {
			return thorough
		}
		return quick
	}
	run.Floor("message transactions executed", run.Get("tx_total"), int64(run.N(300, 10000)))
	run.Floor("records created by whitelisted signers (dynamic deployments)", run.Get("records_created_by_tx"), int64(run.N(12, 400)))
	run.Floor("deploy attempts by never-whitelisted signers", run.Get("deploy_attempts_foreign"), int64(run.N(25, 800)))
	run.Floor("deploy attempts by formerly-whitelisted signers", run.Get("deploy_attempts_formerly-whitelisted"), int64(run.N(6, 200)))
	run.Floor("governance params updates that passed", run.Get("gov_passed_params"), int64(run.N(6, 200)))
	run.Floor("duplicate-denomination rejections", run.Get("outcome_duplicate-denom"), int64(run.N(6, 200)))
	run.Floor("zero-supply rejections", run.Get("outcome_zero-supply"), int64(run.N(5, 200)))
	run.Floor("probe calls to registered contracts (all modes)", run.Get("probe_obs_registered"), int64(run.N(400, 13000)))
	run.Floor("probe calls to unregistered addresses (all modes)", run.Get("probe_obs_unregistered"), int64(run.N(800, 26000)))
	run.Floor("disabled-contract probes", run.Get("disabled_probe_obs"), int64(run.N(20, 650)))
	run.Floor("genesis flag combinations", int64(run.DistinctN("flags")), q(4, 4))
	_ = q
}

func newWorld(run *vh.Run, rec *recorder, label string, wi int) *world {
	r := run.RNG("world", wi)
	w := &world{run: run, rec: rec, label: label, wi: wi, r: r, flags: wi % 4, byBech: map[string]*vh.Acct{},
		everWL: map[string]bool{}, proposals: map[uint64]*proposal{}}
	for i := 0; i < 6; i++ {
		w.users = append(w.users, vh.NewAcct(r))
	}
	w.prober, w.proposer = vh.NewAcct(r), vh.NewAcct(r)
	w.realDenoms = []string{vh.SecondDenom, "ibc/" + strings.ToUpper(fmt.Sprintf("%x", r.Bytes(32))), fmt.Sprintf("gamm/pool/%d", 1+r.Intn(900)), "x" + randLower(r, 3+r.Intn(8))}
	w.zeroDenom = "uzero" + randLower(r, 3)
	// one world in sixteen grows a registry of more than 100 contracts (the default page size of the SDK's paginated
	// store walks): every registered contract must stay callable however many there are
	if wi%16 == 2 {
		for i := 0; i < 108; i++ {
			w.bigDenoms = append(w.bigDenoms, fmt.Sprintf("big%03d%s", i, randLower(r, 2)))
		}
	}
	var accs []vh.GenAccount
	for i, u := range w.users {
		coins := vh.NativeCoins(1000)
		for j, d := range w.realDenoms {
			if (i+j)%3 == 0 {
				coins = coins.Add(sdk.NewCoin(d, sdkmath.NewInt(int64(1000+r.Intn(1_000_000)))))
			}
		}
		if i == 0 {
			for _, d := range w.bigDenoms {
				coins = coins.Add(sdk.NewCoin(d, sdkmath.NewInt(int64(1+r.Intn(1000)))))
			}
		}
		accs = append(accs, vh.GenAccount{Addr: u.Addr, Coins: coins})
		w.byBech[u.Bech32()] = u
	}
	accs = append(accs, vh.GenAccount{Addr: w.prober.Addr, Coins: vh.NativeCoins(1000)}, vh.GenAccount{Addr: w.proposer.Addr, Coins: vh.NativeCoins(1000)})
	// genesis whitelist: 0..3 users (0 in one world out of 8)
	nWL := 1 + r.Intn(3)
	if wi%8 == 5 {
		nWL = 0
	}
	perm := []int{0, 1, 2, 3, 4, 5}
	vh.Shuffle(r, perm)
	for _, i := range perm[:nWL] {
		w.genesisWL = append(w.genesisWL, w.users[i].Bech32())
	}
	if wi%8 == 6 { // gov account whitelisted from genesis
		w.genesisWL = append(w.genesisWL, vh.GovAddr.String())
	}
	cfg := vh.Config{Seed: r.U64(), NumVals: 1 + wi%2, Erc20Native: w.flags&1 != 0, StakingCPC: w.flags&2 != 0,
		CpcWhitelist: w.genesisWL, Accounts: accs,
		MutateGenesis: func(enc params.EncodingConfig, gs chainapp.GenesisState) {
			vh.FastGov(enc, gs)
			// a denomination that is known to x/bank (metadata) but has zero supply
			var bg banktypes.GenesisState
			enc.Codec.MustUnmarshalJSON(gs[banktypes.ModuleName], &bg)
			bg.DenomMetadata = append(bg.DenomMetadata, banktypes.Metadata{Description: "zero supply", Base: w.zeroDenom, Display: w.zeroDenom,
				Name: w.zeroDenom, Symbol: strings.ToUpper(w.zeroDenom), DenomUnits: []*banktypes.DenomUnit{{Denom: w.zeroDenom, Exponent: 0}}})
			gs[banktypes.ModuleName] = enc.Codec.MustMarshalJSON(&bg)
		}}
	w.c = vh.NewChain(cfg)
	w.seqs = w.c.NewSeqs()
	run.Distinct("flags", fmt.Sprintf("erc20native=%v,staking=%v", cfg.Erc20Native, cfg.StakingCPC))
	return w
}

func randLower(r *vh.RNG, n int) string {
	b := make([]byte, n)
	for i := range b {
		b[i] = byte('a' + r.Intn(26))
	}
	return string(b)
}

func (w *world) cfgInfo() map[string]any {
	return map[string]any{"world": w.label, "erc20_native": w.flags&1 != 0, "staking_cpc": w.flags&2 != 0, "genesis_whitelist": w.genesisWL,
		"validators": len(w.c.Vals), "extra_denoms": w.realDenoms, "zero_supply_denom": w.zeroDenom}
}

func (w *world) violation(sig string, detail map[string]any) {
	if detail == nil {
		detail = map[string]any{}
	}
	// one witness per (signature, mode) and world; repetitions are counted
	key := fmt.Sprintf("%s|%v", sig, detail["mode"])
	if w.reported == nil {
		w.reported = map[string]int{}
	}
	w.reported[key]++
	w.run.Count("violating_observations", 1)
	if w.reported[key] > 1 {
		return
	}
	detail["config"] = w.cfgInfo()
	detail["height"] = w.c.Height
	w.rec.violation(sig, w.label, detail)
}

// play runs the world: genesis check, message blocks with probe rounds, disabled phase.
func (w *world) play(txTarget int) {
	// genesis scan: the registry must be exactly what the genesis flags ask for
	g := scanAt(w.c, w.c.QueryCtx())
	w.prev = g
	w.noteWhitelist(g)
	w.checkGenesis(g)
	for _, f := range checkState(g) {
		f.Detail["at"] = "genesis"
		f.Detail["registry"] = g.summary()
		w.violation(f.Sig, f.Detail)
	}
	w.run.Count("scans", 1)
	w.probeRound("genesis", nil)
	if len(w.bigDenoms) > 0 && len(w.genesisWL) > 0 {
		if dep := w.byBech[w.genesisWL[0]]; dep != nil {
			for i := 0; i < len(w.bigDenoms); i += 6 {
				var ops []*op
				for j := i; j < i+6 && j < len(w.bigDenoms); j++ {
					m := &cpctypes.MsgDeployErc20ContractRequest{Authority: dep.Bech32(), Name: w.freshName(), Symbol: strings.ToUpper(randLower(w.r, 3)), Decimals: 6, MinDenom: w.bigDenoms[j]}
					ops = append(ops, w.cosmosOp("deploy-erc20", dep, w.signerClass(dep), "denom:fresh+bulk", true, m))
				}
				w.runBlock(ops)
				w.step++
			}
			w.run.Max("largest_registry", int64(len(w.prev.Records)))
			w.probeRound("after-bulk-registration", nil)
		}
	}
	nextProbe := w.txCount + 12 + w.r.Intn(10)
	for w.txCount < txTarget {
		before := len(w.prev.Records)
		ops := w.genBlock()
		w.runBlock(ops)
		w.step++
		if len(w.prev.Records) != before || w.txCount >= nextProbe {
			why := "periodic"
			if len(w.prev.Records) != before {
				why = "after-registration"
			}
			w.probeRound(why, nil)
			nextProbe = w.txCount + 12 + w.r.Intn(10)
		}
	}
	// let an in-flight proposal finish, then a last probe round
	for i := 0; i < 2 && w.inflight != nil; i++ {
		w.runBlock(nil)
	}
	w.probeRound("final", nil)
	w.downgradeProbe()
	w.disabledPhase()
}

func (w *world) noteWhitelist(s *scan) {
	for _, b := range s.Whitelist {
		w.everWL[b] = true
	}
}

func (w *world) checkGenesis(g *scan) {
	want := map[common.Address]uint32{cpctypes.CpcBech32FixedAddress: typBech32}
	if w.flags&2 != 0 {
		want[cpctypes.CpcStakingFixedAddress] = typStaking
	}
	if w.flags&1 != 0 {
		want[nativeErc20Addr()] = typErc20
	}
	ok := len(g.Records) == len(want)
	for a, t := range want {
		if r := g.Records[a]; r == nil || r.Type != t {
			ok = false
		}
	}
	if w.flags&1 != 0 {
		if r := g.Records[nativeErc20Addr()]; r != nil && r.Denom != vh.Denom {
			ok = false
		}
	}
	if !ok {
		w.violation("genesis-registry-differs-from-genesis-flags", map[string]any{"registry": g.summary()})
	}
	if !sameStrings(g.Whitelist, w.genesisWL) && !(len(g.Whitelist) == 0 && len(w.genesisWL) == 0) {
		w.violation("genesis-whitelist-differs-from-genesis-params", map[string]any{"registry": g.summary()})
	}
	w.run.Count("genesis_records", len(g.Records))
}

// runBlock executes ops as one observed block and feeds every boundary to the oracles.
func (w *world) runBlock(ops []*op) *vh.ObservedBlock {
	txs := make([][]byte, len(ops))
	for i, o := range ops {
		txs[i] = o.Bytes
	}
	view := func(ctx sdk.Context) any { return scanAt(w.c, ctx) }
	ob := w.c.RunObserved(txs, nil, view, true)
	w.seqs.Reset()
	if ob.Err != nil {
		w.violation("finalize-block-error", map[string]any{"err": ob.Err.Error()})
		return ob
	}
	cur := w.prev
	first := true
	stateSeen := map[*scan]bool{}
	checkS := func(s *scan, at string) {
		if s == nil || stateSeen[s] {
			return
		}
		stateSeen[s] = true
		w.run.Count("scans", 1)
		for _, f := range checkState(s) {
			f.Detail["at"] = at
			f.Detail["registry"] = s.summary()
			w.violation(f.Sig, f.Detail)
		}
	}
	var lastDump vh.Dump
	for i, o := range ops {
		res := ob.Res.TxResults[i]
		pre, _ := ob.Pre[i].View.(*scan)
		post, _ := ob.Post[i].View.(*scan)
		outcome := classify(res, ob.Reached[i])
		if o.Kind != "probe" && strings.HasSuffix(outcome, "other") {
			w.run.Distinct("unclassified_log", clip(res.Log, 160))
		}
		w.account(o, outcome)
		if !ob.Reached[i] || pre == nil || post == nil {
			continue
		}
		if first { // state left by BeginBlock
			first = false
			w.transition(cur, pre, transition{Kind: "begin-block"}, nil, nil, nil)
			checkS(pre, "after-begin-block")
		}
		if ob.PostIsEndBlock[i] {
			w.run.Count("tx_boundary_merged_with_endblock", 1)
			continue
		}
		t := transition{Kind: "tx", SignerBech: o.Signer.Bech32(), TxOK: res.Code == 0}
		w.transition(pre, post, t, o, res, vh.Diff(ob.Pre[i].Dump, ob.Post[i].Dump))
		checkS(post, "after-tx")
		w.run.Eval(1)
		if n := len(post.Records) - len(pre.Records); n > 0 {
			w.run.Count("records_created_by_tx", n)
			if len(w.rec.samples) < 2 {
				w.rec.samples = append(w.rec.samples, map[string]any{"world": w.label, "op": o.Kind, "signer_class": o.SignerClass, "args": o.ArgClass, "msg": o.Desc, "registry_after": post.summary()})
			}
		}
		cur = post
		lastDump = ob.Post[i].Dump
	}
	fin, _ := ob.Final.View.(*scan)
	if fin != nil {
		t := transition{Kind: "end-block"}
		ids := make([]uint64, 0)
		for id, st := range fin.Proposals {
			if st == govPassed && cur.Proposals[id] == govVoting {
				ids = append(ids, id)
			}
		}
		sort.Slice(ids, func(i, j int) bool { return ids[i] < ids[j] })
		for _, id := range ids {
			if p := w.proposals[id]; p != nil {
				t.Passed = append(t.Passed, p.Msgs...)
				w.run.Count("gov_passed_"+p.Class, 1)
			}
		}
		var diff []vh.Change
		if lastDump != nil {
			diff = vh.Diff(lastDump, ob.Final.Dump)
		}
		w.transition(cur, fin, t, nil, nil, diff)
		checkS(fin, "after-end-block")
		if n := len(fin.Records) - len(cur.Records); n > 0 {
			w.run.Count("records_created_by_governance", n)
		}
		w.prev = fin
		w.noteWhitelist(fin)
		if w.inflight != nil {
			st, ok := fin.Proposals[w.inflight.ID]
			switch {
			case ok && st == govVoting:
			case ok && st == govPassed:
				w.inflight = nil
			case ok:
				w.run.Count("gov_not_passed_"+w.inflight.Class, 1)
				w.inflight = nil
			default:
				w.run.Count("gov_submit_rejected_"+w.inflight.Class, 1)
				w.inflight = nil
			}
		}
	}
	return ob
}

func (w *world) transition(pre, post *scan, t transition, o *op, res *abci.ExecTxResult, diff []vh.Change) {
	if pre == nil || post == nil {
		return
	}
	w.run.Count("transitions_checked_"+t.Kind, 1)
	for _, f := range checkTransition(pre, post, t) {
		f.Detail["registry_before"] = pre.summary()
		f.Detail["registry_after"] = post.summary()
		if o != nil {
			f.Detail["op"] = map[string]any{"kind": o.Kind, "signer_class": o.SignerClass, "signer": o.Signer.Bech32(), "args": o.ArgClass, "msg": o.Desc}
		}
		if res != nil {
			f.Detail["tx_code"], f.Detail["tx_log"], f.Detail["gas_used"] = res.Code, clip(res.Log, 600), res.GasUsed
		}
		if diff != nil {
			var cs []string
			for _, ch := range diff {
				if ch.Store == cpctypes.StoreKey || ch.Store == "acc" {
					cs = append(cs, ch.String())
				}
			}
			f.Detail["write_set_cpc_acc"] = cs
			f.Detail["write_set_size"] = len(diff)
		}
		w.violation(f.Sig, f.Detail)
	}
}

func classify(res *abci.ExecTxResult, reached bool) string {
	if !reached {
		return "not-admitted:" + logClass(res.Log)
	}
	if res.Code == 0 {
		return "ok"
	}
	return logClass(res.Log)
}

func logClass(l string) string {
	switch {
	case strings.Contains(l, "must be whitelisted"):
		return "not-whitelisted"
	case strings.Contains(l, "existing contract for"):
		return "duplicate-denom"
	case strings.Contains(l, "zero supply"):
		return "zero-supply"
	case strings.Contains(l, "contract address is being in use"):
		return "address-in-use"
	case strings.Contains(l, "invalid authority"):
		return "invalid-authority"
	case strings.Contains(l, "pubKey does not match") || strings.Contains(l, "signature verification failed"):
		return "bad-signer"
	case strings.Contains(l, "account sequence mismatch"):
		return "sequence-mismatch"
	case strings.Contains(l, "bank denom metadata"):
		return "bad-denom-metadata"
	case strings.Contains(l, "decimals"):
		return "bad-decimals"
	case strings.Contains(l, "white spaces"):
		return "padded-field"
	case strings.Contains(l, "cannot be empty"):
		return "empty-field"
	case strings.Contains(l, "cannot be the same"):
		return "symbol-equals-denom"
	case strings.Contains(l, "inactive proposal") || strings.Contains(l, "proposal"):
		return "gov-rejected"
	case strings.Contains(l, "insufficient funds"):
		return "fee-payer-cannot-pay"
	case strings.Contains(l, "out of gas"):
		return "out-of-gas"
	}
	return "other"
}

func (w *world) account(o *op, outcome string) {
	if o.Kind == "probe" {
		return
	}
	w.txCount++
	w.run.Count("tx_total", 1)
	w.run.Count("tx_"+o.Kind, 1)
	w.run.Count("outcome_"+outcome, 1)
	if strings.HasPrefix(o.Kind, "deploy") || o.Kind == "multi-deploy" {
		w.run.Count("deploy_attempts_"+o.SignerClass, 1)
		if outcome == "ok" {
			w.run.Count("deploy_ok_"+o.SignerClass, 1)
		}
	}
	w.run.Distinct("outcome", outcome)
	w.run.Distinct("signer_class", o.SignerClass)
	w.run.Nontrivial(fmt.Sprintf("%s|%s|%s|%s|f%d", o.Kind, o.SignerClass, o.ArgClass, outcome, w.flags))
}
