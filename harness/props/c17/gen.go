package c17

import (
	"encoding/json"
	"fmt"
	"strings"

	sdk "github.com/cosmos/cosmos-sdk/types"

	cpctypes "github.com/EscanBE/evermint/v12/x/cpc/types"

	"verifharness/vh"
)

const msgGas = 1_500_000

func msgDesc(msgs ...sdk.Msg) string {
	var parts []string
	for _, m := range msgs {
		b, _ := json.Marshal(m)
		parts = append(parts, fmt.Sprintf("%T%s", m, clip(string(b), 500)))
	}
	return strings.Join(parts, " ; ")
}

// signerClass of a user relative to the whitelist currently in force (last scan).
func (w *world) signerClass(a *vh.Acct) string {
	b := a.Bech32()
	switch {
	case w.prev.whitelisted(b):
		return "whitelisted"
	case w.everWL[b]:
		return "formerly-whitelisted"
	}
	return "foreign"
}

// pickUser draws a user of the wanted class that has not sent a transaction in this block yet.
func (w *world) pickUser(class string) *vh.Acct {
	var pool, rest []*vh.Acct
	for _, u := range w.users {
		if w.seqs.Used(u.Addr) {
			continue
		}
		if w.signerClass(u) == class {
			pool = append(pool, u)
		} else {
			rest = append(rest, u)
		}
	}
	if len(pool) > 0 {
		return vh.Pick(w.r, pool)
	}
	if len(rest) > 0 {
		return vh.Pick(w.r, rest)
	}
	return nil
}

func (w *world) wantedClass() string {
	switch k := w.r.Intn(10); {
	case k < 5:
		return "whitelisted"
	case k < 7:
		return "formerly-whitelisted"
	}
	return "foreign"
}

func (w *world) freshName() string {
	w.nameSeq++
	return fmt.Sprintf("%s%d", randLower(w.r, 3+w.r.Intn(10)), w.nameSeq)
}

// erc20Denoms currently registered (last scan).
func (w *world) registeredDenoms() []string {
	var out []string
	for _, a := range w.prev.sortedAddrs() {
		if r := w.prev.Records[a]; r.Type == typErc20 {
			out = append(out, r.Denom)
		}
	}
	return out
}

func (w *world) freshDenoms() []string {
	reg := map[string]bool{}
	for _, d := range w.registeredDenoms() {
		reg[d] = true
	}
	var out []string
	for _, d := range append([]string{vh.Denom}, w.realDenoms...) {
		if !reg[d] {
			out = append(out, d)
		}
	}
	return out
}

// genErc20 draws the arguments of one ERC-20 deployment: mostly valid with one perturbed field.
func (w *world) genErc20(authority string) (*cpctypes.MsgDeployErc20ContractRequest, string) {
	r := w.r
	m := &cpctypes.MsgDeployErc20ContractRequest{Authority: authority, Name: w.freshName(), Symbol: strings.ToUpper(randLower(r, 2+r.Intn(5))), Decimals: uint32(vh.Pick(r, []int{1, 6, 8, 18}))}
	var cls []string
	// denomination
	fresh, reg := w.freshDenoms(), w.registeredDenoms()
	dk := r.Intn(100)
	switch {
	case dk < 38 && len(fresh) > 0:
		m.MinDenom = vh.Pick(r, fresh)
		cls = append(cls, "denom:fresh")
	case dk < 56 && len(reg) > 0:
		m.MinDenom = vh.Pick(r, reg)
		cls = append(cls, "denom:duplicate")
	case dk < 66:
		m.MinDenom = "unotexist" + randLower(r, 4)
		cls = append(cls, "denom:non-existent")
	case dk < 76:
		m.MinDenom = w.zeroDenom
		cls = append(cls, "denom:zero-supply-with-metadata")
	case dk < 80:
		m.MinDenom = ""
		cls = append(cls, "denom:empty")
	case dk < 84:
		m.MinDenom = "h" + strings.Repeat("u", 130+r.Intn(400))
		cls = append(cls, "denom:over-long")
	case dk < 88:
		m.MinDenom = " " + vh.Pick(r, w.realDenoms)
		cls = append(cls, "denom:padded")
	case dk < 92:
		m.MinDenom = strings.ToUpper(vh.SecondDenom)
		cls = append(cls, "denom:upper-case-variant")
	default:
		if len(fresh) > 0 {
			m.MinDenom = vh.Pick(r, fresh)
			cls = append(cls, "denom:fresh")
		} else {
			m.MinDenom = vh.Pick(r, w.realDenoms)
			cls = append(cls, "denom:duplicate")
		}
	}
	if m.MinDenom == vh.Denom {
		cls[len(cls)-1] += "-native"
	}
	// one more perturbed field in 45% of the cases
	if r.Chance(45, 100) {
		switch r.Intn(16) {
		case 0:
			m.Name = ""
			cls = append(cls, "name:empty")
		case 1:
			m.Name = "n" + strings.Repeat("a", 2000+r.Intn(2000))
			cls = append(cls, "name:huge")
		case 2:
			m.Name = "my token"
			cls = append(cls, "name:inner-space")
		case 3:
			m.Name = " " + m.Name
			cls = append(cls, "name:padded")
		case 4:
			m.Name = m.MinDenom
			cls = append(cls, "name:equals-denom")
		case 5:
			m.Name = "tökén" + randLower(r, 3)
			cls = append(cls, "name:unicode")
		case 6:
			for _, a := range w.prev.sortedAddrs() {
				if rec := w.prev.Records[a]; rec.Type == typErc20 && !strings.Contains(rec.Name, " ") {
					m.Name = rec.Name
				}
			}
			cls = append(cls, "name:same-as-existing-record")
		case 7:
			m.Symbol = ""
			cls = append(cls, "symbol:empty")
		case 8:
			m.Symbol = strings.Repeat("S", 2000+r.Intn(2000))
			cls = append(cls, "symbol:huge")
		case 9:
			m.Symbol = m.MinDenom
			cls = append(cls, "symbol:equals-denom")
		case 10:
			m.Symbol = m.Symbol + " "
			cls = append(cls, "symbol:padded")
		case 11:
			m.Decimals = 0
			cls = append(cls, "decimals:0")
		case 12:
			m.Decimals = 19
			cls = append(cls, "decimals:19")
		case 13:
			m.Decimals = uint32(vh.Pick(r, []int{255, 256, 257, 274}))
			cls = append(cls, "decimals:uint8-wrap")
		case 14:
			m.Decimals = 4294967295
			cls = append(cls, "decimals:max-uint32")
		case 15:
			m.Symbol = "Ünï"
			cls = append(cls, "symbol:unicode")
		}
	}
	return m, strings.Join(cls, ",")
}

func (w *world) genStaking(authority string) (*cpctypes.MsgDeployStakingContractRequest, string) {
	r := w.r
	m := &cpctypes.MsgDeployStakingContractRequest{Authority: authority, Symbol: "STK" + strings.ToUpper(randLower(r, 3)), Decimals: uint32(vh.Pick(r, []int{1, 6, 18}))}
	cls := "staking:valid"
	switch r.Intn(10) {
	case 0:
		m.Symbol, cls = "", "staking:symbol-empty"
	case 1:
		m.Decimals, cls = 0, "staking:decimals-0"
	case 2:
		m.Decimals, cls = uint32(vh.Pick(r, []int{19, 256, 274})), "staking:decimals-out-of-range"
	case 3:
		m.Symbol, cls = strings.Repeat("K", 3000), "staking:symbol-huge"
	}
	if w.prev.Records[cpctypes.CpcStakingFixedAddress] != nil {
		cls += ",already-deployed"
	} else {
		cls += ",not-deployed"
	}
	return m, cls
}

func (w *world) cosmosOp(kind string, signer *vh.Acct, class, argClass string, consumeSeq bool, msgs ...sdk.Msg) *op {
	var seq uint64
	if consumeSeq {
		seq = w.seqs.Next(signer.Addr)
	} else {
		seq = w.seqs.Peek(signer.Addr)
	}
	bz := w.c.CosmosTx(signer, msgs, &vh.CosmosOpts{Gas: msgGas, Seq: &seq})
	return &op{Kind: kind, Signer: signer, SignerClass: class, ArgClass: argClass, Desc: msgDesc(msgs...), Bytes: bz}
}

// genUserOps produces one user action (one or two transactions).
func (w *world) genUserOps() []*op {
	r := w.r
	signer := w.pickUser(w.wantedClass())
	if signer == nil {
		return nil
	}
	class := w.signerClass(signer)
	switch k := r.Intn(100); {
	case k < 52: // ERC-20 deployment
		m, ac := w.genErc20(signer.Bech32())
		return []*op{w.cosmosOp("deploy-erc20", signer, class, ac, true, m)}
	case k < 66: // staking deployment
		m, ac := w.genStaking(signer.Bech32())
		return []*op{w.cosmosOp("deploy-staking", signer, class, ac, true, m)}
	case k < 74: // impersonation: authority is a whitelisted account, the signature is somebody else's
		var victim *vh.Acct
		for _, b := range w.prev.Whitelist {
			if a := w.byBech[b]; a != nil && a != signer {
				victim = a
			}
		}
		if victim == nil {
			m, ac := w.genErc20(signer.Bech32())
			return []*op{w.cosmosOp("deploy-erc20", signer, class, ac, true, m)}
		}
		m, ac := w.genErc20(victim.Bech32())
		o := w.cosmosOp("deploy-erc20", signer, "impersonator", ac+",authority:whitelisted-other", false, m)
		w.seqs.Next(signer.Addr) // keep the signer out of this block; its sequence is not consumed
		return []*op{o}
	case k < 82: // same signer, two deployments in one block (second one for the same denomination)
		m1, ac := w.genErc20(signer.Bech32())
		m2 := *m1
		m2.Name = w.freshName()
		if r.Bool() {
			m2.MinDenom = vh.Pick(r, w.realDenoms)
		}
		return []*op{w.cosmosOp("deploy-erc20", signer, class, ac, true, m1), w.cosmosOp("deploy-erc20", signer, class, ac+",second-in-block", true, &m2)}
	case k < 90: // multi-message transaction
		m1, ac1 := w.genErc20(signer.Bech32())
		var m2 sdk.Msg
		var ac2 string
		switch r.Intn(3) {
		case 0:
			mm := *m1
			mm.Name = w.freshName()
			m2, ac2 = &mm, "same-denom-twice"
		case 1:
			m2, ac2 = w.genStaking(signer.Bech32())
		default:
			m2, ac2 = w.genErc20(signer.Bech32())
		}
		return []*op{w.cosmosOp("multi-deploy", signer, class, ac1+"+"+ac2, true, m1, m2)}
	default: // user-signed params update
		np := cpctypes.Params{ProtocolVersion: 1, WhitelistedDeployers: []string{signer.Bech32()}}
		if r.Bool() { // authority = the user itself: refused by the message server
			return []*op{w.cosmosOp("user-update-params", signer, class, "authority:self", true, &cpctypes.MsgUpdateParams{Authority: signer.Bech32(), NewParams: np})}
		}
		// authority = gov account, signed by the user's key: refused by signature verification
		o := w.cosmosOp("user-update-params", signer, class, "authority:gov-signed-by-user", false, &cpctypes.MsgUpdateParams{Authority: vh.GovAddr.String(), NewParams: np})
		w.seqs.Next(signer.Addr)
		return []*op{o}
	}
}

// genGovRound produces the transactions of one governance proposal.
func (w *world) genGovRound() []*op {
	r := w.r
	cur := append([]string{}, w.prev.Whitelist...)
	has := func(b string) bool {
		for _, x := range cur {
			if x == b {
				return true
			}
		}
		return false
	}
	var nonMembers []string
	for _, u := range w.users {
		if !has(u.Bech32()) {
			nonMembers = append(nonMembers, u.Bech32())
		}
	}
	p := &proposal{}
	var msgs []sdk.Msg
	paramsMsg := func(version uint32, wl []string, class string) {
		msgs = append(msgs, &cpctypes.MsgUpdateParams{Authority: vh.GovAddr.String(), NewParams: cpctypes.Params{ProtocolVersion: version, WhitelistedDeployers: wl}})
		p.Msgs = append(p.Msgs, passedMsg{Params: &wantParams{Version: version, Whitelist: wl}})
		p.Class = "params"
		p.Desc = class
	}
	deployMsg := func() {
		if r.Chance(3, 4) {
			m, ac := w.genErc20(vh.GovAddr.String())
			msgs = append(msgs, m)
			p.Desc += "+deploy-erc20(" + ac + ")"
		} else {
			m, ac := w.genStaking(vh.GovAddr.String())
			msgs = append(msgs, m)
			p.Desc += "+deploy-staking(" + ac + ")"
		}
		p.Msgs = append(p.Msgs, passedMsg{DeployAuth: vh.GovAddr.String()})
	}
	switch k := r.Intn(100); {
	case k < 22 && len(cur) > 0: // remove one member
		i := r.Intn(len(cur))
		wl := append(append([]string{}, cur[:i]...), cur[i+1:]...)
		paramsMsg(1, wl, "whitelist:remove-one")
	case k < 40 && len(nonMembers) > 0:
		paramsMsg(1, append(cur, vh.Pick(r, nonMembers)), "whitelist:add-one")
	case k < 48:
		var wl []string
		for _, u := range w.users {
			if r.Chance(1, 3) {
				wl = append(wl, u.Bech32())
			}
		}
		paramsMsg(1, wl, "whitelist:replace")
	case k < 52:
		paramsMsg(1, nil, "whitelist:clear")
	case k < 56:
		paramsMsg(1, cur, "whitelist:same")
	case k < 62 && !has(vh.GovAddr.String()):
		paramsMsg(1, append(cur, vh.GovAddr.String()), "whitelist:add-gov-account")
	case k < 66 && len(cur) > 0:
		paramsMsg(1, append(cur, cur[0]), "whitelist:invalid-duplicate")
	case k < 69:
		paramsMsg(1, append(cur, strings.ToUpper(w.users[0].Bech32())), "whitelist:invalid-upper-case")
	case k < 72:
		paramsMsg(1, append(cur, "evm1notanaddress"), "whitelist:invalid-bech32")
	case k < 77:
		paramsMsg(0, cur, "version:down-to-0")
	case k < 82:
		paramsMsg(2, cur, "version:up-to-2")
	case k < 90: // deployment with the gov account as authority
		p.Class = "deploy"
		deployMsg()
		if has(vh.GovAddr.String()) {
			p.Desc = "gov-whitelisted" + p.Desc
		} else {
			p.Desc = "gov-not-whitelisted" + p.Desc
		}
	default: // one proposal: whitelist the gov account, then deploy with it
		if has(vh.GovAddr.String()) {
			paramsMsg(1, cur, "whitelist:same")
		} else {
			paramsMsg(1, append(cur, vh.GovAddr.String()), "whitelist:add-gov-account")
		}
		deployMsg()
		p.Class = "params+deploy"
	}
	txs, id, err := w.c.GovProposalTxs(w.proposer, msgs, w.seqs, p.Desc)
	if err != nil {
		return nil
	}
	p.ID, p.Height = id, w.c.Height+1
	w.proposals[id] = p
	w.inflight = p
	w.run.Count("gov_rounds_"+p.Class, 1)
	w.run.Distinct("gov_class", strings.SplitN(p.Desc, "+", 2)[0])
	ops := []*op{{Kind: "gov-submit", Signer: w.proposer, SignerClass: "proposer", ArgClass: p.Desc, Desc: msgDesc(msgs...), Bytes: txs[0]}}
	for i, tx := range txs[1:] {
		ops = append(ops, &op{Kind: "gov-vote", Signer: w.c.Vals[i].Acct, SignerClass: "validator", ArgClass: "yes", Desc: fmt.Sprintf("vote yes on %d", id), Bytes: tx})
	}
	return ops
}

// genBlock composes one block: possibly a governance round, plus 1-3 user actions interleaved.
func (w *world) genBlock() []*op {
	r := w.r
	var gov []*op
	if w.inflight == nil && r.Chance(2, 5) {
		gov = w.genGovRound()
	}
	var user []*op
	for n := r.Range(1, 3); n > 0; n-- {
		user = append(user, w.genUserOps()...)
	}
	// interleave, keeping the relative order inside each list
	var out []*op
	for len(gov) > 0 || len(user) > 0 {
		if len(user) == 0 || (len(gov) > 0 && r.Chance(len(gov), len(gov)+len(user))) {
			out, gov = append(out, gov[0]), gov[1:]
		} else {
			out, user = append(out, user[0]), user[1:]
		}
	}
	return out
}
