package c17

import (
	"bytes"
	"encoding/hex"
	"encoding/json"
	"fmt"
	"math/big"

	abci "github.com/cometbft/cometbft/abci/types"
	sdk "github.com/cosmos/cosmos-sdk/types"
	authtypes "github.com/cosmos/cosmos-sdk/x/auth/types"
	"github.com/ethereum/go-ethereum/accounts/abi"
	"github.com/ethereum/go-ethereum/common"
	"github.com/ethereum/go-ethereum/common/hexutil"
	"github.com/ethereum/go-ethereum/core/vm"
	"github.com/ethereum/go-ethereum/crypto"

	cpcabi "github.com/EscanBE/evermint/v12/x/cpc/abi"
	cpctypes "github.com/EscanBE/evermint/v12/x/cpc/types"
	evmtypes "github.com/EscanBE/evermint/v12/x/evm/types"

	"verifharness/vh"
)

// Selectors come from the repository's ABI files (interface description); the expected answers
// are encoded with go-ethereum's ABI encoder from the metadata found in the store.
var (
	selName     = cpcabi.Erc20CpcInfo.ABI.Methods["name"].ID
	selSymbol   = cpcabi.Erc20CpcInfo.ABI.Methods["symbol"].ID
	selDecimals = cpcabi.Erc20CpcInfo.ABI.Methods["decimals"].ID
	selPrefix   = cpcabi.Bech32CpcInfo.ABI.Methods["bech32AccountAddrPrefix"].ID
	tString, _  = abi.NewType("string", "", nil)
	tUint8, _   = abi.NewType("uint8", "", nil)
)

func encString(s string) []byte {
	b, err := abi.Arguments{{Type: tString}}.Pack(s)
	if err != nil {
		panic(err)
	}
	return b
}

func encUint8(v uint8) []byte {
	b, err := abi.Arguments{{Type: tUint8}}.Pack(v)
	if err != nil {
		panic(err)
	}
	return b
}

func nativeErc20Addr() common.Address { return crypto.CreateAddress(cpctypes.CpcModuleAddress, 0) }

type cand struct {
	Addr common.Address
	Why  string
}

// expectation for one call, derived from the registry scan alone.
type expectation struct {
	Target string // "registered:<type>" | "disabled:<type>" | "unregistered"
	Class  string // "data" | "revert-or-empty" | "empty" | "no-data"
	Data   []byte
}

func expect(s *scan, addr common.Address, sel string) expectation {
	r := s.Records[addr]
	if r == nil {
		return expectation{Target: "unregistered", Class: "empty"}
	}
	if r.Disabled {
		return expectation{Target: "disabled:" + typeName(r.Type), Class: "no-data"}
	}
	e := expectation{Target: "registered:" + typeName(r.Type), Class: "revert-or-empty"}
	switch r.Type {
	case typErc20, typStaking:
		switch sel {
		case "name":
			e.Class, e.Data = "data", encString(r.Name)
		case "symbol":
			e.Class, e.Data = "data", encString(r.Symbol)
		case "decimals":
			e.Class, e.Data = "data", encUint8(r.Decimals)
		}
	case typBech32:
		if sel == "prefix" {
			e.Class, e.Data = "data", encString(sdk.GetConfig().GetBech32AccountAddrPrefix())
		}
	}
	return e
}

type observation struct {
	Class string // "data" | "revert" | "empty" | "failed" | "accepted" | "rejected"
	Ret   string
	VmErr string
	Err   string
}

func observe(ret []byte, vmErr string, err error) observation {
	switch {
	case err != nil:
		return observation{Class: "failed", Err: clip(err.Error(), 300)}
	case vmErr != "":
		return observation{Class: "revert", VmErr: vmErr, Ret: hex.EncodeToString(ret)}
	case len(ret) > 0:
		return observation{Class: "data", Ret: hex.EncodeToString(ret)}
	}
	return observation{Class: "empty"}
}

type probeCall struct {
	C        cand
	Sel      string
	Data     []byte
	Exp      expectation
	Obs      map[string]observation
	ExpHist  *expectation // expectation at the historical height (registry scan of that height)
	HistScan *scan
}

func selData(sel string) []byte {
	switch sel {
	case "name":
		return selName
	case "symbol":
		return selSymbol
	case "decimals":
		return selDecimals
	}
	return selPrefix
}

func addrAdd(a common.Address, d int64) common.Address {
	v := new(big.Int).SetBytes(a.Bytes())
	v.Add(v, big.NewInt(d))
	v.Mod(v, new(big.Int).Lsh(big.NewInt(1), 160))
	return common.BigToAddress(v)
}

func isStdPrecompile(a common.Address) bool {
	v := new(big.Int).SetBytes(a.Bytes())
	return v.IsUint64() && v.Uint64() <= 9
}

// candidates of one probe round.
func (w *world) candidates(s *scan) (registered, others []cand) {
	r := w.r
	seen := map[common.Address]bool{}
	addTo := func(list *[]cand, a common.Address, why string) {
		if seen[a] || isStdPrecompile(a) {
			return
		}
		seen[a] = true
		*list = append(*list, cand{a, why})
	}
	for _, a := range s.sortedAddrs() {
		addTo(&registered, a, "registered")
	}
	// fixed and dynamic addresses that are NOT registered (flags off, failed or future deployments)
	var must []cand
	addTo(&must, cpctypes.CpcStakingFixedAddress, "fixed-staking-address-not-registered")
	addTo(&must, cpctypes.CpcBech32FixedAddress, "fixed-bech32-address-not-registered")
	fixed3 := common.Address{}
	fixed3[0], fixed3[1], fixed3[19] = 0xCC, 3, 3
	addTo(&must, fixed3, "next-fixed-address-pattern")
	for n := uint64(0); n <= s.ModSeq+2; n++ {
		addTo(&must, crypto.CreateAddress(cpctypes.CpcModuleAddress, n), "dynamic-address-of-module-nonce-not-registered")
	}
	var pool []cand
	for _, c := range registered {
		addTo(&pool, addrAdd(c.Addr, 1), "neighbour+1")
		addTo(&pool, addrAdd(c.Addr, -1), "neighbour-1")
	}
	for _, u := range w.users {
		addTo(&pool, u.Addr, "account-seen:user")
	}
	for _, v := range w.c.Vals {
		addTo(&pool, v.Acct.Addr, "account-seen:validator-operator")
	}
	addTo(&pool, w.proposer.Addr, "account-seen:proposer")
	addTo(&pool, cpctypes.CpcModuleAddress, "account-seen:cpc-module")
	addTo(&pool, common.BytesToAddress(vh.GovAddr), "account-seen:gov-module")
	addTo(&pool, common.BytesToAddress(authtypes.NewModuleAddress(authtypes.FeeCollectorName)), "account-seen:fee-collector")
	vh.Shuffle(r, pool)
	if len(pool) > 9 {
		pool = pool[:9]
	}
	others = append(must, pool...)
	for i := 0; i < 3; i++ {
		addTo(&others, common.BytesToAddress(r.Bytes(20)), "random")
	}
	addTo(&others, w.prober.Addr, "control:funded-code-less-account")
	addTo(&others, common.BytesToAddress(r.Bytes(20)), "control:never-seen-code-less-account")
	return
}

// probeRound runs one exposure probe over all four modes against the committed state.
// onlyAddr != nil restricts the round to one address (disabled phase).
func (w *world) probeRound(why string, only *common.Address) {
	c := w.c
	s := scanAt(c, c.QueryCtx())
	reg, oth := w.candidates(s)
	var calls []*probeCall
	mk := func(cd cand, sel string) {
		calls = append(calls, &probeCall{C: cd, Sel: sel, Data: selData(sel), Exp: expect(s, cd.Addr, sel), Obs: map[string]observation{}})
	}
	if only != nil {
		for _, sel := range []string{"name", "symbol", "decimals", "prefix"} {
			mk(cand{*only, "disabled-on-root-store"}, sel)
		}
		// an enabled contract and an unregistered address as controls
		for _, cd := range reg {
			if cd.Addr != *only {
				mk(cd, "name")
				mk(cd, "prefix")
				break
			}
		}
		mk(cand{common.BytesToAddress(w.r.Bytes(20)), "control:never-seen-code-less-account"}, "name")
	} else {
		for _, cd := range reg {
			mk(cd, "name")
			mk(cd, vh.Pick(w.r, []string{"symbol", "decimals"}))
			mk(cd, "prefix")
		}
		for _, cd := range oth {
			mk(cd, "name")
			mk(cd, vh.Pick(w.r, []string{"symbol", "decimals", "prefix", "prefix"}))
		}
	}
	// historical pass first (height 2: right after genesis, before any dynamic deployment of this world)
	if only == nil && c.Height > 3 {
		if hctx, herr := c.App.CreateQueryContext(2, false); herr == nil {
			hs := scanAt(c, hctx)
			for _, pc := range calls {
				e := expect(hs, pc.C.Addr, pc.Sel)
				pc.ExpHist, pc.HistScan = &e, hs
				pc.Obs["query-historical"] = w.ethCall(hctx, w.prober.Addr, pc.C.Addr, pc.Data)
			}
			w.run.Count("probe_historical_passes", 1)
		} else {
			w.run.Count("probe_historical_context_unavailable", 1)
		}
	}
	price := new(big.Int).Mul(c.BaseFee(), big.NewInt(2))
	if price.Sign() == 0 {
		price = big.NewInt(1)
	}
	var ops []*op
	for _, pc := range calls {
		to := pc.C.Addr
		nonce := w.seqs.Next(w.prober.Addr)
		bz, _ := c.EthTx(w.prober, vh.LegacyTx(nonce, &to, nil, 150_000, price, pc.Data))
		// simulate (runs on the check state: must come before CheckTx bumps the nonce there)
		func() {
			defer func() {
				if p := recover(); p != nil {
					pc.Obs["simulate"] = observation{Class: "failed", Err: "panic: " + clip(fmt.Sprint(p), 300)}
				}
			}()
			_, sres, err := c.App.Simulate(bz)
			if err != nil {
				pc.Obs["simulate"] = observe(nil, "", err)
				return
			}
			var rr evmtypes.MsgEthereumTxResponse
			found := false
			for _, any := range sres.MsgResponses {
				if e := rr.Unmarshal(any.Value); e == nil {
					found = true
				}
			}
			if !found {
				pc.Obs["simulate"] = observation{Class: "failed", Err: "no MsgEthereumTxResponse in simulation result"}
				return
			}
			pc.Obs["simulate"] = observe(rr.Ret, rr.VmError, nil)
		}()
		// check
		func() {
			defer func() {
				if p := recover(); p != nil {
					pc.Obs["check"] = observation{Class: "failed", Err: "panic: " + clip(fmt.Sprint(p), 300)}
				}
			}()
			cres, err := c.App.CheckTx(&abci.RequestCheckTx{Tx: bz, Type: abci.CheckTxType_New})
			switch {
			case err != nil:
				pc.Obs["check"] = observation{Class: "rejected", Err: clip(err.Error(), 300)}
			case cres.Code != 0:
				pc.Obs["check"] = observation{Class: "rejected", Err: clip(cres.Log, 300)}
			default:
				pc.Obs["check"] = observation{Class: "accepted"}
			}
		}()
		// query
		pc.Obs["query"] = w.ethCall(c.QueryCtx(), w.prober.Addr, to, pc.Data)
		ops = append(ops, &op{Kind: "probe", Signer: w.prober, SignerClass: "prober", ArgClass: pc.Sel, Desc: fmt.Sprintf("eth call %s.%s()", to.Hex(), pc.Sel), Bytes: bz, probe: pc})
		// the same call from the init code of a creation (only where an answer with data is expected: an empty answer
		// cannot be told from "no code deployed")
		if only == nil && pc.Exp.Class == "data" && len(pc.Exp.Data) < 20000 {
			init := ctorProbe(to, pc.Data)
			pc.Obs["query-create"] = w.ethCreateCall(c.QueryCtx(), w.prober.Addr, init)
			n2 := w.seqs.Next(w.prober.Addr)
			bz2, _ := c.EthTx(w.prober, vh.LegacyTx(n2, nil, nil, uint64(400_000+260*len(pc.Exp.Data)), price, init)) // code deposit: 200 gas per byte of the answer
			// keep the check state's nonce of the prober in step (the next probe's simulate / check run on it)
			func() {
				defer func() { _ = recover() }()
				_, _ = c.App.CheckTx(&abci.RequestCheckTx{Tx: bz2, Type: abci.CheckTxType_New})
			}()
			ops = append(ops, &op{Kind: "probe-create", Signer: w.prober, SignerClass: "prober", ArgClass: pc.Sel, Desc: fmt.Sprintf("create whose init code calls %s.%s()", to.Hex(), pc.Sel), Bytes: bz2, probe: pc,
				created: crypto.CreateAddress(w.prober.Addr, n2)})
		}
	}
	ob := w.runBlock(ops)
	if ob.Err != nil {
		return
	}
	for i, o := range ops {
		res := ob.Res.TxResults[i]
		er := vh.EthResponse(res)
		if o.Kind == "probe-create" {
			switch {
			case er == nil:
				o.probe.Obs["deliver-create"] = observation{Class: "failed", Err: fmt.Sprintf("code %d: %s", res.Code, clip(res.Log, 300))}
			case er.VmError != "":
				o.probe.Obs["deliver-create"] = observe(nil, er.VmError, nil)
			default: // the deployed runtime code IS the precompile's answer
				o.probe.Obs["deliver-create"] = observe(c.App.EvmKeeper.GetCode(c.QueryCtx(), c.App.EvmKeeper.GetCodeHash(c.QueryCtx(), o.created.Bytes())), "", nil)
			}
			continue
		}
		if er == nil {
			o.probe.Obs["deliver"] = observation{Class: "failed", Err: fmt.Sprintf("code %d: %s", res.Code, clip(res.Log, 300))}
		} else {
			o.probe.Obs["deliver"] = observe(er.Ret, er.VmError, nil)
		}
	}
	w.run.Count("probe_rounds", 1)
	w.run.Count("probe_rounds_"+why, 1)
	for _, pc := range calls {
		w.judge(pc, s, why)
	}
}

func (w *world) ethCall(ctx sdk.Context, from, to common.Address, data []byte) (o observation) {
	defer func() {
		if p := recover(); p != nil {
			o = observation{Class: "failed", Err: "panic: " + clip(fmt.Sprint(p), 300)}
		}
	}()
	d := hexutil.Bytes(data)
	args, _ := json.Marshal(evmtypes.TransactionArgs{From: &from, To: &to, Data: &d})
	res, err := w.c.App.EvmKeeper.EthCall(ctx, &evmtypes.EthCallRequest{Args: args, GasCap: 1_000_000})
	if err != nil {
		return observe(nil, "", err)
	}
	return observe(res.Ret, res.VmError, nil)
}

// "query-historical" = EthCall on the state of an old height, issued BEFORE the other modes of the same round: the
// answer must follow the registry of THAT height, and serving it must not change what the later modes see
// "query-create" / "deliver-create" = the same call made by the INIT CODE of a contract creation (STATICCALL to the target,
// the answer returned as runtime code): precompiles must be wired into the EVM of creation messages too
func (w *world) ethCreateCall(ctx sdk.Context, from common.Address, init []byte) (o observation) {
	defer func() {
		if p := recover(); p != nil {
			o = observation{Class: "failed", Err: "panic: " + clip(fmt.Sprint(p), 300)}
		}
	}()
	d := hexutil.Bytes(init)
	args, _ := json.Marshal(evmtypes.TransactionArgs{From: &from, Data: &d})
	res, err := w.c.App.EvmKeeper.EthCall(ctx, &evmtypes.EthCallRequest{Args: args, GasCap: 8_000_000})
	if err != nil {
		return observe(nil, "", err)
	}
	return observe(res.Ret, res.VmError, nil)
}

var modes = []string{"query-historical", "simulate", "check", "query", "deliver", "query-create", "deliver-create"}

// ctorProbe is init code that STATICCALLs target with data and returns the callee's return data as the runtime code.
func ctorProbe(target common.Address, data []byte) []byte {
	a := vh.NewAsm().CallWithData(vh.STATICCALL, target, nil, 0, data, 0).Op(vm.POP)
	a.Op(vm.RETURNDATASIZE).PushU(0).PushU(0).Op(vm.RETURNDATACOPY)
	a.Op(vm.RETURNDATASIZE).PushU(0).Op(vm.RETURN)
	return a.Bytes()
}

// judge compares the four observations of one call with the expectation.
func (w *world) judge(pc *probeCall, s *scan, why string) {
	for _, mode := range modes {
		ob, ok := pc.Obs[mode]
		if !ok {
			continue
		}
		exp, s := pc.Exp, s
		if mode == "query-historical" {
			if pc.ExpHist == nil {
				continue
			}
			exp, s = *pc.ExpHist, pc.HistScan
		}
		w.run.Eval(1)
		w.run.Count("probe_obs_mode_"+mode, 1)
		switch {
		case exp.Target == "unregistered":
			w.run.Count("probe_obs_unregistered", 1)
		case exp.Class == "no-data":
			w.run.Count("disabled_probe_obs", 1)
		default:
			w.run.Count("probe_obs_registered", 1)
		}
		tclass := exp.Target
		if tclass == "unregistered" {
			tclass += ":" + pc.C.Why
		}
		w.run.Nontrivial(fmt.Sprintf("probe|%s|%s|%s", mode, tclass, pc.Sel))
		w.run.Distinct("probe_target_class", tclass)
		sig := ""
		typ := ""
		if r := s.Records[pc.C.Addr]; r != nil {
			typ = typeName(r.Type)
		}
		if mode == "check" {
			// CheckTx runs the ante chain only: a call to a registered, enabled contract must be admitted
			if exp.Target != "unregistered" && exp.Class != "no-data" && ob.Class != "accepted" {
				sig = "registered-contract-not-callable:" + typ + ":check"
			}
		} else {
			switch exp.Class {
			case "empty": // unregistered: behaves like an account without code
				switch ob.Class {
				case "empty":
				case "failed":
					// the call never produced an EVM result (e.g. evermint refuses to touch an empty module
					// account: "prohibited to destroy existing account"): no precompile code ran, so this is
					// outside the property; counted as evidence only
					w.run.Count("probe_unregistered_call_failed_"+mode, 1)
					w.run.Distinct("probe_unregistered_call_failed_target", pc.C.Why)
				default:
					sig = "unregistered-address-executes:" + mode
				}
			case "data":
				switch {
				case ob.Class == "data" && bytes.Equal(common.FromHex(ob.Ret), exp.Data):
				case ob.Class == "data":
					sig = "registered-contract-wrong-answer:" + typ + ":" + mode
				default:
					sig = "registered-contract-not-callable:" + typ + ":" + mode
				}
			case "revert-or-empty": // a method this contract type does not have
				if ob.Class == "data" {
					sig = "registered-contract-wrong-answer:" + typ + ":" + mode
				} else if ob.Class == "failed" {
					sig = "registered-contract-not-callable:" + typ + ":" + mode
				}
			case "no-data": // disabled: precompile code must not run
				if ob.Class == "data" {
					sig = "disabled-contract-executes"
				}
			}
		}
		if sig != "" {
			how := ""
			switch pc.C.Why {
			case "disabled-on-branch":
				how = "ctx := branch of the committed state; CPCKeeper.SetCustomPrecompiledContractMeta(ctx, stored metadata with Disabled=true, newDeployment=false) (the call an upgrade handler would make); EvmKeeper.EthCall(ctx, ...) on the same branch; the raw store scan of the branch shows disabled=true"
			case "disabled-on-root-store":
				how = "between two blocks CPCKeeper.SetCustomPrecompiledContractMeta(uncached root context, stored metadata with Disabled=true, false) (what a committed upgrade-handler write leaves behind); then the probe transaction was simulated, checked, delivered in the next block and the call repeated through EthCall; the registry scan of the committed state shows disabled=true"
			}
			w.violation(sig, map[string]any{"how_disabled": how, "mode": mode, "round": why, "address": pc.C.Addr.Hex(), "why_probed": pc.C.Why, "method": pc.Sel, "calldata": hex.EncodeToString(pc.Data),
				"expected": map[string]any{"target": exp.Target, "class": exp.Class, "return_data": hex.EncodeToString(exp.Data)},
				"observed": ob, "all_modes": pc.Obs, "registry": s.summary()})
		}
	}
	if len(w.rec.samples) < 4 && pc.Exp.Class == "data" && w.r.Chance(1, 6) {
		w.rec.samples = append(w.rec.samples, map[string]any{"world": w.label, "probe": pc.C.Addr.Hex(), "target": pc.Exp.Target, "method": pc.Sel, "observed": pc.Obs})
	}
}

// downgradeProbe exercises the no-downgrade rule on an injected state: on a branch of the
// committed state the stored protocol version is raised to 2 (as a later binary would have
// written it), then the real message server is asked, with the gov authority, to set version 1.
func (w *world) downgradeProbe() {
	c := w.c
	ctx := c.QueryCtx()
	before := scanAt(c, ctx)
	raised := cpctypes.Params{ProtocolVersion: 2, WhitelistedDeployers: before.Whitelist}
	bz, err := raised.Marshal()
	if err != nil {
		return
	}
	ctx.MultiStore().GetKVStore(c.App.GetKVStoreKey()[cpctypes.StoreKey]).Set([]byte{pfxParams}, bz)
	mid := scanAt(c, ctx)
	msg := &cpctypes.MsgUpdateParams{Authority: vh.GovAddr.String(), NewParams: cpctypes.Params{ProtocolVersion: 1, WhitelistedDeployers: before.Whitelist}}
	var herr error
	func() {
		defer func() {
			if p := recover(); p != nil {
				herr = fmt.Errorf("panic: %v", p)
			}
		}()
		h := c.App.MsgServiceRouter().Handler(msg)
		if h == nil {
			herr = fmt.Errorf("no handler")
			return
		}
		_, herr = h(ctx, msg)
	}()
	after := scanAt(c, ctx)
	w.run.Count("downgrade_probes", 1)
	w.run.Eval(1)
	w.run.Nontrivial("downgrade-probe|injected-version-2")
	if mid.Version == 2 && after.Version < mid.Version {
		w.violation("protocol-version-decreased", map[string]any{"how": "injected state: stored version raised to 2 on a branch, then MsgUpdateParams(version 1) through the message router with the gov authority",
			"version_before": mid.Version, "version_after": after.Version, "handler_error": fmt.Sprint(herr)})
	}
}

// disabledPhase marks contracts disabled the way an upgrade handler would and probes them.
func (w *world) disabledPhase() {
	c := w.c
	s := scanAt(c, c.QueryCtx())
	addrs := s.sortedAddrs()
	if len(addrs) == 0 {
		return
	}
	decode := func(r *record) (cpctypes.CustomPrecompiledContractMeta, bool) {
		var m cpctypes.CustomPrecompiledContractMeta
		if err := m.Unmarshal(r.Raw); err != nil {
			return m, false
		}
		return m, true
	}
	// (a) query mode, on a branch: every registered contract in turn
	for _, a := range addrs {
		m, ok := decode(s.Records[a])
		if !ok {
			continue
		}
		ctx := c.QueryCtx()
		m.Disabled = true
		if err := c.App.CPCKeeper.SetCustomPrecompiledContractMeta(ctx, m, false); err != nil {
			w.run.Count("disable_write_refused", 1)
			continue
		}
		bs := scanAt(c, ctx)
		if r := bs.Records[a]; r == nil || !r.Disabled {
			w.run.Count("disable_write_not_visible", 1)
			continue
		}
		for _, sel := range []string{"name", "decimals", "prefix"} {
			pc := &probeCall{C: cand{a, "disabled-on-branch"}, Sel: sel, Data: selData(sel), Exp: expect(bs, a, sel), Obs: map[string]observation{}}
			pc.Obs["query"] = w.ethCall(ctx, w.prober.Addr, a, pc.Data)
			w.judge(pc, bs, "disabled-on-branch")
		}
	}
	// (b) all modes: the flag is written to the root store between two blocks (what a committed
	// upgrade-handler write looks like to the next block), for one contract
	a := vh.Pick(w.r, addrs)
	m, ok := decode(s.Records[a])
	if !ok {
		return
	}
	m.Disabled = true
	uctx := c.App.NewUncachedContext(false, c.Header())
	if err := c.App.CPCKeeper.SetCustomPrecompiledContractMeta(uctx, m, false); err != nil {
		w.run.Count("disable_write_refused", 1)
		return
	}
	w.prev = scanAt(c, c.QueryCtx()) // the harness' own write is not a transition of the system
	if r := w.prev.Records[a]; r == nil || !r.Disabled {
		w.run.Count("disable_write_not_visible", 1)
		return
	}
	w.probeRound("disabled-on-root-store", &a)
}
