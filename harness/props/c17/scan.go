// Package c17 monitors property C17: custom-precompile registry integrity and exact EVM exposure.
package c17

import (
	"bytes"
	"encoding/hex"
	"encoding/json"
	"fmt"
	"math/big"
	"sort"

	storetypes "cosmossdk.io/store/types"
	sdk "github.com/cosmos/cosmos-sdk/types"
	"github.com/ethereum/go-ethereum/common"

	cpctypes "github.com/EscanBE/evermint/v12/x/cpc/types"

	"verifharness/vh"
)

// Raw store layout of x/cpc, written down from the property's anchors (x/cpc/types/keys.go):
// 0x01 params, 0x02|addr metadata, 0x03|denom -> address, 0x04|owner|spender allowance.
const (
	pfxParams = 0x01
	pfxMeta   = 0x02
	pfxIndex  = 0x03
)

const (
	typErc20   = 1
	typStaking = 2
	typBech32  = 3
)

func typeName(t uint32) string {
	switch t {
	case typErc20:
		return "erc20"
	case typStaking:
		return "staking"
	case typBech32:
		return "bech32"
	}
	return fmt.Sprintf("type%d", t)
}

// record is one metadata entry as found in the store (decoded independently of the keeper).
type record struct {
	Key      common.Address // address taken from the store key
	Addr     []byte         // address field inside the value
	Raw      []byte
	Type     uint32
	Name     string
	Typed    string
	Disabled bool
	Symbol   string
	Decimals uint8
	Denom    string
	BadValue string // decoding problem, if any
}

func (r *record) String() string {
	return fmt.Sprintf("%s{%s name=%q sym=%q dec=%d denom=%q disabled=%v}", r.Key.Hex(), typeName(r.Type), clip(r.Name, 40), clip(r.Symbol, 24), r.Decimals, clip(r.Denom, 70), r.Disabled)
}

func clip(s string, n int) string {
	if len(s) > n {
		return fmt.Sprintf("%s…(%d bytes)", s[:n], len(s))
	}
	return s
}

// scan is the registry as observed at one boundary.
type scan struct {
	Records   map[common.Address]*record
	Index     map[string][]byte // denom -> raw value
	ParamsRaw []byte
	Version   uint32
	Whitelist []string
	Supply    map[string]string // denom -> total supply (x/bank, trusted)
	ModSeq    uint64            // sequence of the cpc module account (nonce of dynamic addresses)
	Proposals map[uint64]int32  // gov proposal id -> status
}

func (s *scan) whitelisted(bech string) bool {
	for _, w := range s.Whitelist {
		if w == bech {
			return true
		}
	}
	return false
}

func (s *scan) supplyPositive(denom string) bool {
	v, ok := new(big.Int).SetString(s.Supply[denom], 10)
	return ok && v.Sign() > 0
}

func (s *scan) sortedAddrs() []common.Address {
	out := make([]common.Address, 0, len(s.Records))
	for a := range s.Records {
		out = append(out, a)
	}
	sort.Slice(out, func(i, j int) bool { return bytes.Compare(out[i][:], out[j][:]) < 0 })
	return out
}

func (s *scan) summary() map[string]any {
	var recs []string
	for _, a := range s.sortedAddrs() {
		recs = append(recs, s.Records[a].String())
	}
	idx := map[string]string{}
	for d, v := range s.Index {
		idx[clip(d, 70)] = "0x" + hex.EncodeToString(v)
	}
	return map[string]any{"records": recs, "denom_index": idx, "protocol_version": s.Version, "whitelist": s.Whitelist, "cpc_module_sequence": s.ModSeq}
}

// scanAt reads the registry through ctx. It must be called inside the tx-boundary observer
// (or on a fresh query context), never on a saved context.
func scanAt(c *vh.Chain, ctx sdk.Context) *scan {
	s := &scan{Records: map[common.Address]*record{}, Index: map[string][]byte{}, Supply: map[string]string{}}
	key := c.App.GetKVStoreKey()[cpctypes.StoreKey]
	st := ctx.MultiStore().GetKVStore(key)
	it := st.Iterator(nil, nil)
	for ; it.Valid(); it.Next() {
		k, v := append([]byte{}, it.Key()...), append([]byte{}, it.Value()...)
		if len(k) == 0 {
			continue
		}
		switch k[0] {
		case pfxParams:
			if len(k) == 1 {
				s.ParamsRaw = v
				var p cpctypes.Params
				if err := p.Unmarshal(v); err == nil {
					s.Version = p.ProtocolVersion
					s.Whitelist = append([]string{}, p.WhitelistedDeployers...)
				}
			}
		case pfxMeta:
			r := &record{Key: common.BytesToAddress(k[1:]), Raw: v}
			if len(k) != 21 {
				r.BadValue = fmt.Sprintf("metadata key of %d bytes", len(k))
			}
			var m cpctypes.CustomPrecompiledContractMeta
			if err := m.Unmarshal(v); err != nil {
				r.BadValue = "undecodable metadata: " + err.Error()
			} else {
				r.Addr, r.Type, r.Name, r.Typed, r.Disabled = m.Address, m.CustomPrecompiledType, m.Name, m.TypedMeta, m.Disabled
				var tm struct {
					Symbol   string `json:"symbol"`
					Decimals uint8  `json:"decimals"`
					MinDenom string `json:"min_denom"`
				}
				if r.Type == typErc20 || r.Type == typStaking {
					if err := json.Unmarshal([]byte(m.TypedMeta), &tm); err != nil {
						r.BadValue = "undecodable typed metadata: " + err.Error()
					}
					r.Symbol, r.Decimals, r.Denom = tm.Symbol, tm.Decimals, tm.MinDenom
				}
			}
			s.Records[r.Key] = r
		case pfxIndex:
			s.Index[string(k[1:])] = v
		}
	}
	it.Close()
	c.App.BankKeeper.IterateTotalSupply(ctx, func(cn sdk.Coin) bool {
		s.Supply[cn.Denom] = cn.Amount.String()
		return false
	})
	if acc := c.App.AccountKeeper.GetAccount(ctx, cpctypes.CpcModuleAddress.Bytes()); acc != nil {
		s.ModSeq = acc.GetSequence()
	}
	s.Proposals = c.ProposalStatuses(ctx)
	return s
}

var _ = storetypes.StoreKey(nil)

// finding is one refutation candidate produced by the oracles below.
type finding struct {
	Sig    string
	Detail map[string]any
}

// checkState asserts the invariants that must hold in every single observed state:
// unique addresses, at most one ERC-20 record per denomination, denom->address index equal to
// the metadata in both directions.
func checkState(s *scan) []finding {
	var out []finding
	add := func(sig string, d map[string]any) { out = append(out, finding{sig, d}) }
	seenAddr := map[common.Address]common.Address{}
	byDenom := map[string]common.Address{}
	for _, a := range s.sortedAddrs() {
		r := s.Records[a]
		if r.BadValue != "" {
			add("registry-record-undecodable", map[string]any{"key": a.Hex(), "problem": r.BadValue, "raw": hex.EncodeToString(r.Raw)})
			continue
		}
		inner := common.BytesToAddress(r.Addr)
		if len(r.Addr) != 20 || inner != a {
			add("metadata-address-differs-from-key", map[string]any{"key": a.Hex(), "address_field": hex.EncodeToString(r.Addr)})
		}
		if other, dup := seenAddr[inner]; dup {
			add("two-records-share-address", map[string]any{"address": inner.Hex(), "keys": []string{other.Hex(), a.Hex()}})
		}
		seenAddr[inner] = a
		if r.Type == typErc20 {
			if other, dup := byDenom[r.Denom]; dup {
				add("two-erc20-records-share-denom", map[string]any{"denom": r.Denom, "addresses": []string{other.Hex(), a.Hex()}})
			}
			byDenom[r.Denom] = a
			iv, ok := s.Index[r.Denom]
			switch {
			case !ok:
				add("denom-index-missing-for-erc20-record", map[string]any{"denom": r.Denom, "address": a.Hex()})
			case common.BytesToAddress(iv) != a || len(iv) != 20:
				add("denom-index-points-elsewhere", map[string]any{"denom": r.Denom, "record_address": a.Hex(), "index_value": hex.EncodeToString(iv)})
			}
		}
	}
	var denoms []string
	for d := range s.Index {
		denoms = append(denoms, d)
	}
	sort.Strings(denoms)
	for _, d := range denoms {
		iv := s.Index[d]
		r := s.Records[common.BytesToAddress(iv)]
		switch {
		case len(iv) != 20 || r == nil:
			add("denom-index-entry-without-record", map[string]any{"denom": d, "index_value": hex.EncodeToString(iv)})
		case r.Type != typErc20:
			add("denom-index-entry-for-non-erc20-record", map[string]any{"denom": d, "record": r.String()})
		case r.Denom != d:
			add("denom-index-entry-disagrees-with-record-denom", map[string]any{"denom": d, "record": r.String()})
		}
	}
	return out
}

// transition describes what happened between two consecutive scans.
type transition struct {
	Kind string // "tx", "begin-block", "end-block"
	// for Kind == "tx"
	SignerBech string // the account whose key signed the transaction
	TxOK       bool   // result code 0
	// for Kind == "end-block": the messages of the governance proposals that moved to PASSED in
	// this EndBlock, in execution order
	Passed []passedMsg
}

type wantParams struct {
	Version   uint32
	Whitelist []string
}

// checkTransition asserts the history invariants between two consecutive scans.
func checkTransition(pre, post *scan, t transition) []finding {
	var out []finding
	add := func(sig string, d map[string]any) {
		if d == nil {
			d = map[string]any{}
		}
		d["transition"] = t.Kind
		out = append(out, finding{sig, d})
	}
	// records are never removed, never change type (nor anything else: no message updates a record,
	// so a changed record means a deployment re-used an address)
	for _, a := range pre.sortedAddrs() {
		p := pre.Records[a]
		q := post.Records[a]
		switch {
		case q == nil:
			add("record-removed", map[string]any{"record": p.String()})
		case q.Type != p.Type:
			add("record-type-changed", map[string]any{"before": p.String(), "after": q.String()})
		case !bytes.Equal(q.Raw, p.Raw):
			add("existing-record-overwritten", map[string]any{"before": p.String(), "after": q.String()})
		}
	}
	if post.Version < pre.Version {
		add("protocol-version-decreased", map[string]any{"before": pre.Version, "after": post.Version})
	}
	var fresh []*record
	for _, a := range post.sortedAddrs() {
		if pre.Records[a] == nil {
			fresh = append(fresh, post.Records[a])
		}
	}
	paramsChanged := !bytes.Equal(pre.ParamsRaw, post.ParamsRaw)
	switch t.Kind {
	case "tx":
		if paramsChanged {
			add("params-changed-by-user-transaction", map[string]any{"before": pre.summary(), "after": post.summary(), "signer": t.SignerBech})
		}
		for _, r := range fresh {
			if !t.TxOK {
				add("failed-transaction-created-record", map[string]any{"record": r.String(), "signer": t.SignerBech})
			}
			if !pre.whitelisted(t.SignerBech) {
				add("record-created-by-non-whitelisted-signer", map[string]any{"record": r.String(), "signer": t.SignerBech, "whitelist_before": pre.Whitelist})
			}
		}
	case "begin-block":
		if paramsChanged {
			add("params-changed-outside-governance", map[string]any{"before": pre.summary(), "after": post.summary()})
		}
		for _, r := range fresh {
			add("record-created-outside-transaction", map[string]any{"record": r.String()})
		}
	case "end-block":
		// fold the passed proposal messages over the whitelist in force before EndBlock
		wl := append([]string{}, pre.Whitelist...)
		var last *wantParams
		allowed := 0
		var auths []string
		for _, m := range t.Passed {
			if m.Params != nil {
				last = m.Params
				wl = m.Params.Whitelist
			}
			if m.DeployAuth != "" {
				auths = append(auths, m.DeployAuth)
				for _, x := range wl {
					if x == m.DeployAuth {
						allowed++
						break
					}
				}
			}
		}
		if paramsChanged && last == nil {
			add("params-changed-outside-governance", map[string]any{"before": pre.summary(), "after": post.summary()})
		}
		if last != nil && (post.Version != last.Version || !sameStrings(post.Whitelist, last.Whitelist)) {
			add("passed-governance-params-not-in-force", map[string]any{"voted": last, "after": post.summary()})
		}
		if len(fresh) > allowed {
			for _, r := range fresh {
				add("record-created-outside-transaction", map[string]any{"record": r.String(), "passed_deploy_authorities": auths, "whitelist_before": pre.Whitelist})
			}
		}
	}
	// a new ERC-20 record needs positive supply of its denomination at deployment time
	for _, r := range fresh {
		if r.Type == typErc20 && !pre.supplyPositive(r.Denom) {
			add("erc20-record-for-zero-supply-denom", map[string]any{"record": r.String(), "supply_before": pre.Supply[r.Denom]})
		}
	}
	return out
}

func sameStrings(a, b []string) bool {
	if len(a) != len(b) {
		return false
	}
	for i := range a {
		if a[i] != b[i] {
			return false
		}
	}
	return true
}
